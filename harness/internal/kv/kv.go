// Package kv: family "kv" (C15, C16): programs over stacks of the real store wrappers
// (cachekv, prefix, gaskv, tracekv over a MemDB or IAVL base), compared with the Lean model and
// checked against a simple overlay oracle (monitor).
package kv

import (
	"bytes"
	"encoding/base64"
	"encoding/hex"
	"encoding/json"
	"fmt"
	"math/rand"
	"sort"
	"strconv"
	"strings"

	"github.com/tendermint/iavl"
	dbm "github.com/tendermint/tm-db"

	"github.com/pokt-network/posmint/store/cachekv"
	"github.com/pokt-network/posmint/store/dbadapter"
	"github.com/pokt-network/posmint/store/gaskv"
	iavlstore "github.com/pokt-network/posmint/store/iavl"
	"github.com/pokt-network/posmint/store/prefix"
	"github.com/pokt-network/posmint/store/tracekv"
	stypes "github.com/pokt-network/posmint/store/types"

	"verif/harness/internal/common"
)

type layer struct {
	kind  string // mem cache pfx gas trace
	pre   []byte
	store stypes.KVStore
	// oracle state for cache layers: the overlay (nil value = delete) and the values the wrapper
	// has read and memoised since its last Write (a wrapper is a snapshot of what it has read)
	overlay map[string][]byte
	clean   map[string][]byte
	cleanOK map[string]bool
}

type Fam struct {
	Profile string
	layers  []*layer
	meter   stypes.GasMeter
	limit   uint64
	tbuf    bytes.Buffer
	iters   map[int]stypes.Iterator
	baseDB  dbm.DB
	nextIt  int
	opsInProg int
	extra   map[string]int
	poisoned bool
	script   []string // scripted follow-up operations (multi-step probes)
	staleOK  bool // a lower layer was written directly: wrappers above may legitimately be stale
}

func New(profile string) *Fam {
	f := &Fam{Profile: profile, extra: map[string]int{}}
	f.reset(0)
	return f
}

func (f *Fam) Extra() map[string]int { return f.extra }

func (f *Fam) reset(limit uint64) {
	for _, it := range f.iters {
		func() { defer func() { recover() }(); it.Close() }()
	}
	f.iters = map[int]stypes.Iterator{}
	f.limit = limit
	f.meter = stypes.NewGasMeter(limit)
	f.tbuf.Reset()
	f.nextIt = 0
	f.opsInProg = 0
	f.poisoned = false
	f.staleOK = false
	f.script = nil
	var base stypes.KVStore
	if f.Profile == "iavl" {
		db := dbm.NewMemDB()
		tree := iavl.NewMutableTree(db, 100)
		base = iavlstore.UnsafeNewStore(tree, 0, 0)
		f.baseDB = db
	} else {
		db := dbm.NewMemDB()
		f.baseDB = db
		base = dbadapter.Store{DB: db}
	}
	f.layers = []*layer{{kind: "mem", store: base}}
}

func (f *Fam) top() *layer { return f.layers[len(f.layers)-1] }

// ---------- generation

var alphabet = []byte{0x00, 0x01, 0xff}

func genKey(r *rand.Rand) []byte {
	n := r.Intn(4)
	if n == 0 && r.Intn(4) != 0 {
		n = 1
	}
	k := make([]byte, n)
	for i := range k {
		if r.Intn(8) == 0 {
			k[i] = byte(r.Intn(256))
		} else {
			k[i] = alphabet[r.Intn(len(alphabet))]
		}
	}
	return k
}

func genVal(r *rand.Rand) []byte {
	n := 1 + r.Intn(5)
	if r.Intn(12) == 0 {
		n = 0
	}
	v := make([]byte, n)
	r.Read(v)
	return v
}

func hx(b []byte) string {
	if len(b) == 0 {
		return "-"
	}
	return hex.EncodeToString(b)
}

func unhx(s string) []byte {
	if s == "-" {
		return []byte{}
	}
	b, err := hex.DecodeString(s)
	if err != nil {
		panic(err)
	}
	return b
}

// iteratorsSupported: no cache above a gas/trace layer (the model's grammar for iterators).
func (f *Fam) iteratorsSupported() bool {
	seenLazy := false
	for _, l := range f.layers {
		if l.kind == "gas" || l.kind == "trace" {
			seenLazy = true
		}
		if l.kind == "cache" && seenLazy {
			return false
		}
	}
	return true
}

// landsInCache: a write on the top is absorbed by a cache layer (so open iterators, which are
// snapshots on the cache side and read an unchanged parent, are unaffected).
func (f *Fam) landsInCache() bool {
	for i := len(f.layers) - 1; i >= 0; i-- {
		if f.layers[i].kind == "cache" {
			return true
		}
	}
	return false
}

func (f *Fam) hasKindBelowTop(kind string) bool {
	for _, l := range f.layers {
		if l.kind == kind {
			return true
		}
	}
	return false
}

func (f *Fam) Gen(r *rand.Rand, i int) string {
	if i == 0 || f.poisoned || f.opsInProg > 40+r.Intn(200) {
		lim := uint64(0)
		switch r.Intn(6) {
		case 0:
			lim = uint64(r.Intn(20000))
		case 1:
			lim = uint64(2000 + r.Intn(200000))
		case 2:
			lim = ^uint64(0) - uint64(r.Intn(5000)) // near overflow
		case 3:
			return "new inf" // the infinite meter (no limit; only the uint64 overflow is reported)
		default:
			lim = 1 << 40
		}
		return fmt.Sprintf("new %d", lim)
	}
	if len(f.script) > 0 {
		op := f.script[0]
		f.script = f.script[1:]
		return op
	}
	if r.Intn(150) == 0 {
		return fmt.Sprintf("mon.mstrace %d", r.Int63())
	}
	// probe: a wrapper that has only been read is written, a sibling then changes the shared
	// parent, and the wrapper is read again: it must be clean after Write
	if f.top().kind == "cache" && len(f.layers) > 1 && len(f.iters) == 0 && r.Intn(40) == 0 {
		k := hx(genKey(r))
		f.script = []string{"write", "lset 1 " + k + " " + hx(genVal(r)), "get " + k, "has " + k}
		if r.Intn(2) == 0 {
			f.script[1] = "ldel 1 " + k
		}
		return "get " + k
	}
	gb := func() string { // bound
		if r.Intn(3) == 0 {
			return "nil"
		}
		return hx(genKey(r))
	}
	dir := func() string {
		if r.Intn(2) == 0 {
			return "asc"
		}
		return "desc"
	}
	for {
		switch x := r.Intn(100); {
		case x < 6:
			kinds := []string{"cache", "cache", "cache", "pfx", "pfx", "gas", "trace"}
			k := kinds[r.Intn(len(kinds))]
			if len(f.layers) > 6 {
				continue
			}
			if k == "pfx" {
				pres := [][]byte{{0x00}, {0x01, 0xff}, {0xff}, {0xff, 0xff}, {0x01}, {}, genKey(r)}
				return "push pfx " + hx(pres[r.Intn(len(pres))])
			}
			return "push " + k
		case x < 9:
			if len(f.layers) > 1 && len(f.iters) == 0 {
				return "pop"
			}
		case x < 30:
			if len(f.iters) == 0 || f.landsInCache() {
				return "set " + hx(genKey(r)) + " " + hx(genVal(r))
			}
		case x < 40:
			if len(f.iters) == 0 || f.landsInCache() {
				return "del " + hx(genKey(r))
			}
		case x < 55:
			return "get " + hx(genKey(r))
		case x < 62:
			return "has " + hx(genKey(r))
		case x < 67:
			if f.top().kind == "cache" && len(f.iters) == 0 {
				return "write"
			}
		case x < 68:
			// a sibling changes a shared parent: set/delete on a layer below the top
			if len(f.layers) > 1 && len(f.iters) == 0 {
				n := 1 + r.Intn(len(f.layers)-1)
				if r.Intn(3) == 0 {
					return fmt.Sprintf("ldel %d %s", n, hx(genKey(r)))
				}
				return fmt.Sprintf("lset %d %s %s", n, hx(genKey(r)), hx(genVal(r)))
			}
		case x < 71:
			return "dump"
		case x < 72:
			if f.limit > 1<<50 && r.Intn(3) == 0 {
				return fmt.Sprintf("burn %d", ^uint64(0)-f.meter.GasConsumed()-uint64(r.Intn(6000)))
			}
			return fmt.Sprintf("burn %d", r.Intn(3000))
		case x < 86:
			if f.iteratorsSupported() {
				a := "-"
				if r.Intn(3) != 0 {
					a = hx(genKey(r))
				}
				return fmt.Sprintf("iterall %s %s %s", a, gb(), dir())
			}
		case x < 90:
			if f.iteratorsSupported() && len(f.iters) < 3 {
				a := "-"
				if r.Intn(3) != 0 {
					a = hx(genKey(r))
				}
				f.nextIt++
				return fmt.Sprintf("iter %d %s %s %s", f.nextIt, a, gb(), dir())
			}
		default:
			if len(f.iters) > 0 {
				ids := make([]int, 0)
				for id := range f.iters {
					ids = append(ids, id)
				}
				sort.Ints(ids)
				id := ids[r.Intn(len(ids))]
				ops := []string{"valid", "key", "value", "next", "next", "key", "value", "close"}
				return fmt.Sprintf("%s %d", ops[r.Intn(len(ops))], id)
			}
		}
	}
}

// ---------- oracle: views

// view returns the expected content of layer i as a map.
func (f *Fam) hasKind(kind string) bool {
	for _, l := range f.layers {
		if l.kind == kind {
			return true
		}
	}
	return false
}

func (f *Fam) view(i int) map[string][]byte {
	l := f.layers[i]
	switch l.kind {
	case "mem":
		m := map[string][]byte{}
		it := l.store.Iterator(nil, nil)
		for ; it.Valid(); it.Next() {
			m[string(it.Key())] = append([]byte{}, it.Value()...)
		}
		it.Close()
		return m
	case "cache":
		m := f.view(i - 1)
		for k, v := range l.overlay {
			if v == nil {
				delete(m, k)
			} else {
				m[k] = v
			}
		}
		return m
	case "pfx":
		m := map[string][]byte{}
		for k, v := range f.view(i - 1) {
			if strings.HasPrefix(k, string(l.pre)) {
				m[k[len(l.pre):]] = v
			}
		}
		return m
	default:
		return f.view(i - 1)
	}
}

// expGet is what Get(key) on layer i must return, including the memoisation of clean reads.
func (f *Fam) expGet(i int, key []byte) ([]byte, bool) {
	l := f.layers[i]
	switch l.kind {
	case "mem":
		v := l.store.Get(key)
		return v, v != nil
	case "cache":
		if v, ok := l.overlay[string(key)]; ok {
			return v, v != nil
		}
		if l.cleanOK[string(key)] {
			v := l.clean[string(key)]
			return v, v != nil
		}
		v, ok := f.expGet(i-1, key)
		l.cleanOK[string(key)] = true
		if ok {
			l.clean[string(key)] = v
		} else {
			l.clean[string(key)] = nil
		}
		return v, ok
	case "pfx":
		return f.expGet(i-1, append(append([]byte{}, l.pre...), key...))
	default:
		return f.expGet(i-1, key)
	}
}

func rangeOf(m map[string][]byte, a []byte, b []byte, bNil bool, asc bool) string {
	keys := make([]string, 0, len(m))
	for k := range m {
		if bytes.Compare([]byte(k), a) < 0 {
			continue
		}
		if !bNil && bytes.Compare([]byte(k), b) >= 0 {
			continue
		}
		keys = append(keys, k)
	}
	sort.Strings(keys)
	if !asc {
		for i, j := 0, len(keys)-1; i < j; i, j = i+1, j-1 {
			keys[i], keys[j] = keys[j], keys[i]
		}
	}
	parts := make([]string, len(keys))
	for i, k := range keys {
		parts[i] = hx([]byte(k)) + "=" + hx(m[k])
	}
	return "[" + strings.Join(parts, ",") + "]"
}

// ---------- execution

type traceRec struct {
	Operation string `json:"operation"`
	Key       string `json:"key"`
	Value     string `json:"value"`
}

func (f *Fam) drainTrace() string {
	var parts []string
	for _, line := range strings.Split(f.tbuf.String(), "\n") {
		if line == "" {
			continue
		}
		var t traceRec
		if err := json.Unmarshal([]byte(line), &t); err != nil {
			parts = append(parts, "undecodable")
			continue
		}
		k, _ := base64.StdEncoding.DecodeString(t.Key)
		v, _ := base64.StdEncoding.DecodeString(t.Value)
		parts = append(parts, t.Operation+":"+hx(k)+":"+hx(v))
	}
	f.tbuf.Reset()
	return "[" + strings.Join(parts, ",") + "]"
}

func panicKind(e interface{}) string {
	switch v := e.(type) {
	case stypes.ErrorOutOfGas:
		return "oog"
	case stypes.ErrorGasOverflow:
		return "overflow"
	case string:
		if strings.Contains(v, "nvalid") {
			return "invalid"
		}
		return "other:" + v
	case error:
		if strings.Contains(v.Error(), "nvalid") {
			return "invalid"
		}
		return "other:" + v.Error()
	}
	return fmt.Sprintf("other:%v", e)
}

func (f *Fam) fin(res string) string {
	return fmt.Sprintf("%s g=%d t=%s", res, f.meter.GasConsumed(), f.drainTrace())
}

func (f *Fam) guarded(fn func() string) (res string) {
	defer func() {
		if e := recover(); e != nil {
			res = f.fin("panic:" + panicKind(e))
		}
	}()
	return f.fin(fn())
}

func (f *Fam) gasLayersInZone() (n int, clean bool) {
	// counts gas layers above the topmost cache/mem; clean = no gas/trace below that point
	i := len(f.layers) - 1
	for ; i >= 0; i-- {
		k := f.layers[i].kind
		if k == "cache" || k == "mem" {
			break
		}
		if k == "gas" {
			n++
		}
	}
	clean = true
	for j := 0; j <= i; j++ {
		if f.layers[j].kind == "gas" || f.layers[j].kind == "trace" {
			clean = false
		}
	}
	return
}

func (f *Fam) Exec(op string) (string, []common.Failure) {
	w := strings.Fields(op)
	var fails []common.Failure
	fail := func(clause, sig, detail string) {
		fails = append(fails, common.Failure{Clause: clause, Signature: sig, Detail: detail})
	}
	f.opsInProg++
	cfg := stypes.KVGasConfig()
	switch w[0] {
	case "mon.mstrace":
		seed, _ := strconv.ParseInt(w[1], 10, 64)
		func() {
			defer func() {
				if e := recover(); e != nil {
					fail("trace-faithful", "C16:multistore-trace-panic", fmt.Sprint(e))
				}
			}()
			monMSTrace(seed, fail)
		}()
		f.opsInProg--
		return "done", fails
	case "new":
		if w[1] == "inf" {
			f.reset(^uint64(0))
			f.meter = stypes.NewInfiniteGasMeter()
			return "ok", nil
		}
		lim, _ := strconv.ParseUint(w[1], 10, 64)
		f.reset(lim)
		return "ok", nil
	case "push":
		p := f.top()
		l := &layer{kind: w[1]}
		switch w[1] {
		case "cache":
			l.store = cachekv.NewStore(p.store)
			l.overlay = map[string][]byte{}
			l.clean, l.cleanOK = map[string][]byte{}, map[string]bool{}
		case "pfx":
			// spare capacity behind the prefix, as in types.Subspace (append-style key building must not alias)
			raw := unhx(w[2])
			l.pre = append(make([]byte, 0, len(raw)+16), raw...)
			l.store = prefix.NewStore(p.store, l.pre)
		case "gas":
			l.store = gaskv.NewStore(p.store, f.meter, cfg)
		case "trace":
			l.store = tracekv.NewStore(p.store, &f.tbuf, nil)
		}
		f.layers = append(f.layers, l)
		if w[1] == "pfx" && p.kind == "pfx" && len(l.pre) > 0 && !f.hasKind("gas") && !f.hasKind("trace") {
			// a sibling sub-store made from the same outer prefix store (whose prefix slice has spare capacity) must not
			// move this one: it still sees exactly its own keys
			sibRaw := append(make([]byte, 0, len(l.pre)+16), l.pre...)
			sibRaw[0] ^= 0x55
			_ = prefix.NewStore(p.store, sibRaw)
			f.extra["c16:sibling-sub-prefix-store"]++
			want := f.view(len(f.layers) - 1)
			got := map[string][]byte{}
			it := l.store.Iterator(nil, nil)
			for ; it.Valid(); it.Next() {
				got[string(it.Key())] = append([]byte{}, it.Value()...)
			}
			it.Close()
			if !sameMap(want, got) {
				fail("prefix-isolation", "C16:sibling-prefix-store-disturbed", fmt.Sprintf("%s: after a sibling sub-store under %x was made, the sub-store under %x holds %d keys, its own key space %d", op, sibRaw, l.pre, len(got), len(want)))
			}
		}
		return "ok", fails
	case "pop":
		if len(f.layers) <= 1 {
			return "bad-op", nil
		}
		before := f.view(len(f.layers) - 2)
		base0 := f.view(0)
		f.layers = f.layers[:len(f.layers)-1]
		if !sameMap(before, f.view(len(f.layers)-1)) || !sameMap(base0, f.view(0)) {
			fail("discard-frame", "C15:discard", "discarding a wrapper changed its parent")
		}
		return "ok", nil
	case "dump":
		return rangeOf(f.view(0), nil, nil, true, true), nil
	}
	top := f.top().store
	ti := len(f.layers) - 1
	g0 := f.meter.GasConsumed()
	nGas, clean := f.gasLayersInZone()
	var obs string
	switch w[0] {
	case "get", "has":
		k := unhx(w[1])
		want, present := f.expGet(ti, k)
		base0 := f.view(0)
		obs = f.guarded(func() string {
			if w[0] == "get" {
				v := top.Get(k)
				if v == nil {
					return "nil"
				}
				return "v " + hx(v)
			}
			if top.Has(k) {
				return "true"
			}
			return "false"
		})
		if !strings.HasPrefix(obs, "panic") {
			exp := "nil"
			if w[0] == "get" && present {
				exp = "v " + hx(want)
			} else if w[0] == "has" {
				exp = strconv.FormatBool(present)
			}
			if !strings.HasPrefix(obs, exp+" g=") {
				fail("read-refines-overlay", "C15:"+w[0], fmt.Sprintf("%s returned %q, the overlay view says %q", op, obs, exp))
			}
			if clean {
				var cost uint64
				if w[0] == "get" {
					cost = uint64(nGas) * (cfg.ReadCostFlat + cfg.ReadCostPerByte*uint64(len(want)))
				} else {
					cost = uint64(nGas) * cfg.HasCost
				}
				if f.meter.GasConsumed()-g0 != cost {
					fail("gas-exact", "C16:gas:"+w[0], fmt.Sprintf("%s consumed %d, documented cost %d", op, f.meter.GasConsumed()-g0, cost))
				}
			}
		}
		if !sameMap(base0, f.view(0)) {
			fail("parent-frame", "C15:read-writes-parent", op+" changed the base store")
		}
	case "set", "del":
		k := unhx(w[1])
		var v []byte
		if w[0] == "set" {
			v = unhx(w[2])
		}
		views := make([]map[string][]byte, len(f.layers))
		for i := range f.layers {
			views[i] = f.view(i)
		}
		obs = f.guarded(func() string {
			if w[0] == "set" {
				top.Set(k, v)
			} else {
				top.Delete(k)
			}
			return "ok"
		})
		if !strings.HasPrefix(obs, "panic") {
			// oracle: the write lands in the topmost cache at or below the top (with prefixes applied), else in mem
			full := append([]byte{}, k...)
			i := ti
			for ; i > 0 && f.layers[i].kind != "cache"; i-- {
				if f.layers[i].kind == "pfx" {
					full = append(append([]byte{}, f.layers[i].pre...), full...)
				}
			}
			if f.layers[i].kind == "cache" {
				if w[0] == "set" {
					f.layers[i].overlay[string(full)] = v
				} else {
					f.layers[i].overlay[string(full)] = nil
				}
			}
			// every layer strictly below the receiving cache is unchanged
			for j := 0; j < i; j++ {
				if !sameMap(views[j], f.view(j)) {
					fail("parent-frame", "C15:parent-changed-before-write", fmt.Sprintf("%s changed layer %d (%s) below the cache", op, j, f.layers[j].kind))
					break
				}
			}
			exp := views[ti]
			if w[0] == "set" {
				exp[string(k)] = v
			} else {
				delete(exp, string(k))
			}
			if !f.staleOK && !sameMap(exp, f.view(ti)) {
				fail("write-refines-overlay", "C15:"+w[0], op+": the top view is not the previous view with this update")
			}
			if f.layers[ti].kind == "pfx" || f.hasKindBelowTop("pfx") {
				// prefix isolation: keys of the base outside every prefix path are untouched (checked through views[0] vs now)
				for kk, vv := range views[0] {
					if !bytes.HasSuffix([]byte(kk), k) {
						if nv, ok := f.view(0)[kk]; !ok || !bytes.Equal(nv, vv) {
							fail("prefix-isolation", "C16:prefix-isolation", fmt.Sprintf("%s changed unrelated base key %x", op, kk))
							break
						}
					}
				}
			}
			if clean {
				var cost uint64
				if w[0] == "set" {
					cost = uint64(nGas) * (cfg.WriteCostFlat + cfg.WriteCostPerByte*uint64(len(v)))
				} else {
					cost = uint64(nGas) * cfg.DeleteCost
				}
				if f.meter.GasConsumed()-g0 != cost {
					fail("gas-exact", "C16:gas:"+w[0], fmt.Sprintf("%s consumed %d, documented cost %d", op, f.meter.GasConsumed()-g0, cost))
				}
			}
		} else {
			// a panicking set/delete must leave every layer untouched
			for j := range f.layers {
				if !sameMap(views[j], f.view(j)) {
					fail("out-of-gas-frame", "C16:gas:panic-wrote", fmt.Sprintf("%s panicked but layer %d changed", op, j))
					break
				}
			}
		}
	case "write":
		l := f.top()
		if l.kind != "cache" {
			return "bad-op", nil
		}
		before := f.view(ti)
		obs = f.guarded(func() string {
			l.store.(stypes.CacheKVStore).Write()
			return "ok"
		})
		if strings.HasPrefix(obs, "panic") {
			f.poisoned = true
			return obs, fails
		}
		dirty := l.overlay // exactly what this wrapper has set or deleted since its last Write
		l.overlay = map[string][]byte{}
		l.clean, l.cleanOK = map[string][]byte{}, map[string]bool{}
		// Write hands the dirty entries - and nothing else - to the parent: propagate them into the oracle overlay
		// of the next cache below (through prefixes); a base store receives them by the real call itself
		pre := []byte{}
		for j := ti - 1; j >= 0; j-- {
			if f.layers[j].kind == "pfx" {
				pre = append(append([]byte{}, f.layers[j].pre...), pre...)
			}
			if f.layers[j].kind == "cache" {
				for kk, vv := range dirty {
					f.layers[j].overlay[string(pre)+kk] = vv
				}
				break
			}
		}
		if !f.staleOK && !sameMap(before, f.view(ti)) {
			fail("write-view", "C15:write:view-changed", "Write changed the wrapper's own view")
		}
		if !f.staleOK && !sameMap(before, f.view(ti-1)) && f.layers[ti-1].kind != "pfx" {
			fail("write-refines", "C15:write:parent-not-view", "after Write the parent does not hold the overlaid view")
		}
	case "iterall":
		a := unhx(w[1])
		var b []byte
		bNil := w[2] == "nil"
		if !bNil {
			b = unhx(w[2])
		}
		asc := w[3] == "asc"
		want := rangeOf(f.view(ti), a, b, bNil, asc)
		base0 := f.view(0)
		nGasIt, cleanIt := f.gasLayersInZone()
		gIt0 := uint64(0)
		if f.meter != nil {
			gIt0 = f.meter.GasConsumed()
		}
		var lens []int
		obs = f.guarded(func() string {
			var it stypes.Iterator
			var pb []byte
			if !bNil {
				pb = b
			}
			if asc {
				it = top.Iterator(a, pb)
			} else {
				it = top.ReverseIterator(a, pb)
			}
			defer it.Close()
			var parts []string
			for ; it.Valid(); it.Next() {
				k := it.Key()
				v := it.Value()
				parts = append(parts, hx(k)+"="+hx(v))
				lens = append(lens, len(v))
			}
			return "[" + strings.Join(parts, ",") + "]"
		})
		// C16: a gas layer charges the flat iteration cost plus the per-byte read cost of the current value once when
		// the iterator is opened on an item and once for every Next() from an item - nothing for an empty range
		if f.meter != nil && cleanIt && nGasIt > 0 && !f.staleOK && !strings.HasPrefix(obs, "panic") {
			var cost uint64
			for i, l := range lens {
				c := cfg.IterNextCostFlat + cfg.ReadCostPerByte*uint64(l)
				cost += c
				if i == 0 {
					cost += c
				}
			}
			cost *= uint64(nGasIt)
			if got := f.meter.GasConsumed() - gIt0; got != cost {
				fail("gas-exact", "C16:gas:iterate", fmt.Sprintf("%s over %d items consumed %d, documented cost %d", op, len(lens), got, cost))
			}
		}
		if !f.staleOK && !strings.HasPrefix(obs, "panic") && !strings.HasPrefix(obs, want+" g=") {
			isig := "C15:iterator"
		if f.hasKindBelowTop("pfx") {
			isig = "C16:iterator-through-prefix"
		}
		fail("iter-refines-overlay", isig, fmt.Sprintf("%s yielded %q, the sorted overlay range is %q", op, obs, want))
		}
		if !sameMap(base0, f.view(0)) {
			fail("parent-frame", "C15:read-writes-parent", op+" changed the base store")
		}
	case "lset", "ldel":
		// write below the top; wrappers above may now hold stale clean reads (by design of cachekv:
		// a wrapper is a snapshot of what it has read), so the overlay oracle is off for this program
		n, _ := strconv.Atoi(w[1])
		i := len(f.layers) - 1 - n
		if i < 0 {
			i = 0
		}
		f.staleOK = true
		st := f.layers[i].store
		obs = f.guarded(func() string {
			if w[0] == "lset" {
				st.Set(unhx(w[2]), unhx(w[3]))
			} else {
				st.Delete(unhx(w[2]))
			}
			return "ok"
		})
		// keep the oracle overlays of cache layers at/below i in step
		if !strings.HasPrefix(obs, "panic") {
			full := append([]byte{}, unhx(w[2])...)
			j := i
			for ; j > 0 && f.layers[j].kind != "cache"; j-- {
				if f.layers[j].kind == "pfx" {
					full = append(append([]byte{}, f.layers[j].pre...), full...)
				}
			}
			if f.layers[j].kind == "cache" {
				if w[0] == "lset" {
					f.layers[j].overlay[string(full)] = unhx(w[3])
				} else {
					f.layers[j].overlay[string(full)] = nil
				}
			}
		}
	case "burn":
		n, _ := strconv.ParseUint(w[1], 10, 64)
		obs = f.guarded(func() string { f.meter.ConsumeGas(n, "burn"); return "ok" })
		if !strings.HasPrefix(obs, "panic") && f.meter.GasConsumed() != g0+n {
			fail("gas-exact", "C16:gas:burn", "ConsumeGas did not add the amount")
		}
		if g0+n < g0 && !strings.HasPrefix(obs, "panic:overflow") {
			fail("gas-overflow", "C16:gas:overflow-wrapped", fmt.Sprintf("consuming %d at %d overflows uint64 but was not reported: %s", n, g0, obs))
		}
	case "iter":
		id, _ := strconv.Atoi(w[1])
		a := unhx(w[2])
		var b []byte
		if w[3] != "nil" {
			b = unhx(w[3])
		}
		obs = f.guarded(func() string {
			var it stypes.Iterator
			if w[4] == "asc" {
				it = top.Iterator(a, b)
			} else {
				it = top.ReverseIterator(a, b)
			}
			f.iters[id] = it
			return "ok"
		})
	case "valid", "key", "value", "next", "close":
		id, _ := strconv.Atoi(w[1])
		it, ok := f.iters[id]
		if !ok {
			return "bad-op", nil
		}
		if w[0] == "close" {
			it.Close()
			delete(f.iters, id)
			return "ok", nil
		}
		obs = f.guarded(func() string {
			switch w[0] {
			case "valid":
				return strconv.FormatBool(it.Valid())
			case "key":
				return "k " + hx(it.Key())
			case "value":
				return "v " + hx(it.Value())
			default:
				it.Next()
				return "ok"
			}
		})
	default:
		return "bad-op", nil
	}
	if strings.HasPrefix(obs, "panic:other") {
		f.poisoned = true
		// a read, write or delete of a key that is not nil - the empty key included, which is the key of the record
		// stored exactly at a prefix - is an ordinary operation: the wrapped store answers it, so must every wrapper
		switch w[0] {
		case "get", "has", "set", "del":
			if len(w) > 1 && w[1] != "nil" && !(w[0] == "set" && len(w) > 2 && w[2] == "nil") {
				fail("transparent", "kv:wrapper-panics-on-ordinary-operation", fmt.Sprintf("%s through %d layers: %s", op, len(f.layers), obs))
			}
		}
	}
	f.extra["depth:"+strconv.Itoa(len(f.layers))]++
	return obs, fails
}

func sameMap(a, b map[string][]byte) bool {
	if len(a) != len(b) {
		return false
	}
	for k, v := range a {
		w, ok := b[k]
		if !ok || !bytes.Equal(v, w) {
			return false
		}
	}
	return true
}

func (f *Fam) Class(op, obs string) string {
	w := strings.Fields(op)
	if w[0] == "new" || w[0] == "push" || w[0] == "pop" {
		return ""
	}
	kinds := make([]string, len(f.layers))
	for i, l := range f.layers {
		kinds[i] = l.kind[:1]
	}
	o := strings.Fields(obs)[0]
	if strings.HasPrefix(o, "[") {
		o = "items" + strconv.Itoa(strings.Count(o, "="))
	}
	return w[0] + "/" + strings.Join(kinds, "") + "/" + o
}
