package kv

import (
	"bytes"
	"encoding/json"
	"fmt"
	"math/rand"
	"strings"

	dbm "github.com/tendermint/tm-db"

	"github.com/pokt-network/posmint/store/rootmulti"
	stypes "github.com/pokt-network/posmint/store/types"
)

// monMSTrace (C16, "the trace records every operation in order", for the stacking a block's execution uses): a traced
// multistore is branched (`CacheMultiStore`) and the branch is branched again - the base app does exactly that for
// every transaction. Whatever depth an operation is issued at, it is traced when it reaches a traced store: reads of
// the inner branch that the caches do not answer, and everything the branches flush on `Write`, in order, once per branch level passed.
func monMSTrace(seed int64, fail func(string, string, string)) {
	r := rand.New(rand.NewSource(seed))
	var buf bytes.Buffer
	ms := rootmulti.NewStore(dbm.NewMemDB())
	key := stypes.NewKVStoreKey("s")
	ms.MountStoreWithDB(key, stypes.StoreTypeIAVL, nil)
	if err := ms.LoadLatestVersion(); err != nil {
		return
	}
	base := ms.GetKVStore(key)
	base.Set([]byte("k0"), []byte("v0"))
	base.Set([]byte("k1"), []byte("v1"))
	ms.Commit()
	ms.SetTracer(&buf)
	depth := 1 + r.Intn(3)
	branches := []stypes.CacheMultiStore{ms.CacheMultiStore()}
	for i := 1; i < depth; i++ {
		branches = append(branches, branches[i-1].CacheMultiStore())
	}
	inner := branches[depth-1].GetKVStore(key)
	var want []string
	buf.Reset()
	// a read nobody has cached travels down to the traced store, once
	// (every branch level wraps the level below in a trace layer of its own: an operation is recorded once per level it
	// passes through)
	inner.Get([]byte("k1"))
	for i := 0; i < depth; i++ {
		want = append(want, "read k1")
	}
	inner.Get([]byte("k1")) // cached now: no further trace
	n := 1 + r.Intn(4)
	var flushed []string
	seen := map[string]bool{}
	for i := 0; i < n; i++ {
		k := fmt.Sprintf("w%d", r.Intn(3))
		if r.Intn(3) == 0 {
			inner.Delete([]byte(k))
			seen[k] = true
			flushed = append(flushed, "-"+k)
		} else {
			inner.Set([]byte(k), []byte{byte(i)})
			seen[k] = true
			flushed = append(flushed, "+"+k)
		}
	}
	for i := depth - 1; i >= 0; i-- {
		branches[i].Write()
	}
	// the flush reaches the traced store once per touched key, in key order, with the key's last operation
	last := map[string]string{}
	for _, f := range flushed {
		last[f[1:]] = f[:1]
	}
	for lvl := 0; lvl < depth; lvl++ {
		for _, k := range []string{"w0", "w1", "w2"} {
			if seen[k] {
				if last[k] == "+" {
					want = append(want, "write "+k)
				} else {
					want = append(want, "delete "+k)
				}
			}
		}
	}
	var got []string
	for _, line := range strings.Split(strings.TrimSpace(buf.String()), "\n") {
		if line == "" {
			continue
		}
		var e struct {
			Operation string `json:"operation"`
			Key       []byte `json:"key"`
		}
		if json.Unmarshal([]byte(line), &e) != nil {
			continue
		}
		got = append(got, e.Operation+" "+string(e.Key))
	}
	if strings.Join(got, ",") != strings.Join(want, ",") {
		fail("trace-faithful", "C16:multistore-trace-incomplete", fmt.Sprintf("a traced multistore branched %d deep: trace %v, operations that reached the traced store %v", depth, got, want))
	}
}
