package codecfam

// astruct: the stored records of x/pos (Validator, ValidatorSigningInfo) in amino binary, compared byte for byte with
// the Lean model's struct encoder (`Codec.encodeStruct`: length-delimited and varint fields, zero values omitted, a time
// as a nested struct of seconds and nanoseconds, a registered key as prefix ‖ length-delimited key).  The operation
// carries the field values; the implementation builds the real record from them.

import (
	"fmt"
	"math"
	"math/big"
	"math/rand"
	"strconv"
	"strings"
	"time"

	"github.com/pokt-network/posmint/crypto"
	sdk "github.com/pokt-network/posmint/types"
	posTypes "github.com/pokt-network/posmint/x/pos/types"

	"verif/harness/internal/chain"
)

func rndSecs(r *rand.Rand) int64 {
	switch r.Intn(6) {
	case 0:
		return 0
	case 1:
		return -62135596800 // the zero time.Time
	case 2:
		return -int64(r.Intn(100000))
	case 3:
		return 253402300799 - int64(r.Intn(1000)) // up to year 9999
	}
	return 1500000000 + int64(r.Intn(400000000))
}

func rndI64(r *rand.Rand) int64 {
	switch r.Intn(6) {
	case 0:
		return 0
	case 1:
		return -int64(r.Intn(1000)) - 1
	case 2:
		return math.MaxInt64 - int64(r.Intn(3))
	case 3:
		return math.MinInt64 + int64(r.Intn(3))
	}
	return int64(r.Intn(100000))
}

func genAstruct(r *rand.Rand) string {
	nanos := []int64{0, 0, 1, 999999999, int64(r.Intn(1000000000))}[r.Intn(5)]
	if r.Intn(2) == 0 {
		k := chain.Keys[r.Intn(chain.NAll)]
		raw := k.Pub.RawBytes()
		pre := cdc.MustMarshalBinaryBare(k.Pub)
		if len(pre) != 4+1+len(raw) || !strings.HasSuffix(string(pre), string(raw)) { // a multisignature key: not a plain prefix ‖ key
			k = chain.Keys[0]
			raw = k.Pub.RawBytes()
			pre = cdc.MustMarshalBinaryBare(k.Pub)
		}
		pre = pre[:len(pre)-len(raw)-1] // prefix bytes; then one length byte; then the key
		return fmt.Sprintf("astruct val b:%s k:%s:%s u:%d u:%d i:%s t:%d:%d", hx(genAddr(r)), hx(pre), hx(raw), r.Intn(2), r.Intn(4),
			genBig(r), rndSecs(r), nanos)
	}
	return fmt.Sprintf("astruct sign b:%s s:%d s:%d t:%d:%d u:%d s:%d", hx(genAddr(r)), rndI64(r), rndI64(r), rndSecs(r), nanos, r.Intn(2), rndI64(r))
}

func execAstruct(w []string) string {
	part := func(i int) []string { return strings.Split(w[i], ":") }
	i64 := func(s string) int64 { n, _ := strconv.ParseInt(s, 10, 64); return n }
	tm := func(i int) time.Time { p := part(i); return time.Unix(i64(p[1]), i64(p[2])).UTC() }
	switch w[1] {
	case "val":
		var pk crypto.PublicKey
		raw := unhx(part(3)[2])
		for i := 0; i < chain.NAll; i++ {
			if string(chain.Keys[i].Pub.RawBytes()) == string(raw) {
				pk = chain.Keys[i].Pub
			}
		}
		if pk == nil {
			return "bad-op"
		}
		tok, _ := new(big.Int).SetString(part(6)[1], 10)
		v := posTypes.Validator{Address: unhx(part(2)[1]), PublicKey: pk, Jailed: part(4)[1] == "1", Status: sdk.StakeStatus(i64(part(5)[1])),
			StakedTokens: sdk.NewIntFromBigInt(tok), UnstakingCompletionTime: tm(7)}
		bz := cdc.MustMarshalBinaryBare(v)
		var back posTypes.Validator
		if err := cdc.UnmarshalBinaryBare(bz, &back); err != nil || !back.Equals(v) {
			return "roundtrip-failed"
		}
		return "ok " + hx(bz)
	case "sign":
		s := posTypes.ValidatorSigningInfo{Address: unhx(part(2)[1]), StartHeight: i64(part(3)[1]), IndexOffset: i64(part(4)[1]), JailedUntil: tm(5),
			Tombstoned: part(6)[1] == "1", MissedBlocksCounter: i64(part(7)[1])}
		return "ok " + hx(cdc.MustMarshalBinaryBare(s))
	}
	return "bad-op"
}
