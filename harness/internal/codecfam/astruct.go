package codecfam

// astruct: the stored records of x/pos (Validator, ValidatorSigningInfo) in amino binary, compared byte for byte with
// the Lean model's struct encoder (`Codec.encodeStruct`: length-delimited and varint fields, zero values omitted, a time
// as a nested struct of seconds and nanoseconds, a registered key as prefix ‖ length-delimited key).  The operation
// carries the field values; the implementation builds the real record from them.

import (
	"fmt"
	"math"
	"math/big"
	"math/rand"
	"strconv"
	"strings"
	"time"

	"github.com/pokt-network/posmint/crypto"
	sdk "github.com/pokt-network/posmint/types"
	authTypes "github.com/pokt-network/posmint/x/auth/types"
	govTypes "github.com/pokt-network/posmint/x/gov/types"
	posTypes "github.com/pokt-network/posmint/x/pos/types"

	"verif/harness/internal/chain"
)

func rndSecs(r *rand.Rand) int64 {
	switch r.Intn(6) {
	case 0:
		return 0
	case 1:
		return -62135596800 // the zero time.Time
	case 2:
		return -int64(r.Intn(100000))
	case 3:
		return 253402300799 - int64(r.Intn(1000)) // up to year 9999
	}
	return 1500000000 + int64(r.Intn(400000000))
}

func rndI64(r *rand.Rand) int64 {
	switch r.Intn(6) {
	case 0:
		return 0
	case 1:
		return -int64(r.Intn(1000)) - 1
	case 2:
		return math.MaxInt64 - int64(r.Intn(3))
	case 3:
		return math.MinInt64 + int64(r.Intn(3))
	}
	return int64(r.Intn(100000))
}

func genAstruct(r *rand.Rand) string {
	nanos := []int64{0, 0, 1, 999999999, int64(r.Intn(1000000000))}[r.Intn(5)]
	if r.Intn(2) == 0 {
		k := chain.Keys[r.Intn(chain.NAll)]
		raw := k.Pub.RawBytes()
		pre := cdc.MustMarshalBinaryBare(k.Pub)
		if len(pre) != 4+1+len(raw) || !strings.HasSuffix(string(pre), string(raw)) { // a multisignature key: not a plain prefix ‖ key
			k = chain.Keys[0]
			raw = k.Pub.RawBytes()
			pre = cdc.MustMarshalBinaryBare(k.Pub)
		}
		pre = pre[:len(pre)-len(raw)-1] // prefix bytes; then one length byte; then the key
		return fmt.Sprintf("astruct val b:%s k:%s:%s u:%d u:%d i:%s t:%d:%d", hx(genAddr(r)), hx(pre), hx(raw), r.Intn(2), r.Intn(4),
			genBig(r), rndSecs(r), nanos)
	}
	return fmt.Sprintf("astruct sign b:%s s:%d s:%d t:%d:%d u:%d s:%d", hx(genAddr(r)), rndI64(r), rndI64(r), rndSecs(r), nanos, r.Intn(2), rndI64(r))
}

func execAstruct(w []string) string {
	part := func(i int) []string { return strings.Split(w[i], ":") }
	i64 := func(s string) int64 { n, _ := strconv.ParseInt(s, 10, 64); return n }
	tm := func(i int) time.Time { p := part(i); return time.Unix(i64(p[1]), i64(p[2])).UTC() }
	switch w[1] {
	case "val":
		var pk crypto.PublicKey
		raw := unhx(part(3)[2])
		for i := 0; i < chain.NAll; i++ {
			if string(chain.Keys[i].Pub.RawBytes()) == string(raw) {
				pk = chain.Keys[i].Pub
			}
		}
		if pk == nil {
			return "bad-op"
		}
		tok, _ := new(big.Int).SetString(part(6)[1], 10)
		v := posTypes.Validator{Address: unhx(part(2)[1]), PublicKey: pk, Jailed: part(4)[1] == "1", Status: sdk.StakeStatus(i64(part(5)[1])),
			StakedTokens: sdk.NewIntFromBigInt(tok), UnstakingCompletionTime: tm(7)}
		bz := cdc.MustMarshalBinaryBare(v)
		var back posTypes.Validator
		if err := cdc.UnmarshalBinaryBare(bz, &back); err != nil || !back.Equals(v) {
			return "roundtrip-failed"
		}
		return "ok " + hx(bz)
	case "sign":
		s := posTypes.ValidatorSigningInfo{Address: unhx(part(2)[1]), StartHeight: i64(part(3)[1]), IndexOffset: i64(part(4)[1]), JailedUntil: tm(5),
			Tombstoned: part(6)[1] == "1", MissedBlocksCounter: i64(part(7)[1])}
		return "ok " + hx(cdc.MustMarshalBinaryBare(s))
	}
	return "bad-op"
}

// astdtx: a whole transaction (auth.StdTx) in amino binary against the model's `encodeStdTx`: an optional message (its own
// registered encoding), the fee as a repeated field, the signature as a nested struct of key and signature bytes, memo, entropy.
func genAstdtx(r *rand.Rand) (op string) {
	defer func() {
		if e := recover(); e != nil { // a message whose amount was never set cannot be encoded: not this operation's subject
			op = ""
		}
	}()
	tx := rndTx(r, msgKinds[r.Intn(len(msgKinds))])
	if r.Intn(3) == 0 && len(tx.Fee) == 1 {
		tx.Fee = sdk.NewCoins(tx.Fee[0], sdk.NewCoin("abc", sdk.NewInt(int64(1+r.Intn(9)))))
	}
	if r.Intn(8) == 0 {
		tx.Msg = nil
	}
	if r.Intn(4) == 0 {
		tx.Entropy = rndI64(r)
	}
	full := cdc.MustMarshalBinaryBare(tx)
	var msgBz, pkBz []byte
	if tx.Msg != nil {
		msgBz = cdc.MustMarshalBinaryBare(tx.Msg)
	}
	if tx.Signature.PublicKey != nil {
		pkBz = cdc.MustMarshalBinaryBare(tx.Signature.PublicKey)
	}
	toks := []string{"astdtx", hx(full[:4]), hx(msgBz), hx(pkBz), hx(tx.Signature.Signature), hx([]byte(tx.Memo)), fmt.Sprint(tx.Entropy)}
	for _, c := range tx.Fee {
		toks = append(toks, hx([]byte(c.Denom))+":"+c.Amount.String())
	}
	return strings.Join(toks, " ")
}

func execAstdtx(w []string) string {
	var msg sdk.Msg
	if b := unhx(w[2]); len(b) > 0 {
		if err := cdc.UnmarshalBinaryBare(b, &msg); err != nil {
			return "err"
		}
	}
	var pk crypto.PublicKey
	if b := unhx(w[3]); len(b) > 0 {
		if err := cdc.UnmarshalBinaryBare(b, &pk); err != nil {
			return "err"
		}
	}
	ent, _ := strconv.ParseInt(w[6], 10, 64)
	var fee sdk.Coins
	for _, t := range w[7:] {
		x := strings.Split(t, ":")
		a, _ := new(big.Int).SetString(x[1], 10)
		fee = append(fee, sdk.Coin{Denom: string(unhx(x[0])), Amount: sdk.NewIntFromBigInt(a)})
	}
	tx := authTypes.StdTx{Msg: msg, Fee: fee, Signature: authTypes.StdSignature{PublicKey: pk, Signature: unhx(w[4])}, Memo: string(unhx(w[5])), Entropy: ent}
	return "ok " + hx(cdc.MustMarshalBinaryBare(tx))
}

// amsg2: the two message types that are not flat - MsgStake (a registered key and an Int) and MsgUpgrade (an address and
// a nested plan of an int64 height and a version) - against `prefix ‖ encodeStruct`.
func genAmsg2(r *rand.Rand) string {
	if r.Intn(2) == 0 {
		k := chain.Keys[r.Intn(chain.NAll)]
		raw := k.Pub.RawBytes()
		enc := cdc.MustMarshalBinaryBare(k.Pub)
		if len(enc) != 4+1+len(raw) || !strings.HasSuffix(string(enc), string(raw)) {
			k = chain.Keys[0]
			raw = k.Pub.RawBytes()
			enc = cdc.MustMarshalBinaryBare(k.Pub)
		}
		pre := cdc.MustMarshalBinaryBare(posTypes.MsgStake{PubKey: k.Pub, Value: sdk.NewInt(1)})[:4]
		return fmt.Sprintf("amsg2 stake %s k:%s:%s i:%s", hx(pre), hx(enc[:4]), hx(raw), genBig(r))
	}
	pre := cdc.MustMarshalBinaryBare(govTypes.MsgUpgrade{Address: []byte{1}})[:4]
	ver := []string{"", "1.0", "0.0.1-rc", "2"}[r.Intn(4)]
	return fmt.Sprintf("amsg2 upgrade %s b:%s p:%d:%s", hx(pre), hx(genAddr(r)), rndHeight(r)-int64(r.Intn(2))*int64(r.Intn(1000)), hx([]byte(ver)))
}

func execAmsg2(w []string) string {
	part := func(i int) []string { return strings.Split(w[i], ":") }
	switch w[1] {
	case "stake":
		raw := unhx(part(3)[2])
		var pk crypto.PublicKey
		for i := 0; i < chain.NAll; i++ {
			if string(chain.Keys[i].Pub.RawBytes()) == string(raw) {
				pk = chain.Keys[i].Pub
			}
		}
		if pk == nil {
			return "bad-op"
		}
		a, _ := new(big.Int).SetString(part(4)[1], 10)
		return "ok " + hx(cdc.MustMarshalBinaryBare(posTypes.MsgStake{PubKey: pk, Value: sdk.NewIntFromBigInt(a)}))
	case "upgrade":
		h, _ := strconv.ParseInt(part(4)[1], 10, 64)
		return "ok " + hx(cdc.MustMarshalBinaryBare(govTypes.MsgUpgrade{Address: unhx(part(3)[1]), Upgrade: govTypes.Upgrade{Height: h, Version: string(unhx(part(4)[2]))}}))
	}
	return "bad-op"
}

// aacct: a stored account (auth.BaseAccount: address, coins as a repeated field, the registered key) against the model's
// `encodeAccount`; rebuilt on the implementation side by decoding the key from its bytes.
func genAacct(r *rand.Rand) string {
	k := chain.Keys[r.Intn(chain.NAll)]
	coins := sdk.Coins{}
	for _, d := range []string{"abc", "upokt", "zzz"} {
		if r.Intn(2) == 0 {
			a := genBig(r)
			a.Abs(a)
			if a.Sign() > 0 {
				coins = append(coins, sdk.NewCoin(d, sdk.NewIntFromBigInt(a)))
			}
		}
	}
	acc := authTypes.BaseAccount{Address: genAddr(r), Coins: coins, PubKey: k.Pub}
	if r.Intn(3) == 0 {
		acc.PubKey = nil
	}
	var pkBz []byte
	if acc.PubKey != nil {
		pkBz = cdc.MustMarshalBinaryBare(acc.PubKey)
	}
	full := cdc.MustMarshalBinaryBare(&acc)
	toks := []string{"aacct", hx(full[:4]), hx(acc.Address), hx(pkBz)}
	for _, c := range coins {
		toks = append(toks, hx([]byte(c.Denom))+":"+c.Amount.String())
	}
	return strings.Join(toks, " ")
}

func execAacct(w []string) string {
	var pk crypto.PublicKey
	if b := unhx(w[3]); len(b) > 0 {
		if err := cdc.UnmarshalBinaryBare(b, &pk); err != nil {
			return "err"
		}
	}
	var coins sdk.Coins
	for _, t := range w[4:] {
		x := strings.Split(t, ":")
		a, _ := new(big.Int).SetString(x[1], 10)
		coins = append(coins, sdk.Coin{Denom: string(unhx(x[0])), Amount: sdk.NewIntFromBigInt(a)})
	}
	acc := authTypes.BaseAccount{Address: unhx(w[2]), Coins: coins, PubKey: pk}
	return "ok " + hx(cdc.MustMarshalBinaryBare(&acc))
}
