package codecfam

// Implementation-side monitors for the wire types the Lean model does not cover (the "partial" part of C20):
// every message type inside a StdTx, accounts, validators, signing infos, Dec - binary and JSON round trips,
// sign-byte canonicity, and decoding of corrupted bytes. The Lean driver answers "done" to these operations:
// they are checked by the monitors here, not by the model.

import (
	"math"
	"bytes"
	"fmt"
	"hash/fnv"
	"math/rand"
	"encoding/hex"
	"reflect"
	"strings"
	"time"

	auth "github.com/pokt-network/posmint/x/auth"

	posCrypto "github.com/pokt-network/posmint/crypto"
	sdk "github.com/pokt-network/posmint/types"
	authTypes "github.com/pokt-network/posmint/x/auth/types"
	govTypes "github.com/pokt-network/posmint/x/gov/types"
	posTypes "github.com/pokt-network/posmint/x/pos/types"

	"verif/harness/internal/chain"
	"verif/harness/internal/common"
)

var msgKinds = []string{"stake", "unstake", "unjail", "send", "changeparam", "daotransfer", "daoburn", "upgrade"}

func opRnd(op string) *rand.Rand {
	h := fnv.New64a()
	h.Write([]byte(op))
	return rand.New(rand.NewSource(int64(h.Sum64())))
}

func rndAddr(r *rand.Rand) sdk.Address {
	switch r.Intn(8) {
	case 0:
		return sdk.Address{}
	case 1:
		return sdk.Address(bytes.Repeat([]byte{0xff}, 20))
	}
	a := make([]byte, 20) // the only length the address format admits (besides the empty address)
	r.Read(a)
	return a
}

func rndInt(r *rand.Rand) sdk.Int {
	if r.Intn(12) == 0 {
		return sdk.Int{} // never set
	}
	return sdk.NewIntFromBigInt(genBig(r))
}

func rndMsg(r *rand.Rand, kind string) sdk.Msg {
	k := chain.Keys[r.Intn(chain.NKeys)]
	switch kind {
	case "stake":
		return posTypes.MsgStake{PubKey: k.Pub, Value: rndInt(r)}
	case "unstake":
		return posTypes.MsgBeginUnstake{Address: rndAddr(r)}
	case "unjail":
		return posTypes.MsgUnjail{ValidatorAddr: rndAddr(r)}
	case "send":
		return posTypes.MsgSend{FromAddress: rndAddr(r), ToAddress: rndAddr(r), Amount: rndInt(r)}
	case "changeparam":
		v := make([]byte, r.Intn(6))
		r.Read(v)
		return govTypes.MsgChangeParam{FromAddress: rndAddr(r), ParamKey: []string{"pos/MaxValidators", "gov/acl", "", "x/y"}[r.Intn(4)], ParamVal: v}
	case "daotransfer":
		return govTypes.MsgDAOTransfer{FromAddress: rndAddr(r), ToAddress: rndAddr(r), Amount: rndInt(r), Action: govTypes.DAOTransferString}
	case "daoburn":
		return govTypes.MsgDAOTransfer{FromAddress: rndAddr(r), Amount: rndInt(r), Action: govTypes.DAOBurnString}
	default:
		return govTypes.MsgUpgrade{Address: rndAddr(r), Upgrade: govTypes.NewUpgrade(rndHeight(r), []string{"", "1.0", "0.0.1-rc"}[r.Intn(3)])}
	}
}

// rndHeight: an int64 height, boundary-biased (small, around the float64 integer limit 2^53, up to MaxInt64)
func rndHeight(r *rand.Rand) int64 {
	switch r.Intn(6) {
	case 0:
		return int64(1)<<53 + int64(r.Intn(9)) - 4
	case 1:
		return math.MaxInt64 - int64(r.Intn(1200))
	case 2:
		return r.Int63()
	case 3:
		return int64(1)<<uint(r.Intn(63)) + int64(r.Intn(3)) - 1
	}
	return r.Int63n(1000)
}

// neighbour: the same message with one numeric field one unit away (nil when the type has none)
func neighbour(m sdk.Msg) sdk.Msg {
	one := sdk.NewInt(1)
	switch x := m.(type) {
	case govTypes.MsgUpgrade:
		if x.Upgrade.Height == math.MaxInt64 {
			x.Upgrade.Height--
		} else {
			x.Upgrade.Height++
		}
		return x
	case posTypes.MsgSend:
		if x.Amount.BigInt() == nil {
			return nil
		}
		x.Amount = x.Amount.Add(one)
		return x
	case posTypes.MsgStake:
		if x.Value.BigInt() == nil {
			return nil
		}
		x.Value = x.Value.Add(one)
		return x
	case govTypes.MsgDAOTransfer:
		if x.Amount.BigInt() == nil {
			return nil
		}
		x.Amount = x.Amount.Add(one)
		return x
	}
	return nil
}

func rndTx(r *rand.Rand, kind string) authTypes.StdTx {
	fee := sdk.Coins{}
	if r.Intn(3) != 0 {
		a := genBig(r)
		a.Abs(a)
		if a.Sign() > 0 {
			fee = sdk.NewCoins(sdk.NewCoin("upokt", sdk.NewIntFromBigInt(a)))
		}
	}
	sig := make([]byte, []int{0, 1, 64, 65}[r.Intn(4)])
	r.Read(sig)
	ss := authTypes.StdSignature{Signature: sig}
	if r.Intn(2) == 0 {
		ss.PublicKey = chain.Keys[r.Intn(chain.NAll)].Pub
	}
	memo := []string{"", "m", "memo with spaces ", "é世", string(bytes.Repeat([]byte{'x'}, 75))}[r.Intn(5)]
	return authTypes.NewStdTx(rndMsg(r, kind), fee, ss, memo, r.Int63()-r.Int63())
}

func signBytesOf(tx authTypes.StdTx) []byte {
	bz, err := authTypes.StdSignBytes("chain-x", tx.Entropy, tx.Fee, tx.Msg, tx.Memo)
	if err != nil {
		return []byte("error:" + err.Error())
	}
	return bz
}

func (f *Fam) genWire(r *rand.Rand) string {
	if r.Intn(6) == 0 { // coins in their text form: 1-3 denominations, amounts from the boundary-biased generator
		var p []string
		for i, d := range []string{"aaa", "stake", "upokt", "zzzzzzzzzzzzzzzz"} {
			if r.Intn(2) == 0 || (i == 3 && len(p) == 0) {
				a := genBig(r)
				a.Abs(a)
				p = append(p, d+":"+a.String())
			}
		}
		return "mon.cointext " + strings.Join(p, ",")
	}
	if r.Intn(10) == 0 { // a public key from JSON: payloads of the right and of other lengths
		n := []int{32, 32, 33, 0, 1, 31, 34, 64, 20}[r.Intn(9)]
		b := make([]byte, n)
		r.Read(b)
		return fmt.Sprintf("mon.pubkeyjson %s %s", []string{"ed25519", "secp256k1"}[r.Intn(2)], hx(b))
	}
	if r.Intn(8) == 0 { // the text form of a decimal coin, well formed and not
		num := []string{"0.5", "1.000000000000000000", ".5", "5.", "0.0000000000000000001", "123456789.123456789012345678",
			"1.0000000000000000000", "00.10", "1", "1.-5", ".", "0.", "99999999999999999999999999999999999999999999999999999999999999999999999999999.0"}[r.Intn(13)]
		if r.Intn(3) == 0 {
			a := genBig(r)
			a.Abs(a)
			num = sdk.NewDecFromBigIntWithPrec(a, 18).String()
		}
		den := []string{"upokt", "abc", "zzzzzzzzzzzzzzzz", "Abc", "ab", ""}[r.Intn(6)]
		sp := []string{"", "", " ", "\t"}[r.Intn(4)]
		txt := num + sp + den
		if r.Intn(5) == 0 {
			txt += "," + txt
		}
		return "mon.deccointext " + hx([]byte(txt))
	}
	switch r.Intn(5) {
	case 0, 1:
		return fmt.Sprintf("mon.tx %s %d", msgKinds[r.Intn(len(msgKinds))], r.Int63())
	case 2:
		return fmt.Sprintf("mon.hostile %s %d", msgKinds[r.Intn(len(msgKinds))], r.Int63())
	case 3:
		return fmt.Sprintf("mon.record %d", r.Int63())
	default:
		return fmt.Sprintf("mon.dec %s", genBig(r))
	}
}

func (f *Fam) execWire(op string, w []string, fail func(string, string, string)) string {
	r := opRnd(op)
	decoder := auth.DefaultTxDecoder(cdc)
	switch w[0] {
	case "mon.tx":
		tx := rndTx(r, w[1])
		bz, err := cdc.MarshalBinaryLengthPrefixed(tx)
		if err != nil {
			fail("roundtrip", "C20:tx-encode-failed", op+": "+err.Error())
			return "done"
		}
		back, derr := decoder(bz)
		if derr != nil {
			fail("roundtrip", "C20:tx-decode-failed", op+": "+derr.Error())
			return "done"
		}
		bz2, _ := cdc.MarshalBinaryLengthPrefixed(back)
		if !bytes.Equal(bz, bz2) {
			fail("roundtrip", "C20:tx-binary-roundtrip", fmt.Sprintf("%s: re-encoding the decoded transaction gives other bytes", op))
		}
		btx, ok := back.(authTypes.StdTx)
		if !ok {
			fail("roundtrip", "C20:tx-binary-roundtrip", op+": decoded value is not a StdTx")
			return "done"
		}
		js, err := cdc.MarshalJSON(tx)
		if err != nil {
			fail("roundtrip", "C20:tx-json-encode-failed", op+": "+err.Error())
			return "done"
		}
		var jtx authTypes.StdTx
		jsonOK := false
		if err := cdc.UnmarshalJSON(js, &jtx); err != nil {
			fail("roundtrip", "C20:tx-json-roundtrip", op+": "+err.Error())
		} else if bz3, _ := cdc.MarshalBinaryLengthPrefixed(jtx); !bytes.Equal(bz, bz3) {
			fail("roundtrip", "C20:tx-json-roundtrip", op+": the value decoded from JSON encodes to other bytes")
		} else {
			jsonOK = true
		}
		// the same logical content, reached through either encoding, has the same sign bytes
		// (for messages the node can accept at all: a decoded message that fails ValidateBasic - e.g. a change-param
		// message whose empty value became nil - is refused before any signature is looked at)
		sb := signBytesOf(tx)
		if !basicOK(btx.Msg) && w[1] == "changeparam" {
			// (the one known case: a change-param message whose empty value decodes to nil signs differently, and is
			// refused by ValidateBasic before any signature is looked at)
			f.extra["wire:sign-bytes-clause-skipped-invalid-msg"]++
		} else if !bytes.Equal(sb, signBytesOf(btx)) || (jsonOK && !bytes.Equal(sb, signBytesOf(jtx))) {
			fail("sign-bytes", "C20:sign-bytes-depend-on-encoding", fmt.Sprintf("%s: original %s / after binary %s / after JSON(%v) %s", op, sb, signBytesOf(btx), jsonOK, signBytesOf(jtx)))
		}
		// different content, different sign bytes: change exactly one signed field
		alt := tx
		what := ""
		switch r.Intn(6) {
		case 5:
			// the same message with one numeric field one unit away (heights beyond 2^53, amounts of any size)
			var nb sdk.Msg
			func() {
				defer func() { recover() }() // an amount at the bound of the Int range
				nb = neighbour(tx.Msg)
			}()
			if nb == nil {
				return "done"
			}
			alt.Msg = nb
			what = "message (one numeric field one unit away)"
			f.extra["wire:sign-bytes-neighbour"]++
		case 0:
			alt.Memo += " "
			what = "memo"
		case 1:
			alt.Entropy++
			what = "entropy"
		case 2:
			if len(tx.Fee) == 0 {
				alt.Fee = sdk.NewCoins(sdk.NewCoin("upokt", sdk.NewInt(1)))
			} else if tx.Fee[0].Amount.GT(sdk.NewInt(1)) {
				alt.Fee = sdk.NewCoins(sdk.NewCoin("upokt", tx.Fee[0].Amount.SubRaw(1)))
			} else {
				alt.Fee = sdk.NewCoins(sdk.NewCoin("upokt", sdk.NewInt(7)))
			}
			what = "fee"
		case 3:
			// another message of the same type: different content means a different encoding (two values that merely
			// differ in memory - a zero amount with or without digits allocated - are the same content)
			same := true
			for i := 0; i < 20 && same; i++ {
				alt.Msg = rndMsg(r, w[1])
				same = bytes.Equal(cdc.MustMarshalBinaryBare(alt.Msg), cdc.MustMarshalBinaryBare(tx.Msg))
			}
			if same {
				return "done"
			}
			what = "message"
		default:
			alt.Memo = tx.Memo + " "
			what = "memo (non-breaking space)"
		}
		if bytes.Equal(sb, signBytesOf(alt)) {
			fail("sign-bytes", "C20:sign-bytes-collide", fmt.Sprintf("%s: a transaction differing in its %s has the same sign bytes", op, what))
		}
		return "done"
	case "mon.hostile":
		tx := rndTx(r, w[1])
		bz, _ := cdc.MarshalBinaryLengthPrefixed(tx)
		for i := 0; i < 6; i++ {
			b := append([]byte{}, bz...)
			switch r.Intn(5) {
			case 0:
				b = b[:r.Intn(len(b)+1)]
			case 1:
				b[r.Intn(len(b))] ^= byte(1 << uint(r.Intn(8)))
			case 2:
				b = append(b, byte(r.Intn(256)))
			case 3:
				n := r.Intn(len(b))
				b = append(b[:n], b[n+r.Intn(len(b)-n):]...)
			default:
				b = make([]byte, r.Intn(40))
				r.Read(b)
			}
			func() {
				defer func() {
					if e := recover(); e != nil {
						fail("no-crash", "C20:decoder-panic", fmt.Sprintf("%s: decoding %x panicked: %v", op, b, e))
					}
				}()
				v, err := decoder(b)
				if err != nil {
					return
				}
				// accepted: it must re-encode consistently
				e1, err1 := cdc.MarshalBinaryLengthPrefixed(v)
				if err1 != nil {
					return
				}
				v2, err2 := decoder(e1)
				if err2 != nil {
					fail("roundtrip", "C20:accepted-bytes-inconsistent", fmt.Sprintf("%s: %x decodes, but its re-encoding does not", op, b))
					return
				}
				if e2, _ := cdc.MarshalBinaryLengthPrefixed(v2); !bytes.Equal(e1, e2) {
					fail("roundtrip", "C20:accepted-bytes-inconsistent", fmt.Sprintf("%s: %x decodes to a value whose encoding is not stable", op, b))
				}
			}()
		}
		return "done"
	case "mon.record":
		k := chain.Keys[r.Intn(chain.NKeys)]
		// account
		coins := sdk.Coins{}
		if r.Intn(3) != 0 {
			a := genBig(r)
			a.Abs(a)
			if a.Sign() > 0 {
				coins = sdk.NewCoins(sdk.NewCoin("upokt", sdk.NewIntFromBigInt(a)))
			}
		}
		var acc authTypes.BaseAccount = *authTypes.NewBaseAccount(k.Addr, coins, k.Pub)
		if r.Intn(3) == 0 {
			acc.PubKey = nil
		}
		abz, err := cdc.MarshalBinaryBare(&acc)
		var acc2 authTypes.BaseAccount
		if err != nil || cdc.UnmarshalBinaryBare(abz, &acc2) != nil {
			fail("roundtrip", "C20:account-roundtrip", op+": account does not decode")
		} else if abz2, _ := cdc.MarshalBinaryBare(&acc2); !bytes.Equal(abz, abz2) {
			fail("roundtrip", "C20:account-roundtrip", op+": account re-encodes to other bytes")
		}
		// validator
		v := posTypes.NewValidator(k.Addr, k.Pub, rndIntNonNeg(r))
		v.Jailed = r.Intn(2) == 0
		v.Status = sdk.StakeStatus(r.Intn(3))
		v.UnstakingCompletionTime = time.Unix(r.Int63n(253402300799), r.Int63n(1000000000)).UTC()
		vbz := posTypes.MustMarshalValidator(cdc, v)
		v2, err := posTypes.UnmarshalValidator(cdc, vbz)
		if err != nil {
			fail("roundtrip", "C20:validator-roundtrip", op+": "+err.Error())
		} else if vbz2 := posTypes.MustMarshalValidator(cdc, v2); !bytes.Equal(vbz, vbz2) || !v2.StakedTokens.Equal(v.StakedTokens) || v2.Jailed != v.Jailed || v2.Status != v.Status || !v2.UnstakingCompletionTime.Equal(v.UnstakingCompletionTime) {
			fail("roundtrip", "C20:validator-roundtrip", op+": validator changed in the round trip")
		}
		vjs, err := cdc.MarshalJSON(v)
		var v3 posTypes.Validator
		if err != nil || cdc.UnmarshalJSON(vjs, &v3) != nil {
			fail("roundtrip", "C20:validator-json-roundtrip", op)
		} else if vbz3 := posTypes.MustMarshalValidator(cdc, v3); !bytes.Equal(vbz, vbz3) {
			fail("roundtrip", "C20:validator-json-roundtrip", op+": the validator decoded from JSON encodes to other bytes")
		}
		// signing info
		si := posTypes.ValidatorSigningInfo{Address: k.Addr, StartHeight: r.Int63n(1 << 40), IndexOffset: r.Int63n(1000), MissedBlocksCounter: r.Int63n(1000),
			JailedUntil: time.Unix(r.Int63n(253402300799), 0).UTC(), Tombstoned: r.Intn(2) == 0}
		sbz := cdc.MustMarshalBinaryLengthPrefixed(si)
		var si2 posTypes.ValidatorSigningInfo
		if err := cdc.UnmarshalBinaryLengthPrefixed(sbz, &si2); err != nil || !reflect.DeepEqual(normSI(si), normSI(si2)) {
			fail("roundtrip", "C20:signing-info-roundtrip", fmt.Sprintf("%s: %+v -> %+v (%v)", op, si, si2, err))
		}
		return "done"
	case "mon.pubkeyjson": // a public key decoded from JSON is refused or re-encodes to the text it was decoded from
		raw := unhx(w[2])
		txt := []byte("\"" + hex.EncodeToString(raw) + "\"")
		var back []byte
		var derr, eerr error
		if p := try(func() string {
			if w[1] == "ed25519" {
				var pk posCrypto.Ed25519PublicKey
				if derr = pk.UnmarshalJSON(txt); derr == nil {
					back, eerr = pk.MarshalJSON()
				}
			} else {
				var pk posCrypto.Secp256k1PublicKey
				if derr = pk.UnmarshalJSON(txt); derr == nil {
					back, eerr = pk.MarshalJSON()
				}
			}
			return ""
		}); p != "" {
			fail("no-crash", "C20:pubkey-json-panic", fmt.Sprintf("%s: decoding %s panicked", op, txt))
			return "done"
		}
		if derr == nil && (eerr != nil || !bytes.Equal(back, txt)) {
			fail("roundtrip", "C20:pubkey-json-accepts-malformed", fmt.Sprintf("%s: %s (%d bytes) is accepted as a %s public key and re-encodes as %s (%v)", op, txt, len(raw), w[1], back, eerr))
		}
		return "done"
	case "mon.deccointext": // ParseDecCoin / ParseDecCoins: an error or a value, never a panic; what parses prints and parses back
		txt := string(unhx(w[1]))
		var one sdk.DecCoin
		var many sdk.DecCoins
		var e1, e2 error
		if p := try(func() string { one, e1 = sdk.ParseDecCoin(txt); many, e2 = sdk.ParseDecCoins(txt); return "" }); p != "" {
			fail("no-crash", "C20:deccoin-parse-panic", fmt.Sprintf("%s: parsing %q panicked", op, txt))
			return "done"
		}
		if e1 == nil {
			if back, err := sdk.ParseDecCoin(one.String()); err != nil || back.Denom != one.Denom || !back.Amount.Equal(one.Amount) {
				fail("roundtrip", "C20:deccoin-text-roundtrip", fmt.Sprintf("%s: %q parsed to %v, printed %q, parsed again %v (%v)", op, txt, one, one.String(), back, err))
			}
		}
		if e2 == nil && len(many) > 0 {
			if back, err := sdk.ParseDecCoins(many.String()); err != nil || back.String() != many.String() {
				fail("roundtrip", "C20:deccoin-text-roundtrip", fmt.Sprintf("%s: %q parsed to %v, parsed again %v (%v)", op, txt, many, back, err))
			}
		}
		return "done"
	case "mon.cointext": // Coin / Coins: String() followed by ParseCoin / ParseCoins gives the value back
		var cs sdk.Coins
		for _, it := range strings.Split(w[1], ",") {
			x := strings.Split(it, ":")
			amt, ok := sdk.NewIntFromString(x[1])
			if !ok { // beyond 255 bits: not an Int
				return "done"
			}
			cs = append(cs, sdk.Coin{Denom: x[0], Amount: amt})
		}
		for _, c := range cs {
			back, err := sdk.ParseCoin(c.String())
			if err != nil || back.Denom != c.Denom || !back.Amount.Equal(c.Amount) {
				fail("roundtrip", "C20:coin-text-roundtrip", fmt.Sprintf("%s: ParseCoin(%q) = %v, %v", op, c.String(), back, err))
			}
		}
		var nz sdk.Coins // the text form of a set lists its coins; zero amounts are dropped by the parser's validity rule
		for _, c := range cs {
			if c.Amount.IsPositive() {
				nz = append(nz, c)
			}
		}
		if len(nz) > 0 {
			back, err := sdk.ParseCoins(nz.String())
			if err != nil || back.String() != nz.String() {
				fail("roundtrip", "C20:coins-text-roundtrip", fmt.Sprintf("%s: ParseCoins(%q) = %v, %v", op, nz.String(), back, err))
			}
		}
		return "done"
	case "mon.dec":
		x, _ := sdk.NewIntFromString(w[1])
		d := sdk.NewDecFromBigIntWithPrec(x.BigInt(), 18)
		bz, err := cdc.MarshalBinaryBare(d)
		var d2 sdk.Dec
		if err != nil || cdc.UnmarshalBinaryBare(bz, &d2) != nil || !d2.Equal(d) {
			fail("roundtrip", "C20:dec-binary-roundtrip", op)
		}
		js, err := cdc.MarshalJSON(d)
		var d3 sdk.Dec
		if err != nil || cdc.UnmarshalJSON(js, &d3) != nil || !d3.Equal(d) {
			fail("roundtrip", "C20:dec-json-roundtrip", op)
		}
		if d4, err := sdk.NewDecFromStr(d.String()); err != nil || !d4.Equal(d) {
			fail("roundtrip", "C20:dec-text-roundtrip", op)
		}
		return "done"
	}
	return "bad-op"
}

// basicOK: ValidateBasic accepts the message (a panic inside it - MsgDAOTransfer converts its amount to an int64 -
// is a refusal: the base app recovers it and rejects the transaction)
func basicOK(m sdk.Msg) (ok bool) {
	defer func() {
		if recover() != nil {
			ok = false
		}
	}()
	return m.ValidateBasic() == nil
}

func rndIntNonNeg(r *rand.Rand) sdk.Int {
	a := genBig(r)
	a.Abs(a)
	return sdk.NewIntFromBigInt(a)
}

func normSI(s posTypes.ValidatorSigningInfo) posTypes.ValidatorSigningInfo {
	s.JailedUntil = s.JailedUntil.UTC().Round(0)
	if len(s.Address) == 0 {
		s.Address = nil
	}
	return s
}

var _ common.Failure
