// Package codecfam: family "codec" (C20): amino / text / store-key encodings of /repo compared with
// the Lean model, plus impl-side round-trip, sign-bytes and hostile-bytes monitors.
package codecfam

import (
	"bytes"
	"encoding/binary"
	"encoding/hex"
	"fmt"
	"math/big"
	"math/rand"
	"strconv"
	"strings"
	"time"

	amino "github.com/tendermint/go-amino"

	sdk "github.com/pokt-network/posmint/types"
	authTypes "github.com/pokt-network/posmint/x/auth/types"
	govTypes "github.com/pokt-network/posmint/x/gov/types"
	posTypes "github.com/pokt-network/posmint/x/pos/types"

	"verif/harness/internal/chain"
	"verif/harness/internal/common"
)

type Fam struct {
	started bool
	extra   map[string]int
}

func New(string) *Fam { return &Fam{extra: map[string]int{}} }
func (f *Fam) Extra() map[string]int { return f.extra }

var cdc = chain.MakeCodec()

func hx(b []byte) string {
	if len(b) == 0 {
		return "-"
	}
	return hex.EncodeToString(b)
}
func unhx(s string) []byte {
	if s == "-" {
		return []byte{}
	}
	b, _ := hex.DecodeString(s)
	return b
}

func genBig(r *rand.Rand) *big.Int {
	var x *big.Int
	switch r.Intn(6) {
	case 0:
		x = big.NewInt(int64(r.Intn(3)))
	case 1:
		x = new(big.Int).Lsh(big.NewInt(1), uint(r.Intn(255)))
		x.Add(x, big.NewInt(int64(r.Intn(3)-1)))
	case 2:
		x = new(big.Int).Sub(new(big.Int).Lsh(big.NewInt(1), 255), big.NewInt(int64(1+r.Intn(2))))
	case 3:
		x = new(big.Int).Exp(big.NewInt(10), big.NewInt(int64(r.Intn(70))), nil)
	default:
		x = new(big.Int).Rand(r, new(big.Int).Lsh(big.NewInt(1), uint(1+r.Intn(254))))
	}
	x.Abs(x)
	if x.BitLen() > 255 {
		x.Rsh(x, 2)
	}
	if r.Intn(3) == 0 {
		x.Neg(x)
	}
	return x
}

func genU64(r *rand.Rand) uint64 {
	switch r.Intn(5) {
	case 0:
		return uint64(r.Intn(300))
	case 1:
		return uint64(1)<<uint(r.Intn(64)) - uint64(r.Intn(2))
	case 2:
		return ^uint64(0) - uint64(r.Intn(3))
	default:
		return r.Uint64() >> uint(r.Intn(64))
	}
}

var denoms = []string{"upokt", "abc", "a12", "zzzzzzzzzzzzzzzz", ""}

func genAddr(r *rand.Rand) []byte {
	n := 20
	if r.Intn(10) == 0 {
		n = []int{0, 1, 19, 21, 32}[r.Intn(5)]
	}
	b := make([]byte, n)
	switch r.Intn(4) {
	case 0:
		for i := range b {
			b[i] = 0xff
		}
	case 1:
	default:
		r.Read(b)
	}
	return b
}

func (f *Fam) Gen(r *rand.Rand, i int) string {
	if !f.started {
		f.started = true
		bz := cdc.MustMarshalBinaryBare(posTypes.MsgSend{FromAddress: []byte{1}, ToAddress: []byte{2}, Amount: sdk.NewInt(0)})
		return "reg send " + hx(bz[:4])
	}
	coin := func() string {
		return hx([]byte(denoms[r.Intn(len(denoms))])) + ":" + genBig(r).String()
	}
	if r.Intn(5) == 0 {
		return f.genWire(r)
	}
	if r.Intn(10) == 0 {
		return genAmsg(r)
	}
	if r.Intn(10) == 0 {
		return genAstruct(r)
	}
	if r.Intn(14) == 0 {
		return genAmsg2(r)
	}
	if r.Intn(14) == 0 {
		return genAacct(r)
	}
	if r.Intn(10) == 0 {
		if op := genAstdtx(r); op != "" {
			return op
		}
	}
	if r.Intn(12) == 0 { // the text form of a coin, well formed and not
		if r.Intn(4) == 0 {
			return "coin.text " + coin()
		}
		amt := genBig(r)
		amt.Abs(amt)
		num := amt.String()
		switch r.Intn(8) {
		case 0:
			num = "0" + num // a leading zero announces octal
		case 1:
			num = fmt.Sprintf("0%o", r.Int63())
		case 2:
			num = []string{"", "0", "00", "08", "0x1f", "1_000", "-5", "+5", "1e3", "٣"}[r.Intn(10)]
		}
		den := denoms[r.Intn(len(denoms))]
		if r.Intn(6) == 0 {
			den = []string{"Abc", "ab", "abcdefghijklmnopq", "a_b", "1ab", "abc ", "ab\tc", "upokt,1upokt"}[r.Intn(8)]
		}
		sp := []string{"", "", "", " ", "\t \n", "\v\f\r"}[r.Intn(6)]
		pre := []string{"", "", " ", "\n\t"}[r.Intn(4)]
		post := []string{"", "", " ", "\r\n"}[r.Intn(4)]
		txt := pre + num + sp + den + post
		return "coin.parse " + hx([]byte(txt))
	}
	switch r.Intn(15) {
	case 0:
		return fmt.Sprintf("uv %d", genU64(r))
	case 1:
		b := make([]byte, binary.MaxVarintLen64)
		n := binary.PutUvarint(b, genU64(r))
		b = b[:n]
		if r.Intn(3) == 0 {
			b = b[:r.Intn(len(b)+1)]
		} else if r.Intn(4) == 0 {
			b = append(b, byte(r.Intn(256)))
		} else if r.Intn(6) == 0 {
			b = bytes.Repeat([]byte{0xff}, 9+r.Intn(3))
			b = append(b, byte(r.Intn(4)))
		}
		return "uvd " + hx(b)
	case 2:
		return fmt.Sprintf("vi %d", int64(genU64(r)))
	case 3:
		return "int.text " + genBig(r).String()
	case 4:
		t := genBig(r).String()
		if r.Intn(4) == 0 {
			t = []string{"", "-", "12a", "00", "1e3", " 1", "-0", "5 "}[r.Intn(8)]
		}
		if r.Intn(8) == 0 {
			t = new(big.Int).Lsh(big.NewInt(1), uint(255+r.Intn(3))).String()
		}
		return "int.parse " + hx([]byte(t))
	case 5:
		return "coin " + coin()
	case 6:
		c := sdk.Coin{Denom: denoms[r.Intn(len(denoms))], Amount: sdk.NewIntFromBigInt(genBig(r))}
		bz := cdc.MustMarshalBinaryBare(c)
		if r.Intn(3) == 0 && len(bz) > 0 {
			bz = bz[:r.Intn(len(bz))]
		}
		return "coin.dec " + hx(bz)
	case 7:
		n := r.Intn(4)
		p := []string{"coins"}
		for j := 0; j < n; j++ {
			p = append(p, coin())
		}
		return strings.Join(p, " ")
	case 8:
		n := r.Intn(4)
		var cs sdk.Coins
		for j := 0; j < n; j++ {
			cs = append(cs, sdk.Coin{Denom: denoms[r.Intn(len(denoms))], Amount: sdk.NewIntFromBigInt(genBig(r))})
		}
		bz := cdc.MustMarshalBinaryBare(cs)
		if r.Intn(3) == 0 && len(bz) > 0 {
			bz = bz[:r.Intn(len(bz))]
		}
		return "coins.dec " + hx(bz)
	case 9:
		return fmt.Sprintf("msgsend %s %s %s", hx(genAddr(r)), hx(genAddr(r)), genBig(r))
	case 10:
		a := make([]byte, 20)
		r.Read(a)
		return fmt.Sprintf("pkey %d %s", genU64(r)>>2, hx(a))
	case 11:
		k := make([]byte, 29)
		r.Read(k)
		if r.Intn(5) == 0 {
			k = k[:r.Intn(29)]
		}
		return "pkey.parse " + hx(k)
	case 12:
		// years 0001..9999 mostly, around interesting instants
		base := []int64{0, 1, 999999999, 1000000000, 86399999999999, 86400000000000, 951782400000000000, 1582934400000000000, 4102444800000000000, -1, -86400000000000}
		ns := base[r.Intn(len(base))] + int64(r.Intn(3)-1)
		if r.Intn(2) == 0 {
			ns = r.Int63n(9000000000000000000) - 4000000000000000000
		}
		if r.Intn(3) == 0 { // the same instant carried in another time zone: the key is a function of the instant
			return fmt.Sprintf("tkeyz %d %d", ns, []int{3600, -3600, 19800, -43200, 50400, 1, 0}[r.Intn(7)])
		}
		return fmt.Sprintf("tkey %d", ns)
	case 13:
		return "hexaddr " + hx(genAddr(r))
	default:
		return fmt.Sprintf("vid %s", hx(amino.MustMarshalBinaryBare(int64(genU64(r)))))
	}
}

// intStr renders an Int; the zero value (nil big.Int, from an absent field) is 0, as MarshalAmino has it.
func intStr(i sdk.Int) string {
	s, _ := i.MarshalAmino()
	return s
}

func try(fn func() string) (res string) {
	defer func() {
		if e := recover(); e != nil {
			res = "panic"
		}
	}()
	return fn()
}

func parseCoin(t string) sdk.Coin {
	x := strings.Split(t, ":")
	a, _ := new(big.Int).SetString(x[1], 10)
	return sdk.Coin{Denom: string(unhx(x[0])), Amount: sdk.NewIntFromBigInt(a)}
}

func (f *Fam) Exec(op string) (obs string, fails []common.Failure) {
	defer func() {
		if e := recover(); e != nil {
			obs = "panic"
			fails = append(fails, common.Failure{Clause: "no-crash", Signature: "C20:codec-panic", Detail: fmt.Sprintf("%s: %v", op, e)})
		}
	}()
	w := strings.Fields(op)
	fail := func(clause, sig, detail string) {
		fails = append(fails, common.Failure{Clause: clause, Signature: sig, Detail: detail})
	}
	if strings.HasPrefix(w[0], "mon.") {
		return f.execWire(op, w, fail), fails
	}
	switch w[0] {
	case "reg":
		return "ok", nil
	case "amsg":
		return execAmsg(w), nil
	case "astruct":
		return execAstruct(w), nil
	case "astdtx":
		return execAstdtx(w), nil
	case "amsg2":
		return execAmsg2(w), nil
	case "aacct":
		return execAacct(w), nil
	case "uv":
		n, _ := strconv.ParseUint(w[1], 10, 64)
		bz := amino.MustMarshalBinaryBare(n) // bare uint64 = uvarint
		var back uint64
		if err := amino.UnmarshalBinaryBare(bz, &back); err != nil || back != n {
			fail("roundtrip", "C20:uvarint-roundtrip", op)
		}
		return hx(bz), fails
	case "uvd":
		b := unhx(w[1])
		n, k := binary.Uvarint(b)
		if k <= 0 {
			return "err", nil
		}
		return fmt.Sprintf("ok %d %s", n, hx(b[k:])), nil
	case "vi":
		i, _ := strconv.ParseInt(w[1], 10, 64)
		bz := amino.MustMarshalBinaryBare(i)
		var back int64
		if err := amino.UnmarshalBinaryBare(bz, &back); err != nil || back != i {
			fail("roundtrip", "C20:varint-roundtrip", op)
		}
		return hx(bz), fails
	case "vid":
		b := unhx(w[1])
		n, k := binary.Uvarint(b)
		if k <= 0 {
			return "err", nil
		}
		var back int64
		if err := amino.UnmarshalBinaryBare(b[:k], &back); err != nil || back != int64(n) {
			fail("roundtrip", "C20:varint-decode", op)
		}
		return fmt.Sprintf("ok %d %s", int64(n), hx(b[k:])), fails
	case "int.text":
		a, _ := new(big.Int).SetString(w[1], 10)
		i := sdk.NewIntFromBigInt(a)
		s, _ := i.MarshalAmino()
		var back sdk.Int
		if err := back.UnmarshalAmino(s); err != nil || !back.Equal(i) {
			fail("roundtrip", "C20:int-text-roundtrip", op)
		}
		js, _ := i.MarshalJSON()
		var jb sdk.Int
		if err := jb.UnmarshalJSON(js); err != nil || !jb.Equal(i) {
			fail("roundtrip", "C20:int-json-roundtrip", op)
		}
		return hx([]byte(s)), fails
	case "int.parse":
		return try(func() string {
			var i sdk.Int
			if err := i.UnmarshalAmino(string(unhx(w[1]))); err != nil {
				return "err"
			}
			return "ok " + i.String()
		}), nil
	case "coin.parse": // the text form: sdk.ParseCoin
		return try(func() string {
			c, err := sdk.ParseCoin(string(unhx(w[1])))
			if err != nil {
				return "err"
			}
			if back, err2 := sdk.ParseCoin(c.String()); err2 != nil || back.Denom != c.Denom || !back.Amount.Equal(c.Amount) {
				fail("roundtrip", "C20:coin-text-roundtrip", fmt.Sprintf("%s: parsed %v, printed %q, parsed again %v (%v)", op, c, c.String(), back, err2))
			}
			return fmt.Sprintf("ok %s:%s", hx([]byte(c.Denom)), intStr(c.Amount))
		}), fails
	case "coin.text": // sdk.Coin.String
		c := parseCoin(w[1])
		if c.Amount.IsNegative() {
			return "bad-op", nil
		}
		return try(func() string { return hx([]byte(c.String())) }), nil
	case "coin":
		c := parseCoin(w[1])
		bz := cdc.MustMarshalBinaryBare(c)
		var back sdk.Coin
		if err := cdc.UnmarshalBinaryBare(bz, &back); err != nil || back.Denom != c.Denom || !back.Amount.Equal(c.Amount) {
			fail("roundtrip", "C20:coin-roundtrip", op)
		}
		return hx(bz), fails
	case "coin.dec":
		return try(func() string {
			var c sdk.Coin
			if err := cdc.UnmarshalBinaryBare(unhx(w[1]), &c); err != nil {
				return "err"
			}
			return fmt.Sprintf("ok %s:%s", hx([]byte(c.Denom)), intStr(c.Amount))
		}), nil
	case "coins":
		var cs sdk.Coins
		for _, t := range w[1:] {
			cs = append(cs, parseCoin(t))
		}
		bz := cdc.MustMarshalBinaryBare(cs)
		var back sdk.Coins
		if err := cdc.UnmarshalBinaryBare(bz, &back); err != nil || len(back) != len(cs) {
			fail("roundtrip", "C20:coins-roundtrip", op)
		}
		return hx(bz), fails
	case "coins.dec":
		return try(func() string {
			var cs sdk.Coins
			if err := cdc.UnmarshalBinaryBare(unhx(w[1]), &cs); err != nil {
				return "err"
			}
			p := []string{"ok"}
			for _, c := range cs {
				p = append(p, fmt.Sprintf("%s:%s", hx([]byte(c.Denom)), intStr(c.Amount)))
			}
			return strings.Join(p, " ")
		}), nil
	case "msgsend":
		a, _ := new(big.Int).SetString(w[3], 10)
		m := posTypes.MsgSend{FromAddress: unhx(w[1]), ToAddress: unhx(w[2]), Amount: sdk.NewIntFromBigInt(a)}
		bz := cdc.MustMarshalBinaryBare(m)
		var back posTypes.MsgSend
		if err := cdc.UnmarshalBinaryBare(bz, &back); err != nil || !bytes.Equal(back.FromAddress, m.FromAddress) || !bytes.Equal(back.ToAddress, m.ToAddress) || !back.Amount.Equal(m.Amount) {
			fail("roundtrip", "C20:msgsend-roundtrip", op)
		}
		return hx(bz), fails
	case "pkey":
		pw, _ := strconv.ParseUint(w[1], 10, 64)
		addr := unhx(w[2])
		tokens := new(big.Int).Mul(new(big.Int).SetUint64(pw), big.NewInt(1000000))
		v := posTypes.Validator{Address: addr, StakedTokens: sdk.NewIntFromBigInt(tokens)}
		k := posTypes.KeyForValidatorInStakingSet(v)
		if !bytes.Equal(posTypes.ParseValidatorPowerRankKey(k), addr) {
			fail("key-roundtrip", "C20:power-key-roundtrip", op)
		}
		// order: compare with a neighbour
		v2 := posTypes.Validator{Address: addr, StakedTokens: sdk.NewIntFromBigInt(new(big.Int).Add(tokens, big.NewInt(1000000)))}
		if bytes.Compare(k, posTypes.KeyForValidatorInStakingSet(v2)) >= 0 {
			fail("key-order", "C20:power-key-order", op+": key of power+1 does not sort after")
		}
		return hx(k), fails
	case "pkey.parse":
		// an internal parser applied to keys read back from the store: it panics on a wrong length
		// by design; that is an error result here, not a crash on untrusted input
		r := try(func() string {
			k := unhx(w[1])
			a := posTypes.ParseValidatorPowerRankKey(k)
			return fmt.Sprintf("ok %d %s", binary.BigEndian.Uint64(k[1:9]), hx(a))
		})
		if r == "panic" {
			r = "err"
		}
		return r, nil
	case "tkey", "tkeyz":
		ns, _ := strconv.ParseInt(w[1], 10, 64)
		t := time.Unix(0, ns).UTC()
		if w[0] == "tkeyz" {
			off, _ := strconv.Atoi(w[2])
			tz := t.In(time.FixedZone("z", off))
			if kz := posTypes.KeyForUnstakingValidators(tz); !bytes.Equal(kz, posTypes.KeyForUnstakingValidators(t)) && t.Year() >= 1 && t.Year() <= 9998 {
				fail("key-roundtrip", "C20:time-key-depends-on-zone", fmt.Sprintf("%s: the key of the instant differs between UTC and UTC%+ds", op, off))
			}
			t = tz
		}
		k := posTypes.KeyForUnstakingValidators(t)
		if back, err := sdk.ParseTimeBytes(k[1:]); err != nil || !back.Equal(t) {
			if t.Year() >= 0 && t.Year() <= 9999 {
				fail("key-roundtrip", "C20:time-key-roundtrip", fmt.Sprintf("%s: %v %v", op, back, err))
			}
		}
		k2 := posTypes.KeyForUnstakingValidators(t.Add(time.Nanosecond))
		if bytes.Compare(k, k2) >= 0 && t.Year() >= 0 && t.Add(time.Nanosecond).Year() <= 9999 {
			fail("key-order", "C20:time-key-order", op+": key of t+1ns does not sort after")
		}
		return hx(k), fails
	case "hexaddr":
		a := sdk.Address(unhx(w[1]))
		s := a.String()
		back, err := sdk.AddressFromHex(s)
		if len(a) == 20 && (err != nil || !bytes.Equal(back, a)) {
			fail("roundtrip", "C20:address-hex-roundtrip", op)
		}
		return s + " " + hx(a), fails
	}
	return "bad-op", nil
}

func (f *Fam) Class(op, obs string) string {
	w := strings.Fields(op)
	if w[0] == "reg" {
		return ""
	}
	if w[0] == "amsg" || w[0] == "astruct" || w[0] == "amsg2" {
		return w[0] + "/" + w[1]
	}
	if w[0] == "aacct" {
		return "aacct/" + fmt.Sprint(len(w)-4) + "-coins"
	}
	if w[0] == "astdtx" {
		return "astdtx/" + fmt.Sprint(len(w)-7) + "-coin-fee"
	}
	o := "ok"
	if strings.HasPrefix(obs, "err") || strings.HasPrefix(obs, "panic") {
		o = strings.Fields(obs)[0]
	}
	return w[0] + "/" + o
}

var _ = authTypes.ModuleName
var _ = govTypes.ModuleName
