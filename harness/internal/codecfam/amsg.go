package codecfam

// amsg: the amino binary encoding of the flat message types (every field length-delimited: addresses, strings, byte
// slices, Int as its decimal text) compared byte for byte with the Lean model's generic field encoder
// (`Codec.encodeFields`), whose injectivity is a theorem (`C20.encodeFields_injective`).  The four registered-type
// prefix bytes come from the codec itself and travel in the operation.

import (
	"fmt"
	"math/big"
	"math/rand"
	"strings"

	sdk "github.com/pokt-network/posmint/types"
	govTypes "github.com/pokt-network/posmint/x/gov/types"
	posTypes "github.com/pokt-network/posmint/x/pos/types"
)

var amsgKinds = []string{"send", "unstake", "unjail", "dao", "changeparam"}

func rndBytesField(r *rand.Rand) []byte {
	n := []int{0, 0, 1, 5, 20, 20, 127, 128, 129, 300}[r.Intn(10)]
	b := make([]byte, n)
	r.Read(b)
	return b
}

func genAmsg(r *rand.Rand) string {
	k := amsgKinds[r.Intn(len(amsgKinds))]
	bt := func() string { return "b:" + hx(rndBytesField(r)) }
	at := func() string { return "b:" + hx(genAddr(r)) }
	it := func() string { return "i:" + genBig(r).String() }
	var toks []string
	var sample sdk.Msg
	switch k {
	case "send":
		toks = []string{at(), at(), it()}
		sample = posTypes.MsgSend{FromAddress: []byte{1}, Amount: sdk.NewInt(0)}
	case "unstake":
		toks = []string{at()}
		sample = posTypes.MsgBeginUnstake{Address: []byte{1}}
	case "unjail":
		toks = []string{at()}
		sample = posTypes.MsgUnjail{ValidatorAddr: []byte{1}}
	case "dao":
		toks = []string{at(), at(), it(), "b:" + hx([]byte([]string{"", "dao_transfer", "dao_burn", "x"}[r.Intn(4)]))}
		sample = govTypes.MsgDAOTransfer{FromAddress: []byte{1}, Amount: sdk.NewInt(0)}
	default:
		toks = []string{at(), "b:" + hx([]byte([]string{"", "pos/MaxValidators", "gov/acl", "k"}[r.Intn(4)])), bt()}
		sample = govTypes.MsgChangeParam{FromAddress: []byte{1}}
	}
	pre := cdc.MustMarshalBinaryBare(sample)[:4]
	return fmt.Sprintf("amsg %s %s %s", k, hx(pre), strings.Join(toks, " "))
}

func execAmsg(w []string) string {
	fb := func(i int) []byte { return unhx(strings.TrimPrefix(w[i], "b:")) }
	fi := func(i int) sdk.Int {
		a, _ := new(big.Int).SetString(strings.TrimPrefix(w[i], "i:"), 10)
		return sdk.NewIntFromBigInt(a)
	}
	var m sdk.Msg
	switch w[1] {
	case "send":
		m = posTypes.MsgSend{FromAddress: fb(3), ToAddress: fb(4), Amount: fi(5)}
	case "unstake":
		m = posTypes.MsgBeginUnstake{Address: fb(3)}
	case "unjail":
		m = posTypes.MsgUnjail{ValidatorAddr: fb(3)}
	case "dao":
		m = govTypes.MsgDAOTransfer{FromAddress: fb(3), ToAddress: fb(4), Amount: fi(5), Action: string(fb(6))}
	case "changeparam":
		m = govTypes.MsgChangeParam{FromAddress: fb(3), ParamKey: string(fb(4)), ParamVal: fb(5)}
	default:
		return "bad-op"
	}
	return "ok " + hx(cdc.MustMarshalBinaryBare(m))
}
