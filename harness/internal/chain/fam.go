package chain

import (
	"math/big"
	"encoding/json"
	"fmt"
	"math/rand"
	"sort"
	"strings"

	tmtypes "github.com/tendermint/tendermint/types"

	sdk "github.com/pokt-network/posmint/types"
	"github.com/pokt-network/posmint/x/auth"
	authTypes "github.com/pokt-network/posmint/x/auth/types"
	govTypes "github.com/pokt-network/posmint/x/gov/types"
	posTypes "github.com/pokt-network/posmint/x/pos/types"

	"verif/harness/internal/common"
)

type genState struct {
	phase    int // 0 init, 1 begin, 2 txs, 3 end, 4 commit
	txsLeft  int
	blocks   int
	reliab   map[string]float64
	maxBlocks int
	past     []string // earlier transactions (text after the mode), for replays
	afterParamChange bool // the last operation was a delivered change-param transaction
	aclAtBegin, daoAtBegin string // who owned the access-control list / the DAO when this block began
	afterHandOver int             // governance transactions still to come right after a hand-over in this block
	unjailNow int     // key index of a jailed validator whose jail term ends within a nanosecond of this block's time (-1: none)
}

var poolAddr = hx(ModAddr(posTypes.StakedPoolName))
var feeAddr = hx(ModAddr(auth.FeeCollectorName))
var posAddr = hx(ModAddr(posTypes.ModuleName))
var daoAddr = hx(ModAddr(govTypes.DAOAccountName))

func isModule(a string) bool { return a == poolAddr || a == feeAddr || a == posAddr || a == daoAddr }

func (f *Fam) Exec(op string) (obs string, fails []common.Failure) {
	w := strings.Fields(op)
	fail := func(clause, sig, detail string) {
		fails = append(fails, common.Failure{Clause: clause, Signature: sig, Detail: detail})
	}
	if w[0] == "init" {
		obs = f.doInit(w)
		if !f.dead {
			after := f.app.Snap()
			f.invariants(after, op, fail)
			// every parameter the chain was configured with is stored under its own key, as configured: the windows,
			// durations, fractions and limits the properties speak of are these
			m := kv(w)
			got := after.govText()
			for _, c := range [][2]string{{"ms", "ms"}, {"mv", "mv"}, {"ut", "ut"}, {"w", "w"}, {"mspw", "mspw"}, {"jd", "jd"}, {"mea", "mea"}, {"sfds", "sfds"}, {"sfdt", "sfdt"}} {
				want := c[1] + "=" + m[c[0]]
				if !strings.Contains(got, "["+want+",") && !strings.Contains(got, ","+want+",") {
					fail("configured", "genesis-parameter-not-as-configured", fmt.Sprintf("the chain was configured with %s, the parameter store holds%.400s", want, got))
				}
			}
		}
		return
	}
	if f.dead || f.app == nil {
		return "dead", nil
	}
	before := f.app.Snap()
	switch w[0] {
	case "begin":
		obs = f.doBegin(w)
		if f.dead {
			f.checkHalt(before, w, fail)
		}
		if !f.dead {
			after := f.app.Snap()
			f.checkSlashing(before, after, w, fail)
			f.checkBegin(before, after, fail)
			f.checkWindowHistory(before, after, w, fail)
		}
	case "end":
		obs = f.doEnd()
		if f.dead {
			f.checkHalt(before, w, fail)
		}
		if !f.dead {
			f.checkEnd(obs, fail)
			f.checkMaturity(before, f.app.Snap(), fail)
		}
	case "commit":
		obs = f.doCommit()
		f.recordCommitted()
	case "award", "burn":
		r := f.doKeeper(w)
		if f.dead { // a panic in a keeper API call is not a chain halt: keep the chain, report the panic
			f.dead = false
			r = "panic"
		} else if w[0] == "award" {
			a := mustInt(w[2])
			if old, ok := f.awardsQueued[w[1]]; ok {
				a = a.Add(old)
			}
			f.awardsQueued[w[1]] = a
		}
		obs = r + " | " + f.state()
	case "tx":
		r, bz, msg, t := f.doTx(w)
		if f.dead { // decode panics etc. outside runTx's recover
			obs = r + " | dead"
			fail("tx-crashed-process", "C11:tx-panic-escaped", "a transaction made the ABCI call panic: "+r)
			return
		}
		after := f.app.Snap()
		obs = r + " | " + after.String()
		f.checkTx(before, after, r, bz, msg, t, fail)
	case "mon.glue":
		seed := atoi(w[1])
		func() {
			defer func() {
				if e := recover(); e != nil {
					fail("glue", "glue-monitor-panic", fmt.Sprint(e))
				}
			}()
			f.monGlue(seed, fail)
		}()
		return "done", fails
	case "mon.query":
		f.monQuery(fail)
		return "done", fails
	case "mon.export":
		f.monExport(fail)
		return "done", fails
	default:
		return "bad-op", nil
	}
	if !f.dead {
		after := f.app.Snap()
		f.checkParams(before, after, w, obs, fail)
		f.invariants(after, op, fail)
		f.checkSupplyDelta(before, after, w, obs, fail)
	}
	f.checkReplica(w, fail)
	return
}

// checkSupplyDelta: C02, second sentence. The total supply changes only by explicit mints and burns: BeginBlock mints
// the queued awards and burns exactly the stake it takes away from validators (slashes, queued burns, forced
// unstakes); an accepted DAO burn burns its amount; nothing else changes the supply.
func (f *Fam) checkSupplyDelta(before, after *Snapshot, w []string, obs string, fail func(string, string, string)) {
	if w[0] == "init" {
		return
	}
	sup := func(s *Snapshot) sdk.Int {
		if a, ok := s.Supply[Denom]; ok {
			return a
		}
		return sdk.ZeroInt()
	}
	got := sup(after).Sub(sup(before))
	exp := sdk.ZeroInt()
	switch w[0] {
	case "begin":
		for _, a := range before.Awards {
			exp = exp.Add(mustInt(a))
		}
		for a, v := range before.Vals {
			if v.Status == 0 {
				continue
			}
			now := sdk.ZeroInt()
			if va, ok := after.Vals[a]; ok && va.Status != 0 {
				now = va.Tokens
			}
			if now.LT(v.Tokens) {
				exp = exp.Sub(v.Tokens.Sub(now))
			}
		}
	case "tx":
		t := parseTx(w)
		if t.mode == "deliver" && t.kind == "daoburn" && strings.HasPrefix(obs, "ok") {
			exp = mustInt(t.f["amt"]).Neg()
		}
	}
	if !got.Equal(exp) {
		fail("supply-delta-explicit", "C02:supply-delta", fmt.Sprintf("%s changed the total supply by %s; the explicit mints and burns of this operation amount to %s", clip(strings.Join(w, " ")), got, exp))
	}
}

// checkHalt: a panic in BeginBlock / EndBlock stops the chain. The repository does that on purpose in a few
// situations (each pinned by its own tests or a consequence of a documented conversion); every one of them is
// recognised here from the request and the state before it. A halt in any other situation is reported with the
// operation that caused it. It carries no property prefix: every chain property presupposes a running chain,
// so the check of whichever property is running reports it.
func (f *Fam) checkHalt(before *Snapshot, w []string, fail func(string, string, string)) {
	m := kv(w)
	msg := f.lastHalt
	whale := false
	for _, v := range before.Vals {
		// a consensus power (or, at maturity, a stake) that does not fit an int64
		if !v.Tokens.Quo(sdk.NewInt(1000000)).IsInt64() || (w[0] == "end" && !v.Tokens.IsInt64()) {
			whale = true
		}
	}
	explained := false
	switch {
	case strings.Contains(msg, "negative coin amount"):
		for _, a := range before.Awards { // an award queued with a negative amount
			if strings.HasPrefix(a, "-") {
				explained = true
			}
		}
	case strings.Contains(msg, "validator does not exist for that address"), strings.Contains(msg, "already tombstoned"), strings.Contains(msg, "handle evidence"):
		// evidence against an address that has no validator record, an unstaked or an already convicted one
		if m["e"] != "" && m["e"] != "-" {
			for _, sv := range strings.Split(m["e"], ",") {
				a := strings.Split(sv, ":")[0]
				v, ok := before.Vals[a]
				if !ok || v.Status == 0 || before.Sign[a].Tomb {
					explained = true
				}
				// ... or one that a vote or a queued burn earlier in this same BeginBlock may have force-unstaked
				if _, burn := before.Burns[a]; burn || strings.Contains(m["v"], a+":") {
					explained = true
				}
				// ... or evidence listed twice: the first conviction tombstones
				if strings.Count(m["e"], a+":") > 1 {
					explained = true
				}
			}
		}
	case strings.Contains(msg, "validator record not found"):
		for a := range before.Burns { // a burn queued for a validator that has left since
			if _, ok := before.Vals[a]; !ok {
				explained = true
			}
		}
	case strings.Contains(msg, "Int64() out of bound"):
		explained = whale // a stake whose consensus power does not fit an int64
	case strings.Contains(msg, "not found") && w[0] == "begin":
		// a vote for an address that never was a validator (no public-key relation / signing info)
		if m["v"] != "" && m["v"] != "-" {
			for _, sv := range strings.Split(m["v"], ",") {
				if _, ok := before.Sign[strings.Split(sv, ":")[0]]; !ok {
					explained = true
				}
			}
		}
	}
	f.extra["halt-explained:"+fmt.Sprint(explained)]++
	if !explained {
		fail("no-unexpected-halt", "unexpected-halt", fmt.Sprintf("%s halted the chain: %q, and nothing in the request or the state accounts for it", clip(strings.Join(w, " ")), msg))
	}
}

// checkReplica: C01. The second instance got the same request (and, unlike the primary, restarts, another
// pruning configuration and CheckTx/Query traffic of its own): the consensus-relevant responses must be equal,
// a halt of one must be a halt of the other, and at every commit the whole application state must be equal.
func (f *Fam) checkReplica(w []string, fail func(string, string, string)) {
	if f.rep == nil || (w[0] == "tx" && w[1] != "deliver") {
		return
	}
	a, b := f.lastResp, f.repResp
	if f.dead && w[0] != "award" && w[0] != "burn" {
		a = "halt"
	}
	if strings.HasPrefix(b, "halt:") {
		b = "halt"
	}
	if a == "halt" && b == "dead" || f.rep.dead && f.dead && a == "halt" {
		return // both halted earlier
	}
	f.extra["c01:responses-compared"]++
	if a != b {
		sig := "C01:response-differs"
		if w[0] == "commit" {
			sig = "C01:apphash-differs"
		}
		if f.rep.restarts > 0 {
			sig += ":after-restart"
		}
		fail("replica-agrees", sig, fmt.Sprintf("%s: the primary instance answered %q, the replica (pruning %d/%d, %d restarts, %d private CheckTx/Query requests) answered %q",
			clip(strings.Join(w, " ")), clip(a), f.rep.pruning.KeepRecent(), f.rep.pruning.KeepEvery(), f.rep.restarts, f.rep.extras, clip(b)))
		f.rep = nil // diverged: nothing further is comparable
		return
	}
	if w[0] == "commit" && f.rep.wantRestart {
		f.rep.wantRestart = false
		if e := f.rep.restart(); e != "" {
			fail("replica-agrees", "C01:reopen-failed", "the replica could not be reopened from its database after commit: "+e)
			f.rep = nil
			return
		}
	}
	if w[0] == "commit" && !f.dead && !f.rep.dead {
		f.extra["c01:states-compared"]++
		if f.rep.restarts > 0 {
			f.extra["c01:states-compared-after-a-restart"]++
		}
		sa, sb := f.app.Snap(), f.rep.app.Snap()
		if x, y := sa.String()+" | "+sa.Foreign(), sb.String()+" | "+sb.Foreign(); x != y {
			fail("replica-agrees", "C01:state-differs", fmt.Sprintf("after commit %d the committed states differ: primary %s / replica %s", f.height, clip(x), clip(y)))
			f.rep = nil
		}
	}
}

func (f *Fam) Class(op, obs string) string {
	w := strings.Fields(op)
	o := strings.Fields(obs)[0]
	c := w[0]
	if w[0] == "tx" {
		m := kv(w)
		c = "tx:" + w[1] + ":" + m["k"] + ":" + m["mut"]
		if int(atoi(m["signer"])) != -1 {
		}
	}
	return c + "/" + o
}

// ---------------------------------------------------------------- monitors

func sumBal(s *Snapshot, denom string) sdk.Int {
	t := sdk.ZeroInt()
	for _, m := range s.Bal {
		if a, ok := m[denom]; ok {
			t = t.Add(a)
		}
	}
	return t
}

func balOf(s *Snapshot, addr, denom string) sdk.Int {
	if m, ok := s.Bal[addr]; ok {
		if a, ok := m[denom]; ok {
			return a
		}
	}
	return sdk.ZeroInt()
}

func (f *Fam) invariants(s *Snapshot, op string, fail func(string, string, string)) {
	denoms := map[string]bool{Denom: true}
	for d := range s.Supply {
		denoms[d] = true
	}
	for _, m := range s.Bal {
		for d, a := range m {
			denoms[d] = true
			if a.IsNegative() {
				fail("no-negative-balance", "C02:negative-balance", "negative balance after "+op)
			}
		}
	}
	for d := range denoms {
		sup := sdk.ZeroInt()
		if a, ok := s.Supply[d]; ok {
			sup = a
		}
		if !sumBal(s, d).Equal(sup) {
			fail("supply-equals-balances", "C02:supply-ne-balances", fmt.Sprintf("after %q: supply %s%s, sum of balances %s", clip(op), sup, d, sumBal(s, d)))
		}
	}
	// C04
	stake := sdk.ZeroInt()
	for _, v := range s.Vals {
		if v.Status != 0 {
			stake = stake.Add(v.Tokens)
		}
	}
	if !balOf(s, poolAddr, Denom).Equal(stake.Add(f.donated)) {
		fail("pool-backs-stake", "C04:pool-ne-stake", fmt.Sprintf("after %q: staked pool holds %s, recorded stake %s (+%s sent to the pool directly)", clip(op), balOf(s, poolAddr, Denom), stake, f.donated))
	}
	// C06 (a): the power index lists exactly the staked, unjailed validators under their current power
	want := map[string]int64{}
	for a, v := range s.Vals {
		if v.Status == 2 && !v.Jailed {
			want[a] = v.Tokens.Quo(sdk.NewInt(1000000)).Int64()
		}
	}
	got := map[string]int64{}
	for _, e := range s.Index {
		if _, dup := got[e.Addr]; dup {
			fail("index-exact", "C06:index-duplicate", fmt.Sprintf("after %q: validator %s twice in the power index", clip(op), e.Addr))
		}
		got[e.Addr] = e.Power
	}
	for a, p := range want {
		if g, ok := got[a]; !ok || g != p {
			fail("index-exact", "C06:index-missing-or-stale", fmt.Sprintf("after %q: staked unjailed validator %s (power %d) has index entry %v/%d", clip(op), a, p, ok, g))
			break
		}
	}
	for a := range got {
		if _, ok := want[a]; !ok {
			v, known := s.Vals[a]
			fail("index-exact", "C06:index-extra", fmt.Sprintf("after %q: index lists %s which is not staked+unjailed (known=%v status=%d jailed=%v)", clip(op), a, known, v.Status, v.Jailed))
			break
		}
	}
	// C06 (b): every unstaking validator is queued at its completion time
	for a, v := range s.Vals {
		if v.Status == 1 {
			found := false
			for _, x := range s.Queue[fmt.Sprintf("%d", v.Unstake)] {
				if x == a {
					found = true
				}
			}
			if !found {
				fail("unstaking-queued", "C06:unstaking-not-queued", fmt.Sprintf("after %q: unstaking validator %s not queued at %d", clip(op), a, v.Unstake))
			}
		}
		// C06 (c)
		if v.Status != 0 && !f.minChanged && v.Tokens.LT(sdk.NewInt(f.minStake)) {
			fail("min-stake", "C06:below-minimum", fmt.Sprintf("after %q: validator %s status %d holds %s < minimum %d", clip(op), a, v.Status, v.Tokens, f.minStake))
		}
	}
	// C08: counter equals the number of missed bits
	w := int64(0)
	if raw, ok := s.Params["pos/SignedBlocksWindow"]; ok {
		var sw string
		json.Unmarshal([]byte(raw), &sw)
		fmt.Sscan(sw, &w)
	}
	for a, si := range s.Sign {
		n := int64(0)
		for i, b := range s.Missed[a] {
			if b {
				n++
			}
			if w > 0 && i >= w && !f.windowChanged {
				fail("window-bits", "C08:bit-outside-window", fmt.Sprintf("after %q: %s has a missed-bit at index %d >= window %d", clip(op), a, i, w))
			}
		}
		if n != si.Missed {
			fail("window-counter", "C08:counter-ne-bits", fmt.Sprintf("after %q: %s counter %d, missed bits set %d", clip(op), a, si.Missed, n))
		}
	}
}

func clip(s string) string {
	if len(s) > 90 {
		return s[:90] + "…"
	}
	return s
}

func (f *Fam) target(s *Snapshot) map[string]int64 {
	type cand struct {
		a string
		p int64
	}
	var cs []cand
	for a, v := range s.Vals {
		if v.Status == 2 && !v.Jailed {
			cs = append(cs, cand{a, v.Tokens.Quo(sdk.NewInt(1000000)).Int64()})
		}
	}
	sort.Slice(cs, func(i, j int) bool {
		if cs[i].p != cs[j].p {
			return cs[i].p > cs[j].p
		}
		return cs[i].a < cs[j].a
	})
	mv := int64(100000)
	if raw, ok := s.Params["pos/MaxValidators"]; ok {
		var sv string
		json.Unmarshal([]byte(raw), &sv)
		fmt.Sscan(sv, &mv)
	}
	t := map[string]int64{}
	for i, c := range cs {
		if int64(i) >= mv {
			break
		}
		t[c.a] = c.p
	}
	return t
}

func (f *Fam) checkEnd(obs string, fail func(string, string, string)) {
	// the updates were rendered into obs; re-derive them from the app would run EndBlock twice, so parse
	i := strings.Index(obs, "ups=[")
	j := strings.Index(obs, "]")
	var ups []string
	if i >= 0 && j > i+5 {
		ups = strings.Split(obs[i+5:j], ",")
	}
	seen := map[string]bool{}
	bad := ""
	for _, u := range ups {
		x := strings.Split(u, ":")
		if seen[x[0]] {
			bad = "duplicate key " + x[0]
		}
		seen[x[0]] = true
		if x[1] == "0" {
			if _, ok := f.tm[x[0]]; !ok {
				bad = "removal of validator " + x[0] + " that Tendermint does not have"
			}
		}
		if strings.HasPrefix(x[1], "-") {
			bad = "negative power"
		}
	}
	if bad != "" {
		fail("updates-applicable", "C05:updates-not-applicable", fmt.Sprintf("EndBlock %d: %s", f.height, bad))
		// Tendermint would reject the batch; keep our set unchanged
	} else {
		for _, u := range ups {
			x := strings.Split(u, ":")
			if x[1] == "0" {
				delete(f.tm, x[0])
			} else {
				f.tm[x[0]] = atoi(x[1])
			}
		}
	}
	f.tmHist = append(f.tmHist, copyMap(f.tm)) // signs height f.height+2
	s := f.app.Snap()
	// the target is evaluated on the state right after the update computation, before maturity
	// processing removed records; both agree on staked validators.
	tgt := f.target(s)
	if bad == "" && !sameSet(tgt, f.tm) {
		fail("set-equals-target", "C05:set-ne-staked-set", fmt.Sprintf("EndBlock %d: Tendermint's set %v, top staked unjailed %v", f.height, f.tm, tgt))
	}
	for a := range f.tm {
		if si, ok := s.Sign[a]; ok && si.Tomb {
			fail("tombstone-forever", "C09:tombstoned-in-set", fmt.Sprintf("EndBlock %d: validator %s convicted of double signing (tombstoned) is in Tendermint's set again", f.height, a))
		}
		if v, ok := s.Vals[a]; ok && v.Jailed {
			fail("jailed-no-power", "C09:jailed-in-set", fmt.Sprintf("EndBlock %d: jailed validator %s still in Tendermint's set", f.height, a))
		}
	}
}

// checkMaturity: C06 timing. An unstaking validator is removed, with its whole stake returned, at
// the first EndBlock whose time is at or after its completion time, and never earlier.
func (f *Fam) checkMaturity(before, after *Snapshot, fail func(string, string, string)) {
	for a, v := range before.Vals {
		_, still := after.Vals[a]
		if v.Status == 1 && v.Unstake <= f.now {
			if still {
				fail("matures-on-time", "C06:not-matured-on-time", fmt.Sprintf("EndBlock %d at %d: unstaking validator %s (completion %d) was not paid out", f.height, f.now, a, v.Unstake))
			} else if got := balOf(after, a, Denom).Sub(balOf(before, a, Denom)); !got.Equal(v.Tokens) {
				fail("matures-in-full", "C06:payout-ne-stake", fmt.Sprintf("EndBlock %d: validator %s matured with stake %s but its account gained %s", f.height, a, v.Tokens, got))
			}
		}
		if !still && !(v.Status == 1 && v.Unstake <= f.now) {
			fail("never-early", "C06:removed-early", fmt.Sprintf("EndBlock %d at %d: validator %s (status %d, completion %d) was removed/paid out before its completion time", f.height, f.now, a, v.Status, v.Unstake))
		}
		if still && v.Status != 1 {
			if d := balOf(after, a, Denom).Sub(balOf(before, a, Denom)); !d.IsZero() {
				fail("never-early", "C06:endblock-paid-non-mature", fmt.Sprintf("EndBlock %d: account of validator %s (status %d) changed by %s", f.height, a, v.Status, d))
			}
		}
	}
}

func sameSet(a, b map[string]int64) bool {
	if len(a) != len(b) {
		return false
	}
	for k, v := range a {
		if w, ok := b[k]; !ok || w != v {
			return false
		}
	}
	return true
}

func (f *Fam) checkBegin(before, after *Snapshot, fail func(string, string, string)) {
	if f.height <= 1 {
		f.awardsQueued = map[string]sdk.Int{}
		f.feesThisBlock = map[string]sdk.Int{}
		return
	}
	// C10: fees of the previous block go to its proposer; awards are minted once
	fees := before.Bal[feeAddr]
	// (an award another module queued for the fee collector itself is minted after the fees have been passed on: it is
	// all the collector may hold afterwards)
	emptied := len(after.Bal[feeAddr]) == 0
	if aw, ok := f.awardsQueued[feeAddr]; ok && aw.IsPositive() {
		emptied = len(after.Bal[feeAddr]) == 1 && balOf(after, feeAddr, Denom).Equal(aw)
	}
	if !emptied {
		fail("fees-forwarded", "C10:collector-not-emptied", fmt.Sprintf("BeginBlock %d: fee collector still holds %s", f.height, coinsStr(after.Bal[feeAddr])))
	}
	_, known := before.Vals[f.lastProposer]
	addrs := map[string]bool{}
	for a := range before.Bal {
		addrs[a] = true
	}
	for a := range after.Bal {
		addrs[a] = true
	}
	for a := range f.awardsQueued {
		addrs[a] = true
	}
	denoms := map[string]bool{Denom: true}
	for d := range fees {
		denoms[d] = true
	}
	for a := range addrs {
		if a == poolAddr || a == feeAddr {
			continue
		}
		for d := range denoms {
			exp := sdk.ZeroInt()
			if aw, ok := f.awardsQueued[a]; ok && d == Denom {
				exp = exp.Add(aw)
			}
			if fa, ok := fees[d]; ok {
				if known && a == f.lastProposer {
					exp = exp.Add(fa)
				}
				if !known && a == posAddr {
					exp = exp.Add(fa)
				}
			}
			got := balOf(after, a, d).Sub(balOf(before, a, d))
			if !got.Equal(exp) {
				sig := "C10:balance-delta"
				if a == posAddr || (a == f.lastProposer && d != Denom) {
					sig = "C10:fees-not-in-full"
				}
				fail("rewards-exact", sig, fmt.Sprintf("BeginBlock %d: account %s %s changed by %s, expected %s (fees %s to proposer %s known=%v, award %v)",
					f.height, a, d, got, exp, coinsStr(fees), f.lastProposer, known, f.awardsQueued[a]))
			}
		}
	}
	if len(after.Awards) != 0 {
		fail("award-queue-emptied", "C10:award-queue-not-empty", "award queue not empty after BeginBlock")
	}
	f.awardsQueued = map[string]sdk.Int{}
}

// paramBig reads an integer or fixed-point parameter ("123" or "0.050000000000000000") as its raw integer
// (fixed-point values scaled by 10^18).
func paramBig(s *Snapshot, key string) (*big.Int, bool) {
	raw, ok := s.Params[key]
	if !ok {
		return nil, false
	}
	var str string
	if json.Unmarshal([]byte(raw), &str) != nil {
		return nil, false
	}
	if i := strings.IndexByte(str, '.'); i >= 0 {
		frac := str[i+1:]
		for len(frac) < 18 {
			frac += "0"
		}
		str = str[:i] + frac[:18]
	}
	x, ok := new(big.Int).SetString(str, 10)
	return x, ok
}

// stakeAfterSlash is the stake a slash (power p, fraction fRaw/10^18) must leave: min(trunc(p*10^6*f), stake)
// is removed; a remainder under the minimum is burned too; a slash that removes nothing changes nothing.
func stakeAfterSlash(stake *big.Int, p int64, fRaw, min *big.Int) *big.Int {
	amt := new(big.Int).Mul(big.NewInt(p), big.NewInt(1000000))
	amt.Mul(amt, fRaw)
	amt.Quo(amt, new(big.Int).Exp(big.NewInt(10), big.NewInt(18), nil))
	if amt.Cmp(stake) > 0 {
		amt = new(big.Int).Set(stake)
	}
	if amt.Sign() <= 0 {
		return new(big.Int).Set(stake)
	}
	r := new(big.Int).Sub(stake, amt)
	if r.Cmp(min) < 0 {
		return big.NewInt(0)
	}
	return r
}

// checkSlashing: C07 (what a slash removes) and C09 (a conviction tombstones and jails for ever), evaluated per
// validator on blocks where at most one cause of slashing applies to it, so that the expected stake is a closed
// formula that does not depend on the downtime bookkeeping (whether the downtime slash happens is C08's matter).
func (f *Fam) checkSlashing(before, after *Snapshot, w []string, fail func(string, string, string)) {
	m := kv(w)
	type ev struct {
		h, t, p int64
	}
	evs := map[string][]ev{}
	missed := map[string][]int64{}
	if m["e"] != "" && m["e"] != "-" {
		for _, s := range strings.Split(m["e"], ",") {
			x := strings.Split(s, ":")
			evs[x[0]] = append(evs[x[0]], ev{atoi(x[1]), atoi(x[2]), atoi(x[3])})
		}
	}
	if m["v"] != "" && m["v"] != "-" {
		for _, s := range strings.Split(m["v"], ",") {
			x := strings.Split(s, ":")
			// a vote of either kind can be the one at which accumulated misses are punished
			missed[x[0]] = append(missed[x[0]], atoi(x[1]))
		}
	}
	min, ok1 := paramBig(before, "pos/StakeMinimum")
	fDown, ok2 := paramBig(before, "pos/SlashFractionDowntime")
	maxAge, ok3 := paramBig(before, "pos/MaxEvidenceAge")
	if !ok1 || !ok2 || !ok3 {
		return
	}
	forever := unixNs(posTypes.DoubleSignJailEndTime)
	// C07: what BeginBlock takes away from the validators' stakes (slashes, convictions, queued burns, forced unstakes)
	// leaves the staked pool and the total supply by exactly that amount: awards pass through the pool (minted into it
	// and sent on) and nothing else touches it in BeginBlock
	{
		lost := big.NewInt(0)
		for a, v := range before.Vals {
			if v.Status == 0 {
				continue
			}
			now := big.NewInt(0)
			if va, ok := after.Vals[a]; ok && va.Status != 0 {
				now = va.Tokens.BigInt()
			}
			lost.Add(lost, new(big.Int).Sub(v.Tokens.BigInt(), now))
		}
		poolDelta := new(big.Int).Sub(balOf(after, poolAddr, Denom).BigInt(), balOf(before, poolAddr, Denom).BigInt())
		// an award to the pool's own address stays in the pool
		for a, x := range before.Awards {
			if a == poolAddr {
				poolDelta.Sub(poolDelta, mustInt(x).BigInt())
			}
		}
		f.extra["c07:pool-delta-checked"]++
		if new(big.Int).Add(poolDelta, lost).Sign() != 0 {
			fail("burn-from-pool", "C07:stake-lost-ne-pool-burned", fmt.Sprintf("BeginBlock %d: validators lost %s of stake, the staked pool changed by %s", f.height, lost, poolDelta))
		}
	}
	// C08: the downtime punishment happens at exactly the vote at which the window count first exceeds the allowance,
	// later than start height + window, for an existing validator that is not jailed - and at no other vote.
	// (Evaluated for addresses with one vote and no evidence in this block, from the signing state before the block.)
	if w, okw := paramBig(before, "pos/SignedBlocksWindow"); okw && w.Sign() > 0 {
		if frac, okf := paramBig(before, "pos/MinSignedPerWindow"); okf {
			W := w.Int64()
			// MinSignedPerWindow = round-half-even(frac * W)
			num := new(big.Int).Mul(frac, w)
			unit := new(big.Int).Exp(big.NewInt(10), big.NewInt(18), nil)
			q, rem := new(big.Int).QuoRem(num, unit, new(big.Int))
			twice := new(big.Int).Lsh(rem, 1)
			if c := twice.Cmp(unit); c > 0 || (c == 0 && q.Bit(0) == 1) {
				q.Add(q, big.NewInt(1))
			}
			maxMissed := W - q.Int64()
			for a, votes := range missed {
				si, ok := before.Sign[a]
				if !ok || len(votes) != 1 || len(evs[a]) > 0 {
					continue
				}
				missedNow := false
				for _, sv := range strings.Split(m["v"], ",") {
					if x := strings.Split(sv, ":"); x[0] == a {
						missedNow = x[2] != "1"
					}
				}
				idx := si.Offset % W
				prev := before.Missed[a][idx]
				cnt := si.Missed
				if !prev && missedNow {
					cnt++
				} else if prev && !missedNow {
					cnt--
				}
				vb, exists := before.Vals[a]
				expect := f.height > si.Start+W && cnt > maxMissed && exists && !vb.Jailed
				va, existsAfter := after.Vals[a]
				observed := exists && !vb.Jailed && existsAfter && va.Jailed
				f.extra["c08:punish-decisions-checked"]++
				if expect {
					f.extra["c08:punishments-expected"]++
				}
				// every vote is recorded: unless the punishment reset the window, the offset advances by one, the slot of
				// this vote holds its flag, the counter follows, and no other slot changes
				if sa, okA := after.Sign[a]; okA && !observed {
					f.extra["c08:window-steps-checked"]++
					if exists && vb.Jailed {
						f.extra["c08:window-steps-of-jailed"]++
					}
					bad := ""
					if sa.Offset != si.Offset+1 {
						bad = fmt.Sprintf("offset %d -> %d, expected %d", si.Offset, sa.Offset, si.Offset+1)
					} else if sa.Missed != cnt {
						bad = fmt.Sprintf("counter %d -> %d, expected %d", si.Missed, sa.Missed, cnt)
					} else if after.Missed[a][idx] != missedNow {
						bad = fmt.Sprintf("slot %d holds %v after a vote with missed=%v", idx, after.Missed[a][idx], missedNow)
					} else {
						for i := int64(0); i < W; i++ {
							if i != idx && after.Missed[a][i] != before.Missed[a][i] {
								bad = fmt.Sprintf("slot %d changed (%v -> %v) by a vote for slot %d", i, before.Missed[a][i], after.Missed[a][i], idx)
								break
							}
						}
					}
					if bad != "" {
						fail("window-step", "C08:vote-not-recorded", fmt.Sprintf("BeginBlock %d: vote of %s (missed=%v, jailed=%v): %s", f.height, a, missedNow, exists && vb.Jailed, bad))
					}
				}
				if expect != observed {
					fail("punish-iff", "C08:punish-iff", fmt.Sprintf("BeginBlock %d: %s (status %d) window count %d, allowance %d, start %d, window %d: punishment expected=%v, happened=%v",
						f.height, a, vb.Status, cnt, maxMissed, si.Start, W, expect, observed))
				} else if observed {
					sa := after.Sign[a]
					bits := 0
					for _, b := range after.Missed[a] {
						if b {
							bits++
						}
					}
					if sa.Missed != 0 || sa.Offset != 0 || bits != 0 {
						fail("punish-resets", "C08:punish-does-not-reset", fmt.Sprintf("BeginBlock %d: after the downtime punishment of %s the counter is %d, the offset %d, %d missed bits remain", f.height, a, sa.Missed, sa.Offset, bits))
					}
				}
			}
		}
	}
	for a, v := range before.Vals {
		if v.Status == 0 {
			continue
		}
		stake := v.Tokens.BigInt()
		got := big.NewInt(0)
		if va, ok := after.Vals[a]; ok {
			got = va.Tokens.BigInt()
		}
		var inWindow []ev
		for _, e := range evs[a] {
			if f.now-e.t <= maxAge.Int64() {
				inWindow = append(inWindow, e)
			}
		}
		burn, hasBurn := before.Burns[a]
		switch {
		case len(inWindow) > 0:
			// confirmed double signing inside the window: everything is burned, the validator is tombstoned and
			// jailed for ever (the block did not halt, so the evidence was acted upon)
			f.jailedAt[a] = -1 // for ever
			f.extra["c07:conviction-checked"]++
			if v.Jailed {
				f.extra["c07:conviction-of-already-jailed"]++
			}
			if v.Status == 1 {
				f.extra["c07:conviction-of-unstaking"]++
			}
			if got.Sign() != 0 {
				fail("conviction-burns-all", "C07:conviction-left-stake", fmt.Sprintf("BeginBlock %d: %s convicted of double signing keeps %s of %s", f.height, a, got, stake))
			}
			si, ok := after.Sign[a]
			if !ok || !si.Tomb || si.JailedUntil != forever {
				fail("conviction-tombstones", "C09:convicted-not-tombstoned", fmt.Sprintf("BeginBlock %d: %s convicted of double signing: tombstoned=%v jailedUntil=%d", f.height, a, si.Tomb, si.JailedUntil))
			}
			if va, ok := after.Vals[a]; ok && !va.Jailed {
				fail("conviction-jails", "C09:convicted-not-jailed", fmt.Sprintf("BeginBlock %d: %s convicted of double signing is not jailed", f.height, a))
			}
		case hasBurn && len(missed[a]) == 0:
			sev, _ := new(big.Int).SetString(burn, 10)
			p := int64(0)
			if v.Status == 2 {
				p = new(big.Int).Quo(stake, big.NewInt(1000000)).Int64()
			}
			f.extra["c07:queued-burn-checked"]++
			if exp := stakeAfterSlash(stake, p, sev, min); got.Cmp(exp) != 0 {
				fail("burn-exact", "C07:burn-ne-fraction", fmt.Sprintf("BeginBlock %d: %s (stake %s, power %d) burned with severity %s/10^18 keeps %s, expected %s", f.height, a, stake, p, sev, got, exp))
			}
		case !hasBurn && len(missed[a]) == 1 && !v.Jailed:
			exp := stakeAfterSlash(stake, missed[a][0], fDown, min)
			// the downtime punishment is slash-and-jail in one step: the validator was jailed in this block exactly
			// when it was slashed
			punished := false
			if va, ok := after.Vals[a]; ok && va.Jailed {
				punished = true
			}
			if punished {
				if jd, ok := paramBig(before, "pos/DowntimeJailDuration"); ok {
					f.jailedAt[a] = f.now + jd.Int64() // the harness's own record of when this jail term ends
				}
				f.extra["c07:downtime-slash-checked"]++
				if missed[a][0]*1000000 > stake.Int64() {
					f.extra["c07:downtime-slash-reported-power-above-current"]++
				}
				if v.Status == 1 {
					f.extra["c07:downtime-slash-of-unstaking"]++
				}
				if got.Cmp(exp) != 0 {
					fail("slash-exact", "C07:slash-ne-fraction", fmt.Sprintf("BeginBlock %d: %s (stake %s, status %d) slashed and jailed for downtime at reported power %d, fraction %s/10^18, keeps %s, expected %s", f.height, a, stake, v.Status, missed[a][0], fDown, got, exp))
				}
			} else if got.Cmp(stake) != 0 {
				fail("no-cause-no-slash", "C07:stake-changed-without-cause", fmt.Sprintf("BeginBlock %d: the stake of %s went from %s to %s although it was not punished for downtime", f.height, a, stake, got))
			}
		case !hasBurn && len(missed[a]) == 0:
			if got.Cmp(stake) != 0 {
				fail("no-cause-no-slash", "C07:stake-changed-without-cause", fmt.Sprintf("BeginBlock %d: the stake of %s went from %s to %s with no vote, evidence or queued burn", f.height, a, stake, got))
			}
		}
	}
	// evidence outside the window burns nothing and convicts nobody
	for a, l := range evs {
		old := true
		for _, e := range l {
			if f.now-e.t <= maxAge.Int64() {
				old = false
			}
		}
		if sb, sa := before.Sign[a], after.Sign[a]; old && !sb.Tomb && sa.Tomb {
			fail("expired-evidence-ignored", "C07:expired-evidence-convicted", fmt.Sprintf("BeginBlock %d: %s tombstoned on evidence older than the window", f.height, a))
		}
	}
}

// typeName: `msg.Type()` of the message kinds of the line protocol
var typeName = map[string]string{"stake": "stake_validator", "unstake": "begin_unstaking_validator", "unjail": "unjail", "send": "send",
	"changeparam": govTypes.MsgChangeParamName, "daotransfer": govTypes.MsgDAOTransferName, "daoburn": govTypes.MsgDAOTransferName, "upgrade": govTypes.MsgUpgradeName}

// requiredFee: the base fee of the message type times the multiplier the state s lists for it (or the default one)
func (f *Fam) requiredFee(s *Snapshot, kind string) sdk.Int {
	base := sdk.ZeroInt()
	switch kind {
	case "stake", "unstake", "unjail", "send":
		base = sdk.NewInt(f.feeBase)
	case "changeparam":
		base = sdk.NewInt(govTypes.GovFeeMap[govTypes.MsgChangeParamName])
	case "daotransfer", "daoburn":
		base = sdk.NewInt(govTypes.GovFeeMap[govTypes.MsgDAOTransferName])
	case "upgrade":
		base = sdk.NewInt(govTypes.GovFeeMap[govTypes.MsgUpgradeName])
	}
	mult := int64(1)
	if s != nil {
		var fm authTypes.FeeMultipliers
		if err := authTypes.ModuleCdc.UnmarshalJSON([]byte(s.Params["auth/FeeMultipliers"]), &fm); err == nil {
			mult = fm.Default
			for _, e := range fm.FeeMultis {
				if e.Key == typeName[kind] {
					mult = e.Multiplier
					break
				}
			}
		}
	}
	return base.Mul(sdk.NewInt(mult))
}

// feeOnly reports whether after == before with exactly fee (and fee2 of the second denomination) moved from payer
// to the collector.
func feeOnly(before, after *Snapshot, payer string, fee, fee2 sdk.Int) bool {
	b := *before
	b.Bal = map[string]map[string]sdk.Int{}
	for a, m := range before.Bal {
		c := map[string]sdk.Int{}
		for d, x := range m {
			c[d] = x
		}
		b.Bal[a] = c
	}
	move := func(denom string, amt sdk.Int) bool {
		if !amt.IsPositive() {
			return true
		}
		if b.Bal[payer] == nil {
			return false
		}
		nb := balOf(&b, payer, denom).Sub(amt)
		if nb.IsZero() {
			delete(b.Bal[payer], denom)
			if len(b.Bal[payer]) == 0 {
				delete(b.Bal, payer)
			}
		} else {
			b.Bal[payer][denom] = nb
		}
		if b.Bal[feeAddr] == nil {
			b.Bal[feeAddr] = map[string]sdk.Int{}
		}
		b.Bal[feeAddr][denom] = balOf(before, feeAddr, denom).Add(amt)
		return true
	}
	if !move(Denom, fee) || !move(Denom2, fee2) {
		return false
	}
	return b.String() == after.String() && paramsEqual(before, after)
}

func paramsEqual(a, b *Snapshot) bool {
	if len(a.Params) != len(b.Params) {
		return false
	}
	for k, v := range a.Params {
		if b.Params[k] != v {
			return false
		}
	}
	return true
}

func (f *Fam) checkTx(before, after *Snapshot, r string, bz []byte, msg sdk.Msg, t txSpec, fail func(string, string, string)) {
	same := before.String() == after.String() && paramsEqual(before, after)
	signer := ""
	if msg != nil && t.mut != "trunc" && t.mut != "flip" && t.mut != "garbage" {
		signer = hx(msg.GetSigner())
	}
	feePaid := !same && signer != "" && balOf(after, feeAddr, Denom).Sub(balOf(before, feeAddr, Denom)).Equal(t.feeEff())
	if t.mode != "deliver" {
		if !same {
			fail("readonly", "C11:"+t.mode+"-changed-state", fmt.Sprintf("%s of a %s transaction changed the state", t.mode, t.kind))
		}
		// CheckTx and Simulate run the ante handler too (a simulation skips only the signature): what they accept has
		// offered the required fee, and what CheckTx accepts is signed by the declared signer's key over the bytes sent
		if r == "ok" && signer != "" {
			if t.feeEff().LT(f.requiredFee(before, t.kind)) {
				fail("fee-required", "C03:fee-below-required-accepted", fmt.Sprintf("%s of a %s tx with fee %s < required %s passed the ante handler", t.mode, t.kind, t.feeEff(), f.requiredFee(before, t.kind)))
			}
			if t.mode == "simulate" { // a simulation runs the handler: what it reports as a success is authorised
				var acl govTypes.ACL
				govTypes.ModuleCdc.UnmarshalJSON([]byte(before.Params["gov/acl"]), &acl)
				var dao sdk.Address
				govTypes.ModuleCdc.UnmarshalJSON([]byte(before.Params["gov/daoOwner"]), &dao)
				owner := func(k string) string {
					if o := acl.GetOwner(k); o != nil {
						return hx(o)
					}
					return "nobody"
				}
				switch t.kind {
				case "changeparam":
					if owner(t.f["key"]) != signer {
						fail("param-authorised", "C17:unauthorised-change-simulated-ok", fmt.Sprintf("the simulation of a change of %s by %s succeeds; the list names %s as its owner", t.f["key"], signer, owner(t.f["key"])))
					}
				case "upgrade":
					if owner("gov/upgrade") != signer {
						fail("param-authorised", "C17:unauthorised-change-simulated-ok", fmt.Sprintf("the simulation of an upgrade by %s succeeds; the list names %s as owner of the plan", signer, owner("gov/upgrade")))
					}
				case "daotransfer", "daoburn":
					if hx(dao) != signer {
						fail("dao-authorised", "C17:unauthorised-dao-action-simulated-ok", fmt.Sprintf("the simulation of a DAO action by %s succeeds; the DAO owner is %q", signer, hx(dao)))
					}
				}
			}
			if t.mode == "check" {
				if hx(Keys[t.signer].Addr) != signer {
					fail("signer-key", "C03:wrong-key-accepted", fmt.Sprintf("CheckTx: %s tx declared signer %s but was signed by key %s and passed the ante handler", t.kind, signer, hx(Keys[t.signer].Addr)))
				}
				if t.mut != "none" && t.mut != "" {
					fail("signed-fields", "C03:mutated-tx-accepted", fmt.Sprintf("CheckTx: %s tx mutated after signing (%s) passed the ante handler", t.kind, t.mut))
				}
			}
		}
		return
	}
	hash := fmt.Sprintf("%x", tmtypes.Tx(bz).Hash())
	if r == "err" {
		if !same && !(signer != "" && feeOnly(before, after, signer, t.feeEff(), t.fee2Eff())) {
			fail("rejected-leaves-no-trace", "C11:rejected-tx-changed-state", fmt.Sprintf("rejected %s tx (mut=%s) changed more than the fee", t.kind, t.mut))
		}
	}
	// C09: jail terms and tombstones are set by BeginBlock only; no transaction shortens or lifts one
	for a, sb := range before.Sign {
		if sa, ok := after.Sign[a]; !ok || sa.Tomb != sb.Tomb || sa.JailedUntil != sb.JailedUntil {
			fail("jail-term-kept", "C09:jail-term-changed-by-tx", fmt.Sprintf("%s tx changed the signing info of %s: jailed-until %d -> %d, tombstoned %v -> %v (present after: %v)",
				t.kind, a, sb.JailedUntil, sa.JailedUntil, sb.Tomb, sa.Tomb, ok))
			break
		}
	}
	accepted := r == "ok" || feePaid // passed the ante handler
	if accepted {
		if hx(Keys[t.signer].Addr) != signer {
			fail("signer-key", "C03:wrong-key-accepted", fmt.Sprintf("%s tx declared signer %s but was signed by key %s and passed the ante handler", t.kind, signer, hx(Keys[t.signer].Addr)))
		}
		if t.mut != "none" && t.mut != "" {
			fail("signed-fields", "C03:mutated-tx-accepted", fmt.Sprintf("%s tx mutated after signing (%s) passed the ante handler", t.kind, t.mut))
		}
		if t.feeEff().LT(f.requiredFee(before, t.kind)) {
			fail("fee-required", "C03:fee-below-required-accepted", fmt.Sprintf("%s tx with fee %s < required %s passed the ante handler", t.kind, t.feeEff(), f.requiredFee(before, t.kind)))
		}
		if f.delivered[hash] {
			fail("replay", "C03:replay-accepted", "a transaction already in the tx index passed the ante handler")
		}
		if signer != "" {
			d := balOf(before, signer, Denom)
			if d.LT(t.feeEff()) {
				fail("fee-from-signer", "C03:fee-not-from-signer", "fee exceeds the signer's balance but the tx passed")
			}
		}
		if t.kind == "unjail" && r == "ok" && t.mode == "deliver" {
			a := t.f["addr"]
			f.extra["c09:unjail-accepted"]++
			if until, ok := f.jailedAt[a]; ok && (until == -1 || f.now < until) {
				fail("unjail-not-early", "C09:unjail-before-jailed-until", fmt.Sprintf("unjail of %s accepted at %d although it was jailed until %d (-1 = for ever)", a, f.now, until))
			}
			if vb, ok := before.Vals[a]; !ok || !vb.Jailed {
				fail("unjail-only-jailed", "C09:unjail-of-unjailed-accepted", fmt.Sprintf("unjail of %s accepted although it was not a jailed validator", a))
			} else if min, ok := paramBig(before, "pos/StakeMinimum"); ok && vb.Tokens.BigInt().Cmp(min) < 0 {
				fail("unjail-min-stake", "C09:unjail-below-minimum-accepted", fmt.Sprintf("unjail of %s accepted with stake %s below the minimum %s", a, vb.Tokens, min))
			}
			delete(f.jailedAt, a)
		}
		if t.kind == "send" && t.f["to"] == poolAddr && r == "ok" {
			f.donated = f.donated.Add(mustInt(t.f["amt"]))
		}
	}
}

func (t txSpec) feeEff() sdk.Int {
	if t.mut == "fee" {
		return t.fee.AddRaw(1)
	}
	return t.fee
}

func (t txSpec) fee2Eff() sdk.Int {
	if f2, ok := t.f["fee2"]; ok && f2 != "" {
		return mustInt(f2)
	}
	return sdk.ZeroInt()
}

// checkParams: C17 — a parameter changes only through an accepted governance message from its owner.
func (f *Fam) checkParams(before, after *Snapshot, w []string, obs string, fail func(string, string, string)) {
	var changed []string
	for k, v := range after.Params {
		if before.Params[k] != v {
			changed = append(changed, k)
		}
	}
	for k := range before.Params {
		if _, ok := after.Params[k]; !ok {
			changed = append(changed, k)
		}
	}
	daoDelta := balOf(after, daoAddr, Denom).Sub(balOf(before, daoAddr, Denom))
	var t txSpec
	isTx := w[0] == "tx" && w[1] == "deliver"
	if isTx {
		t = parseTx(w)
	}
	if len(changed) > 0 && !f.dead {
		// what the keepers read on the running state is what its store holds - also right after governance wrote there
		ap := f.app.Auth.GetParams(f.app.Ctx())
		wantA := authTypes.Params{}
		okA := true
		for _, pr := range (&wantA).ParamSetPairs() {
			if err := authTypes.ModuleCdc.UnmarshalJSON([]byte(after.Params["auth/"+string(pr.Key)]), pr.Value); err != nil {
				okA = false
			}
		}
		if okA && ap.String() != wantA.String() {
			fail("keeper-view", "keeper-reads-stale-parameter", fmt.Sprintf("after %q the auth keeper reads %q on the running state, whose store holds %q", clip(strings.Join(w, " ")), ap.String(), wantA.String()))
		}
	}
	for _, k := range changed {
		if k == "pos/StakeMinimum" {
			f.minChanged = true
		}
		if k == "pos/SignedBlocksWindow" {
			f.windowChanged = true
		}
	}
	if len(changed) > 0 {
		sort.Strings(changed)
		ok := isTx && strings.HasPrefix(obs, "ok") && (t.kind == "changeparam" || t.kind == "upgrade")
		if ok {
			key := t.f["key"]
			if t.kind == "upgrade" {
				key = "gov/upgrade"
			}
			var acl govTypes.ACL
			govTypes.ModuleCdc.UnmarshalJSON([]byte(before.Params["gov/acl"]), &acl)
			owner := acl.GetOwner(key)
			if len(changed) != 1 || changed[0] != key || hx(owner) != t.f["from"] || owner == nil {
				ok = false
			}
		}
		if !ok {
			fail("param-authorised", "C17:param-changed-unauthorised", fmt.Sprintf("parameters %v changed by %q (acl raw %.200s)", changed, clip(strings.Join(w, " ")), before.Params["gov/acl"]))
		}
	}
	// a DAO transfer or burn beyond the DAO balance is refused (delivered or simulated)
	if isTx && (t.kind == "daotransfer" || t.kind == "daoburn") && t.mode != "check" && strings.HasPrefix(obs, "ok") &&
		(t.mut == "none" || t.mut == "") && mustInt(t.f["amt"]).GT(balOf(before, daoAddr, Denom)) {
		fail("dao-within-balance", "C17:dao-spend-beyond-balance", fmt.Sprintf("%s of %s accepted (%s) although the DAO holds %s", t.kind, t.f["amt"], t.mode, balOf(before, daoAddr, Denom)))
	}
	if !daoDelta.IsZero() {
		ok := isTx && strings.HasPrefix(obs, "ok") && (t.kind == "daotransfer" || t.kind == "daoburn")
		if ok {
			var owner sdk.Address
			govTypes.ModuleCdc.UnmarshalJSON([]byte(before.Params["gov/daoOwner"]), &owner)
			if hx(owner) != t.f["from"] || !daoDelta.Neg().Equal(mustInt(t.f["amt"])) {
				ok = false
			}
		}
		// coins sent to the DAO address by a plain send are not DAO spending
		if isTx && t.kind == "send" && t.f["to"] == daoAddr && daoDelta.IsPositive() {
			ok = true
		}
		if isTx && t.kind == "daotransfer" && t.f["to"] == daoAddr {
			ok = true
		}
		// an award another module queued for the DAO account is a credit minted in BeginBlock, not DAO spending (its amount
		// is judged by the C10 clause balance-delta)
		if !isTx && len(w) > 0 && w[0] == "begin" && daoDelta.IsPositive() {
			ok = true
		}
		if !ok {
			fail("dao-authorised", "C17:dao-funds-moved", fmt.Sprintf("DAO balance changed by %s through %q", daoDelta, clip(strings.Join(w, " "))))
		}
	}
}

var _ = rand.Int

// SnapForDebug: the decoded state of the primary instance (development aid)
func (f *Fam) SnapForDebug() *Snapshot { return f.app.Snap() }
