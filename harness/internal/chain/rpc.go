package chain

import (
	"encoding/base64"
	"encoding/json"
	"fmt"
	"io/ioutil"
	"net"
	"net/http"
	"strings"
	"sync"
)

// TxIndex is the harness's stand-in for Tendermint's tx index: a JSON-RPC endpoint answering the
// `tx` method the ante handler uses to detect replays ("found" iff the hash was indexed).
type TxIndex struct {
	mu   sync.Mutex
	set  map[string]bool
	Addr string
	ln   net.Listener
}

var sharedIndex *TxIndex

func StartTxIndex() *TxIndex {
	if sharedIndex != nil {
		return sharedIndex
	}
	ln, err := net.Listen("tcp", "127.0.0.1:0")
	if err != nil {
		return nil
	}
	ix := &TxIndex{set: map[string]bool{}, ln: ln, Addr: "tcp://" + ln.Addr().String()}
	mux := http.NewServeMux()
	mux.HandleFunc("/", func(w http.ResponseWriter, r *http.Request) {
		body, _ := ioutil.ReadAll(r.Body)
		var req struct {
			ID     json.RawMessage `json:"id"`
			Method string          `json:"method"`
			Params struct {
				Hash string `json:"hash"`
			} `json:"params"`
		}
		json.Unmarshal(body, &req)
		hash, _ := base64.StdEncoding.DecodeString(req.Params.Hash)
		hx := fmt.Sprintf("%X", hash)
		ix.mu.Lock()
		found := ix.set[strings.ToLower(hx)]
		ix.mu.Unlock()
		w.Header().Set("Content-Type", "application/json")
		if req.Method == "tx" && found {
			fmt.Fprintf(w, `{"jsonrpc":"2.0","id":%s,"result":{"hash":"%s","height":"1","index":0,"tx_result":{},"tx":"AA=="}}`, req.ID, hx)
			return
		}
		fmt.Fprintf(w, `{"jsonrpc":"2.0","id":%s,"error":{"code":-32603,"message":"Internal error","data":"tx not found"}}`, req.ID)
	})
	// The ante handler builds a fresh RPC client (with its own transport) for every transaction and never closes
	// it; with keep-alive every lookup would leave an idle connection behind on both sides, and a long run would
	// exhaust the descriptors and hang. The stand-in therefore closes each connection after answering.
	srv := &http.Server{Handler: mux}
	srv.SetKeepAlivesEnabled(false)
	go srv.Serve(ln)
	sharedIndex = ix
	return ix
}

func (ix *TxIndex) Reset() {
	ix.mu.Lock()
	ix.set = map[string]bool{}
	ix.mu.Unlock()
}

func (ix *TxIndex) Add(hashHex string) {
	ix.mu.Lock()
	ix.set[strings.ToLower(hashHex)] = true
	ix.mu.Unlock()
}
