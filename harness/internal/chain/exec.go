package chain

import (
	"os"
	"runtime/debug"
	"bytes"
	"crypto/sha256"
	"encoding/hex"
	"encoding/json"
	"fmt"
	"sort"
	"strconv"
	"strings"
	"time"

	abci "github.com/tendermint/tendermint/abci/types"
	"github.com/tendermint/tendermint/crypto/ed25519"
	"github.com/tendermint/tendermint/crypto/secp256k1"
	tmtypes "github.com/tendermint/tendermint/types"
	dbm "github.com/tendermint/tm-db"

	"github.com/pokt-network/posmint/codec"
	"github.com/pokt-network/posmint/crypto"
	sdk "github.com/pokt-network/posmint/types"
	"github.com/pokt-network/posmint/x/auth"
	authTypes "github.com/pokt-network/posmint/x/auth/types"
	govTypes "github.com/pokt-network/posmint/x/gov/types"
	posTypes "github.com/pokt-network/posmint/x/pos/types"

	"verif/harness/internal/common"
)

const NKeys = 10 // plain ed25519 keys 0..9; Keys[10], Keys[11] are multisignature keys built from them
const NAll = 13
const Denom = "upokt"
const Denom2 = "voucher" // a second denomination some genesis accounts hold; it can only move as (part of) a fee

type Key struct {
	Priv crypto.PrivateKey
	Pub  crypto.PublicKey
	Addr sdk.Address
	Sub  []Key // components of a multisignature key
}

// Sign signs with a plain key, or, for a multisignature key, with every component in its position.
func (k Key) Sign(msg []byte) []byte {
	if k.Sub == nil {
		sig, _ := k.Priv.Sign(msg)
		return sig
	}
	ms := crypto.MultiSignature{}
	for _, c := range k.Sub {
		ms.Sigs = append(ms.Sigs, c.Sign(msg))
	}
	return ms.Marshal()
}

// Shape: p for a plain key, m(<shape>,...) for a multisignature key
func (k Key) Shape() string {
	if k.Sub == nil {
		return "p"
	}
	var p []string
	for _, c := range k.Sub {
		p = append(p, c.Shape())
	}
	return "m(" + strings.Join(p, ",") + ")"
}

func multiKey(sub ...Key) Key {
	var pubs []crypto.PublicKey
	for _, c := range sub {
		pubs = append(pubs, c.Pub)
	}
	pub := crypto.PublicKeyMultiSignature{PublicKeys: pubs}
	return Key{Pub: pub, Addr: sdk.Address(pub.Address()), Sub: sub}
}

var Keys []Key
var keyByAddr = map[string]int{}

func init() {
	for i := 0; i < NKeys; i++ {
		pk := ed25519.GenPrivKeyFromSecret([]byte(fmt.Sprintf("verif-key-%d", i)))
		priv := crypto.Ed25519PrivateKey{}.PrivKeyToPrivateKey(pk)
		pub := priv.PublicKey()
		k := Key{Priv: priv, Pub: pub, Addr: sdk.Address(pub.Address())}
		Keys = append(Keys, k)
		keyByAddr[hx(k.Addr)] = i
	}
	Keys = append(Keys, multiKey(Keys[0], Keys[1]))
	Keys = append(Keys, multiKey(Keys[2], multiKey(Keys[3], Keys[4]))) // nested: 5 signatures counted, under the default limit
	// a multisignature key over two secp256k1 keys (which are no accounts of their own)
	var secp []Key
	for i := 0; i < 2; i++ {
		priv := crypto.Secp256k1PrivateKey{}.PrivKeyToPrivateKey(secp256k1.GenPrivKeySecp256k1([]byte(fmt.Sprintf("verif-secp-%d", i))))
		secp = append(secp, Key{Priv: priv, Pub: priv.PublicKey(), Addr: sdk.Address(priv.PublicKey().Address())})
	}
	Keys = append(Keys, multiKey(secp[0], secp[1]))
	for i := NKeys; i < NAll; i++ {
		keyByAddr[hx(Keys[i].Addr)] = i
	}
	posTypes.PosFeeMap = map[string]int64{}
}

var ModNames = []string{posTypes.StakedPoolName, auth.FeeCollectorName, posTypes.ModuleName, govTypes.DAOAccountName}

func ModAddr(name string) sdk.Address { return authTypes.NewModuleAddress(name) }

var posParamKeys = []string{"UnstakingTime", "MaxValidators", "StakeDenom", "StakeMinimum", "ProposerRewardPercentage",
	"MaxEvidenceAge", "SignedBlocksWindow", "MinSignedPerWindow", "DowntimeJailDuration", "SlashFractionDoubleSign", "SlashFractionDowntime"}

func AllParamNames() []string {
	// the keys each module registers (`ParamSetPairs`), under its subspace name
	var l []string
	for _, pr := range (&authTypes.Params{}).ParamSetPairs() {
		l = append(l, "auth/"+string(pr.Key))
	}
	for _, pr := range (&govTypes.Params{}).ParamSetPairs() {
		l = append(l, "gov/"+string(pr.Key))
	}
	for _, pr := range (&posTypes.Params{}).ParamSetPairs() {
		l = append(l, "pos/"+string(pr.Key))
	}
	sort.Strings(l)
	return l
}

// Fam is the chain family.
type Fam struct {
	Profile string
	app     *App
	db      dbm.DB
	dead    bool // a BeginBlock/EndBlock/Commit panic halted this chain
	height  int64
	now     int64 // unix ns of the current block
	inBlock bool
	committedParams string // the pos parameters as of the last commit
	committed map[int64][2][]byte // height -> two records of the pos store as committed at that height (C14 monitor)
	// Tendermint stand-in
	tm       map[string]int64   // current validator set (addr hex -> power), as Tendermint would hold it for the next heights
	tmHist   []map[string]int64 // tmHist[h] = validator set that signs height h
	pending  [][]abci.ValidatorUpdate
	proposer string
	feeBase  int64
	delivered map[string]bool // tx hashes delivered OK (tx index stand-in)
	donated  sdk.Int          // coins sent straight to the pool address
	minStake int64
	index    *TxIndex
	blockTxs []string // hashes of the txs delivered in the current block (indexed at Commit)
	minChanged, windowChanged bool
	win                       map[string]*winHist // C08: votes per address since its window was last empty
	mea      int64
	// monitor bookkeeping
	feesThisBlock map[string]sdk.Int
	awardsQueued  map[string]sdk.Int
	lastProposer  string
	jailedAt      map[string]int64
	gen           genState
	extra         map[string]int
	// C01: the second instance and the consensus-relevant text of the last response of each
	rep      *replica
	lastResp string
	repResp  string
	lastHalt string   // panic message of the last halt
	blockRaw [][]byte // raw transactions seen in this block (material for the replica's own CheckTx traffic)
}

func New(profile string) *Fam {
	return &Fam{Profile: profile, extra: map[string]int{}, dead: true}
}

func (f *Fam) Extra() map[string]int { return f.extra }

func kv(tokens []string) map[string]string {
	m := map[string]string{}
	for _, t := range tokens {
		if i := strings.IndexByte(t, '='); i > 0 {
			m[t[:i]] = t[i+1:]
		}
	}
	return m
}

func atoi(s string) int64 {
	n, err := strconv.ParseInt(s, 10, 64)
	if err != nil {
		panic("bad int " + s)
	}
	return n
}

func mustInt(s string) sdk.Int {
	i, ok := sdk.NewIntFromString(s)
	if !ok {
		panic("bad Int " + s)
	}
	return i
}

func decRaw(s string) sdk.Dec {
	return sdk.NewDecFromBigIntWithPrec(mustInt(s).BigInt(), 18)
}

func unhex(s string) []byte {
	b, err := hex.DecodeString(s)
	if err != nil {
		panic(err)
	}
	return b
}

// guard runs an ABCI entry point; a panic there is a chain halt.
func (f *Fam) guard(fn func() string) (res string) {
	defer func() {
		if e := recover(); e != nil {
			f.dead = true
			msg := fmt.Sprint(e)
			if len(msg) > 120 {
				msg = msg[:120]
			}
			f.extra["halt:"+strings.ReplaceAll(msg, "\n", " ")]++
			f.lastHalt = msg
			if os.Getenv("VERIF_STACK") != "" {
				fmt.Fprintf(os.Stderr, "halt: %v\n%s\n", e, debug.Stack())
			}
			res = "halt"
		}
	}()
	return fn()
}

func (f *Fam) state() string {
	if f.dead {
		return "dead"
	}
	return f.app.Snap().String()
}

// ---------------------------------------------------------------- init

// init ms= mv= ut= w= mspw= jd= mea= sfds= sfdt= fee= daoo= daot= aclo= | acc <addr> <bal> | val <addr> <tokens> <jailed>
func (f *Fam) doInit(w []string) string {
	m := kv(w)
	f.db = dbm.NewMemDB()
	rpc := "tcp://127.0.0.1:1"
	if ix := StartTxIndex(); ix != nil {
		ix.Reset()
		rpc = ix.Addr
		f.index = ix
	}
	f.blockTxs = nil
	f.app = NewApp(f.db, rpc, sdk.PruningOptions{})
	f.rep = nil
	if f.replicaOn() {
		pr := replicaPrunings[opRand(strings.Join(w, " "), 0).Intn(len(replicaPrunings))]
		rdb := dbm.NewMemDB()
		f.rep = &replica{app: NewApp(rdb, rpc, pr), db: rdb, rpc: rpc, pruning: pr}
	}
	f.dead, f.height, f.inBlock = false, 0, false
	f.committed, f.committedParams = nil, ""
	f.minChanged, f.windowChanged = false, false
	f.win = nil
	f.tm, f.tmHist, f.pending = map[string]int64{}, nil, nil
	f.delivered = map[string]bool{}
	f.donated = sdk.ZeroInt()
	f.feesThisBlock, f.awardsQueued, f.jailedAt = map[string]sdk.Int{}, map[string]sdk.Int{}, map[string]int64{}
	f.feeBase = atoi(m["fee"])
	for _, t := range []string{"stake_validator", "begin_unstaking_validator", "unjail", "send"} {
		posTypes.PosFeeMap[t] = f.feeBase
	}
	f.minStake = atoi(m["ms"])
	f.mea = atoi(m["mea"])
	params := posTypes.Params{
		UnstakingTime: time.Duration(atoi(m["ut"])), MaxValidators: uint64(atoi(m["mv"])), StakeDenom: Denom,
		StakeMinimum: atoi(m["ms"]), ProposerRewardPercentage: 90, MaxEvidenceAge: time.Duration(atoi(m["mea"])),
		SignedBlocksWindow: atoi(m["w"]), MinSignedPerWindow: decRaw(m["mspw"]), DowntimeJailDuration: time.Duration(atoi(m["jd"])),
		SlashFractionDoubleSign: decRaw(m["sfds"]), SlashFractionDowntime: decRaw(m["sfdt"]),
	}
	var accs authTypes.Accounts
	var vals posTypes.Validators
	signing := map[string]posTypes.ValidatorSigningInfo{}
	missedBlocks := map[string][]posTypes.MissedBlock{}
	supply := sdk.ZeroInt()
	supply2 := sdk.ZeroInt()
	for i := 0; i < len(w); i++ {
		switch w[i] {
		case "si": // si <addr> <start> <offset> <missed> <jailedUntil ns | -1> <tombstoned>: exported signing info
			ju := time.Unix(0, atoi(w[i+5])).UTC()
			if w[i+5] == "-1" {
				ju = posTypes.DoubleSignJailEndTime
			}
			signing[w[i+1]] = posTypes.ValidatorSigningInfo{Address: unhex(w[i+1]), StartHeight: atoi(w[i+2]), IndexOffset: atoi(w[i+3]),
				MissedBlocksCounter: atoi(w[i+4]), JailedUntil: ju, Tombstoned: w[i+6] == "1"}
			i += 6
		case "mb": // mb <addr> <index> <0|1>: exported missed-block entry
			missedBlocks[w[i+1]] = append(missedBlocks[w[i+1]], posTypes.MissedBlock{Index: atoi(w[i+2]), Missed: w[i+3] == "1"})
			i += 3
		case "acc":
			addr := unhex(w[i+1])
			bal := mustInt(w[i+2])
			ki, ok := keyByAddr[w[i+1]]
			if !ok {
				panic("genesis account without key")
			}
			coins := sdk.NewCoins(sdk.NewCoin(Denom, bal))
			pub := Keys[ki].Pub
			if Keys[ki].Sub != nil {
				// genesis validation wants a plain key on every account; a multisignature account therefore exists
				// with a key that is not its own (like one created by a transfer, it has no usable stored key)
				pub = Keys[0].Pub
			}
			ba := authTypes.NewBaseAccount(addr, coins, pub)
			accs = append(accs, ba)
			supply = supply.Add(bal)
			i += 2
		case "acc2": // coins of a second denomination on a genesis account (they can only be spent as fees)
			for j := range accs {
				if hx(accs[j].GetAddress()) == w[i+1] {
					c := accs[j].GetCoins().Add(sdk.NewCoins(sdk.NewCoin(Denom2, mustInt(w[i+2]))))
					accs[j].SetCoins(c)
				}
			}
			supply2 = supply2.Add(mustInt(w[i+2]))
			i += 2
		case "val":
			ki := keyByAddr[w[i+1]]
			tok := mustInt(w[i+2])
			v := posTypes.NewValidator(Keys[ki].Addr, Keys[ki].Pub, tok)
			v.Jailed = w[i+3] == "1"
			vals = append(vals, v)
			supply = supply.Add(tok)
			i += 3
		}
	}
	acl := govTypes.ACL{}
	owner := sdk.Address(unhex(m["aclo"]))
	for _, n := range AllParamNames() {
		acl.SetOwner(n, owner)
	}
	genSupply := sdk.NewCoins(sdk.NewCoin(Denom, supply))
	if supply2.IsPositive() {
		genSupply = genSupply.Add(sdk.NewCoins(sdk.NewCoin(Denom2, supply2)))
	}
	if m["gs"] == "derived" {
		// the genesis leaves the supply to be derived: the pos module is initialised first (its stake is in the pool by
		// then) and the auth module sums up every account it finds
		genSupply = sdk.Coins{}
		f.app.MM.SetOrderInitGenesis(posTypes.ModuleName, authTypes.ModuleName, govTypes.ModuleName)
		if f.rep != nil {
			f.rep.app.MM.SetOrderInitGenesis(posTypes.ModuleName, authTypes.ModuleName, govTypes.ModuleName)
		}
	}
	authGen := authTypes.GenesisState{Params: authTypes.DefaultParams(), Accounts: accs, Supply: genSupply}
	posGen := posTypes.DefaultGenesisState()
	posGen.Validators = vals
	posGen.SigningInfos, posGen.MissedBlocks = signing, missedBlocks
	govGen := govTypes.GenesisState{Params: govTypes.Params{ACL: acl, DAOOwner: unhex(m["daoo"]), Upgrade: govTypes.NewUpgrade(0, "")},
		DAOTokens: mustInt(m["daot"])}
	f.app.Genesis = map[string]json.RawMessage{
		authTypes.ModuleName: f.app.Cdc.MustMarshalJSON(authGen),
		posTypes.ModuleName:  posTypes.ModuleCdc.MustMarshalJSON(posGen),
		govTypes.ModuleName:  govTypes.ModuleCdc.MustMarshalJSON(govGen),
	}
	var ups []abci.ValidatorUpdate
	initChain := func(a *App) string {
		res := a.InitChain(abci.RequestInitChain{ChainId: ChainID, Time: time.Unix(0, 0).UTC(),
			ConsensusParams: &abci.ConsensusParams{Validator: &abci.ValidatorParams{PubKeyTypes: []string{tmtypes.ABCIPubKeyTypeEd25519}}}})
		a.Pos.SetParams(a.Ctx(), params)
		if a == f.app {
			ups = res.Validators
		}
		return "ok ups=" + upsStr(res.Validators)
	}
	r := f.guard(func() string { f.lastResp = initChain(f.app); return "ok" })
	if f.rep != nil {
		f.rep.app.Genesis = f.app.Genesis
		f.repResp = f.rep.run(initChain)
	}
	if f.dead {
		f.lastResp = "halt"
		return r
	}
	f.applyUpdates(ups)
	f.tmHist = []map[string]int64{{}, copyMap(f.tm), copyMap(f.tm)}
	return "ok ups=" + upsStr(ups) + " | " + f.state()
}

func copyMap(m map[string]int64) map[string]int64 {
	c := map[string]int64{}
	for k, v := range m {
		c[k] = v
	}
	return c
}

func upsStr(ups []abci.ValidatorUpdate) string {
	var p []string
	for _, u := range ups {
		var pk ed25519.PubKeyEd25519
		copy(pk[:], u.PubKey.Data)
		p = append(p, fmt.Sprintf("%s:%d", hx(pk.Address()), u.Power))
	}
	return "[" + strings.Join(p, ",") + "]"
}

// applyUpdates mirrors Tendermint's validator-set update rules; returns an error text if the
// batch is not applicable (duplicate key, removal of an absent validator, negative power).
func (f *Fam) applyUpdates(ups []abci.ValidatorUpdate) string {
	seen := map[string]bool{}
	for _, u := range ups {
		var pk ed25519.PubKeyEd25519
		copy(pk[:], u.PubKey.Data)
		a := hx(pk.Address())
		if seen[a] {
			return "duplicate key " + a
		}
		seen[a] = true
		if u.Power < 0 {
			return "negative power for " + a
		}
		if u.Power == 0 {
			if _, ok := f.tm[a]; !ok {
				return "removal of absent validator " + a
			}
		}
	}
	for _, u := range ups {
		var pk ed25519.PubKeyEd25519
		copy(pk[:], u.PubKey.Data)
		a := hx(pk.Address())
		if u.Power == 0 {
			delete(f.tm, a)
		} else {
			f.tm[a] = u.Power
		}
	}
	return ""
}

// ---------------------------------------------------------------- blocks

// begin t=<ns> p=<proposer addr> v=<addr:power:signed,...> e=<addr:height:time:power,...>
func (f *Fam) doBegin(w []string) string {
	m := kv(w)
	f.height++ // heights are implicit (consecutive), so that shrinking can drop whole blocks
	f.now = atoi(m["t"])
	f.lastProposer = f.proposer
	f.proposer = m["p"]
	req := abci.RequestBeginBlock{Header: abci.Header{ChainID: ChainID, Height: f.height, Time: time.Unix(0, f.now).UTC(), ProposerAddress: unhex(m["p"])}}
	if m["v"] != "" && m["v"] != "-" {
		for _, s := range strings.Split(m["v"], ",") {
			x := strings.Split(s, ":")
			req.LastCommitInfo.Votes = append(req.LastCommitInfo.Votes, abci.VoteInfo{
				Validator: abci.Validator{Address: unhex(x[0]), Power: atoi(x[1])}, SignedLastBlock: x[2] == "1"})
		}
	}
	if m["e"] != "" && m["e"] != "-" {
		for _, s := range strings.Split(m["e"], ",") {
			x := strings.Split(s, ":")
			req.ByzantineValidators = append(req.ByzantineValidators, abci.Evidence{Type: tmtypes.ABCIEvidenceTypeDuplicateVote,
				Validator: abci.Validator{Address: unhex(x[0]), Power: atoi(x[3])}, Height: atoi(x[1]), Time: time.Unix(0, atoi(x[2])).UTC()})
		}
	}
	f.blockRaw = nil
	begin := func(a *App) string { return "ok " + eventsStr(a.BeginBlock(req).Events) }
	r := f.guard(func() string { f.lastResp = begin(f.app); return "ok" })
	if f.rep != nil {
		f.rep.traffic(opRand(strings.Join(w, " "), 1), nil)
		f.repResp = f.rep.run(begin)
	}
	f.inBlock = !f.dead
	return r + " | " + f.state()
}

func (f *Fam) doEnd() string {
	var ups []abci.ValidatorUpdate
	end := func(a *App) string {
		res := a.EndBlock(abci.RequestEndBlock{Height: f.height})
		if a == f.app {
			ups = res.ValidatorUpdates
		}
		return "ok ups=" + upsStr(res.ValidatorUpdates) + " " + eventsStr(res.Events)
	}
	r := f.guard(func() string { f.lastResp = end(f.app); return "ok" })
	if f.rep != nil {
		f.rep.traffic(opRand(fmt.Sprintf("end %d", f.height), 2), f.blockRaw)
		f.repResp = f.rep.run(end)
	}
	if f.dead {
		return r + " | dead"
	}
	return "ok ups=" + upsStr(ups) + " | " + f.state()
}

func (f *Fam) doCommit() string {
	commit := func(a *App) string { return fmt.Sprintf("ok hash=%x", a.Commit().Data) }
	r := f.guard(func() string { f.lastResp = commit(f.app); return "ok" })
	if f.rep != nil {
		f.repResp = f.rep.run(commit)
		// the instance is stopped after some commits and reopened from its database (after the comparison)
		f.rep.wantRestart = !f.rep.dead && !f.dead && opRand(fmt.Sprintf("commit %d %s", f.height, f.lastResp), 3).Intn(4) == 0
	}
	if f.index != nil { // Tendermint indexes every transaction of the committed block
		for _, h := range f.blockTxs {
			f.index.Add(h)
			f.delivered[h] = true
		}
	}
	f.blockTxs = nil
	f.inBlock = false
	return r + " | " + f.state()
}

// ---------------------------------------------------------------- transactions

type txSpec struct {
	mode   string // deliver check simulate
	kind   string
	signer int // key index that signs
	pk     bool
	fee    sdk.Int
	memo   int
	ent    int64
	mut    string
	f      map[string]string
}

func (f *Fam) buildMsg(t txSpec) sdk.Msg {
	g := t.f
	switch t.kind {
	case "stake":
		return posTypes.MsgStake{PubKey: Keys[atoi(g["key"])].Pub, Value: mustInt(g["amt"])}
	case "unstake":
		return posTypes.MsgBeginUnstake{Address: unhex(g["addr"])}
	case "unjail":
		return posTypes.MsgUnjail{ValidatorAddr: unhex(g["addr"])}
	case "send":
		return posTypes.MsgSend{FromAddress: unhex(g["from"]), ToAddress: unhex(g["to"]), Amount: mustInt(g["amt"])}
	case "changeparam":
		return govTypes.MsgChangeParam{FromAddress: unhex(g["from"]), ParamKey: g["key"], ParamVal: unhex(g["val"])}
	case "daotransfer":
		return govTypes.MsgDAOTransfer{FromAddress: unhex(g["from"]), ToAddress: unhex(g["to"]), Amount: mustInt(g["amt"]), Action: govTypes.DAOTransferString}
	case "daoburn":
		m := govTypes.MsgDAOTransfer{FromAddress: unhex(g["from"]), Amount: mustInt(g["amt"]), Action: govTypes.DAOBurnString}
		if g["to"] != "" { // a burn may carry a recipient; the handler ignores it, the signature covers it
			m.ToAddress = unhex(g["to"])
		}
		return m
	case "upgrade":
		return govTypes.MsgUpgrade{Address: unhex(g["from"]), Upgrade: govTypes.NewUpgrade(atoi(g["h"]), g["ver"])}
	}
	panic("unknown tx kind " + t.kind)
}

func parseTx(w []string) txSpec {
	m := kv(w)
	return txSpec{mode: w[1], kind: m["k"], signer: int(atoi(m["signer"])), pk: m["pk"] == "1", fee: mustInt(m["fee"]),
		memo: int(atoi(m["memo"])), ent: atoi(m["ent"]), mut: m["mut"], f: m}
}

func (f *Fam) txBytes(t txSpec) ([]byte, sdk.Msg) {
	msg := f.buildMsg(t)
	fee := sdk.Coins{}
	if t.fee.IsPositive() {
		fee = sdk.NewCoins(sdk.NewCoin(Denom, t.fee))
	}
	if f2, ok := t.f["fee2"]; ok && f2 != "" && f2 != "0" {
		fee = fee.Add(sdk.NewCoins(sdk.NewCoin(Denom2, mustInt(f2))))
	}
	memo := strings.Repeat("m", t.memo)
	chain := ChainID
	if t.mut == "chain" { // signed for another chain
		chain += "x"
	}
	signBytes, err := authTypes.StdSignBytes(chain, t.ent, fee, msg, memo)
	if err != nil {
		panic(err)
	}
	sig := Keys[t.signer].Sign(signBytes)
	switch t.mut { // changes after signing
	case "sig":
		if Keys[t.signer].Sub != nil {
			sig[len(sig)-5] ^= 0x40 // inside the last component signature
		} else {
			sig[3] ^= 0x40
		}
	case "msswap": // a multisignature with its first two components exchanged
		if k := Keys[t.signer]; k.Sub != nil {
			ms := crypto.MultiSignature{}
			for _, c := range k.Sub {
				ms.Sigs = append(ms.Sigs, c.Sign(signBytes))
			}
			ms.Sigs[0], ms.Sigs[1] = ms.Sigs[1], ms.Sigs[0]
			sig = ms.Marshal()
		} else {
			sig[3] ^= 0x40
		}
	case "siglong": // the valid signature with a byte appended (for a multisignature: appended to its first component)
		if k := Keys[t.signer]; k.Sub != nil {
			ms := crypto.MultiSignature{}
			for i, c := range k.Sub {
				cs := c.Sign(signBytes)
				if i == 0 {
					cs = append(cs, 0x00)
				}
				ms.Sigs = append(ms.Sigs, cs)
			}
			sig = ms.Marshal()
		} else {
			sig = append(sig, byte(t.ent))
		}
	case "msdup": // a multisignature in which the first component's signature stands in every position
		if k := Keys[t.signer]; k.Sub != nil {
			ms := crypto.MultiSignature{}
			first := k.Sub[0].Sign(signBytes)
			for range k.Sub {
				ms.Sigs = append(ms.Sigs, first)
			}
			sig = ms.Marshal()
		} else {
			sig[3] ^= 0x40
		}
	case "msdrop": // a multisignature with its last component missing
		if k := Keys[t.signer]; k.Sub != nil {
			ms := crypto.MultiSignature{}
			for _, c := range k.Sub[:len(k.Sub)-1] {
				ms.Sigs = append(ms.Sigs, c.Sign(signBytes))
			}
			sig = ms.Marshal()
		} else {
			sig = sig[:len(sig)-1]
		}
	case "fee":
		extra := fee.AmountOf(Denom2)
		fee = sdk.NewCoins(sdk.NewCoin(Denom, t.fee.AddRaw(1)))
		if extra.IsPositive() {
			fee = fee.Add(sdk.NewCoins(sdk.NewCoin(Denom2, extra)))
		}
	case "memo":
		memo += "x"
	case "memosp": // only white space is added to the signed memo
		memo += " "
	case "memopre":
		memo = "\t" + memo
	case "msg": // a field of the signed message is changed (where the message has one besides its signer)
		t2 := t
		t2.f = map[string]string{}
		for k, v := range t.f {
			t2.f[k] = v
		}
		other := hx(Keys[(t.signer+1)%NKeys].Addr)
		switch mf := t.f["mf"]; {
		case mf == "to" && (t.kind == "send" || t.kind == "daotransfer" || t.kind == "daoburn"):
			if t2.f["to"] == other {
				other = hx(Keys[(t.signer+2)%NKeys].Addr)
			}
			t2.f["to"] = other
			msg = f.buildMsg(t2)
			return f.finishTx(t, msg, fee, sig, memo)
		case mf == "toempty" && t.kind == "daoburn": // the recipient of a burn removed
			t2.f["to"] = ""
			msg = f.buildMsg(t2)
			return f.finishTx(t, msg, fee, sig, memo)
		case mf == "action" && (t.kind == "daotransfer" || t.kind == "daoburn"): // a transfer turned into a burn, or back
			if t.kind == "daotransfer" {
				t2.kind = "daoburn"
			} else {
				t2.kind = "daotransfer"
				if t2.f["to"] == "" {
					t2.f["to"] = other
				}
			}
			msg = f.buildMsg(t2)
			return f.finishTx(t, msg, fee, sig, memo)
		case mf == "ver" && t.kind == "upgrade":
			t2.f["ver"] = t.f["ver"] + "1"
			msg = f.buildMsg(t2)
			return f.finishTx(t, msg, fee, sig, memo)
		case mf == "key" && t.kind == "changeparam": // the same value aimed at another parameter
			if t.f["key"] == "pos/StakeMinimum" {
				t2.f["key"] = "pos/MaxValidators"
			} else {
				t2.f["key"] = "pos/StakeMinimum"
			}
			msg = f.buildMsg(t2)
			return f.finishTx(t, msg, fee, sig, memo)
		}
		switch t.kind {
		case "send", "stake", "daotransfer", "daoburn":
			t2.f["amt"] = mustInt(t.f["amt"]).AddRaw(1).String()
			msg = f.buildMsg(t2)
		case "upgrade":
			t2.f["h"] = fmt.Sprint(atoi(t.f["h"]) + 1)
			msg = f.buildMsg(t2)
		case "changeparam":
			t2.f["val"] = t.f["val"] + "20"
			msg = f.buildMsg(t2)
		default:
			memo += " "
		}
	case "ent":
		t.ent++
	case "emptysig":
		sig = nil
	}
	return f.finishTx(t, msg, fee, sig, memo)
}

// finishTx wraps the (possibly altered) message, fee, memo and the signature into the wire bytes
func (f *Fam) finishTx(t txSpec, msg sdk.Msg, fee sdk.Coins, sig []byte, memo string) ([]byte, sdk.Msg) {
	ss := authTypes.StdSignature{Signature: sig}
	if t.pk {
		ss.PublicKey = Keys[t.signer].Pub
	}
	tx := authTypes.NewStdTx(msg, fee, ss, memo, t.ent)
	bz, err := f.app.Cdc.MarshalBinaryLengthPrefixed(tx)
	if err != nil {
		panic(err)
	}
	if t.mut == "nilint" { // the amount field is absent from the wire: decodes to an Int without a value
		var short sdk.Msg
		switch m := msg.(type) {
		case posTypes.MsgSend:
			short = shortSend{FromAddress: m.FromAddress, ToAddress: m.ToAddress}
		case posTypes.MsgStake:
			short = shortStake{PubKey: m.PubKey}
		}
		if short != nil {
			bz, err = shortCdc.MarshalBinaryLengthPrefixed(authTypes.NewStdTx(short, fee, ss, memo, t.ent))
			if err != nil {
				panic(err)
			}
		} else {
			h := sha256.Sum256(bz)
			bz = h[:]
		}
	}
	switch t.mut {
	case "trunc":
		bz = bz[:len(bz)/2]
	case "flip":
		bz[len(bz)/3] ^= 0x10
	case "garbage":
		h := sha256.Sum256(bz)
		bz = h[:]
	}
	return bz, msg
}

func (f *Fam) doTx(w []string) (string, []byte, sdk.Msg, txSpec) {
	t := parseTx(w)
	bz, msg := f.txBytes(t)
	var code uint32
	var log string
	res := f.guard(func() string {
		switch t.mode {
		case "deliver":
			f.blockTxs = append(f.blockTxs, fmt.Sprintf("%x", tmtypes.Tx(bz).Hash()))
			r := f.app.DeliverTx(abci.RequestDeliverTx{Tx: bz})
			code, log = r.Code, r.Log
			f.lastResp = deliverStr(r)
		case "check":
			r := f.app.CheckTx(abci.RequestCheckTx{Tx: bz})
			code, log = r.Code, r.Log
		case "simulate":
			r := f.app.Query(abci.RequestQuery{Path: "/app/simulate", Data: bz})
			code, log = r.Code, r.Log
			if r.Code == 0 { // the simulation result travels inside the query value
				var sr sdk.Result
				if err := codec.Cdc.UnmarshalBinaryLengthPrefixed(r.Value, &sr); err != nil {
					code = 999
				} else {
					code, log = uint32(sr.Code), sr.Log
				}
			}
		}
		if code == 0 {
			return "ok"
		}
		return "err"
	})
	if os.Getenv("VERIF_TXLOG") != "" && code != 0 {
		fmt.Fprintf(os.Stderr, "txlog code=%d %s :: %s\n", code, strings.Join(w, " "), strings.ReplaceAll(log, "\n", " "))
	}
	f.blockRaw = append(f.blockRaw, bz)
	if f.rep != nil && t.mode == "deliver" {
		if f.dead {
			f.lastResp = "halt"
		}
		f.rep.traffic(opRand(strings.Join(w, " "), 4), f.blockRaw)
		f.repResp = f.rep.run(func(a *App) string { return deliverStr(a.DeliverTx(abci.RequestDeliverTx{Tx: bz})) })
	}
	f.extra[fmt.Sprintf("tx:%s:%s:code%d", t.mode, t.kind, code)]++
	return res, bz, msg, t
}

// award addr amt ; burn addr decraw : the keeper API other modules use, on the deliver state.
func (f *Fam) doKeeper(w []string) string {
	keeper := func(a *App) string {
		ctx := a.Ctx().WithBlockHeight(f.height).WithBlockTime(time.Unix(0, f.now).UTC())
		switch w[0] {
		case "award":
			a.Pos.AwardCoinsTo(ctx, mustInt(w[2]), unhex(w[1]))
		case "burn":
			a.Pos.BurnValidator(ctx, unhex(w[1]), decRaw(w[2]))
		}
		return "ok"
	}
	r := f.guard(func() string { f.lastResp = keeper(f.app); return "ok" })
	if f.rep != nil {
		if f.dead {
			f.lastResp = "panic"
		}
		was := f.rep.dead
		f.repResp = f.rep.run(keeper)
		if strings.HasPrefix(f.repResp, "halt:") { // a panic in a keeper call is not a halt (as on the primary)
			f.rep.dead = was
			f.repResp = "panic"
		}
	}
	return r
}

func deliverStr(r abci.ResponseDeliverTx) string {
	return fmt.Sprintf("code=%d/%s data=%x %s", r.Code, r.Codespace, r.Data, eventsStr(r.Events))
}

var _ = bytes.Equal
var _ common.Failure
