package chain

import (
	"encoding/binary"
	"fmt"
	"sort"
	"strings"
	"time"

	abci "github.com/tendermint/tendermint/abci/types"
	"github.com/tendermint/tendermint/libs/log"

	sdk "github.com/pokt-network/posmint/types"
	"github.com/pokt-network/posmint/x/auth"
	authexp "github.com/pokt-network/posmint/x/auth/exported"
	authTypes "github.com/pokt-network/posmint/x/auth/types"
	govTypes "github.com/pokt-network/posmint/x/gov/types"
	posTypes "github.com/pokt-network/posmint/x/pos/types"
)

// Snapshot is the decoded, canonical content of the application state.
type Snapshot struct {
	Bal      map[string]map[string]sdk.Int // addr hex -> denom -> amount (non-zero only)
	Supply   map[string]sdk.Int
	Vals     map[string]ValRec
	Index    []IdxRec            // power index, raw key order (ascending)
	Prev     map[string]int64    // previous-state powers
	PrevTot  string
	Queue    map[string][]string // completion time (ns) -> addrs
	Sign     map[string]SignRec
	Missed   map[string]map[int64]bool
	Awards   map[string]string
	Burns    map[string]string
	Proposer string
	Params   map[string]string
	Accts    map[string]string // account address -> hex of the stored public key ("" = none)
}

type ValRec struct {
	Status  int
	Jailed  bool
	Tokens  sdk.Int
	Unstake int64 // completion time, unix ns
}
type IdxRec struct {
	Power int64
	Addr  string
	Val   string
}
type SignRec struct {
	Start, Offset, Missed int64
	JailedUntil           int64
	Tomb                  bool
}

func (a *App) Ctx() sdk.Context {
	return sdk.NewContext(a.Store(), abci.Header{ChainID: ChainID}, false, log.NewNopLogger())
}

func hx(b []byte) string { return fmt.Sprintf("%x", b) }

func coinsMap(c sdk.Coins) map[string]sdk.Int {
	m := map[string]sdk.Int{}
	for _, x := range c {
		if !x.Amount.IsZero() {
			m[x.Denom] = x.Amount
		}
	}
	return m
}

func unixNs(t time.Time) int64 {
	// time.Unix(253402300799,0) fits int64 ns? 2.5e20 does not: clamp to "forever"
	if t.Unix() >= 253402300799 {
		return -1
	}
	return t.UnixNano()
}

func (a *App) Snap() *Snapshot {
	ctx := a.Ctx()
	s := &Snapshot{Bal: map[string]map[string]sdk.Int{}, Vals: map[string]ValRec{}, Prev: map[string]int64{},
		Queue: map[string][]string{}, Sign: map[string]SignRec{}, Missed: map[string]map[int64]bool{},
		Awards: map[string]string{}, Burns: map[string]string{}, Params: map[string]string{}}
	s.Accts = map[string]string{}
	a.Auth.IterateAccounts(ctx, func(acc authexp.Account) bool {
		pk := ""
		if k := acc.GetPubKey(); k != nil {
			pk = hx(k.RawBytes())
		}
		s.Accts[hx(acc.GetAddress())] = pk
		m := coinsMap(acc.GetCoins())
		if len(m) > 0 {
			s.Bal[hx(acc.GetAddress())] = m
		}
		return false
	})
	s.Supply = coinsMap(a.Auth.GetSupply(ctx).GetTotal())
	store := ctx.KVStore(a.Keys[posTypes.StoreKey])
	it := store.Iterator(nil, nil)
	defer it.Close()
	for ; it.Valid(); it.Next() {
		k, v := it.Key(), it.Value()
		switch k[0] {
		case posTypes.AllValidatorsKey[0]:
			val := posTypes.MustUnmarshalValidator(a.Cdc, v)
			s.Vals[hx(k[1:])] = ValRec{int(val.Status), val.Jailed, val.StakedTokens, unixNs(val.UnstakingCompletionTime)}
			if hx(val.Address) != hx(k[1:]) {
				s.Params["BAD-record-address:"+hx(k[1:])] = hx(val.Address)
			}
		case posTypes.StakedValidatorsKey[0]:
			p := int64(binary.BigEndian.Uint64(k[1:9]))
			s.Index = append(s.Index, IdxRec{p, hx(posTypes.ParseValidatorPowerRankKey(k)), hx(v)})
		case posTypes.PrevStateValidatorsPowerKey[0]:
			var p int64
			a.Cdc.MustUnmarshalBinaryLengthPrefixed(v, &p)
			s.Prev[hx(k[1:])] = p
		case posTypes.PrevStateTotalPowerKey[0]:
			var p sdk.Int
			a.Cdc.MustUnmarshalBinaryLengthPrefixed(v, &p)
			s.PrevTot = p.String()
		case posTypes.UnstakingValidatorsKey[0]:
			var addrs []sdk.Address
			a.Cdc.MustUnmarshalBinaryLengthPrefixed(v, &addrs)
			t, err := sdk.ParseTimeBytes(k[1:])
			key := string(k[1:])
			if err == nil {
				key = fmt.Sprintf("%d", t.UnixNano())
			}
			for _, ad := range addrs {
				s.Queue[key] = append(s.Queue[key], hx(ad))
			}
		case posTypes.ValidatorSigningInfoKey[0]:
			var info posTypes.ValidatorSigningInfo
			a.Cdc.MustUnmarshalBinaryLengthPrefixed(v, &info)
			s.Sign[hx(k[1:])] = SignRec{info.StartHeight, info.IndexOffset, info.MissedBlocksCounter, unixNs(info.JailedUntil), info.Tombstoned}
		case posTypes.ValidatorMissedBlockBitArrayKey[0]:
			ad := hx(k[1:21])
			idx := int64(binary.LittleEndian.Uint64(k[21:]))
			var b bool
			a.Cdc.MustUnmarshalBinaryLengthPrefixed(v, &b)
			if s.Missed[ad] == nil {
				s.Missed[ad] = map[int64]bool{}
			}
			s.Missed[ad][idx] = b
		case posTypes.AwardValidatorKey[0]:
			var x sdk.Int
			a.Cdc.MustUnmarshalBinaryBare(v, &x)
			s.Awards[hx(k[1:])] = x.String()
		case posTypes.BurnValidatorKey[0]:
			var x sdk.Dec
			a.Cdc.MustUnmarshalBinaryBare(v, &x)
			s.Burns[hx(k[1:])] = x.Int.String()
		case posTypes.ProposerKey[0]:
			var ad sdk.Address
			a.Cdc.MustUnmarshalBinaryLengthPrefixed(v, &ad)
			s.Proposer = hx(ad)
		}
	}
	// parameters (raw JSON as stored)
	ps := ctx.KVStore(sdk.ParamsKey)
	pit := ps.Iterator(nil, nil)
	defer pit.Close()
	for ; pit.Valid(); pit.Next() {
		s.Params[string(pit.Key())] = string(pit.Value())
	}
	return s
}

func sortedKeys(m interface{}) []string {
	var ks []string
	switch mm := m.(type) {
	case map[string]map[string]sdk.Int:
		for k := range mm {
			ks = append(ks, k)
		}
	case map[string]sdk.Int:
		for k := range mm {
			ks = append(ks, k)
		}
	case map[string]ValRec:
		for k := range mm {
			ks = append(ks, k)
		}
	case map[string]int64:
		for k := range mm {
			ks = append(ks, k)
		}
	case map[string][]string:
		for k := range mm {
			ks = append(ks, k)
		}
	case map[string]SignRec:
		for k := range mm {
			ks = append(ks, k)
		}
	case map[string]map[int64]bool:
		for k := range mm {
			ks = append(ks, k)
		}
	case map[string]string:
		for k := range mm {
			ks = append(ks, k)
		}
	}
	_ = 0
	sort.Strings(ks)
	return ks
}

func coinsStr(m map[string]sdk.Int) string {
	var p []string
	for _, d := range sortedKeys(m) {
		p = append(p, m[d].String()+d)
	}
	return strings.Join(p, "+")
}

func b01(b bool) string {
	if b {
		return "1"
	}
	return "0"
}

// String renders the canonical text the Lean model must reproduce. Parameters other than the
// pos ones the model tracks are not part of it (they are compared by the C17 monitor).
// Foreign: balances and supply in denominations other than the staking one, canonical text
func (s *Snapshot) Foreign() string {
	var p []string
	for _, a := range sortedKeys(s.Bal) {
		for d, x := range s.Bal[a] {
			if d != Denom {
				p = append(p, a+"="+x.String()+d)
			}
		}
	}
	for d, x := range s.Supply {
		if d != Denom {
			p = append(p, "supply="+x.String()+d)
		}
	}
	sort.Strings(p)
	return strings.Join(p, ",")
}

func (s *Snapshot) String() string {
	var sb strings.Builder
	// the line protocol carries the staking denomination (the one the model tracks); coins of other denominations
	// only ever move as part of a fee and are watched by the monitors (and compared between instances, see Foreign)
	sb.WriteString("bal[")
	first := true
	for _, a := range sortedKeys(s.Bal) {
		x, ok := s.Bal[a][Denom]
		if !ok {
			continue
		}
		if !first {
			sb.WriteByte(',')
		}
		first = false
		sb.WriteString(a + "=" + x.String() + Denom)
	}
	sup := ""
	if x, ok := s.Supply[Denom]; ok {
		sup = x.String() + Denom
	}
	sb.WriteString("] sup[" + sup + "] val[")
	for i, a := range sortedKeys(s.Vals) {
		v := s.Vals[a]
		if i > 0 {
			sb.WriteByte(',')
		}
		fmt.Fprintf(&sb, "%s=%d:%s:%s:%d", a, v.Status, b01(v.Jailed), v.Tokens, v.Unstake)
	}
	sb.WriteString("] idx[")
	for i, e := range s.Index {
		if i > 0 {
			sb.WriteByte(',')
		}
		fmt.Fprintf(&sb, "%d:%s", e.Power, e.Addr)
		if e.Addr != e.Val {
			sb.WriteString("!" + e.Val)
		}
	}
	sb.WriteString("] prev[")
	for i, a := range sortedKeys(s.Prev) {
		if i > 0 {
			sb.WriteByte(',')
		}
		fmt.Fprintf(&sb, "%s=%d", a, s.Prev[a])
	}
	sb.WriteString("] q[")
	qk := sortedKeys(s.Queue)
	sort.Slice(qk, func(i, j int) bool { return len(qk[i]) < len(qk[j]) || (len(qk[i]) == len(qk[j]) && qk[i] < qk[j]) })
	for i, t := range qk {
		if i > 0 {
			sb.WriteByte(',')
		}
		sb.WriteString(t + "=" + strings.Join(s.Queue[t], "/"))
	}
	sb.WriteString("] si[")
	for i, a := range sortedKeys(s.Sign) {
		x := s.Sign[a]
		if i > 0 {
			sb.WriteByte(',')
		}
		fmt.Fprintf(&sb, "%s=%d:%d:%d:%d:%s", a, x.Start, x.Offset, x.Missed, x.JailedUntil, b01(x.Tomb))
	}
	sb.WriteString("] mb[")
	first = true
	for _, a := range sortedKeys(s.Missed) {
		var idx []int64
		for i := range s.Missed[a] {
			idx = append(idx, i)
		}
		sort.Slice(idx, func(i, j int) bool { return idx[i] < idx[j] })
		for _, i := range idx {
			if !first {
				sb.WriteByte(',')
			}
			first = false
			fmt.Fprintf(&sb, "%s:%d=%s", a, i, b01(s.Missed[a][i]))
		}
	}
	sb.WriteString("] aw[")
	for i, a := range sortedKeys(s.Awards) {
		if i > 0 {
			sb.WriteByte(',')
		}
		sb.WriteString(a + "=" + s.Awards[a])
	}
	sb.WriteString("] bn[")
	for i, a := range sortedKeys(s.Burns) {
		if i > 0 {
			sb.WriteByte(',')
		}
		sb.WriteString(a + "=" + s.Burns[a])
	}
	sb.WriteString("] prop=" + s.Proposer + " ptot=" + s.PrevTot)
	// the second denomination, only when somebody holds some
	var b2 []string
	for _, a := range sortedKeys(s.Bal) {
		if x, ok := s.Bal[a][Denom2]; ok {
			b2 = append(b2, a+"="+x.String())
		}
	}
	if s2, ok := s.Supply[Denom2]; ok || len(b2) > 0 {
		sup2 := "0"
		if ok {
			sup2 = s2.String()
		}
		sb.WriteString(" b2[" + strings.Join(b2, ",") + "] s2=" + sup2)
	}
	sb.WriteString(s.govText())
	// which of the key addresses have an account, and which of those accounts carry a public key
	var ac, pk []string
	for _, a := range sortedKeys(s.Accts) {
		if _, ok := keyByAddr[a]; ok {
			ac = append(ac, a)
			if s.Accts[a] != "" {
				pk = append(pk, a)
			}
		}
	}
	sb.WriteString(" ac[" + strings.Join(ac, ",") + "] pk[" + strings.Join(pk, ",") + "]")
	return sb.String()
}

// govText: the governance-controlled state as the model prints it - the parameters the model tracks (integers and
// durations as digits, decimals as their 18-digit raw value), the DAO owner, the upgrade plan, the access-control list
func (s *Snapshot) govText() string {
	q := func(key string) string { // "123" -> 123
		v := s.Params[key]
		if len(v) >= 2 && v[0] == '"' && v[len(v)-1] == '"' {
			return v[1 : len(v)-1]
		}
		return "?" + v
	}
	dec := func(key string) string {
		d, err := sdk.NewDecFromStr(q(key))
		if err != nil {
			return "?" + s.Params[key]
		}
		return d.Int.String()
	}
	var up govTypes.Upgrade
	upg := "?"
	if err := govTypes.ModuleCdc.UnmarshalJSON([]byte(s.Params["gov/upgrade"]), &up); err == nil {
		upg = fmt.Sprintf("%d:%s", up.Height, up.Version)
	}
	var acl govTypes.ACL
	var pairs []string
	if err := govTypes.ModuleCdc.UnmarshalJSON([]byte(s.Params["gov/acl"]), &acl); err == nil {
		for _, p := range acl {
			pairs = append(pairs, p.Key+"="+hx(p.Addr))
		}
	} else {
		pairs = []string{"?"}
	}
	return fmt.Sprintf(" gov[ms=%s,mv=%s,ut=%s,w=%s,mspw=%s,jd=%s,mea=%s,sfds=%s,sfdt=%s,memo=%s,tsl=%s,fm=%s,daoo=%s,upg=%s] acl[%s]",
		q("pos/StakeMinimum"), q("pos/MaxValidators"), q("pos/UnstakingTime"), q("pos/SignedBlocksWindow"), dec("pos/MinSignedPerWindow"),
		q("pos/DowntimeJailDuration"), q("pos/MaxEvidenceAge"), dec("pos/SlashFractionDoubleSign"), dec("pos/SlashFractionDowntime"),
		q("auth/MaxMemoCharacters"), q("auth/TxSigLimit"), fmText(s.Params["auth/FeeMultipliers"]), q("gov/daoOwner"), upg, strings.Join(pairs, ","))
}

// fmText: the fee multipliers as the model prints them: type:multiplier;.../default
func fmText(raw string) string {
	var fm authTypes.FeeMultipliers
	if err := authTypes.ModuleCdc.UnmarshalJSON([]byte(raw), &fm); err != nil {
		return "?" + raw
	}
	var p []string
	for _, e := range fm.FeeMultis {
		p = append(p, fmt.Sprintf("%s:%d", e.Key, e.Multiplier))
	}
	return strings.Join(p, ";") + fmt.Sprintf("/%d", fm.Default)
}

var _ = auth.StoreKey
