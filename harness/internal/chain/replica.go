package chain

import (
	"fmt"
	"hash/fnv"
	"math/rand"
	"strings"

	stypes "github.com/pokt-network/posmint/store/types"
	sdk "github.com/pokt-network/posmint/types"
	abci "github.com/tendermint/tendermint/abci/types"
	dbm "github.com/tendermint/tm-db"
)

// A replica is a second, independently started application instance that receives the same sequence of
// state-changing ABCI requests as the primary one. It differs in everything that must not matter (C01):
// its own database and pruning configuration, it is stopped after some commits and reopened from its
// database, it does not see the primary's CheckTx/simulate traffic and gets CheckTx/Query traffic of its own.
// After every request the consensus-relevant part of the two responses (result code, data, events, validator
// updates, app hash) is compared.
type replica struct {
	app      *App
	db       dbm.DB
	rpc      string
	pruning  sdk.PruningOptions
	dead     bool
	restarts int
	wantRestart bool
	extras   int
}

func (f *Fam) replicaOn() bool { return strings.Contains(f.Profile, "replica") }

var replicaPrunings = []sdk.PruningOptions{stypes.PruneNothing, stypes.NewPruningOptions(2, 3), stypes.PruneEverything, stypes.NewPruningOptions(1, 0)}

func eventsStr(evs []abci.Event) string {
	var sb strings.Builder
	for _, e := range evs {
		sb.WriteString(e.Type)
		sb.WriteByte('{')
		for _, a := range e.Attributes {
			fmt.Fprintf(&sb, "%s=%s;", a.Key, a.Value)
		}
		sb.WriteByte('}')
	}
	return sb.String()
}

// opRand: the replica's private choices are a function of the operation text, so that they neither disturb the
// generator's stream nor change when a history is shrunk around them.
func opRand(op string, salt int) *rand.Rand {
	h := fnv.New64a()
	h.Write([]byte(op))
	return rand.New(rand.NewSource(int64(h.Sum64()) + int64(salt)))
}

// run executes fn on the replica; a panic is a halt of the replica, reported like the primary's.
func (r *replica) run(fn func(a *App) string) (res string) {
	if r.dead {
		return "dead"
	}
	defer func() {
		if e := recover(); e != nil {
			r.dead = true
			msg := fmt.Sprint(e)
			if len(msg) > 120 {
				msg = msg[:120]
			}
			res = "halt:" + strings.ReplaceAll(msg, "\n", " ")
		}
	}()
	return fn(r.app)
}

// restart stops the replica and opens a new application over the same database.
func (r *replica) restart() (err string) {
	defer func() {
		if e := recover(); e != nil {
			r.dead = true
			err = fmt.Sprint(e)
		}
	}()
	gen, pp := r.app.Genesis, r.app.PosParams
	r.app = NewApp(r.db, r.rpc, r.pruning)
	r.app.Genesis, r.app.PosParams = gen, pp
	r.restarts++
	return ""
}

// traffic: CheckTx and Query requests only this instance sees. They must leave no trace.
func (r *replica) traffic(rnd *rand.Rand, txs [][]byte) {
	defer func() { recover() }()
	for i := 0; i < rnd.Intn(3); i++ {
		r.extras++
		switch rnd.Intn(6) {
		case 4: // module queriers, at the latest height (0) - they run on a copy of the multistore loaded at a version
			path := []string{"custom/pos/stakedPool", "custom/pos/parameters", "custom/gov/acl", "custom/gov/dao", "custom/gov/daoOwner", "custom/pos/unstakedPool"}[rnd.Intn(6)]
			r.app.Query(abci.RequestQuery{Path: path})
		case 5: // ... and at an explicit earlier height
			path := []string{"custom/pos/stakedPool", "custom/gov/daoOwner", "custom/pos/parameters"}[rnd.Intn(3)]
			if h := r.app.LastBlockHeight(); h > 0 {
				r.app.Query(abci.RequestQuery{Path: path, Height: 1 + rnd.Int63n(h)})
			}
		case 0:
			if len(txs) > 0 {
				r.app.CheckTx(abci.RequestCheckTx{Tx: txs[rnd.Intn(len(txs))]})
			}
		case 1:
			if len(txs) > 0 {
				r.app.Query(abci.RequestQuery{Path: "/app/simulate", Data: txs[rnd.Intn(len(txs))]})
			}
		case 2:
			r.app.Query(abci.RequestQuery{Path: "/store/pos/key", Data: []byte{0x21, byte(rnd.Intn(256))}})
		case 3:
			r.app.Query(abci.RequestQuery{Path: "/store/auth/subspace", Data: []byte{0x01}})
		}
	}
}

func (f *Fam) downtime() bool { return strings.Contains(f.Profile, "downtime") }
