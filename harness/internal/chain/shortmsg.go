package chain

// A transaction whose message lacks its amount field on the wire. The Go types cannot produce it (an Int always
// encodes its digits), a foreign client can: the bytes decode, and the amount is then an Int without a value.
// Built here with look-alike message types registered under the same amino names in a codec of their own.

import (
	"github.com/pokt-network/posmint/codec"
	"github.com/pokt-network/posmint/crypto"
	sdk "github.com/pokt-network/posmint/types"
	authTypes "github.com/pokt-network/posmint/x/auth/types"
)

type shortSend struct {
	FromAddress sdk.Address
	ToAddress   sdk.Address
}

func (m shortSend) Route() string            { return "pos" }
func (m shortSend) Type() string             { return "send" }
func (m shortSend) ValidateBasic() sdk.Error { return nil }
func (m shortSend) GetSignBytes() []byte     { return []byte("short-send") }
func (m shortSend) GetSigner() sdk.Address   { return m.FromAddress }
func (m shortSend) GetFee() sdk.Int          { return sdk.ZeroInt() }

type shortStake struct {
	PubKey crypto.PublicKey `json:"pubkey" yaml:"pubkey"`
}

func (m shortStake) Route() string            { return "pos" }
func (m shortStake) Type() string             { return "stake_validator" }
func (m shortStake) ValidateBasic() sdk.Error { return nil }
func (m shortStake) GetSignBytes() []byte     { return []byte("short-stake") }
func (m shortStake) GetSigner() sdk.Address   { return sdk.Address(m.PubKey.Address()) }
func (m shortStake) GetFee() sdk.Int          { return sdk.ZeroInt() }

var shortCdc = func() *codec.Codec {
	c := codec.New()
	c.RegisterInterface((*sdk.Msg)(nil), nil)
	c.RegisterInterface((*sdk.Tx)(nil), nil)
	c.RegisterConcrete(authTypes.StdTx{}, "posmint/StdTx", nil)
	c.RegisterConcrete(shortStake{}, "pos/MsgStake", nil)
	c.RegisterConcrete(shortSend{}, "pos/Send", nil)
	codec.RegisterCrypto(c)
	return c
}()
