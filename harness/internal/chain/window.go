package chain

import (
	"fmt"
	"math/big"
	"strings"
)

// winHist: the votes the application has been handed for one address since its window was last empty.
type winHist struct {
	flags []bool // true = missed, oldest first
	known bool   // false: the window came with an exported genesis, or the block held several votes for the address
}

// checkWindowHistory (C08, first sentence, from the history rather than from the stored ring buffer): after every
// BeginBlock the missed-blocks counter of every address that was voted on equals the number of misses among its last
// SignedBlocksWindow votes. The Lean theorem `counter_always_window_count` proves this for every history in which
// governance leaves the window alone; a mismatch there is a violation. After a governance change of the window the
// stored slots no longer line up with "the last W votes": that mismatch carries its own signature (a recorded finding).
func (f *Fam) checkWindowHistory(before, after *Snapshot, w []string, fail func(string, string, string)) {
	if f.win == nil {
		f.win = map[string]*winHist{}
	}
	m := kv(w)
	if m["v"] == "" || m["v"] == "-" {
		return
	}
	W, ok := paramBig(after, "pos/SignedBlocksWindow")
	if !ok || W.Sign() <= 0 || !W.IsInt64() {
		return
	}
	votes := map[string][]bool{}
	var order []string
	for _, sv := range strings.Split(m["v"], ",") {
		x := strings.Split(sv, ":")
		if _, seen := votes[x[0]]; !seen {
			order = append(order, x[0])
		}
		votes[x[0]] = append(votes[x[0]], x[2] != "1")
	}
	for _, a := range order {
		sb, okB := before.Sign[a]
		sa, okA := after.Sign[a]
		if !okB || !okA {
			continue
		}
		h := f.win[a]
		if h == nil {
			// first sight: a window that is empty is known from here on
			h = &winHist{known: sb.Offset == 0 && sb.Missed == 0 && len(before.Missed[a]) == 0}
			f.win[a] = h
		}
		if len(votes[a]) != 1 {
			h.known = false
			continue
		}
		h.flags = append(h.flags, votes[a][0])
		n := int64(len(h.flags))
		from := int64(0)
		if n > W.Int64() {
			from = n - W.Int64()
		}
		cnt := int64(0)
		for _, miss := range h.flags[from:] {
			if miss {
				cnt++
			}
		}
		if sa.Offset == 0 { // a recorded vote leaves the offset at one or more: zero means the punishment emptied the window
			// a clean slate - but was the punishment due? (second sentence of C08, from the history)
			if frac, okf := paramBig(after, "pos/MinSignedPerWindow"); okf && h.known {
				num := new(big.Int).Mul(frac, W)
				unit := new(big.Int).Exp(big.NewInt(10), big.NewInt(18), nil)
				q, rem := new(big.Int).QuoRem(num, unit, new(big.Int))
				twice := new(big.Int).Lsh(rem, 1)
				if c := twice.Cmp(unit); c > 0 || (c == 0 && q.Bit(0) == 1) {
					q.Add(q, big.NewInt(1))
				}
				if allowed := W.Int64() - q.Int64(); cnt <= allowed {
					sig := "C08:punished-within-allowance"
					if f.windowChanged {
						sig += ":after-window-change"
					}
					fail("punished-only-beyond-allowance", sig, fmt.Sprintf("BeginBlock %d: %s was slashed and jailed for downtime having missed %d of its last %d votes (window %d), %d are allowed",
						f.height, a, cnt, n-from, W.Int64(), allowed))
				}
			}
			h.flags, h.known = nil, true
			continue
		}
		if !h.known {
			continue
		}
		f.extra["c08:counter-vs-history-checked"]++
		if cnt != sa.Missed {
			sig := "C08:counter-ne-last-window"
			if f.windowChanged {
				sig += ":after-window-change"
			}
			fail("counter-is-window-count", sig, fmt.Sprintf("BeginBlock %d: %s has missed %d of its last %d votes (window %d, %d votes since the window was empty), the counter says %d",
				f.height, a, cnt, n-from, W.Int64(), n, sa.Missed))
		}
	}
}
