// Package chain: family "chain": the real BaseApp with auth + pos + gov over a MemDB, driven
// through InitChain / BeginBlock / DeliverTx / EndBlock / Commit with really signed transactions.
package chain

import (
	"encoding/json"
	"reflect"
	"unsafe"

	abci "github.com/tendermint/tendermint/abci/types"
	tmcfg "github.com/tendermint/tendermint/config"
	"github.com/tendermint/tendermint/libs/log"
	"github.com/tendermint/tendermint/node"
	dbm "github.com/tendermint/tm-db"

	bam "github.com/pokt-network/posmint/baseapp"
	"github.com/pokt-network/posmint/codec"
	sdk "github.com/pokt-network/posmint/types"
	"github.com/pokt-network/posmint/types/module"
	"github.com/pokt-network/posmint/x/auth"
	"github.com/pokt-network/posmint/x/gov"
	govKeeper "github.com/pokt-network/posmint/x/gov/keeper"
	govTypes "github.com/pokt-network/posmint/x/gov/types"
	"github.com/pokt-network/posmint/x/pos"
	posKeeper "github.com/pokt-network/posmint/x/pos/keeper"
	posTypes "github.com/pokt-network/posmint/x/pos/types"
)

const ChainID = "verif-chain"

type App struct {
	*bam.BaseApp
	Cdc    *codec.Codec
	DB     dbm.DB
	Keys   map[string]*sdk.KVStoreKey
	TKeys  map[string]*sdk.TransientStoreKey
	Auth   auth.Keeper
	Pos    posKeeper.Keeper
	Gov    govKeeper.Keeper
	MM     *module.Manager
	Genesis map[string]json.RawMessage
	PosParams *posTypes.Params // applied after the module's InitGenesis (which forces the defaults)
}

func MakeCodec() *codec.Codec {
	cdc := codec.New()
	module.NewBasicManager(auth.AppModuleBasic{}, pos.AppModuleBasic{}, gov.AppModuleBasic{}).RegisterCodec(cdc)
	sdk.RegisterCodec(cdc)
	codec.RegisterCrypto(cdc)
	return cdc
}

// fakeNode builds a *node.Node whose Config().RPC.ListenAddress is addr (the ante handler
// only uses that to look the tx hash up in the tx index over HTTP).
func fakeNode(addr string) *node.Node {
	n := &node.Node{}
	cfg := tmcfg.DefaultConfig()
	cfg.RPC.ListenAddress = addr
	v := reflect.ValueOf(n).Elem().FieldByName("config")
	reflect.NewAt(v.Type(), unsafe.Pointer(v.UnsafeAddr())).Elem().Set(reflect.ValueOf(cfg))
	return n
}

func NewApp(db dbm.DB, rpcAddr string, pruning sdk.PruningOptions) *App {
	cdc := MakeCodec()
	bapp := bam.NewBaseApp("verif", log.NewNopLogger(), db, auth.DefaultTxDecoder(cdc), bam.SetPruning(pruning))
	bapp.SetAppVersion("0.0.1")
	app := &App{BaseApp: bapp, Cdc: cdc, DB: db}
	app.Keys = sdk.NewKVStoreKeys(bam.MainStoreKey, auth.StoreKey, posTypes.StoreKey, gov.StoreKey)
	app.TKeys = sdk.NewTransientStoreKeys(gov.TStoreKey)
	authSub := sdk.NewSubspace(auth.DefaultParamspace)
	posSub := sdk.NewSubspace(posKeeper.DefaultParamspace)
	maccPerms := map[string][]string{
		auth.FeeCollectorName:    nil,
		posTypes.StakedPoolName:  {auth.Burner, auth.Minter, auth.Staking},
		posTypes.ModuleName:      nil,
		govTypes.DAOAccountName:  {auth.Burner, auth.Minter, auth.Staking},
	}
	app.Auth = auth.NewKeeper(cdc, app.Keys[auth.StoreKey], authSub, maccPerms)
	app.Pos = posKeeper.NewKeeper(cdc, app.Keys[posTypes.StoreKey], app.Auth, posSub, posTypes.DefaultCodespace)
	app.Gov = govKeeper.NewKeeper(cdc, app.Keys[gov.StoreKey], app.TKeys[gov.TStoreKey], govTypes.DefaultCodespace, app.Auth, authSub, posSub)
	app.MM = module.NewManager(auth.NewAppModule(app.Auth), pos.NewAppModule(app.Pos, app.Auth), gov.NewAppModule(app.Gov))
	app.MM.SetOrderBeginBlockers(posTypes.ModuleName, gov.ModuleName)
	app.MM.SetOrderEndBlockers(posTypes.ModuleName, gov.ModuleName)
	app.MM.SetOrderInitGenesis(auth.ModuleName, posTypes.ModuleName, gov.ModuleName)
	app.MM.RegisterRoutes(app.Router(), app.QueryRouter())
	app.SetInitChainer(func(ctx sdk.Ctx, req abci.RequestInitChain) abci.ResponseInitChain {
		res := app.MM.InitGenesis(ctx, app.Genesis)
		return res
	})
	app.SetBeginBlocker(func(ctx sdk.Ctx, req abci.RequestBeginBlock) abci.ResponseBeginBlock { return app.MM.BeginBlock(ctx, req) })
	app.SetEndBlocker(func(ctx sdk.Ctx, req abci.RequestEndBlock) abci.ResponseEndBlock { return app.MM.EndBlock(ctx, req) })
	app.SetAnteHandler(auth.NewAnteHandler(app.Auth))
	app.MountKVStores(app.Keys)
	app.MountTransientStores(app.TKeys)
	app.SetTendermintNode(fakeNode(rpcAddr))
	if err := app.LoadLatestVersion(app.Keys[bam.MainStoreKey]); err != nil {
		panic(err)
	}
	return app
}
