package chain

import (
	"bytes"
	"fmt"

	abci "github.com/tendermint/tendermint/abci/types"

	sdk "github.com/pokt-network/posmint/types"
	posTypes "github.com/pokt-network/posmint/x/pos/types"
)

// recordCommitted remembers, for the height just committed, what the pos store holds under the proposer key and
// under the key of the total previous-state power (two small records that change often).
func (f *Fam) recordCommitted() {
	if f.dead || f.app == nil {
		return
	}
	if f.committed == nil {
		f.committed = map[int64][2][]byte{}
	}
	st := f.app.Ctx().KVStore(f.app.Keys[posTypes.StoreKey])
	f.committed[f.app.LastBlockHeight()] = [2][]byte{st.Get(posTypes.ProposerKey), st.Get(posTypes.PrevStateTotalPowerKey)}
	f.committedParams = f.app.Pos.GetParams(f.app.Ctx()).String()
}

// monQuery (C14, through the ABCI Query path of the base app): store queries for the two recorded keys at no height
// (= latest), the latest height, every remembered earlier height and heights that do not exist yet, with and without
// a proof. A height that does not exist yet is answered with no value and no proof; a committed height with exactly
// what was committed at that height or - when that version is gone - with nothing; never with data of another height.
func (f *Fam) monQuery(fail func(string, string, string)) {
	if f.dead || f.app == nil {
		return
	}
	latest := f.app.LastBlockHeight()
	if latest < 1 {
		return
	}
	// a module query (no height: the committed state), also in the middle of a block: it answers from what was
	// committed, whatever the transactions of the running block have written so far
	{
		for _, path := range []string{"custom/gov/daoOwner", "custom/gov/acl", "custom/gov/upgrade"} {
			f.guardQuery(func() { f.app.Query(abci.RequestQuery{Path: path}) })
		}
		var res abci.ResponseQuery
		if r := f.guardQuery(func() { res = f.app.Query(abci.RequestQuery{Path: "custom/pos/parameters"}) }); r != "" {
			fail("query-no-crash", "C14:query-panic", "the pos parameters query panicked: "+r)
		} else if res.Code == 0 {
			var p posTypes.Params
			if err := posTypes.ModuleCdc.UnmarshalJSON(res.Value, &p); err == nil {
				f.extra["c14:module-queries"]++
				if f.inBlock {
					f.extra["c14:module-queries-inside-a-block"]++
				}
				if f.committedParams != "" && p.String() != f.committedParams {
					fail("committed-at-height", "C14:module-query-not-committed-state", fmt.Sprintf("the pos parameters query (inside a block: %v) answered %q, committed: %q", f.inBlock, p.String(), f.committedParams))
				}
			}
		}
	}
	// C11: a read-only call changes nothing - not the state and not what block execution goes on to read: after the
	// queries above the keepers, asked on the state of the running block, still answer what that state's store holds
	{
		got := f.app.Pos.GetParams(f.app.Ctx())
		want := posTypes.Params{}
		raw := f.app.Snap().Params
		ok := true
		for _, pr := range (&want).ParamSetPairs() {
			if err := posTypes.ModuleCdc.UnmarshalJSON([]byte(raw["pos/"+string(pr.Key)]), pr.Value); err != nil {
				ok = false
			}
		}
		// (the keeper's GetParams puts the derived count - fraction times window, rounded - where the fraction belongs)
		want.MinSignedPerWindow = sdk.NewDec(want.MinSignedPerWindow.MulInt64(want.SignedBlocksWindow).RoundInt64())
		f.extra["c11:keeper-view-after-queries-checked"]++
		if ok && got.String() != want.String() {
			fail("readonly", "C11:query-changed-what-execution-reads", fmt.Sprintf("after read-only queries (inside a block: %v) the pos keeper reads %q on the running state, whose store holds %q", f.inBlock, got.String(), want.String()))
		}
		if o, rawO := hx(f.app.Gov.GetDAOOwner(f.app.Ctx())), raw["gov/daoOwner"]; ok && rawO != "\""+o+"\"" && !(o == "" && (rawO == "\"\"" || rawO == "null")) {
			fail("readonly", "C11:query-changed-what-execution-reads", fmt.Sprintf("after read-only queries the gov keeper names %q as DAO owner on the running state, whose store holds %s", o, rawO))
		}
	}
	keys := [2][]byte{posTypes.ProposerKey, posTypes.PrevStateTotalPowerKey}
	heights := []int64{0, latest, latest + 1, latest + 2, latest + 1000}
	for h := range f.committed {
		if h < latest {
			heights = append(heights, h)
		}
	}
	for _, h := range heights {
		for ki, key := range keys {
			for _, prove := range []bool{false, true} {
				var res abci.ResponseQuery
				if r := f.guardQuery(func() { res = f.app.Query(abci.RequestQuery{Path: "/store/" + posTypes.StoreKey + "/key", Data: key, Height: h, Prove: prove}) }); r != "" {
					fail("query-no-crash", "C14:query-panic", fmt.Sprintf("store query at height %d (latest %d, prove=%v) panicked: %s", h, latest, prove, r))
					continue
				}
				f.extra["c14:abci-store-queries"]++
				switch {
				case h > latest:
					f.extra["c14:abci-store-queries-future-height"]++
					if len(res.Value) != 0 || res.Proof != nil {
						fail("future-height-empty", "C14:future-height-answered", fmt.Sprintf("store query at height %d, which does not exist yet (latest %d, prove=%v), returned value %x (response height %d, proof present: %v)",
							h, latest, prove, res.Value, res.Height, res.Proof != nil))
					}
				default:
					at := h
					if at == 0 {
						at = latest
					}
					want, known := f.committed[at]
					if known && len(res.Value) != 0 && !bytes.Equal(res.Value, want[ki]) {
						fail("committed-at-height", "C14:data-of-another-height", fmt.Sprintf("store query at height %d (latest %d, prove=%v) returned %x, committed at that height: %x", h, latest, prove, res.Value, want[ki]))
					}
					if known && (h == 0 || h == latest) && !(prove && at <= 1) && !bytes.Equal(res.Value, want[ki]) {
						fail("committed-at-height", "C14:latest-not-returned", fmt.Sprintf("store query at height %d (latest %d, prove=%v) returned %x, committed: %x", h, latest, prove, res.Value, want[ki]))
					}
				}
			}
		}
	}
}

func (f *Fam) guardQuery(fn func()) (r string) {
	defer func() {
		if e := recover(); e != nil {
			r = fmt.Sprintf("%.200v", e)
		}
	}()
	fn()
	return ""
}
