package chain

import (
	"fmt"
	"math/rand"
	"time"

	sdk "github.com/pokt-network/posmint/types"
	"github.com/pokt-network/posmint/x/pos"
	posTypes "github.com/pokt-network/posmint/x/pos/types"
)

// monGlue: two pieces of glue the chain relies on, exercised directly.
//
// C06 - "every validator that is not unstaked holds at least the minimum stake": a chain starts with the default
// parameters (the module's InitGenesis installs them), so genesis validation must refuse a genesis whose own minimum,
// and whose validators' stakes, lie below the default minimum.
//
// C11 - "its message handler returns an error ... leaves the application state exactly as it was": the base app
// tells a failed handler from a successful one by the code of the result, so the result of every error - with a
// codespace of its own, with the root codespace, with none - carries that error's non-zero code.
func (f *Fam) monGlue(seed int64, fail func(string, string, string)) {
	r := rand.New(rand.NewSource(seed))
	// C11
	for _, cs := range []sdk.CodespaceType{sdk.CodespaceUndefined, sdk.CodespaceRoot, posTypes.DefaultCodespace, "mod"} {
		code := sdk.CodeType(1 + r.Intn(200))
		res := sdk.NewError(cs, code, "refused").Result()
		if res.IsOK() || res.Code != code {
			fail("error-result", "C11:error-result-reads-as-success", fmt.Sprintf("the result of an error with codespace %q and code %d carries code %d (reads as success: %v)", cs, code, res.Code, res.IsOK()))
		}
	}
	// C06
	gen := posTypes.DefaultGenesisState()
	gen.Params.StakeMinimum = []int64{1, 1000, 500000, 999999}[r.Intn(4)]
	k := Keys[r.Intn(NKeys)]
	v := posTypes.NewValidator(k.Addr, k.Pub, sdk.NewInt(gen.Params.StakeMinimum+1+int64(r.Intn(1000))))
	if r.Intn(2) == 0 {
		v.Status = sdk.Unstaking
		v.UnstakingCompletionTime = time.Unix(1000, 0).UTC()
	}
	gen.Validators = []posTypes.Validator{v}
	err := func() (err error) {
		defer func() {
			if e := recover(); e != nil {
				err = fmt.Errorf("%v", e)
			}
		}()
		return pos.ValidateGenesis(gen)
	}()
	f.extra["c06:genesis-below-default-minimum-offered"]++
	if err == nil {
		fail("min-stake", "C06:genesis-below-minimum-accepted", fmt.Sprintf("a genesis with stake_minimum %d and a validator (status %d) holding %s passes validation; the chain starts with a minimum of %d",
			gen.Params.StakeMinimum, v.Status, v.StakedTokens, posTypes.DefaultMinStake))
	}
}
