package chain

import (
	"encoding/hex"
	"fmt"
	"math/rand"
	"sort"
	"strings"

	sdk "github.com/pokt-network/posmint/types"
	govTypes "github.com/pokt-network/posmint/x/gov/types"
)

const sec = int64(1000000000)

func pick(r *rand.Rand, xs ...int64) int64 { return xs[r.Intn(len(xs))] }

func (f *Fam) genInit(r *rand.Rand) string {
	ms := pick(r, 1000000, 1000000, 2000000, 5000000)
	var sb strings.Builder
	window := pick(r, 1, 2, 3, 5, 10)
	minSigned := pick(r, 0, 50000000000000000, 500000000000000000, 500000000000000000, 950000000000000000, 1000000000000000000)
	jail := pick(r, 600, 60, 3600) * sec
	if f.downtime() {
		// long chains over windows of more than one byte's worth of slots: the bookkeeping of a large window
		// (slot keys, wrap-around, clearing on jail) only shows after a few hundred blocks
		window = pick(r, 256, 257, 300, 300, 511, 100)
		minSigned = pick(r, 950000000000000000, 990000000000000000, 900000000000000000)
		jail = pick(r, 1, 60) * sec
	}
	fmt.Fprintf(&sb, "init ms=%d mv=%d ut=%d w=%d mspw=%d jd=%d mea=%d sfds=%d sfdt=%d fee=%d",
		ms, pick(r, 1, 2, 3, 5, 100000, 100000), pick(r, 3600, 7200, 60)*sec, window,
		minSigned,
		jail, pick(r, 120, 600)*sec,
		pick(r, 50000000000000000, 50000000000000000, 500000000000000000, 1000000000000000000, 0, 1),
		pick(r, 10000000000000000, 100000000000000000, 1000000000000, 0, 1000000000000000000),
		pick(r, 0, 1000, 10000, 10000))
	daoOwner := hx(Keys[r.Intn(3)].Addr)
	if r.Intn(6) == 0 {
		daoOwner = "" // the default: a DAO without an owner
	}
	fmt.Fprintf(&sb, " daoo=%s daot=%d aclo=%s", daoOwner, pick(r, 0, 1000, 50000000), hx(Keys[r.Intn(3)].Addr))
	// every third chain leaves the last two plain keys without a genesis account: their accounts come into being with
	// the first coins they receive and never carry a public key (such a signer must bring its key with the transaction)
	nStored := NKeys
	if r.Intn(3) == 0 {
		nStored = NKeys - 2
	}
	fmt.Fprintf(&sb, " stored=%d mods=%s,%s,%s,%s keys=", nStored, poolAddr, feeAddr, posAddr, daoAddr)
	for i := 0; i < NAll; i++ {
		if i > 0 {
			sb.WriteByte(',')
		}
		sb.WriteString(hx(Keys[i].Addr))
	}
	if r.Intn(5) == 0 {
		sb.WriteString(" gs=derived") // no explicit supply in the genesis: the auth module derives it from the accounts
	}
	sb.WriteString(" ksh=") // the shape of every key: p plain, m(..) multisignature over its components
	for i, k := range Keys {
		if i > 0 {
			sb.WriteByte(';')
		}
		sb.WriteString(k.Shape())
	}
	for i := NKeys; i < NAll; i++ { // the multisignature accounts
		fmt.Fprintf(&sb, " acc %s %d", hx(Keys[i].Addr), pick(r, 0, 1000000, 100000000, 1000000000))
	}
	nv := r.Intn(7)
	if f.downtime() {
		nv = 3 + r.Intn(4)
	}
	perm := r.Perm(NKeys)
	for i, ki := range perm {
		if ki >= nStored {
			continue
		}
		bal := pick(r, 0, 1, 999999, 1000000, 10000000, 100000000, 1000000000, int64(r.Intn(50000000)))
		if ki == NKeys-1 && i >= nv && r.Intn(3) == 0 {
			// a whale: can afford a stake whose consensus power does not fit an int64
			fmt.Fprintf(&sb, " acc %s 10000000000000000000000000", hx(Keys[ki].Addr))
			continue
		}
		fmt.Fprintf(&sb, " acc %s %d", hx(Keys[ki].Addr), bal)
		if r.Intn(3) == 0 {
			fmt.Fprintf(&sb, " acc2 %s %d", hx(Keys[ki].Addr), pick(r, 1, 5, 1000, 1000000))
		}
		if i < nv {
			tok := ms + pick(r, 1, 1, 2, 999999, 1000000, 5000000, 1+int64(r.Intn(20000000)))
			j := 0 // ValidateGenesis refuses staked+jailed validators
			fmt.Fprintf(&sb, " val %s %d %d", hx(Keys[ki].Addr), tok, j)
		}
	}
	if f.replicaOn() && r.Intn(2) == 0 {
		// an exported genesis: signing infos and missed-block arrays of a chain that has been running
		// (for genesis validators and for addresses that are no validators any more)
		for _, ki := range r.Perm(NKeys)[:2+r.Intn(7)] {
			a := hx(Keys[ki].Addr)
			n := r.Intn(int(window) + 1)
			missed := 0
			var mb strings.Builder
			for i := 0; i < n; i++ {
				b := r.Intn(3) == 0
				if b {
					missed++
				}
				fmt.Fprintf(&mb, " mb %s %d %s", a, i, b01(b))
			}
			fmt.Fprintf(&sb, " si %s 0 %d %d 0 0%s", a, n%int(window), missed, mb.String())
		}
	}
	f.gen = genState{phase: 1, reliab: map[string]float64{}, maxBlocks: 8 + r.Intn(40)}
	if f.downtime() {
		f.gen.maxBlocks = int(window) + 20 + r.Intn(2*int(window))
	}
	for i := 0; i < NKeys; i++ {
		f.gen.reliab[hx(Keys[i].Addr)] = []float64{1, 1, 0.9, 0.5, 0.1, 0}[r.Intn(6)]
		if f.downtime() {
			f.gen.reliab[hx(Keys[i].Addr)] = []float64{1, 0.97, 0.9, 0.5, 0, 0}[i%6]
		}
	}
	return sb.String()
}

func sortedAddrs(m map[string]int64) []string {
	var l []string
	for a := range m {
		l = append(l, a)
	}
	sort.Strings(l)
	return l
}

func (f *Fam) genBegin(r *rand.Rand, s *Snapshot) string {
	h := f.height + 1
	dt := pick(r, 1, 1, 5, 60, 599, 600, 601, 3599, 3600, 3601, 7200) * sec
	if r.Intn(6) == 0 {
		dt += pick(r, -1, 1, 0)
	}
	now := f.now + dt
	if f.height == 0 {
		now = 1000 * sec
	}
	// a block whose time is one nanosecond before, exactly at, or one nanosecond after the end of a running jail term,
	// with an unjail request for that validator in it
	f.gen.unjailNow = -1
	if r.Intn(5) == 0 {
		for _, a := range sortedAddrs(mapKeys(s.Vals)) {
			v, si := s.Vals[a], s.Sign[a]
			if v.Jailed && v.Status != 0 && !si.Tomb && si.JailedUntil > f.now+1 {
				now = si.JailedUntil + pick(r, -1, -1, 0, 1)
				if ki, ok := keyByAddr[a]; ok {
					f.gen.unjailNow = ki
				}
				break
			}
		}
	}
	signers := map[string]int64{}
	if int(h-1) < len(f.tmHist) && h-1 >= 1 {
		signers = f.tmHist[h-1]
	}
	prop := ""
	cur := map[string]int64{}
	if int(h) < len(f.tmHist) {
		cur = f.tmHist[h]
	}
	if r.Intn(30) == 0 {
		prop = "" // a header without a proposer address
	} else if l := sortedAddrs(cur); len(l) > 0 && r.Intn(20) != 0 {
		prop = l[r.Intn(len(l))]
	} else {
		prop = hx(Keys[r.Intn(NKeys)].Addr)
		if r.Intn(3) == 0 {
			prop = strings.Repeat("ab", 20)
		}
	}
	var vs []string
	for _, a := range sortedAddrs(signers) {
		signed := 0
		if r.Float64() < f.gen.reliab[a] {
			signed = 1
		}
		if v, ok := s.Vals[a]; ok && v.Status == 1 && r.Intn(5) != 0 {
			signed = 0 // a validator that has begun to unstake mostly stops signing: its last votes are misses
		}
		pw := signers[a]
		if r.Intn(40) == 0 {
			// the power the consensus engine reports for a vote is whatever it says: far beyond the validator's own
			pw = pick(r, 9223372036855, 4611686018427387904, 9223372036854775807)
		}
		vs = append(vs, fmt.Sprintf("%s:%d:%d", a, pw, signed))
	}
	v := "-"
	if len(vs) > 0 {
		v = strings.Join(vs, ",")
	}
	e := "-"
	evRate := 12
	if f.downtime() {
		evRate = 150 // convictions would empty the validator set long before the windows fill
	}
	if r.Intn(evRate) == 0 && len(s.Vals) > 0 {
		var l []string
		for a := range s.Vals {
			l = append(l, a)
		}
		sort.Strings(l)
		a := l[r.Intn(len(l))]
		if r.Intn(8) != 0 { // mostly evidence Tendermint could really send: a live, not yet convicted validator
			var live []string
			for _, x := range l {
				if s.Vals[x].Status != 0 && !s.Sign[x].Tomb {
					live = append(live, x)
				}
			}
			if len(live) == 0 {
				return fmt.Sprintf("begin t=%d p=%s v=%s e=-", now, prop, v)
			}
			a = live[r.Intn(len(live))]
			// every third time a validator that is already jailed (for downtime, or by a burn) when the evidence arrives
			if r.Intn(3) == 0 {
				var jl []string
				for _, x := range live {
					if s.Vals[x].Jailed {
						jl = append(jl, x)
					}
				}
				if len(jl) > 0 {
					a = jl[r.Intn(len(jl))]
				}
			}
		}
		mea := f.mea
		age := pick(r, 0, 1*sec, mea-1, mea, mea+1, 10*mea)
		pw := int64(1)
		if q := s.Vals[a].Tokens.Quo(sdk.NewInt(1000000)); q.IsInt64() {
			pw = q.Int64()
		}
		if r.Intn(4) == 0 {
			pw = pick(r, 0, 1, pw+5, pw/2, 9223372036855, 4611686018427387904)
		}
		e = fmt.Sprintf("%s:%d:%d:%d", a, maxi(h-1-int64(r.Intn(3)), 1), now-age, pw)
		// now and then evidence against two or three validators in one block (they are dealt with in the order given)
		if r.Intn(3) == 0 {
			var live []string
			for _, x := range l {
				if x != a && s.Vals[x].Status != 0 && !s.Sign[x].Tomb {
					live = append(live, x)
				}
			}
			r.Shuffle(len(live), func(i, j int) { live[i], live[j] = live[j], live[i] })
			for i := 0; i < len(live) && i < 1+r.Intn(2); i++ {
				p2 := int64(1)
				if q := s.Vals[live[i]].Tokens.Quo(sdk.NewInt(1000000)); q.IsInt64() {
					p2 = q.Int64()
				}
				e += fmt.Sprintf(",%s:%d:%d:%d", live[i], maxi(h-1, 1), now-pick(r, 0, 1*sec, mea-1), p2)
			}
		}
	}
	return fmt.Sprintf("begin t=%d p=%s v=%s e=%s", now, prop, v, e)
}

// capInt64: a required fee as a machine integer for the generator's arithmetic (a fee beyond 2^62 is out of anybody's reach)
func capInt64(x sdk.Int) int64 {
	if x.IsInt64() && x.Int64() < 1<<62 {
		return x.Int64()
	}
	return 1 << 62
}

func maxi(a, b int64) int64 {
	if a > b {
		return a
	}
	return b
}

func (f *Fam) genTx(r *rand.Rand, s *Snapshot) string {
	// replay of an earlier transaction, byte for byte (same entropy, same signature)
	if len(f.gen.past) > 0 && r.Intn(14) == 0 {
		old := f.gen.past[r.Intn(len(f.gen.past))]
		if r.Intn(3) == 0 { // a third of the replays: a transaction of a multisignature account, if there has been one
			var ms []string
			for _, p := range f.gen.past {
				if strings.Contains(p, " signer=1") && strings.Contains(p, "mut=none") {
					ms = append(ms, p)
				}
			}
			if len(ms) > 0 {
				old = ms[r.Intn(len(ms))]
			}
		}
		m := []string{"deliver", "deliver", "check", "simulate"}[r.Intn(4)]
		if m == "simulate" && strings.Contains(old, "mut=msg") {
			m = "deliver" // a simulation checks no signature: a changed message would simply be another message
		}
		if strings.Contains(old, " signer=1") && strings.Contains(old, "mut=none") && m != "simulate" && r.Intn(3) == 0 {
			// the transaction of a multisignature account again, its component signatures exchanged or the first one
			// repeated: the very signatures that verified before, now under the wrong components
			old = strings.Replace(old, "mut=none", []string{"mut=msswap", "mut=msdup"}[r.Intn(2)], 1)
		} else if strings.Contains(old, "mut=none") && m != "simulate" && r.Intn(4) == 0 {
			// a transaction seen before, its signature lengthened by a byte: other bytes, another hash, the same signer
			old = strings.Replace(old, "mut=none", "mut=siglong", 1)
		}
		return "tx " + m + " " + old
	}
	line := f.genTx1(r, s)
	if w := strings.SplitN(line, " ", 3); len(w) == 3 && len(f.gen.past) < 200 {
		f.gen.past = append(f.gen.past, w[2])
	}
	return line
}

func (f *Fam) genTx1(r *rand.Rand, s *Snapshot) string {
	mode := "deliver"
	switch r.Intn(12) {
	case 0:
		mode = "check"
	case 1:
		mode = "simulate"
	}
	if f.gen.unjailNow >= 0 && r.Intn(2) == 0 { // the unjail request this block's time was chosen for
		ki := f.gen.unjailNow
		req := capInt64(f.requiredFee(s, "unjail"))
		return fmt.Sprintf("tx deliver k=unjail signer=%d pk=1 fee=%d memo=0 ent=%d mut=none addr=%s", ki, req, r.Int63n(1<<40), hx(Keys[ki].Addr))
	}
	ki := r.Intn(NKeys)
	// bias the acting key towards one whose state makes the message meaningful
	want := r.Intn(100)
	var cands []int
	for i := 0; i < NKeys; i++ {
		v, ok := s.Vals[hx(Keys[i].Addr)]
		switch {
		case want < 12 && ok && v.Jailed && v.Status != 0: // unjail candidates
			cands = append(cands, i)
		case want >= 12 && want < 25 && ok && v.Status == 2: // unstake candidates
			cands = append(cands, i)
		case want >= 25 && want < 40 && (!ok || v.Status == 0): // stake candidates
			cands = append(cands, i)
		}
	}
	if want >= 12 && want < 17 { // a third of the begin-unstake requests come from jailed validators, if there are any
		var jl []int
		for _, i := range cands {
			if s.Vals[hx(Keys[i].Addr)].Jailed {
				jl = append(jl, i)
			}
		}
		if len(jl) > 0 {
			cands = jl
		}
	}
	forced := ""
	if len(cands) > 0 {
		ki = cands[r.Intn(len(cands))]
		forced = []string{"unjail", "unstake", "stake"}[map[bool]int{true: 0, false: 1}[want < 12]+map[bool]int{true: 1, false: 0}[want >= 25]]
	}
	multi := false
	if forced == "" && r.Intn(8) == 0 {
		// a multisignature account acts; it never stakes (a consensus key cannot be a multisignature key)
		ki = NKeys + r.Intn(NAll-NKeys)
		multi = true
	}
	addr := hx(Keys[ki].Addr)
	other := hx(Keys[r.Intn(NAll)].Addr)
	bal := balOf(s, addr, Denom)
	ms := f.minStake
	amtNear := func(x sdk.Int) sdk.Int {
		switch r.Intn(6) {
		case 0:
			return x.SubRaw(1)
		case 1:
			return x.AddRaw(1)
		default:
			return x
		}
	}
	var kind, fields string
	signer := ki
	x := r.Intn(100)
	switch forced {
	case "stake":
		x = 0
	case "unstake":
		x = 30
	case "unjail":
		x = 45
	}
	handOver := false
	if forced == "" && f.gen.afterHandOver > 0 {
		f.gen.afterHandOver--
		handOver = true
		x = 75 + r.Intn(25) // a governance message right after the hand-over
	}
	// governance messages come mostly from the accounts that may issue them
	if x >= 75 && (handOver || r.Intn(3) != 0) {
		var acl, dao string
		govOwner(s, &acl, &dao)
		// after a hand-over in this very block the dismissed owner tries again before the block ends
		if f.gen.aclAtBegin != "" && f.gen.aclAtBegin != acl && (handOver || r.Intn(2) == 0) {
			acl = f.gen.aclAtBegin
			f.extra["c17:former-list-owner-acts-in-the-block-of-the-hand-over"]++
		}
		if f.gen.daoAtBegin != "" && f.gen.daoAtBegin != dao && (handOver || r.Intn(2) == 0) {
			dao = f.gen.daoAtBegin
			f.extra["c17:former-dao-owner-acts-in-the-block-of-the-hand-over"]++
		}
		who := acl
		if x >= 85 && x < 98 {
			who = dao
			if dao == "" { // an ownerless DAO: the one who may name its owner tries to act as the owner
				var cur govTypes.ACL
				govTypes.ModuleCdc.UnmarshalJSON([]byte(s.Params["gov/acl"]), &cur)
				if o := cur.GetOwner("gov/daoOwner"); o != nil {
					who = hx(o)
				}
			}
		}
		if i, ok := keyByAddr[who]; ok {
			ki, addr, signer = i, who, i
			bal = balOf(s, addr, Denom)
		}
	}
	if multi && x < 25 {
		x = 52 + r.Intn(23)
	}
	switch {
	case x < 25:
		kind = "stake"
		amt := sdk.NewInt(pick(r, ms, ms, ms+1, ms-1, 2*ms, ms+int64(r.Intn(3000000)), 1, 0))
		if r.Intn(5) == 0 {
			amt = amtNear(bal.SubRaw(pick(r, 0, f.feeBase)))
		}
		if bal.GT(sdk.NewInt(1).MulRaw(1000000000000000000)) && r.Intn(2) == 0 {
			// power 2^63 (or one less): the handler moves the coins and then panics on the power key
			amt = mustInt("9223372036854775808000000")
			if r.Intn(3) == 0 {
				amt = mustInt("9223372036854775807999999")
			}
		}
		fields = fmt.Sprintf("key=%d amt=%s", ki, amt)
	case x < 40:
		kind = "unstake"
		fields = "addr=" + addr
	case x < 52:
		kind = "unjail"
		fields = "addr=" + addr
	case x < 75:
		kind = "send"
		amt := sdk.NewInt(pick(r, 1, 1000, 1000000, int64(r.Intn(5000000)), 0))
		if r.Intn(4) == 0 {
			amt = amtNear(bal.SubRaw(pick(r, 0, f.feeBase)))
		}
		to := other
		if r.Intn(25) == 0 {
			to = []string{poolAddr, daoAddr, strings.Repeat("cd", 20), feeAddr, posAddr}[r.Intn(5)]
		}
		if f.height <= 1 && r.Intn(3) == 0 {
			// in the first block the fee collector and the pos module have not used their accounts yet: coins sent to
			// their addresses now are what those module accounts must later be built around
			to = []string{feeAddr, posAddr}[r.Intn(2)]
		}
		fields = fmt.Sprintf("from=%s to=%s amt=%s", addr, to, amt)
	case x < 85:
		kind = "changeparam"
		keys := []string{"pos/MaxValidators", "pos/SignedBlocksWindow", "pos/StakeMinimum", "pos/UnstakingTime", "auth/MaxMemoCharacters", "gov/daoOwner", "pos/Nope", "nosuch/Key", "pos/MinSignedPerWindow", "gov/acl", "gov/acl", "gov/acl",
			"pos/DowntimeJailDuration", "pos/MaxEvidenceAge", "pos/SlashFractionDoubleSign", "pos/SlashFractionDowntime", "gov/upgrade", "auth/TxSigLimit", "auth/FeeMultipliers"}
		key := keys[r.Intn(len(keys))]
		// the sender is mostly the address the access-control list names for this key (ownership is handed over per key)
		var curACL govTypes.ACL
		govTypes.ModuleCdc.UnmarshalJSON([]byte(s.Params["gov/acl"]), &curACL)
		// a parameter the list has lost its entry for belongs to nobody: every other time such a key is the target, and
		// the sender is then mostly the one who would be the obvious stand-in, the owner of the list itself
		var unlisted []string
		for _, n := range AllParamNames() {
			if curACL.GetOwner(n) == nil {
				unlisted = append(unlisted, n)
			}
		}
		if len(unlisted) > 0 && r.Intn(2) == 0 {
			key = unlisted[r.Intn(len(unlisted))]
		}
		if o := curACL.GetOwner(key); o != nil && r.Intn(4) != 0 {
			if i, ok := keyByAddr[hx(o)]; ok {
				ki, addr, signer = i, hx(o), i
			}
		} else if o == nil && r.Intn(4) != 0 {
			if lo := curACL.GetOwner("gov/acl"); lo != nil {
				if i, ok := keyByAddr[hx(lo)]; ok {
					ki, addr, signer = i, hx(lo), i
				}
			}
		}
		val := ""
		switch key {
		case "pos/MaxValidators":
			val = fmt.Sprintf(`"%d"`, pick(r, 1, 2, 3, 5, 100000))
		case "pos/SignedBlocksWindow":
			val = fmt.Sprintf(`"%d"`, pick(r, 1, 2, 3, 5, 10))
		case "pos/StakeMinimum":
			val = fmt.Sprintf(`"%d"`, pick(r, 1000000, 2000000))
		case "pos/UnstakingTime":
			val = fmt.Sprintf(`"%d"`, pick(r, 60, 3600)*sec)
		case "auth/MaxMemoCharacters":
			val = fmt.Sprintf(`"%d"`, pick(r, 10, 256))
		case "gov/daoOwner":
			val = fmt.Sprintf(`"%s"`, other)
			if r.Intn(4) == 0 {
				val = `""` // nobody owns the DAO any more
			}
		case "gov/acl":
			// hand one key over to another owner, or drop it: the full new list goes to both sides as JSON
			names := AllParamNames()
			k := names[r.Intn(len(names))]
			newOwner := Keys[r.Intn(NKeys)].Addr
			na := govTypes.ACL{}
			drop := r.Intn(3) == 0 // a new list that simply omits the key: nobody owns it any more
			for _, pair := range curACL {
				if drop && pair.Key == k {
					continue
				}
				na.SetOwner(pair.Key, pair.Addr)
			}
			if !drop {
				na.SetOwner(k, newOwner)
			}
			bz, _ := govTypes.ModuleCdc.MarshalJSON(na)
			val = string(bz)
		case "auth/FeeMultipliers": // a multiplier per message type (an unsorted list, a type named twice), and the default
			names := []string{"send", "stake_validator", "unjail", "begin_unstaking_validator", "change_param", "dao_tranfer", "upgrade", "nosuchtype"}
			r.Shuffle(len(names), func(i, j int) { names[i], names[j] = names[j], names[i] })
			var ents []string
			for _, n := range names[:r.Intn(5)] {
				ents = append(ents, fmt.Sprintf(`{"key":"%s","multiplier":"%d"}`, n, pick(r, 0, 1, 2, 5, 1000000000000000)))
			}
			if len(ents) > 1 && r.Intn(4) == 0 {
				ents = append(ents, ents[0][:strings.Index(ents[0], `"multiplier"`)]+`"multiplier":"3"}`) // the same type again: the first entry counts
			}
			list := "null"
			if len(ents) > 0 {
				list = "[" + strings.Join(ents, ",") + "]"
			}
			val = fmt.Sprintf(`{"fee_multiplier":%s,"default":"%d"}`, list, pick(r, 1, 1, 1, 2, 0))
		case "auth/TxSigLimit": // the two multisignature keys count 3 and 5 keys
			val = fmt.Sprintf(`"%d"`, pick(r, 0, 1, 2, 3, 4, 5, 6, 7))
		case "pos/DowntimeJailDuration":
			val = fmt.Sprintf(`"%d"`, pick(r, 1, 60*sec, 3600*sec))
		case "pos/MaxEvidenceAge":
			val = fmt.Sprintf(`"%d"`, pick(r, 60*sec, 600*sec, 86400*sec))
		case "pos/SlashFractionDoubleSign", "pos/SlashFractionDowntime":
			val = []string{`"0.000000000000000000"`, `"0.010000000000000000"`, `"0.500000000000000000"`, `"1.000000000000000000"`, `"0.333333333333333333"`}[r.Intn(5)]
		case "gov/upgrade":
			// the plan set as a plain parameter (the upgrade message is the other way); heights stay out of reach
			val = fmt.Sprintf(`{"type":"gov/upgrade","value":{"Height":"%d","Version":"%s"}}`, pick(r, 0, 6000000, 7000000), []string{"", "2.1", "3.0"}[r.Intn(3)])
		case "pos/MinSignedPerWindow":
			val = `"0.500000000000000000"`
		default:
			val = `"1"`
		}
		if r.Intn(6) == 0 {
			val = []string{`{`, `"abc"`, `[1]`, ``}[r.Intn(4)]
		}
		// only MaxValidators / daoOwner changes are tracked by the model; others are kept out of
		// the modelled profile unless the generator is in the gov profile
		fields = fmt.Sprintf("from=%s key=%s val=%s", addr, key, hex.EncodeToString([]byte(val)))
		if val == "" {
			fields = fmt.Sprintf("from=%s key=%s val=", addr, key)
		}
	case x < 93:
		kind = "daotransfer"
		fields = fmt.Sprintf("from=%s to=%s amt=%d", addr, other, pick(r, 1, 100, 1000, 50000000, 50000001, 0))
	case x < 98:
		kind = "daoburn"
		fields = fmt.Sprintf("from=%s amt=%d", addr, pick(r, 1, 100, 1000, 50000000, 50000001))
		if r.Intn(2) == 0 { // a burn that names a recipient: the handler ignores it, the signature covers it
			fields += " to=" + other
		}
	default:
		kind = "upgrade"
		{
			// when nobody owns the upgrade plan any more, the owner of the list tries
			var curACL govTypes.ACL
			govTypes.ModuleCdc.UnmarshalJSON([]byte(s.Params["gov/acl"]), &curACL)
			if curACL.GetOwner("gov/upgrade") == nil && r.Intn(3) != 0 {
				if lo := curACL.GetOwner("gov/acl"); lo != nil {
					if i, ok := keyByAddr[hx(lo)]; ok {
						ki, addr, signer = i, hx(lo), i
					}
				}
			}
		}
		// an upgrade height the chain will not reach: at that height the gov module's BeginBlock stops the process
		// for the upgrade (by design), which is not a behaviour the line protocol can observe
		// (every fourth such height lies beyond 2^53, where a height that travelled through a float64 loses its last bits)
		fields = fmt.Sprintf("from=%s h=%d ver=%s", addr, pick(r, 0, 1000000, 5000000, int64(1)<<53+4*int64(r.Intn(1000))), []string{"1.0", "2.0"}[r.Intn(2)])
		if r.Intn(3) == 0 {
			// a plan for a version the node already runs (no stop), at a height the chain is about to reach: the plan
			// stays what it is when that height comes and goes
			fields = fmt.Sprintf("from=%s h=%d ver=%s", addr, f.height+pick(r, 1, 1, 2, 3), []string{"0.0.1", "0.0.0"}[r.Intn(2)])
		}
	}
	// who signs: usually the declared signer; sometimes another key (attack)
	if r.Intn(25) == 0 {
		signer = r.Intn(NAll)
	}
	req := capInt64(f.requiredFee(s, kind))
	fee := pick(r, req, req, req, req, req, req, req+1, req*2, 0, req-1)
	if fee < 0 {
		fee = 0
	}
	mut := "none"
	if r.Intn(16) == 0 {
		mut = []string{"sig", "fee", "memo", "ent", "emptysig", "trunc", "garbage", "msswap", "msdrop", "memosp", "memopre", "msg", "chain", "nilint", "msdup", "siglong", "siglong"}[r.Intn(17)]
	}
	// a signed field of the message changed after signing: every field of every message type in turn, and more often
	// for the governance messages, whose senders are mostly the accounts that may issue them
	if (mut == "none" && r.Intn(40) == 0) || (mut == "none" && x >= 75 && r.Intn(8) == 0) {
		mut = "msg"
	}
	bigH := kind == "upgrade" && strings.Contains(fields, " h=90071992")
	if bigH && r.Intn(2) == 0 {
		mut = "msg" // the height changed by one after signing, where neighbouring heights are one float64
	}
	if mut == "msg" && mode == "simulate" {
		mut = "memosp" // a simulation checks no signature: a changed message would simply be another message
	}
	if mut == "msg" {
		var mfs []string
		switch kind {
		case "send":
			mfs = []string{"to", "amt"}
		case "daotransfer":
			mfs = []string{"to", "amt", "action"}
		case "daoburn":
			mfs = []string{"to", "amt", "action"}
			if strings.Contains(fields, " to=") {
				mfs = append(mfs, "toempty", "toempty")
			}
		case "upgrade":
			mfs = []string{"h", "ver"}
			if bigH {
				mfs = []string{"h"}
				f.extra["c03:upgrade-height-beyond-2^53-changed-after-signing"]++
			}
		case "changeparam":
			mfs = []string{"key", "val"}
		}
		if len(mfs) > 0 {
			fields += " mf=" + mfs[r.Intn(len(mfs))]
		}
	}
	pk := 1
	if r.Intn(5) == 0 {
		pk = 0
	}
	memo := 0
	if r.Intn(8) == 0 {
		memo = int(pick(r, 1, 10, 11, 256, 257))
	}
	fee2 := ""
	if v := balOf(s, addr, Denom2); v.IsPositive() && r.Intn(3) == 0 {
		// part of the fee in the other denomination: it must not count towards the required fee (C03), vanish (C02),
		// or get lost on the way to the proposer (C10)
		amt := int64(1)
		if v.GT(sdk.NewInt(3)) && r.Intn(2) == 0 {
			amt = 3
		}
		if r.Intn(8) == 0 { // more than the signer holds: refused, whatever the staking-coin part
			amt = v.Int64() + 1 + int64(r.Intn(3))
		}
		fee2 = fmt.Sprintf(" fee2=%d", amt)
		if r.Intn(3) == 0 {
			fee = pick(r, 0, req-1, 1) // ... offered INSTEAD of enough of the staking denomination
			if fee < 0 {
				fee = 0
			}
		}
	}
	return fmt.Sprintf("tx %s k=%s signer=%d pk=%d fee=%d memo=%d ent=%d mut=%s %s%s", mode, kind, signer, pk, fee, memo, r.Int63n(1<<40), mut, fields, fee2)
}

func (f *Fam) Gen(r *rand.Rand, i int) string {
	if f.dead || f.app == nil || f.gen.phase == 0 || f.gen.blocks > f.gen.maxBlocks {
		return f.genInit(r)
	}
	s := f.app.Snap()
	switch f.gen.phase {
	case 1:
		f.gen.phase = 2
		f.gen.txsLeft = int(pick(r, 0, 1, 2, 3, 5, 8))
		if f.downtime() {
			f.gen.txsLeft = int(pick(r, 0, 0, 0, 0, 0, 1, 1, 2))
		}
		f.gen.aclAtBegin, f.gen.daoAtBegin, f.gen.afterHandOver = "", "", 0
		govOwner(s, &f.gen.aclAtBegin, &f.gen.daoAtBegin)
		return f.genBegin(r, s)
	case 2:
		if f.gen.txsLeft <= 0 {
			f.gen.phase = 4
			return "end"
		}
		f.gen.txsLeft--
		if r.Intn(20) == 0 || (f.gen.afterParamChange && r.Intn(2) == 0) {
			f.gen.afterParamChange = false
			return "mon.query" // queries arrive while a block is being executed, too - also right after a parameter change
		}
		f.gen.afterParamChange = false
		if r.Intn(12) == 0 {
			a := hx(Keys[r.Intn(NKeys)].Addr)
			if r.Intn(5) == 0 {
				// another module rewards a module account - the fee collector, the DAO - also before that account was first used
				a = []string{feeAddr, daoAddr}[r.Intn(2)]
				f.extra["c04:award-to-a-module-account"]++
			}
			if r.Intn(60) == 0 {
				return fmt.Sprintf("award %s -5", a) // BeginBlock will panic on it
			}
			return fmt.Sprintf("award %s %d", a, pick(r, 1, 1000, 1000000, 0))
		}
		if r.Intn(14) == 0 && len(s.Vals) > 0 {
			var l []string
			for a := range s.Vals {
				l = append(l, a)
			}
			sort.Strings(l)
			return fmt.Sprintf("burn %s %d", l[r.Intn(len(l))], pick(r, 10000000000000000, 500000000000000000, 1000000000000000000, 1500000000000000000, 600000000000000000, 1, 0))
		}
		line := f.genTx(r, s)
		f.gen.afterParamChange = strings.HasPrefix(line, "tx deliver k=changeparam")
		if f.gen.afterParamChange && f.gen.txsLeft == 0 {
			f.gen.txsLeft = 1 // room for the query
		}
		if f.gen.afterParamChange && (strings.Contains(line, "gov/acl") || strings.Contains(line, "gov/daoOwner")) {
			f.gen.txsLeft += 3 // room for the old and the new owner to act before the block ends
			f.gen.afterHandOver = 2
		}
		return line
	case 4:
		f.gen.phase = 1
		f.gen.blocks++
		if r.Intn(40) == 0 {
			f.gen.phase = 7
		} else if r.Intn(12) == 0 {
			f.gen.phase = 6 // between two blocks: store queries through the ABCI interface
		} else {
			// between two blocks: export the state and restart two fresh instances from it - mostly when the import
			// will accept the export (genesis validation refuses unstaked records, jailed staked validators and
			// stakes below the default minimum) and more than one validator has a previous-state power
			importable := len(s.Prev) >= 2
			jailedUnstaking := false // the one kind of jailed validator an import accepts
			for _, v := range s.Vals {
				if v.Status == 0 || (v.Jailed && v.Status == 2) || v.Tokens.LT(sdk.NewInt(1000000)) {
					importable = false
				}
				if v.Jailed && v.Status == 1 {
					jailedUnstaking = true
				}
			}
			if jailedUnstaking && r.Intn(2) == 0 { // the pos part alone is importable whatever the other validators look like
				f.gen.phase = 5
			}
			often := 3
			if !strings.HasPrefix(f.Profile, "replica") {
				often = 8 // the other profiles export too, less often
			}
			if (importable && r.Intn(often) == 0) || r.Intn(40*often/3) == 0 {
				f.gen.phase = 5
			}
		}
		return "commit"
	case 5:
		f.gen.phase = 1
		return "mon.export"
	case 6:
		f.gen.phase = 1
		return "mon.query"
	case 7:
		f.gen.phase = 1
		return fmt.Sprintf("mon.glue %d", r.Int63())
	}
	return f.genInit(r)
}

// govOwner reads the ACL owner (of every key, as set at genesis) and the DAO owner from the state.
func govOwner(s *Snapshot, acl, dao *string) {
	var a govTypes.ACL
	govTypes.ModuleCdc.UnmarshalJSON([]byte(s.Params["gov/acl"]), &a)
	if len(a) > 0 {
		*acl = hx(a[0].Addr)
	}
	var o sdk.Address
	govTypes.ModuleCdc.UnmarshalJSON([]byte(s.Params["gov/daoOwner"]), &o)
	*dao = hx(o)
}

func mapKeys(m map[string]ValRec) map[string]int64 {
	r := map[string]int64{}
	for k := range m {
		r[k] = 0
	}
	return r
}
