package chain

import (
	"encoding/json"
	"fmt"
	"strings"
	"time"

	abci "github.com/tendermint/tendermint/abci/types"
	"github.com/tendermint/tendermint/crypto/ed25519"
	tmtypes "github.com/tendermint/tendermint/types"
	dbm "github.com/tendermint/tm-db"

	stypes "github.com/pokt-network/posmint/store/types"
	sdk "github.com/pokt-network/posmint/types"
	authTypes "github.com/pokt-network/posmint/x/auth/types"
	govTypes "github.com/pokt-network/posmint/x/gov/types"
	posTypes "github.com/pokt-network/posmint/x/pos/types"
)

// monExport (C01, implementation side): the committed state is exported with the modules' own ExportGenesis and fed
// as the genesis of two fresh instances (own databases, different pruning). Two nodes restarting a chain from the
// same export must answer InitChain identically - the validator updates in the same order - and reach the same app
// hash after a first block. The exporting instance is not touched.
func (f *Fam) monExport(fail func(string, string, string)) {
	if f.inBlock || f.dead || f.app == nil {
		return
	}
	// the gov module ends the process when the imported access-control list leaves a parameter without an owner
	// (a list from which governance dropped a key): such a state is not offered for import
	{
		var acl govTypes.ACL
		govTypes.ModuleCdc.UnmarshalJSON([]byte(f.app.Snap().Params["gov/acl"]), &acl)
		adj := map[string]bool{}
		for _, n := range AllParamNames() {
			adj[n] = false
		}
		if acl.Validate(adj) != nil {
			f.extra["c01:export-skipped-acl-incomplete"]++
			return
		}
	}
	// ... and the auth module ends the process (log.Fatal) when the imported fee multipliers name a message type twice,
	// which governance can bring about too
	{
		var fm authTypes.FeeMultipliers
		authTypes.ModuleCdc.UnmarshalJSON([]byte(f.app.Snap().Params["auth/FeeMultipliers"]), &fm)
		seen := map[string]bool{}
		for _, e := range fm.FeeMultis {
			if seen[e.Key] {
				f.extra["c01:export-skipped-duplicate-fee-multiplier"]++
				return
			}
			seen[e.Key] = true
		}
	}
	type outcome struct {
		init, begin, end, hash, state string
		vals                          map[string]ValRec // the validator records right after the import
	}
	run := func(pr stypes.PruningOptions) (o outcome) {
		defer func() {
			if e := recover(); e != nil {
				o.init += fmt.Sprintf(" PANIC: %.300v", e)
			}
		}()
		gen := f.app.MM.ExportGenesis(f.app.Ctx())
		// genesis validation refuses the small windows and short durations the histories run with: the import runs
		// with the default parameters and gets the exported ones straight afterwards (as the first InitChain did)
		var pg posTypes.GenesisState
		posTypes.ModuleCdc.MustUnmarshalJSON(gen[posTypes.ModuleName], &pg)
		real := pg.Params
		pg.Params = posTypes.DefaultParams()
		pg.Params.StakeDenom = real.StakeDenom
		gen[posTypes.ModuleName] = posTypes.ModuleCdc.MustMarshalJSON(pg)
		if len(pg.PrevStateValidatorPowers) >= 2 {
			f.extra["c01:export-with-2+-previous-powers"]++
		}
		a := NewApp(dbm.NewMemDB(), "tcp://127.0.0.1:1", pr)
		a.Genesis = gen
		res := a.InitChain(abci.RequestInitChain{ChainId: ChainID, Time: time.Unix(0, 0).UTC(),
			ConsensusParams: &abci.ConsensusParams{Validator: &abci.ValidatorParams{PubKeyTypes: []string{tmtypes.ABCIPubKeyTypeEd25519}}}})
		a.Pos.SetParams(a.Ctx(), real)
		o.vals = a.Snap().Vals
		o.init = "ups=" + upsStr(res.Validators)
		req := abci.RequestBeginBlock{Header: abci.Header{ChainID: ChainID, Height: 1, Time: time.Unix(0, f.now+1).UTC()}}
		for _, u := range res.Validators { // everybody in the returned set signs the first block
			var pk ed25519.PubKeyEd25519
			copy(pk[:], u.PubKey.Data)
			req.LastCommitInfo.Votes = append(req.LastCommitInfo.Votes, abci.VoteInfo{
				Validator: abci.Validator{Address: pk.Address(), Power: u.Power}, SignedLastBlock: true})
			if req.Header.ProposerAddress == nil {
				req.Header.ProposerAddress = pk.Address()
			}
		}
		o.begin = eventsStr(a.BeginBlock(req).Events)
		e := a.EndBlock(abci.RequestEndBlock{Height: 1})
		o.end = "ups=" + upsStr(e.ValidatorUpdates) + " " + eventsStr(e.Events)
		o.hash = fmt.Sprintf("%x", a.Commit().Data)
		o.state = a.Snap().String()
		return
	}
	// C09 and the records themselves: the pos part of the export - the validators an import accepts (no unstaked
	// records, no jailed staked validator, nobody below the default minimum) - imported into a fresh instance with an
	// empty bank (which is what lets unstaking validators through: the pool is then built from the records): every
	// record arrives as it left, a jailed validator still jailed
	func() {
		defer func() {
			if e := recover(); e != nil {
				f.extra["c09:pos-import-refused"]++
			}
		}()
		gen := f.app.MM.ExportGenesis(f.app.Ctx())
		var pg posTypes.GenesisState
		posTypes.ModuleCdc.MustUnmarshalJSON(gen[posTypes.ModuleName], &pg)
		real := pg.Params
		pg.Params = posTypes.DefaultParams()
		pg.Params.StakeDenom = real.StakeDenom
		kept := map[string]bool{}
		var vals []posTypes.Validator
		for _, v := range pg.Validators {
			if v.IsUnstaked() || (v.Jailed && v.IsStaked()) || v.StakedTokens.LTE(sdk.NewInt(posTypes.DefaultMinStake)) {
				continue
			}
			vals = append(vals, v)
			kept[hx(v.Address)] = true
		}
		if len(vals) == 0 {
			return
		}
		pg.Validators = vals
		var prev []posTypes.PrevStatePowerMapping
		for _, m := range pg.PrevStateValidatorPowers {
			if kept[hx(m.Address)] {
				prev = append(prev, m)
			}
		}
		pg.PrevStateValidatorPowers = prev
		a := NewApp(dbm.NewMemDB(), "tcp://127.0.0.1:1", stypes.PruneNothing)
		a.Genesis = map[string]json.RawMessage{
			authTypes.ModuleName: a.Cdc.MustMarshalJSON(authTypes.DefaultGenesisState()),
			posTypes.ModuleName:  posTypes.ModuleCdc.MustMarshalJSON(pg),
			govTypes.ModuleName:  gen[govTypes.ModuleName],
		}
		a.InitChain(abci.RequestInitChain{ChainId: ChainID, Time: time.Unix(0, 0).UTC(),
			ConsensusParams: &abci.ConsensusParams{Validator: &abci.ValidatorParams{PubKeyTypes: []string{tmtypes.ABCIPubKeyTypeEd25519}}}})
		got := a.Snap().Vals
		f.extra["c09:pos-import-checked"]++
		for addr, v := range f.app.Snap().Vals {
			if !kept[addr] {
				continue
			}
			if v.Jailed {
				f.extra["c09:pos-import-of-a-jailed-validator"]++
			}
			w, ok := got[addr]
			switch {
			case !ok:
				fail("export-import", "C09:validator-lost-on-import", fmt.Sprintf("validator %s of the exported state is missing after the import", addr))
			case v.Jailed && !w.Jailed:
				fail("export-import", "C09:unjailed-by-export-import", fmt.Sprintf("validator %s is jailed in the exported state and not jailed after the import (status %d, no unjail request)", addr, w.Status))
			case v.Jailed != w.Jailed || v.Status != w.Status || !v.Tokens.Equal(w.Tokens) || v.Unstake != w.Unstake:
				fail("export-import", "C09:validator-changed-by-export-import", fmt.Sprintf("validator %s: exported %+v, imported %+v", addr, v, w))
			}
		}
	}()
	x := run(stypes.PruneNothing)
	y := run(stypes.PruneSyncable)
	f.extra["c01:export-import-checked"]++
	if strings.Contains(x.init, "PANIC") {
		f.extra["c01:export-import-refused:"+clip(x.init)]++
	} else if strings.Count(x.init, ":") >= 2 {
		f.extra["c01:export-import-with-2+-validators"]++
	}
	// C09: nobody is unjailed by an export and import of the state (and no record changes on the way)
	if !strings.Contains(x.init, "PANIC") && x.vals != nil {
		for a, v := range f.app.Snap().Vals {
			w, ok := x.vals[a]
			switch {
			case !ok:
				fail("export-import", "C09:validator-lost-on-import", fmt.Sprintf("validator %s of the exported state is missing after the import", a))
			case v.Jailed && !w.Jailed:
				fail("export-import", "C09:unjailed-by-export-import", fmt.Sprintf("validator %s is jailed in the exported state and not jailed after the import (status %d, no unjail request)", a, w.Status))
			case v.Jailed != w.Jailed || v.Status != w.Status || !v.Tokens.Equal(w.Tokens) || v.Unstake != w.Unstake:
				fail("export-import", "C09:validator-changed-by-export-import", fmt.Sprintf("validator %s: exported %+v, imported %+v", a, v, w))
			}
		}
	}
	switch {
	case x.init != y.init:
		fail("export-import", "C01:import-response-differs", fmt.Sprintf("two instances initialised from the same exported genesis answer InitChain differently: %.300s vs %.300s", x.init, y.init))
	case x.begin != y.begin || x.end != y.end:
		fail("export-import", "C01:import-response-differs", fmt.Sprintf("two instances initialised from the same exported genesis answer the first block differently: %.200s %.200s vs %.200s %.200s", x.begin, x.end, y.begin, y.end))
	case x.hash != y.hash:
		fail("export-import", "C01:import-apphash-differs", fmt.Sprintf("two instances initialised from the same exported genesis reach different app hashes: %s vs %s", x.hash, y.hash))
	case x.state != y.state:
		fail("export-import", "C01:import-state-differs", "two instances initialised from the same exported genesis hold different states after the first block")
	}
}
