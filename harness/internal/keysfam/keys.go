// Package keysfam: family "keys" (C19): real ed25519 / secp256k1 / nested multisignature keys and
// the real in-memory keybase, compared with the Lean model over ideal primitives.
package keysfam

import (
	stded "crypto/ed25519"
	"bytes"
	"encoding/hex"
	"fmt"
	"math/rand"
	"os"
	"sort"
	"strconv"
	"strings"

	"github.com/tendermint/tendermint/crypto/ed25519"
	"github.com/tendermint/tendermint/crypto/secp256k1"

	"github.com/pokt-network/posmint/crypto"
	"github.com/pokt-network/posmint/crypto/keys"
	"github.com/pokt-network/posmint/crypto/keys/mintkey"
	sdk "github.com/pokt-network/posmint/types"
	"github.com/pokt-network/posmint/x/auth"

	"verif/harness/internal/common"
)

const nLeaf = 8

var leafs []crypto.PrivateKey

func init() {
	for i := 0; i < nLeaf; i++ {
		secret := []byte(fmt.Sprintf("verif-leaf-%d", i))
		if i%2 == 0 {
			leafs = append(leafs, crypto.Ed25519PrivateKey{}.PrivKeyToPrivateKey(ed25519.GenPrivKeyFromSecret(secret)))
		} else {
			leafs = append(leafs, crypto.Secp256k1PrivateKey{}.PrivKeyToPrivateKey(secp256k1.GenPrivKeySecp256k1(secret)))
		}
	}
}

type Fam struct {
	Profile string
	kb      keys.Keybase
	addrs   map[int]sdk.Address // key id -> address
	privs   map[int][64]byte
	armors  map[int]string
	pass    map[int]string // key id -> passphrase (hex) it is currently stored under, as the harness recorded it
	armPass map[int]string // export id -> passphrase it was encrypted with
	nextKey int
	nextArm int
	started bool
	extra   map[string]int
	dir     string // directory of the on-disk keybase (profile "lazy")
	script  []string
}

func New(profile string) *Fam { return &Fam{Profile: profile, extra: map[string]int{}} }
func (f *Fam) Extra() map[string]int { return f.extra }

// Cleanup removes the directory of the on-disk keybase
func (f *Fam) Cleanup() {
	if f.dir != "" {
		os.RemoveAll(f.dir)
	}
}

// ---------- multisig trees

type node struct {
	leaf int
	kids []*node
	kind byte // 'L','M' for keys; 's','S','g','e' for sigs
	msg  int
}

// Leaf: a plain key
func (n *node) Leaf() bool { return n.kind == 'L' }

// Count: the number of keys below this key, at any depth
func (n *node) Count() int {
	c := 0
	for _, k := range n.kids {
		c += 1 + k.Count()
	}
	return c
}

func genPK(r *rand.Rand, depth int) *node {
	if depth == 0 || r.Intn(3) != 0 {
		return &node{kind: 'L', leaf: r.Intn(nLeaf)}
	}
	n := &node{kind: 'M'}
	kids := 2 + r.Intn(3)
	if r.Intn(10) == 0 {
		kids = r.Intn(2) // degenerate keys that only a decoder can produce: no component, or a single one
	}
	for i := 0; i < kids; i++ {
		n.kids = append(n.kids, genPK(r, depth-1))
	}
	return n
}

// hasEmptyMulti: a multisignature key without components somewhere in the tree (it verifies nothing)
func hasEmptyMulti(k *node) bool {
	if k.kind == 'L' {
		return false
	}
	if len(k.kids) == 0 {
		return true
	}
	for _, c := range k.kids {
		if hasEmptyMulti(c) {
			return true
		}
	}
	return false
}

func signTree(k *node, msg int) *node {
	if k.kind == 'L' {
		return &node{kind: 's', leaf: k.leaf, msg: msg}
	}
	n := &node{kind: 'S'}
	for _, c := range k.kids {
		n.kids = append(n.kids, signTree(c, msg))
	}
	return n
}

func perturb(r *rand.Rand, s *node, msg int) {
	// pick a random node and damage it
	var all []*node
	var walk func(*node)
	walk = func(n *node) {
		all = append(all, n)
		for _, c := range n.kids {
			walk(c)
		}
	}
	walk(s)
	n := all[r.Intn(len(all))]
	switch r.Intn(8) {
	case 0:
		*n = node{kind: 'g'}
	case 1:
		*n = node{kind: 'e'}
	case 2:
		if n.kind == 's' {
			n.leaf = (n.leaf + 1 + r.Intn(nLeaf-1)) % nLeaf
		} else {
			*n = node{kind: 'g'}
		}
	case 3:
		if n.kind == 's' {
			n.msg = msg + 1
		}
	case 4:
		if len(n.kids) >= 2 { // swap two components
			i, j := r.Intn(len(n.kids)), r.Intn(len(n.kids))
			n.kids[i], n.kids[j] = n.kids[j], n.kids[i]
		}
	case 5:
		if len(n.kids) >= 1 { // drop (truncate)
			n.kids = n.kids[:len(n.kids)-1]
		}
	case 6:
		if len(n.kids) >= 1 { // duplicate one component over another
			n.kids = append(n.kids, n.kids[r.Intn(len(n.kids))])
		}
	case 7:
		if len(n.kids) >= 2 { // reverse
			for i, j := 0, len(n.kids)-1; i < j; i, j = i+1, j-1 {
				n.kids[i], n.kids[j] = n.kids[j], n.kids[i]
			}
		}
	}
}

func (n *node) String() string {
	switch n.kind {
	case 'L':
		return fmt.Sprintf("L%d", n.leaf)
	case 's':
		return fmt.Sprintf("s%d.%d", n.leaf, n.msg)
	case 'g':
		return "g"
	case 'e':
		return "e"
	}
	var p []string
	for _, c := range n.kids {
		p = append(p, c.String())
	}
	h := "M("
	if n.kind == 'S' {
		h = "S("
	}
	return h + strings.Join(p, ",") + ")"
}

func parseTree(s string) *node {
	pos := 0
	var parse func() *node
	num := func() int {
		st := pos
		for pos < len(s) && s[pos] >= '0' && s[pos] <= '9' {
			pos++
		}
		n, _ := strconv.Atoi(s[st:pos])
		return n
	}
	parse = func() *node {
		c := s[pos]
		pos++
		switch c {
		case 'L':
			return &node{kind: 'L', leaf: num()}
		case 's':
			n := &node{kind: 's', leaf: num()}
			pos++ // '.'
			n.msg = num()
			return n
		case 'g', 'e':
			return &node{kind: c}
		}
		n := &node{kind: c}
		pos++ // '('
		if s[pos] == ')' {
			pos++
			return n
		}
		for {
			n.kids = append(n.kids, parse())
			if s[pos] == ')' {
				pos++
				return n
			}
			pos++ // ','
		}
	}
	return parse()
}

func buildPK(n *node) crypto.PublicKey {
	if n.kind == 'L' {
		return leafs[n.leaf].PublicKey()
	}
	var ks []crypto.PublicKey
	for _, c := range n.kids {
		ks = append(ks, buildPK(c))
	}
	return crypto.PublicKeyMultiSignature{PublicKeys: ks}
}

func msgBytes(m int) []byte { return []byte(fmt.Sprintf("message-%d", m)) }

func buildSig(n *node, r *rand.Rand) []byte {
	switch n.kind {
	case 's':
		sig, _ := leafs[n.leaf].Sign(msgBytes(n.msg))
		return sig
	case 'g':
		b := make([]byte, 64)
		rnd := rand.New(rand.NewSource(int64(len(n.kids)) + 77))
		rnd.Read(b)
		return b
	case 'e':
		return []byte{}
	}
	ms := crypto.MultiSignature{}
	for _, c := range n.kids {
		ms.Sigs = append(ms.Sigs, buildSig(c, r))
	}
	return ms.Marshal()
}

// ---------- generation

// (the last four: passphrases longer than any fixed-size buffer a key-derivation shortcut might use, equal in their first 64
// bytes and different after)
var passes = []string{"-", "70617373", "c3a9c3a8e29c93", strings.Repeat("6c", 40), "70617374", "7061737320776f7264",
	strings.Repeat("61", 64), strings.Repeat("61", 64) + "62", strings.Repeat("61", 64) + "63", strings.Repeat("61", 100)}

func (f *Fam) Gen(r *rand.Rand, i int) string {
	if !f.started {
		f.started = true
		return "kb.new"
	}
	if len(f.script) > 0 { // a scenario under way
		op := f.script[0]
		f.script = f.script[1:]
		return op
	}
	kbWeight := 3 // keybase operations are slow (KDF): keep them a minority
	if f.Profile == "lazy" {
		kbWeight = 50
	}
	if r.Intn(100) >= kbWeight {
		pk := genPK(r, 3)
		msg := r.Intn(5)
		sg := signTree(pk, msg)
		if r.Intn(2) == 0 {
			perturb(r, sg, msg)
		}
		if r.Intn(12) == 0 { // a signature for an unrelated key tree
			sg = signTree(genPK(r, 2), msg)
		}
		if r.Intn(12) == 0 {
			// a private key from its raw bytes and back, both key types, scalars with leading and trailing zero bytes
			raw := make([]byte, 32)
			r.Read(raw)
			switch r.Intn(5) {
			case 0:
				raw[0] = 0
			case 1:
				raw[0], raw[1] = 0, 0
			case 2:
				raw[31] = 0
			case 3:
				for i := 0; i < 31; i++ {
					raw[i] = 0
				}
				raw[31] = byte(1 + r.Intn(255))
			}
			kt := []string{"ed25519", "secp256k1", "ed25519seed"}[r.Intn(3)]
			if r.Intn(3) == 0 {
				// a key whose own first bytes are the four bytes that announce its type's registered encoding: raw bytes are
				// raw bytes, whatever they look like
				var sample crypto.PrivateKey
				if kt == "secp256k1" {
					sample = crypto.Secp256k1PrivateKey{}.PrivKeyToPrivateKey(secp256k1.GenPrivKeySecp256k1([]byte{1}))
				} else {
					sample = crypto.Ed25519PrivateKey{}.PrivKeyToPrivateKey(ed25519.GenPrivKeyFromSecret([]byte{1}))
					kt = "ed25519seed"
				}
				copy(raw, sample.Bytes()[:4])
				f.extra["c19:raw-key-starting-with-its-type-prefix"]++
			}
			return fmt.Sprintf("mon.keybytes %s %s", kt, hex.EncodeToString(raw))
		}
		if r.Intn(15) == 0 {
			return fmt.Sprintf("mon.sigsplit %s %d", []string{"ed25519", "secp256k1"}[r.Intn(2)], r.Int63())
		}
		if r.Intn(300) == 0 { // rare: three key-derivation rounds each
			return fmt.Sprintf("mon.foreignkey %s %d", []string{"ed25519", "secp256k1"}[r.Intn(2)], r.Int63())
		}
		if r.Intn(6) == 0 { // the ante handler's signature-depth count on a multisignature key, limits around its size
			for pk.Leaf() {
				pk = genPK(r, 3)
			}
			n := pk.Count() // keys below the outer key
			return fmt.Sprintf("depth %d %s", []int{0, 1, n - 1, n, n + 1, n + 2, 7}[r.Intn(7)]+0, pk)
		}
		return fmt.Sprintf("ms %s %d %s", pk, msg, sg)
	}
	pass := func() string { return passes[r.Intn(len(passes))] }
	ids := make([]int, 0)
	for k := range f.addrs {
		ids = append(ids, k)
	}
	sort.Ints(ids)
	anyKey := func() int {
		if len(ids) == 0 || r.Intn(8) == 0 {
			return r.Intn(f.nextKey + 2)
		}
		return ids[r.Intn(len(ids))]
	}
	if r.Intn(6) == 0 {
		// the whole way round: a stored key is exported under a new passphrase (often the empty one), removed, and
		// imported again - with the export's passphrase, with the passphrase it was stored under, or with another one
		var have []int
		for _, k := range ids {
			if _, ok := f.pass[k]; ok {
				have = append(have, k)
			}
		}
		if len(have) > 0 {
			k := have[r.Intn(len(have))]
			p := f.pass[k]
			e := pass()
			if r.Intn(3) == 0 {
				e = "-"
			}
			with := e
			switch r.Intn(4) {
			case 0:
				with = p
			case 1:
				with = pass()
			}
			aid := f.nextArm
			f.script = []string{fmt.Sprintf("kb.delete %d %s", k, p), fmt.Sprintf("kb.import %d %s %s", aid, with, pass())}
			if r.Intn(2) == 0 { // and once more with the right one, should the first attempt have been refused
				f.script = append(f.script, fmt.Sprintf("kb.import %d %s %s", aid, e, pass()))
			}
			return fmt.Sprintf("kb.export %d %d %s %s", aid, k, p, e)
		}
	}
	switch r.Intn(12) {
	case 0, 1:
		return fmt.Sprintf("kb.create %d %s", f.nextKey, pass())
	case 2:
		return fmt.Sprintf("kb.delete %d %s", anyKey(), pass())
	case 3:
		return fmt.Sprintf("kb.update %d %s %s", anyKey(), pass(), pass())
	case 4, 5:
		return fmt.Sprintf("kb.sign %d %s %d", anyKey(), pass(), r.Intn(5))
	case 6, 7:
		return fmt.Sprintf("kb.export %d %d %s %s", f.nextArm, anyKey(), pass(), pass())
	case 8:
		if f.nextArm > 0 {
			return fmt.Sprintf("kb.import %d %s %s", r.Intn(f.nextArm), pass(), pass())
		}
		return "kb.list"
	case 9:
		return fmt.Sprintf("kb.exportobj %d %s", anyKey(), pass())
	case 10:
		return fmt.Sprintf("kb.importobj %d %s", anyKey(), pass())
	default:
		return "kb.list"
	}
}

func ph(s string) string {
	if s == "-" {
		return ""
	}
	b, _ := hex.DecodeString(s)
	return string(b)
}

func (f *Fam) idOf(a sdk.Address) int {
	for k, v := range f.addrs {
		if bytes.Equal(v, a) {
			return k
		}
	}
	return -1
}

func (f *Fam) Exec(op string) (obs string, fails []common.Failure) {
	w := strings.Fields(op)
	fail := func(clause, sig, detail string) {
		fails = append(fails, common.Failure{Clause: clause, Signature: sig, Detail: detail})
	}
	defer func() {
		if e := recover(); e != nil {
			obs = "panic"
			fail("no-crash", "C19:panic", fmt.Sprintf("%s: %v", op, e))
		}
	}()
	switch w[0] {
	case "ms":
		pkT, sgT := parseTree(w[1]), parseTree(w[3])
		m, _ := strconv.Atoi(w[2])
		pk := buildPK(pkT)
		sig := buildSig(sgT, nil)
		ok := pk.VerifyBytes(msgBytes(m), sig)
		// oracle: verifies iff the signature tree is exactly the positional signing of the key tree
		want := signTree(pkT, m).String() == sgT.String() && !hasEmptyMulti(pkT)
		if ok && pk.VerifyBytes(msgBytes(m+1), sig) {
			fail("binds-message", "C19:verifies-other-message", fmt.Sprintf("%s: the signature verifies under the key for message %d and for message %d as well", op, m, m+1))
		}
		if ok != want {
			fail("multisig-iff", "C19:multisig-verify", fmt.Sprintf("%s: VerifyBytes=%v, every key signed in its own position=%v", op, ok, want))
		}
		return strconv.FormatBool(ok), fails
	case "mon.foreignkey": // C19: a key of either type made elsewhere, imported into a keybase of its own: found, used and exported under its own address
		seed, _ := strconv.ParseInt(w[2], 10, 64)
		rr := rand.New(rand.NewSource(seed))
		secret := make([]byte, 32)
		rr.Read(secret)
		var priv crypto.PrivateKey
		if w[1] == "ed25519" {
			priv = crypto.Ed25519PrivateKey{}.PrivKeyToPrivateKey(ed25519.GenPrivKeyFromSecret(secret))
		} else {
			priv = crypto.Secp256k1PrivateKey{}.PrivKeyToPrivateKey(secp256k1.GenPrivKeySecp256k1(secret))
		}
		own := sdk.Address(priv.PublicKey().Address())
		kb := keys.NewInMemory()
		armor, err := mintkey.EncryptArmorPrivKey(priv, "p1", "")
		if err != nil {
			return "done", nil
		}
		kp, err := kb.ImportPrivKey(armor, "p1", "p2")
		if err != nil {
			fail("import", "C19:foreign-key-not-importable", fmt.Sprintf("%s: %v", op, err))
			return "done", fails
		}
		if !bytes.Equal(kp.GetAddress(), own) {
			fail("same-address", "C19:imported-key-under-another-address", fmt.Sprintf("%s: the key pair reports address %x, the key's address is %x", op, kp.GetAddress(), own))
		}
		if _, err := kb.Get(own); err != nil {
			fail("same-address", "C19:imported-key-not-found-under-its-address", fmt.Sprintf("%s: %v", op, err))
		}
		msg := msgBytes(int(seed % 7))
		if sig, pub, err := kb.Sign(own, "p2", msg); err != nil || !priv.PublicKey().VerifyBytes(msg, sig) || !bytes.Equal(pub.RawBytes(), priv.PublicKey().RawBytes()) {
			fail("usable", "C19:imported-key-does-not-sign", fmt.Sprintf("%s: signing under the key's own address: %v", op, err))
		}
		if _, err := kb.ImportPrivKey(armor, "p1", "p3"); err == nil {
			fail("no-overwrite", "C19:second-import-accepted", fmt.Sprintf("%s: importing the same key again is accepted (and re-encrypts the stored key)", op))
		}
		if _, _, err := kb.Sign(own, "p2", msg); err != nil {
			fail("no-overwrite", "C19:second-import-changed-passphrase", fmt.Sprintf("%s: after a second import attempt the key no longer opens with its passphrase: %v", op, err))
		}
		return "done", fails
	case "mon.sigsplit": // C19: a signature binds its message - also after the genuine pair has been verified before
		seed, _ := strconv.ParseInt(w[2], 10, 64)
		rr := rand.New(rand.NewSource(seed))
		secret := make([]byte, 32)
		rr.Read(secret)
		var priv crypto.PrivateKey
		if w[1] == "ed25519" {
			priv = crypto.Ed25519PrivateKey{}.PrivKeyToPrivateKey(ed25519.GenPrivKeyFromSecret(secret))
		} else {
			priv = crypto.Secp256k1PrivateKey{}.PrivKeyToPrivateKey(secp256k1.GenPrivKeySecp256k1(secret))
		}
		pub := priv.PublicKey()
		msg := make([]byte, 8+rr.Intn(40))
		rr.Read(msg)
		sig, err := priv.Sign(msg)
		if err != nil || !pub.VerifyBytes(msg, sig) {
			fail("sign-verifies", "C19:genuine-signature-refused", fmt.Sprintf("%s: a genuine %s signature does not verify (%v)", op, w[1], err))
			return "done", fails
		}
		pub.VerifyBytes(msg, sig) // once more: whatever the first verification left behind must not matter
		k := 1 + rr.Intn(len(msg)-1)
		variants := map[string][2][]byte{
			"the message cut short, its tail moved in front of the signature": {msg[:len(msg)-k], append(append([]byte{}, msg[len(msg)-k:]...), sig...)},
			"the message extended by the head of the signature":               {append(append([]byte{}, msg...), sig[:k%len(sig)+1]...), sig[k%len(sig)+1:]},
			"a byte appended to the signature":                                {msg, append(append([]byte{}, sig...), 0)},
			"the last byte of the message changed":                            {append(append([]byte{}, msg[:len(msg)-1]...), msg[len(msg)-1]^1), sig},
		}
		for what, v := range variants {
			if pub.VerifyBytes(v[0], v[1]) {
				fail("binds-message", "C19:verifies-other-message", fmt.Sprintf("%s: after the genuine pair had been verified, %s verifies too", op, what))
			}
		}
		// and another key does not accept the genuine pair
		other := make([]byte, 32)
		rr.Read(other)
		var pub2 crypto.PublicKey
		if w[1] == "ed25519" {
			pub2 = crypto.Ed25519PrivateKey{}.PrivKeyToPrivateKey(ed25519.GenPrivKeyFromSecret(other)).PublicKey()
		} else {
			pub2 = crypto.Secp256k1PrivateKey{}.PrivKeyToPrivateKey(secp256k1.GenPrivKeySecp256k1(other)).PublicKey()
		}
		if pub2.VerifyBytes(msg, sig) {
			fail("binds-key", "C19:verifies-under-other-key", fmt.Sprintf("%s: another %s key accepts the pair once it has been verified under its own key", op, w[1]))
		}
		return "done", fails
	case "mon.keybytes": // C19, implementation side: raw bytes -> private key -> raw bytes, for both key types
		seed, _ := hex.DecodeString(w[2])
		var priv crypto.PrivateKey
		if w[1] == "ed25519" {
			priv = crypto.Ed25519PrivateKey{}.PrivKeyToPrivateKey(ed25519.GenPrivKeyFromSecret(seed))
		} else if w[1] == "ed25519seed" { // the 32 bytes are the seed itself: the key's raw bytes begin with them
			var k ed25519.PrivKeyEd25519
			copy(k[:], stded.NewKeyFromSeed(seed))
			priv = crypto.Ed25519PrivateKey{}.PrivKeyToPrivateKey(k)
		} else {
			var k secp256k1.PrivKeySecp256k1
			copy(k[:], seed) // the scalar itself, leading zero bytes and all
			priv = crypto.Secp256k1PrivateKey{}.PrivKeyToPrivateKey(k)
		}
		back, err := crypto.NewPrivateKeyBz(priv.RawBytes())
		switch {
		case err != nil:
			fail("key-roundtrip", "C19:key-bytes-roundtrip", fmt.Sprintf("%s: the key's own raw bytes are refused: %v", op, err))
		case !bytes.Equal(back.RawBytes(), priv.RawBytes()):
			fail("key-roundtrip", "C19:key-bytes-roundtrip", fmt.Sprintf("%s: raw bytes %x come back as %x", op, priv.RawBytes(), back.RawBytes()))
		case !bytes.Equal(back.PublicKey().RawBytes(), priv.PublicKey().RawBytes()):
			fail("key-roundtrip", "C19:key-bytes-roundtrip", fmt.Sprintf("%s: the rebuilt key has another public key", op))
		default:
			msg := msgBytes(len(seed))
			sig, err := back.Sign(msg)
			if err != nil || !priv.PublicKey().VerifyBytes(msg, sig) {
				fail("key-roundtrip", "C19:key-bytes-roundtrip", fmt.Sprintf("%s: a signature by the rebuilt key does not verify under the original public key (%v)", op, err))
			}
		}
		// the amino form too
		if b2, err := crypto.PrivKeyFromBytes(priv.Bytes()); err != nil || !bytes.Equal(b2.RawBytes(), priv.RawBytes()) {
			fail("key-roundtrip", "C19:key-bytes-roundtrip", fmt.Sprintf("%s: amino bytes of the private key do not decode to it (%v)", op, err))
		}
		return "done", fails
	case "depth": // auth.ValidateSignatureDepth(limit, key)
		limit, _ := strconv.Atoi(w[1])
		pkT := parseTree(w[2])
		mk, isMulti := buildPK(pkT).(crypto.PublicKeyMultiSig)
		if !isMulti || limit < 0 {
			return "bad-op", nil
		}
		ok := auth.ValidateSignatureDepth(uint64(limit), mk)
		// (the signature limit is part of the ante handler's decision, not of a property statement: the answer is
		// compared with the Lean model's recursive count, for which `validDepth_iff` proves the closed form)
		return strconv.FormatBool(ok), fails
	case "kb.new":
		if f.Profile == "lazy" {
			// the on-disk keybase (opened anew for every operation), in a directory of its own
			if f.dir != "" {
				os.RemoveAll(f.dir)
			}
			d, err := os.MkdirTemp("", "verif-keybase-")
			if err != nil {
				panic(err)
			}
			f.dir = d
			f.kb = keys.New("kb", d)
		} else {
			f.kb = keys.NewInMemory()
		}
		f.addrs, f.privs, f.armors = map[int]sdk.Address{}, map[int][64]byte{}, map[int]string{}
		f.pass, f.armPass = map[int]string{}, map[int]string{}
		f.nextKey, f.nextArm = 0, 0
		return "ok", nil
	case "kb.create":
		kp, err := f.kb.Create(ph(w[2]))
		if err != nil {
			return "err", nil
		}
		k := f.nextKey
		f.nextKey++
		f.addrs[k] = kp.GetAddress()
		f.pass[k] = w[2]
		if obj, err := f.kb.ExportPrivateKeyObject(kp.GetAddress(), ph(w[2])); err == nil {
			var raw [64]byte
			copy(raw[:], obj.RawBytes())
			f.privs[k] = raw
		} else {
			fail("usable", "C19:created-key-not-exportable", err.Error())
		}
		return fmt.Sprintf("key %d", k), fails
	case "kb.list":
		l, err := f.kb.List()
		if err != nil {
			return "err", nil
		}
		var ids []int
		for _, kp := range l {
			ids = append(ids, f.idOf(kp.GetAddress()))
		}
		sort.Ints(ids)
		var p []string
		for _, x := range ids {
			p = append(p, strconv.Itoa(x))
		}
		return "keys " + strings.Join(p, ","), nil
	}
	k, _ := strconv.Atoi(w[1])
	addr, known := f.addrs[k]
	if !known && w[0] != "kb.import" && w[0] != "kb.export" && w[0] != "kb.importobj" {
		addr = sdk.Address(bytes.Repeat([]byte{byte(k)}, 20))
	}
	before, _ := f.kb.List()
	unchanged := func() bool {
		after, _ := f.kb.List()
		if len(after) != len(before) {
			return false
		}
		for i := range after {
			if after[i].PrivKeyArmor != before[i].PrivKeyArmor || !bytes.Equal(after[i].GetAddress(), before[i].GetAddress()) {
				return false
			}
		}
		return true
	}
	// the harness's own record of which passphrase opens which stored key (a plain map)
	judge := func(ok bool, key int, pass string) {
		want, stored := f.pass[key]
		switch {
		case ok && (!stored || want != pass):
			fail("wrong-pass-never-works", "C19:wrong-passphrase-accepted", fmt.Sprintf("%s succeeded although the key is stored under another passphrase (or not at all)", op))
		case !ok && stored && want == pass:
			fail("right-pass-works", "C19:right-passphrase-refused", fmt.Sprintf("%s failed although that is the passphrase the key is stored under", op))
		}
	}
	switch w[0] {
	case "kb.delete":
		if err := f.kb.Delete(addr, ph(w[2])); err != nil {
			judge(false, k, w[2])
			if !unchanged() {
				fail("wrong-pass-no-effect", "C19:failed-delete-changed-store", op)
			}
			return "err", fails
		}
		judge(true, k, w[2])
		delete(f.pass, k)
		return "ok", fails
	case "kb.update":
		if err := f.kb.Update(addr, ph(w[2]), ph(w[3])); err != nil {
			judge(false, k, w[2])
			if !unchanged() {
				fail("wrong-pass-no-effect", "C19:failed-update-changed-store", op)
			}
			return "err", fails
		}
		judge(true, k, w[2])
		f.pass[k] = w[3]
		return "ok", fails
	case "kb.sign":
		m, _ := strconv.Atoi(w[3])
		sig, pub, err := f.kb.Sign(addr, ph(w[2]), msgBytes(m))
		judge(err == nil, k, w[2])
		if err != nil {
			if !unchanged() {
				fail("wrong-pass-no-effect", "C19:failed-sign-changed-store", op)
			}
			return "err", fails
		}
		if !pub.VerifyBytes(msgBytes(m), sig) || !bytes.Equal(pub.Address(), addr) {
			fail("sign-verifies", "C19:keybase-signature-invalid", op)
		}
		if pub.VerifyBytes(msgBytes(m+1), sig) {
			fail("binds-message", "C19:signature-verifies-other-message", op)
		}
		return "sig", fails
	case "kb.export":
		aid, _ := strconv.Atoi(w[1])
		k, _ = strconv.Atoi(w[2])
		addr, known = f.addrs[k]
		if !known {
			addr = sdk.Address(bytes.Repeat([]byte{byte(k)}, 20))
		}
		arm, err := f.kb.ExportPrivKeyEncryptedArmor(addr, ph(w[3]), ph(w[4]), "")
		judge(err == nil, k, w[3])
		if err != nil {
			return "err", fails
		}
		f.armors[aid] = arm
		f.armPass[aid] = w[4]
		if aid >= f.nextArm {
			f.nextArm = aid + 1
		}
		return "armor", fails
	case "kb.import":
		arm, ok := f.armors[k]
		if !ok {
			return "err", nil
		}
		kp, err := f.kb.ImportPrivKey(arm, ph(w[2]), ph(w[3]))
		if err == nil && f.armPass[k] != w[2] {
			fail("wrong-pass-never-works", "C19:wrong-passphrase-accepted", op+": an export was opened with a passphrase other than the one it was encrypted with")
		}
		if err != nil {
			if !unchanged() {
				fail("wrong-pass-no-effect", "C19:failed-import-changed-store", op)
			}
			return "err", fails
		}
		id := f.idOf(kp.GetAddress())
		if id < 0 {
			fail("same-key", "C19:import-yields-unknown-key", op)
		} else {
			f.pass[id] = w[3]
		}
		return fmt.Sprintf("key %d", id), fails
	case "kb.exportobj":
		obj, err := f.kb.ExportPrivateKeyObject(addr, ph(w[2]))
		judge(err == nil, k, w[2])
		if err != nil {
			return "err", fails
		}
		if raw, ok := f.privs[k]; ok && !bytes.Equal(raw[:], obj.RawBytes()) {
			fail("same-key", "C19:export-yields-different-key", op)
		}
		return fmt.Sprintf("key %d", k), fails
	case "kb.importobj":
		raw, ok := f.privs[k]
		if !ok {
			return "err", nil
		}
		kp, err := f.kb.ImportPrivateKeyObject(raw, ph(w[2]))
		if err != nil {
			if !unchanged() {
				fail("wrong-pass-no-effect", "C19:failed-import-changed-store", op)
			}
			return "err", fails
		}
		if id := f.idOf(kp.GetAddress()); id >= 0 {
			f.pass[id] = w[2]
		}
		return fmt.Sprintf("key %d", f.idOf(kp.GetAddress())), nil
	}
	return "bad-op", nil
}

func (f *Fam) Class(op, obs string) string {
	w := strings.Fields(op)
	if w[0] == "kb.new" {
		return ""
	}
	return w[0] + "/" + strings.Fields(obs)[0]
}
