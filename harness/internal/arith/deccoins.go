package arith

// DecCoins (types/dec_coin.go): implementation-side monitors with a per-denomination math/big oracle. The Lean
// driver answers "done" to these operations (prefix "mon."): they are checked here, not by the model.

import (
	"fmt"
	"math/big"
	"math/rand"
	"sort"
	"strings"

	sdk "github.com/pokt-network/posmint/types"

	"verif/harness/internal/common"
)

// a valid DecCoins value: raw amounts (scaled by 10^18), positive, over distinct denominations
func genDecSet(r *rand.Rand) cset {
	m := cset{}
	for i := 0; i < r.Intn(4); i++ {
		var x *big.Int
		switch r.Intn(5) {
		case 0:
			x = big.NewInt(int64(1 + r.Intn(3))) // a few units of 10^-18
		case 1:
			x = new(big.Int).Mul(big.NewInt(int64(1+r.Intn(9))), P) // whole
		case 2:
			x = new(big.Int).Add(new(big.Int).Mul(big.NewInt(int64(r.Intn(1000))), P), new(big.Int).Quo(P, two)) // .5
		default:
			x = genBig(r, 150)
			x.Abs(x)
			if x.Sign() == 0 {
				x.SetInt64(5)
			}
		}
		m[goodDenoms[r.Intn(len(goodDenoms))]] = x
	}
	return m
}

func parseDecCoins(s string) sdk.DecCoins {
	var cs sdk.DecCoins
	if s == "-" {
		return cs
	}
	for _, it := range strings.Split(s, ",") {
		x := strings.Split(it, ":")
		cs = append(cs, sdk.DecCoin{Denom: x[0], Amount: mkDec(parse(x[1]))})
	}
	return cs
}

func decSetOf(cs sdk.DecCoins) cset {
	m := cset{}
	for _, c := range cs {
		m[c.Denom] = new(big.Int).Set(c.Amount.Int)
	}
	return m
}

func fmtDecCoins(cs sdk.DecCoins) string {
	var p []string
	for _, c := range cs {
		p = append(p, c.Denom+":"+c.Amount.Int.String())
	}
	if len(p) == 0 {
		return "-"
	}
	return strings.Join(p, ",")
}

func decCanonical(cs sdk.DecCoins, allowNeg bool) bool {
	for i, c := range cs {
		if c.Amount.Int.Sign() == 0 || (!allowNeg && c.Amount.Int.Sign() < 0) || (i > 0 && c.Denom <= cs[i-1].Denom) {
			return false
		}
	}
	return true
}

var decKinds = []string{"mon.deccoins.add", "mon.deccoins.safesub", "mon.deccoins.sub", "mon.deccoins.trunc", "mon.deccoins.muldec",
	"mon.deccoins.quodec", "mon.deccoins.amountof", "mon.deccoins.intersect"}

func genDecCoinsOp(r *rand.Rand) string {
	k := decKinds[r.Intn(len(decKinds))]
	a := genDecSet(r)
	b := genDecSet(r)
	if r.Intn(2) == 0 {
		b = related(r, a)
	}
	switch k {
	case "mon.deccoins.trunc":
		return k + " " + a.text()
	case "mon.deccoins.muldec", "mon.deccoins.quodec":
		d := genBig(r, 100)
		if r.Intn(4) == 0 {
			d = new(big.Int).Mul(big.NewInt(int64(r.Intn(5)-1)), P)
		}
		return fmt.Sprintf("%s %s %s", k, a.text(), d)
	case "mon.deccoins.amountof":
		return fmt.Sprintf("%s %s %s", k, a.text(), goodDenoms[r.Intn(len(goodDenoms))])
	}
	return fmt.Sprintf("%s %s %s", k, a.text(), b.text())
}

func sameSet(x, y cset) bool {
	if len(x) != len(y) {
		return false
	}
	for d, v := range x {
		if w, ok := y[d]; !ok || w.Cmp(v) != 0 {
			return false
		}
	}
	return true
}

func execDecCoins(op string) (string, []common.Failure) {
	f := strings.Fields(op)
	k := f[0]
	var fails []common.Failure
	fail := func(clause, sig, detail string) {
		fails = append(fails, common.Failure{Clause: clause, Signature: sig, Detail: detail})
	}
	a := parseDecCoins(f[1])
	a0 := fmtDecCoins(a)
	sa := decSetOf(a)
	report := func(what string, got sdk.DecCoins, want cset, allowNeg bool) {
		if !sameSet(decSetOf(got), want) {
			fail("deccoins-per-denomination", "C18:"+strings.TrimPrefix(k, "mon.")+":result", fmt.Sprintf("%s: %s gives %s, per-denomination arithmetic %s", op, what, fmtDecCoins(got), want.text()))
		}
		if !decCanonical(got, allowNeg) {
			fail("canonical-form", "C18:"+strings.TrimPrefix(k, "mon.")+":not-canonical", fmt.Sprintf("%s: result %s is not sorted / has duplicates or zero amounts", op, fmtDecCoins(got)))
		}
	}
	res := try(func() string {
		switch k {
		case "mon.deccoins.add", "mon.deccoins.safesub", "mon.deccoins.sub", "mon.deccoins.intersect":
			b := parseDecCoins(f[2])
			b0 := fmtDecCoins(b)
			sb := decSetOf(b)
			want := cset{}
			neg := false
			for _, d := range union(sa, sb) {
				var x *big.Int
				switch k {
				case "mon.deccoins.add":
					x = new(big.Int).Add(get(sa, d), get(sb, d))
				case "mon.deccoins.intersect":
					x = get(sa, d)
					if get(sb, d).Cmp(x) < 0 {
						x = get(sb, d)
					}
				default:
					x = new(big.Int).Sub(get(sa, d), get(sb, d))
				}
				if x.Sign() < 0 {
					neg = true
				}
				if x.Sign() != 0 {
					want[d] = x
				}
			}
			switch k {
			case "mon.deccoins.add":
				report("Add", a.Add(b), want, false)
			case "mon.deccoins.intersect":
				report("Intersect", a.Intersect(b), want, false)
			case "mon.deccoins.safesub":
				got, hasNeg := a.SafeSub(b)
				report("SafeSub", got, want, true)
				if hasNeg != neg {
					fail("safesub-flag", "C18:deccoins.safesub:flag", fmt.Sprintf("%s: reported negative=%v, per-denomination %v", op, hasNeg, neg))
				}
			default:
				panicked := false
				func() {
					defer func() {
						if recover() != nil {
							panicked = true
						}
					}()
					report("Sub", a.Sub(b), want, false)
				}()
				if panicked != neg {
					fail("sub-panics-iff-negative", "C18:deccoins.sub:panic", fmt.Sprintf("%s: panicked=%v, an amount would go negative=%v", op, panicked, neg))
				}
			}
			if fmtDecCoins(a) != a0 || fmtDecCoins(b) != b0 {
				fail("operand-mutated", "C18:"+strings.TrimPrefix(k, "mon.")+":mutated", fmt.Sprintf("%s: operands after the call: %s %s", op, fmtDecCoins(a), fmtDecCoins(b)))
			}
		case "mon.deccoins.trunc":
			whole, change := a.TruncateDecimal()
			ww, wc := cset{}, cset{}
			for d, x := range sa {
				q, rem := new(big.Int).QuoRem(x, P, new(big.Int))
				if q.Sign() != 0 {
					ww[d] = q
				}
				if rem.Sign() != 0 {
					wc[d] = rem
				}
			}
			gw := cset{}
			for _, c := range whole {
				gw[c.Denom] = c.Amount.BigInt()
			}
			if !sameSet(gw, ww) || !canonical(whole) {
				fail("deccoins-per-denomination", "C18:deccoins.trunc:whole", fmt.Sprintf("%s: whole part %s, expected %s", op, fmtCoins(whole), ww.text()))
			}
			report("TruncateDecimal (change)", change, wc, false)
		case "mon.deccoins.muldec", "mon.deccoins.quodec":
			d := parse(f[2])
			if k == "mon.deccoins.quodec" && d.Sign() == 0 {
				return "done" // division by zero panics by contract
			}
			want := cset{}
			for dn, x := range sa {
				var y *big.Int
				if k == "mon.deccoins.muldec" {
					y = roundRat(new(big.Int).Mul(x, d), P, 0)
				} else {
					if d.Sign() == 0 {
						return "done"
					}
					// Dec.Quo double-rounds (recorded finding); compare with what Dec.Quo itself gives for the pair
					y = mkDec(x).Quo(mkDec(d)).Int
				}
				if y.Sign() != 0 {
					want[dn] = y
				}
			}
			if k == "mon.deccoins.muldec" {
				report("MulDec", a.MulDec(mkDec(d)), want, true)
			} else {
				report("QuoDec", a.QuoDec(mkDec(d)), want, true)
			}
		case "mon.deccoins.amountof":
			got := a.AmountOf(f[2]).Int
			if got.Cmp(get(sa, f[2])) != 0 {
				fail("deccoins-per-denomination", "C18:deccoins.amountof:result", fmt.Sprintf("%s: %s, expected %s", op, got, get(sa, f[2])))
			}
		}
		return "done"
	})
	if res == "panic" && k != "mon.deccoins.sub" {
		// range panics of the underlying Dec operations are legitimate only beyond the Dec range; the generator stays
		// far below it
		fail("no-crash", "C18:"+strings.TrimPrefix(k, "mon.")+":panic", op+" panicked")
	}
	return "done", fails
}

var _ = sort.Strings

// ---- DecCoins operations the Lean model answers too (prefix "dcoins."): the implementation's result in canonical
// text, compared line by line with Posmint.DecCoins. The operands are wider than the monitors' (unsorted, zero and
// negative amounts, repeated denominations, syntactically bad denominations, amounts at the 315-bit bound).

var dcoinKinds = []string{"dcoins.add", "dcoins.sub", "dcoins.safesub", "dcoins.intersect", "dcoins.amountof", "dcoins.muldec",
	"dcoins.muldectrunc", "dcoins.quodec", "dcoins.quodectrunc", "dcoins.trunc"}

func genDecRaw(r *rand.Rand) string {
	n := r.Intn(5)
	var p []string
	for i := 0; i < n; i++ {
		d := goodDenoms[r.Intn(len(goodDenoms))]
		if r.Intn(8) == 0 {
			d = badDenoms[r.Intn(len(badDenoms))]
		}
		var a *big.Int
		switch r.Intn(8) {
		case 0:
			a = big.NewInt(0)
		case 1:
			a = genBig(r, 315)
		case 2:
			a = new(big.Int).Mul(big.NewInt(int64(r.Intn(7)-2)), P)
		case 3:
			a = genBig(r, 255+60-r.Intn(3))
		default:
			a = genBig(r, 150)
			a.Abs(a)
		}
		p = append(p, d+":"+a.String())
	}
	if r.Intn(3) != 0 {
		sort.SliceStable(p, func(i, j int) bool { return strings.Split(p[i], ":")[0] < strings.Split(p[j], ":")[0] })
	}
	if len(p) == 0 {
		return "-"
	}
	return strings.Join(p, ",")
}

func genDCoinsOp(r *rand.Rand) string {
	k := dcoinKinds[r.Intn(len(dcoinKinds))]
	at := genDecSet(r).text()
	as := genDecSet(r)
	bt := as.text()
	if r.Intn(2) == 0 {
		bt = related(r, as).text()
		at = as.text()
	}
	if r.Intn(3) == 0 {
		at = genDecRaw(r)
	}
	if r.Intn(4) == 0 {
		bt = genDecRaw(r)
	}
	if r.Intn(2) == 0 {
		at, bt = bt, at
	}
	switch k {
	case "dcoins.trunc":
		return k + " " + at
	case "dcoins.muldec", "dcoins.muldectrunc", "dcoins.quodec", "dcoins.quodectrunc":
		d := genBig(r, 100)
		switch r.Intn(6) {
		case 0:
			d = new(big.Int).Mul(big.NewInt(int64(r.Intn(5)-1)), P)
		case 1:
			d = genBig(r, 315)
		case 2:
			d = big.NewInt(int64(r.Intn(5) - 2))
		}
		return fmt.Sprintf("%s %s %s", k, at, d)
	case "dcoins.amountof":
		d := goodDenoms[r.Intn(len(goodDenoms))]
		if r.Intn(8) == 0 {
			d = badDenoms[r.Intn(len(badDenoms))]
		}
		return fmt.Sprintf("%s %s %s", k, at, d)
	}
	return fmt.Sprintf("%s %s %s", k, at, bt)
}

func execDCoins(op string) (string, []common.Failure) {
	f := strings.Fields(op)
	k := f[0]
	a := parseDecCoins(f[1])
	obs := try(func() string {
		switch k {
		case "dcoins.add":
			return "ok " + fmtDecCoins(a.Add(parseDecCoins(f[2])))
		case "dcoins.sub":
			return "ok " + fmtDecCoins(a.Sub(parseDecCoins(f[2])))
		case "dcoins.safesub":
			d, neg := a.SafeSub(parseDecCoins(f[2]))
			return "ok " + fmtDecCoins(d) + " neg=" + fmt.Sprint(neg)
		case "dcoins.intersect":
			return "ok " + fmtDecCoins(a.Intersect(parseDecCoins(f[2])))
		case "dcoins.amountof":
			return "ok " + a.AmountOf(f[2]).Int.String()
		case "dcoins.muldec":
			return "ok " + fmtDecCoins(a.MulDec(mkDec(parse(f[2]))))
		case "dcoins.muldectrunc":
			return "ok " + fmtDecCoins(a.MulDecTruncate(mkDec(parse(f[2]))))
		case "dcoins.quodec":
			return "ok " + fmtDecCoins(a.QuoDec(mkDec(parse(f[2]))))
		case "dcoins.quodectrunc":
			return "ok " + fmtDecCoins(a.QuoDecTruncate(mkDec(parse(f[2]))))
		case "dcoins.trunc":
			w, ch := a.TruncateDecimal()
			return "ok " + fmtCoins(w) + " | " + fmtDecCoins(ch)
		}
		return "bad-op"
	})
	return obs, nil
}
