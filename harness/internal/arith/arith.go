// Package arith: family "arith" (C18): Int/Uint/Dec operations of /repo/types against the
// Lean model (via ops/obs lines) and against an independent math/big oracle (monitor).
package arith

import (
	"fmt"
	"math/big"
	"math/rand"
	"strings"

	sdk "github.com/pokt-network/posmint/types"

	"verif/harness/internal/common"
)

type Fam struct{}

var (
	one   = big.NewInt(1)
	two   = big.NewInt(2)
	P     = new(big.Int).Exp(big.NewInt(10), big.NewInt(18), nil)
	lim255 = new(big.Int).Lsh(one, 255)
	lim256 = new(big.Int).Lsh(one, 256)
	lim315 = new(big.Int).Lsh(one, 315)
	lim63  = new(big.Int).Lsh(one, 63)
)

var kinds2 = []string{"int.add", "int.sub", "int.mul", "int.quo", "int.mod",
	"uint.add", "uint.sub", "uint.mul", "uint.quo",
	"dec.add", "dec.sub", "dec.mul", "dec.multrunc", "dec.mulint", "dec.quo", "dec.quotrunc", "dec.quoroundup", "dec.quoint"}
var kinds1 = []string{"int.neg", "int.int64", "dec.roundint", "dec.truncint", "dec.roundint64", "dec.truncint64", "dec.truncdec", "dec.ceil", "dec.isint", "dec.fromint"}

// genBig: boundary-biased integer with |x| < 2^bits.
func genBig(r *rand.Rand, bits int) *big.Int {
	var x *big.Int
	switch r.Intn(10) {
	case 0:
		x = big.NewInt(int64(r.Intn(3)))
	case 1: // power of two +- small
		x = new(big.Int).Lsh(one, uint(r.Intn(bits+1)))
		x.Add(x, big.NewInt(int64(r.Intn(5)-2)))
	case 2: // power of ten +- small
		x = new(big.Int).Exp(big.NewInt(10), big.NewInt(int64(r.Intn(96))), nil)
		x.Add(x, big.NewInt(int64(r.Intn(5)-2)))
	case 3: // near a rounding tie at 18 decimals
		x = new(big.Int).Rand(r, new(big.Int).Lsh(one, uint(1+r.Intn(80))))
		x.Mul(x, P)
		x.Add(x, new(big.Int).Quo(P, two))
		x.Add(x, big.NewInt(int64(r.Intn(3)-1)))
	case 4: // near the bound
		x = new(big.Int).Lsh(one, uint(bits))
		x.Sub(x, big.NewInt(int64(1+r.Intn(3))))
	case 5: // small
		x = big.NewInt(r.Int63n(1 << 20))
	case 6: // multiple of P +- small
		x = new(big.Int).Rand(r, new(big.Int).Lsh(one, uint(1+r.Intn(120))))
		x.Mul(x, P)
		x.Add(x, big.NewInt(int64(r.Intn(3)-1)))
	default:
		x = new(big.Int).Rand(r, new(big.Int).Lsh(one, uint(1+r.Intn(bits))))
	}
	x.Abs(x)
	lim := new(big.Int).Lsh(one, uint(bits))
	if x.Cmp(lim) >= 0 {
		x.Mod(x, lim)
	}
	if r.Intn(3) == 0 {
		x.Neg(x)
	}
	return x
}

var rawKinds = []string{"int.addraw", "int.subraw", "int.mulraw", "int.quoraw", "int.modraw", "uint.adduint64", "uint.subuint64",
	"uint.muluint64", "uint.quouint64", "dec.mulint64", "dec.quoint64"}

// genMachine: a machine integer, biased to the ends of its range
func genMachine(r *rand.Rand, unsigned bool) *big.Int {
	if unsigned {
		switch r.Intn(6) {
		case 0:
			return new(big.Int).SetUint64(^uint64(0) - uint64(r.Intn(2)))
		case 1:
			return big.NewInt(int64(r.Intn(3)))
		case 2:
			return new(big.Int).SetUint64(uint64(1) << uint(r.Intn(64)))
		default:
			return new(big.Int).SetUint64(r.Uint64())
		}
	}
	switch r.Intn(8) {
	case 0:
		return big.NewInt(-9223372036854775808 + int64(r.Intn(2)))
	case 1:
		return big.NewInt(9223372036854775807 - int64(r.Intn(2)))
	case 2:
		return big.NewInt(int64(r.Intn(5) - 2))
	case 3:
		x := big.NewInt(int64(1) << uint(r.Intn(63)))
		if r.Intn(2) == 0 {
			x.Neg(x)
		}
		return x
	default:
		return big.NewInt(int64(r.Uint64()))
	}
}

func (Fam) Gen(r *rand.Rand, i int) string {
	if r.Intn(4) == 0 {
		return genCoinsOp(r)
	}
	if r.Intn(12) == 0 {
		return genDecCoinsOp(r)
	}
	if r.Intn(8) == 0 {
		return genDCoinsOp(r)
	}
	if r.Intn(30) == 0 {
		return genConvertOp(r)
	}
	if r.Intn(60) == 0 {
		return genFeeProductOp(r)
	}
	if r.Intn(6) == 0 {
		k := rawKinds[r.Intn(len(rawKinds))]
		bits := 255
		switch {
		case strings.HasPrefix(k, "uint."):
			bits = 256
		case strings.HasPrefix(k, "dec."):
			bits = 315
		}
		a := genBig(r, bits)
		if strings.HasPrefix(k, "uint.") {
			a.Abs(a)
		}
		return fmt.Sprintf("%s %s %s", k, a, genMachine(r, strings.HasPrefix(k, "uint.")))
	}
	if r.Intn(25) == 0 {
		k := []string{"int.cmp", "uint.cmp", "dec.cmp"}[r.Intn(3)]
		bits := map[string]int{"int.cmp": 255, "uint.cmp": 256, "dec.cmp": 315}[k]
		a := genBig(r, bits)
		b := genBig(r, bits)
		if r.Intn(3) == 0 {
			b = new(big.Int).Add(a, big.NewInt(int64(r.Intn(3)-1)))
			if !within(b, new(big.Int).Lsh(one, uint(bits))) {
				b = new(big.Int).Set(a)
			}
		}
		if k == "uint.cmp" {
			a.Abs(a)
			b.Abs(b)
		}
		return fmt.Sprintf("%s %s %s", k, a, b)
	}
	if r.Intn(4) == 0 {
		k := kinds1[r.Intn(len(kinds1))]
		bits := 255
		if strings.HasPrefix(k, "dec.") && k != "dec.fromint" {
			bits = 315
		}
		return fmt.Sprintf("%s %s", k, genBig(r, bits))
	}
	k := kinds2[r.Intn(len(kinds2))]
	ba, bb := 255, 255
	switch {
	case strings.HasPrefix(k, "uint."):
		ba, bb = 256, 256
	case k == "dec.mulint" || k == "dec.quoint":
		ba = 315
	case strings.HasPrefix(k, "dec."):
		ba, bb = 315, 315
		if r.Intn(2) == 0 { // keep products in range more often
			ba, bb = 160, 160
		}
	}
	a, b := genBig(r, ba), genBig(r, bb)
	if (k == "int.mul" || k == "uint.mul" || k == "dec.mulint") && r.Intn(3) == 0 {
		// products right at the range boundary: bit lengths adding up to the limit (or one more / less),
		// mantissas near the top or the bottom of their bit range, every sign combination
		lim := ba
		if k == "uint.mul" {
			lim = 256
		}
		if r.Intn(3) == 0 {
			// ... and at the machine-word boundaries, where a "fast path" would sit
			lim = []int{31, 32, 63, 64, 127, 128}[r.Intn(6)]
		}
		total := lim + 1 + r.Intn(3) - 1 // lim, lim+1, lim+2
		la := 1 + r.Intn(total-1)
		lb := total - la
		mk := func(l int) *big.Int {
			x := new(big.Int).Lsh(one, uint(l)) // 2^l
			switch r.Intn(3) {
			case 0:
				x.Sub(x, big.NewInt(int64(1+r.Intn(3)))) // top of the l-bit range
			case 1:
				x.Rsh(x, 1) // 2^(l-1): bottom of the range
				x.Add(x, big.NewInt(int64(r.Intn(2))))
			default:
				x.Rsh(x, 1)
				x.Add(x, new(big.Int).Rand(r, x))
			}
			if r.Intn(2) == 0 && k != "uint.mul" {
				x.Neg(x)
			}
			return x
		}
		a, b = mk(la), mk(lb)
		if la > ba {
			a = genBig(r, ba)
		}
		if lb > bb {
			b = genBig(r, bb)
		}
		cl := func(x *big.Int, bits int) *big.Int {
			l := new(big.Int).Lsh(one, uint(bits))
			if new(big.Int).Abs(x).Cmp(l) >= 0 {
				return genBig(r, bits)
			}
			return x
		}
		a, b = cl(a, ba), cl(b, bb)
	}
	if strings.HasPrefix(k, "dec.") && !strings.Contains(k, "int") && r.Intn(12) == 0 {
		// a whole-valued decimal whose integer part lies beyond the Int range (2^255 .. 2^315/10^18): still a valid Dec;
		// the other operand small, so that the exact result is representable
		m := new(big.Int).Lsh(one, 255)
		top := new(big.Int).Quo(new(big.Int).Sub(lim315, one), P)
		span := new(big.Int).Sub(top, m)
		switch r.Intn(4) {
		case 0:
		case 1:
			m.Add(m, big.NewInt(int64(r.Intn(3))))
		case 2:
			m.Set(top)
		default:
			m.Add(m, new(big.Int).Rand(r, span))
		}
		big1 := new(big.Int).Mul(m, P)
		if r.Intn(2) == 0 {
			big1.Neg(big1)
		}
		small := []*big.Int{big.NewInt(0), new(big.Int).Set(P), new(big.Int).Neg(P), new(big.Int).Quo(P, two), big.NewInt(1), new(big.Int).Mul(P, big.NewInt(2))}[r.Intn(6)]
		if r.Intn(2) == 0 {
			a, b = small, big1
		} else {
			a, b = big1, small
		}
	}
	if strings.HasPrefix(k, "uint.") {
		a.Abs(a)
		b.Abs(b)
	}
	if (k == "dec.quo" || k == "dec.quoroundup") && r.Intn(8) == 0 {
		a, b = tieQuo(r)
	}
	return fmt.Sprintf("%s %s %s", k, a, b)
}

// tieQuo produces operands whose 36-digit truncated quotient sits on (or next to) a tie.
func tieQuo(r *rand.Rand) (*big.Int, *big.Int) {
	switch r.Intn(3) {
	case 0: // 1 / 1999999999999999999.999999999999999999
		a := new(big.Int).Set(P)
		b, _ := new(big.Int).SetString("1999999999999999999999999999999999999", 10)
		return a, b
	case 1: // tiny / huge: quotient below 10^-36
		return big.NewInt(int64(1 + r.Intn(3))), new(big.Int).Mul(big.NewInt(int64(2+r.Intn(5))), new(big.Int).Mul(P, P))
	default:
		k := big.NewInt(int64(1 + r.Intn(1000)))
		b := new(big.Int).Mul(k, two)
		b.Mul(b, P)
		b.Sub(b, big.NewInt(int64(r.Intn(3))))
		return new(big.Int).Set(P), b
	}
}

func parse(s string) *big.Int {
	x, ok := new(big.Int).SetString(s, 10)
	if !ok {
		panic("bad int " + s)
	}
	return x
}

func mkInt(x *big.Int) sdk.Int   { return sdk.NewIntFromBigInt(new(big.Int).Set(x)) }
func mkUint(x *big.Int) sdk.Uint { return sdk.NewUintFromBigInt(new(big.Int).Set(x)) }
func mkDec(x *big.Int) sdk.Dec   { return sdk.NewDecFromBigIntWithPrec(new(big.Int).Set(x), 18) }

func try(f func() string) (res string) {
	defer func() {
		if e := recover(); e != nil {
			res = "panic"
		}
	}()
	return f()
}

// impl evaluates op on the real code. The returned strings are the operands after the call (aliasing check).
func impl(k string, a, b *big.Int) (res string, after []string) {
	res = try(func() string {
		switch k {
		case "int.add", "int.sub", "int.mul", "int.quo", "int.mod":
			x, y := mkInt(a), mkInt(b)
			defer func() { after = []string{x.String(), y.String()} }()
			switch k {
			case "int.add":
				return "ok " + x.Add(y).String()
			case "int.sub":
				return "ok " + x.Sub(y).String()
			case "int.mul":
				return "ok " + x.Mul(y).String()
			case "int.quo":
				return "ok " + x.Quo(y).String()
			default:
				return "ok " + x.Mod(y).String()
			}
		case "int.neg", "int.int64", "dec.fromint":
			x := mkInt(a)
			defer func() { after = []string{x.String()} }()
			switch k {
			case "int.neg":
				return "ok " + x.Neg().String()
			case "int.int64":
				return fmt.Sprintf("ok %d", x.Int64())
			default:
				return "ok " + sdk.NewDecFromInt(x).Int.String()
			}
		case "uint.add", "uint.sub", "uint.mul", "uint.quo":
			x, y := mkUint(a), mkUint(b)
			defer func() { after = []string{x.String(), y.String()} }()
			switch k {
			case "uint.add":
				return "ok " + x.Add(y).String()
			case "uint.sub":
				return "ok " + x.Sub(y).String()
			case "uint.mul":
				return "ok " + x.Mul(y).String()
			default:
				return "ok " + x.Quo(y).String()
			}
		case "dec.mulint", "dec.quoint":
			x, y := mkDec(a), mkInt(b)
			defer func() { after = []string{x.Int.String(), y.String()} }()
			if k == "dec.mulint" {
				return "ok " + x.MulInt(y).Int.String()
			}
			return "ok " + x.QuoInt(y).Int.String()
		case "dec.add", "dec.sub", "dec.mul", "dec.multrunc", "dec.quo", "dec.quotrunc", "dec.quoroundup":
			x, y := mkDec(a), mkDec(b)
			defer func() { after = []string{x.Int.String(), y.Int.String()} }()
			var z sdk.Dec
			switch k {
			case "dec.add":
				z = x.Add(y)
			case "dec.sub":
				z = x.Sub(y)
			case "dec.mul":
				z = x.Mul(y)
			case "dec.multrunc":
				z = x.MulTruncate(y)
			case "dec.quo":
				z = x.Quo(y)
			case "dec.quotrunc":
				z = x.QuoTruncate(y)
			default:
				z = x.QuoRoundUp(y)
			}
			return "ok " + z.Int.String()
		default:
			x := mkDec(a)
			defer func() { after = []string{x.Int.String()} }()
			switch k {
			case "dec.roundint":
				return "ok " + x.RoundInt().String()
			case "dec.truncint":
				return "ok " + x.TruncateInt().String()
			case "dec.roundint64":
				return fmt.Sprintf("ok %d", x.RoundInt64())
			case "dec.truncint64":
				return fmt.Sprintf("ok %d", x.TruncateInt64())
			case "dec.truncdec":
				return "ok " + x.TruncateDec().Int.String()
			case "dec.ceil":
				return "ok " + x.Ceil().Int.String()
			case "dec.isint":
				if x.IsInteger() {
					return "true"
				}
				return "false"
			}
			panic("unknown op " + k)
		}
	})
	return
}

// ---- independent oracle (math/big only; no posmint code) ----

const (
	rHE = iota
	rTrunc
	rUp
)

// roundRat rounds num/den (den != 0) to an integer.
func roundRat(num, den *big.Int, mode int) *big.Int {
	n, d := new(big.Int).Set(num), new(big.Int).Set(den)
	if d.Sign() < 0 {
		n.Neg(n)
		d.Neg(d)
	}
	q, m := new(big.Int).DivMod(n, d, new(big.Int)) // floor, 0 <= m < d
	if m.Sign() == 0 {
		return q
	}
	switch mode {
	case rTrunc:
		if n.Sign() < 0 {
			q.Add(q, one)
		}
		return q
	case rUp:
		return q.Add(q, one)
	}
	c := new(big.Int).Lsh(m, 1).Cmp(d)
	if c > 0 || (c == 0 && q.Bit(0) == 1) {
		q.Add(q, one)
	}
	return q
}

func within(x, lim *big.Int) bool { return new(big.Int).Abs(x).Cmp(lim) < 0 }
func okOr(x, lim *big.Int) string {
	if within(x, lim) {
		return "ok " + x.String()
	}
	return "panic"
}

// spec returns the expected observation per the property statement, or "" when the property
// does not constrain the operation at these operands.
func spec(k string, a, b *big.Int) string {
	z := new(big.Int)
	switch k {
	case "int.add":
		return okOr(z.Add(a, b), lim255)
	case "int.sub":
		return okOr(z.Sub(a, b), lim255)
	case "int.mul":
		return okOr(z.Mul(a, b), lim255)
	case "int.quo":
		if b.Sign() == 0 {
			return "panic"
		}
		return "ok " + roundRat(a, b, rTrunc).String()
	case "int.mod":
		if b.Sign() == 0 {
			return "panic"
		}
		return "ok " + z.Mod(a, b).String()
	case "int.neg":
		return "ok " + z.Neg(a).String()
	case "int.int64":
		if a.IsInt64() {
			return "ok " + a.String()
		}
		return "panic"
	case "uint.add", "uint.sub", "uint.mul", "uint.quo":
		switch k {
		case "uint.add":
			z.Add(a, b)
		case "uint.sub":
			z.Sub(a, b)
		case "uint.mul":
			z.Mul(a, b)
		default:
			if b.Sign() == 0 {
				return "panic"
			}
			z.Quo(a, b)
		}
		if z.Sign() < 0 || z.Cmp(lim256) >= 0 {
			return "panic"
		}
		return "ok " + z.String()
	case "dec.add":
		return okOr(z.Add(a, b), lim315)
	case "dec.sub":
		return okOr(z.Sub(a, b), lim315)
	case "dec.mul":
		return okOr(roundRat(z.Mul(a, b), P, rHE), lim315)
	case "dec.multrunc":
		return okOr(roundRat(z.Mul(a, b), P, rTrunc), lim315)
	case "dec.mulint":
		return okOr(z.Mul(a, b), lim315)
	case "dec.quo", "dec.quotrunc", "dec.quoroundup":
		if b.Sign() == 0 {
			return "panic"
		}
		mode := map[string]int{"dec.quo": rHE, "dec.quotrunc": rTrunc, "dec.quoroundup": rUp}[k]
		return okOr(roundRat(z.Mul(a, P), b, mode), lim315)
	case "dec.quoint":
		if b.Sign() == 0 {
			return "panic"
		}
		return "ok " + roundRat(a, b, rTrunc).String()
	case "dec.roundint":
		return okOr(roundRat(a, P, rHE), lim255)
	case "dec.truncint":
		return okOr(roundRat(a, P, rTrunc), lim255)
	case "dec.roundint64", "dec.truncint64":
		m := rHE
		if k == "dec.truncint64" {
			m = rTrunc
		}
		x := roundRat(a, P, m)
		if x.IsInt64() {
			return "ok " + x.String()
		}
		return "panic"
	case "dec.truncdec":
		return "ok " + z.Mul(roundRat(a, P, rTrunc), P).String()
	case "dec.ceil":
		return "ok " + z.Mul(roundRat(a, P, rUp), P).String()
	case "dec.isint":
		if z.Mod(a, P).Sign() == 0 {
			return "true"
		}
		return "false"
	case "dec.fromint":
		return "ok " + z.Mul(a, P).String()
	}
	return ""
}

// doubleRounding reports whether (a, b) is in the recorded defect class of Quo/QuoRoundUp:
// the quotient is first truncated to 36 digits, which hides a non-zero tail.
func doubleRounding(k string, a, b *big.Int) bool {
	if b.Sign() == 0 {
		return false
	}
	m := new(big.Int).Mul(a, P)
	m.Mul(m, P)
	q, rem := new(big.Int).QuoRem(m, b, new(big.Int))
	if rem.Sign() == 0 {
		return false // the 36-digit quotient is exact: no information lost
	}
	q.Abs(q)
	low := new(big.Int).Mod(q, P)
	switch k {
	case "dec.quo":
		return low.Cmp(new(big.Int).Quo(P, two)) == 0
	case "dec.quoroundup":
		return low.Sign() == 0
	}
	return false
}

// rawOps: the variants taking a machine integer; they must behave exactly like the big-operand operation
// applied to that integer (the generator keeps the second operand in the machine range).
var rawOps = map[string]string{"int.addraw": "int.add", "int.subraw": "int.sub", "int.mulraw": "int.mul", "int.quoraw": "int.quo",
	"int.modraw": "int.mod", "uint.adduint64": "uint.add", "uint.subuint64": "uint.sub", "uint.muluint64": "uint.mul",
	"uint.quouint64": "uint.quo", "dec.mulint64": "dec.mulint", "dec.quoint64": "dec.quoint"}

func implRaw(k string, a, b *big.Int) (res string, after []string) {
	res = try(func() string {
		switch k {
		case "int.addraw", "int.subraw", "int.mulraw", "int.quoraw", "int.modraw":
			x := mkInt(a)
			defer func() { after = []string{x.String()} }()
			y := b.Int64()
			switch k {
			case "int.addraw":
				return "ok " + x.AddRaw(y).String()
			case "int.subraw":
				return "ok " + x.SubRaw(y).String()
			case "int.mulraw":
				return "ok " + x.MulRaw(y).String()
			case "int.quoraw":
				return "ok " + x.QuoRaw(y).String()
			default:
				return "ok " + x.ModRaw(y).String()
			}
		case "uint.adduint64", "uint.subuint64", "uint.muluint64", "uint.quouint64":
			x := mkUint(a)
			defer func() { after = []string{x.String()} }()
			y := b.Uint64()
			switch k {
			case "uint.adduint64":
				return "ok " + x.AddUint64(y).String()
			case "uint.subuint64":
				return "ok " + x.SubUint64(y).String()
			case "uint.muluint64":
				return "ok " + x.MulUint64(y).String()
			default:
				return "ok " + x.QuoUint64(y).String()
			}
		case "dec.mulint64":
			x := mkDec(a)
			defer func() { after = []string{x.Int.String()} }()
			return "ok " + x.MulInt64(b.Int64()).Int.String()
		case "dec.quoint64":
			x := mkDec(a)
			defer func() { after = []string{x.Int.String()} }()
			return "ok " + x.QuoInt64(b.Int64()).Int.String()
		}
		return "bad-op"
	})
	return
}

func cmpStr(gt, gte, lt, lte, eq bool) string {
	b := func(x bool) int {
		if x {
			return 1
		}
		return 0
	}
	return fmt.Sprintf("ok gt=%d gte=%d lt=%d lte=%d eq=%d", b(gt), b(gte), b(lt), b(lte), b(eq))
}

func execCmp(op string) (string, []common.Failure) {
	f := strings.Fields(op)
	a, b := parse(f[1]), parse(f[2])
	obs := try(func() string {
		switch f[0] {
		case "int.cmp":
			x, y := mkInt(a), mkInt(b)
			return cmpStr(x.GT(y), x.GTE(y), x.LT(y), x.LTE(y), x.Equal(y))
		case "uint.cmp":
			x, y := mkUint(a), mkUint(b)
			return cmpStr(x.GT(y), x.GTE(y), x.LT(y), x.LTE(y), x.Equal(y))
		default:
			x, y := mkDec(a), mkDec(b)
			return cmpStr(x.GT(y), x.GTE(y), x.LT(y), x.LTE(y), x.Equal(y))
		}
	})
	c := a.Cmp(b)
	want := cmpStr(c > 0, c >= 0, c < 0, c <= 0, c == 0)
	var fails []common.Failure
	if obs != want {
		fails = append(fails, common.Failure{Clause: "exact-arithmetic", Signature: "C18:" + f[0] + ":result",
			Detail: fmt.Sprintf("%s: implementation %q, exact comparison %q", op, obs, want)})
	}
	return obs, fails
}

func (Fam) Exec(op string) (string, []common.Failure) {
	f := strings.Fields(op)
	k := f[0]
	if strings.HasPrefix(k, "coins.") {
		return execCoins(op)
	}
	if strings.HasPrefix(k, "dcoins.") {
		return execDCoins(op)
	}
	if strings.HasPrefix(k, "mon.deccoins.") {
		return execDecCoins(op)
	}
	if k == "mon.convert" {
		return execConvert(op)
	}
	if k == "mon.feeproduct" {
		return execFeeProduct(op)
	}
	if strings.HasSuffix(k, ".cmp") {
		return execCmp(op)
	}
	if base, ok := rawOps[k]; ok {
		a, b := parse(f[1]), parse(f[2])
		a0 := a.String()
		obs, after := implRaw(k, a, b)
		var fails []common.Failure
		if want := spec(base, a, b); want != "" && want != obs {
			fails = append(fails, common.Failure{Clause: "exact-arithmetic", Signature: "C18:" + k + ":result",
				Detail: fmt.Sprintf("%s: implementation %q, exact arithmetic %q", op, obs, want)})
		}
		if len(after) > 0 && after[0] != a0 {
			fails = append(fails, common.Failure{Clause: "operand-mutated", Signature: "C18:" + k + ":mutated",
				Detail: fmt.Sprintf("%s: receiver after the call %v", op, after)})
		}
		return obs, fails
	}
	a := parse(f[1])
	b := new(big.Int)
	if len(f) > 2 {
		b = parse(f[2])
	}
	a0, b0 := a.String(), b.String()
	obs, after := impl(k, a, b)
	var fails []common.Failure
	if want := spec(k, a, b); want != "" && want != obs {
		sig := "C18:" + k + ":result"
		if doubleRounding(k, a, b) {
			sig = "C18:" + k + ":double-rounding"
		}
		fails = append(fails, common.Failure{Clause: "exact-arithmetic", Signature: sig,
			Detail: fmt.Sprintf("%s: implementation %q, exact arithmetic %q", op, obs, want)})
	}
	if len(after) > 0 && (after[0] != a0 || (len(after) > 1 && after[1] != b0)) {
		fails = append(fails, common.Failure{Clause: "operand-mutated", Signature: "C18:" + k + ":mutated",
			Detail: fmt.Sprintf("%s: operands after call %v", op, after)})
	}
	if a.String() != a0 || b.String() != b0 {
		fails = append(fails, common.Failure{Clause: "operand-mutated", Signature: "C18:" + k + ":mutated-input"})
	}
	return obs, fails
}

func (Fam) Class(op, obs string) string {
	f := strings.Fields(op)
	c := f[0] + "/" + strings.Fields(obs)[0]
	return c
}
