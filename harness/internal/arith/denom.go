package arith

import (
	"fmt"
	"math/big"
	"math/rand"
	"strings"

	sdk "github.com/pokt-network/posmint/types"

	"verif/harness/internal/common"
)

// registered denominations with their units, as powers of ten: the registry is process-wide
var denomExp = []struct {
	name string
	exp  int
}{{"kiloa", 3}, {"unita", 0}, {"millia", -3}, {"microa", -6}, {"nanoa", -9}} // at most twelve decimal places apart: every ratio and product is exact at 18 decimals

func init() {
	for _, d := range denomExp {
		u := sdk.OneDec()
		for i := 0; i < d.exp; i++ {
			u = u.MulInt64(10)
		}
		for i := 0; i > d.exp; i-- {
			u = u.QuoInt64(10)
		}
		if err := sdk.RegisterDenom(d.name, u); err != nil {
			panic(err)
		}
	}
}

func genConvertOp(r *rand.Rand) string {
	a := genBig(r, 190)
	a.Abs(a)
	switch r.Intn(6) {
	case 0:
		a = big.NewInt(int64(r.Intn(3000)))
	case 1:
		a = big.NewInt(500 + int64(r.Intn(3))) // around half a unit of the next coarser denomination
	case 2:
		a = big.NewInt(1500 - int64(r.Intn(2)))
	}
	return fmt.Sprintf("mon.convert %s %d %d", a, r.Intn(len(denomExp)), r.Intn(len(denomExp)))
}

// execConvert (C18, conversions follow the rounding rules: toward zero): ConvertCoin of an amount between two
// registered denominations equals the exact product truncated toward zero.
func execConvert(op string) (string, []common.Failure) {
	f := strings.Fields(op)
	a := parse(f[1])
	var si, di int
	fmt.Sscan(f[2], &si)
	fmt.Sscan(f[3], &di)
	src, dst := denomExp[si], denomExp[di]
	var got sdk.Coin
	var err error
	if p := try(func() string { got, err = sdk.ConvertCoin(sdk.NewCoin(src.name, sdk.NewIntFromBigInt(a)), dst.name); return "" }); p != "" {
		return "done", nil // out of the representable range
	}
	if err != nil {
		return "done", []common.Failure{{Clause: "convert", Signature: "C18:convertcoin:refused", Detail: fmt.Sprintf("%s: %v", op, err)}}
	}
	// exact: a * 10^(src-dst), truncated toward zero
	want := new(big.Int).Set(a)
	for i := 0; i < src.exp-dst.exp; i++ {
		want.Mul(want, big.NewInt(10))
	}
	for i := 0; i > src.exp-dst.exp; i-- {
		want.Quo(want, big.NewInt(10))
	}
	if got.Denom != dst.name || got.Amount.BigInt().Cmp(want) != 0 {
		return "done", []common.Failure{{Clause: "convert", Signature: "C18:convertcoin:result",
			Detail: fmt.Sprintf("%s: %s%s converted to %s gives %s, exact arithmetic truncated toward zero gives %s", op, a, src.name, dst.name, got.Amount, want)}}
	}
	return "done", nil
}
