package arith

import (
	"fmt"
	"math/big"
	"math/rand"
	"strings"

	sdk "github.com/pokt-network/posmint/types"
	authTypes "github.com/pokt-network/posmint/x/auth/types"
	posTypes "github.com/pokt-network/posmint/x/pos/types"

	"verif/harness/internal/common"
)

// registered denominations with their units, as powers of ten: the registry is process-wide
var denomExp = []struct {
	name string
	exp  int
}{{"kiloa", 3}, {"unita", 0}, {"millia", -3}, {"microa", -6}, {"nanoa", -9}} // at most twelve decimal places apart: every ratio and product is exact at 18 decimals

func init() {
	for _, d := range denomExp {
		u := sdk.OneDec()
		for i := 0; i < d.exp; i++ {
			u = u.MulInt64(10)
		}
		for i := 0; i > d.exp; i-- {
			u = u.QuoInt64(10)
		}
		if err := sdk.RegisterDenom(d.name, u); err != nil {
			panic(err)
		}
	}
}

func genFeeProductOp(r *rand.Rand) string {
	base := []int64{0, 1, 10000, 3000000000, 5000000000, 9223372036854775807}[r.Intn(6)]
	mult := []int64{0, 1, 2, 5, 4000000000, 1000000000000000, 9223372036854775807}[r.Intn(7)]
	return fmt.Sprintf("mon.feeproduct %d %d", base, mult)
}

// execFeeProduct (C18, exact and overflow-safe: the required fee of a message is its base fee times its multiplier,
// computed in Int arithmetic - exact beyond the machine word)
func execFeeProduct(op string) (string, []common.Failure) {
	f := strings.Fields(op)
	var base, mult int64
	fmt.Sscan(f[1], &base)
	fmt.Sscan(f[2], &mult)
	posTypes.PosFeeMap = map[string]int64{"send": base}
	var got sdk.Int
	if p := try(func() string {
		got = authTypes.FeeMultipliers{FeeMultis: []authTypes.FeeMultiplier{{Key: "other", Multiplier: 7}, {Key: "send", Multiplier: mult}}, Default: 1}.GetFee(posTypes.MsgSend{})
		return ""
	}); p != "" {
		return "done", []common.Failure{{Clause: "fee-product", Signature: "C18:fee-product:panic", Detail: op}}
	}
	want := new(big.Int).Mul(big.NewInt(base), big.NewInt(mult))
	if got.BigInt().Cmp(want) != 0 {
		return "done", []common.Failure{{Clause: "fee-product", Signature: "C18:fee-product:result",
			Detail: fmt.Sprintf("%s: base fee %d times multiplier %d gives %s, exactly %s", op, base, mult, got, want)}}
	}
	return "done", nil
}

func genConvertOp(r *rand.Rand) string {
	a := genBig(r, 190)
	a.Abs(a)
	switch r.Intn(6) {
	case 0:
		a = big.NewInt(int64(r.Intn(3000)))
	case 1:
		a = big.NewInt(500 + int64(r.Intn(3))) // around half a unit of the next coarser denomination
	case 2:
		a = big.NewInt(1500 - int64(r.Intn(2)))
	}
	return fmt.Sprintf("mon.convert %s %d %d", a, r.Intn(len(denomExp)), r.Intn(len(denomExp)))
}

// execConvert (C18, conversions follow the rounding rules: toward zero): ConvertCoin of an amount between two
// registered denominations equals the exact product truncated toward zero.
func execConvert(op string) (string, []common.Failure) {
	f := strings.Fields(op)
	a := parse(f[1])
	var si, di int
	fmt.Sscan(f[2], &si)
	fmt.Sscan(f[3], &di)
	src, dst := denomExp[si], denomExp[di]
	var got sdk.Coin
	var err error
	if p := try(func() string { got, err = sdk.ConvertCoin(sdk.NewCoin(src.name, sdk.NewIntFromBigInt(a)), dst.name); return "" }); p != "" {
		return "done", nil // out of the representable range
	}
	if err != nil {
		return "done", []common.Failure{{Clause: "convert", Signature: "C18:convertcoin:refused", Detail: fmt.Sprintf("%s: %v", op, err)}}
	}
	// exact: a * 10^(src-dst), truncated toward zero
	want := new(big.Int).Set(a)
	for i := 0; i < src.exp-dst.exp; i++ {
		want.Mul(want, big.NewInt(10))
	}
	for i := 0; i > src.exp-dst.exp; i-- {
		want.Quo(want, big.NewInt(10))
	}
	if got.Denom != dst.name || got.Amount.BigInt().Cmp(want) != 0 {
		return "done", []common.Failure{{Clause: "convert", Signature: "C18:convertcoin:result",
			Detail: fmt.Sprintf("%s: %s%s converted to %s gives %s, exact arithmetic truncated toward zero gives %s", op, a, src.name, dst.name, got.Amount, want)}}
	}
	return "done", nil
}
