package arith

// The Coins part of C18: the real types.Coins operations against the Lean model (ops/obs lines) and
// against an independent per-denomination oracle over math/big maps.

import (
	"fmt"
	"math/big"
	"math/rand"
	"regexp"
	"sort"
	"strings"

	sdk "github.com/pokt-network/posmint/types"

	"verif/harness/internal/common"
)

var goodDenoms = []string{"aaa", "aab", "abc", "stake", "upokt", "z99", "zzz", "abcdefghijklmnop"}
var badDenoms = []string{"Abc", "ab", "a", "1ab", "abcdefghijklmnopq", "a_b", "b", "aaB", "zzzz0A"}
var denomRe = regexp.MustCompile(`^[a-z][a-z0-9]{2,15}$`)

var coinKinds2 = []string{"coins.add", "coins.sub", "coins.safesub", "coins.allgt", "coins.allgte", "coins.alllt", "coins.alllte",
	"coins.anygt", "coins.anygte", "coins.subset", "coins.isequal"}

func parseCoins(s string) sdk.Coins {
	if s == "-" {
		return sdk.Coins{}
	}
	var cs sdk.Coins
	for _, it := range strings.Split(s, ",") {
		x := strings.Split(it, ":")
		cs = append(cs, sdk.Coin{Denom: x[0], Amount: mkInt(parse(x[1]))})
	}
	return cs
}

func fmtCoins(cs sdk.Coins) string {
	if len(cs) == 0 {
		return "-"
	}
	var p []string
	for _, c := range cs {
		p = append(p, c.Denom+":"+c.Amount.String())
	}
	return strings.Join(p, ",")
}

// genAmount: a positive amount, boundary-biased over the whole Int range
func genAmount(r *rand.Rand) *big.Int {
	switch r.Intn(8) {
	case 0:
		return big.NewInt(1)
	case 1:
		return big.NewInt(int64(1 + r.Intn(5)))
	case 2: // close to the top of the Int range: sums overflow
		x := new(big.Int).Lsh(one, 255)
		return x.Sub(x, big.NewInt(int64(1+r.Intn(3))))
	case 3:
		x := new(big.Int).Lsh(one, 254)
		return x.Add(x, big.NewInt(int64(r.Intn(3)-1)))
	default:
		x := genBig(r, 200)
		x.Abs(x)
		if x.Sign() == 0 {
			x.SetInt64(7)
		}
		return x
	}
}

type cset map[string]*big.Int

// genValid: a canonical coin set
func genValid(r *rand.Rand) cset {
	m := cset{}
	n := r.Intn(5)
	for i := 0; i < n; i++ {
		m[goodDenoms[r.Intn(len(goodDenoms))]] = genAmount(r)
	}
	return m
}

func (m cset) text() string {
	var ds []string
	for d := range m {
		ds = append(ds, d)
	}
	sort.Strings(ds)
	var p []string
	for _, d := range ds {
		p = append(p, d+":"+m[d].String())
	}
	if len(p) == 0 {
		return "-"
	}
	return strings.Join(p, ",")
}

// related: a set derived from m: amounts one unit either side, denominations dropped or added
func related(r *rand.Rand, m cset) cset {
	n := cset{}
	for d, a := range m {
		switch r.Intn(6) {
		case 0: // drop
		case 1:
			n[d] = new(big.Int).Add(a, one)
			if !within(n[d], lim255) {
				n[d] = new(big.Int).Set(a)
			}
		case 2:
			if a.Cmp(one) > 0 {
				n[d] = new(big.Int).Sub(a, one)
			} else {
				n[d] = new(big.Int).Set(a)
			}
		case 3:
			n[d] = genAmount(r)
		default:
			n[d] = new(big.Int).Set(a)
		}
	}
	if r.Intn(3) == 0 {
		n[goodDenoms[r.Intn(len(goodDenoms))]] = genAmount(r)
	}
	return n
}

// genRaw: an arbitrary, mostly non-canonical coin list (for IsValid / NewCoins)
func genRaw(r *rand.Rand) string {
	n := r.Intn(5)
	var p []string
	for i := 0; i < n; i++ {
		d := goodDenoms[r.Intn(len(goodDenoms))]
		if r.Intn(5) == 0 {
			d = badDenoms[r.Intn(len(badDenoms))]
		}
		a := genAmount(r)
		switch r.Intn(8) {
		case 0:
			a = big.NewInt(0)
		case 1:
			a = new(big.Int).Neg(a)
		}
		p = append(p, d+":"+a.String())
	}
	if r.Intn(2) == 0 {
		sort.Slice(p, func(i, j int) bool { return strings.Split(p[i], ":")[0] < strings.Split(p[j], ":")[0] })
	}
	if len(p) == 0 {
		return "-"
	}
	return strings.Join(p, ",")
}

func hasDupDenom(text string) bool {
	seen := map[string]bool{}
	if text == "-" {
		return false
	}
	for _, it := range strings.Split(text, ",") {
		d := strings.Split(it, ":")[0]
		if seen[d] {
			return true
		}
		seen[d] = true
	}
	return false
}

func genCoinsOp(r *rand.Rand) string {
	switch r.Intn(10) {
	case 0:
		return "coins.valid " + genRaw(r)
	case 1:
		return "coins.new " + genRaw(r)
	case 2:
		d := goodDenoms[r.Intn(len(goodDenoms))]
		if r.Intn(6) == 0 {
			d = badDenoms[r.Intn(len(badDenoms))]
		}
		return "coins.amountof " + genValid(r).text() + " " + d
	case 3:
		if r.Intn(2) == 0 {
			return "coins.iszero " + genRaw(r)
		}
		return "coins.iszero " + genValid(r).text()
	}
	k := coinKinds2[r.Intn(len(coinKinds2))]
	a := genValid(r)
	b := genValid(r)
	if r.Intn(2) == 0 {
		b = related(r, a)
	}
	at, bt := a.text(), b.text()
	if r.Intn(12) == 0 { // operands outside the contract: sorted, but with zero or negative amounts or a bad later denomination
		bt = genRaw(r)
		if k == "coins.isequal" && hasDupDenom(bt) {
			// IsEqual sorts its operands with an unstable sort: with a denomination listed twice the outcome (false, or the
			// panic on a denomination mismatch further on) depends on where the sort leaves the duplicates - not a property
			// of the code the model could share
			bt = genValid(r).text()
		}
	}
	if r.Intn(2) == 0 {
		at, bt = bt, at
	}
	return fmt.Sprintf("%s %s %s", k, at, bt)
}

// ---- oracle

func toSet(cs sdk.Coins) (cset, bool) {
	m := cset{}
	prev := ""
	for i, c := range cs {
		if !denomRe.MatchString(c.Denom) || c.Amount.BigInt().Sign() <= 0 || (i > 0 && c.Denom <= prev) {
			return nil, false
		}
		prev = c.Denom
		m[c.Denom] = c.Amount.BigInt()
	}
	return m, true
}

// canonical: the form the property names - sorted by denomination, no duplicates, no zero (or negative) amounts.
// (Whether each denomination matches the denomination syntax is a separate matter: Coins.IsValid applies the
// regular expression to the first coin only, and the property does not speak about it.)
func canonical(cs sdk.Coins) bool {
	for i, c := range cs {
		if c.Amount.BigInt().Sign() <= 0 || (i > 0 && c.Denom <= cs[i-1].Denom) {
			return false
		}
	}
	return true
}

func get(m cset, d string) *big.Int {
	if x, ok := m[d]; ok {
		return x
	}
	return new(big.Int)
}

func union(a, b cset) []string {
	s := map[string]bool{}
	for d := range a {
		s[d] = true
	}
	for d := range b {
		s[d] = true
	}
	var l []string
	for d := range s {
		l = append(l, d)
	}
	sort.Strings(l)
	return l
}

// coinsSpec: what exact per-denomination arithmetic says, for canonical operands ("" = no opinion)
func coinsSpec(k string, a, b cset) string {
	b2s := func(x bool) string { return fmt.Sprint(x) }
	switch k {
	case "coins.add", "coins.sub", "coins.safesub":
		res := cset{}
		neg := false
		for _, d := range union(a, b) {
			var x *big.Int
			if k == "coins.add" {
				x = new(big.Int).Add(get(a, d), get(b, d))
				if _, both := b[d]; both {
					if _, both2 := a[d]; both2 && !within(x, lim255) {
						return "panic"
					}
				}
			} else {
				x = new(big.Int).Sub(get(a, d), get(b, d))
			}
			if x.Sign() < 0 {
				neg = true
			}
			if x.Sign() != 0 {
				res[d] = x
			}
		}
		switch k {
		case "coins.sub":
			if neg {
				return "panic"
			}
			return "ok " + res.text()
		case "coins.safesub":
			return "ok " + res.text() + " neg=" + b2s(neg)
		}
		return "ok " + res.text()
	case "coins.allgte":
		for d := range b {
			if get(a, d).Cmp(b[d]) < 0 {
				return "false"
			}
		}
		return "true"
	case "coins.alllte":
		return coinsSpec("coins.allgte", b, a)
	case "coins.allgt":
		if len(a) == 0 {
			return "false"
		}
		for d := range b {
			if get(a, d).Cmp(b[d]) <= 0 {
				return "false"
			}
		}
		return "true"
	case "coins.alllt":
		return coinsSpec("coins.allgt", b, a)
	case "coins.anygt", "coins.anygte":
		for d := range a {
			if y, ok := b[d]; ok {
				c := a[d].Cmp(y)
				if c > 0 || (c == 0 && k == "coins.anygte") {
					return "true"
				}
			}
		}
		return "false"
	case "coins.subset":
		for d := range a {
			if _, ok := b[d]; !ok {
				return "false"
			}
		}
		return "true"
	case "coins.isequal":
		if len(a) != len(b) {
			return "false"
		}
		for d := range a {
			if y, ok := b[d]; !ok || y.Cmp(a[d]) != 0 {
				return "false"
			}
		}
		return "true"
	}
	return ""
}

func execCoins(op string) (string, []common.Failure) {
	f := strings.Fields(op)
	k := f[0]
	a := parseCoins(f[1])
	a0 := fmtCoins(a)
	var b sdk.Coins
	b0 := ""
	if len(f) > 2 && k != "coins.amountof" {
		b = parseCoins(f[2])
		b0 = fmtCoins(b)
	}
	// validity of the operands is judged before the call (IsEqual sorts an unsorted operand in place)
	sa, okA := toSet(a)
	sb, okB := toSet(b)
	bs := func(x bool) string { return fmt.Sprint(x) }
	var result sdk.Coins
	hasResult := false
	obs := try(func() string {
		switch k {
		case "coins.valid":
			return bs(a.IsValid())
		case "coins.new":
			cp := append(sdk.Coins{}, a...)
			result, hasResult = sdk.NewCoins(cp...), true
			return "ok " + fmtCoins(result)
		case "coins.iszero":
			return bs(a.IsZero())
		case "coins.amountof":
			return "ok " + a.AmountOf(f[2]).String()
		case "coins.add":
			result, hasResult = a.Add(b), true
			return "ok " + fmtCoins(result)
		case "coins.sub":
			result, hasResult = a.Sub(b), true
			return "ok " + fmtCoins(result)
		case "coins.safesub":
			d, neg := a.SafeSub(b)
			return "ok " + fmtCoins(d) + " neg=" + bs(neg)
		case "coins.allgt":
			return bs(a.IsAllGT(b))
		case "coins.allgte":
			return bs(a.IsAllGTE(b))
		case "coins.alllt":
			return bs(a.IsAllLT(b))
		case "coins.alllte":
			return bs(a.IsAllLTE(b))
		case "coins.anygt":
			return bs(a.IsAnyGT(b))
		case "coins.anygte":
			return bs(a.IsAnyGTE(b))
		case "coins.subset":
			return bs(a.DenomsSubsetOf(b))
		case "coins.isequal":
			return bs(a.IsEqual(b))
		}
		return "bad-op"
	})
	var fails []common.Failure
	if okA && okB && b0 != "" {
		if want := coinsSpec(k, sa, sb); want != "" && want != obs {
			sig := "C18:" + k + ":result"
			if k == "coins.isequal" && obs == "panic" {
				sig = "C18:coins.isequal:panics-on-different-denominations"
			}
			fails = append(fails, common.Failure{Clause: "coins-per-denomination", Signature: sig,
				Detail: fmt.Sprintf("%s: implementation %q, per-denomination arithmetic %q", op, obs, want)})
		}
		// valid operands are never mutated
		if fmtCoins(a) != a0 || fmtCoins(b) != b0 {
			fails = append(fails, common.Failure{Clause: "operand-mutated", Signature: "C18:" + k + ":mutated",
				Detail: fmt.Sprintf("%s: operands after the call: %s %s", op, fmtCoins(a), fmtCoins(b))})
		}
		// results are values of their own: a receiver with spare capacity used again (with the same operand, and with
		// one whose denominations sort after all of its own) must not reach into an earlier result; an operand used on
		// both sides is read, not consumed
		if k == "coins.add" || k == "coins.sub" || k == "coins.safesub" {
			if bad := try(func() string {
				a2 := make(sdk.Coins, len(a), len(a)+8)
				copy(a2, a)
				call := func(x, y sdk.Coins) sdk.Coins {
					switch k {
					case "coins.sub":
						if !x.IsAllGTE(y) && !y.IsZero() {
							return x.Add(y)
						}
						return x.Sub(y)
					case "coins.safesub":
						d, _ := x.SafeSub(y)
						return d
					}
					return x.Add(y)
				}
				r1 := call(a2, b)
				s1 := fmtCoins(r1)
				tail := sdk.Coins{{Denom: "zzzzzzzzzzzzzzzy", Amount: sdk.NewInt(7)}, {Denom: "zzzzzzzzzzzzzzzz", Amount: sdk.NewInt(9)}}
				r2 := a2.Add(tail)
				s2 := fmtCoins(r2)
				r3 := a2.Add(sdk.Coins{{Denom: "zzzzzzzzzzzzzzzz", Amount: sdk.NewInt(11)}})
				_ = r3
				if fmtCoins(r1) != s1 {
					return fmt.Sprintf("the result %s became %s after the receiver was used again", s1, fmtCoins(r1))
				}
				if fmtCoins(r2) != s2 {
					return fmt.Sprintf("the result %s became %s after the receiver was used again", s2, fmtCoins(r2))
				}
				if fmtCoins(a2) != a0 {
					return fmt.Sprintf("the receiver became %s", fmtCoins(a2))
				}
				return ""
			}); bad != "" && bad != "panic" {
				fails = append(fails, common.Failure{Clause: "result-independent", Signature: "C18:" + k + ":result-aliases-operand",
					Detail: fmt.Sprintf("%s: %s", op, bad)})
			}
		}
		// canonical form of results
		if hasResult {
			if !canonical(result) {
				fails = append(fails, common.Failure{Clause: "canonical-form", Signature: "C18:" + k + ":not-canonical",
					Detail: fmt.Sprintf("%s: result %s is not sorted / has duplicates, zero or negative amounts", op, fmtCoins(result))})
			}
		}
	}
	if k == "coins.new" && hasResult {
		if !canonical(result) {
			fails = append(fails, common.Failure{Clause: "canonical-form", Signature: "C18:coins.new:not-canonical",
				Detail: fmt.Sprintf("%s: NewCoins returned %s", op, fmtCoins(result))})
		}
	}
	if k == "coins.valid" {
		_, strict := toSet(a)
		if obs == "false" && strict {
			fails = append(fails, common.Failure{Clause: "canonical-form", Signature: "C18:coins.valid:rejects-canonical",
				Detail: op + ": a sorted, duplicate-free, positive set over valid denominations is reported invalid"})
		}
	}
	return obs, fails
}
