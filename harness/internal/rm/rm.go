// Package rm: family "rm" (C12, C13, C14): the real rootmulti.Store over IAVL substores and a
// transient store on a MemDB wrapped with a crash injector; compared with the Lean model and
// checked by direct oracles (durability, pruning closed form, crash atomicity, proofs).
package rm

import (
	"bytes"
	"encoding/hex"
	"fmt"
	"math/rand"
	"sort"
	"strconv"
	"strings"

	amino "github.com/tendermint/go-amino"
	abci "github.com/tendermint/tendermint/abci/types"
	"github.com/tendermint/tendermint/libs/log"
	dbm "github.com/tendermint/tm-db"

	bam "github.com/pokt-network/posmint/baseapp"

	"github.com/pokt-network/posmint/store/iavl"
	"github.com/pokt-network/posmint/store/rootmulti"
	stypes "github.com/pokt-network/posmint/store/types"

	"verif/harness/internal/common"
)

// ---- crash-injecting DB: counts batch writes, panics when the budget is exhausted

type crashDB struct {
	dbm.DB
	budget *int // remaining batch writes before the crash; <0 = unlimited
	writes *int
}

type crashPanic struct{}

func (c crashDB) NewBatch() dbm.Batch { return &crashBatch{Batch: c.DB.NewBatch(), c: c} }

type crashBatch struct {
	dbm.Batch
	c crashDB
}

func (b *crashBatch) Write() {
	if *b.c.budget == 0 {
		panic(crashPanic{})
	}
	if *b.c.budget > 0 {
		*b.c.budget--
	}
	*b.c.writes++
	b.Batch.Write()
}
func (b *crashBatch) WriteSync() { b.Write() }

type inst struct {
	mem    *dbm.MemDB
	budget int
	writes int
	ms     *rootmulti.Store
	keys   []*stypes.KVStoreKey
	tkey   *stypes.TransientStoreKey
}

type Fam struct {
	Profile string
	a, b    *inst // a: instance under test (crashes); b: shadow, never crashes
	n       int
	kr, ke  int64
	pend    []string          // writes since the last successful commit (for replay)
	hashes  map[int64]string  // commit hash per version (from the shadow)
	needReplay bool
	dead    bool
	ops     int
	extra   map[string]int
	readBack []string
}

func New(profile string) *Fam { return &Fam{Profile: profile, extra: map[string]int{}, dead: true} }
func (f *Fam) Extra() map[string]int { return f.extra }

func (f *Fam) open(mem *dbm.MemDB) (*inst, error) {
	in := &inst{mem: mem, budget: -1}
	db := crashDB{DB: mem, budget: &in.budget, writes: &in.writes}
	in.ms = f.newMultiStore(db)
	for i := 0; i < f.n; i++ {
		k := stypes.NewKVStoreKey(fmt.Sprintf("s%d", i))
		in.keys = append(in.keys, k)
		in.ms.MountStoreWithDB(k, stypes.StoreTypeIAVL, nil)
	}
	in.tkey = stypes.NewTransientStoreKey("t")
	in.ms.MountStoreWithDB(in.tkey, stypes.StoreTypeTransient, nil)
	var err error
	func() {
		defer func() {
			if e := recover(); e != nil {
				err = fmt.Errorf("panic: %v", e)
			}
		}()
		err = in.ms.LoadLatestVersion()
	}()
	return in, err
}

// newMultiStore: the multistore of a base application, its pruning configured the way an application configures it
// (the `SetPruning` option of the base app), or - every other chain - a bare multistore with `SetPruning` called on it
func (f *Fam) newMultiStore(db dbm.DB) *rootmulti.Store {
	opts := stypes.NewPruningOptions(f.kr, f.ke)
	if (f.kr+f.ke+int64(f.n))%2 == 0 {
		app := bam.NewBaseApp("rm", log.NewNopLogger(), db, nil, bam.SetPruning(opts))
		if ms, ok := app.Store().(*rootmulti.Store); ok {
			f.extra["multistore-of-a-base-app"]++
			return ms
		}
	}
	ms := rootmulti.NewStore(db)
	ms.SetPruning(opts)
	return ms
}

func hx(b []byte) string {
	if len(b) == 0 {
		return "-"
	}
	return hex.EncodeToString(b)
}
func unhx(s string) []byte {
	if s == "-" {
		return []byte{}
	}
	b, _ := hex.DecodeString(s)
	return b
}

func dumpStore(s stypes.KVStore) string {
	it := s.Iterator(nil, nil)
	defer it.Close()
	var p []string
	for ; it.Valid(); it.Next() {
		p = append(p, hx(it.Key())+"="+hx(it.Value()))
	}
	return "[" + strings.Join(p, ",") + "]"
}

func (in *inst) dump() string {
	var p []string
	for i, k := range in.keys {
		p = append(p, fmt.Sprintf("s%d%s", i, dumpStore(in.ms.GetCommitKVStore(k))))
	}
	p = append(p, "t"+dumpStore(in.ms.GetKVStore(in.tkey)))
	return strings.Join(p, " ")
}

func (in *inst) store(w string) stypes.KVStore {
	if w == "t" {
		return in.ms.GetKVStore(in.tkey)
	}
	i, _ := strconv.Atoi(w)
	return in.ms.GetCommitKVStore(in.keys[i])
}

// ---- generation

func genKey(r *rand.Rand) string {
	return hx([]byte{byte(r.Intn(6))})
}

func (f *Fam) Gen(r *rand.Rand, i int) string {
	if f.dead || f.ops > 60+r.Intn(200) {
		opts := [][2]int64{{0, 0}, {0, 1}, {100, 10000}, {1, 0}, {2, 3}, {1, 2}, {3, 0}, {0, 2}, {5, 4}}
		o := opts[r.Intn(len(opts))]
		return fmt.Sprintf("new kr=%d ke=%d n=%d", o[0], o[1], 1+r.Intn(4))
	}
	if f.needReplay {
		return "replay"
	}
	st := func() string {
		if r.Intn(8) == 0 {
			return "t"
		}
		return strconv.Itoa(r.Intn(f.n))
	}
	ver := f.a.ms.LastCommitID().Version
	switch x := r.Intn(100); {
	case x < 35:
		if r.Intn(10) == 0 { // an existing key with an empty value (a marker / index entry)
			return fmt.Sprintf("set %s %s -", st(), genKey(r))
		}
		return fmt.Sprintf("set %s %s %s", st(), genKey(r), hx([]byte{byte(r.Intn(256)), byte(r.Intn(3))}))
	case x < 45:
		return fmt.Sprintf("del %s %s", st(), genKey(r))
	case x < 65:
		return "commit"
	case x < 73:
		if ver == 0 { // a crash during the very first commit is the recorded finding F20 (corpus witness)
			return "commit"
		}
		return fmt.Sprintf("crashcommit %d", r.Intn(2*f.n+3))
	case x < 78:
		return "reopen"
	case x < 83:
		v := int64(0)
		if ver > 0 {
			v = r.Int63n(ver+2) + 0
		}
		return fmt.Sprintf("load %d", v)
	case x < 88:
		// a read-only copy of the running multistore loaded at a height, as the base app makes one for every custom
		// query (height 0 - "latest" - also before the first commit and with uncommitted writes pending)
		v := int64(0)
		if ver > 0 && r.Intn(3) != 0 {
			v = r.Int63n(ver+2) + 0
		}
		return fmt.Sprintf("snapshot %d", v)
	default:
		h := int64(0)
		if r.Intn(4) != 0 && ver > 0 {
			h = r.Int63n(ver+2) + 0
		}
		return fmt.Sprintf("query %d %s %d %d", r.Intn(f.n), genKey(r), h, r.Intn(2))
	}
}

// ---- execution

func (f *Fam) applyWrite(in *inst, w []string) {
	s := in.store(w[1])
	// every other write arrives the way a block's writes do: through a cache-wrapped multistore that is then flushed
	// (which of the two ways is decided by the operation text, so that replays and the second instance agree)
	h := 0
	for _, c := range strings.Join(w, " ") {
		h = h*31 + int(c)
	}
	if h%2 == 0 {
		cms := in.ms.CacheMultiStore()
		defer cms.Write()
		if w[1] == "t" {
			s = cms.GetKVStore(in.tkey)
		} else {
			i, _ := strconv.Atoi(w[1])
			s = cms.GetKVStore(in.keys[i])
		}
		f.extra["writes-through-cache-multistore"]++
	}
	if w[0] == "set" {
		s.Set(unhx(w[2]), unhx(w[3]))
		// what was written is what is read, an empty value included (present, not absent)
		if got := s.Get(unhx(w[2])); got == nil || !bytes.Equal(got, unhx(w[3])) || !s.Has(unhx(w[2])) {
			f.readBack = append(f.readBack, fmt.Sprintf("%s: Get returned %x (nil: %v), Has %v", strings.Join(w, " "), got, got == nil, s.Has(unhx(w[2]))))
		}
	} else {
		s.Delete(unhx(w[2]))
		if got := s.Get(unhx(w[2])); got != nil || s.Has(unhx(w[2])) {
			f.readBack = append(f.readBack, fmt.Sprintf("%s: still present after the delete (%x)", strings.Join(w, " "), got))
		}
	}
}

func (f *Fam) Exec(op string) (obs string, fails []common.Failure) {
	w := strings.Fields(op)
	fail := func(clause, sig, detail string) {
		fails = append(fails, common.Failure{Clause: clause, Signature: sig, Detail: detail})
	}
	f.ops++
	if w[0] == "new" {
		m := map[string]int64{}
		for _, t := range w[1:] {
			kv := strings.SplitN(t, "=", 2)
			m[kv[0]], _ = strconv.ParseInt(kv[1], 10, 64)
		}
		f.kr, f.ke, f.n = m["kr"], m["ke"], int(m["n"])
		var err, err2 error
		f.a, err = f.open(dbm.NewMemDB())
		f.b, err2 = f.open(dbm.NewMemDB())
		f.pend, f.hashes, f.needReplay, f.ops = nil, map[int64]string{}, false, 0
		f.dead = err != nil || err2 != nil
		if f.dead {
			return "err", nil
		}
		return "ok", nil
	}
	if f.dead {
		return "dead", nil
	}
	switch w[0] {
	case "set", "del":
		f.readBack = nil
		f.applyWrite(f.a, w)
		f.applyWrite(f.b, w)
		for _, d := range f.readBack {
			fail("read-back", "C12:write-not-read-back", d)
		}
		if w[1] != "t" {
			f.pend = append(f.pend, op)
		}
		return "ok", fails
	case "commit", "replay":
		if w[0] == "replay" {
			for _, p := range f.pend {
				f.applyWrite(f.a, strings.Fields(p))
			}
			f.needReplay = false
		} else {
			f.commitShadow()
		}
		before := f.a.ms.LastCommitID().Version
		var id stypes.CommitID
		perr := ""
		func() {
			defer func() {
				if e := recover(); e != nil {
					perr = fmt.Sprint(e)
				}
			}()
			id = f.a.ms.Commit()
		}()
		if perr != "" {
			f.dead = true
			fail("commit-panicked", "C13:replay-commit-failed", w[0]+" panicked: "+perr)
			return "panic", fails
		}
		f.pend = nil
		f.checkCommit(before, id, w[0], fail)
		return fmt.Sprintf("v=%d", id.Version), fails
	case "crashcommit":
		k, _ := strconv.Atoi(w[1])
		before := f.a.ms.LastCommitID().Version
		oldDump := f.committedDump()
		f.commitShadow()
		f.a.budget = k
		crashed := false
		var id stypes.CommitID
		func() {
			defer func() {
				if e := recover(); e != nil {
					if _, ok := e.(crashPanic); ok {
						crashed = true
						return
					}
					panic(e)
				}
			}()
			id = f.a.ms.Commit()
		}()
		f.a.budget = -1
		f.extra[fmt.Sprintf("crash:kr%d:writes%d:crashed=%v", f.kr, f.a.writes, crashed)]++
		f.a.writes = 0
		if !crashed {
			f.pend = nil
			f.checkCommit(before, id, "crashcommit", fail)
			return fmt.Sprintf("done v=%d", id.Version), fails
		}
		// the process died: reopen the database with a fresh store
		na, err := f.open(f.a.mem)
		if err != nil {
			f.dead = true
			sig := "C13:reopen-failed-after-crash"
			if f.kr == 0 && k >= 2 {
				sig = "C13:reopen-failed-after-crash:keepRecent0" // the recorded class: previous version pruned before the commit info is flushed
			}
			fail("crash-atomic", sig, fmt.Sprintf("crash after %d batch writes of commit %d (keepRecent=%d keepEvery=%d): reopening fails: %v", k, before+1, f.kr, f.ke, err))
			return "crashed reopen-err", fails
		}
		f.a = na
		got := f.a.ms.LastCommitID().Version
		d := f.a.dump()
		if got != before || d != oldDump {
			sig := "C13:mixed-state-after-crash"
			if before == 0 {
				sig = "C13:first-commit-crash-version-skew"
			}
			f.dead = true
			fail("crash-atomic", sig, fmt.Sprintf("crash after %d writes of commit %d: reopened at version %d with %s, previous version %d had %s", k, before+1, got, d, before, oldDump))
		}
		f.needReplay = true
		return fmt.Sprintf("crashed reopen-ok v=%d %s", got, d), fails
	case "reopen":
		if len(f.pend) > 0 { // uncommitted writes are lost by a restart: keep the shadow in step
			nb, _ := f.open(f.b.mem)
			f.b = nb
			f.pend = nil
		}
		want := f.committedDump()
		na, err := f.open(f.a.mem)
		if err != nil {
			f.dead = true
			fail("durable", "C12:reopen-failed", "reopening the database failed: "+err.Error())
			return "err", fails
		}
		lv := f.a.ms.LastCommitID()
		f.a = na
		if na.ms.LastCommitID().Version != lv.Version || !bytes.Equal(na.ms.LastCommitID().Hash, lv.Hash) {
			fail("durable", "C12:reopen-commitid", fmt.Sprintf("reopened store reports commit id %v, before %v", na.ms.LastCommitID(), lv))
		}
		d := na.dump()
		if d != want {
			fail("durable", "C12:reopen-content", fmt.Sprintf("reopened content %s, committed content %s", d, want))
		}
		return fmt.Sprintf("v=%d %s", na.ms.LastCommitID().Version, d), fails
	case "load":
		v, _ := strconv.ParseInt(w[1], 10, 64)
		in := &inst{mem: f.a.mem, budget: -1}
		tmp, _ := f.open2(in, v)
		if tmp == "" {
			return "err", nil
		}
		return "ok " + tmp, nil
	case "snapshot":
		v, _ := strconv.ParseInt(w[1], 10, 64)
		f.extra["snapshot-copies"]++
		if len(f.pend) > 0 {
			f.extra["snapshot-copies-with-writes-pending"]++
		}
		obs := "err"
		before := f.a.dump()
		func() {
			defer func() {
				if e := recover(); e != nil {
					obs = "err"
				}
			}()
			cp, ok := (*f.a.ms.CopyStore()).(*rootmulti.Store)
			if !ok {
				return
			}
			if err := cp.LoadVersion(v); err != nil {
				return
			}
			obs = "ok " + (&inst{ms: cp, keys: f.a.keys, tkey: f.a.tkey}).dump()
		}()
		// the copy is read-only as far as the running store is concerned: the instance still holds what it held,
		// pending writes included
		if da, db := f.a.dump(), before; da != db {
			fail("snapshot-read-only", "C12:snapshot-disturbed-store", fmt.Sprintf("after a copy of the multistore was loaded at height %d the running store holds %s, expected %s", v, da, db))
		}
		return obs, fails
	case "query":
		return f.query(w, fail), fails
	}
	return "bad-op", nil
}

// committedDump: the content of the last committed version, obtained from the shadow's view of
// what it committed (shadow and instance receive the same writes).
func (f *Fam) committedDump() string {
	v := f.a.ms.LastCommitID().Version
	if v == 0 { // nothing committed yet: every store is empty (LoadVersion(0) would load the latest)
		var p []string
		for i := 0; i < f.n; i++ {
			p = append(p, fmt.Sprintf("s%d[]", i))
		}
		return strings.Join(append(p, "t[]"), " ")
	}
	in := &inst{mem: f.b.mem, budget: -1}
	d, _ := f.open2(in, v)
	return d
}

// open2 loads version v into a fresh store over in.mem and dumps it; "" on error.
func (f *Fam) open2(in *inst, v int64) (d string, err error) {
	db := crashDB{DB: in.mem, budget: &in.budget, writes: &in.writes}
	in.ms = f.newMultiStore(db)
	for i := 0; i < f.n; i++ {
		k := stypes.NewKVStoreKey(fmt.Sprintf("s%d", i))
		in.keys = append(in.keys, k)
		in.ms.MountStoreWithDB(k, stypes.StoreTypeIAVL, nil)
	}
	in.tkey = stypes.NewTransientStoreKey("t")
	in.ms.MountStoreWithDB(in.tkey, stypes.StoreTypeTransient, nil)
	func() {
		defer func() {
			if e := recover(); e != nil {
				err = fmt.Errorf("%v", e)
			}
		}()
		err = in.ms.LoadVersion(v)
	}()
	if err != nil {
		return "", err
	}
	return in.dump(), nil
}

func (f *Fam) commitShadow() {
	id := f.b.ms.Commit()
	f.hashes[id.Version] = hex.EncodeToString(id.Hash)
}

func (f *Fam) checkCommit(before int64, id stypes.CommitID, how string, fail func(string, string, string)) {
	if id.Version != before+1 {
		fail("version-succ", "C12:version-not-succ", fmt.Sprintf("%s returned version %d after %d", how, id.Version, before))
	}
	if l := f.a.ms.LastCommitID(); l.Version != id.Version || !bytes.Equal(l.Hash, id.Hash) {
		fail("hash-reported", "C12:lastcommitid-ne-commit", "LastCommitID differs from what Commit returned")
	}
	if h, ok := f.hashes[id.Version]; ok && h != hex.EncodeToString(id.Hash) {
		sig := "C01:hash-differs-between-instances"
		if how == "replay" {
			sig = "C13:replay-hash-differs"
			if before == 0 {
				sig = "C13:first-commit-crash-version-skew"
			}
		}
		f.dead = true // the instances have diverged: nothing after this is comparable
		per := ""
		for i := range f.a.keys {
			per += fmt.Sprintf(" s%d:%x/%x", i, f.a.ms.GetCommitKVStore(f.a.keys[i]).LastCommitID().Hash, f.b.ms.GetCommitKVStore(f.b.keys[i]).LastCommitID().Hash)
		}
		fail("same-hash", sig, fmt.Sprintf("%s of version %d gives hash %x, an uninterrupted instance gives %s (per store a/b:%s)", how, id.Version, id.Hash, h, per))
	}
	if d := dumpStore(f.a.ms.GetKVStore(f.a.tkey)); d != "[]" {
		fail("transient-empty", "C12:transient-not-empty", "transient store holds "+d+" after commit")
	}
	// pruning closed form: version v is loadable iff v = L or v >= L - keepRecent or keepEvery | v
	L := id.Version
	for v := int64(1); v <= L; v++ {
		want := v == L || v >= L-f.kr || (f.ke != 0 && v%f.ke == 0)
		in := &inst{mem: f.a.mem, budget: -1}
		_, err := f.open2(in, v)
		if (err == nil) != want {
			fail("pruning-closed-form", "C12:retention", fmt.Sprintf("after %d commits with keepRecent=%d keepEvery=%d version %d loadable=%v, policy says %v", L, f.kr, f.ke, v, err == nil, want))
			break
		}
		if L > 40 && v < L-int64(f.kr)-12 && v%7 != 0 {
			continue
		}
	}
}

func (f *Fam) query(w []string, fail func(string, string, string)) string {
	i, _ := strconv.Atoi(w[1])
	key := unhx(w[2])
	h, _ := strconv.ParseInt(w[3], 10, 64)
	prove := w[4] == "1"
	var res abci.ResponseQuery
	perr := ""
	func() {
		defer func() {
			if e := recover(); e != nil {
				perr = fmt.Sprint(e)
			}
		}()
		res = f.a.ms.Query(abci.RequestQuery{Path: fmt.Sprintf("/s%d/key", i), Data: key, Height: h, Prove: prove})
	}()
	if perr != "" {
		return "panic"
	}
	// the same question put to a snapshot of the substore at the latest version (what `CacheMultiStoreWithVersion`
	// hands out): a snapshot answers for its own version only - any other height gets no value and no proof
	if latest := f.a.ms.LastCommitID().Version; latest >= 1 && h != latest && h != 0 && i < len(f.a.keys) {
		func() {
			defer func() { recover() }()
			st, ok := f.a.ms.GetCommitKVStore(f.a.keys[i]).(*iavl.Store)
			if !ok {
				return
			}
			im, err := st.GetImmutable(latest)
			if err != nil {
				return
			}
			r2 := im.Query(abci.RequestQuery{Path: "/key", Data: key, Height: h, Prove: prove})
			f.extra["snapshot-store-queries-at-another-height"]++
			if len(r2.Value) != 0 || r2.Proof != nil {
				fail("snapshot-own-version", "C14:snapshot-answers-for-another-height", fmt.Sprintf("%s: a snapshot of the store at version %d answered a query for height %d with value %x (proof: %v)",
					strings.Join(w, " "), latest, h, r2.Value, r2.Proof != nil))
			}
		}()
	}
	// a subspace query (every record whose key starts with the queried bytes) returns exactly those records: none of a
	// neighbouring prefix, none missing
	if i < len(f.a.keys) && len(key) > 0 {
		func() {
			defer func() { recover() }()
			r3 := f.a.ms.Query(abci.RequestQuery{Path: fmt.Sprintf("/s%d/subspace", i), Data: key})
			if r3.Code != 0 {
				return
			}
			var kvs []stypes.KVPair
			if err := amino.NewCodec().UnmarshalBinaryLengthPrefixed(r3.Value, &kvs); err != nil {
				return
			}
			var got, want []string
			for _, p := range kvs {
				got = append(got, hx(p.Key)+"="+hx(p.Value))
			}
			it := f.a.ms.GetCommitKVStore(f.a.keys[i]).Iterator(nil, nil)
			for ; it.Valid(); it.Next() {
				if bytes.HasPrefix(it.Key(), key) {
					want = append(want, hx(it.Key())+"="+hx(it.Value()))
				}
			}
			it.Close()
			f.extra["subspace-queries"]++
			if strings.Join(got, ",") != strings.Join(want, ",") {
				fail("subspace-exact", "C14:subspace-query-not-exact", fmt.Sprintf("%s: the subspace query for %s returned [%s], the store holds under that prefix [%s]", strings.Join(w, " "), hx(key), strings.Join(got, ","), strings.Join(want, ",")))
			}
		}()
	}
	if res.Code != 0 {
		return "err"
	}
	out := "nil"
	if res.Value != nil {
		out = "val " + hx(res.Value)
	}
	if prove && res.Proof != nil {
		prt := rootmulti.DefaultProofRuntime()
		kp := "/" + fmt.Sprintf("s%d", i) + "/" + urlKey(key)
		// must verify against the hash of the height the response names …
		if hh, ok := f.hashes[res.Height]; ok {
			root, _ := hex.DecodeString(hh)
			var err error
			if res.Value != nil {
				err = prt.VerifyValue(res.Proof, root, kp, res.Value)
			} else {
				err = prt.VerifyAbsence(res.Proof, root, kp)
			}
			if err != nil {
				fail("proof-verifies", "C14:proof-does-not-verify", fmt.Sprintf("%s: proof does not verify against the app hash of height %d: %v", strings.Join(w, " "), res.Height, err))
			}
			// … and against no other height's hash
			for v, oh := range f.hashes {
				if v == res.Height || oh == hh {
					continue
				}
				oroot, _ := hex.DecodeString(oh)
				var e2 error
				if res.Value != nil {
					e2 = prt.VerifyValue(res.Proof, oroot, kp, res.Value)
				} else {
					e2 = prt.VerifyAbsence(res.Proof, oroot, kp)
				}
				if e2 == nil {
					fail("proof-binds-height", "C14:proof-verifies-other-height", fmt.Sprintf("%s: proof for height %d also verifies against the different app hash of height %d", strings.Join(w, " "), res.Height, v))
					break
				}
			}
		}
		out += " proof"
	}
	return out
}

func urlKey(k []byte) string { return "x:" + hex.EncodeToString(k) }

func (f *Fam) Class(op, obs string) string {
	w := strings.Fields(op)
	if w[0] == "new" {
		return ""
	}
	o := strings.Fields(obs)
	c := w[0] + "/" + o[0]
	if w[0] == "crashcommit" {
		c += fmt.Sprintf("/kr%d/k%s", f.kr, w[1])
	}
	if w[0] == "load" || w[0] == "query" {
		c += fmt.Sprintf("/kr%d/ke%d", f.kr, f.ke)
	}
	return c
}

var _ = sort.Strings
