// Package common: run loop, output files and statistics shared by all families.
package common

import (
	"bufio"
	"encoding/json"
	"fmt"
	"hash/fnv"
	"math/rand"
	"os"
	"path/filepath"
	"sort"
	"strings"
)

// Failure is one monitor finding: the property's own oracle failed on the implementation.
type Failure struct {
	Index     int    `json:"op_index"`
	Op        string `json:"op"`
	Clause    string `json:"clause"`
	Signature string `json:"signature"`
	Detail    string `json:"detail"`
}

// Family is one op/observation protocol, executed on the real code.
type Family interface {
	// Gen returns the next operation line. It may consult the implementation state.
	Gen(r *rand.Rand, i int) string
	// Exec runs op on the implementation; obs is the canonical observation.
	Exec(op string) (obs string, fails []Failure)
	// Class returns a coverage class for (op, obs); "" = trivial.
	Class(op, obs string) string
}

type Stats struct {
	Ops        int            `json:"ops"`
	ByKind     map[string]int `json:"by_kind"`
	ByOutcome  map[string]int `json:"by_outcome"`
	Classes    map[string]int `json:"classes"`
	Distinct   int            `json:"distinct_nontrivial"`
	Failures   int            `json:"monitor_failures"`
	Extra      map[string]int `json:"extra,omitempty"`
	distinctSet map[uint64]struct{}
}

func NewStats() *Stats {
	return &Stats{ByKind: map[string]int{}, ByOutcome: map[string]int{}, Classes: map[string]int{}, Extra: map[string]int{}, distinctSet: map[uint64]struct{}{}}
}

func first(s string) string {
	if i := strings.IndexByte(s, ' '); i >= 0 {
		return s[:i]
	}
	return s
}

func (s *Stats) Record(f Family, op, obs string) {
	s.Ops++
	k := first(op)
	s.ByKind[k]++
	s.ByOutcome[k+"/"+first(obs)]++
	if c := f.Class(op, obs); c != "" {
		s.Classes[c]++
		h := fnv.New64a()
		h.Write([]byte(op))
		h.Write([]byte{0})
		h.Write([]byte(obs))
		s.distinctSet[h.Sum64()] = struct{}{}
	}
}

type Out struct {
	dir            string
	ops, impl, mon *bufio.Writer
	files          []*os.File
}

func NewOut(dir string) *Out {
	os.MkdirAll(dir, 0755)
	o := &Out{dir: dir}
	mk := func(n string) *bufio.Writer {
		f, err := os.Create(filepath.Join(dir, n))
		if err != nil {
			panic(err)
		}
		o.files = append(o.files, f)
		return bufio.NewWriterSize(f, 1<<20)
	}
	o.ops, o.impl, o.mon = mk("ops.txt"), mk("impl.txt"), mk("monitor.jsonl")
	return o
}

func (o *Out) Close(st *Stats) {
	o.ops.Flush()
	o.impl.Flush()
	o.mon.Flush()
	for _, f := range o.files {
		f.Close()
	}
	st.Distinct = len(st.distinctSet)
	bz, _ := json.MarshalIndent(st, "", " ")
	os.WriteFile(filepath.Join(o.dir, "stats.json"), bz, 0644)
}

func oneLine(s string) string {
	return strings.NewReplacer("\n", "\\n", "\r", "\\r").Replace(s)
}

func (o *Out) emit(st *Stats, f Family, i int, op string) {
	// the operation is on disk before it runs: if it kills the process (os.Exit in the code under
	// test), the last line of ops.txt names it
	fmt.Fprintln(o.ops, oneLine(op))
	o.ops.Flush()
	obs, fails := f.Exec(op)
	fmt.Fprintln(o.impl, oneLine(obs))
	if i%64 == 0 {
		o.impl.Flush()
	}
	st.Record(f, op, obs)
	for _, fl := range fails {
		fl.Index, fl.Op = i, op
		bz, _ := json.Marshal(fl)
		o.mon.Write(bz)
		o.mon.WriteByte('\n')
		st.Failures++
	}
}

// Run generates n ops from seed while executing them; Replay executes the ops in a file.
func Run(f Family, seed int64, n int, dir string) {
	r := rand.New(rand.NewSource(seed))
	o, st := NewOut(dir), NewStats()
	for i := 0; i < n; i++ {
		o.emit(st, f, i, f.Gen(r, i))
	}
	if x, ok := f.(interface{ Extra() map[string]int }); ok {
		st.Extra = x.Extra()
	}
	if x, ok := f.(interface{ Cleanup() }); ok {
		x.Cleanup()
	}
	o.Close(st)
}

func Replay(f Family, opsFile, dir string) {
	in, err := os.Open(opsFile)
	if err != nil {
		panic(err)
	}
	defer in.Close()
	o, st := NewOut(dir), NewStats()
	sc := bufio.NewScanner(in)
	sc.Buffer(make([]byte, 1<<20), 1<<26)
	i := 0
	for sc.Scan() {
		if strings.TrimSpace(sc.Text()) == "" {
			continue
		}
		o.emit(st, f, i, sc.Text())
		i++
	}
	if x, ok := f.(interface{ Extra() map[string]int }); ok {
		st.Extra = x.Extra()
	}
	if x, ok := f.(interface{ Cleanup() }); ok {
		x.Cleanup()
	}
	o.Close(st)
}

// SortedKeys is a helper for canonical output of maps.
func SortedKeys(m map[string]int) []string {
	ks := make([]string, 0, len(m))
	for k := range m {
		ks = append(ks, k)
	}
	sort.Strings(ks)
	return ks
}
