module verif/harness

go 1.13

require (
	github.com/anishathalye/porcupine v1.3.0
	github.com/pokt-network/posmint v0.0.0
	github.com/tendermint/go-amino v0.15.0
	github.com/tendermint/iavl v0.12.4
	github.com/tendermint/tendermint v0.32.10
	github.com/tendermint/tm-db v0.2.0
)

replace github.com/pokt-network/posmint => /repo

replace github.com/tendermint/tendermint => github.com/pokt-network/tendermint v0.32.11-0.20200616153411-15dcdd9fbf5f
