// kvrace: the concurrency clause of C15. Several goroutines call Get/Has/Set/Delete on ONE cachekv wrapper.
// Built with -race, so a data race aborts the program (exit code 66); the recorded history of calls is checked
// for linearizability against a plain map (each call takes effect atomically between its invocation and its return).
package main

import (
	"flag"
	"fmt"
	"math/rand"
	"os"
	"sync"
	"time"

	"github.com/anishathalye/porcupine"
	dbm "github.com/tendermint/tm-db"

	"github.com/pokt-network/posmint/store/cachekv"
	"github.com/pokt-network/posmint/store/dbadapter"
)

type in struct {
	op  int // 0 get 1 has 2 set 3 delete
	key string
	val string
}
type out struct {
	val string
	ok  bool
}

func main() {
	seed := flag.Int64("seed", 1, "seed")
	rounds := flag.Int("rounds", 200, "rounds")
	workers := flag.Int("workers", 6, "goroutines")
	per := flag.Int("per", 12, "calls per goroutine and round")
	flag.Parse()
	model := porcupine.Model{
		Init: func() interface{} { return map[string]string{} },
		Step: func(st, input, output interface{}) (bool, interface{}) {
			m := st.(map[string]string)
			i, o := input.(in), output.(out)
			switch i.op {
			case 0:
				v, ok := m[i.key]
				return o.ok == ok && (!ok || o.val == v), m
			case 1:
				_, ok := m[i.key]
				return o.ok == ok, m
			case 2:
				n := map[string]string{}
				for k, v := range m {
					n[k] = v
				}
				n[i.key] = i.val
				return true, n
			default:
				n := map[string]string{}
				for k, v := range m {
					n[k] = v
				}
				delete(n, i.key)
				return true, n
			}
		},
		Equal: func(a, b interface{}) bool {
			x, y := a.(map[string]string), b.(map[string]string)
			if len(x) != len(y) {
				return false
			}
			for k, v := range x {
				if w, ok := y[k]; !ok || w != v {
					return false
				}
			}
			return true
		},
	}
	total := 0
	for r := 0; r < *rounds; r++ {
		parent := dbadapter.Store{DB: dbm.NewMemDB()}
		st := cachekv.NewStore(parent)
		var mu sync.Mutex
		var hist []porcupine.Operation
		var wg sync.WaitGroup
		for w := 0; w < *workers; w++ {
			wg.Add(1)
			go func(w int) {
				defer wg.Done()
				rnd := rand.New(rand.NewSource(*seed*1000003 + int64(r)*131 + int64(w)))
				for c := 0; c < *per; c++ {
					i := in{op: rnd.Intn(4), key: string([]byte{byte(rnd.Intn(3))}), val: fmt.Sprintf("%d.%d.%d", r, w, c)}
					t0 := time.Now().UnixNano()
					var o out
					switch i.op {
					case 0:
						v := st.Get([]byte(i.key))
						o = out{string(v), v != nil}
					case 1:
						o = out{"", st.Has([]byte(i.key))}
					case 2:
						st.Set([]byte(i.key), []byte(i.val))
					default:
						st.Delete([]byte(i.key))
					}
					t1 := time.Now().UnixNano()
					mu.Lock()
					hist = append(hist, porcupine.Operation{ClientId: w, Input: i, Call: t0, Output: o, Return: t1})
					mu.Unlock()
				}
			}(w)
		}
		wg.Wait()
		total += len(hist)
		if res, _ := porcupine.CheckOperationsVerbose(model, hist, 20*time.Second); res != porcupine.Ok {
			fmt.Printf("NOT-LINEARIZABLE round=%d seed=%d result=%v\n", r, *seed, res)
			for _, h := range hist {
				fmt.Printf("  client=%d call=%d ret=%d in=%+v out=%+v\n", h.ClientId, h.Call, h.Return, h.Input, h.Output)
			}
			os.Exit(3)
		}
	}
	fmt.Printf("ok rounds=%d calls=%d workers=%d linearizable, no data race reported\n", *rounds, total, *workers)
}
