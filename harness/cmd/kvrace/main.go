// kvrace: the concurrency clause of C15. Several goroutines call Get/Has/Set/Delete on ONE cachekv wrapper.
// Built with -race, so a data race aborts the program (exit code 66); the recorded history of calls is checked
// for linearizability against a plain map (each call takes effect atomically between its invocation and its return).
package main

import (
	"flag"
	"fmt"
	"math/rand"
	"os"
	"runtime"
	"sync"
	"time"

	"github.com/anishathalye/porcupine"
	dbm "github.com/tendermint/tm-db"

	"github.com/tendermint/iavl"

	"github.com/pokt-network/posmint/store/cachekv"
	"github.com/pokt-network/posmint/store/dbadapter"
	iavlstore "github.com/pokt-network/posmint/store/iavl"
)

type in struct {
	op  int // 0 get 1 has 2 set 3 delete
	key string
	val string
}
type out struct {
	val string
	ok  bool
}

// iavlEarlyClose: an IAVL store iterator that is closed before it is exhausted (the validator-set scan stops at
// MaxValidators) must not leave a goroutine walking the tree while the caller writes to the store and commits it
// with pruning. Under the race detector any such overlap is reported; without the guarantee the background walk can
// also meet a pruned node and kill the process.
func iavlEarlyClose(seed int64, rounds int) {
	rnd := rand.New(rand.NewSource(seed))
	st := iavlstore.UnsafeNewStore(iavl.NewMutableTree(dbm.NewMemDB(), 100), int64(rnd.Intn(2)), 0)
	for r := 0; r < rounds; r++ {
		for i := 0; i < 30+rnd.Intn(20); i++ {
			st.Set([]byte(fmt.Sprintf("k%03d", rnd.Intn(200))), []byte(fmt.Sprintf("v%d.%d", r, i)))
		}
		var it interface {
			Valid() bool
			Next()
			Key() []byte
			Close()
		}
		if rnd.Intn(2) == 0 {
			it = st.ReverseIterator([]byte("k"), []byte("l"))
		} else {
			it = st.Iterator([]byte("k"), []byte("l"))
		}
		if rnd.Intn(3) == 0 {
			// module code also writes to the store while it iterates over it (clearMissedArray, the award and burn
			// queues, maturity): the iterator is a snapshot, one item ahead of its consumer
			for ; it.Valid(); it.Next() {
				st.Delete(it.Key())
				st.Set(append([]byte("z"), it.Key()...), []byte("x"))
			}
		} else {
			for n := rnd.Intn(3); n > 0 && it.Valid(); n-- {
				_ = it.Key()
				it.Next()
			}
		}
		it.Close()
		for i := 0; i < 10; i++ {
			st.Delete([]byte(fmt.Sprintf("k%03d", rnd.Intn(200))))
		}
		st.Commit()
	}
	fmt.Printf("ok iavl-early-close rounds=%d, no data race reported\n", rounds)
}

type slowParent struct{ dbadapter.Store }

func (p slowParent) Get(key []byte) []byte {
	runtime.Gosched()
	v := p.Store.Get(key)
	runtime.Gosched()
	return v
}

func (p slowParent) Has(key []byte) bool {
	runtime.Gosched()
	return p.Store.Has(key)
}

func main() {
	scenario := flag.String("scenario", "cachekv", "cachekv | iavl-early-close")
	seed := flag.Int64("seed", 1, "seed")
	rounds := flag.Int("rounds", 200, "rounds")
	workers := flag.Int("workers", 6, "goroutines")
	per := flag.Int("per", 12, "calls per goroutine and round")
	flag.Parse()
	if *scenario == "iavl-early-close" {
		iavlEarlyClose(*seed, *rounds)
		return
	}
	model := porcupine.Model{
		Init: func() interface{} { return map[string]string{} },
		Step: func(st, input, output interface{}) (bool, interface{}) {
			m := st.(map[string]string)
			i, o := input.(in), output.(out)
			switch i.op {
			case 0:
				v, ok := m[i.key]
				return o.ok == ok && (!ok || o.val == v), m
			case 1:
				_, ok := m[i.key]
				return o.ok == ok, m
			case 2:
				n := map[string]string{}
				for k, v := range m {
					n[k] = v
				}
				n[i.key] = i.val
				return true, n
			default:
				n := map[string]string{}
				for k, v := range m {
					n[k] = v
				}
				delete(n, i.key)
				return true, n
			}
		},
		Equal: func(a, b interface{}) bool {
			x, y := a.(map[string]string), b.(map[string]string)
			if len(x) != len(y) {
				return false
			}
			for k, v := range x {
				if w, ok := y[k]; !ok || w != v {
					return false
				}
			}
			return true
		},
	}
	total := 0
	for r := 0; r < *rounds; r++ {
		// a parent whose reads yield the processor: interleavings inside a read-through to the parent become likely
		parent := slowParent{dbadapter.Store{DB: dbm.NewMemDB()}}
		st := cachekv.NewStore(parent)
		var mu sync.Mutex
		var hist []porcupine.Operation
		var wg sync.WaitGroup
		for w := 0; w < *workers; w++ {
			wg.Add(1)
			go func(w int) {
				defer wg.Done()
				rnd := rand.New(rand.NewSource(*seed*1000003 + int64(r)*131 + int64(w)))
				for c := 0; c < *per; c++ {
					i := in{op: rnd.Intn(4), key: string([]byte{byte(rnd.Intn(3))}), val: fmt.Sprintf("%d.%d.%d", r, w, c)}
					t0 := time.Now().UnixNano()
					var o out
					switch i.op {
					case 0:
						v := st.Get([]byte(i.key))
						o = out{string(v), v != nil}
					case 1:
						o = out{"", st.Has([]byte(i.key))}
					case 2:
						st.Set([]byte(i.key), []byte(i.val))
					default:
						st.Delete([]byte(i.key))
					}
					t1 := time.Now().UnixNano()
					mu.Lock()
					hist = append(hist, porcupine.Operation{ClientId: w, Input: i, Call: t0, Output: o, Return: t1})
					mu.Unlock()
				}
			}(w)
		}
		wg.Wait()
		total += len(hist)
		if res, _ := porcupine.CheckOperationsVerbose(model, hist, 20*time.Second); res != porcupine.Ok {
			fmt.Printf("NOT-LINEARIZABLE round=%d seed=%d result=%v\n", r, *seed, res)
			for _, h := range hist {
				fmt.Printf("  client=%d call=%d ret=%d in=%+v out=%+v\n", h.ClientId, h.Call, h.Return, h.Input, h.Output)
			}
			os.Exit(3)
		}
	}
	fmt.Printf("ok rounds=%d calls=%d workers=%d linearizable, no data race reported\n", *rounds, total, *workers)
}
