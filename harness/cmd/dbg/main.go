package main

import (
	"fmt"

	dbm "github.com/tendermint/tm-db"

	"github.com/pokt-network/posmint/store/rootmulti"
	stypes "github.com/pokt-network/posmint/store/types"
)

type cdb struct {
	dbm.DB
	budget *int
}
type cb struct {
	dbm.Batch
	c cdb
}

func (c cdb) NewBatch() dbm.Batch { return &cb{c.DB.NewBatch(), c} }
func (b *cb) Write() {
	if *b.c.budget == 0 {
		panic("crash")
	}
	if *b.c.budget > 0 {
		*b.c.budget--
	}
	b.Batch.Write()
}
func (b *cb) WriteSync() { b.Write() }

func open(mem dbm.DB, budget *int) (*rootmulti.Store, []*stypes.KVStoreKey) {
	ms := rootmulti.NewStore(cdb{mem, budget})
	ms.SetPruning(stypes.NewPruningOptions(0, 1))
	var ks []*stypes.KVStoreKey
	for i := 0; i < 3; i++ {
		k := stypes.NewKVStoreKey(fmt.Sprintf("s%d", i))
		ks = append(ks, k)
		ms.MountStoreWithDB(k, stypes.StoreTypeIAVL, nil)
	}
	if err := ms.LoadLatestVersion(); err != nil {
		panic(err)
	}
	return ms, ks
}

func main() {
	ma, mb := dbm.NewMemDB(), dbm.NewMemDB()
	ba, bb := -1, -1
	a, ka := open(ma, &ba)
	b, kb := open(mb, &bb)
	{
		z := -1
		ms := rootmulti.NewStore(cdb{ma, &z})
		ms.SetPruning(stypes.NewPruningOptions(0, 1))
		for i := 0; i < 3; i++ {
			ms.MountStoreWithDB(stypes.NewKVStoreKey(fmt.Sprintf("s%d", i)), stypes.StoreTypeIAVL, nil)
		}
		fmt.Println("load0:", ms.LoadVersion(0))
	}
	fmt.Printf("B1 %X\n", b.Commit().Hash)
	ba = 2
	func() {
		defer func() { fmt.Println("recovered:", recover()) }()
		a.Commit()
	}()
	ba = -1
	a, ka = open(ma, &ba)
	fmt.Println("A reopened at", a.LastCommitID().Version)
	fmt.Printf("A1 %X\n", a.Commit().Hash)
	a.GetCommitKVStore(ka[2]).Set([]byte{4}, []byte{0x56, 2})
	b.GetCommitKVStore(kb[2]).Set([]byte{4}, []byte{0x56, 2})
	fmt.Printf("B2 %X\n", b.Commit().Hash)
	ba = 2
	func() {
		defer func() { fmt.Println("recovered:", recover()) }()
		a.Commit()
	}()
	ba = -1
	a, ka = open(ma, &ba)
	fmt.Println("A reopened at", a.LastCommitID().Version)
	a.GetCommitKVStore(ka[2]).Set([]byte{4}, []byte{0x56, 2})
	id := a.Commit()
	fmt.Printf("A2 %X v%d\n", id.Hash, id.Version)
	for i := range ka {
		fmt.Printf(" s%d A %X B %X\n", i, a.GetCommitKVStore(ka[i]).LastCommitID().Hash, b.GetCommitKVStore(kb[i]).LastCommitID().Hash)
	}
}
