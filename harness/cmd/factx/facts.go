package main

import (
	"fmt"
	"sort"
	"strings"
	"go/ast"
	"go/constant"
	goprinter "go/printer"
	"io"
)

func printer(w io.Writer, e ast.Expr) error { return goprinter.Fprint(w, fset, e) }

// funcReturnLit returns field -> value expression of the composite literal returned by func name in dir.
func funcReturnLit(repo, dir, name string) map[string]ast.Expr {
	for _, f := range load(repo, dir) {
		for _, d := range f.Decls {
			fd, ok := d.(*ast.FuncDecl)
			if !ok || fd.Name.Name != name || fd.Recv != nil || fd.Body == nil {
				continue
			}
			for _, st := range fd.Body.List {
				rs, ok := st.(*ast.ReturnStmt)
				if !ok || len(rs.Results) != 1 {
					continue
				}
				cl, ok := rs.Results[0].(*ast.CompositeLit)
				if !ok {
					continue
				}
				m := map[string]ast.Expr{}
				for _, el := range cl.Elts {
					kv, ok := el.(*ast.KeyValueExpr)
					if !ok {
						continue
					}
					if id, ok := kv.Key.(*ast.Ident); ok {
						m[id.Name] = kv.Value
					}
				}
				return m
			}
		}
	}
	return nil
}

// extraLean: further generated Lean definitions (tables).
func extraLean(repo string) []string {
	var out []string
	// store/types/gas.go: KVGasConfig()
	g := funcReturnLit(repo, "store/types", "KVGasConfig")
	if g == nil {
		fatal("KVGasConfig literal not found")
	}
	for _, f := range []string{"HasCost", "DeleteCost", "ReadCostFlat", "ReadCostPerByte", "WriteCostFlat", "WriteCostPerByte", "IterNextCostFlat"} {
		e, ok := g[f]
		if !ok {
			fatal("KVGasConfig has no field %s", f)
		}
		out = append(out, fmt.Sprintf("abbrev gas%s : Nat := %s\n", f, evalConst(repo, "store/types", e, 0).ExactString()))
	}
	// the registered parameters of the three modules: the keys listed by each `ParamSetPairs`, under the module's
	// subspace name - the universe of keys an access-control list must cover and governance may change
	var names []string
	for _, m := range []struct{ dir, sub string }{{"x/auth/types", "auth"}, {"x/gov/types", "gov"}, {"x/pos/types", "pos"}} {
		keys := paramSetKeys(repo, m.dir)
		if len(keys) == 0 {
			fatal("no ParamSetPairs keys found in %s", m.dir)
		}
		for _, k := range keys {
			names = append(names, m.sub+"/"+k)
		}
	}
	sort.Strings(names)
	var q []string
	for _, n := range names {
		q = append(q, fmt.Sprintf("%q", n))
	}
	out = append(out, "def allParamNames : List String := ["+strings.Join(q, ", ")+"]\n")
	return out
}

// paramSetKeys: the string values of the keys in the composite literal returned by `(*Params).ParamSetPairs` of a package
func paramSetKeys(repo, dir string) []string {
	var res []string
	for _, f := range load(repo, dir) {
		for _, d := range f.Decls {
			fd, ok := d.(*ast.FuncDecl)
			if !ok || fd.Name.Name != "ParamSetPairs" || fd.Recv == nil || fd.Body == nil {
				continue
			}
			ast.Inspect(fd.Body, func(n ast.Node) bool {
				ret, ok := n.(*ast.ReturnStmt)
				if !ok || len(ret.Results) != 1 {
					return true
				}
				cl, ok := ret.Results[0].(*ast.CompositeLit)
				if !ok {
					return true
				}
				for _, el := range cl.Elts {
					pair, ok := el.(*ast.CompositeLit)
					if !ok || len(pair.Elts) == 0 {
						fatal("%s: ParamSetPairs element is not a pair literal", dir)
					}
					ke := pair.Elts[0]
					if kv, ok := ke.(*ast.KeyValueExpr); ok { // {Key: K, Value: &p.X}
						for _, e2 := range pair.Elts {
							if kv2, ok := e2.(*ast.KeyValueExpr); ok && src(kv2.Key) == "Key" {
								kv = kv2
							}
						}
						ke = kv.Value
					}
					id, ok := ke.(*ast.Ident)
					if !ok {
						fatal("%s: ParamSetPairs key %s is not an identifier", dir, src(ke))
					}
					v := findValue(repo, dir, id.Name) // []byte("Name")
					call, ok := v.(*ast.CallExpr)
					if !ok || len(call.Args) != 1 {
						fatal("%s: %s is not []byte(\"...\")", dir, id.Name)
					}
					res = append(res, constant.StringVal(evalConst(repo, dir, call.Args[0], 0)))
				}
				return false
			})
		}
	}
	return res
}

// structuralFacts: T3 facts.
func structuralFacts(repo string) map[string]interface{} {
	return map[string]interface{}{
		"cachekv_locking": cachekvLocking(repo),
		"map_ranges":      mapRanges(repo),
	}
}

// cachekvLocking classifies every method of cachekv.Store: "locked" (body starts with
// mtx.Lock(); defer mtx.Unlock()), "delegates:<m>" (touches no state itself, calls method m of
// the same store), "internal" (unexported, touches state, only reachable from locked methods is
// checked by listing its callers), or "UNLOCKED-touches-state".
func cachekvLocking(repo string) map[string]string {
	res := map[string]string{}
	state := map[string]bool{"cache": true, "unsortedCache": true, "sortedCache": true}
	callers := map[string][]string{}
	var decls []*ast.FuncDecl
	for _, f := range load(repo, "store/cachekv") {
		for _, d := range f.Decls {
			if fd, ok := d.(*ast.FuncDecl); ok && fd.Recv != nil && len(fd.Recv.List) == 1 && fd.Body != nil {
				if se, ok := fd.Recv.List[0].Type.(*ast.StarExpr); ok {
					if id, ok := se.X.(*ast.Ident); ok && id.Name == "Store" {
						decls = append(decls, fd)
					}
				}
			}
		}
	}
	for _, fd := range decls {
		recv := ""
		if len(fd.Recv.List[0].Names) > 0 {
			recv = fd.Recv.List[0].Names[0].Name
		}
		touches := false
		var calls []string
		ast.Inspect(fd.Body, func(n ast.Node) bool {
			if se, ok := n.(*ast.SelectorExpr); ok {
				if id, ok := se.X.(*ast.Ident); ok && id.Name == recv {
					if state[se.Sel.Name] {
						touches = true
					}
				}
			}
			if ce, ok := n.(*ast.CallExpr); ok {
				if se, ok := ce.Fun.(*ast.SelectorExpr); ok {
					if id, ok := se.X.(*ast.Ident); ok && id.Name == recv {
						calls = append(calls, se.Sel.Name)
						callers[se.Sel.Name] = append(callers[se.Sel.Name], fd.Name.Name)
					}
				}
			}
			return true
		})
		locked := false
		if len(fd.Body.List) >= 2 {
			a, b := src2(fd.Body.List[0]), src2(fd.Body.List[1])
			locked = a == recv+".mtx.Lock()" && b == "defer "+recv+".mtx.Unlock()"
		}
		switch {
		case locked:
			res[fd.Name.Name] = "locked"
		case !touches && len(calls) > 0:
			res[fd.Name.Name] = "delegates:" + calls[0]
		case !touches:
			res[fd.Name.Name] = "no-state"
		case !ast.IsExported(fd.Name.Name):
			res[fd.Name.Name] = "internal"
		default:
			res[fd.Name.Name] = "UNLOCKED-touches-state"
		}
	}
	for name, kind := range res {
		if kind == "internal" {
			cs := callers[name]
			sort.Strings(cs)
			res[name] = "internal-called-from:" + strings.Join(cs, ",")
		}
	}
	return res
}

func src2(n ast.Node) string {
	var sb strings.Builder
	goprinter.Fprint(&sb, fset, n)
	return sb.String()
}

// structSchema: the fields of a struct type as declared (name and type expression, in order) - the shape the Lean
// model's struct encoders assume; a reordered, added, removed or retyped field changes Generated.lean and breaks the
// shape theorems of Props/C20.lean
func structSchema(repo, dir, name string) []string {
	for _, f := range load(repo, dir) {
		for _, d := range f.Decls {
			gd, ok := d.(*ast.GenDecl)
			if !ok {
				continue
			}
			for _, sp := range gd.Specs {
				ts, ok := sp.(*ast.TypeSpec)
				if !ok || ts.Name.Name != name {
					continue
				}
				st, ok := ts.Type.(*ast.StructType)
				if !ok {
					fatal("%s.%s is not a struct", dir, name)
				}
				var out []string
				for _, fl := range st.Fields.List {
					t := src(fl.Type)
					if len(fl.Names) == 0 {
						out = append(out, fmt.Sprintf("(%q, %q)", "", t))
					}
					for _, n := range fl.Names {
						out = append(out, fmt.Sprintf("(%q, %q)", n.Name, t))
					}
				}
				return out
			}
		}
	}
	fatal("struct %s not found in %s", name, dir)
	return nil
}

func schemaLean(repo string) []string {
	var out []string
	for _, t := range []struct{ dir, name, lean string }{
		{"x/pos/types", "Validator", "schemaValidator"},
		{"x/pos/types", "ValidatorSigningInfo", "schemaSigningInfo"},
		{"x/pos/types", "MsgSend", "schemaMsgSend"},
		{"x/pos/types", "MsgBeginUnstake", "schemaMsgBeginUnstake"},
		{"x/pos/types", "MsgUnjail", "schemaMsgUnjail"},
		{"x/gov/types", "MsgDAOTransfer", "schemaMsgDAOTransfer"},
		{"x/gov/types", "MsgChangeParam", "schemaMsgChangeParam"},
		{"x/pos/types", "MsgStake", "schemaMsgStake"},
		{"x/gov/types", "MsgUpgrade", "schemaMsgUpgrade"},
		{"x/gov/types", "Upgrade", "schemaUpgrade"},
		{"x/auth/types", "BaseAccount", "schemaBaseAccount"},
		{"x/auth/types", "StdTx", "schemaStdTx"},
		{"x/auth/types", "StdSignature", "schemaStdSignature"},
		{"types", "Coin", "schemaCoin"},
	} {
		out = append(out, fmt.Sprintf("def %s : List (String × String) := [%s]\n", t.lean, strings.Join(structSchema(repo, t.dir, t.name), ", ")))
	}
	return out
}
