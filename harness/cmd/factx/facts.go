package main

import (
	"fmt"
	"go/ast"
	goprinter "go/printer"
	"io"
)

func printer(w io.Writer, e ast.Expr) error { return goprinter.Fprint(w, fset, e) }

// funcReturnLit returns field -> value expression of the composite literal returned by func name in dir.
func funcReturnLit(repo, dir, name string) map[string]ast.Expr {
	for _, f := range load(repo, dir) {
		for _, d := range f.Decls {
			fd, ok := d.(*ast.FuncDecl)
			if !ok || fd.Name.Name != name || fd.Recv != nil || fd.Body == nil {
				continue
			}
			for _, st := range fd.Body.List {
				rs, ok := st.(*ast.ReturnStmt)
				if !ok || len(rs.Results) != 1 {
					continue
				}
				cl, ok := rs.Results[0].(*ast.CompositeLit)
				if !ok {
					continue
				}
				m := map[string]ast.Expr{}
				for _, el := range cl.Elts {
					kv, ok := el.(*ast.KeyValueExpr)
					if !ok {
						continue
					}
					if id, ok := kv.Key.(*ast.Ident); ok {
						m[id.Name] = kv.Value
					}
				}
				return m
			}
		}
	}
	return nil
}

// extraLean: further generated Lean definitions (tables).
func extraLean(repo string) []string {
	var out []string
	// store/types/gas.go: KVGasConfig()
	g := funcReturnLit(repo, "store/types", "KVGasConfig")
	if g == nil {
		fatal("KVGasConfig literal not found")
	}
	for _, f := range []string{"HasCost", "DeleteCost", "ReadCostFlat", "ReadCostPerByte", "WriteCostFlat", "WriteCostPerByte", "IterNextCostFlat"} {
		e, ok := g[f]
		if !ok {
			fatal("KVGasConfig has no field %s", f)
		}
		out = append(out, fmt.Sprintf("abbrev gas%s : Nat := %s\n", f, evalConst(repo, "store/types", e, 0).ExactString()))
	}
	return out
}

// structuralFacts: T3 facts; filled in as the properties need them.
func structuralFacts(repo string) map[string]interface{} {
	return map[string]interface{}{}
}
