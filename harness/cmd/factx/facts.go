package main

import (
	"go/ast"
	goprinter "go/printer"
	"io"
)

func printer(w io.Writer, e ast.Expr) error { return goprinter.Fprint(w, fset, e) }

// extraLean: further generated Lean definitions (tables); filled in as the models grow.
func extraLean(repo string) []string { return nil }

// structuralFacts: T3 facts; filled in as the properties need them.
func structuralFacts(repo string) map[string]interface{} {
	return map[string]interface{}{}
}
