package main

import (
	"bytes"
	"encoding/json"
	"fmt"
	"go/ast"
	"go/importer"
	"go/parser"
	goprinter "go/printer"
	"go/token"
	"go/types"
	"io"
	"os"
	"os/exec"
	"path/filepath"
	"sort"
	"strings"
)

// mapRanges lists every `for … range m` over a map-typed expression in the non-test code of the
// repository (C01: Go randomises map iteration, so each such loop is a place where the order could
// leak into a consensus-relevant response). Types come from the compiler's export data
// (`go list -export`), so the answer is about what the code means, not about how it is spelled.
// An entry is "<pkg>/<file>:<func>:<range expression>#<ordinal>".
func mapRanges(repo string) []string {
	cmd := exec.Command("go", "list", "-export", "-deps", "-json=ImportPath,Export,Dir,GoFiles,Module,Standard", "./...")
	cmd.Dir = repo
	cmd.Env = append(os.Environ(), "GOFLAGS=-mod=mod", "GOPROXY=off", "GOSUMDB=off", "GOTOOLCHAIN=local")
	var stderr bytes.Buffer
	cmd.Stderr = &stderr
	out, err := cmd.Output()
	if err != nil {
		return []string{"ERROR: go list failed: " + err.Error() + " " + firstLine(stderr.String())}
	}
	type pkgInfo struct {
		ImportPath, Export, Dir string
		GoFiles                 []string
		Standard                bool
		Module                  *struct{ Path string }
	}
	exports := map[string]string{}
	var own []pkgInfo
	dec := json.NewDecoder(bytes.NewReader(out))
	for {
		var p pkgInfo
		if err := dec.Decode(&p); err == io.EOF {
			break
		} else if err != nil {
			return []string{"ERROR: go list output: " + err.Error()}
		}
		if p.Export != "" {
			exports[p.ImportPath] = p.Export
		}
		if p.Module != nil && p.Module.Path == "github.com/pokt-network/posmint" {
			own = append(own, p)
		}
	}
	fset := token.NewFileSet()
	imp := importer.ForCompiler(fset, "gc", func(path string) (io.ReadCloser, error) {
		f, ok := exports[path]
		if !ok {
			return nil, fmt.Errorf("no export data for %s", path)
		}
		return os.Open(f)
	})
	var res []string
	for _, p := range own {
		var files []*ast.File
		for _, g := range p.GoFiles {
			f, err := parser.ParseFile(fset, filepath.Join(p.Dir, g), nil, 0)
			if err != nil {
				return []string{"ERROR: parse " + g + ": " + err.Error()}
			}
			files = append(files, f)
		}
		info := &types.Info{Types: map[ast.Expr]types.TypeAndValue{}}
		conf := types.Config{Importer: imp, Error: func(error) {}}
		conf.Check(p.ImportPath, fset, files, info)
		rel := strings.TrimPrefix(p.ImportPath, "github.com/pokt-network/posmint")
		rel = strings.TrimPrefix(rel, "/")
		for i, f := range files {
			for _, d := range f.Decls {
				fd, ok := d.(*ast.FuncDecl)
				if !ok || fd.Body == nil {
					continue
				}
				name := fd.Name.Name
				if fd.Recv != nil && len(fd.Recv.List) == 1 {
					var b bytes.Buffer
					goprinter.Fprint(&b, fset, fd.Recv.List[0].Type)
					name = strings.TrimPrefix(b.String(), "*") + "." + name
				}
				count := map[string]int{}
				ast.Inspect(fd.Body, func(n ast.Node) bool {
					rs, ok := n.(*ast.RangeStmt)
					if !ok {
						return true
					}
					tv, ok := info.Types[rs.X]
					if !ok || tv.Type == nil {
						return true
					}
					if _, isMap := tv.Type.Underlying().(*types.Map); !isMap {
						return true
					}
					var b bytes.Buffer
					goprinter.Fprint(&b, fset, rs.X)
					x := strings.Join(strings.Fields(b.String()), " ")
					count[x]++
					res = append(res, fmt.Sprintf("%s/%s:%s:%s#%d", rel, p.GoFiles[i], name, x, count[x]))
					return true
				})
			}
		}
	}
	sort.Strings(res)
	return res
}

func firstLine(s string) string {
	if i := strings.IndexByte(s, '\n'); i >= 0 {
		return s[:i]
	}
	return s
}
