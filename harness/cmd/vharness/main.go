// vharness <family> run --seed S --n N --out DIR | vharness <family> exec --ops FILE --out DIR
package main

import (
	"flag"
	"fmt"
	"os"

	"verif/harness/internal/arith"
	"verif/harness/internal/chain"
	"verif/harness/internal/codecfam"
	"verif/harness/internal/common"
	"verif/harness/internal/keysfam"
	"verif/harness/internal/kv"
	"verif/harness/internal/rm"
)

func family(name string, profile string) common.Family {
	switch name {
	case "arith":
		return arith.Fam{}
	case "chain":
		return chain.New(profile)
	case "rm":
		return rm.New(profile)
	case "codec":
		return codecfam.New(profile)
	case "keys":
		return keysfam.New(profile)
	case "kv":
		return kv.New(profile)
	}
	fmt.Fprintln(os.Stderr, "unknown family", name)
	os.Exit(2)
	return nil
}

func main() {
	if len(os.Args) < 3 {
		fmt.Fprintln(os.Stderr, "usage: vharness <family> run|exec [flags]")
		os.Exit(2)
	}
	fs := flag.NewFlagSet("vharness", flag.ExitOnError)
	seed := fs.Int64("seed", 1, "PRNG seed")
	n := fs.Int("n", 1000, "number of operations")
	out := fs.String("out", "out", "output directory")
	ops := fs.String("ops", "", "operations file (exec)")
	profile := fs.String("profile", "", "generator profile")
	fs.Parse(os.Args[3:])
	f := family(os.Args[1], *profile)
	switch os.Args[2] {
	case "run":
		common.Run(f, *seed, *n, *out)
	case "exec":
		common.Replay(f, *ops, *out)
	default:
		os.Exit(2)
	}
}
