#!/usr/bin/env python3
"""Prints the markdown table of seeded changes from seeded/*/meta.json (the builder_run part is written by seeded_all.sh)."""
import json, os, re
root = os.path.join(os.path.dirname(os.path.abspath(__file__)), "..", "seeded")
print("| seeded change | property | what was changed | check outcome (quick tier) |")
print("|---|---|---|---|")
for d in sorted(os.listdir(root)):
    mp = os.path.join(root, d, "meta.json")
    if not os.path.exists(mp):
        continue
    m = json.load(open(mp))
    br = m.get("builder_run", {})
    what = re.sub(r"\s+", " ", m.get("summary", ""))
    what = what[:230] + ("…" if len(what) > 230 else "")
    if not br:
        out = "not evaluated"
    elif br.get("caught"):
        v = (br.get("violation_lines") or [""])[0]
        sig = re.search(r"replays/\S+?-(\S+?)\.json", v)
        sigs = sig.group(1) if sig else "?"
        out = "caught: `%s`" % sigs + ("" if br.get("concrete_input") else " (no-failing-input-found)")
    else:
        out = "MISSED (exit %s)" % br.get("check_exit")
    print("| `seeded/%s` | %s | %s | %s |" % (d, m.get("property"), what.replace("|", "/"), out))
