#!/bin/bash
# usage (inside `vp run --with-repo -- run/seeded_snapshot.sh C01 C02 ...`): re-runs the seeded changes of the given
# properties against the snapshot of /repo in $VP_RUN_REPO (never /repo itself), quick tier, and prints one line each.
# Nothing is recorded: a change reported MISSED here is re-run in /verif against /repo (run/seeded_subset.sh).
cd "$(dirname "$0")/.."
R=${VP_RUN_REPO:?needs a snapshot of the repository}
export VERIF_REPO=$R
[ -d lean/.lake/build ] || ./setup.sh > /dev/null 2>&1
for d in seeded/C*; do
  p=$(python3 -c "import json,sys; print(json.load(open('$d/meta.json'))['property'])")
  case " $* " in *" $p "*) ;; *) continue;; esac
  git -C $R apply $PWD/$d/patch.diff || { echo "$d APPLY-FAIL"; continue; }
  timeout 3000 ./check $p --tier quick > /tmp/_snap_$$.log 2>&1; rc=$?
  git -C $R checkout -- .
  v=$(grep -m1 "^VIOLATION" /tmp/_snap_$$.log | cut -c1-160)
  if [ $rc = 1 ] && [ -n "$v" ]; then echo "$d caught $v"; else echo "$d MISSED rc=$rc"; fi
done
rm -f /tmp/_snap_$$.log
