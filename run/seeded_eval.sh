#!/bin/bash
# usage: seeded_eval.sh <patch.diff> <prop> [tier]  -- applies a seeded change to /repo, runs the check, undoes it.
P=$1; PROP=$2; TIER=${3:-quick}
cd /repo && git status --porcelain | grep -q . && { echo "REPO DIRTY"; exit 2; }
git -C /repo apply $P || { echo APPLY-FAIL; exit 2; }
cd /verif && timeout 3000 ./check $PROP --tier $TIER > /tmp/_eval_$PROP.log 2>&1; RC=$?
git -C /repo checkout -- .
echo "check $PROP ($TIER) rc=$RC"; grep "VIOLATION\|KNOWN" /tmp/_eval_$PROP.log | cut -c1-200 | head -5; grep "^\[check\]" /tmp/_eval_$PROP.log | cut -c1-300 | head -6
