#!/usr/bin/env python3
"""Print normalised theorem statements of a Lean file (name -> statement up to ':=')."""
import re, sys
def stmts(path):
    s = open(path, encoding='utf-8').read()
    out = {}
    for m in re.finditer(r'^theorem\s+(\S+)(.*?):=', s, re.S | re.M):
        out[m.group(1)] = re.sub(r'\s+', ' ', m.group(2)).strip()
    return out
if __name__ == '__main__':
    a, b = stmts(sys.argv[1]), stmts(sys.argv[2])
    for k in a:
        if k not in b: print('MISSING', k)
        elif a[k] != b[k]: print('CHANGED', k, '\n  was:', a[k], '\n  now:', b[k])
    for k in b:
        if k not in a: print('NEW', k)
    print(len(a), 'statements before,', len(b), 'after')
