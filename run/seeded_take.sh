#!/bin/bash
# usage: seeded_take.sh <worktree> <prop> <id>  -- confirm a sub-agent's change (seeded_verify.sh), store it under seeded/<id>/.
W=$1; P=$2; ID=$3
cd /verif
run/seeded_verify.sh $W $ID > /tmp/_take_$ID.log 2>&1
cat /tmp/_take_$ID.log | tail -8
if grep -q "suite_with_change rc=0" /tmp/_take_$ID.log && grep -q "demo_with_change rc=[1-9]" /tmp/_take_$ID.log && grep -q "demo_without_change rc=0" /tmp/_take_$ID.log; then
  mkdir -p seeded/$ID
  cp /tmp/_patch_$ID.diff seeded/$ID/patch.diff
  cp $W/seeded_out/meta.json seeded/$ID/meta.json
  cp $W/seeded_out/RUN.txt seeded/$ID/RUN.txt 2>/dev/null
  DEMO=$(cd $W && git status --porcelain | grep 'zz_seeded_demo' | awk '{print $2}' | head -1)
  cp $W/$DEMO seeded/$ID/zz_seeded_demo_test.go
  python3 - <<PY
import json
p='seeded/$ID/meta.json'; m=json.load(open(p)); m['property']='$P'; m['demo_path']='$DEMO'
m['confirmed_by_builder']={'builds':True,'suite_passes_with_change':True,'demo_fails_with_change':True,'demo_passes_without_change':True,'how':'run/seeded_verify.sh (go build ./..., go test -vet=off -count=1 ./... with the demo moved out, demo both ways)'}
json.dump(m,open(p,'w'),indent=1)
PY
  echo "TAKEN $ID"
else
  echo "NOT-CONFIRMED $ID"
fi
