#!/usr/bin/env python3
"""Orchestrator: one invocation decides one property.

  ./check Cxx [--tier quick|thorough] [--replay FILE]
  python3 run/check.py --setup

Order: rebuild harness + factx from /repo (T2/T3) -> lake build the property's Lean
modules and audit axioms -> T1 correspondence run with the property's monitor ->
classify, write evidence, print VIOLATION / KNOWN-FINDING lines.
"""
import sys, os, json, subprocess, time, fcntl, shutil, hashlib, re, glob, argparse, concurrent.futures

ROOT = os.path.dirname(os.path.dirname(os.path.abspath(__file__)))
sys.path.insert(0, os.path.join(ROOT, "run"))
from props import PROPS  # noqa: E402

REPO = os.environ.get("VERIF_REPO", "/repo")
LEAN = os.path.join(ROOT, "lean")
HARN = os.path.join(ROOT, "harness")
ALLOWED_AXIOMS = {"propext", "Classical.choice", "Quot.sound"}
ENV = dict(os.environ, GOFLAGS="-mod=mod", GOPROXY="off", GOSUMDB="off", GOTOOLCHAIN="local",
           CGO_ENABLED=os.environ.get("CGO_ENABLED", "0"))
NPROC = os.cpu_count() or 4

GOMOD = """module verif/harness

go 1.13

require (
	github.com/anishathalye/porcupine v1.3.0
	github.com/pokt-network/posmint v0.0.0
)

replace github.com/pokt-network/posmint => %s

replace github.com/tendermint/tendermint => github.com/pokt-network/tendermint v0.32.11-0.20200616153411-15dcdd9fbf5f
"""


def log(*a):
    print("[check]", *a, file=sys.stderr, flush=True)


def run(cmd, cwd=None, timeout=None, env=None, stdin=None, stdout=subprocess.PIPE):
    return subprocess.run(cmd, cwd=cwd, timeout=timeout, env=env or ENV, stdin=stdin,
                          stdout=stdout, stderr=subprocess.STDOUT, text=True, errors="replace")


class Lock:
    def __enter__(self):
        self.f = open(os.path.join(ROOT, ".lock"), "w")
        fcntl.flock(self.f, fcntl.LOCK_EX)

    def __exit__(self, *a):
        fcntl.flock(self.f, fcntl.LOCK_UN)
        self.f.close()


# ---------------------------------------------------------------- build phase

def build_harness(tags="verif"):
    """Rebuild the Go harness and factx against /repo's current working tree."""
    gm = os.path.join(HARN, "go.mod")
    want = GOMOD % REPO
    # go.mod is regenerated so that stale requirements never leak in; go.sum comes from /repo.
    if not os.path.exists(gm) or not open(gm).read().startswith(want.split("\nreplace")[0]):
        open(gm, "w").write(want)
    shutil.copy(os.path.join(REPO, "go.sum"), os.path.join(HARN, "go.sum"))
    for b in ("vharness", "factx"):
        p = os.path.join(HARN, "bin", b)
        if os.path.exists(p):
            os.remove(p)  # never run a stale binary
    r = run(["go", "build", "-tags", tags, "-o", "bin/", "./cmd/..."], cwd=HARN, timeout=900)
    ok = r.returncode == 0 and all(os.path.exists(os.path.join(HARN, "bin", b)) for b in ("vharness", "factx"))
    return ok, r.stdout


def run_factx():
    r = run([os.path.join(HARN, "bin", "factx"), "--repo", REPO,
             "--lean", os.path.join(LEAN, "Posmint", "Generated.lean"),
             "--facts", os.path.join(ROOT, "work", "facts.json")], timeout=300)
    return r.returncode == 0, r.stdout


def lake_build(targets):
    r = run(["lake", "build"] + targets, cwd=LEAN, timeout=3600)
    return r.returncode == 0, r.stdout


def audit(pid, namespaces, modules):
    """Returns (theorems: {name: [axioms]}, raw)."""
    os.makedirs(os.path.join(LEAN, ".audit"), exist_ok=True)
    f = os.path.join(LEAN, ".audit", pid + ".lean")
    with open(f, "w") as fh:
        for m in modules:
            fh.write("import %s\n" % m)
        fh.write("import Posmint.Audit\n")
        for ns in namespaces:
            fh.write("#audit_ns %s\n" % ns)
    r = run(["lake", "env", "lean", f], cwd=LEAN, timeout=1200)
    thms = {}
    for line in r.stdout.splitlines():
        m = re.search(r"AUDIT (\S+) \|(.*)$", line)
        if m:
            thms[m.group(1)] = [a.strip() for a in m.group(2).split(",") if a.strip()]
    return thms, r.stdout, r.returncode


FORBIDDEN = re.compile(r"\b(sorry|admit|native_decide|bv_decide|implemented_by|unsafe)\b|^axiom |maxHeartbeats 0")


def grep_forbidden():
    hits = []
    for p in glob.glob(os.path.join(LEAN, "Posmint", "**", "*.lean"), recursive=True) + [os.path.join(LEAN, "Main.lean")]:
        if p.endswith("Audit.lean"):
            continue
        incomment = False
        for i, line in enumerate(open(p, encoding="utf-8"), 1):
            s = line
            # strip block and line comments (coarse but conservative: /- ... -/ tracked per line)
            if incomment:
                if "-/" in s:
                    s = s.split("-/", 1)[1]
                    incomment = False
                else:
                    continue
            while "/-" in s:
                a, b = s.split("/-", 1)
                if "-/" in b:
                    s = a + b.split("-/", 1)[1]
                else:
                    s = a
                    incomment = True
            s = s.split("--", 1)[0]
            if FORBIDDEN.search(s):
                hits.append("%s:%d: %s" % (os.path.relpath(p, ROOT), i, line.strip()))
    return hits


# ---------------------------------------------------------------- T1

def harness_run(family, profile, seed, n, out, timeout):
    cmd = [os.path.join(HARN, "bin", "vharness"), family, "run", "--seed", str(seed), "--n", str(n), "--out", out]
    if profile:
        cmd += ["--profile", profile]
    e = dict(ENV, GOMEMLIMIT="3GiB")
    return run(cmd, timeout=timeout, env=e)


def harness_exec(family, profile, opsfile, out, timeout=600):
    cmd = [os.path.join(HARN, "bin", "vharness"), family, "exec", "--ops", opsfile, "--out", out]
    if profile:
        cmd += ["--profile", profile]
    return run(cmd, timeout=timeout, env=dict(ENV, GOMEMLIMIT="3GiB"))


def model_run(model, out, timeout=1800):
    exe = os.path.join(LEAN, ".lake", "build", "bin", "posmodel")
    if not os.path.exists(exe):
        return False, "posmodel not built"
    with open(os.path.join(out, "ops.txt")) as fin, open(os.path.join(out, "model.txt"), "w") as fout:
        r = subprocess.run([exe, model], stdin=fin, stdout=fout, stderr=subprocess.PIPE, text=True, timeout=timeout)
    return r.returncode == 0, r.stderr


def read_lines(p):
    if not os.path.exists(p):
        return []
    with open(p, encoding="utf-8", errors="replace") as f:
        return f.read().split("\n")[:-1]


def first_disagreement(out):
    ops, a, b = (read_lines(os.path.join(out, x)) for x in ("ops.txt", "impl.txt", "model.txt"))
    n = min(len(a), len(b))
    for i in range(n):
        if a[i] != b[i]:
            return {"index": i, "op": ops[i] if i < len(ops) else None, "impl": a[i], "model": b[i]}
    if len(a) != len(b):
        return {"index": n, "op": ops[n] if n < len(ops) else None,
                "impl": a[n] if n < len(a) else "<missing: implementation side stopped>",
                "model": b[n] if n < len(b) else "<missing: model driver stopped>"}
    return None


def monitor_failures(out):
    res = []
    for l in read_lines(os.path.join(out, "monitor.jsonl")):
        try:
            res.append(json.loads(l))
        except Exception:
            pass
    return res


def one_t1(cfg, seed, n, out, model_ok, opsfile=None):
    """Run one T1 job; returns dict(result)."""
    os.makedirs(out, exist_ok=True)
    t0 = time.time()
    if opsfile:
        r = harness_exec(cfg["family"], cfg.get("profile", ""), opsfile, out)
    else:
        r = harness_run(cfg["family"], cfg.get("profile", ""), seed, n, out, cfg.get("timeout", 3000))
    res = {"seed": seed, "n": n, "out": out, "harness_rc": r.returncode, "harness_log": r.stdout[-2000:],
           "disagreement": None, "failures": [], "stats": {}, "model_ok": False}
    if r.returncode != 0:
        res["crash"] = True
    try:
        res["stats"] = json.load(open(os.path.join(out, "stats.json")))
    except Exception:
        pass
    res["failures"] = monitor_failures(out)
    if model_ok and cfg.get("model"):
        ok, err = model_run(cfg["model"], out)
        res["model_ok"] = ok
        res["model_err"] = err[-500:] if err else ""
        res["disagreement"] = first_disagreement(out)
    res["wall"] = time.time() - t0
    return res


# ---------------------------------------------------------------- shrinking

def still_fails(cfg, ops, workdir, pred, model_ok):
    opsfile = os.path.join(workdir, "shrink.ops")
    with open(opsfile, "w") as f:
        f.write("\n".join(ops) + "\n")
    out = os.path.join(workdir, "shrink.out")
    shutil.rmtree(out, ignore_errors=True)
    res = one_t1(cfg, 0, 0, out, model_ok, opsfile=opsfile)
    return pred(res)


def _dd(items, flat, test, budget):
    """Classic ddmin over `items` (each item a list of ops); returns (items, runs_used)."""
    n, runs = 2, 0
    while len(items) >= 2 and runs < budget:
        chunk = max(1, len(items) // n)
        reduced = False
        for i in range(0, len(items), chunk):
            cand = items[:i] + items[i + chunk:]
            if not cand:
                continue
            runs += 1
            if test(flat(cand)):
                items, n, reduced = cand, max(n - 1, 2), True
                break
            if runs >= budget:
                break
        if not reduced:
            if chunk == 1:
                break
            n = min(len(items), n * 2)
    return items, runs


def ddmin(cfg, ops, workdir, pred, model_ok, budget=80):
    """Shrink an op list: cut everything before the last reset op, then delta-debug whole groups
    (blocks), then single ops."""
    reset, group = cfg.get("reset_token"), cfg.get("group_token")
    if reset:
        starts = [i for i, o in enumerate(ops) if o.split(" ", 1)[0] == reset]
        if starts:
            ops = ops[starts[-1]:]
    test = lambda cand: still_fails(cfg, cand, workdir, pred, model_ok)  # noqa: E731
    flat = lambda gs: [o for g in gs for o in g]  # noqa: E731
    used = 0
    if group:
        groups, cur = [], []
        for o in ops:
            if o.split(" ", 1)[0] in (group, reset) and cur:
                groups.append(cur)
                cur = []
            cur.append(o)
        if cur:
            groups.append(cur)
        head, rest = groups[:1], groups[1:]   # keep the reset group
        rest, used = _dd(rest, lambda gs: flat(head + gs), test, budget // 2)
        ops = flat(head + rest)
    keep = 1 if reset else 0
    items, _ = _dd([[o] for o in ops[keep:]], lambda gs: ops[:keep] + flat(gs), test, budget - used)
    return ops[:keep] + flat(items)


# ---------------------------------------------------------------- findings

def load_findings():
    p = os.path.join(ROOT, "known_findings.json")
    if not os.path.exists(p):
        return []
    return json.load(open(p)).get("findings", [])


# ---------------------------------------------------------------- main

def write_replay(pid, name, payload):
    os.makedirs(os.path.join(ROOT, "replays"), exist_ok=True)
    p = os.path.join(ROOT, "replays", "%s-%s.json" % (pid, name))
    json.dump(payload, open(p, "w"), indent=1)
    return p


def setup():
    t0 = time.time()
    os.makedirs(os.path.join(ROOT, "work"), exist_ok=True)
    with Lock():
        ok, out = build_harness()
        if not ok:
            print(out)
            sys.exit(2)
        ok, out = run_factx()
        if not ok:
            print(out)
            sys.exit(2)
        ok, out = lake_build([])
        print(out[-3000:])
        if not ok:
            sys.exit(2)
    log("setup done in %.0fs" % (time.time() - t0))


def main():
    ap = argparse.ArgumentParser()
    ap.add_argument("prop", nargs="?")
    ap.add_argument("--tier", default=os.environ.get("VERIF_TIER", "quick"))
    ap.add_argument("--replay")
    ap.add_argument("--setup", action="store_true")
    ap.add_argument("--keep", action="store_true", help="keep the work directory")
    a = ap.parse_args()
    if a.setup:
        return setup()
    pid = a.prop
    if pid not in PROPS:
        print("unknown property", pid)
        sys.exit(2)
    P = PROPS[pid]
    tier = a.tier if a.tier in ("quick", "thorough") else "quick"
    seed = int(os.environ.get("VERIF_SEED", "1") or 1)
    t0 = time.time()
    work = os.path.join(ROOT, "work", "%s-%s-%d" % (pid, tier, os.getpid()))
    os.makedirs(work, exist_ok=True)

    violations = []   # dicts: {kind, signature, replay, found_input: bool, what}
    known_lines = []
    notes = []

    # ---- build phase (serialised across concurrent checks)
    with Lock():
        ok, out = build_harness()
        if not ok:
            print(out[-4000:])
            print("[check] the harness does not build against %s" % REPO)
            # the tree does not compile with the harness: nothing can be decided
            rp = write_replay(pid, "build", {"property": pid, "kind": "harness-build", "log": out[-4000:],
                                             "unchecked": "T1 correspondence for %s" % pid})
            print("VIOLATION property=%s replay=%s no-failing-input-found" % (pid, rp))
            sys.exit(1)
        fx_ok, fx_out = run_factx()
        lean_ok, lean_out, thms = True, "", {}
        if not fx_ok:
            notes.append("factx failed: " + fx_out[-500:])
        mods = P["lean_modules"]
        if tier == "thorough":
            # clean rebuild of the property modules
            for m in mods:
                for ext in ("olean", "ilean", "trace", "olean.hash"):
                    fp = os.path.join(LEAN, ".lake", "build", "lib", "lean", m.replace(".", "/") + "." + ext)
                    if os.path.exists(fp):
                        os.remove(fp)
        lean_ok, lean_out = lake_build(["posmodel", "Posmint.Audit"] + mods)
        model_ok = os.path.exists(os.path.join(LEAN, ".lake", "build", "bin", "posmodel"))
        if not lean_ok:
            # try the driver alone so that T1 can still run
            mok, _ = lake_build(["posmodel"])
            model_ok = mok
        axiom_bad, raw_audit = [], ""
        if lean_ok:
            thms, raw_audit, rc = audit(pid, P["namespaces"], mods)
            for n, axs in thms.items():
                bad = [x for x in axs if x not in ALLOWED_AXIOMS]
                if bad:
                    axiom_bad.append((n, bad))
        forb = grep_forbidden()
        leancheck = None
        if lean_ok and tier == "thorough":
            r = run(["lake", "env", "leanchecker"] + mods, cwd=LEAN, timeout=3600)
            leancheck = (r.returncode == 0)
            if not leancheck:
                notes.append("leanchecker: " + r.stdout[-800:])

    facts_path = os.path.join(ROOT, "work", "facts.json")
    t3_mismatch = []
    if P.get("t3"):
        facts = json.load(open(facts_path)) if os.path.exists(facts_path) else {}
        for key in P["t3"]:
            exp_p = os.path.join(ROOT, "expectations", key + ".json")
            exp = json.load(open(exp_p)) if os.path.exists(exp_p) else None
            if facts.get(key) != exp:
                t3_mismatch.append({"fact": key, "expected": exp, "found": facts.get(key)})

    # ---- T1
    results = []
    total_ops = 0
    for ci, cfg in enumerate(P.get("t1", [])):
        jobs = []
        # corpus first
        for cf in sorted(glob.glob(os.path.join(ROOT, "corpus", cfg.get("corpus", cfg["family"]), "*.ops"))):
            jobs.append(("corpus:" + os.path.basename(cf), 0, 0, cf))
        if a.replay:
            jobs = []
        n = cfg["quick_n"] if tier == "quick" else cfg["thorough_n"]
        shards = 1 if tier == "quick" else cfg.get("shards", NPROC)
        shards = cfg.get("quick_shards", shards) if tier == "quick" else shards
        if not a.replay:
            for s in range(shards):
                jobs.append(("gen", seed * 1000003 + s * 7919 + ci, max(1, n // shards), None))
        else:
            rp = json.load(open(a.replay))
            if rp.get("family") not in (None, cfg["family"]) or rp.get("t1_index", ci) != ci:
                continue
            of = os.path.join(work, "replay.ops")
            open(of, "w").write("\n".join(rp.get("ops", [])) + "\n")
            jobs.append(("replay", 0, 0, of))
        with concurrent.futures.ThreadPoolExecutor(max_workers=NPROC) as ex:
            futs = []
            for ji, (kind, sd, nn, of) in enumerate(jobs):
                out = os.path.join(work, "t1-%d-%d" % (ci, ji))
                futs.append((kind, ex.submit(one_t1, cfg, sd, nn, out, model_ok, of)))
            for kind, fu in futs:
                r = fu.result()
                r["kind"] = kind
                r["cfg"] = cfg
                r["ci"] = ci
                results.append(r)
                total_ops += r["stats"].get("ops", 0)

    findings = [f for f in load_findings() if f["property"] == pid]
    known_sigs = {f["signature"]: f for f in findings if f["status"] == "known"}

    # ---- classify monitor failures
    seen_sig = {}
    for r in results:
        for fl in r["failures"]:
            seen_sig.setdefault(fl["signature"], (r, fl))
    for sig, (r, fl) in sorted(seen_sig.items()):
        # a monitor clause belongs to the property named in its signature; the check of another
        # property sharing the family leaves it to that property's own check
        m_ = re.match(r"(C\d\d):", sig)
        if m_ and pid.startswith("C") and m_.group(1) != pid and m_.group(1) in PROPS:
            notes.append("monitor clause of %s observed (reported by ./check %s): %s" % (m_.group(1), m_.group(1), sig))
            continue
        if sig in known_sigs:
            known_lines.append("KNOWN-FINDING: property=%s %s [%s]" % (pid, known_sigs[sig]["what"], sig))
            continue
        cfg = r["cfg"]
        ops = read_lines(os.path.join(r["out"], "ops.txt"))[: fl["op_index"] + 1]
        if cfg.get("stateless"):
            ops = [fl["op"]]
        else:
            pred = lambda rr, sig=sig: any(x["signature"] == sig for x in rr["failures"])  # noqa: E731
            ops = ddmin(cfg, ops, work, pred, False, budget=150 if tier == "quick" else 600)
        rp = write_replay(pid, re.sub(r"[^A-Za-z0-9_.-]", "_", sig)[-80:], {
            "property": pid, "kind": "monitor", "family": cfg["family"], "t1_index": r["ci"], "signature": sig,
            "clause": fl["clause"], "detail": fl["detail"], "seed": r["seed"], "ops": ops,
            "rerun": "./check %s --replay <this file>" % pid})
        violations.append({"kind": "monitor", "signature": sig, "replay": rp, "found_input": True, "what": fl["detail"]})

    # ---- T1 disagreements / crashes
    for r in results:
        cfg = r["cfg"]
        d = r["disagreement"]
        crashed = r.get("crash")
        model_failed = cfg.get("model") and model_ok and not r["model_ok"]
        if not d and not crashed and not model_failed:
            continue
        ops = read_lines(os.path.join(r["out"], "ops.txt"))
        if crashed and ops:
            # the harness process died: the last operation written to ops.txt killed it
            killer = ops[-1]
            opsk = ddmin(cfg, ops, work, lambda rr: rr.get("crash"), False, budget=60) if not cfg.get("stateless") else [killer]
            rp = write_replay(pid, "crash-%s-%d" % (cfg["family"], r["seed"]), {
                "property": pid, "kind": "process-killed", "family": cfg["family"], "t1_index": r["ci"], "seed": r["seed"],
                "killer_op": killer, "harness_log": r["harness_log"][-1500:], "ops": opsk,
                "rerun": "./check %s --replay <this file>" % pid})
            violations.append({"kind": "crash", "signature": "process-killed", "replay": rp, "found_input": True,
                               "what": "the process under test exited/crashed while executing: " + killer[:200]})
            break
        if d:
            ops = ops[: d["index"] + 1]
            if cfg.get("stateless"):
                ops = [d["op"]]
            else:
                ops = ddmin(cfg, ops, work, lambda rr: rr["disagreement"] is not None, True,
                            budget=150 if tier == "quick" else 600)
        has_input = any(v["found_input"] for v in violations)
        rp = write_replay(pid, "t1-%s-%d" % (cfg["family"], r["seed"]), {
            "property": pid, "kind": "t1-disagreement" if d else ("harness-crash" if crashed else "model-driver-failed"),
            "family": cfg["family"], "t1_index": r["ci"], "seed": r["seed"], "disagreement": d,
            "correspondence": "T1 %s model=%s" % (cfg["family"], cfg.get("model")),
            "harness_log": r["harness_log"] if crashed else "", "model_err": r.get("model_err", ""),
            "ops": ops, "rerun": "./check %s --replay <this file>" % pid})
        violations.append({"kind": "t1", "signature": "t1:" + cfg["family"], "replay": rp, "found_input": False,
                           "what": json.dumps(d)[:300] if d else r["harness_log"][-300:]})
        break  # one correspondence violation is enough

    # ---- proof obligations
    proof_broken = []
    if not lean_ok:
        m = re.findall(r"^(?:error: )?(\S+\.lean:\d+:\d+): error", lean_out, re.M)
        proof_broken.append({"what": "lake build failed", "where": m[:10], "log": lean_out[-3000:]})
    if not fx_ok:
        proof_broken.append({"what": "factx (T2) failed", "log": fx_out[-1000:]})
    for n, bad in axiom_bad:
        proof_broken.append({"what": "theorem %s depends on non-standard axioms %s" % (n, bad)})
    if forb:
        proof_broken.append({"what": "forbidden construct in Lean sources", "where": forb[:10]})
    if lean_ok and not thms:
        proof_broken.append({"what": "audit found no theorems", "log": raw_audit[-1000:]})
    missing = [t for t in P.get("required_theorems", []) if lean_ok and t not in thms]
    if missing:
        proof_broken.append({"what": "required theorems missing", "where": missing})
    if leancheck is False:
        proof_broken.append({"what": "leanchecker rejected the compiled modules"})
    if t3_mismatch:
        proof_broken.append({"what": "T3 structural obligation mismatch", "where": t3_mismatch})
    if proof_broken:
        rp = write_replay(pid, "proof", {"property": pid, "kind": "proof-or-tie-broken", "broken": proof_broken,
                                         "theorems": sorted(thms)})
        violations.append({"kind": "proof", "signature": "proof", "replay": rp, "found_input": False,
                           "what": proof_broken[0]["what"]})

    # ---- extra runtime obligations (supporting validation, not proof)
    extras_info = {}
    for ex in P.get("extras", []):
        if ex == "iavlrace":
            # an IAVL iterator closed before it is exhausted must not leave a goroutine walking the tree (C01: the
            # background walk races with the writes and the commit that follow and can kill the process)
            rb = run(["go", "build", "-race", "-o", "bin/kvrace", "./cmd/kvrace"], cwd=HARN, timeout=1800,
                     env=dict(ENV, CGO_ENABLED="1"))
            if rb.returncode != 0:
                rp = write_replay(pid, "iavlrace-build", {"property": pid, "kind": "build", "log": rb.stdout[-3000:]})
                violations.append({"kind": "proof", "signature": "iavlrace-build", "replay": rp, "found_input": False,
                                   "what": "the race-detector build of the IAVL iterator run failed"})
                continue
            rounds = 300 if tier == "quick" else 20000
            rr = run([os.path.join(HARN, "bin", "kvrace"), "--scenario", "iavl-early-close", "--seed", str(seed), "--rounds", str(rounds)],
                     env=dict(ENV, GORACE="halt_on_error=1 exitcode=66"), timeout=3000)
            extras_info["iavlrace"] = {"rounds": rounds, "result": rr.stdout.strip()[-300:]}
            if rr.returncode != 0:
                rp = write_replay(pid, "C01_iavl-iterator-race", {"property": pid, "kind": "concurrency", "signature": "C01:iavl-iterator-race",
                                  "rerun": "cd harness && CGO_ENABLED=1 go build -race -o bin/kvrace ./cmd/kvrace && GORACE=halt_on_error=1 bin/kvrace --scenario iavl-early-close --seed %d --rounds %d" % (seed, rounds),
                                  "output": rr.stdout[-6000:]})
                violations.append({"kind": "monitor", "signature": "C01:iavl-iterator-race", "replay": rp, "found_input": True,
                                   "what": "an IAVL iterator closed early keeps reading the tree while the store is written and committed"})
        if ex == "kvrace":
            # C15's concurrency clause: several goroutines on one cachekv wrapper under the race detector, the history
            # of calls checked for linearizability against a plain map
            rb = run(["go", "build", "-race", "-o", "bin/kvrace", "./cmd/kvrace"], cwd=HARN, timeout=1800,
                     env=dict(ENV, CGO_ENABLED="1"))
            if rb.returncode != 0:
                rp = write_replay(pid, "kvrace-build", {"property": pid, "kind": "build", "log": rb.stdout[-3000:]})
                violations.append({"kind": "proof", "signature": "kvrace-build", "replay": rp, "found_input": False,
                                   "what": "the race-detector build of the cachekv concurrency run failed"})
                continue
            rounds = 300 if tier == "quick" else 5000
            rr = run([os.path.join(HARN, "bin", "kvrace"), "--seed", str(seed), "--rounds", str(rounds)],
                     env=dict(ENV, GORACE="halt_on_error=1 exitcode=66"), timeout=3000)
            extras_info["kvrace"] = {"rounds": rounds, "result": rr.stdout.strip()[-400:]}
            if rr.returncode != 0:
                sig = "C15:data-race" if "DATA RACE" in rr.stdout else "C15:not-linearizable"
                rp = write_replay(pid, sig.replace(":", "_"), {"property": pid, "kind": "concurrency", "signature": sig,
                                  "rerun": "cd harness && go build -race -o bin/kvrace ./cmd/kvrace && GORACE=halt_on_error=1 bin/kvrace --seed %d --rounds %d" % (seed, rounds),
                                  "output": rr.stdout[-6000:]})
                violations.append({"kind": "monitor", "signature": sig, "replay": rp, "found_input": True,
                                   "what": "concurrent Get/Has/Set/Delete on one cachekv wrapper: " + sig.split(":")[1]})

    # ---- evidence
    obligations = len(thms) if thms else len(P.get("required_theorems", [])) or 1
    discharged = 0
    if lean_ok and not forb:
        discharged = sum(1 for n, axs in thms.items() if all(x in ALLOWED_AXIOMS for x in axs))
    agg = {"ops": 0, "by_kind": {}, "by_outcome": {}, "classes": {}, "distinct": 0, "extra": {}}
    for r in results:
        st = r["stats"]
        agg["ops"] += st.get("ops", 0)
        agg["distinct"] += st.get("distinct_nontrivial", 0)
        for k in ("by_kind", "by_outcome", "classes", "extra"):
            for kk, vv in (st.get(k) or {}).items():
                agg[k][kk] = agg[k].get(kk, 0) + vv
    samples = []
    for r in results[:4]:
        ops = read_lines(os.path.join(r["out"], "ops.txt"))
        im = read_lines(os.path.join(r["out"], "impl.txt"))
        mo = read_lines(os.path.join(r["out"], "model.txt"))
        step = max(1, len(ops) // 3)
        for i in range(0, len(ops), step):
            samples.append({"op": ops[i][:400], "impl": im[i][:400] if i < len(im) else None,
                            "model": mo[i][:400] if i < len(mo) else None})
            if len(samples) >= 8:
                break
    if not samples:
        samples = [{"theorem": n, "axioms": axs} for n, axs in list(sorted(thms.items()))[:5]] or ["(no case executed)"]
    compared = sum(r["stats"].get("ops", 0) for r in results if r["model_ok"])
    ev = {
        "property_id": pid, "tier": tier, "seed": seed, "level": "proof",
        "coverage": {
            "obligations": obligations, "discharged": discharged,
            "checker_cmd": "cd lean && lake build %s && lake env lean .audit/%s.lean  (# axioms per theorem)%s" % (
                " ".join(P["lean_modules"]), pid, " && lake env leanchecker " + " ".join(P["lean_modules"]) if tier == "thorough" else ""),
            "trusted_base": P.get("trusted", []) + [
                "Lean 4.33.0 kernel; axioms allowed: propext, Classical.choice, Quot.sound (audited per theorem)",
                "hand-written Lean model tied to /repo by the T1 differential run reported below (generator coverage bounds it)",
                "harness/cmd/factx (T2 constants, T3 facts)"],
            "theorems": {n: axs for n, axs in sorted(thms.items())},
            "leanchecker": leancheck,
            "evaluations": agg["ops"],
            "distinct_nontrivial": agg["distinct"],
            "rule": P.get("rule", ""),
            "samples": samples,
            "traces_validated_against_impl": compared,
            "t1": {"ops_compared_model_vs_impl": compared, "jobs": len(results),
                   "disagreements": sum(1 for r in results if r["disagreement"]),
                   "by_kind": agg["by_kind"], "by_outcome": agg["by_outcome"],
                   "classes": len(agg["classes"]), "extra": agg["extra"]},
            "t3_facts_checked": P.get("t3", []),
            "extras": extras_info,
            "monitor_failures": sum(len(r["failures"]) for r in results),
            "known_findings_printed": known_lines,
            "notes": notes,
        },
        "assumptions": P.get("assumptions", []),
        "wall_s": round(time.time() - t0, 2),
        "violations": len(violations),
    }
    if re.fullmatch(r"C\d\d", pid):   # development entries write no evidence
        os.makedirs(os.path.join(ROOT, "evidence"), exist_ok=True)
        json.dump(ev, open(os.path.join(ROOT, "evidence", pid + ".json"), "w"), indent=1)

    for l in known_lines:
        print(l)
    if not a.keep:
        shutil.rmtree(work, ignore_errors=True)
    if violations:
        found = [v for v in violations if v["found_input"]]
        if found:
            for v in found:
                print("[check] %s: %s" % (v["signature"], v["what"][:300]))
                print("VIOLATION property=%s replay=%s" % (pid, os.path.relpath(v["replay"], ROOT)))
            for v in violations:
                if not v["found_input"]:
                    print("[check] also broken: %s (%s) -> %s" % (v["kind"], v["what"][:200], os.path.relpath(v["replay"], ROOT)))
        else:
            v = violations[0]
            for w in violations:
                print("[check] broken: %s: %s -> %s" % (w["kind"], w["what"][:300], os.path.relpath(w["replay"], ROOT)))
            print("VIOLATION property=%s replay=%s no-failing-input-found" % (pid, os.path.relpath(v["replay"], ROOT)))
        sys.exit(1)
    print("[check] %s %s: %d theorems audited, %d ops compared model-vs-impl, 0 violations (%.0fs)" % (
        pid, tier, len(thms), compared, time.time() - t0))
    sys.exit(0)


if __name__ == "__main__":
    main()
