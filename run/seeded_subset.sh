#!/bin/bash
# like seeded_all.sh (ONLY="C10i C18i" restricts to those ids), for the seeded changes of the properties given as arguments (e.g. C01 C02)
cd "$(dirname "$0")/.."
for d in seeded/C*; do
  if [ -n "$ONLY" ]; then case " $ONLY " in *" $(basename $d) "*) ;; *) continue;; esac; fi
  p=$(python3 -c "import json,sys; print(json.load(open('$d/meta.json'))['property'])")
  case " $* " in *" $p "*) ;; *) continue;; esac
  out=$(run/seeded_eval.sh /verif/$d/patch.diff $p quick 2>&1)
  echo "== $p $d"; echo "$out" | head -4 | cut -c1-260
  python3 - "$d" "$p" "$out" <<'PY'
import json,sys,re,subprocess
d,p,out=sys.argv[1:4]
m=json.load(open(d+'/meta.json'))
rc=re.search(r'rc=(\d+)',out)
vio=[l for l in out.splitlines() if l.startswith('VIOLATION')]
det=[l for l in out.splitlines() if l.startswith('[check]')]
head=subprocess.run(['git','-C','/repo','rev-parse','--short','HEAD'],capture_output=True,text=True).stdout.strip()
m['builder_run']={
 'repo_head':head,
 'applied_with':'git -C /repo apply /verif/%s/patch.diff ; ./check %s ; git -C /repo checkout -- .'%(d,p),
 'check_exit':int(rc.group(1)) if rc else None,
 'violation_lines':vio[:3],
 'first_report':[l[:400] for l in det[:2]],
 'caught':bool(vio) and rc is not None and rc.group(1)=='1',
 'concrete_input':bool(vio) and not any('no-failing-input-found' in v for v in vio)}
json.dump(m,open(d+'/meta.json','w'),indent=1)
PY
done
git checkout -- evidence
