#!/usr/bin/env python3
"""Regenerates MANIFEST.json from run/props.py (claimed checks) and the NOT_APPLICABLE table."""
import json, os, sys
ROOT = os.path.dirname(os.path.dirname(os.path.abspath(__file__)))
sys.path.insert(0, os.path.join(ROOT, "run"))
from props import PROPS, MANIFEST_TEXT, NOT_APPLICABLE  # noqa

ids = ["C%02d" % i for i in range(1, 21)]
checks = []
for pid in ids:
    if pid not in PROPS or pid in NOT_APPLICABLE or pid not in MANIFEST_TEXT:
        continue
    # claim a property only when its Lean module is in the tree
    if not all(os.path.exists(os.path.join(ROOT, "lean", m.replace(".", "/") + ".lean")) for m in PROPS[pid]["lean_modules"]):
        continue
    t = MANIFEST_TEXT[pid]
    checks.append({
        "property_id": pid,
        "quick_cmd": "./check %s --tier quick" % pid,
        "thorough_cmd": "./check %s --tier thorough" % pid,
        "evidence_file": "/verif/evidence/%s.json" % pid,
        "replay_cmd_template": "./check %s --replay {path}" % pid,
        "engine": "lean-proof+t1",
        "level_claimed": {"category": "proof", "text": t["text"], "design_ref": "DESIGN.md section 8, " + pid},
        "level_note": t["note"],
        "technique": t["technique"],
    })
m = {
    "version": 1,
    "setup_cmd": "./setup.sh",
    "hooks": {"guard": "verif",
              "enable": "go build -tags verif ./... (the harness builds /repo with this tag; no hook commit exists so far: public entry points suffice)",
              "baseline_off_cmd": "cd /repo && go test -vet=off -count=1 -timeout 25m ./...",
              "source_commits": [], "add_only": True},
    "engines": [{"name": "lean-proof+t1", "path": "/verif/check",
                 "serves_properties": [c["property_id"] for c in checks],
                 "kind_free_text": "Lean 4 theorems over hand-written executable models (lean/Posmint), axiom audit, "
                                   "tied to /repo on every run by a Go differential harness (harness/) driving the model "
                                   "through a line protocol (T1), constants regenerated from source (T2) and go/ast structural facts (T3)"}],
    "checks": checks,
    "notes": "Every check rebuilds the Go harness against /repo's working tree, regenerates lean/Posmint/Generated.lean, "
             "rebuilds and audits the property's Lean module, then runs the correspondence and the property monitor. "
             "known_findings.json lists recorded defects. See DESIGN.md.",
    "not_applicable": [{"property_id": p, "reason": NOT_APPLICABLE.get(p, "check not built yet (work in progress; DESIGN.md section 8 has the plan)")}
                       for p in ids if p not in [c["property_id"] for c in checks]],
}
json.dump(m, open(os.path.join(ROOT, "MANIFEST.json"), "w"), indent=1)
print("MANIFEST.json: %d checks, %d not claimed" % (len(checks), len(m["not_applicable"])))
