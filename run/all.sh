#!/bin/bash
# runs every claimed check once (quick by default) and prints one line per property
cd "$(dirname "$0")/.."
TIER=${1:-quick}
for p in $(python3 -c "import json;print(' '.join(c['property_id'] for c in json.load(open('MANIFEST.json'))['checks']))"); do
  s=$(date +%s); out=$(./check $p --tier $TIER 2>&1); rc=$?
  echo "$p rc=$rc $(( $(date +%s)-s ))s $(echo "$out" | grep -c KNOWN-FINDING) known | $(echo "$out" | grep 'VIOLATION' | head -2 | tr '\n' ' ')"
done
