#!/bin/bash
# usage: seeded_verify.sh <worktree> <id>  -- confirms a seeded change: builds, suite passes with it, demo fails with it and passes without.
export GOFLAGS=-mod=mod GOPROXY=off GOSUMDB=off GOTOOLCHAIN=local
W=$1; ID=$2; cd $W || exit 2
rm -rf /tmp/_so_$ID; mv seeded_out /tmp/_so_$ID     # the deliverables are not part of the module
DEMO=$(git status --porcelain | grep 'zz_seeded_demo' | awk '{print $2}' | head -1)
PKG=./$(dirname "$DEMO")
echo "demo=$DEMO pkg=$PKG"
git diff --stat | tail -3
go build ./... || { echo BUILD-FAIL; mv /tmp/_so_$ID seeded_out; exit 1; }
mv $DEMO /tmp/_demo_$ID.go
go test -vet=off -count=1 ./... > /tmp/_suite_$ID.log 2>&1; S=$?; echo "suite_with_change rc=$S ($(grep -c '^ok' /tmp/_suite_$ID.log) packages ok)"; grep "FAIL" /tmp/_suite_$ID.log | head -3
mv /tmp/_demo_$ID.go $DEMO
go test -vet=off -count=1 -run 'Seeded' $PKG > /tmp/_demo1_$ID.log 2>&1; echo "demo_with_change rc=$? (want !=0)"
git add -N -- . ':!seeded_out' ':!*zz_seeded_demo_test.go' 2>/dev/null   # new source files belong to the change
git diff -- . ':!*zz_seeded_demo_test.go' > /tmp/_patch_$ID.diff
git apply -R /tmp/_patch_$ID.diff
go test -vet=off -count=1 -run 'Seeded' $PKG > /tmp/_demo2_$ID.log 2>&1; echo "demo_without_change rc=$? (want 0)"
git apply /tmp/_patch_$ID.diff
mv /tmp/_so_$ID seeded_out
