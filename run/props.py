"""Per-property configuration of the orchestrator (run/check.py)."""

PROPS = {
    "C18": {
        "lean_modules": ["Posmint.Props.C18"],
        "namespaces": ["Posmint.Props.C18"],
        "required_theorems": [],
        "t1": [
            {"family": "arith", "model": "arith", "stateless": True, "quick_n": 60000, "thorough_n": 4000000},
        ],
        "rule": "operations drawn from a boundary-biased generator (0, +-1, 2^k+-d, 10^k+-d, k*10^18+5*10^17+-1, "
                "bound-d, random bit lengths); a case is non-trivial when it is a distinct (operation, operands, "
                "outcome) triple; classes = operation x outcome kind",
        "assumptions": ["operands are valid values of their types (|Int| < 2^255, 0 <= Uint < 2^256)",
                        "*big.Int operand aliasing is checked by the harness re-reading operands after each call, not in Lean"],
        "trusted": ["math/big (the harness oracle computes exact rationals with it, independently of posmint)"],
    },
}

# Properties not claimed, with the reason (kept current; see DESIGN.md).
NOT_APPLICABLE = {}

MANIFEST_TEXT = {
    "C18": {
        "text": "Lean theorems: Int/Uint Add/Sub/Mul equal exact arithmetic or panic exactly when out of range (incl. Mul's "
                "pre-check being neither too strict nor too lax); chopPrecisionAndRound is the unique half-to-even rounding for "
                "all signs, Truncate is toward zero, RoundUp/Ceil are ceilings; Dec.Mul/RoundInt/TruncateInt specs with range panics. "
                "Model tied to types/*.go by a differential run on boundary-biased operands and an independent math/big oracle.",
        "note": "Lean kernel + 3 standard axioms; model hand-written (types/int.go, uint.go, decimal.go) and tied by T1; "
                "constants maxBitLen/Precision/DecimalPrecisionBits regenerated from source; Dec.Quo/QuoRoundUp double rounding is a recorded known finding",
        "technique": "Lean 4 proof over executable model + differential correspondence",
    },
}
