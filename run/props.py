"""Per-property configuration of the orchestrator (run/check.py)."""

PROPS = {
    "C18": {
        "lean_modules": ["Posmint.Props.C18", "Posmint.Props.C18Coins", "Posmint.Props.C18Quo", "Posmint.Props.C18DecCoins"],
        "namespaces": ["Posmint.Props.C18", "Posmint.Props.C18Coins", "Posmint.Props.C18Quo", "Posmint.Props.C18DecCoins"],
        "required_theorems": ["Posmint.Props.C18." + t for t in ("intMul_exact", "chopRound_spec", "decMul_spec", "decCeil_spec")] +
                             ["Posmint.Props.C18Quo." + t for t in ("decQuoTruncate_exact", "decQuo_rounds_q36", "decQuo_partial", "decQuo_double_rounding_counterexample",
                              "decQuoRoundUp_ceils_q36", "decQuoRoundUp_partial", "decQuoRoundUp_lost_tail_counterexample")] +
                             ["Posmint.Props.C18Coins." + t for t in ("isValid_canon", "amountOf_spec", "safeAdd_spec", "safeAdd_none_iff", "add_canon",
                              "safeSub_spec", "sub_spec", "add_sub_inverse", "sub_add_inverse", "isAllGTE_spec", "isAllGT_spec", "isAnyGT_spec",
                              "isAnyGTE_spec", "denomsSubsetOf_spec", "isEqual_partial", "isEqual_sound", "newCoins_spec", "newCoins_of_valid")] +
                             ["Posmint.Props.C18DecCoins." + t for t in ("add_spec", "add_none_iff", "add_canon", "safeSub_spec", "sub_spec", "add_sub_inverse", "sub_add_inverse",
                              "scale_spec", "scale_total", "mulDec_spec", "mulDecTruncate_spec", "quoDec_spec", "quoDecTruncate_spec", "quoDec_zero_panics",
                              "mulDec_none_iff", "truncateDecimal_spec", "intersect_spec")],
        "t1": [
            {"family": "arith", "model": "arith", "stateless": True, "quick_n": 60000, "thorough_n": 16000000},
        ],
        "rule": "operations drawn from a boundary-biased generator (0, +-1, 2^k+-d, 10^k+-d, k*10^18+5*10^17+-1, "
                "bound-d, random bit lengths, products whose bit lengths add up to the limit in every sign combination); a quarter of the "
                "operations are Coins operations (IsValid, NewCoins, Add, Sub, SafeSub, AmountOf, the seven comparisons, IsZero, IsEqual) on "
                "canonical sets over eight denominations with amounts up to 2^255-1, on pairs derived from each other (amounts one unit either "
                "side, denominations dropped / added) and on non-canonical lists (unsorted, duplicates, zero / negative amounts, malformed "
                "denominations); a case is non-trivial when it is a distinct (operation, operands, outcome) triple; classes = operation x outcome kind",
        "assumptions": ["operands are valid values of their types (|Int| < 2^255, 0 <= Uint < 2^256)",
                        "*big.Int operand aliasing and 'valid coin operands are never mutated' are checked by the harness re-reading operands after each call, not in Lean",
                        "DecCoins (types/dec_coin.go) has no Lean model: implementation-side monitors with a per-denomination oracle; denominations are ASCII (Go compares bytes, Lean code points)"],
        "trusted": ["math/big (the harness oracle computes exact rationals with it, independently of posmint)"],
    },
}

KV_T1 = [
    {"family": "kv", "model": "kv", "quick_n": 40000, "thorough_n": 6000000, "corpus": "kv", "reset_token": "new"},
    {"family": "kv", "model": "kv", "profile": "iavl", "quick_n": 15000, "thorough_n": 2000000, "corpus": "kv", "reset_token": "new"},
]
KV_RULE = ("programs over stacks of real wrappers (cachekv / prefix / gaskv / tracekv, depth <= 7) on a MemDB or IAVL base; keys over "
           "{00,01,ff}^<=3 (+ random bytes) so that keys are prefixes of each other; iterators opened, stepped, written under and resumed; "
           "gas limits from tiny to 2^64-5000 (overflow); a case is non-trivial when it is a distinct (op, stack shape, outcome) "
           "triple on a non-setup op; the overlay oracle in the harness re-derives every read/iteration/flush from simple maps")
PROPS["C16"] = {
    "lean_modules": ["Posmint.Props.C16"],
    "namespaces": ["Posmint.Props.C16"],
    "required_theorems": ["Posmint.Props.C16.prefixEnd_spec", "Posmint.Props.C16.gas_exact", "Posmint.Props.C16.out_of_gas_exact",
                          "Posmint.Props.C16.trace_exact_get", "Posmint.Props.C16.prefix_isolation_set", "Posmint.Props.C16.consume_spec"],
    "t1": KV_T1,
    "rule": KV_RULE,
    "assumptions": ["values shorter than 2^58 bytes (per-byte gas products do not overflow uint64)",
                    "iterators through gas/trace layers are modelled when no cache layer sits above a gas/trace layer (the realistic stacking); "
                    "point operations and Write are modelled for every stacking",
                    "Has is delegated without a trace record (the trace format defines five operation kinds)"],
    "trusted": ["tm-db MemDB / tendermint iavl as the base store (behaves like a sorted map; exercised by T1 on both)"],
}

PROPS["C15"] = {
    "extras": ["kvrace"],
    "lean_modules": ["Posmint.Props.C15"],
    "namespaces": ["Posmint.Props.C15"],
    "required_theorems": ["Posmint.Props.C15.get_refines", "Posmint.Props.C15.set_refines", "Posmint.Props.C15.delete_refines",
                          "Posmint.Props.C15.write_refines", "Posmint.Props.C15.iter_refines", "Posmint.Props.C15.discard_frame",
                          "Posmint.Props.C15.parent_frame_set"],
    "t1": KV_T1,
    "t3": ["cachekv_locking"],
    "rule": KV_RULE,
    "assumptions": ["keys are byte strings (every element < 256): Store.BytesOK, proved to be preserved by every operation; without it the prefix-layer "
                    "iteration theorem is false (iter_refines_needs_bytes)",
                    "what an already open iterator yields after Write() or after a direct write to the parent depends on the parent store "
                    "(MemDB reads values live, IAVL is a snapshot) and is outside the statement; the generator does not do it",
                    "concurrency: each of Get/Has/Set/Delete/Write/iterator runs under the store mutex (T3 fact cachekv_locking pins this against "
                    "the source); data-race freedom itself is a runtime property the Lean model cannot exhibit"],
    "trusted": ["tm-db MemDB / tendermint iavl as the base store", "Go's sync.Mutex"],
}

RM_T1 = [{"family": "rm", "model": "rm", "quick_n": 6000, "thorough_n": 2000000, "corpus": "rm", "reset_token": "new"}]
RM_RULE = ("histories of set/delete over 1-4 IAVL substores and a transient store on the real rootmulti.Store, with commits, reopenings, "
           "LoadVersion at every kind of version (retained / pruned / future / 0), crash injection after each possible number of batch "
           "writes of a commit followed by reopen and replay, /key queries with and without proofs at every kind of height; pruning "
           "options: the three shipped ones plus (1,0) (2,3) (1,2) (3,0) (0,2) (5,4); a shadow instance that never crashes provides the "
           "reference hashes; non-trivial = distinct (op, outcome, pruning option / crash point) on a non-setup op")
for _p, _req in (("C12", ["retained_closed_form", "reopen_latest_content", "commit_version_succ"]),
                 ("C13", ["crash_atomic", "replay_same", "crash_counterexample_keepRecent0"]),
                 ("C14", ["query_returns_committed", "pruned_or_future_empty", "multistore_proof_sound"])):
    PROPS[_p] = {
        "lean_modules": ["Posmint.Props." + _p], "namespaces": ["Posmint.Props." + _p],
        "required_theorems": ["Posmint.Props.%s.%s" % (_p, t) for t in _req],
        "t1": RM_T1, "rule": RM_RULE,
        "assumptions": ["database batches are atomic and durable once written (tm-db)",
                        "tendermint/iavl behaves like a versioned map with idempotent re-save of an identical version",
                        "C14: hash functions injective on the encodings involved; IAVL range proofs sound (library); proofs are checked by the harness with the real ProofRuntime against every height's app hash (validation, not proof)"],
        "trusted": ["tendermint/iavl, tm-db, tendermint/crypto/merkle"],
    }

CHAIN_T1 = [{"family": "chain", "model": "chain", "quick_n": 15000, "quick_shards": 3, "thorough_n": 1500000, "corpus": "chain",
             "reset_token": "init", "group_token": "begin"}]
CHAIN_RULE = ("block histories on the real BaseApp (auth + pos + gov over IAVL/MemDB) driven through InitChain / BeginBlock / DeliverTx / "
              "CheckTx / Simulate / EndBlock / Commit with really signed transactions: state-aware generator (stake, begin-unstake, unjail, "
              "send, change-param, DAO transfer/burn, upgrade; right/wrong signing key, key in signature or looked up, post-signing "
              "mutations, fees around the requirement, amounts around minimum stake and balance), votes from a Tendermint stand-in that "
              "applies the returned validator updates with the real delay, double-sign evidence of every age, queued awards and burns, "
              "block-time steps around jail duration / unstaking time; the whole decoded state is compared with the Lean model after "
              "every operation; non-trivial = distinct (operation kind, mutation, outcome) with a distinct operation text")
CHAIN_ASSUME = ["signatures are ideal (a signature verifies iff made by the verification key over exactly the checked bytes): cryptographic strength of ed25519 is assumed",
                "the tx-index lookup of the ante handler answers 'not found' (closed RPC port) unless a check says otherwise",
                "two denominations in the model: the staking one (upokt) and one more that only ever moves as part of a fee (balances, supply, fee "
                "collection and the hand-over to the proposer are modelled for it: Props/Denom2.lean); the general multi-denomination Coins algebra is C18",
                "Tendermint reports votes only for validators it holds; hostile consensus input (unknown validators, evidence against tombstoned ones) halts BeginBlock by design of the code and is modelled as a halt"]
CHAIN_TRUSTED = ["go-amino, tendermint/iavl, tm-db (state is decoded with the repo's own codec by the harness)"]

CHAIN_T1_DOWNTIME = {"family": "chain", "model": "chain", "profile": "downtime", "quick_n": 16000, "quick_shards": 4, "thorough_n": 500000,
                     "corpus": "none", "reset_token": "init", "group_token": "begin"}

def _chain(pid, req, t3=None):
    PROPS[pid] = {"lean_modules": ["Posmint.Props." + pid], "namespaces": ["Posmint.Props." + pid],
                  "required_theorems": ["Posmint.Props.%s.%s" % (pid, t) for t in req],
                  "t1": CHAIN_T1, "rule": CHAIN_RULE, "assumptions": CHAIN_ASSUME, "trusted": CHAIN_TRUSTED}
    if t3:
        PROPS[pid]["t3"] = t3

_chain("C03", ["ante_accept_sound", "wrong_key_rejected", "mutation_rejected", "low_fee_rejected", "fee_from_signer", "sig_limit_enforced", "sig_limit_within", "unknown_signer_rejected", "accounts_run", "accepted_pays_multiplied_fee", "multiplier_first_match"])
_chain("C11", ["reject_frame", "readonly_frame", "undecodable_frame", "accept_shape"])
PROPS["C11"]["lean_modules"] = PROPS["C11"]["lean_modules"] + ["Posmint.Props.C03"]
PROPS["C11"]["namespaces"] = PROPS["C11"]["namespaces"] + ["Posmint.Props.C03"]
PROPS["C11"]["required_theorems"] = PROPS["C11"]["required_theorems"] + ["Posmint.Props.C03.accounts_step"]
_chain("C17", ["param_change_authorised", "change_only_that_key", "dao_authorised", "gov_unauthorised_rejected", "block_ops_keep_gov", "gov_change_authorised", "gov_run", "acl_handover", "acl_drop", "acl_replace", "acl_undecodable", "upgrade_sets_plan", "parseAcl_encodeAcl", "parseUpgrade_encodeUpgrade"])

_chain("C07", ["slashAmount_exact", "slash_exact", "slash_noop", "doublesign_burns_all", "evidence_expired_ignored", "evidence_refused"])
_chain("C08", ["window_step", "window_init", "counter_is_window_count", "window_frame", "minSigned_rounding"])

_chain("C10", ["fees_to_proposer", "awards_minted_once", "begin_rewards", "award_accumulates", "empty_queue_mints_nothing"])

_chain("C02", ["supply_eq_balances", "tx_supply", "end_supply", "begin_supply", "queue_ops_frame"])
_chain("C04", ["pool_backs_stake", "genesis_surplus_zero", "surplus_step", "stake_exact", "maturity_exact"])
_chain("C05", ["updates_reach_target", "target_spec", "update_no_halt", "genesis_updates"])
_chain("C06", ["index_and_queue_exact", "min_stake_step", "status_step", "matures_on_time", "never_early", "end_no_halt"])
_chain("C09", ["jailed_not_in_target", "jailed_excluded_after_end", "unjail_iff", "unjail_effect", "tombstone_forever", "tombstone_forever_run", "doublesign_tombstones"])

PROPS["C20"] = {
    "lean_modules": ["Posmint.Props.C20"], "namespaces": ["Posmint.Props.C20"],
    "required_theorems": ["Posmint.Props.C20." + t for t in ("uvarint_roundtrip", "varint_roundtrip", "lenPrefixed_roundtrip", "intText_roundtrip",
                          "coin_roundtrip", "coins_roundtrip", "powerKey_roundtrip", "powerKey_order", "formatCivil_order", "inclusiveEnd_spec", "hex_roundtrip", "coinText_roundtrip", "parseCoinText_sound", "parseCoinText_spaces",
                          "fields_roundtrip", "encodeFields_injective", "flatMsg_injective", "msgSend_is_flat", "msgSend_injective",
                          "struct_roundtrip", "encodeStruct_injective", "encodeTime_injective", "validator_roundtrip", "validator_injective", "signing_injective", "stdTx_injective", "validator_shape", "signing_shape", "flat_messages_shape", "stdTx_shape", "stake_upgrade_shape", "account_injective", "account_shape", "upgradePlan_injective")],
    "t1": [{"family": "codec", "model": "codec", "stateless": True, "quick_n": 60000, "thorough_n": 10000000, "corpus": "codec"}],
    "rule": "values and byte strings from boundary-biased generators: uvarints/varints around powers of two and 2^64, Int text of up to 255 bits "
            "and malformed text, Coin/Coins with empty and maximal denominations and truncated encodings, MsgSend with empty / 20-byte / odd-length "
            "addresses, power-index keys over the whole power range with all-0x00/0xFF/random addresses, unstaking time keys around second/day/leap "
            "boundaries from year 1 to 9999; every encoding produced by go-amino / the repo is compared byte for byte with the Lean model and "
            "decoded back by the implementation; a fifth of the operations are implementation-side monitors for the wire types outside the model "
            "(a StdTx around every message type, accounts, validators, signing infos, Dec: binary and JSON round trips; sign bytes equal across "
            "encodings and different after changing any one signed field; six corruptions of each encoded transaction offered to the decoder: "
            "no panic, accepted bytes re-encode stably); non-trivial = distinct (operation, input, outcome)",
    "assumptions": ["go-amino's crash-freedom on hostile bytes is tested (truncated and malformed inputs), not proved",
                    "the amino model covers varints, length-delimited fields, Int text, Coin, Coins, MsgSend; the other wire types (StdTx, the remaining "
                    "messages, accounts, validators, signing infos) are covered by implementation-side round-trip monitors and by the chain family "
                    "(every state record and every transaction goes through the real codec and is compared with the model after decoding)",
                    "sign-bytes canonicity is exercised by the chain family's post-signing mutation cases (C03), not proved in Lean"],
    "trusted": ["go-amino, encoding/json, time.Format"],
}

PROPS["C01"] = {
    "extras": ["iavlrace"],
    "lean_modules": ["Posmint.Props.C01"], "namespaces": ["Posmint.Props.C01"],
    "required_theorems": ["Posmint.Props.C01." + t for t in ("readonly_step", "interleaved_traffic_state", "interleaved_traffic_outputs",
                          "step_sameButCheckHeader", "restart_irrelevant", "restart_forgotten_at_commit", "canonMap_perm", "appHash_perm",
                          "content_pruning_independent")],
    "t1": [{"family": "chain", "model": "chain", "profile": "replica", "quick_n": 8000, "quick_shards": 2, "thorough_n": 1000000,
            "corpus": "chain-replica", "reset_token": "init", "group_token": "begin"},
           {"family": "chain", "model": "chain", "profile": "replica-downtime", "quick_n": 3000, "thorough_n": 200000,
            "corpus": "none", "reset_token": "init", "group_token": "begin"}] + RM_T1,
    "t3": ["map_ranges"],
    "rule": "two real application instances fed the same requests: the primary one (also compared with the Lean model after every operation) and "
            "a replica with its own database and another pruning configuration (nothing / (2,3) / everything / (1,0)), which is closed and reopened "
            "from its database after about every fourth Commit, does not see the primary's CheckTx / simulate requests and receives CheckTx / "
            "simulate / store queries of its own; after every InitChain, BeginBlock, DeliverTx, EndBlock, Commit and keeper call the result code, "
            "data, events, validator updates and app hash of the two are compared, and after every Commit the whole decoded state; genesis states "
            "include exported ones (signing infos and missed-block arrays for up to 9 addresses); the multistore family adds a never-crashing shadow "
            "store whose hashes must equal the primary's across crashes, replays and pruning options; non-trivial = distinct (operation kind, outcome) "
            "with a distinct operation text",
    "assumptions": ["both instances run in one process with the same binary: nondeterminism that needs different machines, Go versions or "
                    "architectures (floating point, word size) is out of reach; map iteration order, the only in-process source, is randomised by "
                    "the Go runtime on every loop and additionally audited statically (T3)",
                    "Tendermint itself (block execution order, LastResultsHash) is outside the repository",
                    "the static audit justifies each map loop by hand (expectations/map_ranges.notes.json); it detects new or changed loops, it does "
                    "not prove the justification"],
    "trusted": ["go/types with the compiler's export data (map-range audit)", "tm-db MemDB as the replica's database", "IAVL"],
}

PROPS["C19"] = {
    "lean_modules": ["Posmint.Props.C19"], "namespaces": ["Posmint.Props.C19"],
    "required_theorems": ["Posmint.Props.C19." + t for t in ("validDepth_iff", "leaf_verify_iff", "sign_verifies", "verify_iff", "multisig_iff", "verify_key_unique",
                          "verify_msg_unique", "shape_mismatch_rejected", "length_mismatch_rejected", "kstep_refines", "kstep_sorted", "list_exact",
                          "wrong_pass_no_effect", "import_wrong_pass_no_effect", "import_existing_refused", "export_import_roundtrip",
                          "create_then_use", "delete_exact")],
    "t1": [{"family": "keys", "model": "keys", "quick_n": 4000, "thorough_n": 400000, "corpus": "keys", "reset_token": "kb.new"},
           # the same stream against the on-disk keybase (keys.New: the database is opened anew for every operation)
           {"family": "keys", "model": "keys", "profile": "lazy", "quick_n": 400, "thorough_n": 60000, "corpus": "none", "reset_token": "kb.new"}],
    "rule": "two streams on the real crypto package: (1) multisignature verification of random key trees (ed25519 and secp256k1 leaves, nesting to "
            "depth 3, 0..4 components per node) against the genuine positional signature or a damaged one (component dropped, duplicated, swapped, "
            "replaced by a signature of another key / message / garbage / empty bytes, re-nested, signature of an unrelated key tree); each accepted "
            "signature is re-verified under another message; (2) keybase operation sequences on the in-memory keybase (create, delete, update, sign, "
            "armored export/import, raw export/import, list) with right and wrong passphrases (empty, ASCII, unicode, 40 bytes); after every refused "
            "operation the stored records are compared byte for byte with those before; non-trivial = distinct (operation, outcome) with distinct text",
    "assumptions": ["ed25519 / secp256k1 unforgeability and the armor's authenticated encryption (bcrypt + xsalsa20-poly1305) are assumptions: a leaf "
                    "signature is modelled as the pair (signer, message), an armored key as the pair (key, passphrase)",
                    "bcrypt ignores everything after a NUL byte and treats \"\" like \"\\x00\": the generator's passphrases avoid NUL bytes",
                    "the keybase runs on the in-memory DB; its LevelDB persistence is tm-db's"],
    "trusted": ["tendermint/crypto (ed25519, secp256k1), golang.org/x/crypto bcrypt / nacl secretbox, tm-db MemDB"],
}

# development-only entry: the chain family with all monitors, no Lean module (not in MANIFEST)
PROPS["XCHAIN"] = {
    "lean_modules": [], "namespaces": [],
    "t1": [{"family": "chain", "model": "chain", "quick_n": 4000, "thorough_n": 200000, "reset_token": "init", "group_token": "begin"}],
}

# Properties not claimed, with the reason (kept current; see DESIGN.md).
NOT_APPLICABLE = {}

MANIFEST_TEXT = {
    "C01": {"text": "In the Lean model an instance is a function of the request sequence, so agreement of instances is by construction; proved is that "
                    "what must not matter does not: CheckTx / simulate traffic interleaved anywhere changes neither the state nor any "
                    "consensus-relevant response; the only volatile state (the check-state header lost at a restart) influences no response and is "
                    "forgotten at the next Commit; the app hash is the same for every iteration order of the store map; committed content and version "
                    "are the same under every pruning configuration. Tied to the code by running two real instances (different DB, pruning, restarts, "
                    "private traffic) in lockstep and comparing responses, app hashes and states, by the model correspondence, and by a typed audit of "
                    "every loop over a Go map. Partial: cross-machine nondeterminism cannot be exhibited in one process. One defect found and repaired "
                    "(map-ordered genesis writes changed the first app hash).",
            "note": "runtime nondeterminism across machines is outside any model; map-loop justifications are by hand", "technique": "Lean 4 proof over executable model + two-instance differential run + regenerated structural audit"},
    "C19": {"text": "Lean theorems over key trees of any shape and depth: a (nested) multisignature key accepts exactly one signature per message - the "
                    "one in which every listed key signed in its own position - so dropped, duplicated, exchanged, re-nested or foreign components, "
                    "plain-for-multi and multi-for-plain signatures are all rejected; what verifies under one key verifies under no other key and for "
                    "no other message (the degenerate key without components, which used to verify everything, was found here and repaired). "
                    "Keybase: every operation sequence refines a map key -> passphrase; a wrong passphrase never yields a key, signature or export "
                    "and leaves the store literally unchanged; an import never overwrites; export then import under the right passphrase yields the "
                    "same key and address, usable under the new passphrase; listing shows each stored key once. Partial: the cryptographic "
                    "primitives are idealised (assumptions), tied to the real package by differential runs.",
            "note": "ed25519/secp256k1/bcrypt/secretbox trusted; multisig and keybase logic modelled by hand and tied by T1", "technique": "Lean 4 proof over executable model + differential correspondence"},
    "C20": {"text": "Lean round-trip and order theorems for the encodings the model covers: uvarint/varint (10-byte bound, exact consumption), "
                    "length-delimited fields incl. refusal of truncated input, Int decimal text with the 255-bit check, Coin and Coins (with a proved "
                    "counterexample showing the necessary length bound), injectivity of the Coin encoding; the flat message types (MsgSend, MsgBeginUnstake, "
                    "MsgUnjail, MsgDAOTransfer, MsgChangeParam: every field length-delimited) through a generic field encoder with a proved left inverse, "
                    "hence two messages with the same binary encoding have the same fields (fields_roundtrip, encodeFields_injective, flatMsg_injective, "
                    "msgSend_injective); the stored records (Validator, ValidatorSigningInfo, time) through a struct encoder with length-delimited and varint "
                    "fields, zero values omitted, int64 as two's complement, with a shape-directed left inverse (struct_roundtrip, encodeStruct_injective, "
                    "encodeTime_injective, validator_roundtrip, validator_injective: two validator records with the same stored bytes are the same record); power-index key round-trip and order "
                    "(power ascending, address descending), InclusiveEndBytes, the fixed-width time key is order preserving and injective for years "
                    "0-9999, address hex round-trip. Tied byte for byte to go-amino / x/pos key builders by differential runs. Partial: other wire "
                    "types and sign-byte canonicity are validated by monitors and the chain correspondence, not proved.",
            "note": "go-amino trusted; crash-freedom on hostile bytes tested", "technique": "Lean 4 proof over executable model + differential correspondence"},
    "C02": {"text": "Lean invariant proved by induction over every operation of the chain model (genesis_inv, step_inv, run_inv): in every state reachable "
                    "from a consistent genesis the recorded supply equals the sum of all balances and every recorded balance is positive; a transaction "
                    "changes the supply only if it is an accepted DAO burn (by exactly the amount), EndBlock never, BeginBlock by exactly the queued "
                    "awards minus the stake removed by slashes / burns / forced unstakes. Tied by differential runs comparing all balances and the "
                    "supply after every operation, plus a harness monitor that re-sums all accounts.",
            "note": "single denomination in the model", "technique": "Lean 4 invariant proof (induction over operations) + differential correspondence"},
    "C04": {"text": "Lean theorems: in every reachable state the staked pool holds at least the recorded stake of all staked/unstaking validators, and the "
                    "surplus is exactly the coins sent to the pool address directly (zero at genesis, each operation changes it only by such a "
                    "donation); staking moves exactly the amount into the pool and records exactly that stake; maturity returns exactly the recorded "
                    "stake and removes the record. Tied by differential runs and the harness's pool-vs-stake monitor after every operation.",
            "note": "two defects found here (stake recorded twice, doubled mint) are fixed and recorded", "technique": "Lean 4 invariant proof + differential correspondence"},
    "C05": {"text": "Lean theorems: the update batch of EndBlock (and of InitChain) is always applicable to the set Tendermint holds (distinct keys, "
                    "removals only of present validators, no negative power) and applying it yields exactly the MaxValidators highest-powered staked, "
                    "unjailed validators with power floor(stake/10^6), ties broken by lower address; EndBlock does not halt while indexed validators "
                    "have non-zero power. Rests on the index invariant (C06). Tied by differential runs with a Tendermint stand-in applying the "
                    "updates at the real delay, MaxValidators in {1,2,3,5,100000} changed by governance mid-run.",
            "note": "Tendermint's update rules are re-implemented in the harness and in Lean (applyUpdates)", "technique": "Lean 4 proof + differential correspondence"},
    "C06": {"text": "Lean theorems: in every reachable state the power index lists exactly the staked unjailed validators under their current power and "
                    "the unstaking queue holds exactly the unstaking validators at their completion times; status changes only along the legal edges, "
                    "each with its guard (own stake message of at least the minimum, own begin-unstake, maturity in EndBlock at or after completion, "
                    "forced unstake in BeginBlock); a due validator is paid out in full at this EndBlock and nobody else is touched; minimum stake is "
                    "kept while the parameter is unchanged. Tied by differential runs and raw index/queue monitors.",
            "note": "five defects in this area found and fixed (recorded)", "technique": "Lean 4 invariant proof + differential correspondence"},
    "C09": {"text": "Lean theorems: a jailed validator is not in the target set and absent from the set after the next EndBlock; unjail succeeds iff the "
                    "validator exists, is jailed, holds the minimum stake, is not tombstoned and block time has reached jailed-until, changing only the "
                    "jailed flag and re-indexing it with exactly its power; a tombstone is permanent (no operation clears it, every later unjail fails, "
                    "stake is refused); double-sign conviction tombstones and jails. Tied by differential runs with unjail attempts around "
                    "jailed-until by every kind of validator.",
            "note": "the returning-tombstoned-validator defect was found by this proof effort and fixed", "technique": "Lean 4 invariant proof + differential correspondence"},
    "C10": {"text": "Lean theorems over the rewards model: all collected fees go in full to the recorded proposer when it is a known validator, else stay "
                    "in the pos module account, and nothing else moves; every queued award is minted exactly once (each address gains exactly its "
                    "queued sum, supply grows by the total, queue empty afterwards, an empty queue mints nothing); BeginBlock as a whole changes every "
                    "ordinary account by exactly award + fee share. Tied by differential runs with 0-8 fee-paying txs per block, known/unknown "
                    "proposers, repeated awards.",
            "note": "single fee denomination in the model; the doubled mint found here is fixed and recorded",
            "technique": "Lean 4 proof over executable model + differential correspondence"},
    "C07": {"text": "Lean theorems over the slashing model: the slash amount is exactly trunc(p*10^6*f); a slash removes exactly min(that, stake) from "
                    "the validator, the pool and the supply and from nobody else, force-unstaking and burning the remainder when it falls below the "
                    "minimum; confirmed double-sign evidence inside the window burns the entire stake and tombstones; expired evidence changes nothing; "
                    "evidence against unknown/unstaked/tombstoned validators burns nothing. Tied by differential runs with downtime, evidence of every "
                    "age, queued burns, fractions 0 / 1 / 10^-18 / truncating values.",
            "note": "four defects in this area were found and fixed (recorded); refused evidence halts BeginBlock by design of the code",
            "technique": "Lean 4 proof over executable model + differential correspondence"},
    "C08": {"text": "Lean refinement theorem: the signing info and missed-bit array of a validator are a ring-buffer representation (WinRel) of the history "
                    "of missed flags since the last reset; one handleValidatorSignature call appends the flag, the counter is the number of misses among "
                    "the last W flags, and the validator is slashed+jailed exactly when height > start+W, the count exceeds W - minSigned, it exists and "
                    "is not jailed, after which the window is empty; MinSignedPerWindow is the half-even rounding of minSigned*W. For every W >= 1. "
                    "Lifted to an invariant of every state reachable from a fresh genesis by histories without a governance change of the window "
                    "(run_windowInv, counter_always_window_count): every address's counter is always the number of misses among its last W flags. "
                    "Tied by differential runs with W in {1,2,3,5,10} and 256..511 (long chains), fractions {0,.05,.5,.9,.95,.99,1}, per-validator "
                    "reliabilities, and a punish-iff monitor that re-derives every punishment decision.",
            "note": "window size and fraction are configuration: constant over the history the theorem speaks about",
            "technique": "Lean 4 refinement proof over executable model + differential correspondence"},
    "C03": {"text": "Lean theorems over the ante/runTx model with ideal signatures: an accepted transaction was signed by the key of the signer the "
                    "message declares (key supplied or looked up), no signed field was changed after signing, pays at least the required fee from the "
                    "signer's own balance into the collector; a wrong key, any post-signing mutation or a low fee is rejected without state change. "
                    "Tied by differential runs with really signed ed25519 transactions through DeliverTx/CheckTx. Partial: cryptographic strength "
                    "assumed; replay rejection (tx index over RPC) and nested multisignatures are checked by the harness monitors only.",
            "note": "ideal signature assumption; tx-index lookup is an external service", "technique": "Lean 4 proof over executable model + differential correspondence"},
    "C11": {"text": "Lean theorems over the runTx model (decode, basic validation, ante on a cache written only on success in deliver mode, handler on "
                    "a cache written only on success): a rejected delivered transaction leaves the state unchanged or unchanged-plus-fee; undecodable "
                    "bytes change nothing; CheckTx and Simulate never change state; later transactions are unaffected. Tied by differential runs that "
                    "compare the entire decoded state after every transaction (valid, failing each precondition, truncated/garbage bytes).",
            "note": "model tied by T1 on the whole state; the baseapp defect found here (handler not isolated) is fixed and recorded",
            "technique": "Lean 4 proof over executable model + differential correspondence"},
    "C17": {"text": "Lean theorems: any change of a parameter, the ACL or the DAO owner comes from a delivered, accepted change-parameter message whose "
                    "sender is the ACL owner of that key and alters that key alone; block-level operations change none; DAO funds leave only by a DAO "
                    "message from the DAO owner, by exactly the amount, within the balance; all other governance messages are rejected. Tied by "
                    "differential runs with owners, strangers, malformed values and owner hand-overs.",
            "note": "typed decoding of parameter values is modelled for the tracked keys; other keys are exercised by T1 only",
            "technique": "Lean 4 proof over executable model + differential correspondence"},
    "C12": {"text": "Lean theorems over the multistore model: Commit advances the version by one; reopening yields the committed content; for every "
                    "history, store count and (keepRecent, keepEvery) a version is loadable iff the closed form v = L or v >= L - keepRecent or keepEvery | v "
                    "holds and then shows exactly what was committed at v, otherwise an error; transient stores are empty after commit. Tied to "
                    "store/rootmulti + store/iavl by differential runs on the real stores over a MemDB.",
            "note": "IAVL internals trusted (versioned map); model tied by T1", "technique": "Lean 4 proof over executable model + differential correspondence"},
    "C13": {"text": "Lean theorem over the batch-level model of Commit: for every consistent store, every visiting order of the substores and every prefix "
                    "of the batch list, reopening shows the complete previous or the complete new version, and replaying the block reproduces the "
                    "uninterrupted result; proved under the hypothesis that pruning does not delete the previous version (keepRecent >= 1), with a "
                    "proved counterexample for keepRecent = 0. Tied by crash injection at every batch write on the real store. Two recorded known findings.",
            "note": "atomic DB batches assumed; IAVL trusted; keepRecent = 0 and first-commit crashes are recorded known findings",
            "technique": "Lean 4 proof over batch-prefix model + crash-injection correspondence"},
    "C14": {"text": "Lean theorems: a /key query at a retained height returns the value committed there independent of uncommitted writes and later "
                    "commits; pruned/future heights give no value and no proof; the multistore proof operator is sound over injective abstract hashes "
                    "(for proofs without duplicate store names). Partial: IAVL range-proof soundness and hash injectivity are assumptions; real proofs "
                    "are run through the ProofRuntime against every height's hash by the harness.",
            "note": "IAVL proofs and hash injectivity assumed", "technique": "Lean 4 proof over executable model + differential correspondence"},
    "C15": {
        "text": "Lean refinement theorems for the cachekv model (the code's own structures: cache map, unsorted set, sorted list, dirtyItems merge, "
                "memIterator, and the merge iterator as the code's skip/next state machine): Get/Has/Set/Delete refine the overlay view at any "
                "nesting depth, the parent is unchanged until Write, Write leaves the parent holding exactly the view and the wrapper clean, "
                "discarding leaves no effect, and iteration over any range/direction yields exactly the sorted, duplicate-free, tombstone-free "
                "in-range entries of the view (by induction over the stack of mem/cache/prefix layers). Tied to store/cachekv by differential runs "
                "of generated programs (writes under open iterators, nested wrappers, MemDB and IAVL parents). Partial: goroutine interleavings "
                "and data races are runtime behaviour; the locking discipline is pinned by a go/ast fact (T3).",
        "note": "Lean kernel + 3 standard axioms; hand-written model tied by T1; byte-ness of keys is an explicit preserved invariant; "
                "mutex discipline checked structurally, not proved",
        "technique": "Lean 4 refinement proof over executable model + differential correspondence",
    },
    "C16": {
        "text": "Lean theorems over the wrapper model: [p, PrefixEndBytes p) is exactly the keys with prefix p (incl. trailing 0xFF / all-0xFF); "
                "prefix view, isolation of set/delete and iteration; ConsumeGas = exact sum with out-of-gas exactly at the crossing charge and overflow "
                "reported not wrapped; gas store transparent and gas of any op sequence = sum of the documented costs; iterator gas per step; "
                "trace store transparent with exactly one record per Get/Set/Delete/iterKey/iterValue in order. Tied to store/{prefix,gaskv,tracekv,types} "
                "by differential runs of generated programs on the real wrappers (MemDB and IAVL base).",
        "note": "Lean kernel + 3 standard axioms; hand-written model tied by T1; the KV gas table is regenerated from store/types/gas.go (T2)",
        "technique": "Lean 4 proof over executable model + differential correspondence",
    },
    "C18": {
        "text": "Lean theorems: Int/Uint Add/Sub/Mul equal exact arithmetic or panic exactly when out of range (incl. Mul's "
                "pre-check being neither too strict nor too lax); chopPrecisionAndRound is the unique half-to-even rounding for "
                "all signs, Truncate is toward zero, RoundUp/Ceil are ceilings; Dec.Mul/RoundInt/TruncateInt specs with range panics; "
                "QuoTruncate is the exact truncation, Quo is the exact half-to-even rounding and QuoRoundUp the exact ceiling except in the "
                "double-rounding cases, which are excluded by an explicit hypothesis and exhibited by proved counterexamples (recorded findings). "
                "Coins: IsValid implies the canonical form (sorted, no duplicates, positive); AmountOf's binary search is the per-denomination "
                "amount; Add / SafeSub / Sub are per-denomination sums and differences on the canonical form, panic exactly on Int overflow / a "
                "negative result, SafeSub reports exactly when an amount would go negative, Add and Sub are inverse both ways; the seven "
                "comparisons and DenomsSubsetOf are characterised per denomination; NewCoins returns a canonical permutation of the non-zero "
                "coins; IsEqual is sound (its panic on different denominations is a recorded finding with a proved counterexample). "
                "DecCoins (Props/C18DecCoins.lean): Add / SafeSub / Sub per denomination with the 315-bit panic condition, Add and Sub inverse; MulDec, "
                "MulDecTruncate, QuoDec, QuoDecTruncate give for every denomination Dec.Mul / Dec.Quo (or the truncating variant) of the operand's amount, "
                "sorted and without zero amounts, and panic exactly when the per-coin operation does (or the divisor is zero); TruncateDecimal splits every "
                "amount into whole * 10^18 + change with 0 <= change < 10^18, both parts canonical - nothing created or lost. "
                "Model tied to types/*.go by a differential run on boundary-biased operands and independent math/big oracles; operand mutation "
                "is checked on the implementation.",
        "note": "Lean kernel + 3 standard axioms; model hand-written (types/int.go, uint.go, decimal.go) and tied by T1; "
                "constants maxBitLen/Precision/DecimalPrecisionBits regenerated from source; Dec.Quo/QuoRoundUp double rounding and Coins.IsEqual's panic are recorded known findings; DecCoins modelled (Model/DecCoins.lean), compared operation by operation, and additionally watched by per-denomination monitors",
        "technique": "Lean 4 proof over executable model + differential correspondence",
    },
}

# C07/C08/C09: a second generator profile with long chains over sliding windows of 256..511 slots
for _p in ("C07", "C08", "C09"):
    PROPS[_p]["t1"] = CHAIN_T1 + [CHAIN_T1_DOWNTIME]

# C08: the global form (every reachable state) lives in its own module
PROPS["C08"]["lean_modules"] = PROPS["C08"]["lean_modules"] + ["Posmint.Props.C08Global"]
PROPS["C08"]["namespaces"] = PROPS["C08"]["namespaces"] + ["Posmint.Props.C08Global"]
PROPS["C08"]["required_theorems"] = PROPS["C08"]["required_theorems"] + ["Posmint.Props.C08Global." + t for t in
    ("genesis_windowInv", "step_windowInv", "run_windowInv", "counter_always_window_count")]
# ... and the point it excludes (a governance change of the window) has its counterexample, replayed on the implementation
PROPS["C08"]["lean_modules"] = PROPS["C08"]["lean_modules"] + ["Posmint.Props.C08Counter"]
PROPS["C08"]["namespaces"] = PROPS["C08"]["namespaces"] + ["Posmint.Props.C08Counter"]
PROPS["C08"]["required_theorems"] = PROPS["C08"]["required_theorems"] + ["Posmint.Props.C08Counter.window_change_counterexample"]

# the second denomination (fees only): its theorems are part of the properties they serve
for _p, _req in (("C02", ["supply2_eq_balances2", "run_inv2", "step_inv2", "genesis_inv2"]), ("C03", ["fee2_buys_nothing", "fee2_from_signer"]),
                 ("C10", ["fees2_to_proposer"]), ("C11", ["readonly_frame2"])):
    PROPS[_p]["lean_modules"] = PROPS[_p]["lean_modules"] + ["Posmint.Props.Denom2"]
    PROPS[_p]["namespaces"] = PROPS[_p]["namespaces"] + ["Posmint.Props.Denom2"]
    PROPS[_p]["required_theorems"] = PROPS[_p]["required_theorems"] + ["Posmint.Props.Denom2." + t for t in _req]

# C14 through the ABCI interface: the chain family's `mon.query` operations (store queries via BaseApp.Query at no height,
# the latest, remembered earlier and not yet existing heights, with and without proof)
PROPS["C14"]["t1"] = RM_T1 + [{"family": "chain", "model": "chain", "quick_n": 6000, "thorough_n": 300000, "corpus": "none",
                               "reset_token": "init", "group_token": "begin"}]
PROPS["C14"]["rule"] = RM_RULE + "; plus block histories on the real BaseApp (see C02) in which store queries are sent through the ABCI Query interface between blocks"
