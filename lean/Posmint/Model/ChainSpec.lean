import Posmint.Model.Chain
/-!
Specification-side definitions for the chain model: sums, well-formedness, invariants and the
abstract notions the property theorems are stated with.  No proofs here.
-/
namespace Posmint.Chain

/-- keys strictly ascending (hence distinct) -/
def KeysAsc {α : Type} (l : List (Addr × α)) : Prop := l.Pairwise (fun a b => a.1 < b.1)

def sumBal (s : State) : Int := (s.bal.map (·.2)).sum

/-- recorded stake of all validators that are staked or unstaking -/
def stakeSum (s : State) : Int := ((s.vals.filter (fun e => e.2.status != 0)).map (·.2.tokens)).sum

def awardSum (s : State) : Int := (s.awards.map (·.2)).sum

def isMod (s : State) (a : Addr) : Bool := a == s.pool || a == s.feeAcc || a == s.posAcc || a == s.daoAcc

/-- Structural well-formedness of a state (the shape the Go stores guarantee: maps have one
entry per key, amounts of existing coins are positive, module accounts are distinct accounts
without keys, validators are created from keys). -/
structure WF (s : State) : Prop where
  balAsc : KeysAsc s.bal
  balPos : ∀ e ∈ s.bal, 0 < e.2
  valsAsc : KeysAsc s.vals
  tokNonneg : ∀ e ∈ s.vals, 0 ≤ e.2.tokens
  statusOK : ∀ e ∈ s.vals, e.2.status ≤ 2
  signAsc : KeysAsc s.sign
  prevAsc : KeysAsc s.prev
  awardsAsc : KeysAsc s.awards
  burnsAsc : KeysAsc s.burns
  modsDistinct : s.pool ≠ s.feeAcc ∧ s.pool ≠ s.posAcc ∧ s.pool ≠ s.daoAcc ∧
    s.feeAcc ≠ s.posAcc ∧ s.feeAcc ≠ s.daoAcc ∧ s.posAcc ≠ s.daoAcc
  keysNotMods : ∀ k ∈ s.keys, isMod s k.2 = false
  valsAreKeys : ∀ e ∈ s.vals, ∃ k ∈ s.keys, k.2 = e.1
  minStakeNonneg : 0 ≤ s.p.minStake

/-- C02: recorded supply equals the sum of all balances. -/
def SupplyOK (s : State) : Prop := s.supply = sumBal s

/-- C04 (safety form): the pool holds at least the recorded stake; the surplus is what users
sent to the pool address directly. -/
def PoolBacks (s : State) : Prop := stakeSum s ≤ balOf s s.pool

/-- surplus of the pool over the recorded stake (the "donated" coins) -/
def poolSurplus (s : State) : Int := balOf s s.pool - stakeSum s

/-- C06 (a): the power index lists exactly the staked, unjailed validators under the key
computed from their current stake. -/
def IndexExact (s : State) : Prop :=
  (∀ pw a, (pw, a) ∈ s.idx ↔ ∃ v, aget s.vals a = some v ∧ v.status = 2 ∧ v.jailed = false ∧ pw = power v.tokens) ∧
  s.idx.Pairwise (fun x y => idxLt x y = true)

/-- C06 (b): the unstaking queue holds exactly the unstaking validators, each at its completion time. -/
def QueueExact (s : State) : Prop :=
  (∀ t a, a ∈ qGet s.queue t ↔ ∃ v, aget s.vals a = some v ∧ v.status = 1 ∧ v.unstake = t) ∧
  s.queue.Pairwise (fun x y => x.1 < y.1) ∧ (∀ e ∈ s.queue, e.2 ≠ [] ∧ e.2.Nodup)

/-- C06 (c): every validator that is not unstaked holds at least the minimum stake. -/
def MinStakeOK (s : State) : Prop := ∀ a v, aget s.vals a = some v → v.status ≠ 0 → s.p.minStake ≤ v.tokens

/-- an unstaked validator holds no stake -/
def UnstakedEmpty (s : State) : Prop := ∀ a v, aget s.vals a = some v → v.status = 0 → v.tokens = 0

/-- every validator has a signing info and a pubkey relation; tombstoned validators are jailed forever -/
def SignOK (s : State) : Prop :=
  (∀ a v, aget s.vals a = some v → (aget s.sign a).isSome ∧ a ∈ s.rel) ∧
  (∀ a si, aget s.sign a = some si → si.tomb = true → si.jailedUntil = forever ∧
      (∀ v, aget s.vals a = some v → v.jailed = true ∧ v.status = 0))

/-- The validator set Tendermint should hold: the `maxVals` highest-powered staked, unjailed
validators (ties broken by lower address), as an address-sorted map to powers. -/
def target (s : State) : List (Addr × Int) :=
  ((s.idx.reverse.take s.p.maxVals.toNat).map fun e => (e.2, e.1)).foldl (fun m e => aset m e.1 e.2) []

/-- apply a batch of validator updates the way Tendermint does; `none` = the batch is refused -/
def applyUpdates (tm : List (Addr × Int)) (ups : List (Addr × Int)) : Option (List (Addr × Int)) :=
  if !(ups.map (·.1)).Nodup then none
  else if ups.any (fun u => u.2 < 0) then none
  else if ups.any (fun u => u.2 == 0 && (aget tm u.1).isNone) then none
  else some (ups.foldl (fun m u => if u.2 == 0 then adel m u.1 else aset m u.1 u.2) tm)

/-- the application's view of Tendermint's set is what Tendermint holds -/
def PrevOK (s : State) : Prop :=
  KeysAsc s.prev ∧ (∀ e ∈ s.prev, 0 < e.2) ∧ (∀ e ∈ s.prev, (aget s.vals e.1).isSome)

/-- The full invariant carried along every history. -/
structure Inv (s : State) : Prop where
  wf : WF s
  supply : SupplyOK s
  pool : PoolBacks s
  index : IndexExact s
  queue : QueueExact s
  unstakedEmpty : UnstakedEmpty s
  sign : SignOK s
  prevOK : PrevOK s

/-- a genesis description the harness (and a real chain) can start from -/
structure GenesisOK (g : Genesis) : Prop where
  accsAsc : (g.accs.map (·.1)).Nodup
  accsPos : ∀ e ∈ g.accs, 0 ≤ e.2
  valsNodup : (g.vals.map (·.1)).Nodup
  valsMin : ∀ e ∈ g.vals, g.p.minStake ≤ e.2 ∧ powerReduction ≤ e.2
  valsAreKeys : ∀ e ∈ g.vals, ∃ k ∈ g.keys, k.2 = e.1
  accsAreKeys : ∀ e ∈ g.accs, ∃ k ∈ g.keys, k.2 = e.1
  modsDistinct : g.pool ≠ g.feeAcc ∧ g.pool ≠ g.posAcc ∧ g.pool ≠ g.daoAcc ∧
    g.feeAcc ≠ g.posAcc ∧ g.feeAcc ≠ g.daoAcc ∧ g.posAcc ≠ g.daoAcc
  keysNotMods : ∀ k ∈ g.keys, k.2 ≠ g.pool ∧ k.2 ≠ g.feeAcc ∧ k.2 ≠ g.posAcc ∧ k.2 ≠ g.daoAcc
  daoNonneg : 0 ≤ g.daoTokens
  minStakePos : powerReduction ≤ g.p.minStake
  maxValsPos : 0 < g.defaultMaxVals
  /-- exported signing infos: a tombstoned one is jailed for ever and does not belong to a genesis validator
  (genesis validators are staked; a convicted validator is not) -/
  signingOK : ∀ e ∈ g.signing, e.2.tomb = true → e.2.jailedUntil = forever ∧ ∀ v ∈ g.vals, v.1 ≠ e.1

/-- the message of a transaction is a deliver-mode `daoBurn` of `amt` -/
def Msg.burnAmount : Msg → Int
  | .daoBurn _ amt => amt
  | _ => 0

/-- the operation is a plain send to the pool address (a "donation") that succeeded -/
def donation (s : State) (m : Msg) : Int :=
  match m with
  | .send _ dst amt => if dst == s.pool then amt else 0
  | .daoTransfer _ dst amt => if dst == s.pool then amt else 0
  | _ => 0

/-! ### C08: the sliding window as a ring buffer over the history of missed flags -/

/-- the last `w` entries of a history (oldest first) -/
def lastW (w : Nat) (h : List Bool) : List Bool := h.drop (h.length - w)

/-- the slot content a ring buffer of width `w` holds for slot `i` after the history `h`
(oldest first): the most recent entry written to that slot, `false` if none -/
def slotOf (w : Nat) (h : List Bool) (i : Nat) : Bool :=
  match (List.range h.length).reverse.find? (fun k => k % w == i) with
  | some k => h.getD k false
  | none => false

/-- The signing info and missed-bit array of validator `a` represent the history `h` of
missed flags recorded since the last reset. -/
def WinRel (w : Nat) (si : Sign) (bits : List ((Addr × Int) × Bool)) (a : Addr) (h : List Bool) : Prop :=
  si.offset = (h.length : Int) ∧
  si.missed = (((lastW w h).count true : Nat) : Int) ∧
  (∀ i : Nat, i < w → bitGet bits a (i : Int) = slotOf w h i) ∧
  (∀ e ∈ bits, e.1.1 = a → 0 ≤ e.1.2 ∧ e.1.2 < (w : Int))

/-- the validator is punished for downtime by this call -/
def punishes (s : State) (a : Addr) (si : Sign) (w : Nat) (h : List Bool) (signed : Bool) : Prop :=
  s.height > si.start + (w : Int) ∧
  (((lastW w (h ++ [!signed])).count true : Nat) : Int) > (w : Int) - minSignedPerWindow s.p ∧
  ∃ v, aget s.vals a = some v ∧ v.jailed = false

end Posmint.Chain
