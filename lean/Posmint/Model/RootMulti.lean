import Posmint.Model.KV
/-!
Model of `store/rootmulti` over `store/iavl` substores and a transient store, at the level of
database batches: each IAVL substore's `Commit` is a version-save batch followed (when the
pruning rule says so) by a version-delete batch; the multistore then flushes the commit info and
`s/latest` in one batch.  IAVL itself is trusted to behave like a versioned map.
-/
namespace Posmint.RM
open Posmint.KV

structure Sub where
  working : Items                 -- the working tree
  saved : List (Nat × Items)      -- versions present in the substore's database
  deriving Repr

structure RM where
  kr : Nat
  ke : Nat
  subs : List Sub
  trans : Items
  latest : Nat                    -- `s/latest` (0 = nothing committed)
  infos : List Nat                -- versions whose commit info `s/<v>` exists (never deleted)
  deriving Repr

def savedAt (s : Sub) (v : Nat) : Option Items := (s.saved.find? (·.1 == v)).map (·.2)

/-- `iavl.Store.Commit`'s pruning rule: after saving `v`, delete `v - 1 - keepRecent` unless it
is a multiple of `keepEvery` -/
def pruneTarget (kr ke v : Nat) : Option Nat :=
  let previous := v - 1
  if kr < previous then
    let toRelease := previous - kr
    if ke == 0 || toRelease % ke != 0 then some toRelease else none
  else none

def Sub.commit (kr ke : Nat) (s : Sub) (v : Nat) : Sub :=
  let saved := (v, s.working) :: s.saved.filter (·.1 != v)
  match pruneTarget kr ke v with
  | some t => { s with saved := saved.filter (·.1 != t) }
  | none => { s with saved := saved }

/-- number of database batches one substore issues for committing version `v` -/
def Sub.batches (kr ke : Nat) (s : Sub) (v : Nat) : Nat :=
  1 + (match pruneTarget kr ke v with
       | some t => if (savedAt s t).isSome then 1 else 0
       | none => 0)

/-- `rootmulti.Store.Commit` -/
def RM.commit (m : RM) : RM :=
  let v := m.latest + 1
  { m with subs := m.subs.map (fun s => s.commit m.kr m.ke v), trans := [], latest := v, infos := v :: m.infos }

def RM.totalBatches (m : RM) : Nat :=
  (m.subs.map (fun s => s.batches m.kr m.ke (m.latest + 1))).sum + 1

/-- a fresh store opened on the database: every substore at the version the latest commit info names -/
def RM.reopen (m : RM) : Option RM :=
  if m.latest == 0 then
    -- `LoadVersion(0)` loads the latest version each substore has (normally none: empty)
    some { m with subs := m.subs.map (fun s =>
      { s with working := ((s.saved.foldl (fun (best : Option (Nat × Items)) e =>
          match best with | some b => if b.1 < e.1 then some e else some b | none => some e) none).map (·.2)).getD [] }), trans := [] }
  else
    let loaded := m.subs.map (fun s => (savedAt s m.latest).map (fun c => { s with working := c }))
    if loaded.all Option.isSome then some { m with subs := loaded.filterMap id, trans := [] } else none

/-- Crash after `k` batch writes of the commit of version `latest + 1`, then reopen.
`none` = the database cannot be reopened.  Which substores had already saved the new version is
not observable once the interrupted block is re-executed (the save is idempotent). -/
def RM.crashReopen (m : RM) (k : Nat) : Option RM :=
  -- a prune batch of the previous version (only when keepRecent = 0) executed before the commit
  -- info was flushed leaves `s/latest` naming a version some substore no longer has
  let prunesPrevious := (pruneTarget m.kr m.ke (m.latest + 1) == some m.latest) && m.latest ≥ 1
  if prunesPrevious && k ≥ 2 then none
  else if m.latest == 0 then
    -- crash during the very first commit: the substores that already saved version 1 are loaded
    -- at that version by `LoadVersion(0)` (recorded finding); substores are taken in index order
    -- here, which is exact for a single substore
    let saved := ((List.range m.subs.length).zip m.subs).map fun (e : Nat × Sub) =>
      if e.1 < k then { e.2 with saved := (1, e.2.working) :: e.2.saved } else e.2
    { m with subs := saved }.reopen
  else m.reopen

/-- content of every substore at version `v`, as a fresh store loading that version sees it -/
def RM.load (m : RM) (v : Nat) : Option (List Items) :=
  if v == 0 then some (m.subs.map fun s => (savedAt s m.latest).getD [])
  else if !m.infos.contains v then none
  else
    let cs := m.subs.map (fun s => savedAt s v)
    if cs.all Option.isSome then some (cs.filterMap id) else none

/-- `/key` store query: (value, whether a proof is attached); `none` = error response -/
def RM.query (m : RM) (i : Nat) (key : Bytes) (h : Nat) (prove : Bool) : Option (Option Bytes × Bool) :=
  match m.subs[i]? with
  | none => none
  | some s =>
    let height := if h == 0 then (if m.latest ≥ 1 && (savedAt s (m.latest - 1)).isSome then m.latest - 1 else m.latest) else h
    match savedAt s height with
    | none => if prove then none else some (none, false)
    | some c => some (kvGet c key, prove)

end Posmint.RM
