import Posmint.Model.KVProg
/-!
Specification-side definitions for the store wrappers: the abstract content (`view`) of a
store stack, the well-formedness invariants, and op lists.  No proofs here.
-/
namespace Posmint.KV

/-- strictly ascending keys -/
def SortedAsc {α : Type} : List (Bytes × α) → Prop
  | [] => True
  | [_] => True
  | a :: b :: rest => blt a.1 b.1 = true ∧ SortedAsc (b :: rest)

/-- strictly sorted in iteration order -/
def SortedDir {α : Type} (asc : Bool) (l : List (Bytes × α)) : Prop :=
  if asc then SortedAsc l else SortedAsc l.reverse

def IsByte (b : Nat) : Prop := b < 256
def IsBytes (k : Bytes) : Prop := ∀ x ∈ k, x < 256

/-- Invariant tying the three components of a `cachekv.Store`. -/
structure CacheInv (c : CacheData) : Prop where
  /-- the Go map has one entry per key -/
  nodupCache : (c.cache.map (·.1)).Nodup
  nodupUnsorted : c.unsorted.Nodup
  /-- keys waiting in `unsortedCache` are dirty entries -/
  unsortedDirty : ∀ k ∈ c.unsorted, ∃ cv, cacheLookup c.cache k = some cv ∧ cv.dirty = true
  /-- every dirty entry is in `unsortedCache` or already in `sortedCache` -/
  dirtyTracked : ∀ k cv, cacheLookup c.cache k = some cv → cv.dirty = true →
    k ∈ c.unsorted ∨ ∃ ov, (k, ov) ∈ c.sorted
  /-- a `sortedCache` item that is not shadowed by a newer unsorted write is current -/
  sortedCurrent : ∀ k ov, (k, ov) ∈ c.sorted → k ∉ c.unsorted →
    ∃ cv, cacheLookup c.cache k = some cv ∧ cv.dirty = true ∧ cv.value = ov
  /-- `sortedCache` only ever holds keys that are dirty in the map -/
  sortedDirty : ∀ k ov, (k, ov) ∈ c.sorted → ∃ cv, cacheLookup c.cache k = some cv ∧ cv.dirty = true
  sortedAsc : SortedAsc c.sorted
  /-- a dirty entry is a delete exactly when it has no value -/
  deletedIff : ∀ k cv, cacheLookup c.cache k = some cv → cv.dirty = true → (cv.deleted = true ↔ cv.value = none)

/-- The abstract content of a store stack: the overlay semantics. -/
def Store.view : Store → Bytes → Option Bytes
  | .mem m, k => kvGet m k
  | .cache c p, k =>
    match cacheLookup c.cache k with
    | some cv => cv.value
    | none => p.view k
  | .pfx pre p, k => p.view (pre ++ k)
  | .gas p, k => p.view k
  | .trace p, k => p.view k

/-- Well-formed stack: sorted base, cache invariants, clean cache entries agree with the parent. -/
def Store.WF : Store → Prop
  | .mem m => SortedAsc m
  | .cache c p => CacheInv c ∧ p.WF ∧
      (∀ k cv, cacheLookup c.cache k = some cv → cv.dirty = false → cv.value = p.view k)
  | .pfx _ p => p.WF
  | .gas p => p.WF
  | .trace p => p.WF

/-- no gas layer anywhere in the stack -/
def Store.GasFree : Store → Prop
  | .mem _ => True
  | .cache _ p => p.GasFree
  | .pfx _ p => p.GasFree
  | .gas _ => False
  | .trace p => p.GasFree

/-- no trace layer anywhere in the stack -/
def Store.TraceFree : Store → Prop
  | .mem _ => True
  | .cache _ p => p.TraceFree
  | .pfx _ p => p.TraceFree
  | .gas p => p.TraceFree
  | .trace _ => False

/-- only mem / cache / prefix layers (the zone where iterators are materialised eagerly) -/
def Store.Lower : Store → Prop
  | .mem _ => True
  | .cache _ p => p.Lower
  | .pfx _ p => p.Lower
  | .gas _ => False
  | .trace _ => False

/-- the keys of the base store a prefix path can reach -/
def EnvOK (e : Env) : Prop := e.consumed ≤ maxUint64

/-! Point operations as data, for statements about operation sequences. -/
inductive PointOp where
  | get (k : Bytes) | has (k : Bytes) | set (k v : Bytes) | del (k : Bytes)
  deriving Repr

/-- the value read from the view by a point operation (what the documented cost depends on) -/
def PointOp.cost (cfg : GasConfig) (view : Bytes → Option Bytes) : PointOp → Nat
  | .get k => cfg.readCostFlat + cfg.readCostPerByte * ((view k).getD []).length
  | .has _ => cfg.hasCost
  | .set _ v => cfg.writeCostFlat + cfg.writeCostPerByte * v.length
  | .del _ => cfg.deleteCost

def Store.point (s : Store) (e : Env) : PointOp → M (Store × Env)
  | .get k => do let (_, s', e') ← s.get k e; .ok (s', e')
  | .has k => do let (_, s', e') ← s.has k e; .ok (s', e')
  | .set k v => s.set k v e
  | .del k => s.delete k e

def Store.points (s : Store) (e : Env) : List PointOp → M (Store × Env)
  | [] => .ok (s, e)
  | op :: rest => do let (s', e') ← s.point e op; s'.points e' rest

/-- Σ of the documented costs along an operation sequence, evaluated on the evolving view. -/
def totalCost (cfg : GasConfig) : (Bytes → Option Bytes) → List PointOp → Nat
  | _, [] => 0
  | view, op :: rest =>
    op.cost cfg view + totalCost cfg
      (match op with
       | .set k v => fun q => if q = k then some v else view q
       | .del k => fun q => if q = k then none else view q
       | _ => view) rest

end Posmint.KV
