/-!
Model of the binary encodings posmint relies on: amino's varints and length-delimited fields, the
text encoding of `Int`, the `Coin`/`Coins`/`MsgSend` structs, and the store-key codecs of x/pos
(power-index key, unstaking-queue time key, address hex).
-/
namespace Posmint.Codec

abbrev Bytes := List Nat

/-! ### varints -/

/-- `binary.PutUvarint` / amino `EncodeUvarint` (LEB128) -/
def uvarint (n : Nat) : Bytes :=
  if h : n < 128 then [n] else (n % 128 + 128) :: uvarint (n / 128)
termination_by n
decreasing_by omega

/-- `binary.Uvarint`: at most 10 bytes, value below 2^64; returns the value and the rest -/
def decodeUvarintAux : Nat → Nat → Nat → Bytes → Option (Nat × Bytes)
  | 0, _, _, _ => none
  | _ + 1, _, _, [] => none
  | fuel + 1, shift, acc, b :: rest =>
    if b < 128 then
      let v := acc + b * 2 ^ shift
      if v < 2 ^ 64 then some (v, rest) else none
    else decodeUvarintAux fuel (shift + 7) (acc + (b - 128) * 2 ^ shift) rest

def decodeUvarint (bs : Bytes) : Option (Nat × Bytes) := decodeUvarintAux 10 0 0 bs

/-- amino encodes a (non-fixed) int64 as the uvarint of its two's-complement uint64 -/
def toU64 (i : Int) : Nat := (i % (2 ^ 64 : Int)).toNat
def ofU64 (n : Nat) : Int := if n < 2 ^ 63 then (n : Int) else (n : Int) - 2 ^ 64

def varint (i : Int) : Bytes := uvarint (toU64 i)
def decodeVarint (bs : Bytes) : Option (Int × Bytes) := (decodeUvarint bs).map fun r => (ofU64 r.1, r.2)

/-! ### length-delimited byte strings -/

def lenPrefixed (bs : Bytes) : Bytes := uvarint bs.length ++ bs

def decodeLenPrefixed (bs : Bytes) : Option (Bytes × Bytes) :=
  match decodeUvarint bs with
  | none => none
  | some (n, rest) => if n ≤ rest.length then some (rest.take n, rest.drop n) else none

/-! ### decimal text of an `Int` (`big.Int.MarshalText`) -/

def digitChar (d : Nat) : Nat := 48 + d

def natDigits (n : Nat) : Bytes :=
  if h : n < 10 then [digitChar n] else natDigits (n / 10) ++ [digitChar (n % 10)]
termination_by n
decreasing_by omega

def intText (i : Int) : Bytes := if i < 0 then 45 :: natDigits i.natAbs else natDigits i.natAbs

def parseNat : Bytes → Option Nat
  | [] => none
  | ds => ds.foldl (fun acc d => acc.bind fun a => if 48 ≤ d ∧ d ≤ 57 then some (a * 10 + (d - 48)) else none) (some 0)

/-- `big.Int.UnmarshalText` restricted to canonical decimal text, then the 255-bit check of `sdk.Int` -/
def parseIntText (bs : Bytes) : Option Int :=
  let r : Option Int := match bs with
    | 45 :: rest => (parseNat rest).map fun n => -(n : Int)
    | _ => (parseNat bs).map fun n => (n : Int)
  r.bind fun i => if i.natAbs < 2 ^ 255 then some i else none

/-! ### the text form of a coin (`Coin.String`, `ParseCoin`) -/

/-- `[[:space:]]`: the six ASCII white-space bytes -/
def isSpaceB (b : Nat) : Bool := b == 32 || (9 ≤ b && b ≤ 13)
def isDigitB (b : Nat) : Bool := 48 ≤ b && b ≤ 57
def isLowerB (b : Nat) : Bool := 97 ≤ b && b ≤ 122

/-- `[a-z][a-z0-9]{2,15}` -/
def denomOK (d : Bytes) : Bool :=
  match d with
  | [] => false
  | c :: rest => isLowerB c && rest.all (fun b => isLowerB b || isDigitB b) && 2 ≤ rest.length && rest.length ≤ 15

/-- `big.Int.SetString(s, 0)` on a string of digits: a leading zero announces octal -/
def parseAmount (ds : Bytes) : Option Nat :=
  match ds with
  | [] => none
  | [48] => some 0
  | 48 :: rest => rest.foldl (fun acc d => acc.bind fun a => if 48 ≤ d ∧ d ≤ 55 then some (a * 8 + (d - 48)) else none) (some 0)
  | _ => parseNat ds

/-- `Coin.String`: the amount in decimal followed by the denomination -/
def coinText (denom : Bytes) (amount : Nat) : Bytes := natDigits amount ++ denom

/-- `ParseCoin`: surrounding white space is dropped; then `^([[:digit:]]+)[[:space:]]*([a-z][a-z0-9]{2,15})$`, the amount
read by `NewIntFromString` (base prefix rules, at most 255 bits) -/
def parseCoinText (s : Bytes) : Option (Bytes × Nat) :=
  let t := ((s.dropWhile isSpaceB).reverse.dropWhile isSpaceB).reverse
  let ds := t.takeWhile isDigitB
  let rest := (t.dropWhile isDigitB).dropWhile isSpaceB
  if ds.isEmpty || !denomOK rest then none
  else (parseAmount ds).bind fun n => if n < 2 ^ 255 then some (rest, n) else none

/-! ### amino structs -/

/-- field key: (field number << 3) | wire type; 2 = length-delimited -/
def fieldKey (num typ : Nat) : Bytes := uvarint (num * 8 + typ)

structure Coin where
  denom : Bytes
  amount : Int
  deriving Repr, DecidableEq

/-- `Coin{Denom string; Amount Int}`: empty strings are omitted, the Int travels as its text -/
def encodeCoin (c : Coin) : Bytes :=
  (if c.denom.isEmpty then [] else fieldKey 1 2 ++ lenPrefixed c.denom) ++ fieldKey 2 2 ++ lenPrefixed (intText c.amount)

def decodeCoin (bs : Bytes) : Option Coin :=
  -- optional field 1
  let (denom?, rest) : Option Bytes × Bytes :=
    match bs with
    | 10 :: r => match decodeLenPrefixed r with
      | some (d, r') => (some d, r')
      | none => (none, bs)
    | _ => (some [], bs)
  match denom?, rest with
  | some d, 18 :: r =>
    match decodeLenPrefixed r with
    | some (t, []) => (parseIntText t).map fun a => { denom := d, amount := a }
    | _ => none
  | some d, [] => some { denom := d, amount := 0 }     -- absent field: zero value
  | _, _ => none

/-- a bare `[]Coin`: every element is field 1, length-delimited -/
def encodeCoins (cs : List Coin) : Bytes := cs.flatMap fun c => fieldKey 1 2 ++ lenPrefixed (encodeCoin c)

def decodeCoinsAux : Nat → Bytes → Option (List Coin)
  | _, [] => some []
  | 0, _ => none
  | fuel + 1, 10 :: r =>
    match decodeLenPrefixed r with
    | some (cb, rest) => match decodeCoin cb, decodeCoinsAux fuel rest with
      | some c, some cs => some (c :: cs)
      | _, _ => none
    | none => none
  | _, _ => none

def decodeCoins (bs : Bytes) : Option (List Coin) := decodeCoinsAux (bs.length + 1) bs

structure MsgSend where
  src : Bytes
  dst : Bytes
  amount : Int
  deriving Repr, DecidableEq

/-- a registered concrete type: 4 prefix bytes, then the struct fields (empty byte slices omitted) -/
def encodeMsgSend (pre : Bytes) (m : MsgSend) : Bytes :=
  pre ++ (if m.src.isEmpty then [] else fieldKey 1 2 ++ lenPrefixed m.src) ++
    (if m.dst.isEmpty then [] else fieldKey 2 2 ++ lenPrefixed m.dst) ++
    fieldKey 3 2 ++ lenPrefixed (intText m.amount)

/-- a flat amino struct whose fields are all length-delimited (addresses, byte slices, strings, an `Int` as its
decimal text): field number `num`, `num + 1`, … in order, each written as key ‖ length ‖ bytes and omitted when empty -/
def encodeFields : Nat → List Bytes → Bytes
  | _, [] => []
  | num, b :: rest => (if b.isEmpty then [] else fieldKey num 2 ++ lenPrefixed b) ++ encodeFields (num + 1) rest

/-- the matching decoder for `count` fields starting at number `num` (numbers below 16, so that a key is one byte):
an absent field reads as empty, an explicitly written empty field is not canonical and is refused -/
def decodeFields : Nat → Nat → Bytes → Option (List Bytes)
  | _, 0, [] => some []
  | _, 0, _ :: _ => none
  | num, n + 1, [] => (decodeFields (num + 1) n []).map ([] :: ·)
  | num, n + 1, k :: r =>
    if k = num * 8 + 2 then
      match decodeLenPrefixed r with
      | some (b, rest) => if b.isEmpty then none else (decodeFields (num + 1) n rest).map (b :: ·)
      | none => none
    else (decodeFields (num + 1) n (k :: r)).map ([] :: ·)

/-- a registered flat message: its four prefix bytes, then the fields from number 1 -/
def encodeFlatMsg (pre : Bytes) (fields : List Bytes) : Bytes := pre ++ encodeFields 1 fields

/-- a field of an amino struct as it travels: length-delimited bytes (addresses, strings, an `Int` as text, a nested
struct or a registered key as its own encoding) or a varint (bool, enum, uint64, an int64 as its two's complement) -/
inductive Fld where
  | bytes (b : Bytes)
  | uint (n : Nat)
  deriving Repr, DecidableEq

/-- one field: key ‖ payload; a zero value (empty bytes, 0) is omitted -/
def encodeFld (num : Nat) : Fld → Bytes
  | .bytes b => if b.isEmpty then [] else fieldKey num 2 ++ lenPrefixed b
  | .uint n => if n = 0 then [] else fieldKey num 0 ++ uvarint n

/-- the fields of a struct, numbered `num`, `num + 1`, … -/
def encodeStruct : Nat → List Fld → Bytes
  | _, [] => []
  | num, f :: rest => encodeFld num f ++ encodeStruct (num + 1) rest

/-- the decoder directed by the struct's shape (`true`: a bytes field, `false`: a varint field), field numbers below 16;
an absent field reads as its zero value, an explicitly written zero value is not canonical and is refused -/
def decodeStruct : Nat → List Bool → Bytes → Option (List Fld)
  | _, [], [] => some []
  | _, [], _ :: _ => none
  | num, true :: ks, [] => (decodeStruct (num + 1) ks []).map (Fld.bytes [] :: ·)
  | num, false :: ks, [] => (decodeStruct (num + 1) ks []).map (Fld.uint 0 :: ·)
  | num, true :: ks, k :: r =>
    if k = num * 8 + 2 then
      match decodeLenPrefixed r with
      | some (b, rest) => if b.isEmpty then none else (decodeStruct (num + 1) ks rest).map (Fld.bytes b :: ·)
      | none => none
    else (decodeStruct (num + 1) ks (k :: r)).map (Fld.bytes [] :: ·)
  | num, false :: ks, k :: r =>
    if k = num * 8 then
      match decodeUvarint r with
      | some (n, rest) => if n = 0 then none else (decodeStruct (num + 1) ks rest).map (Fld.uint n :: ·)
      | none => none
    else (decodeStruct (num + 1) ks (k :: r)).map (Fld.uint 0 :: ·)

def Fld.kind : Fld → Bool
  | .bytes _ => true
  | .uint _ => false

/-- amino's `time.Time`: a struct of seconds (int64) and nanoseconds -/
def encodeTime (secs : Int) (nanos : Nat) : Bytes := encodeStruct 1 [.uint (toU64 secs), .uint nanos]

/-- a validator record of x/pos as stored (`types.Validator`); `pk` is the registered key's own encoding -/
structure ValidatorRec where
  addr : Bytes
  pk : Bytes
  jailed : Bool
  status : Nat
  tokens : Int
  secs : Int
  nanos : Nat
  deriving Repr, DecidableEq

def validatorFields (v : ValidatorRec) : List Fld :=
  [.bytes v.addr, .bytes v.pk, .uint (if v.jailed then 1 else 0), .uint v.status, .bytes (intText v.tokens),
   .bytes (encodeTime v.secs v.nanos)]

def encodeValidator (v : ValidatorRec) : Bytes := encodeStruct 1 (validatorFields v)

/-- a signing-info record of x/pos as stored (`types.ValidatorSigningInfo`) -/
structure SigningRec where
  addr : Bytes
  start : Int
  offset : Int
  secs : Int
  nanos : Nat
  tombstoned : Bool
  missed : Int
  deriving Repr, DecidableEq

def signingFields (v : SigningRec) : List Fld :=
  [.bytes v.addr, .uint (toU64 v.start), .uint (toU64 v.offset), .bytes (encodeTime v.secs v.nanos),
   .uint (if v.tombstoned then 1 else 0), .uint (toU64 v.missed)]

def encodeSigning (v : SigningRec) : Bytes := encodeStruct 1 (signingFields v)

/-- the fee of a transaction inside `StdTx`: a repeated field 2, one entry per coin -/
def encodeFee (cs : List Coin) : Bytes := cs.flatMap fun c => fieldKey 2 2 ++ lenPrefixed (encodeCoin c)

def decodeFeeAux : Nat → Bytes → Option (List Coin × Bytes)
  | 0, _ => none
  | fuel + 1, 18 :: r =>
    match decodeLenPrefixed r with
    | some (cb, rest) =>
      match decodeCoin cb, decodeFeeAux fuel rest with
      | some c, some (cs, rest') => some (c :: cs, rest')
      | _, _ => none
    | none => none
  | _ + 1, bs => some ([], bs)

/-- an optional bytes field with a one-byte key at the head of the input -/
def decodeOptBytes (key : Nat) : Bytes → Option (Bytes × Bytes)
  | [] => some ([], [])
  | k :: r =>
    if k = key then
      match decodeLenPrefixed r with
      | some (b, rest) => if b.isEmpty then none else some (b, rest)
      | none => none
    else some ([], k :: r)

/-- a transaction as it travels (`auth.StdTx`): the message and the key as their own registered encodings -/
structure StdTxRec where
  msg : Bytes
  fee : List Coin
  pk : Bytes
  sig : Bytes
  memo : Bytes
  entropy : Int
  deriving Repr, DecidableEq

def stdTxTail (t : StdTxRec) : List Fld :=
  [.bytes (encodeStruct 1 [.bytes t.pk, .bytes t.sig]), .bytes t.memo, .uint (toU64 t.entropy)]

/-- the layout shared by `StdTx` and `BaseAccount`: an optional bytes field 1, a repeated coin field 2, then ordinary
fields from number 3 -/
def encodeMFT (m : Bytes) (fee : List Coin) (tail : List Fld) : Bytes :=
  encodeFld 1 (.bytes m) ++ (encodeFee fee ++ encodeStruct 3 tail)

def decodeMFT (kinds : List Bool) (bs : Bytes) : Option (Bytes × List Coin × List Fld) :=
  match decodeOptBytes 10 bs with
  | none => none
  | some (m, r1) =>
    match decodeFeeAux (r1.length + 1) r1 with
    | none => none
    | some (fee, r2) =>
      match decodeStruct 3 kinds r2 with
      | none => none
      | some fs => some (m, fee, fs)

def encodeStdTxCore (t : StdTxRec) : Bytes := encodeMFT t.msg t.fee (stdTxTail t)

def encodeStdTx (pre : Bytes) (t : StdTxRec) : Bytes := pre ++ encodeStdTxCore t

def decodeStdTxCore (bs : Bytes) : Option (Bytes × List Coin × List Fld) := decodeMFT [true, true, false] bs

/-- an account as stored (`auth.BaseAccount`): address, coins, the registered key's own encoding -/
structure AccountRec where
  addr : Bytes
  coins : List Coin
  pk : Bytes
  deriving Repr, DecidableEq

def encodeAccount (pre : Bytes) (a : AccountRec) : Bytes := pre ++ encodeMFT a.addr a.coins [.bytes a.pk]

/-! ### store keys of x/pos -/

/-- 8-byte big-endian -/
def be8 (p : Nat) : Bytes := (List.range 8).map fun i => (p / 256 ^ (7 - i)) % 256

def fromBe (bs : Bytes) : Nat := bs.foldl (fun acc b => acc * 256 + b) 0

/-- `getStakedValPowerRankKey`: prefix ‖ power (8 bytes BE) ‖ bitwise-inverted address -/
def powerKey (pre : Nat) (pw : Nat) (addr : Bytes) : Bytes := pre :: be8 pw ++ addr.map (255 - ·)

/-- `ParseValidatorPowerRankKey` (the address) and the power -/
def parsePowerKey (key : Bytes) : Option (Nat × Bytes) :=
  if key.length == 1 + 8 + 20 then some (fromBe ((key.drop 1).take 8), (key.drop 9).map (255 - ·)) else none

/-- lexicographic comparison of byte strings (`bytes.Compare < 0`) -/
def blt : Bytes → Bytes → Bool
  | [], [] => false
  | [], _ :: _ => true
  | _ :: _, [] => false
  | a :: as, b :: bs => a < b || (a == b && blt as bs)

/-! civil time from Unix nanoseconds (UTC), for `FormatTimeBytes` = "2006-01-02T15:04:05.000000000" -/

structure Civil where
  year : Int
  month : Nat
  day : Nat
  hour : Nat
  minute : Nat
  second : Nat
  nano : Nat
  deriving Repr, DecidableEq

/-- days since 1970-01-01 to (year, month, day) (proleptic Gregorian; Howard Hinnant's algorithm) -/
def civilFromDays (z0 : Int) : Int × Nat × Nat :=
  let z := z0 + 719468
  let era := (if z ≥ 0 then z else z - 146096) / 146097
  let doe := (z - era * 146097).toNat
  let yoe := (doe - doe / 1460 + doe / 36524 - doe / 146096) / 365
  let y : Int := (yoe : Int) + era * 400
  let doy := doe - (365 * yoe + yoe / 4 - yoe / 100)
  let mp := (5 * doy + 2) / 153
  let d := doy - (153 * mp + 2) / 5 + 1
  let m := if mp < 10 then mp + 3 else mp - 9
  (if m ≤ 2 then y + 1 else y, m, d)

def civilOfNanos (ns : Int) : Civil :=
  let secs := ns / 1000000000
  let nano := (ns % 1000000000).toNat
  let days := secs / 86400
  let sod := (secs % 86400).toNat
  let (y, m, d) := civilFromDays days
  { year := y, month := m, day := d, hour := sod / 3600, minute := (sod % 3600) / 60, second := sod % 60, nano := nano }

def pad (w n : Nat) : Bytes :=
  let ds := natDigits n
  List.replicate (w - ds.length) 48 ++ ds

/-- the sortable rendering, for years 0..9999 -/
def formatCivil (c : Civil) : Bytes :=
  pad 4 c.year.toNat ++ [45] ++ pad 2 c.month ++ [45] ++ pad 2 c.day ++ [84] ++ pad 2 c.hour ++ [58] ++ pad 2 c.minute ++
    [58] ++ pad 2 c.second ++ [46] ++ pad 9 c.nano

/-- `KeyForUnstakingValidators(t)` -/
def timeKey (pre : Nat) (ns : Int) : Bytes := pre :: formatCivil (civilOfNanos ns)

/-! ### hex -/
def hexDigit (n : Nat) : Nat := if n < 10 then 48 + n else 87 + n
def hexEncode (bs : Bytes) : Bytes := bs.flatMap fun b => [hexDigit (b / 16), hexDigit (b % 16)]
def unhexDigit (c : Nat) : Option Nat :=
  if 48 ≤ c ∧ c ≤ 57 then some (c - 48) else if 97 ≤ c ∧ c ≤ 102 then some (c - 87) else if 65 ≤ c ∧ c ≤ 70 then some (c - 55) else none
def hexDecode : Bytes → Option Bytes
  | [] => some []
  | [_] => none
  | a :: b :: rest => do
    let x ← unhexDigit a; let y ← unhexDigit b; let r ← hexDecode rest; pure ((x * 16 + y) :: r)

end Posmint.Codec
