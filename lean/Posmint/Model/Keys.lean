/-!
Model of `crypto/multisig.go` (verification of possibly nested multisignature keys) and of the
keybase (`crypto/keys/keybase.go`) over ideal primitives:

* a leaf signature is the pair (signing key, signed message): it verifies under a key and a
  message iff both match (existential unforgeability is an assumption about ed25519/secp256k1);
* an armored private key is the pair (key, passphrase): it opens iff the passphrase matches
  (authenticated encryption is an assumption about the KDF + AES-GCM).
-/
namespace Posmint.Keys

/-! ### multisignature -/

inductive PK where
  | leaf (id : Nat)
  | multi (keys : List PK)
  deriving Repr

inductive Sig where
  | leaf (signer : Nat) (msg : Nat)       -- a genuine signature by key `signer` over message `msg`
  | multi (sigs : List Sig)               -- an encoded `MultiSignature`
  | garbage                               -- bytes that are neither (truncated, random, empty)
  deriving Repr

mutual
/-- `PublicKey.VerifyBytes` -/
def verify : PK → Nat → Sig → Bool
  | .leaf id, m, .leaf s m' => s == id && m == m'
  | .multi ks, m, .multi ss => !ks.isEmpty && ks.length == ss.length && verifyAll ks m ss   -- a key without components verifies nothing
  | _, _, _ => false
/-- position by position -/
def verifyAll : List PK → Nat → List Sig → Bool
  | [], _, [] => true
  | k :: ks, m, s :: ss => verify k m s && verifyAll ks m ss
  | _, _, _ => false
end

/-- the genuine signature of a (nested) key over a message, every component signing in its own position -/
def signAll : PK → Nat → Sig
  | .leaf id, m => .leaf id m
  | .multi ks, m => .multi (signAllList ks m)
where signAllList : List PK → Nat → List Sig
  | [], _ => []
  | k :: ks, m => signAll k m :: signAllList ks m

/-! ### signature depth (`ValidateSignatureDepth` / `recSignDepth` of x/auth/ante.go) -/

mutual
/-- `recSignDepth(count, limit, multi ks)`: every component raises the count by one, a multisignature component is
walked recursively, and the walk fails as soon as the count exceeds the limit -/
def recDepthKey (limit : Nat) : Nat → PK → Nat × Bool
  | count, .leaf _ => (count, true)
  | count, .multi ks => recDepth limit count ks
def recDepth (limit : Nat) : Nat → List PK → Nat × Bool
  | count, [] => (count, true)
  | count, k :: rest =>
    match recDepthKey limit (count + 1) k with
    | (c, false) => (c, false)
    | (c, true) => if c > limit then (c, false) else recDepth limit c rest
end

/-- `ValidateSignatureDepth(limit, multi ks)` -/
def validDepth (limit : Nat) (ks : List PK) : Bool := (recDepth limit 1 ks).2

mutual
/-- the number of keys below a key, at any depth -/
def nodes : PK → Nat
  | .leaf _ => 0
  | .multi ks => nodesList ks
def nodesList : List PK → Nat
  | [] => 0
  | k :: rest => 1 + nodes k + nodesList rest
end

/-! ### keybase -/

structure Armor where
  key : Nat
  pass : String
  deriving Repr, DecidableEq

/-- the keybase: one armored private key per address (= key id), sorted by id -/
abbrev KB := List (Nat × String)

def kbGet (kb : KB) (k : Nat) : Option String := (kb.find? (·.1 == k)).map (·.2)

def kbPut : KB → Nat → String → KB
  | [], k, p => [(k, p)]
  | (k', p') :: rest, k, p =>
    if k < k' then (k, p) :: (k', p') :: rest
    else if k == k' then (k, p) :: rest
    else (k', p') :: kbPut rest k p

def kbDel (kb : KB) (k : Nat) : KB := kb.filter (·.1 != k)

inductive KOp where
  | create (k : Nat) (pass : String)                 -- `k`: the fresh key the generator produced
  | delete (k : Nat) (pass : String)
  | update (k : Nat) (old new : String)
  | sign (k : Nat) (pass : String) (msg : Nat)
  | exportArmor (k : Nat) (dpass epass : String)
  | importArmor (a : Armor) (dpass epass : String)
  | exportObj (k : Nat) (pass : String)
  | importObj (k : Nat) (epass : String)
  | list
  deriving Repr

inductive KOut where
  | ok
  | err
  | sig (s : Sig)
  | armor (a : Armor)
  | key (k : Nat)
  | keys (ks : List Nat)
  deriving Repr

def kstep (kb : KB) : KOp → KB × KOut
  | .create k pass => (kbPut kb k pass, .key k)
  | .delete k pass => if kbGet kb k == some pass then (kbDel kb k, .ok) else (kb, .err)
  | .update k old new => if kbGet kb k == some old then (kbPut kb k new, .ok) else (kb, .err)
  | .sign k pass msg => if kbGet kb k == some pass then (kb, .sig (.leaf k msg)) else (kb, .err)
  | .exportArmor k dpass epass => if kbGet kb k == some dpass then (kb, .armor ⟨k, epass⟩) else (kb, .err)
  | .importArmor a dpass epass =>
    if a.pass != dpass then (kb, .err)
    else if (kbGet kb a.key).isSome then (kb, .err)
    else (kbPut kb a.key epass, .key a.key)
  | .exportObj k pass => if kbGet kb k == some pass then (kb, .key k) else (kb, .err)
  | .importObj k epass => if (kbGet kb k).isSome then (kb, .err) else (kbPut kb k epass, .key k)
  | .list => (kb, .keys (kb.map (·.1)))

def krun (kb : KB) : List KOp → KB
  | [] => kb
  | op :: rest => krun (kstep kb op).1 rest

end Posmint.Keys
