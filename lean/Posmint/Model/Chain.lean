import Posmint.Model.Arith
/-!
Model of the application state machine: `baseapp` (runTx modes, ante cache, handler cache),
`x/auth` (bank: send / mint / burn, ante decision), `x/pos` (validators, power index, unstaking
queue, signing infos, missed-block window, awards, burns, BeginBlock / EndBlock) and `x/gov`
(ACL-guarded parameter changes, DAO transfer / burn).

Single staking denomination.  Addresses are opaque strings (lower-case hex), ordered like the
bytes they denote.  Time is integer nanoseconds; `forever` (= -1) is `DoubleSignJailEndTime`.
A panic inside BeginBlock / EndBlock halts the chain (`Except.error`).
-/
namespace Posmint.Chain
open Posmint.Arith

abbrev Addr := String

/-! ### sorted association lists keyed by address -/

def aget {α : Type} : List (Addr × α) → Addr → Option α
  | [], _ => none
  | (k, v) :: rest, q => if k == q then some v else aget rest q

def aset {α : Type} : List (Addr × α) → Addr → α → List (Addr × α)
  | [], k, v => [(k, v)]
  | (k', v') :: rest, k, v =>
    if k < k' then (k, v) :: (k', v') :: rest
    else if k == k' then (k, v) :: rest
    else (k', v') :: aset rest k v

def adel {α : Type} : List (Addr × α) → Addr → List (Addr × α)
  | [], _ => []
  | (k', v') :: rest, k => if k == k' then rest else (k', v') :: adel rest k

/-! ### state -/

structure Val where
  status : Nat          -- 0 unstaked, 1 unstaking, 2 staked
  jailed : Bool
  tokens : Int
  unstake : Int         -- completion time
  deriving Repr, DecidableEq

structure Sign where
  start : Int
  offset : Int
  missed : Int
  jailedUntil : Int     -- -1 = forever
  tomb : Bool
  deriving Repr, DecidableEq

structure Params where
  minStake : Int
  maxVals : Int
  unstakingTime : Int
  window : Int
  minSignedRaw : Int    -- Dec raw
  jailDur : Int
  maxAge : Int
  sfDouble : Int        -- Dec raw
  sfDown : Int          -- Dec raw
  feeBase : Int         -- base fee of every pos message
  maxMemo : Int
  feeChangeParam : Int
  feeDao : Int
  feeUpgrade : Int
  txSigLimit : Int := 7   -- auth `TxSigLimit`: the most keys (counted with the outer key) a multisignature key may hold
  feeMults : List (String × Int) := []   -- auth `FeeMultipliers`: message type -> multiplier of its base fee (first match)
  feeDefault : Int := 1                  -- ... and the multiplier of every type the list does not name
  deriving Repr

structure State where
  bal : List (Addr × Int)            -- non-zero balances only
  supply : Int
  vals : List (Addr × Val)
  idx : List (Int × Addr)            -- power index in raw key order: power asc, address desc
  prev : List (Addr × Int)
  prevTot : Int
  queue : List (Int × List Addr)     -- unstaking queue, by completion time asc
  sign : List (Addr × Sign)
  missedBits : List ((Addr × Int) × Bool)   -- sorted by address then index
  awards : List (Addr × Int)
  burns : List (Addr × Int)
  proposer : Addr
  rel : List Addr                    -- addresses with an address -> pubkey relation
  p : Params
  acl : List (String × Addr)
  daoOwner : Addr
  pool : Addr
  feeAcc : Addr
  posAcc : Addr
  daoAcc : Addr
  keys : List (Nat × Addr)           -- key index -> address
  nStored : Nat                      -- keys below this index belong to genesis accounts that carry their public key;
                                     -- the others (multisignature keys) can only come with the transaction
  height : Int
  time : Int
  cHeight : Int                      -- header of the check state: the last committed block
  cTime : Int
  index : List String                -- Tendermint's tx index: the transactions of committed blocks
  blockTxs : List String             -- transactions delivered in the current block
  bal2 : List (Addr × Int)           -- balances in a second denomination (non-zero only); it moves only as part of a fee
  supply2 : Int
  upgrade : Int × String := (0, "")  -- the upgrade plan (height, version) of the gov parameter store
  keyNodes : List (Nat × Nat) := []  -- key index -> number of keys below it (0: a plain key; a multisignature key counts
                                     -- its components, components of components, ...)
  accts : List (Addr × Unit) := []   -- the accounts that exist in the auth store (a credit creates the account; it stays
                                     -- when its balance returns to zero)
  keyed : List Addr := []            -- the accounts that carry a public key (genesis accounts; nothing stores a key later)
  deriving Repr

def forever : Int := -1
def powerReduction : Int := 1000000

/-! ### bank -/

def balOf (s : State) (a : Addr) : Int := (aget s.bal a).getD 0

def setBal (s : State) (a : Addr) (x : Int) : State :=
  { s with bal := if x == 0 then adel s.bal a else aset s.bal a x }

/-- `AddCoins` writes the receiving account: it exists from then on -/
def touch (s : State) (a : Addr) : State := { s with accts := aset s.accts a () }

def acctExists (s : State) (a : Addr) : Bool := (aget s.accts a).isSome

/-- `SubtractCoins` then `AddCoins`; `none` = error (insufficient funds). `amt ≥ 0`. -/
def send (s : State) (src dst : Addr) (amt : Int) : Option State :=
  if balOf s src < amt then none
  else
    let s1 := setBal s src (balOf s src - amt)
    some (touch (setBal s1 dst (balOf s1 dst + amt)) dst)

def mint (s : State) (acc : Addr) (amt : Int) : State :=
  { setBal s acc (balOf s acc + amt) with supply := s.supply + amt }

def burnFrom (s : State) (acc : Addr) (amt : Int) : Option State :=
  if balOf s acc < amt then none
  else some { setBal s acc (balOf s acc - amt) with supply := s.supply - amt }

/-! ### the second denomination: it can only be paid as (part of) a fee -/

def balOf2 (s : State) (a : Addr) : Int := (aget s.bal2 a).getD 0

def setBal2 (s : State) (a : Addr) (x : Int) : State :=
  { s with bal2 := if x == 0 then adel s.bal2 a else aset s.bal2 a x }

def send2 (s : State) (src dst : Addr) (amt : Int) : Option State :=
  if balOf2 s src < amt then none
  else
    let s1 := setBal2 s src (balOf2 s src - amt)
    some (setBal2 s1 dst (balOf2 s1 dst + amt))

/-! ### power index, queue, bits -/

def power (tokens : Int) : Int := Int.tdiv tokens powerReduction

/-- raw key order of the power index: power ascending, then inverted address ascending -/
def idxLt (a b : Int × Addr) : Bool := a.1 < b.1 || (a.1 == b.1 && b.2 < a.2)

def idxInsert : List (Int × Addr) → Int × Addr → List (Int × Addr)
  | [], e => [e]
  | x :: rest, e =>
    if idxLt e x then e :: x :: rest
    else if e == x then x :: rest
    else x :: idxInsert rest e

def idxRemove (l : List (Int × Addr)) (e : Int × Addr) : List (Int × Addr) := l.filter (· != e)

/-- `SetStakedValidator`: only staked, unjailed validators are indexed -/
def setStaked (s : State) (a : Addr) (v : Val) : State :=
  if v.jailed || v.status != 2 then s else { s with idx := idxInsert s.idx (power v.tokens, a) }

/-- `deleteValidatorFromStakingSet`: the key is computed from the record passed in -/
def delStaked (s : State) (a : Addr) (v : Val) : State :=
  { s with idx := idxRemove s.idx (power v.tokens, a) }

def setVal (s : State) (a : Addr) (v : Val) : State := { s with vals := aset s.vals a v }

def qGet (q : List (Int × List Addr)) (t : Int) : List Addr :=
  match q.find? (·.1 == t) with | some e => e.2 | none => []

def qSet : List (Int × List Addr) → Int → List Addr → List (Int × List Addr)
  | [], t, l => [(t, l)]
  | (t', l') :: rest, t, l =>
    if t < t' then (t, l) :: (t', l') :: rest
    else if t == t' then (t, l) :: rest
    else (t', l') :: qSet rest t l

def qDel (q : List (Int × List Addr)) (t : Int) : List (Int × List Addr) := q.filter (·.1 != t)

/-- `SetUnstakingValidator` -/
def enqueue (s : State) (a : Addr) (t : Int) : State :=
  { s with queue := qSet s.queue t (qGet s.queue t ++ [a]) }

/-- `deleteUnstakingValidator` -/
def dequeue (s : State) (a : Addr) (t : Int) : State :=
  let l := (qGet s.queue t).filter (· != a)
  { s with queue := if l.isEmpty then qDel s.queue t else qSet s.queue t l }

def bitLt (a b : (Addr × Int) × Bool) : Bool := a.1.1 < b.1.1 || (a.1.1 == b.1.1 && a.1.2 < b.1.2)

def bitGet (l : List ((Addr × Int) × Bool)) (a : Addr) (i : Int) : Bool :=
  match l.find? (fun e => e.1.1 == a && e.1.2 == i) with | some e => e.2 | none => false

def bitSet : List ((Addr × Int) × Bool) → Addr → Int → Bool → List ((Addr × Int) × Bool)
  | [], a, i, b => [((a, i), b)]
  | x :: rest, a, i, b =>
    if bitLt ((a, i), b) x then ((a, i), b) :: x :: rest
    else if x.1.1 == a && x.1.2 == i then ((a, i), b) :: rest
    else x :: bitSet rest a i b

/-! ### slashing -/

/-- `ForceValidatorUnstake` (the record `v` is the caller's copy) -/
def forceUnstake (s : State) (a : Addr) (v : Val) : State :=
  let s1 := delStaked s a v
  let s2 := if v.status == 1 then dequeue s1 a v.unstake else s1
  let s3 := if v.tokens > 0 then (burnFrom s2 s2.pool v.tokens).getD s2 else s2
  setVal s3 a { v with tokens := 0, status := 0 }

/-- `Dec` product `amount.ToDec().Mul(factor).TruncateInt()` -/
def slashAmount (pw : Int) (factorRaw : Int) : Int :=
  chopTrunc (chopRound ((pw * powerReduction * P) * factorRaw))

/-- `slash`: errors are logged by every caller, so the result is just the new state. -/
def slash (s : State) (a : Addr) (infractionHeight pw factorRaw : Int) : State :=
  if factorRaw < 0 then s
  else if infractionHeight > s.height then s
  else match aget s.vals a with
    | none => s
    | some v =>
      if v.status == 0 then s
      else
        let burn := max (min (slashAmount pw factorRaw) v.tokens) 0
        -- removeValidatorTokens
        let v1 := { v with tokens := v.tokens - burn }
        let s1 := setStaked (setVal (delStaked s a v) a v1) a v1
        -- burnStakedTokens
        if burn ≤ 0 then s1
        else match burnFrom s1 s1.pool burn with
          | none => s1
          | some s2 => if v1.tokens < s2.p.minStake then forceUnstake s2 a v1 else s2

/-- `JailValidator`; `none` = panic (missing record or already jailed) -/
def jail (s : State) (a : Addr) : Option State :=
  match aget s.vals a with
  | none => none
  | some v =>
    if v.jailed then none
    else
      let v1 := { v with jailed := true }
      some (delStaked (setVal s a v1) a v1)

/-- `MinSignedPerWindow`: `minSigned.MulInt64(window).RoundInt64()` -/
def minSignedPerWindow (p : Params) : Int := chopRound (p.minSignedRaw * p.window)

/-- `handleValidatorSignature`; `none` = panic -/
def handleSignature (s : State) (a : Addr) (pw : Int) (signed : Bool) : Option State :=
  if !s.rel.contains a then none
  else match aget s.sign a with
  | none => none
  | some si =>
    if s.p.window ≤ 0 then none   -- integer divide by zero
    else
    let index := Int.tmod si.offset s.p.window
    let previous := bitGet s.missedBits a index
    let missed := !signed
    let (bits, ctr) :=
      if !previous && missed then (bitSet s.missedBits a index true, si.missed + 1)
      else if previous && !missed then (bitSet s.missedBits a index false, si.missed - 1)
      else (s.missedBits, si.missed)
    let si1 := { si with offset := si.offset + 1, missed := ctr }
    let s1 := { s with missedBits := bits }
    let minHeight := si.start + s.p.window
    let maxMissed := s.p.window - minSignedPerWindow s.p
    if s.height > minHeight && ctr > maxMissed then
      match aget s1.vals a with
      | some v =>
        if !v.jailed then
          let s2 := slash s1 a (s.height - 1 - 1) pw s.p.sfDown
          match jail s2 a with
          | none => none
          | some s3 =>
            let si2 := { si1 with jailedUntil := s.time + s.p.jailDur, missed := 0, offset := 0 }
            some { s3 with missedBits := s3.missedBits.filter (fun e => e.1.1 != a), sign := aset s3.sign a si2 }
        else some { s1 with sign := aset s1.sign a si1 }
      | none => some { s1 with sign := aset s1.sign a si1 }
    else some { s1 with sign := aset s1.sign a si1 }

/-- `handleDoubleSign`; `none` = panic -/
def handleDoubleSign (s : State) (a : Addr) (infractionHeight evTime pw : Int) : Option State :=
  if !s.rel.contains a then none
  else if s.time - evTime > s.p.maxAge then some s
  else match aget s.vals a with
  | none => none
  | some v =>
    if v.status == 0 then none
    else match aget s.sign a with
    | none => none
    | some si =>
      if si.tomb then none
      -- the conviction deletes the power-index key of the current stake (in `slash`, at the latest in
      -- `ForceValidatorUnstake`): `Int64()` panics for a power ≥ 2^63
      else if !isInt64 (power v.tokens) then none
      else
        let s1 := slash s a (infractionHeight - 1) pw s.p.sfDouble
        let s2? := if !v.jailed then jail s1 a else some s1
        match s2? with
        | none => none
        | some s2 =>
          match aget s2.vals a with
          | none => none
          | some v2 =>
            let s3 := forceUnstake s2 a v2
            some { s3 with sign := aset s3.sign a { si with tomb := true, jailedUntil := forever } }

/-! ### BeginBlock -/

structure Vote where
  addr : Addr
  power : Int
  signed : Bool

structure Evidence where
  addr : Addr
  height : Int
  time : Int
  power : Int

/-- `rewardFromFees` -/
def rewardFromFees (s : State) : State :=
  let fees := balOf s s.feeAcc
  match send s s.feeAcc s.posAcc fees with
  | none => s
  | some s1 =>
    if (aget s1.vals s.proposer).isSome then (send s1 s1.posAcc s.proposer fees).getD s1 else s1

/-- the same transfer for what the fee collector holds in the second denomination: to the pos module account,
and on to the proposer if it is a known validator (`rewardFromFees` moves the collected coins of every denomination) -/
def rewardFromFees2 (s : State) : State :=
  let fees := balOf2 s s.feeAcc
  match send2 s s.feeAcc s.posAcc fees with
  | none => s
  | some s1 =>
    if (aget s1.vals s.proposer).isSome then (send2 s1 s1.posAcc s.proposer fees).getD s1 else s1

/-- `mintValidatorAwards`; `none` = panic (`NewCoin` refuses a negative amount) -/
def mintAwards (s : State) : Option State :=
  if s.awards.any (fun e => e.2 < 0) then none
  else
    let s1 := s.awards.foldl (fun st e =>
      let st1 := mint st st.pool e.2
      (send st1 st1.pool e.1 e.2).getD st1) s
    some { s1 with awards := [] }

/-- `burnValidators`; `none` = panic (`mustGetValidator`, or a consensus power that does not fit an int64) -/
def burnValidators (s : State) : Option State :=
  let r := s.burns.foldl (fun (st? : Option State) e =>
    match st? with
    | none => none
    | some st => match aget st.vals e.1 with
      | none => none
      | some v =>
        -- `ConsensusPower()` of a staked validator converts its power to an int64 and panics when it does not fit
        if v.status == 2 && !isInt64 (power v.tokens) then none
        else some (slash st e.1 st.height (if v.status == 2 then power v.tokens else 0) e.2)) (some s)
  r.map fun st => { st with burns := [] }

def beginBlock (s : State) (time : Int) (proposer : Addr) (votes : List Vote) (evs : List Evidence) :
    Option State :=
  let s0 := { s with height := s.height + 1, time := time }
  let s1 := if s0.height > 1 then rewardFromFees2 (rewardFromFees s0) else s0
  match (mintAwards s1).bind burnValidators with
  | none => none
  | some s3 =>
    let s4 := { s3 with proposer := proposer }
    let s5? := votes.foldl (fun (st? : Option State) v => st?.bind fun st => handleSignature st v.addr v.power v.signed) (some s4)
    evs.foldl (fun (st? : Option State) e => st?.bind fun st => handleDoubleSign st e.addr e.height e.time e.power) s5?

/-! ### EndBlock -/

/-- the scan of the power index in `UpdateTendermintValidators` (highest power first);
returns updates (reversed), new prev map, remaining prev entries, total; `none` = panic -/
def scanIndex (s : State) : List (Int × Addr) → Nat → List (Addr × Int) → List (Addr × Int) →
    List (Addr × Int) → Int → Option (List (Addr × Int) × List (Addr × Int) × List (Addr × Int) × Int)
  | [], _, ups, prev, remaining, tot => some (ups, prev, remaining, tot)
  | (_, a) :: rest, count, ups, prev, remaining, tot =>
    if (count : Int) ≥ s.p.maxVals then some (ups, prev, remaining, tot)
    else match aget s.vals a with
    | none => none
    | some v =>
      if v.jailed then none
      else if power v.tokens == 0 then none
      else
        let cur := if v.status == 2 then power v.tokens else 0
        let changed := match aget remaining a with | some pw => pw != cur | none => true
        let changed' := match aget s.prev a with | some pw => pw != cur | none => true
        let ups' := if changed' then (a, cur) :: ups else ups
        let prev' := if changed' then aset prev a cur else prev
        let _ := changed
        scanIndex s rest (count + 1) ups' prev' (adel remaining a) (tot + cur)

/-- `UpdateTendermintValidators` -/
def updateValidators (s : State) : Option (State × List (Addr × Int)) :=
  match scanIndex s s.idx.reverse 0 [] s.prev s.prev 0 with
  | none => none
  | some (upsRev, prev1, remaining, tot) =>
    -- validators no longer staked, sorted by address; `mustGetValidator` on each
    if remaining.any (fun e => (aget s.vals e.1).isNone) then none
    else
      let prev2 := remaining.foldl (fun p e => adel p e.1) prev1
      let ups := upsRev.reverse ++ remaining.map (fun e => (e.1, (0 : Int)))
      some ({ s with prev := prev2, prevTot := if ups.isEmpty then s.prevTot else tot }, ups)

/-- pay out one mature address (`FinishUnstakingValidator` + `DeleteValidator`) -/
def finishOne (s : State) (a : Addr) : Option State :=
  match aget s.vals a with
  | none => some s
  | some v =>
    if v.status != 1 then some s
    else if !isInt64 v.tokens then none
    else
      let s1 := dequeue s a v.unstake
      match send s1 s1.pool a v.tokens with
      | none => none
      | some s2 => some { s2 with vals := adel s2.vals a }

/-- `unstakeAllMatureValidators` -/
def unstakeMature (s : State) : Option State :=
  let slots := s.queue.filter (fun e => e.1 ≤ s.time)
  slots.foldl (fun (st? : Option State) slot =>
    st?.bind fun st =>
      (slot.2.foldl (fun (x? : Option State) a => x?.bind fun x => finishOne x a) (some st)).map
        fun x => { x with queue := qDel x.queue slot.1 }) (some s)

def endBlock (s : State) : Option (State × List (Addr × Int)) :=
  match updateValidators s with
  | none => none
  | some (s1, ups) => (unstakeMature s1).map fun s2 => (s2, ups)

/-! ### messages -/

inductive Msg where
  | stake (key : Nat) (amt : Int)
  | unstake (a : Addr)
  | unjail (a : Addr)
  | send (src dst : Addr) (amt : Int)
  | changeParam (src : Addr) (key : String) (val : String)   -- val: the JSON text
  | daoTransfer (src dst : Addr) (amt : Int)
  | daoBurn (src : Addr) (amt : Int)
  | upgrade (src : Addr) (h : Int) (ver : String)
  deriving Repr

def keyAddr (s : State) (k : Nat) : Addr := (s.keys.lookup k).getD ""

def Msg.signer (s : State) : Msg → Addr
  | .stake k _ => keyAddr s k
  | .unstake a => a
  | .unjail a => a
  | .send src _ _ => src
  | .changeParam src _ _ => src
  | .daoTransfer src _ _ => src
  | .daoBurn src _ => src
  | .upgrade src _ _ => src

/-- `ValidateBasic` of the message -/
def Msg.basicOK : Msg → Bool
  | .stake _ amt => amt > 0
  | .unstake a => a != ""
  | .unjail a => a != ""
  | .send src dst amt => src != "" && dst != "" && amt > 0
  | .changeParam _ key val => key != "" && val != ""
  | .daoTransfer _ _ amt => isInt64 amt && amt != 0
  | .daoBurn _ amt => isInt64 amt && amt != 0
  | .upgrade _ h ver => h != 0 && ver != ""

/-- `msg.GetFee()`: the base fee of the message type -/
def Msg.baseFee (p : Params) : Msg → Int
  | .changeParam _ _ _ => p.feeChangeParam
  | .daoTransfer _ _ _ => p.feeDao
  | .daoBurn _ _ => p.feeDao
  | .upgrade _ _ _ => p.feeUpgrade
  | _ => p.feeBase

/-- `msg.Type()` -/
def Msg.typeName : Msg → String
  | .stake _ _ => "stake_validator"
  | .unstake _ => "begin_unstaking_validator"
  | .unjail _ => "unjail"
  | .send _ _ _ => "send"
  | .changeParam _ _ _ => "change_param"
  | .daoTransfer _ _ _ => "dao_tranfer"
  | .daoBurn _ _ => "dao_tranfer"
  | .upgrade _ _ _ => "upgrade"

/-- `FeeMultipliers.GetFee`: the base fee times the multiplier listed for the message type (the first entry that names
it), or times the default multiplier -/
def Msg.requiredFee (p : Params) (m : Msg) : Int :=
  m.baseFee p * ((p.feeMults.lookup m.typeName).getD p.feeDefault)

/-- the text between a leading and a trailing double quote -/
def unquote (v : String) : Option (List Char) :=
  match v.toList with
  | '"' :: rest =>
    match rest.reverse with
    | '"' :: inner => some inner.reverse
    | _ => none
  | _ => none

def digitsToInt (cs : List Char) : Option Int :=
  if cs.isEmpty || !cs.all Char.isDigit then none
  else some (cs.foldl (fun (acc : Int) c => acc * 10 + ((c.toNat - '0'.toNat : Nat) : Int)) 0)

/-- parse `"<digits>"` (amino JSON of an int64 / uint64 / duration) -/
def parseQuotedInt (v : String) : Option Int := (unquote v).bind digitsToInt

/-- parse `"d.dddddddddddddddddd"` with exactly 18 decimals (what the generator sends for a Dec) -/
def parseQuotedDec (v : String) : Option Int :=
  (unquote v).bind fun cs =>
    let a := cs.takeWhile (· != '.')
    let b := (cs.dropWhile (· != '.')).drop 1
    if b.length == 18 && cs.length == a.length + 19 then digitsToInt (a ++ b) else none

/-- an owner as `Address.UnmarshalJSON` accepts it and `String()` prints it: empty, or 40 lower-case hex digits -/
def aclOwnerOK (o : List Char) : Bool :=
  o.isEmpty || (o.length == 40 && o.all fun c => c.isDigit || ('a' ≤ c && c ≤ 'f'))

/-- an address as its JSON form allows it: the empty string (no address) or 40 lower-case hex digits -/
def parseQuotedAddr (v : String) : Option Addr :=
  (unquote v).bind fun cs => if aclOwnerOK cs then some (String.ofList cs) else none

/-- strip a literal prefix -/
def stripPrefix : List Char → List Char → Option (List Char)
  | [], cs => some cs
  | p :: ps, c :: cs => if p == c then stripPrefix ps cs else none
  | _ :: _, [] => none

/-- the characters up to the next double quote, and what follows that quote -/
def untilQuote (cs : List Char) : Option (List Char × List Char) :=
  match cs.dropWhile (· != '"') with
  | _ :: rest => some (cs.takeWhile (· != '"'), rest)
  | [] => none

/-- entries `{"acl_key":"K","address":"A"}` separated by commas, up to the closing `]}` -/
def parseAclEntries : Nat → List Char → Option (List (String × Addr))
  | 0, _ => none
  | fuel + 1, cs =>
    (stripPrefix "{\"acl_key\":\"".toList cs).bind fun r1 =>
    (untilQuote r1).bind fun (k, r2) =>
    (stripPrefix ",\"address\":\"".toList r2).bind fun r3 =>
    (untilQuote r3).bind fun (o, r4) =>
    if !aclOwnerOK o then none else
    match r4 with
    | ['}', ']', '}'] => some [(String.ofList k, String.ofList o)]
    | '}' :: ',' :: r5 => (parseAclEntries fuel r5).map ((String.ofList k, String.ofList o) :: ·)
    | _ => none

/-- the access-control list in the canonical amino JSON the parameter store holds
(`{"type":"gov/non_map_acl","value":[{"acl_key":"…","address":"…"},…]}`); the whole list, in order -/
def parseAcl (v : String) : Option (List (String × Addr)) :=
  (stripPrefix "{\"type\":\"gov/non_map_acl\",\"value\":[".toList v.toList).bind fun r =>
    if r == [']', '}'] then some [] else parseAclEntries r.length r

/-- entries `{"key":"K","multiplier":"N"}` separated by commas, up to the closing `]` -/
def parseFeeEntries : Nat → List Char → Option (List (String × Int) × List Char)
  | 0, _ => none
  | fuel + 1, cs =>
    (stripPrefix "{\"key\":\"".toList cs).bind fun r1 =>
    (untilQuote r1).bind fun (k, r2) =>
    (stripPrefix ",\"multiplier\":\"".toList r2).bind fun r3 =>
    (untilQuote r3).bind fun (n, r4) =>
    (digitsToInt n).bind fun m =>
    match r4 with
    | '}' :: ']' :: rest => some ([(String.ofList k, m)], rest)
    | '}' :: ',' :: r5 => (parseFeeEntries fuel r5).map fun (l, rest) => ((String.ofList k, m) :: l, rest)
    | _ => none

/-- the fee multipliers in the canonical amino JSON of the parameter store:
`{"fee_multiplier":null,"default":"N"}` or `{"fee_multiplier":[{"key":"K","multiplier":"N"},…],"default":"N"}` -/
def parseFeeMults (v : String) : Option (List (String × Int) × Int) :=
  (stripPrefix "{\"fee_multiplier\":".toList v.toList).bind fun r =>
    let listAndRest : Option (List (String × Int) × List Char) :=
      match stripPrefix "null".toList r with
      | some rest => some ([], rest)
      | none => (stripPrefix "[".toList r).bind fun r1 =>
          match r1 with
          | ']' :: rest => some ([], rest)
          | _ => parseFeeEntries r1.length r1
    listAndRest.bind fun (l, rest) =>
      (stripPrefix ",\"default\":\"".toList rest).bind fun r2 =>
      (untilQuote r2).bind fun (d, r3) =>
      if r3 != ['}'] then none else (digitsToInt d).map fun n => (l, n)

/-- the upgrade plan in the canonical amino JSON of the parameter store:
`{"type":"gov/upgrade","value":{"Height":"<digits>","Version":"<text without a double quote>"}}` -/
def parseUpgrade (v : String) : Option (Int × String) :=
  (stripPrefix "{\"type\":\"gov/upgrade\",\"value\":{\"Height\":\"".toList v.toList).bind fun r1 =>
  (untilQuote r1).bind fun (h, r2) =>
  (stripPrefix ",\"Version\":\"".toList r2).bind fun r3 =>
  (untilQuote r3).bind fun (ver, r4) =>
  if r4 != ['}', '}'] then none else
  (digitsToInt h).map fun n => (n, String.ofList ver)

/-- `Subspace.Update` for the parameters the model tracks; a value that does not decode leaves
the parameter unchanged (the error is ignored by `ModifyParam`). -/
def applyParam (s : State) (key val : String) : State :=
  match key with
  | "gov/acl" => match parseAcl val with | some l => { s with acl := l } | none => s
  | "pos/MaxValidators" => match parseQuotedInt val with | some n => { s with p := { s.p with maxVals := n } } | none => s
  | "pos/StakeMinimum" => match parseQuotedInt val with | some n => { s with p := { s.p with minStake := n } } | none => s
  | "pos/UnstakingTime" => match parseQuotedInt val with | some n => { s with p := { s.p with unstakingTime := n } } | none => s
  | "pos/SignedBlocksWindow" => match parseQuotedInt val with | some n => { s with p := { s.p with window := n } } | none => s
  | "pos/MinSignedPerWindow" => match parseQuotedDec val with | some n => { s with p := { s.p with minSignedRaw := n } } | none => s
  | "auth/MaxMemoCharacters" => match parseQuotedInt val with | some n => { s with p := { s.p with maxMemo := n } } | none => s
  | "auth/FeeMultipliers" => match parseFeeMults val with
    | some (l, d) => { s with p := { s.p with feeMults := l, feeDefault := d } } | none => s
  | "auth/TxSigLimit" => match parseQuotedInt val with | some n => { s with p := { s.p with txSigLimit := n } } | none => s
  | "gov/daoOwner" => match parseQuotedAddr val with | some a => { s with daoOwner := a } | none => s
  | "pos/DowntimeJailDuration" => match parseQuotedInt val with | some n => { s with p := { s.p with jailDur := n } } | none => s
  | "pos/MaxEvidenceAge" => match parseQuotedInt val with | some n => { s with p := { s.p with maxAge := n } } | none => s
  | "pos/SlashFractionDoubleSign" => match parseQuotedDec val with | some n => { s with p := { s.p with sfDouble := n } } | none => s
  | "pos/SlashFractionDowntime" => match parseQuotedDec val with | some n => { s with p := { s.p with sfDown := n } } | none => s
  | "gov/upgrade" => match parseUpgrade val with | some u => { s with upgrade := u } | none => s
  | _ => s

/-- A message handler: `none` = error result or panic (the cache is discarded). -/
def handle (s : State) : Msg → Option State
  | .stake k amt =>
    if (s.keys.lookup k).isNone then none else   -- the message carries a real public key
    let a := keyAddr s k
    let v := (aget s.vals a).getD { status := 0, jailed := false, tokens := 0, unstake := 0 }
    if v.status != 0 then none
    else if (match aget s.sign a with | some si => si.tomb | none => false) then none   -- tombstoned for good
    else if amt < s.p.minStake then none
    else if balOf s a < amt then none
    else
      -- RegisterValidator (new) + StakeValidator
      let s0 := { s with rel := if s.rel.contains a then s.rel else a :: s.rel }
      match send s0 a s0.pool amt with
      | none => none
      | some s1 =>
        let v1 := { v with tokens := v.tokens + amt, status := 2 }
        -- `SetStakedValidator` computes the power-index key: `Int64()` panics for a power ≥ 2^63
        if !v1.jailed && !isInt64 (power v1.tokens) then none else
        let s2 := setStaked (setVal s1 a v1) a v1
        some (if (aget s2.sign a).isSome then s2
              else { s2 with sign := aset s2.sign a { start := s.height, offset := 0, missed := 0, jailedUntil := 0, tomb := false } })
  | .unstake a =>
    match aget s.vals a with
    | none => none
    | some v =>
      if v.status != 2 then none
      else if v.tokens < s.p.minStake then none      -- panic
      -- `deleteValidatorFromStakingSet` computes the power-index key: `Int64()` panics for a power ≥ 2^63
      else if !isInt64 (power v.tokens) then none
      else
        let s1 := delStaked s a v
        let v1 := { v with status := 1, unstake := s.time + s.p.unstakingTime }
        some (enqueue (setVal s1 a v1) a v1.unstake)
  | .unjail a =>
    match aget s.vals a with
    | none => none
    | some v =>
      if v.tokens < s.p.minStake then none
      else if !v.jailed then none
      else match aget s.sign a with
      | none => none
      | some si =>
        if si.tomb then none
        else if si.jailedUntil == forever || s.time < si.jailedUntil then none
        else
          let v1 := { v with jailed := false }
          if v1.status == 2 && !isInt64 (power v1.tokens) then none else
          some (setStaked (setVal s a v1) a v1)
  | .send src dst amt => send s src dst amt
  | .changeParam src key val =>
    match s.acl.lookup key with
    | none => none
    | some owner => if owner != src then none else some (applyParam s key val)
  | .daoTransfer src dst amt =>
    if s.daoOwner != src then none
    else if amt < 0 then none          -- NewCoin panics
    else send s s.daoAcc dst amt
  | .daoBurn src amt =>
    if s.daoOwner != src then none
    else if amt < 0 then none
    else burnFrom s s.daoAcc amt
  | .upgrade src h ver =>
    match s.acl.lookup "gov/upgrade" with
    | none => none
    | some owner => if owner != src then none else some { s with upgrade := (h, ver) }

/-! ### transactions -/

inductive Mode where | deliver | check | simulate
  deriving DecidableEq, Repr

structure Tx where
  msg : Msg
  signer : Nat        -- index of the key that signed
  pk : Bool           -- public key included in the signature
  fee : Int
  memo : Nat
  mutn : String       -- mutation applied after signing ("none" = intact)
  id : String         -- identity of the transaction bytes (what the tx hash is computed from)
  fee2 : Int := 0     -- the part of the fee offered in the second denomination (it never counts towards the requirement)
  deriving Repr

/-- the fee actually carried by the transaction bytes -/
def Tx.feeEff (t : Tx) : Int := if t.mutn == "fee" then t.fee + 1 else t.fee
def Tx.memoEff (t : Tx) : Nat := if t.mutn == "memo" then t.memo + 1 else t.memo

/-- Ideal signatures: the signature verifies iff it was produced by the verification key over
exactly the bytes that are checked. -/
def Tx.sigValid (s : State) (t : Tx) (verifKey : Addr) : Bool :=
  keyAddr s t.signer == verifKey && !(["sig", "fee", "memo", "ent"].contains t.mutn)

/-- `ValidateSignatureDepth`: a multisignature key is refused when it holds, together with itself, more keys than
`TxSigLimit` (`recSignDepth` counts the outer key as 1 and every key below it, at any depth, as one more, and fails as
soon as the count exceeds the limit); a plain key is not subject to the limit. -/
def sigDepthOK (s : State) (k : Nat) : Bool :=
  match s.keyNodes.lookup k with
  | some n => n == 0 || (1 + (n : Int)) ≤ s.p.txSigLimit
  | none => true

/-- the ante handler's decision (everything before `DeductFees`' transfer) -/
def anteOK (s : State) (t : Tx) (simulate : Bool) : Bool :=
  let signer := t.msg.signer s
  -- StdTx.ValidateBasic: a valid fee (no negative amount) and a non-empty signature
  t.feeEff ≥ 0 && t.mutn != "emptysig" &&
  -- replay protection: the transaction must not be in the tx index already
  !s.index.contains t.id &&
  -- memo
  (t.memoEff : Int) ≤ s.p.maxMemo &&
  -- key: from the signature, else from the signer's account (genesis accounts carry their key)
  (let verif? : Option Addr := if t.pk then s.keys.lookup t.signer
      else if s.keys.any (fun k => k.2 == signer && decide (k.1 < s.nStored)) then some signer else none
   match verif? with
   | none => false
   | some verif =>
     verif == signer &&
     t.feeEff ≥ t.msg.requiredFee s.p &&
     -- the key that came with the transaction may be a multisignature key (stored keys are plain)
     (!t.pk || sigDepthOK s t.signer) &&
     (simulate || t.sigValid s verif) &&
     -- DeductFees: the signer's account must exist (`GetSignerAcc`) and cover the fee
     acctExists s signer && balOf s signer ≥ t.feeEff) &&
  -- the part of the fee in the second denomination: a valid amount, covered by the signer's balance
  t.fee2 ≥ 0 && balOf2 s signer ≥ t.fee2

/-- `runTx`. Returns the new state and whether the result code is OK. -/
def runTx (s : State) (mode : Mode) (t : Tx) : State × Bool :=
  if t.mutn == "trunc" || t.mutn == "garbage" then (s, false)       -- does not decode
  else if !t.msg.basicOK then (s, false)
  else if !anteOK s t (mode == .simulate) then (s, false)
  else
    let afterAnte1 := (send s (t.msg.signer s) s.feeAcc t.feeEff).getD s
    let afterAnte := (send2 afterAnte1 (t.msg.signer s) s.feeAcc t.fee2).getD afterAnte1
    match mode with
    | .check => (s, true)
    | .simulate =>
      -- Simulate runs on the check state's context: the header of the last committed block
      (s, (handle { s with height := s.cHeight, time := s.cTime } t.msg).isSome)
    | .deliver =>
      match handle afterAnte t.msg with
      | some s' => (s', true)
      | none => (afterAnte, false)

/-! ### genesis -/

structure Genesis where
  accs : List (Addr × Int)       -- funded accounts (each carries its key)
  vals : List (Addr × Int)       -- staked validators with their stake
  p : Params
  daoTokens : Int
  daoOwner : Addr
  aclOwner : Addr
  paramNames : List String
  pool : Addr
  feeAcc : Addr
  posAcc : Addr
  daoAcc : Addr
  keys : List (Nat × Addr)
  nStored : Nat
  defaultMaxVals : Int
  keyNodes : List (Nat × Nat) := []               -- key index -> number of keys below it (0 = plain key)
  accs2 : List (Addr × Int) := []                 -- balances in the second denomination (on accounts of `accs`)
  signing : List (Addr × Sign) := []              -- `signing_infos` of an exported genesis (override the fresh ones)
  missed : List ((Addr × Int) × Bool) := []       -- `missed_blocks` of an exported genesis

/-- `InitChain`: auth genesis (accounts, explicit supply), pos genesis (validators staked and
indexed, signing infos from height 0, pool funded with the stake, first validator-set update
computed with the default `MaxValidators`), gov genesis (ACL, DAO tokens minted). -/
def genesis (g : Genesis) : State × List (Addr × Int) :=
  let s0 : State := {
    bal := [], supply := 0, vals := [], idx := [], prev := [], prevTot := 0, queue := [], sign := [], missedBits := [],
    awards := [], burns := [], proposer := "", rel := [], p := g.p,
    acl := g.paramNames.map (fun n => (n, g.aclOwner)), daoOwner := g.daoOwner,
    pool := g.pool, feeAcc := g.feeAcc, posAcc := g.posAcc, daoAcc := g.daoAcc,
    keys := g.keys, nStored := g.nStored, height := 0, time := 0, cHeight := 0, cTime := 0, index := [], blockTxs := [],
    bal2 := g.accs2.foldl (fun m e => if e.2 == 0 then m else aset m e.1 e.2) [],
    supply2 := g.accs2.foldl (fun t e => t + e.2) 0, keyNodes := g.keyNodes,
    accts := g.accs.foldl (fun m e => aset m e.1 ()) [], keyed := g.accs.map (·.1) }
  let s1 := g.accs.foldl (fun st e => { setBal st e.1 e.2 with supply := st.supply + e.2 }) s0
  let s2 := g.vals.foldl (fun st e =>
    let v : Val := { status := 2, jailed := false, tokens := e.2, unstake := 0 }
    let st1 := setStaked (setVal st e.1 v) e.1 v
    let st2 := { st1 with sign := aset st1.sign e.1 { start := 0, offset := 0, missed := 0, jailedUntil := 0, tomb := false },
                          rel := e.1 :: st1.rel, supply := st1.supply + e.2 }
    setBal st2 st2.pool (balOf st2 st2.pool + e.2)) s1
  -- exported signing state: written after the validators (keyed writes, the order among them is immaterial)
  let s2 := { s2 with sign := g.signing.foldl (fun m e => aset m e.1 e.2) s2.sign,
                      missedBits := g.missed.foldl (fun m e => bitSet m e.1.1 e.1.2 e.2) s2.missedBits }
  let s3 := mint s2 s2.daoAcc g.daoTokens
  match updateValidators { s3 with p := { s3.p with maxVals := g.defaultMaxVals } } with
  | some (s4, ups) => ({ s4 with p := g.p }, ups)
  | none => (s3, [])

/-! ### the operation alphabet of the line protocol -/

inductive Op where
  | begin (time : Int) (proposer : Addr) (votes : List Vote) (evs : List Evidence)
  | endBlock
  | commit
  | award (a : Addr) (amt : Int)
  | burn (a : Addr) (raw : Int)
  | tx (mode : Mode) (t : Tx)

/-- One operation: `none` = the chain halted (panic in BeginBlock / EndBlock). The second
component is the observable result: validator updates for `endBlock`, the result flag for `tx`. -/
def step (s : State) : Op → Option (State × List (Addr × Int) × Bool)
  | .begin time proposer votes evs => (beginBlock s time proposer votes evs).map fun s' => (s', [], true)
  | .endBlock => (endBlock s).map fun r => (r.1, r.2, true)
  | .commit =>
    -- Tendermint indexes every transaction of the committed block
    some ({ s with cHeight := s.height, cTime := s.time, index := s.blockTxs ++ s.index, blockTxs := [] }, [], true)
  | .award a amt => some ({ s with awards := aset s.awards a (((aget s.awards a).getD 0) + amt) }, [], true)
  | .burn a raw => some ({ s with burns := aset s.burns a (((aget s.burns a).getD 0) + raw) }, [], true)
  | .tx mode t =>
    let r := runTx s mode t
    some ((if mode == .deliver then { r.1 with blockTxs := t.id :: r.1.blockTxs } else r.1), [], r.2)

/-- run a history; `none` once the chain has halted -/
def run (s : State) : List Op → Option State
  | [] => some s
  | op :: rest => (step s op).bind fun r => run r.1 rest

end Posmint.Chain
