import Posmint.Model.Arith
/-!
Model of the `Coins` part of `types/coin.go`.

A coin is a (denomination, amount) pair, a coin set a list of them. A Go panic is `none`.
Amounts are the `Int` of `types/int.go` (range-checked addition from `Posmint.Arith`).
Denominations are compared as the code compares them (`<`, `==` on strings: for the ASCII
denominations the generator uses, Go's byte order and Lean's code-point order coincide).
-/
namespace Posmint.Coins
open Posmint.Arith

abbrev Coin := String × Int
abbrev Coins := List Coin

def isLowerC (c : Char) : Bool := decide ('a'.val ≤ c.val) && decide (c.val ≤ 'z'.val)
def isDigitC (c : Char) : Bool := decide ('0'.val ≤ c.val) && decide (c.val ≤ '9'.val)
def isUpperC (c : Char) : Bool := decide ('A'.val ≤ c.val) && decide (c.val ≤ 'Z'.val)

/-- `validateDenom`: the regular expression `^[a-z][a-z0-9]{2,15}$` -/
def denomOK (d : String) : Bool :=
  match d.toList with
  | [] => false
  | c :: rest => isLowerC c && rest.all (fun x => isLowerC x || isDigitC x) && decide (2 ≤ rest.length) && decide (rest.length ≤ 15)

/-- `strings.ToLower(d) == d` for ASCII: no upper-case letter -/
def noUpper (d : String) : Bool := d.toList.all (fun c => !isUpperC c)

/-- the loop of `Coins.IsValid` over the coins after the first: lower case, strictly ascending, positive.
(It does NOT apply the regular expression to these denominations.) -/
def isValidTail (low : String) : Coins → Bool
  | [] => true
  | c :: rest => noUpper c.1 && decide (low < c.1) && decide (0 < c.2) && isValidTail c.1 rest

/-- `Coins.IsValid` -/
def isValid : Coins → Bool
  | [] => true
  | c :: rest => denomOK c.1 && decide (0 < c.2) && isValidTail c.1 rest

/-- `removeZeroCoins` -/
def removeZero (cs : Coins) : Coins := cs.filter (fun c => c.2 != 0)

/-- `Coins.safeAdd`: merge by denomination, adding amounts of equal denominations, dropping zero results -/
def safeAdd : Coins → Coins → Option Coins
  | [], b => some (removeZero b)
  | a :: ra, [] => some (removeZero (a :: ra))
  | a :: ra, b :: rb =>
    if a.1 < b.1 then (safeAdd ra (b :: rb)).map fun r => if a.2 == 0 then r else a :: r
    else if a.1 == b.1 then
      match intAdd a.2 b.2 with
      | none => none
      | some s => (safeAdd ra rb).map fun r => if s == 0 then r else (a.1, s) :: r
    else (safeAdd (a :: ra) rb).map fun r => if b.2 == 0 then r else b :: r
termination_by a b => a.length + b.length

/-- `Coins.Add` -/
def add (a b : Coins) : Option Coins := safeAdd a b

/-- `Coins.negative` -/
def negative (cs : Coins) : Coins := cs.map fun c => (c.1, -c.2)

/-- `Coins.IsAnyNegative` -/
def isAnyNegative (cs : Coins) : Bool := cs.any fun c => decide (c.2 < 0)

/-- `Coins.SafeSub` -/
def safeSub (a b : Coins) : Option (Coins × Bool) := (safeAdd a (negative b)).map fun d => (d, isAnyNegative d)

/-- `Coins.Sub`: panics when an amount would go negative -/
def sub (a b : Coins) : Option Coins :=
  match safeSub a b with
  | some (d, false) => some d
  | _ => none

/-- the binary search of `Coins.AmountOf` (after the denomination check) -/
def amountOfBS (cs : Coins) (d : String) : Int :=
  match h : cs with
  | [] => 0
  | [c] => if c.1 == d then c.2 else 0
  | _ :: _ :: _ =>
    let mid := cs.length / 2
    match cs[mid]? with
    | none => 0
    | some c =>
      if d < c.1 then amountOfBS (cs.take mid) d
      else if d == c.1 then c.2
      else amountOfBS (cs.drop (mid + 1)) d
termination_by cs.length
decreasing_by
  all_goals simp_wf
  all_goals subst h
  all_goals simp only [List.length_cons, List.length_take, List.length_drop]
  all_goals omega

/-- `Coins.AmountOf`: panics on a denomination that fails the regular expression -/
def amountOf (cs : Coins) (d : String) : Option Int := if denomOK d then some (amountOfBS cs d) else none

/-- all of a list of optional booleans; a panic anywhere before the first `false` is a panic
(the Go loops return at the first failing element) -/
def allM : List (Option Bool) → Option Bool
  | [] => some true
  | none :: _ => none
  | some false :: _ => some false
  | some true :: rest => allM rest

def anyM : List (Option Bool) → Option Bool
  | [] => some false
  | none :: _ => none
  | some true :: _ => some true
  | some false :: rest => anyM rest

/-- `Coins.DenomsSubsetOf` -/
def denomsSubsetOf (a b : Coins) : Option Bool :=
  if a.length > b.length then some false
  else allM (a.map fun c => (amountOf b c.1).map fun x => x != 0)

/-- `Coins.IsAllGT` -/
def isAllGT (a b : Coins) : Option Bool :=
  if a.length == 0 then some false
  else if b.length == 0 then some true
  else match denomsSubsetOf b a with
    | none => none
    | some false => some false
    | some true => allM (b.map fun c => (amountOf a c.1).map fun x => decide (x > c.2))

/-- `Coins.IsAllGTE` -/
def isAllGTE (a b : Coins) : Option Bool :=
  if b.length == 0 then some true
  else if a.length == 0 then some false
  else allM (b.map fun c => (amountOf a c.1).map fun x => !decide (c.2 > x))

def isAllLT (a b : Coins) : Option Bool := isAllGT b a
def isAllLTE (a b : Coins) : Option Bool := isAllGTE b a

/-- `Coins.IsAnyGT` -/
def isAnyGT (a b : Coins) : Option Bool :=
  if b.length == 0 then some false
  else anyM (a.map fun c => (amountOf b c.1).map fun amt => decide (c.2 > amt) && amt != 0)

/-- `Coins.IsAnyGTE` -/
def isAnyGTE (a b : Coins) : Option Bool :=
  if b.length == 0 then some false
  else anyM (a.map fun c => (amountOf b c.1).map fun amt => decide (c.2 ≥ amt) && amt != 0)

/-- `Coins.IsZero` -/
def isZero (cs : Coins) : Bool := cs.all fun c => c.2 == 0

/-- insertion into a list sorted by denomination (the model's stand-in for `sort.Sort`; on lists
with distinct denominations every sorting algorithm gives the same result) -/
def insertCoin (c : Coin) : Coins → Coins
  | [] => [c]
  | x :: rest => if c.1 < x.1 then c :: x :: rest else x :: insertCoin c rest

def sortCoins : Coins → Coins
  | [] => []
  | c :: rest => insertCoin c (sortCoins rest)

/-- `findDup` on a sorted list: two neighbours with the same denomination -/
def hasDup : Coins → Bool
  | a :: b :: rest => a.1 == b.1 || hasDup (b :: rest)
  | _ => false

/-- `NewCoins` -/
def newCoins (cs : Coins) : Option Coins :=
  let nz := removeZero cs
  if nz.isEmpty then some []
  else
    let s := sortCoins nz
    if hasDup s then none else if !isValid s then none else some s

/-- `Coins.IsEqual`: equal lengths, both sorted, then coin by coin - and `Coin.IsEqual` panics when the
denominations at a position differ -/
def isEqual (a b : Coins) : Option Bool :=
  if a.length != b.length then some false
  else allM ((sortCoins a).zip (sortCoins b) |>.map fun p => if p.1.1 != p.2.1 then none else some (p.1.2 == p.2.2))

end Posmint.Coins
