import Posmint.Generated
/-!
Model of `types/int.go`, `types/uint.go`, `types/decimal.go`.

A Go panic is `none`.  All arithmetic is on unbounded `Int`; the range checks are
the code's own `BitLen` tests.
-/
namespace Posmint.Arith
open Posmint

/-- `big.Int.BitLen` of the absolute value. -/
def bitLen (n : Nat) : Nat := if n = 0 then 0 else n.log2 + 1

abbrev maxBitLen : Nat := Generated.maxBitLen
abbrev decBits : Nat := Generated.maxBitLen + Generated.decimalPrecisionBits
/-- `precisionReuse` = 10^Precision -/
def P : Int := (10 : Int) ^ Generated.precision
/-- `fivePrecision` = precisionReuse / 2 -/
def half : Int := P / 2

/-! ### Int (`types/int.go`) -/

def intOfBig (i : Int) : Option Int := if bitLen i.natAbs > maxBitLen then none else some i

def intAdd (a b : Int) : Option Int :=
  let r := a + b
  if bitLen r.natAbs > maxBitLen then none else some r

def intSub (a b : Int) : Option Int :=
  let r := a - b
  if bitLen r.natAbs > maxBitLen then none else some r

def intMul (a b : Int) : Option Int :=
  if bitLen a.natAbs + bitLen b.natAbs - 1 > maxBitLen then none
  else
    let r := a * b
    if bitLen r.natAbs > maxBitLen then none else some r

/-- `big.Int.Quo` is truncated division. -/
def intQuo (a b : Int) : Option Int := if b = 0 then none else some (Int.tdiv a b)

/-- `big.Int.Mod` is Euclidean modulus. -/
def intMod (a b : Int) : Option Int := if b = 0 then none else some (Int.emod a b)

def intNeg (a : Int) : Int := -a

def isInt64 (a : Int) : Bool := decide (-(2:Int)^63 ≤ a) && decide (a < (2:Int)^63)
def intInt64 (a : Int) : Option Int := if isInt64 a then some a else none

/-! ### Uint (`types/uint.go`) -/

def uintCheck (i : Int) : Option Int :=
  if i < 0 then none else if bitLen i.natAbs > 256 then none else some i

def uintAdd (a b : Int) : Option Int := uintCheck (a + b)
def uintSub (a b : Int) : Option Int := uintCheck (a - b)
def uintMul (a b : Int) : Option Int := uintCheck (a * b)
def uintQuo (a b : Int) : Option Int := if b = 0 then none else uintCheck (Int.tdiv a b)

/-! ### Dec (`types/decimal.go`): the raw integer, scaled by 10^18 -/

/-- `chopPrecisionAndRound` on a non-negative argument. -/
def chopRoundNonneg (d : Int) : Int :=
  let q := d / P
  let r := d % P
  if r = 0 then q
  else if r < half then q
  else if r > half then q + 1
  else if q % 2 = 0 then q else q + 1

def chopRound (d : Int) : Int :=
  if d < 0 then - chopRoundNonneg (-d) else chopRoundNonneg d

/-- `chopPrecisionAndTruncate`: `big.Int.Quo`. -/
def chopTrunc (d : Int) : Int := Int.tdiv d P

/-- `chopPrecisionAndRoundUp`. -/
def chopRoundUp (d : Int) : Int :=
  if d < 0 then - chopTrunc (-d)
  else
    let q := d / P
    let r := d % P
    if r = 0 then q else q + 1

def decCheck (c : Int) : Option Int := if bitLen c.natAbs > decBits then none else some c

def decAdd (a b : Int) : Option Int := decCheck (a + b)
def decSub (a b : Int) : Option Int := decCheck (a - b)
def decMul (a b : Int) : Option Int := decCheck (chopRound (a * b))
def decMulTruncate (a b : Int) : Option Int := decCheck (chopTrunc (a * b))
def decMulInt (a i : Int) : Option Int := decCheck (a * i)
def decQuo (a b : Int) : Option Int :=
  if b = 0 then none else decCheck (chopRound (Int.tdiv (a * P * P) b))
def decQuoTruncate (a b : Int) : Option Int :=
  if b = 0 then none else decCheck (chopTrunc (Int.tdiv (a * P * P) b))
def decQuoRoundUp (a b : Int) : Option Int :=
  if b = 0 then none else decCheck (chopRoundUp (Int.tdiv (a * P * P) b))
def decQuoInt (a i : Int) : Option Int := if i = 0 then none else some (Int.tdiv a i)

def decRoundInt (a : Int) : Option Int := intOfBig (chopRound a)
def decTruncateInt (a : Int) : Option Int := intOfBig (chopTrunc a)
def decRoundInt64 (a : Int) : Option Int := intInt64 (chopRound a)
def decTruncateInt64 (a : Int) : Option Int := intInt64 (chopTrunc a)
/-- `TruncateDec` goes through `NewDecFromBigInt` which does not range-check. -/
def decTruncateDec (a : Int) : Int := chopTrunc a * P
def decCeil (a : Int) : Int :=
  let q := Int.tdiv a P
  let r := Int.tmod a P
  if r = 0 then q * P
  else if r < 0 then q * P
  else (q + 1) * P
def decIsInteger (a : Int) : Bool := Int.tmod a P = 0
/-- `NewDecFromInt`: no range check. -/
def decFromInt (i : Int) : Int := i * P

end Posmint.Arith
