import Posmint.Model.KV
/-!
Iterators through the top zone (gas / trace / prefix layers above all cache layers), where
laziness is observable (gas is charged per step, trace records are written per call), and the
program state driven by the line protocol.
-/
namespace Posmint.KV

inductive ZLayer where
  | gas
  | trace
  | pfx (pre : Bytes) (valid : Bool)
  deriving Repr

structure Iter where
  rem : Items
  zone : List ZLayer      -- top first
  deriving Repr

def zValid : List ZLayer → Items → Bool
  | [], rem => !rem.isEmpty
  | .gas :: z, rem => zValid z rem
  | .trace :: z, rem => zValid z rem
  | .pfx _ v :: z, rem => v && zValid z rem

def zKey : List ZLayer → Items → Env → M (Bytes × Env)
  | [], rem, e => match rem with | [] => .error (.invalidIterator, e) | (k, _) :: _ => .ok (k, e)
  | .gas :: z, rem, e => zKey z rem e
  | .trace :: z, rem, e => do
    let (k, e') ← zKey z rem e
    .ok (k, emit e' .iterKey k [])
  | .pfx pre v :: z, rem, e =>
    if !v then .error (.invalidIterator, e) else do
      let (k, e') ← zKey z rem e
      .ok (k.drop pre.length, e')

def zValue : List ZLayer → Items → Env → M (Bytes × Env)
  | [], rem, e => match rem with | [] => .error (.invalidIterator, e) | (_, v) :: _ => .ok (v, e)
  | .gas :: z, rem, e => zValue z rem e
  | .trace :: z, rem, e => do
    let (v, e') ← zValue z rem e
    .ok (v, emit e' .iterValue [] v)
  | .pfx _ v :: z, rem, e =>
    if !v then .error (.invalidIterator, e) else zValue z rem e

/-- `gasIterator.consumeSeekGas` -/
def seekGas (z : List ZLayer) (rem : Items) (e : Env) : M Env := do
  let (v, e1) ← zValue z rem e
  let e2 ← consume e1 (e.cfg.readCostPerByte * v.length)
  consume e2 e.cfg.iterNextCostFlat

def zNext : List ZLayer → Items → Env → M (List ZLayer × Items × Env)
  | [], rem, e => match rem with | [] => .error (.invalidIterator, e) | _ :: t => .ok ([], t, e)
  | .gas :: z, rem, e => do
    let e1 ← if zValid z rem then seekGas z rem e else .ok e
    let (z', rem', e2) ← zNext z rem e1
    .ok (.gas :: z', rem', e2)
  | .trace :: z, rem, e => do
    let (z', rem', e') ← zNext z rem e
    .ok (.trace :: z', rem', e')
  | .pfx pre v :: z, rem, e =>
    if !v then .error (.invalidIterator, e) else do
      let (z', rem', e1) ← zNext z rem e
      if !zValid z' rem' then .ok (.pfx pre false :: z', rem', e1)
      else do
        let (k, e2) ← zKey z' rem' e1
        .ok (.pfx pre (hasPrefix k pre) :: z', rem', e2)

/-- Peel the top zone off a store: (zone top-first without validity, lower store). -/
def splitZone : Store → List ZLayer × Store
  | .gas p => let (z, l) := splitZone p; (.gas :: z, l)
  | .trace p => let (z, l) := splitZone p; (.trace :: z, l)
  | .pfx pre p => let (z, l) := splitZone p; (.pfx pre true :: z, l)
  | s => ([], s)

def joinZone : List ZLayer → Store → Store
  | [], l => l
  | .gas :: z, l => .gas (joinZone z l)
  | .trace :: z, l => .trace (joinZone z l)
  | .pfx pre _ :: z, l => .pfx pre (joinZone z l)

/-- Open an iterator through the zone. Returns the zone with validity flags, the remaining items
and the (possibly mutated: `dirtyItems`) lower store. -/
def zOpen : List ZLayer → Store → Bytes → Option Bytes → Bool → Env →
    M (List ZLayer × Items × Store × Env)
  | [], l, a, b, asc, e =>
    match l.items a b asc with
    | none => .error (.unsupported, e)
    | some (it, l') => .ok ([], it, l', e)
  | .gas :: z, l, a, b, asc, e => do
    let (z', rem, l', e1) ← zOpen z l a b asc e
    let e2 ← if zValid z' rem then seekGas z' rem e1 else .ok e1
    .ok (.gas :: z', rem, l', e2)
  | .trace :: z, l, a, b, asc, e => do
    let (z', rem, l', e1) ← zOpen z l a b asc e
    .ok (.trace :: z', rem, l', e1)
  | .pfx pre _ :: z, l, a, b, asc, e => do
    let stop := match b with | none => prefixEnd pre | some x => some (pre ++ x)
    let (z', rem, l', e1) ← zOpen z l (pre ++ a) stop asc e
    if !zValid z' rem then .ok (.pfx pre false :: z', rem, l', e1)
    else do
      let (k, e2) ← zKey z' rem e1
      .ok (.pfx pre (hasPrefix k pre) :: z', rem, l', e2)

/-- `for ; it.Valid(); it.Next() { it.Key(); it.Value() }` -/
def zDrain : Nat → List ZLayer → Items → Env → Items → M (Items × Env)
  | 0, _, _, e, acc => .ok (acc.reverse, e)
  | fuel + 1, z, rem, e, acc =>
    if !zValid z rem then .ok (acc.reverse, e) else do
      let (k, e1) ← zKey z rem e
      let (v, e2) ← zValue z rem e1
      let (z', rem', e3) ← zNext z rem e2
      zDrain fuel z' rem' e3 ((k, v) :: acc)

structure Prog where
  store : Store
  env : Env
  iters : List (Nat × Iter)

/-- run `f` on the store `n` layers below the top (a sibling writing to a shared parent) -/
def Store.under (s : Store) (n : Nat) (f : Store → Env → M (Store × Env)) (e : Env) : M (Store × Env) :=
  match n, s with
  | 0, s => f s e
  | _ + 1, .mem m => f (.mem m) e
  | n + 1, .cache c p => do let (p', e') ← p.under n f e; .ok (.cache c p', e')
  | n + 1, .pfx pre p => do let (p', e') ← p.under n f e; .ok (.pfx pre p', e')
  | n + 1, .gas p => do let (p', e') ← p.under n f e; .ok (.gas p', e')
  | n + 1, .trace p => do let (p', e') ← p.under n f e; .ok (.trace p', e')

def Store.base : Store → Items
  | .mem m => m
  | .cache _ p => p.base
  | .pfx _ p => p.base
  | .gas p => p.base
  | .trace p => p.base

def Store.pop : Store → Option Store
  | .mem _ => none
  | .cache _ p => some p
  | .pfx _ p => some p
  | .gas p => some p
  | .trace p => some p

end Posmint.KV
