import Posmint.Model.Coins
/-!
Model of the `DecCoins` part of `types/dec_coin.go`.

A decimal coin is a (denomination, amount) pair whose amount is the raw integer of a `Dec` (scaled by
10^18, `Posmint.Arith`); a set is a list of them.  A Go panic is `none`.  The functions follow the code
statement by statement: `safeAdd` is the merge loop with `Dec.Add` (315-bit range check) where `Coins.safeAdd`
has `Int.Add` (255 bits); `MulDec` / `QuoDec` / `TruncateDecimal` accumulate their result through `Add` of
one-coin sets, coin by coin, exactly as the loops do (so unsorted or repeated denominations behave as in Go).
-/
namespace Posmint.DecCoins
open Posmint.Arith Posmint.Coins

abbrev DecCoins := Coins

/-- `DecCoins.safeAdd` -/
def safeAdd : DecCoins → DecCoins → Option DecCoins
  | [], b => some (removeZero b)
  | a :: ra, [] => some (removeZero (a :: ra))
  | a :: ra, b :: rb =>
    if a.1 < b.1 then (safeAdd ra (b :: rb)).map fun r => if a.2 == 0 then r else a :: r
    else if a.1 == b.1 then
      match decAdd a.2 b.2 with
      | none => none
      | some s => (safeAdd ra rb).map fun r => if s == 0 then r else (a.1, s) :: r
    else (safeAdd (a :: ra) rb).map fun r => if b.2 == 0 then r else b :: r
termination_by a b => a.length + b.length

/-- `DecCoins.Add` -/
def add (a b : DecCoins) : Option DecCoins := safeAdd a b

/-- `DecCoins.SafeSub` (`Dec.Neg` has no range check) -/
def safeSub (a b : DecCoins) : Option (DecCoins × Bool) :=
  (safeAdd a (negative b)).map fun d => (d, isAnyNegative d)

/-- `DecCoins.Sub` -/
def sub (a b : DecCoins) : Option DecCoins :=
  match safeSub a b with
  | some (d, false) => some d
  | _ => none

/-- `DecCoins.AmountOf`: the same denomination check and binary search as `Coins.AmountOf` -/
def amountOf (cs : DecCoins) (d : String) : Option Int := Coins.amountOf cs d

/-- `MinDec` -/
def minDec (x y : Int) : Int := if x < y then x else y

/-- the loop of `DecCoins.Intersect`: coin by coin the smaller of the coin's amount and `coinsB.AmountOf(denom)` -/
def intersectRaw : DecCoins → DecCoins → Option DecCoins
  | [], _ => some []
  | c :: rest, b =>
    match amountOf b c.1 with
    | none => none
    | some x => (intersectRaw rest b).map fun l => (c.1, minDec c.2 x) :: l

/-- `DecCoins.Intersect` -/
def intersect (a b : DecCoins) : Option DecCoins := (intersectRaw a b).map removeZero

/-- the loop shared by `MulDec`, `MulDecTruncate`, `QuoDec`, `QuoDecTruncate`: every amount goes through `f`,
non-zero results are added to the running result as one-coin sets -/
def scaleFrom (f : Int → Option Int) : DecCoins → DecCoins → Option DecCoins
  | res, [] => some res
  | res, c :: rest =>
    match f c.2 with
    | none => none
    | some p =>
      if p == 0 then scaleFrom f res rest
      else match safeAdd res [(c.1, p)] with
        | none => none
        | some res' => scaleFrom f res' rest

def scale (f : Int → Option Int) (cs : DecCoins) : Option DecCoins := scaleFrom f [] cs

def mulDec (cs : DecCoins) (d : Int) : Option DecCoins := scale (fun x => decMul x d) cs
def mulDecTruncate (cs : DecCoins) (d : Int) : Option DecCoins := scale (fun x => decMulTruncate x d) cs
def quoDec (cs : DecCoins) (d : Int) : Option DecCoins := if d = 0 then none else scale (fun x => decQuo x d) cs
def quoDecTruncate (cs : DecCoins) (d : Int) : Option DecCoins :=
  if d = 0 then none else scale (fun x => decQuoTruncate x d) cs

/-- `DecCoin.TruncateDecimal`: the whole part (an `Int`, through `NewCoin`) and the change (through
`NewDecCoinFromDec`); both constructors check the denomination and refuse a negative amount -/
def truncOne (c : Coin) : Option (Coin × Coin) :=
  match decTruncateInt c.2 with
  | none => none
  | some t =>
    match decSub c.2 (decFromInt t) with
    | none => none
    | some ch =>
      if !denomOK c.1 then none
      else if t < 0 then none
      else if ch < 0 then none
      else some ((c.1, t), (c.1, ch))

/-- `DecCoins.TruncateDecimal`: whole parts accumulated with `Coins.Add`, change with `DecCoins.Add` -/
def truncFrom : Coins → DecCoins → DecCoins → Option (Coins × DecCoins)
  | w, ch, [] => some (w, ch)
  | w, ch, c :: rest =>
    match truncOne c with
    | none => none
    | some (t, r) =>
      match (if t.2 == 0 then some w else Coins.safeAdd w [t]) with
      | none => none
      | some w' =>
        match (if r.2 == 0 then some ch else safeAdd ch [r]) with
        | none => none
        | some ch' => truncFrom w' ch' rest

def truncateDecimal (cs : DecCoins) : Option (Coins × DecCoins) := truncFrom [] [] cs

end Posmint.DecCoins
