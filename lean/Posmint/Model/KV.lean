/-!
Model of the store wrappers: `store/cachekv` (store, memiterator, mergeiterator),
`store/prefix`, `store/gaskv`, `store/tracekv`, `store/types/gas.go`, `PrefixEndBytes`,
over a base store that behaves like a sorted map (tm-db MemDB through `dbadapter`, or IAVL).

Keys and values are byte lists.  A Go panic is `Except.error`.
-/
namespace Posmint.KV

abbrev Bytes := List Nat

/-- `bytes.Compare a b < 0` -/
def blt : Bytes → Bytes → Bool
  | [], [] => false
  | [], _ :: _ => true
  | _ :: _, [] => false
  | a :: as, b :: bs => a < b || (a == b && blt as bs)

def ble (a b : Bytes) : Bool := !blt b a

/-- `bytes.HasPrefix k p` -/
def hasPrefix : Bytes → Bytes → Bool
  | _, [] => true
  | [], _ :: _ => false
  | a :: as, b :: bs => a == b && hasPrefix as bs

/-- `types.PrefixEndBytes`: `none` is Go's nil (no upper bound). -/
def prefixEnd (p : Bytes) : Option Bytes :=
  match p.reverse.dropWhile (· == 255) with
  | [] => none
  | x :: rest => some (((x + 1) :: rest).reverse)

/-- `dbm.IsKeyInDomain`; a nil start is the empty key, a nil end is `none`. -/
def inDomain (k start : Bytes) (stop : Option Bytes) : Bool :=
  ble start k && (match stop with | none => true | some e => blt k e)

/-! ### Base store: a strictly sorted association list -/

abbrev Items := List (Bytes × Bytes)

def kvGet : Items → Bytes → Option Bytes
  | [], _ => none
  | (k, v) :: rest, q => if k == q then some v else kvGet rest q

def kvSet : Items → Bytes → Bytes → Items
  | [], k, v => [(k, v)]
  | (k', v') :: rest, k, v =>
    if blt k k' then (k, v) :: (k', v') :: rest
    else if k == k' then (k, v) :: rest
    else (k', v') :: kvSet rest k v

def kvDel : Items → Bytes → Items
  | [], _ => []
  | (k', v') :: rest, k => if k == k' then rest else (k', v') :: kvDel rest k

/-- Items of an iterator over `[start, stop)`, in iteration order. -/
def kvRange (m : Items) (start : Bytes) (stop : Option Bytes) (asc : Bool) : Items :=
  let l := m.filter (fun kv => inDomain kv.1 start stop)
  if asc then l else l.reverse

/-! ### Gas meter and trace log -/

inductive Panic where
  | outOfGas | gasOverflow | invalidIterator | nilKey | unsupported
  deriving Repr, DecidableEq

inductive TraceOp where
  | write | read | delete | iterKey | iterValue
  deriving Repr, DecidableEq

structure TraceRec where
  op : TraceOp
  key : Bytes
  value : Bytes
  deriving Repr, DecidableEq

structure GasConfig where
  hasCost : Nat
  deleteCost : Nat
  readCostFlat : Nat
  readCostPerByte : Nat
  writeCostFlat : Nat
  writeCostPerByte : Nat
  iterNextCostFlat : Nat

structure Env where
  consumed : Nat
  limit : Nat
  cfg : GasConfig
  trace : List TraceRec      -- newest first

def maxUint64 : Nat := 2 ^ 64 - 1

/-- `basicGasMeter.ConsumeGas`: on overflow the counter is reset to 0 before the panic. -/
def consume (e : Env) (amount : Nat) : Except (Panic × Env) Env :=
  if maxUint64 - e.consumed < amount then .error (.gasOverflow, { e with consumed := 0 })
  else
    let e' := { e with consumed := e.consumed + amount }
    if e'.consumed > e'.limit then .error (.outOfGas, e') else .ok e'

def emit (e : Env) (op : TraceOp) (k v : Bytes) : Env := { e with trace := ⟨op, k, v⟩ :: e.trace }

/-! ### cachekv -/

structure CVal where
  value : Option Bytes
  deleted : Bool
  dirty : Bool
  deriving Repr, DecidableEq

structure CacheData where
  cache : List (Bytes × CVal)            -- Go map: at most one entry per key
  unsorted : List Bytes                  -- Go map used as a set
  sorted : List (Bytes × Option Bytes)   -- container/list, ascending
  deriving Repr

def CacheData.empty : CacheData := ⟨[], [], []⟩

def cacheLookup : List (Bytes × CVal) → Bytes → Option CVal
  | [], _ => none
  | (k, c) :: rest, q => if k == q then some c else cacheLookup rest q

def cacheStore (l : List (Bytes × CVal)) (k : Bytes) (c : CVal) : List (Bytes × CVal) :=
  (k, c) :: l.filter (fun e => !(e.1 == k))

/-- `setCacheValue` -/
def setCacheValue (c : CacheData) (k : Bytes) (v : Option Bytes) (deleted dirty : Bool) : CacheData :=
  { c with
    cache := cacheStore c.cache k ⟨v, deleted, dirty⟩
    unsorted := if dirty then (if c.unsorted.contains k then c.unsorted else k :: c.unsorted) else c.unsorted }

/-- insertion into a key-sorted list (used for `sort.Slice` / `sort.Strings`) -/
def insertSorted {α : Type} (k : Bytes) (a : α) : List (Bytes × α) → List (Bytes × α)
  | [] => [(k, a)]
  | (k', a') :: rest => if blt k' k then (k', a') :: insertSorted k a rest else (k, a) :: (k', a') :: rest

def sortByKey {α : Type} (l : List (Bytes × α)) : List (Bytes × α) :=
  l.foldr (fun e acc => insertSorted e.1 e.2 acc) []

/-- the merge loop of `dirtyItems`: `u` (sorted, new) into `s` (sorted, old); equal keys are replaced -/
def mergeDirty : List (Bytes × Option Bytes) → List (Bytes × Option Bytes) → List (Bytes × Option Bytes)
  | [], s => s
  | u, [] => u
  | (uk, uv) :: us, (sk, sv) :: ss =>
    if blt uk sk then (uk, uv) :: mergeDirty us ((sk, sv) :: ss)
    else if blt sk uk then (sk, sv) :: mergeDirty ((uk, uv) :: us) ss
    else (uk, uv) :: mergeDirty us ss
termination_by u s => u.length + s.length

/-- `dirtyItems(start, end)` -/
def dirtyItems (c : CacheData) (start : Bytes) (stop : Option Bytes) : CacheData :=
  let moved := c.unsorted.filter (fun k => inDomain k start stop)
  let unsortedItems := sortByKey (moved.map fun k =>
    (k, match cacheLookup c.cache k with | some cv => cv.value | none => none))
  { c with
    unsorted := c.unsorted.filter (fun k => !inDomain k start stop)
    sorted := mergeDirty unsortedItems c.sorted }

/-- `newMemIterator`: the in-domain run of the sorted list (with the early `break`), in iteration order -/
def memItems (sorted : List (Bytes × Option Bytes)) (start : Bytes) (stop : Option Bytes) (asc : Bool) :
    List (Bytes × Option Bytes) :=
  let run := (sorted.dropWhile (fun e => !inDomain e.1 start stop)).takeWhile (fun e => inDomain e.1 start stop)
  if asc then run else run.reverse

/-- `cacheMergeIterator.compare` -/
def cmpLt (asc : Bool) (a b : Bytes) : Bool := if asc then blt a b else blt b a

/-- `until == nil || compare(key, until) < 0` -/
def beforeUntil (asc : Bool) (k : Bytes) : Option Bytes → Bool
  | none => true
  | some u => cmpLt asc k u

/-- `skipCacheDeletes(until)` -/
def skipCacheDeletes (asc : Bool) (until_ : Option Bytes) :
    List (Bytes × Option Bytes) → List (Bytes × Option Bytes)
  | [] => []
  | (k, v) :: rest =>
    if v.isNone && beforeUntil asc k until_ then
      skipCacheDeletes asc until_ rest
    else (k, v) :: rest

theorem skipCacheDeletes_length_le (asc : Bool) (u : Option Bytes) (l : List (Bytes × Option Bytes)) :
    (skipCacheDeletes asc u l).length ≤ l.length := by
  induction l with
  | nil => simp [skipCacheDeletes]
  | cons h t ih =>
    obtain ⟨k, v⟩ := h
    unfold skipCacheDeletes
    by_cases hc : (v.isNone && beforeUntil asc k u) = true
    · rw [if_pos hc]; exact Nat.le_trans ih (Nat.le_succ _)
    · rw [if_neg hc]; exact Nat.le_refl _

/-- `skipUntilExistsOrInvalid`: returns the advanced (parent, cache) pair; valid iff
the parent is non-empty or the cache is non-empty afterwards. -/
def skipUntil (asc : Bool) : Items → List (Bytes × Option Bytes) → Items × List (Bytes × Option Bytes)
  | [], c => ([], skipCacheDeletes asc none c)
  | p, [] => (p, [])
  | (pk, pv) :: ps, (ck, cv) :: cs =>
    if cmpLt asc pk ck then ((pk, pv) :: ps, (ck, cv) :: cs)
    else if pk == ck then
      match cv with
      | none => skipUntil asc ps cs
      | some _ => ((pk, pv) :: ps, (ck, cv) :: cs)
    else
      match cv with
      | none => skipUntil asc ((pk, pv) :: ps) (skipCacheDeletes asc (some pk) cs)
      | some _ => ((pk, pv) :: ps, (ck, cv) :: cs)
termination_by p c => p.length + c.length
decreasing_by
  all_goals simp_wf
  · omega
  · have := skipCacheDeletes_length_le asc (some pk) cs; omega

/-- the current (key, value) of a valid merge iterator, after `skipUntil` -/
def mergeCur (asc : Bool) : Items → List (Bytes × Option Bytes) → Option (Bytes × Bytes)
  | [], [] => none
  | [], (ck, cv) :: _ => some (ck, cv.getD [])
  | (pk, pv) :: _, [] => some (pk, pv)
  | (pk, pv) :: _, (ck, cv) :: _ =>
    if cmpLt asc pk ck then some (pk, pv)
    else if pk == ck then some (pk, cv.getD [])
    else some (ck, cv.getD [])

/-- `Next` after `skipUntil` on a valid iterator -/
def mergeNext (asc : Bool) : Items → List (Bytes × Option Bytes) → Items × List (Bytes × Option Bytes)
  | [], c => ([], c.tail)
  | p, [] => (p.tail, [])
  | (pk, pv) :: ps, (ck, cv) :: cs =>
    if cmpLt asc pk ck then (ps, (ck, cv) :: cs)
    else if pk == ck then (ps, cs)
    else ((pk, pv) :: ps, cs)

/-- Drain the merge iterator: `for ; it.Valid(); it.Next() { yield it.Key(), it.Value() }`. -/
def mergeDrain (asc : Bool) (fuel : Nat) (p : Items) (c : List (Bytes × Option Bytes)) : Items :=
  match fuel with
  | 0 => []
  | fuel + 1 =>
    let (p', c') := skipUntil asc p c
    match mergeCur asc p' c' with
    | none => []
    | some kv =>
      let (p'', c'') := mergeNext asc p' c'
      kv :: mergeDrain asc fuel p'' c''

/-! ### The store stack -/

inductive Store where
  | mem (m : Items)
  | cache (c : CacheData) (parent : Store)
  | pfx (pre : Bytes) (parent : Store)
  | gas (parent : Store)
  | trace (parent : Store)
  deriving Repr

abbrev M (α : Type) := Except (Panic × Env) α

def Store.get : Store → Bytes → Env → M (Option Bytes × Store × Env)
  | .mem m, k, e => .ok (kvGet m k, .mem m, e)
  | .cache c p, k, e =>
    match cacheLookup c.cache k with
    | some cv => .ok (cv.value, .cache c p, e)
    | none => do
      let (v, p', e') ← p.get k e
      .ok (v, .cache (setCacheValue c k v false false) p', e')
  | .pfx pre p, k, e => do
    let (v, p', e') ← p.get (pre ++ k) e
    .ok (v, .pfx pre p', e')
  | .gas p, k, e => do
    let e1 ← consume e e.cfg.readCostFlat
    let (v, p', e2) ← p.get k e1
    let e3 ← consume e2 (e.cfg.readCostPerByte * (v.getD []).length)
    .ok (v, .gas p', e3)
  | .trace p, k, e => do
    let (v, p', e') ← p.get k e
    .ok (v, .trace p', emit e' .read k (v.getD []))

def Store.has : Store → Bytes → Env → M (Bool × Store × Env)
  | .mem m, k, e => .ok ((kvGet m k).isSome, .mem m, e)
  | .cache c p, k, e => do
    let (v, s', e') ← (Store.cache c p).get k e
    .ok (v.isSome, s', e')
  | .pfx pre p, k, e => do
    let (b, p', e') ← p.has (pre ++ k) e
    .ok (b, .pfx pre p', e')
  | .gas p, k, e => do
    let e1 ← consume e e.cfg.hasCost
    let (b, p', e2) ← p.has k e1
    .ok (b, .gas p', e2)
  | .trace p, k, e => do
    let (b, p', e') ← p.has k e
    .ok (b, .trace p', e')

def Store.set : Store → Bytes → Bytes → Env → M (Store × Env)
  | .mem m, k, v, e => .ok (.mem (kvSet m k v), e)
  | .cache c p, k, v, e => .ok (.cache (setCacheValue c k (some v) false true) p, e)
  | .pfx pre p, k, v, e => do
    let (p', e') ← p.set (pre ++ k) v e
    .ok (.pfx pre p', e')
  | .gas p, k, v, e => do
    let e1 ← consume e e.cfg.writeCostFlat
    let e2 ← consume e1 (e.cfg.writeCostPerByte * v.length)
    let (p', e3) ← p.set k v e2
    .ok (.gas p', e3)
  | .trace p, k, v, e => do
    let (p', e') ← p.set k v (emit e .write k v)
    .ok (.trace p', e')

def Store.delete : Store → Bytes → Env → M (Store × Env)
  | .mem m, k, e => .ok (.mem (kvDel m k), e)
  | .cache c p, k, e => .ok (.cache (setCacheValue c k none true true) p, e)
  | .pfx pre p, k, e => do
    let (p', e') ← p.delete (pre ++ k) e
    .ok (.pfx pre p', e')
  | .gas p, k, e => do
    let e1 ← consume e e.cfg.deleteCost
    let (p', e2) ← p.delete k e1
    .ok (.gas p', e2)
  | .trace p, k, e => do
    let (p', e') ← p.delete k (emit e .delete k [])
    .ok (.trace p', e')

/-- apply the sorted dirty entries of `Write()` to the parent -/
def applyDirty : List (Bytes × CVal) → Store → Env → M (Store × Env)
  | [], p, e => .ok (p, e)
  | (k, cv) :: rest, p, e =>
    if cv.deleted then do
      let (p', e') ← p.delete k e
      applyDirty rest p' e'
    else match cv.value with
      | none => applyDirty rest p e
      | some v => do
        let (p', e') ← p.set k v e
        applyDirty rest p' e'

/-- `cachekv.Store.Write` on the top layer (which must be a cache) -/
def Store.write : Store → Env → M (Store × Env)
  | .cache c p, e => do
    let dirty := sortByKey (c.cache.filter (fun kc => kc.2.dirty))
    let (p', e') ← applyDirty dirty p e
    .ok (.cache CacheData.empty p', e')
  | _, e => .error (.unsupported, e)

/-- Eager iterator contents for the lower zone (mem / cache / prefix layers). The cache layer
runs the code's merge iterator; `dirtyItems` mutates the cache, so the store is returned too. -/
def Store.items : Store → Bytes → Option Bytes → Bool → Option (Items × Store)
  | .mem m, a, b, asc => some (kvRange m a b asc, .mem m)
  | .cache c p, a, b, asc =>
    match p.items a b asc with
    | none => none
    | some (pit, p') =>
      let c' := dirtyItems c a b
      let cit := memItems c'.sorted a b asc
      some (mergeDrain asc (pit.length + cit.length + 1) pit cit, .cache c' p')
  | .pfx pre p, a, b, asc =>
    let stop := match b with | none => prefixEnd pre | some e => some (pre ++ e)
    match p.items (pre ++ a) stop asc with
    | none => none
    | some (pit, p') =>
      -- prefixIterator: valid while the parent's key has the prefix
      some ((pit.takeWhile (fun kv => hasPrefix kv.1 pre)).map (fun kv => (kv.1.drop pre.length, kv.2)), .pfx pre p')
  | .gas _, _, _, _ => none
  | .trace _, _, _, _ => none

end Posmint.KV
