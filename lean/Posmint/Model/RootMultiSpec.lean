import Posmint.Model.RootMulti
/-!
Specification-side definitions for the multistore model: operation histories and what they
commit, the batch-level view of `Commit` (for crash points), and the multistore proof operator
over an abstract hash.
-/
namespace Posmint.RM
open Posmint.KV

/-! ### histories -/

inductive Op where
  | set (i : Nat) (k v : Bytes)
  | del (i : Nat) (k : Bytes)
  | tset (k v : Bytes)
  | tdel (k : Bytes)
  | commit
  deriving Repr

def RM.apply (m : RM) : Op → RM
  | .set i k v => { m with subs := m.subs.modify i (fun s => { s with working := kvSet s.working k v }) }
  | .del i k => { m with subs := m.subs.modify i (fun s => { s with working := kvDel s.working k }) }
  | .tset k v => { m with trans := kvSet m.trans k v }
  | .tdel k => { m with trans := kvDel m.trans k }
  | .commit => m.commit

def RM.run (m : RM) (ops : List Op) : RM := ops.foldl RM.apply m

def fresh (kr ke n : Nat) : RM :=
  { kr := kr, ke := ke, subs := List.replicate n { working := [], saved := [] }, trans := [], latest := 0, infos := [] }

def countCommits : List Op → Nat
  | [] => 0
  | .commit :: rest => countCommits rest + 1
  | _ :: rest => countCommits rest

/-- the working contents of all substores at the moment of the `v`-th commit of a history
(`none` if the history has fewer commits) -/
def committedAt (m : RM) : List Op → Nat → Option (List Items)
  | [], _ => none
  | .commit :: rest, v => if v == 1 then some (m.subs.map (·.working)) else committedAt m.commit rest (v - 1)
  | op :: rest, v => committedAt (m.apply op) rest v

/-- the pruning policy's closed form: after `L` commits version `v` is retained -/
def retained (kr ke L v : Nat) : Prop := 1 ≤ v ∧ v ≤ L ∧ (v = L ∨ L ≤ v + kr ∨ (ke ≠ 0 ∧ v % ke = 0))

instance (kr ke L v : Nat) : Decidable (retained kr ke L v) := by unfold retained; infer_instance

/-- consistency of a multistore: every substore holds the latest committed version, versions are
unique per substore, and commit infos exist exactly for 1..latest -/
structure Consistent (m : RM) : Prop where
  hasLatest : m.latest ≥ 1 → ∀ s ∈ m.subs, (savedAt s m.latest).isSome
  noFuture : ∀ s ∈ m.subs, ∀ e ∈ s.saved, 1 ≤ e.1 ∧ e.1 ≤ m.latest
  uniqueVersions : ∀ s ∈ m.subs, (s.saved.map (·.1)).Nodup
  infos : ∀ v, v ∈ m.infos ↔ (1 ≤ v ∧ v ≤ m.latest)

/-! ### batch-level commit (crash points) -/

inductive Batch where
  | save (i : Nat) (v : Nat) (c : Items)
  | prune (i : Nat) (t : Nat)
  | info (v : Nat)
  deriving Repr

/-- the batches one substore issues, in order -/
def subBatches (m : RM) (i : Nat) : List Batch :=
  match m.subs[i]? with
  | none => []
  | some s =>
    let v := m.latest + 1
    .save i v s.working ::
      (match pruneTarget m.kr m.ke v with
       | some t => if (savedAt s t).isSome then [.prune i t] else []
       | none => [])

/-- the batches of `Commit`, substores visited in the order `perm` (Go map order: arbitrary) -/
def commitBatches (m : RM) (perm : List Nat) : List Batch :=
  perm.flatMap (subBatches m) ++ [.info (m.latest + 1)]

/-- effect of one batch on the database part of the model -/
def applyBatch (m : RM) : Batch → RM
  | .save i v c => { m with subs := m.subs.modify i (fun s => { s with saved := (v, c) :: s.saved.filter (·.1 != v) }) }
  | .prune i t => { m with subs := m.subs.modify i (fun s => { s with saved := s.saved.filter (·.1 != t) }) }
  | .info v => { m with latest := v, infos := v :: m.infos }

def applyBatches (m : RM) (bs : List Batch) : RM := bs.foldl applyBatch m

/-- what a fresh store sees after reopening: the version and every substore's content -/
def reopened (m : RM) : Option (Nat × List Items) := m.reopen.map fun m' => (m'.latest, m'.subs.map (·.working))

/-! ### multistore proof operator over abstract hashes -/

structure StoreInfo where
  name : String
  root : Bytes
  deriving Repr, DecidableEq

/-- insert or overwrite in a name-sorted association list (the Go map + `SimpleHashFromMap`'s sort) -/
def setName : List (String × Bytes) → String → Bytes → List (String × Bytes)
  | [], n, h => [(n, h)]
  | (n', h') :: rest, n, h =>
    if n < n' then (n, h) :: (n', h') :: rest
    else if n == n' then (n, h) :: rest
    else (n', h') :: setName rest n h

/-- `commitInfo.Hash`: a map from name to the hash of the substore root (later entries overwrite
earlier ones, as in the Go map), sorted by name -/
def canonMap (H : Bytes → Bytes) (infos : List StoreInfo) : List (String × Bytes) :=
  infos.foldl (fun m si => setName m si.name (H si.root)) []

def appHash (H : Bytes → Bytes) (MH : List (String × Bytes) → Bytes) (infos : List StoreInfo) : Bytes :=
  MH (canonMap H infos)

/-- `MultiStoreProofOp.Run`: the first store info with the key's name must carry the claimed root -/
def proofRun (H : Bytes → Bytes) (MH : List (String × Bytes) → Bytes) (infos : List StoreInfo) (key : String) (value : Bytes) :
    Option Bytes :=
  match infos.find? (fun si => si.name == key) with
  | some si => if value == si.root then some (appHash H MH infos) else none
  | none => none

end Posmint.RM
