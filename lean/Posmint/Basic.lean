def hello := "world"
