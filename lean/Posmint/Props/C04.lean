import Posmint.Lemmas.ChainInv
/-!
# C04 — Staked pool backs validator stake one-for-one
-/
namespace Posmint.Props.C04
open Posmint.Chain

/-! ### genesis: the pool holds exactly the genesis stake -/

/-- the empty state `InitChain` starts from -/
def gInit (g : Genesis) : State := {
    bal := [], supply := 0, vals := [], idx := [], prev := [], prevTot := 0, queue := [], sign := [], missedBits := [],
    awards := [], burns := [], proposer := "", rel := [], p := g.p,
    acl := g.paramNames.map (fun n => (n, g.aclOwner)), daoOwner := g.daoOwner,
    pool := g.pool, feeAcc := g.feeAcc, posAcc := g.posAcc, daoAcc := g.daoAcc,
    keys := g.keys, nStored := g.nStored, height := 0, time := 0, cHeight := 0, cTime := 0, index := [], blockTxs := [],
    bal2 := g.accs2.foldl (fun m e => if e.2 == 0 then m else aset m e.1 e.2) [],
    supply2 := g.accs2.foldl (fun t e => t + e.2) 0, keyNodes := g.keyNodes,
    accts := g.accs.foldl (fun m e => aset m e.1 ()) [], keyed := g.accs.map (·.1) }

/-- fund one genesis account -/
def gAcc (st : State) (e : Addr × Int) : State := { setBal st e.1 e.2 with supply := st.supply + e.2 }

/-- install one genesis validator -/
def gVal (st : State) (e : Addr × Int) : State :=
  let v : Val := { status := 2, jailed := false, tokens := e.2, unstake := 0 }
  let st1 := setStaked (setVal st e.1 v) e.1 v
  let st2 := { st1 with sign := aset st1.sign e.1 { start := 0, offset := 0, missed := 0, jailedUntil := 0, tomb := false },
                        rel := e.1 :: st1.rel, supply := st1.supply + e.2 }
  setBal st2 st2.pool (balOf st2 st2.pool + e.2)

/-- write the exported signing state (signing infos, missed-block entries) over the fresh one -/
def gOvr (g : Genesis) (st : State) : State :=
  { st with sign := g.signing.foldl (fun m e => aset m e.1 e.2) st.sign,
            missedBits := g.missed.foldl (fun m e => bitSet m e.1.1 e.1.2 e.2) st.missedBits }

/-- the genesis state before the first validator-set update -/
def gPre (g : Genesis) : State :=
  mint (gOvr g (g.vals.foldl gVal (g.accs.foldl gAcc (gInit g))))
    (gOvr g (g.vals.foldl gVal (g.accs.foldl gAcc (gInit g)))).daoAcc g.daoTokens

theorem genesis_fst (g : Genesis) :
    (genesis g).1 = gPre g ∨
    ∃ s4 ups, updateValidators { gPre g with p := { (gPre g).p with maxVals := g.defaultMaxVals } } = some (s4, ups) ∧
      (genesis g).1 = { s4 with p := g.p } := by
  unfold genesis
  simp only []
  split
  · rename_i s4 ups hu
    exact Or.inr ⟨s4, ups, hu, rfl⟩
  · exact Or.inl rfl

/-- what the account-funding phase of genesis maintains -/
structure GAccInv (g : Genesis) (st : State) : Prop where
  balAsc : KeysAsc st.bal
  vals : st.vals = []
  poolBal : balOf st g.pool = 0
  pool : st.pool = g.pool
  daoAcc : st.daoAcc = g.daoAcc

theorem gAcc_fold (g : Genesis) (l : List (Addr × Int)) (hl : ∀ e ∈ l, e.1 ≠ g.pool) (st : State)
    (h : GAccInv g st) : GAccInv g (l.foldl gAcc st) := by
  induction l generalizing st with
  | nil => exact h
  | cons e l ih =>
    refine ih (fun e he => hl e (by simp [he])) _ ?_
    have hne : g.pool ≠ e.1 := fun h' => hl e (by simp) h'.symm
    exact ⟨keysAsc_setBal h.balAsc _ _, h.vals,
      by rw [← h.poolBal]; exact (balOf_congr rfl _).trans (balOf_setBal_ne _ _ hne), h.pool, h.daoAcc⟩

/-- what the validator-installing phase of genesis maintains -/
structure GValInv (g : Genesis) (st : State) : Prop where
  balAsc : KeysAsc st.bal
  valsAsc : KeysAsc st.vals
  backs : balOf st g.pool = stakeSum st
  pool : st.pool = g.pool
  daoAcc : st.daoAcc = g.daoAcc

theorem gVal_spec (g : Genesis) (st : State) (e : Addr × Int) (h : GValInv g st) (hnew : aget st.vals e.1 = none) :
    GValInv g (gVal st e) ∧ (gVal st e).vals = aset st.vals e.1 { status := 2, jailed := false, tokens := e.2, unstake := 0 } := by
  have hvals : (gVal st e).vals = aset st.vals e.1 { status := 2, jailed := false, tokens := e.2, unstake := 0 } := by
    simp [gVal, setBal]
  have hpool : (gVal st e).pool = st.pool := by
    unfold gVal; simp only []
    rw [(setBal_frame _ _ _).pool]
    show (setStaked _ _ _).pool = st.pool
    rw [(setStaked_frame _ _ _).pool]; rfl
  have hdao : (gVal st e).daoAcc = st.daoAcc := by
    unfold gVal; simp only []
    rw [(setBal_frame _ _ _).daoAcc]
    show (setStaked _ _ _).daoAcc = st.daoAcc
    rw [(setStaked_frame _ _ _).daoAcc]; rfl
  obtain ⟨st2, hst2, hb2, hp2⟩ : ∃ st2 : State, gVal st e = setBal st2 st2.pool (balOf st2 st2.pool + e.2) ∧
      st2.bal = st.bal ∧ st2.pool = st.pool :=
    ⟨_, rfl, by simp, by show (setStaked _ _ _).pool = _; rw [(setStaked_frame _ _ _).pool]; rfl⟩
  have hasc2 : KeysAsc st2.bal := by rw [hb2]; exact h.balAsc
  refine ⟨⟨?_, ?_, ?_, hpool.trans h.pool, hdao.trans h.daoAcc⟩, hvals⟩
  · rw [hst2]; exact keysAsc_setBal hasc2 _ _
  · rw [hvals]; exact keysAsc_aset h.valsAsc _ _
  · have hL : balOf (gVal st e) g.pool = stakeSum st + e.2 := by
      rw [hst2, hp2, h.pool, balOf_setBal_self hasc2, balOf_congr hb2, h.backs]
    have hR : stakeSum (gVal st e) = stakeSum st + e.2 := by
      rw [stakeSum_aset h.valsAsc _ _ hvals, hnew]; simp [stk]
    rw [hL, hR]

theorem gVal_fold (g : Genesis) (l : List (Addr × Int)) (hnd : (l.map (·.1)).Nodup) (st : State)
    (h : GValInv g st) (hnew : ∀ e ∈ l, aget st.vals e.1 = none) : GValInv g (l.foldl gVal st) := by
  induction l generalizing st with
  | nil => exact h
  | cons e l ih =>
    simp only [List.map_cons, List.nodup_cons] at hnd
    obtain ⟨h1, hv1⟩ := gVal_spec g st e h (hnew e (by simp))
    refine ih hnd.2 _ h1 ?_
    intro e' he'
    rw [hv1, aget_aset_ne _ _ (by
      intro heq
      exact hnd.1 (by rw [← heq]; exact List.mem_map_of_mem he'))]
    exact hnew e' (by simp [he'])

theorem gPre_surplus (g : Genesis) (hg : GenesisOK g) :
    balOf (gPre g) g.pool = stakeSum (gPre g) ∧ (gPre g).pool = g.pool := by
  have h0 : GAccInv g (gInit g) := ⟨keysAsc_nil, rfl, rfl, rfl, rfl⟩
  have h1 := gAcc_fold g g.accs (by
    intro e he
    obtain ⟨k, hk, hk2⟩ := hg.accsAreKeys e he
    rw [← hk2]; exact (hg.keysNotMods k hk).1) _ h0
  have h1' : GValInv g (g.accs.foldl gAcc (gInit g)) :=
    ⟨h1.balAsc, by rw [h1.vals]; exact keysAsc_nil, by rw [h1.poolBal]; simp [stakeSum, h1.vals], h1.pool, h1.daoAcc⟩
  have h2 := gVal_fold g g.vals hg.valsNodup _ h1' (by intro e _; rw [h1.vals]; rfl)
  -- the exported signing state touches neither balances nor validators
  have h2 : GValInv g (gOvr g (g.vals.foldl gVal (g.accs.foldl gAcc (gInit g)))) :=
    ⟨h2.balAsc, h2.valsAsc, h2.backs, h2.pool, h2.daoAcc⟩
  unfold gPre
  refine ⟨?_, (mint_frame _ _ _).pool.trans h2.pool⟩
  rw [balOf_mint h2.balAsc, h2.daoAcc, stakeSum_congr (mint_frame _ _ _).vals, h2.backs]
  simp [hg.modsDistinct.2.2.1]

/-! ### the property -/

/-- In every reachable state the staked pool holds at least the stake recorded for all staked and
unstaking validators … -/
theorem pool_backs_stake (g : Genesis) (hg : GenesisOK g) (ops : List Op) (s' : State)
    (hr : run (genesis g).1 ops = some s') : stakeSum s' ≤ balOf s' s'.pool :=
  (reachable_inv g hg ops s' hr).pool

/-- … and the difference is exactly the coins that were sent to the pool address directly: it is
zero at genesis and every operation changes it only by such a donation. -/
theorem genesis_surplus_zero (g : Genesis) (hg : GenesisOK g) : poolSurplus (genesis g).1 = 0 := by
  obtain ⟨hb, hp⟩ := gPre_surplus g hg
  rcases genesis_fst g with h | ⟨s4, ups, hu, h⟩
  · rw [h]; unfold poolSurplus; rw [hp, hb]; omega
  · obtain ⟨prev2, pt, rfl, _⟩ := updateValidators_cases hu
    rw [h]
    show balOf (gPre g) (gPre g).pool - stakeSum (gPre g) = 0
    rw [hp, hb]; omega

theorem surplus_step (s : State) (op : Op) (r : State × List (Addr × Int) × Bool)
    (h : Inv s) (hs : step s op = some r) :
    poolSurplus r.1 = poolSurplus s +
      (match op with
       | .tx .deliver t => if r.2.2 then donation s t.msg else 0
       | .begin _ _ _ _ => (aget s.awards s.pool).getD 0
       | _ => 0) := step_poolSurplus s op r h hs

/-- Staking moves exactly the staked amount from the validator's account into the pool and records
exactly that amount as stake. -/
theorem stake_exact (s s' : State) (k : Nat) (amt : Int) (h : Inv s) (hh : handle s (.stake k amt) = some s') :
    balOf s' (keyAddr s k) = balOf s (keyAddr s k) - amt ∧
    balOf s' s.pool = balOf s s.pool + amt ∧
    ∃ v', aget s'.vals (keyAddr s k) = some v' ∧ v'.tokens = amt ∧ v'.status = 2 := by
  obtain ⟨_, hbal, hv⟩ := handle_stake_spec h.acct hh
  have hne := (h.wf.key_not_mod (keyAddr_isKey (handle_stake_cases hh).1)).1
  refine ⟨?_, ?_, hv⟩
  · rw [hbal]; simp [hne]
  · rw [hbal]; simp [Ne.symm hne]

/-- Completing an unstake moves exactly the recorded stake back and removes the record. -/
theorem maturity_exact (s s' : State) (a : Addr) (v : Val) (h : Inv s)
    (hv : aget s.vals a = some v) (hst : v.status = 1) (hf : finishOne s a = some s') :
    balOf s' a = balOf s a + v.tokens ∧ balOf s' s.pool = balOf s s.pool - v.tokens ∧
    aget s'.vals a = none := by
  obtain ⟨_, hvals, hbal⟩ := finishOne_exact h.acct hv hst hf
  have hne := (h.wf.val_not_mod hv).1
  refine ⟨?_, ?_, ?_⟩
  · rw [hbal]; simp [hne]
  · rw [hbal]; simp [Ne.symm hne]
  · rw [hvals]; exact aget_adel_self h.wf.valsAsc a

end Posmint.Props.C04
