import Posmint.Lemmas.ChainInv
import Posmint.Lemmas.ChainDenom2
import Posmint.Props.C03
import Posmint.Props.C10
/-!
# The second denomination (C02, C03, C10 for fees that are not paid in the staking coin)

Accounts may hold coins of another denomination; the only thing the application ever does with them is to
take them as (part of) a transaction fee and pass them on with the rest of the collected fees. The model tracks
them as `bal2` / `supply2`.

* C02: their recorded supply always equals the sum of their balances, every recorded balance is positive, and
  the supply never changes - in every reachable state.
* C03: they never count towards the fee a message requires.
* C10: what the fee collector holds of them goes, in full, to the proposer (or stays in the pos module account
  if the proposer is not a known validator) at the next BeginBlock - exactly like the staking coin.
-/
namespace Posmint.Props.Denom2
open Posmint.Chain Posmint.Chain.ChainTx Posmint.Chain.D2

def sumBal2 (s : State) : Int := (s.bal2.map (·.2)).sum

/-- the invariant of the second denomination -/
structure Inv2 (s : State) : Prop where
  asc : KeysAsc s.bal2
  pos : ∀ e ∈ s.bal2, 0 < e.2
  supply : s.supply2 = sumBal2 s

/-- a genesis whose second-denomination balances are non-negative amounts on distinct addresses -/
structure Genesis2OK (g : Genesis) : Prop where
  nodup : (g.accs2.map (·.1)).Nodup
  nonneg : ∀ e ∈ g.accs2, 0 ≤ e.2

theorem Inv2.bal2OK {s : State} (h : Inv2 s) : Bal2OK s.bal2 := ⟨h.asc, h.pos⟩

theorem genesis_inv2 (g : Genesis) (h2 : Genesis2OK g) : Inv2 (genesis g).1 := by
  obtain ⟨k1, k2⟩ := genesis_bal2 g h2.nodup h2.nonneg
  exact ⟨k1.asc, k1.pos, k2⟩

/-- every operation keeps the invariant and leaves the supply of the second denomination as it was:
nothing mints or burns it -/
theorem step_inv2 (s : State) (op : Op) (r : State × List (Addr × Int) × Bool)
    (h : Inv2 s) (hs : step s op = some r) : Inv2 r.1 ∧ r.1.supply2 = s.supply2 := by
  obtain ⟨k1, k2, k3⟩ := step_bal2 h.bal2OK hs
  refine ⟨⟨k1.asc, k1.pos, ?_⟩, k3⟩
  show r.1.supply2 = vsum r.1.bal2
  rw [k3, k2]; exact h.supply

theorem run_inv2 (ops : List Op) (s s' : State) (h : Inv2 s) (hr : run s ops = some s') :
    Inv2 s' ∧ s'.supply2 = s.supply2 := by
  induction ops generalizing s with
  | nil => simp [run] at hr; subst hr; exact ⟨h, rfl⟩
  | cons op rest ih =>
    simp only [run] at hr
    cases hstep : step s op with
    | none => simp [hstep] at hr
    | some r =>
      simp [hstep] at hr
      obtain ⟨k1, k2⟩ := step_inv2 s op r h hstep
      obtain ⟨j1, j2⟩ := ih r.1 k1 hr
      exact ⟨j1, j2.trans k2⟩

/-- C02 for the second denomination, every reachable state -/
theorem supply2_eq_balances2 (g : Genesis) (h2 : Genesis2OK g) (ops : List Op) (s' : State)
    (hr : run (genesis g).1 ops = some s') :
    s'.supply2 = sumBal2 s' ∧ (∀ e ∈ s'.bal2, 0 < e.2) ∧ s'.supply2 = (genesis g).1.supply2 := by
  obtain ⟨k1, k2⟩ := run_inv2 ops _ s' (genesis_inv2 g h2) hr
  exact ⟨k1.supply, k1.pos, k2⟩

/-- C03: whatever is offered in the second denomination, an accepted transaction pays at least the required fee
in the staking coin (the second denomination buys nothing) and the offered amount is covered by the signer -/
theorem fee2_buys_nothing (s : State) (t : Tx) (ha : anteOK s t false = true) :
    t.msg.requiredFee s.p ≤ t.feeEff ∧ 0 ≤ t.fee2 ∧ t.fee2 ≤ balOf2 s (t.msg.signer s) := by
  obtain ⟨_, _, _, _, h5, _⟩ := anteOK_true ha
  obtain ⟨h0, h1⟩ := anteOK_fee2 ha
  exact ⟨h5, h0, h1⟩

set_option linter.unusedVariables false in
/-- … and it is taken from the signer into the fee collector together with the rest of the fee, whether the
message then succeeds or fails -/
theorem fee2_from_signer (s s' : State) (t : Tx) (ok : Bool) (h : Inv2 s) (hw : Inv s)
    (hr : runTx s .deliver t = (s', ok)) (ha : anteOK s t false = true) (hne : t.msg.signer s ≠ s.feeAcc)
    (hdec : t.mutn ≠ "trunc" ∧ t.mutn ≠ "garbage") (hbasic : t.msg.basicOK = true) :
    balOf2 s' s.feeAcc = balOf2 s s.feeAcc + t.fee2 ∧
    balOf2 s' (t.msg.signer s) = balOf2 s (t.msg.signer s) - t.fee2 ∧
    (∀ a, a ≠ s.feeAcc → a ≠ t.msg.signer s → balOf2 s' a = balOf2 s a) := by
  have e := runTx_deliver_d2 hdec hbasic ha
  rw [hr] at e
  simp only [d2, Prod.mk.injEq] at e
  obtain ⟨k, _⟩ := afterAnte_spec h.bal2OK ha
  have hb : ∀ q, balOf2 s' q = balOf2 (afterAnte s t) q := fun q => balOf2_congr e.1 q
  refine ⟨?_, ?_, ?_⟩
  · rw [hb, k]; simp [Ne.symm hne]
  · rw [hb, k]; simp [hne]
  · intro a h1 h2; rw [hb, k]; simp [h1, h2]

/-- C10: at BeginBlock the collected fees of the second denomination go in full to the proposer of the previous
block if it is a known validator, otherwise they stay in the pos module account; the collector is emptied -/
theorem fees2_to_proposer (s : State) (h : Inv2 s) (hw : Inv s) :
    let s' := rewardFromFees2 s
    let F := balOf2 s s.feeAcc
    balOf2 s' s.feeAcc = 0 ∧ s'.supply2 = s.supply2 ∧
    (if (aget s.vals s.proposer).isSome then
        balOf2 s' s.proposer = balOf2 s s.proposer + F ∧ balOf2 s' s.posAcc = balOf2 s s.posAcc
      else balOf2 s' s.posAcc = balOf2 s s.posAcc + F) ∧
    (∀ a, a ≠ s.feeAcc → a ≠ s.proposer → a ≠ s.posAcc → balOf2 s' a = balOf2 s a) ∧
    s'.bal = s.bal ∧ s'.vals = s.vals := by
  intro s' F
  obtain ⟨_, _, hbal⟩ := rewardFromFees2_spec h.bal2OK
  have hm := hw.wf.modsDistinct
  have hfp : s.feeAcc ≠ s.posAcc := hm.2.2.2.1
  refine ⟨?_, F2.supply2_rewardFromFees2 s, ?_, ?_, F2.bal_rewardFromFees2 s, F2.vals_rewardFromFees2 s⟩
  · show balOf2 (rewardFromFees2 s) s.feeAcc = 0
    rw [hbal]
    by_cases hval : (aget s.vals s.proposer).isSome
    · obtain ⟨v, hv⟩ := Option.isSome_iff_exists.1 hval
      have hne := hw.wf.val_not_mod hv
      simp [hval, Ne.symm hne.2.1]
    · simp [hval, hfp]
  · by_cases hval : (aget s.vals s.proposer).isSome
    · obtain ⟨v, hv⟩ := Option.isSome_iff_exists.1 hval
      have hne := hw.wf.val_not_mod hv
      simp only [hval, if_true]
      constructor
      · show balOf2 (rewardFromFees2 s) s.proposer = _
        rw [hbal]; simp [hval, hne.2.1]; rfl
      · show balOf2 (rewardFromFees2 s) s.posAcc = _
        rw [hbal]; simp [hval, Ne.symm hfp, Ne.symm hne.2.2.1]
    · simp only [hval]
      show balOf2 (rewardFromFees2 s) s.posAcc = _
      rw [hbal]; simp [hval, Ne.symm hfp]; rfl
  · intro a h1 h2 h3
    show balOf2 (rewardFromFees2 s) a = _
    rw [hbal]
    by_cases hval : (aget s.vals s.proposer).isSome <;> simp [hval, h1, h2, h3]

/-- a rejected or read-only transaction leaves the second denomination untouched as well -/
theorem readonly_frame2 (s : State) (mode : Mode) (t : Tx) (hm : mode ≠ .deliver) :
    (runTx s mode t).1.bal2 = s.bal2 ∧ (runTx s mode t).1.supply2 = s.supply2 := by
  have : (runTx s mode t).1 = s := by
    unfold runTx
    split; · rfl
    split; · rfl
    split; · rfl
    cases mode <;> simp at hm ⊢
  rw [this]; exact ⟨rfl, rfl⟩

end Posmint.Props.Denom2
