import Posmint.Lemmas.KVWrap
/-!
# C16 — Store wrappers are transparent: prefix isolation, exact gas, faithful trace
-/
namespace Posmint.Props.C16
open Posmint.KV

-- Some hypotheses of the statements below (kept as given) turn out not to be needed by the proofs.
set_option linter.unusedVariables false

/-! ## PrefixEndBytes -/

/-- `[p, PrefixEndBytes p)` is exactly the set of keys that start with `p`, for every non-empty
prefix, including ones ending in 0xFF and the all-0xFF prefix (end = nil). -/
theorem prefixEnd_spec (p k : Bytes) (hp : p ≠ []) (hpb : IsBytes p) (hkb : IsBytes k) :
    inDomain k p (prefixEnd p) = hasPrefix k p :=
  prefixEnd_spec' p k hkb

/-! ## Prefix store -/

/-- A prefix store exposes exactly the parent's keys that start with the prefix, stripped. -/
theorem prefix_view (pre : Bytes) (p : Store) (k : Bytes) :
    (Store.pfx pre p).view k = p.view (pre ++ k) := rfl

/-- Isolation: a set/delete through a prefix store changes no parent key outside the prefix. -/
theorem prefix_isolation_set (pre : Bytes) (p : Store) (k v : Bytes) (e : Env) (s' : Store) (e' : Env)
    (hwf : p.WF) (h : (Store.pfx pre p).set k v e = .ok (s', e')) :
    ∃ p', s' = .pfx pre p' ∧ ∀ q, hasPrefix q pre = false → p'.view q = p.view q := by
  simp only [Store.set] at h
  rw [bind_eq_ok] at h
  obtain ⟨⟨p1, e1⟩, h1, h2⟩ := h
  simp only [Except.ok.injEq, Prod.mk.injEq] at h2
  obtain ⟨rfl, rfl⟩ := h2
  refine ⟨p1, rfl, fun q hq => ?_⟩
  rw [(set_refines p (pre ++ k) v e p1 e1 hwf h1).2 q]
  have : q ≠ pre ++ k := by
    intro hqk; subst hqk; rw [hasPrefix_append] at hq; cases hq
  simp [this]

theorem prefix_isolation_delete (pre : Bytes) (p : Store) (k : Bytes) (e : Env) (s' : Store) (e' : Env)
    (hwf : p.WF) (h : (Store.pfx pre p).delete k e = .ok (s', e')) :
    ∃ p', s' = .pfx pre p' ∧ ∀ q, hasPrefix q pre = false → p'.view q = p.view q := by
  simp only [Store.delete] at h
  rw [bind_eq_ok] at h
  obtain ⟨⟨p1, e1⟩, h1, h2⟩ := h
  simp only [Except.ok.injEq, Prod.mk.injEq] at h2
  obtain ⟨rfl, rfl⟩ := h2
  refine ⟨p1, rfl, fun q hq => ?_⟩
  rw [(delete_refines p (pre ++ k) e p1 e1 hwf h1).2 q]
  have : q ≠ pre ++ k := by
    intro hqk; subst hqk; rw [hasPrefix_append] at hq; cases hq
  simp [this]

/-- Iteration through a prefix store yields exactly the stripped in-range keys (see C15.iter_refines
for sortedness); stated here for a prefix directly over a sorted base, any prefix incl. 0xFF… -/
theorem prefix_iter (pre : Bytes) (m : Items) (a : Bytes) (b : Option Bytes) (asc : Bool) (its : Items) (s' : Store)
    (hs : SortedAsc m) (hpb : IsBytes pre) (hmb : ∀ kv ∈ m, IsBytes kv.1) (hab : IsBytes a)
    (h : (Store.pfx pre (.mem m)).items a b asc = some (its, s')) :
    ∀ k v, (k, v) ∈ its ↔ (kvGet m (pre ++ k) = some v ∧ inDomain k a b = true) := by
  simp only [Store.items, Option.some.injEq, Prod.mk.injEq] at h
  obtain ⟨rfl, _⟩ := h
  intro k v
  exact pfx_mem_items pre m a b asc hs hmb k v

/-! ## Gas meter -/

/-- `ConsumeGas`: overflow of the uint64 total is reported (never wrapped), out-of-gas is raised
exactly when the new total exceeds the limit, otherwise the total grows by exactly `amount`. -/
theorem consume_spec (e : Env) (a : Nat) (he : EnvOK e) :
    consume e a =
      if e.consumed + a > maxUint64 then .error (.gasOverflow, { e with consumed := 0 })
      else if e.consumed + a > e.limit then .error (.outOfGas, { e with consumed := e.consumed + a })
      else .ok { e with consumed := e.consumed + a } := by
  unfold EnvOK at he
  by_cases h : e.consumed + a > maxUint64
  · have h' : maxUint64 - e.consumed < a := by omega
    simp only [consume, h', h, if_true]
  · rw [if_neg h]
    exact consume_eq e a (by omega)

theorem consume_envOK (e : Env) (a : Nat) (he : EnvOK e) :
    (∀ e', consume e a = .ok e' → EnvOK e' ∧ e'.consumed ≤ e'.limit) ∧
    (∀ p e', consume e a = .error (p, e') → EnvOK e') := by
  rw [consume_spec e a he]
  unfold EnvOK at *
  constructor
  · intro e' h
    split at h
    · cases h
    · split at h
      · cases h
      · simp only [Except.ok.injEq] at h
        subst h
        simp only
        omega
  · intro p e' h
    split at h
    · simp only [Except.error.injEq, Prod.mk.injEq] at h
      obtain ⟨_, rfl⟩ := h
      simp
    · split at h
      · simp only [Except.error.injEq, Prod.mk.injEq] at h
        obtain ⟨_, rfl⟩ := h
        simp only
        omega
      · cases h

/-! ## Gas store: transparent and exact -/

/-- A gas layer returns what its parent returns and has the parent's view. -/
theorem gas_transparent_get (p : Store) (k : Bytes) (e : Env) (v : Option Bytes) (s' : Store) (e' : Env)
    (hwf : p.WF) (h : (Store.gas p).get k e = .ok (v, s', e')) :
    v = p.view k ∧ ∀ q, s'.view q = p.view q := by
  obtain ⟨hv, _, hview⟩ := get_refines (.gas p) k e v s' e' hwf h
  exact ⟨hv, hview⟩

/-- Exact gas of one point operation through a gas layer over a gas-free stack. -/
theorem gas_exact_point (p : Store) (op : PointOp) (e : Env) (s' : Store) (e' : Env)
    (hwf : p.WF) (hg : p.GasFree) (h : (Store.gas p).point e op = .ok (s', e')) :
    e'.consumed = e.consumed + op.cost e.cfg p.view ∧ e'.consumed ≤ e'.limit ∧
    e'.cfg = e.cfg ∧ e'.limit = e.limit := by
  obtain ⟨_, _, _, _, _, h1, h2, h3, h4⟩ := gas_point_spec p op e s' e' hwf hg h
  exact ⟨h1, h2, h3, h4⟩

/-- Exact gas of any operation sequence that does not panic. -/
theorem gas_exact (p : Store) (ops : List PointOp) (e : Env) (s' : Store) (e' : Env)
    (hwf : p.WF) (hg : p.GasFree) (h : (Store.gas p).points e ops = .ok (s', e')) :
    e'.consumed = e.consumed + totalCost e.cfg p.view ops :=
  gas_points_spec ops p e s' e' hwf hg h

/-- Out-of-gas is raised at exactly the operation whose documented cost crosses the limit
(given no uint64 overflow), and no earlier. -/
theorem out_of_gas_exact (p : Store) (op : PointOp) (e : Env)
    (hwf : p.WF) (hg : p.GasFree) (he : EnvOK e) (hle : e.consumed ≤ e.limit)
    (hno : e.consumed + op.cost e.cfg p.view ≤ maxUint64) :
    (∃ e', (Store.gas p).point e op = .error (.outOfGas, e')) ↔
      e.consumed + op.cost e.cfg p.view > e.limit :=
  gas_point_oog p op e hwf hg hno

/-- Iterator gas through a gas layer directly above the lower zone: the first item is charged at
creation, then every `Next` charges the current item (flat + per byte of its value). -/
theorem gas_iter_exact (l : Store) (a : Bytes) (b : Option Bytes) (asc : Bool) (e : Env)
    (z : List ZLayer) (rem : Items) (l' : Store) (e1 : Env) (out : Items) (e2 : Env)
    (h1 : zOpen [.gas] l a b asc e = .ok (z, rem, l', e1))
    (h2 : zDrain (rem.length + 1) z rem e1 [] = .ok (out, e2)) :
    out = rem ∧
    e2.consumed = e.consumed
      + (match rem with | [] => 0 | kv :: _ => e.cfg.readCostPerByte * kv.2.length + e.cfg.iterNextCostFlat)
      + (rem.map fun kv => e.cfg.readCostPerByte * kv.2.length + e.cfg.iterNextCostFlat).sum := by
  obtain ⟨rfl, hopen⟩ := zOpen_gas l a b asc e z rem l' e1 h1
  cases rem with
  | nil =>
    dsimp only at hopen ⊢
    subst hopen
    obtain ⟨ho, he⟩ := zDrain_gas [] e1 [] out e2 h2
    exact ⟨by simpa using ho, by simpa using he⟩
  | cons kv t =>
    obtain ⟨k, v⟩ := kv
    dsimp only at hopen ⊢
    obtain ⟨hc, hcfg, _, _⟩ := seekGas_nil_cons k v t e e1 hopen
    obtain ⟨ho, he⟩ := zDrain_gas ((k, v) :: t) e1 [] out e2 h2
    refine ⟨by simpa using ho, ?_⟩
    rw [he, hc, hcfg]

/-! ## Trace store: transparent and exact -/

/-- Exactly one record per Get / Set / Delete, carrying the key and value of the call; `Has` is
delegated without a record (the trace format defines no such operation kind). -/
theorem trace_exact_get (p : Store) (k : Bytes) (e : Env) (v : Option Bytes) (s' : Store) (e' : Env)
    (ht : p.TraceFree) (h : (Store.trace p).get k e = .ok (v, s', e')) :
    e'.trace = ⟨.read, k, v.getD []⟩ :: e.trace := by
  simp only [Store.get] at h
  rw [bind_eq_ok] at h
  obtain ⟨⟨v1, p1, e1⟩, h1, h2⟩ := h
  simp only [Except.ok.injEq, Prod.mk.injEq] at h2
  obtain ⟨rfl, rfl, rfl⟩ := h2
  simp only [emit, ((get_frame p k e v1 p1 e1 h1).2 ht).2]

theorem trace_exact_set (p : Store) (k v : Bytes) (e : Env) (s' : Store) (e' : Env)
    (ht : p.TraceFree) (h : (Store.trace p).set k v e = .ok (s', e')) :
    e'.trace = ⟨.write, k, v⟩ :: e.trace := by
  simp only [Store.set] at h
  rw [bind_eq_ok] at h
  obtain ⟨⟨p1, e1⟩, h1, h2⟩ := h
  simp only [Except.ok.injEq, Prod.mk.injEq] at h2
  obtain ⟨rfl, rfl⟩ := h2
  rw [((set_frame p k v _ p1 e1 h1).2 ht).2]; rfl

theorem trace_exact_delete (p : Store) (k : Bytes) (e : Env) (s' : Store) (e' : Env)
    (ht : p.TraceFree) (h : (Store.trace p).delete k e = .ok (s', e')) :
    e'.trace = ⟨.delete, k, []⟩ :: e.trace := by
  simp only [Store.delete] at h
  rw [bind_eq_ok] at h
  obtain ⟨⟨p1, e1⟩, h1, h2⟩ := h
  simp only [Except.ok.injEq, Prod.mk.injEq] at h2
  obtain ⟨rfl, rfl⟩ := h2
  rw [((delete_frame p k _ p1 e1 h1).2 ht).2]; rfl

theorem trace_has_silent (p : Store) (k : Bytes) (e : Env) (b : Bool) (s' : Store) (e' : Env)
    (ht : p.TraceFree) (h : (Store.trace p).has k e = .ok (b, s', e')) :
    e'.trace = e.trace := by
  simp only [Store.has] at h
  rw [bind_eq_ok] at h
  obtain ⟨⟨b1, p1, e1⟩, h1, h2⟩ := h
  simp only [Except.ok.injEq, Prod.mk.injEq] at h2
  obtain ⟨rfl, rfl, rfl⟩ := h2
  exact ((has_frame p k e b1 p1 e1 h1).2 ht).2

/-- Iterator records: one `iterKey` per `Key()`, one `iterValue` per `Value()`, none for
`Valid`/`Next`, in call order. -/
theorem trace_iter_exact (rem : Items) (e : Env) (k v : Bytes) (e1 e2 : Env)
    (hk : zKey [.trace] rem e = .ok (k, e1)) (hv : zValue [.trace] rem e1 = .ok (v, e2)) :
    ∃ rest, rem = (k, v) :: rest ∧
      e1.trace = ⟨.iterKey, k, []⟩ :: e.trace ∧ e2.trace = ⟨.iterValue, [], v⟩ :: e1.trace := by
  cases rem with
  | nil => simp [zKey, bind, Except.bind] at hk
  | cons kv rest =>
    obtain ⟨k0, v0⟩ := kv
    simp only [zKey, zValue, bind, Except.bind, Except.ok.injEq, Prod.mk.injEq] at hk hv
    obtain ⟨rfl, rfl⟩ := hk
    obtain ⟨rfl, rfl⟩ := hv
    exact ⟨rest, rfl, rfl, rfl⟩

theorem trace_transparent_get (p : Store) (k : Bytes) (e : Env) (v : Option Bytes) (s' : Store) (e' : Env)
    (hwf : p.WF) (h : (Store.trace p).get k e = .ok (v, s', e')) :
    v = p.view k ∧ ∀ q, s'.view q = p.view q := by
  obtain ⟨hv, _, hview⟩ := get_refines (.trace p) k e v s' e' hwf h
  exact ⟨hv, hview⟩

/-! ### Non-vacuity (tests, labelled as such)

Concrete instances evaluated by `decide`, and instantiations of the theorems above on concrete
data (showing that their hypotheses are satisfiable). -/
section Tests

/-- the SDK's `KVGasConfig` -/
private def cfg0 : GasConfig := ⟨1000, 1000, 1000, 3, 2000, 30, 30⟩
private def env0 (limit : Nat) : Env := ⟨0, limit, cfg0, []⟩
private def base0 : Items :=
  [([0, 9], [1]), ([1], [2]), ([1, 5], [3]), ([1, 255], [4]), ([1, 255, 0], [5]), ([2], [6])]
private def ops0 : List PointOp := [.get [1], .set [2] [7, 7], .has [2], .del [1], .get [1]]

/-- observable part of a result: (gas consumed, trace) on success -/
private def okOf {α : Type} (r : M (α × Env)) : Option (Nat × List TraceRec) :=
  match r with | .ok (_, e) => some (e.consumed, e.trace) | .error _ => none
/-- (panic kind, gas consumed) on a panic -/
private def errOf {α : Type} (r : M (α × Env)) : Option (Panic × Nat) :=
  match r with | .ok _ => none | .error (p, e) => some (p, e.consumed)
/-- the view of the resulting store at some keys -/
private def viewsOf (r : M (Store × Env)) (qs : List Bytes) : Option (List (Option Bytes)) :=
  match r with | .ok (s, _) => some (qs.map s.view) | .error _ => none

private theorem base0_sorted : SortedAsc base0 := by simp [base0, SortedAsc, blt]
private theorem env0_ok (n : Nat) : EnvOK (env0 n) := Nat.zero_le _
private theorem cache0_wf : (Store.cache CacheData.empty (.mem base0)).WF :=
  ⟨cacheInv_empty, base0_sorted, by simp [CacheData.empty, cacheLookup]⟩

/-! #### prefix -/
-- PrefixEndBytes, including trailing 0xFF, all-0xFF and the empty prefix
example : prefixEnd [1, 255] = some [2] ∧ prefixEnd [255, 255] = none ∧ prefixEnd [0] = some [1]
    ∧ prefixEnd [7, 255, 255] = some [8] ∧ prefixEnd [] = none := by decide
example : inDomain [1, 255, 7] [1, 255] (prefixEnd [1, 255]) = true
    ∧ inDomain [2] [1, 255] (prefixEnd [1, 255]) = false
    ∧ inDomain [1, 254, 9] [1, 255] (prefixEnd [1, 255]) = false
    ∧ inDomain [255, 255, 0] [255, 255] (prefixEnd [255, 255]) = true := by decide
example : inDomain [1, 255, 7] [1, 255] (prefixEnd [1, 255]) = hasPrefix [1, 255, 7] [1, 255] :=
  prefixEnd_spec [1, 255] [1, 255, 7] (by decide) (by simp [IsBytes]) (by simp [IsBytes])
-- iteration through a prefix store: only the prefixed keys, stripped; 0xFF-terminated prefix; bounds
example : ((Store.pfx [1] (.mem base0)).items [] none true).map (·.1) =
    some [([], [2]), ([5], [3]), ([255], [4]), ([255, 0], [5])] := by decide
example : ((Store.pfx [1, 255] (.mem base0)).items [] none false).map (·.1) =
    some [([0], [5]), ([], [4])] := by decide
example : ((Store.pfx [1] (.mem base0)).items [5] (some [255, 0]) true).map (·.1) =
    some [([5], [3]), ([255], [4])] := by decide
example : ∀ its s', (Store.pfx [1, 255] (.mem base0)).items [] none true = some (its, s') →
    (([0], [5]) ∈ its ↔ (kvGet base0 [1, 255, 0] = some [5] ∧ inDomain [0] [] none = true)) :=
  fun its s' h => prefix_iter [1, 255] base0 [] none true its s' base0_sorted (by simp [IsBytes])
    (by simp [base0, IsBytes]) (by simp [IsBytes]) h [0] [5]
-- isolation: a write through the prefix store lands under the prefix, other keys are untouched
example : viewsOf ((Store.pfx [1] (.mem base0)).set [9] [42] (env0 0)) [[9], [5], [2]] =
    some [some [42], some [3], none] := by decide
example : (match (Store.pfx [1] (.mem base0)).set [9] [42] (env0 0) with
    | .ok (.pfx _ p', _) => some [p'.view [1, 9], p'.view [2], p'.view [0, 9]] | _ => none) =
    some [some [42], some [6], some [1]] := by decide
example : ∃ p', ((Store.pfx [1] (.mem base0)).set [9] [42] (env0 0)).toOption.map (·.1.view [9]) = some (some [42])
    ∧ (∀ s' e', (Store.pfx [1] (.mem base0)).set [9] [42] (env0 0) = .ok (s', e') → s' = .pfx [1] p') := by
  refine ⟨.mem (kvSet base0 [1, 9] [42]), by decide, ?_⟩
  intro s' e' h
  simp only [Store.set, bind, Except.bind, Except.ok.injEq, Prod.mk.injEq] at h
  exact h.1.symm

/-! #### gas -/
example : totalCost cfg0 (Store.mem base0).view ops0 = 1003 + 2060 + 1000 + 1000 + 1000 := by decide
example : okOf ((Store.gas (.mem base0)).points (env0 100000) ops0) = some (6063, []) := by decide
-- the same through the theorem (hypotheses are satisfiable)
example : ∀ s' e', (Store.gas (.mem base0)).points (env0 100000) ops0 = .ok (s', e') → e'.consumed = 6063 :=
  fun s' e' h => by
    have := gas_exact (.mem base0) ops0 (env0 100000) s' e' base0_sorted trivial h
    rw [this]; decide
-- gas over a cache over the base: a read miss is charged on the parent's value, then on the new value
example : okOf ((Store.gas (.cache CacheData.empty (.mem base0))).points (env0 100000)
    [.get [1], .get [1], .set [1] [8, 8, 8, 8], .get [1], .del [1], .get [1]]) =
    some (1003 + 1003 + 2120 + 1012 + 1000 + 1000, []) := by decide
example : ∀ s' e', (Store.gas (.cache CacheData.empty (.mem base0))).points (env0 100000)
    [.get [1], .set [1] [8, 8, 8, 8], .get [1]] = .ok (s', e') → e'.consumed = 1003 + 2120 + 1012 :=
  fun s' e' h => by
    have := gas_exact _ _ (env0 100000) s' e' cache0_wf trivial h
    rw [this]; decide
-- out of gas exactly when the documented cost crosses the limit: limit 1002 panics, 1003 does not
example : errOf ((Store.gas (.mem base0)).point (env0 1002) (.get [1])) = some (.outOfGas, 1003) := by decide
example : okOf ((Store.gas (.mem base0)).point (env0 1003) (.get [1])) = some (1003, []) := by decide
example : ∃ e', (Store.gas (.mem base0)).point (env0 1002) (.get [1]) = .error (.outOfGas, e') :=
  (out_of_gas_exact (.mem base0) (.get [1]) (env0 1002) base0_sorted trivial (env0_ok _)
    (by decide) (by decide)).2 (by decide)
example : ¬ ∃ e', (Store.gas (.mem base0)).point (env0 1003) (.get [1]) = .error (.outOfGas, e') :=
  fun h => absurd ((out_of_gas_exact (.mem base0) (.get [1]) (env0 1003) base0_sorted trivial (env0_ok _)
    (by decide) (by decide)).1 h) (by decide)
-- uint64 overflow is reported, the counter is reset
example : errOf ((Store.gas (.mem base0)).point ⟨maxUint64 - 5, maxUint64, cfg0, []⟩ (.has [1])) =
    some (.gasOverflow, 0) := by decide
example : errOf (consume ⟨maxUint64 - 5, maxUint64, cfg0, []⟩ 6 |>.map fun e => ((), e)) =
    some (.gasOverflow, 0) := by decide
-- iterator gas: 4 items of 1 byte each: 33 at creation + 4 × 33 for the `Next` calls
example : ((do
      let (z, rem, _, e1) ← zOpen [.gas] (.mem base0) [1] (some [2]) true (env0 100000)
      zDrain (rem.length + 1) z rem e1 []) : M (Items × Env)).toOption.map (fun r => (r.1, r.2.consumed)) =
    some ([([1], [2]), ([1, 5], [3]), ([1, 255], [4]), ([1, 255, 0], [5])], 33 + 4 * 33) := by decide

/-! #### trace -/
example : okOf ((Store.trace (.mem base0)).points (env0 0) ops0) =
    some (0, [⟨.read, [1], []⟩, ⟨.delete, [1], []⟩, ⟨.write, [2], [7, 7]⟩, ⟨.read, [1], [2]⟩]) := by decide
example : ∀ v s' e', (Store.trace (.mem base0)).get [1, 5] (env0 0) = .ok (v, s', e') →
    e'.trace = [⟨.read, [1, 5], v.getD []⟩] :=
  fun v s' e' h => trace_exact_get (.mem base0) [1, 5] (env0 0) v s' e' trivial h
example : okOf ((Store.trace (.mem base0)).point (env0 0) (.get [1, 5])) = some (0, [⟨.read, [1, 5], [3]⟩]) := by
  decide
example : okOf ((Store.trace (.mem base0)).point (env0 0) (.has [1, 5])) = some (0, []) := by decide
example : ((do
      let (k, e1) ← zKey [.trace] base0 (env0 0)
      let (v, e2) ← zValue [.trace] base0 e1
      .ok ((k, v), e2)) : M ((Bytes × Bytes) × Env)).toOption.map (fun r => (r.1, r.2.trace)) =
    some (([0, 9], [1]), [⟨.iterValue, [], [1]⟩, ⟨.iterKey, [0, 9], []⟩]) := by decide

end Tests

end Posmint.Props.C16
