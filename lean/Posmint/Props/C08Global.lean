import Posmint.Props.C08
import Posmint.Lemmas.ChainInv
import Posmint.Lemmas.ChainWindowInv
/-!
# C08, for every reachable state

`C08.window_step` is the one-call refinement (the ring buffer refines "the last `w` flags", punish-iff).
Here it is lifted to every state reachable from a fresh genesis by histories that do not change the window
parameter: the signing info and missed-bit array of EVERY address always represent some history of missed
flags recorded since its last reset - so the counter always equals the number of misses among the last `w`
of them, the offset is their number, and no bit is stored outside the window.

Partial: a governance change of `pos/SignedBlocksWindow` re-interprets the stored ring buffer under another
width (the code does nothing about it); histories containing such a change are excluded by `KeepsWindow`.
An exported genesis (signing infos / missed blocks given) is excluded by `hs`/`hm`; for it the statement
would need the exported data to be consistent, which nothing in the code checks.
-/
namespace Posmint.Props.C08Global
open Posmint.Chain Posmint.Chain.C

/-- the window width as a natural number -/
def width (s : State) : Nat := s.p.window.toNat

/-- every signing info (with its bits) represents a history; bits exist only for addresses with a signing info -/
def WindowInv (s : State) : Prop :=
  (∀ a si, aget s.sign a = some si → ∃ h : List Bool, WinRel (width s) si s.missedBits a h) ∧
  (∀ e ∈ s.missedBits, (aget s.sign e.1.1).isSome)

/-- the operation is not an (accepted or not) governance change of the window parameter -/
def KeepsWindow : Op → Prop
  | .tx _ t => (match t.msg with | .changeParam _ key _ => key ≠ "pos/SignedBlocksWindow" | _ => True)
  | _ => True

theorem genesis_windowInv (g : Genesis) (hg : GenesisOK g) (hs : g.signing = []) (hm : g.missed = []) :
    WindowInv (genesis g).1 := by
  exact (WI.genesis_sinv g hg hs hm).1

theorem step_windowInv (s : State) (op : Op) (r : State × List (Addr × Int) × Bool)
    (hi : Inv s) (hw : 0 < s.p.window) (hinv : WindowInv s) (hk : KeepsWindow op) (hstep : step s op = some r) :
    WindowInv r.1 ∧ r.1.p.window = s.p.window := by
  have _ := hi
  have key : WI.Keeps s r.1 := by
    cases op with
    | «begin» time proposer votes evs =>
      simp only [step, Option.map_eq_some_iff] at hstep
      obtain ⟨s', hb, rfl⟩ := hstep
      exact WI.beginBlock_keeps _ _ _ _ _ _ hw hinv hb
    | endBlock =>
      simp only [step, Option.map_eq_some_iff] at hstep
      obtain ⟨r', he, rfl⟩ := hstep
      exact WI.Keeps.frame ⟨hinv, rfl⟩ (WI.endBlock_wframe s r'.1 r'.2 he)
    | commit =>
      simp only [step] at hstep
      injection hstep with hstep; subst hstep
      exact WI.Keeps.frame ⟨hinv, rfl⟩ ⟨rfl, rfl, rfl⟩
    | award a amt =>
      simp only [step] at hstep
      injection hstep with hstep; subst hstep
      exact WI.Keeps.frame ⟨hinv, rfl⟩ ⟨rfl, rfl, rfl⟩
    | burn a raw =>
      simp only [step] at hstep
      injection hstep with hstep; subst hstep
      exact WI.Keeps.frame ⟨hinv, rfl⟩ ⟨rfl, rfl, rfl⟩
    | tx mode t =>
      simp only [step] at hstep
      injection hstep with hstep; subst hstep
      have hr := WI.runTx_keeps s mode t hinv hk
      show WI.Keeps s (if mode == .deliver then _ else _)
      split
      · exact WI.Keeps.frame hr ⟨rfl, rfl, rfl⟩
      · exact hr
  exact key

theorem run_windowInv (s : State) (ops : List Op) (s' : State)
    (hi : Inv s) (hw : 0 < s.p.window) (hinv : WindowInv s) (hk : ∀ op ∈ ops, KeepsWindow op)
    (hr : run s ops = some s') : WindowInv s' ∧ s'.p.window = s.p.window := by
  induction ops generalizing s with
  | nil => simp [run] at hr; subst hr; exact ⟨hinv, rfl⟩
  | cons op rest ih =>
    simp only [run] at hr
    cases hstep : step s op with
    | none => simp [hstep] at hr
    | some r =>
      simp [hstep] at hr
      obtain ⟨h1, h2⟩ := step_windowInv s op r hi hw hinv (hk op (by simp)) hstep
      obtain ⟨h3, h4⟩ := ih r.1 (step_inv s op r hi hstep) (by rw [h2]; exact hw) h1
        (fun o ho => hk o (by simp [ho])) hr
      exact ⟨h3, h4.trans h2⟩

/-- C08, first sentence, for every reachable state: the missed-blocks counter of every address equals the number
of missed entries among the last `window` flags recorded for it, and its offset is the number of flags recorded -/
theorem counter_always_window_count (g : Genesis) (hg : GenesisOK g) (hs : g.signing = []) (hm : g.missed = [])
    (hw : 0 < g.p.window) (ops : List Op) (hk : ∀ op ∈ ops, KeepsWindow op) (s' : State)
    (hr : run (genesis g).1 ops = some s') (a : Addr) (si : Sign) (hsi : aget s'.sign a = some si) :
    ∃ h : List Bool, si.offset = (h.length : Int) ∧
      si.missed = (((lastW g.p.window.toNat h).count true : Nat) : Int) ∧
      (∀ i : Nat, i < g.p.window.toNat → bitGet s'.missedBits a (i : Int) = slotOf g.p.window.toNat h i) ∧
      (∀ e ∈ s'.missedBits, e.1.1 = a → 0 ≤ e.1.2 ∧ e.1.2 < g.p.window) := by
  obtain ⟨g1, g2⟩ := WI.genesis_sinv g hg hs hm
  obtain ⟨h1, h2⟩ := run_windowInv (genesis g).1 ops s' (genesis_inv g hg) (by rw [g2]; exact hw) g1 hk hr
  obtain ⟨h, r1, r2, r3, r4⟩ := h1.1 a si hsi
  have hwin : s'.p.window = g.p.window := h2.trans g2
  have hwd : width s' = g.p.window.toNat := by unfold width; rw [hwin]
  rw [hwd] at r2 r3 r4
  refine ⟨h, r1, r2, r3, ?_⟩
  intro e he hea
  have := r4 e he hea
  rw [Int.toNat_of_nonneg (by omega)] at this
  exact this

end Posmint.Props.C08Global
