import Posmint.Lemmas.ChainInv
/-!
# C09 — Jailed validators have no power; unjail and tombstone rules hold
-/
namespace Posmint.Props.C09
open Posmint.Chain Posmint.Chain.B

/-! ### helpers -/

/-- no message handler removes or alters an existing signing info -/
theorem handle_sign_kept {s s' : State} {m : Msg} (h : handle s m = some s') (a : Addr) (si : Sign)
    (hsi : aget s.sign a = some si) : aget s'.sign a = some si := by
  by_cases hm : (∀ k amt, m ≠ .stake k amt) ∧ (∀ a, m ≠ .unstake a) ∧ (∀ a, m ≠ .unjail a)
  · obtain ⟨b, sup, p, ac, d, u, acc, rfl⟩ := handle_other_shape h hm
    exact hsi
  · cases m with
    | stake k amt =>
      obtain ⟨_, _, _, _, b, rel', sg, acc, rfl, hsg⟩ := handle_stake_shape h
      rcases hsg with rfl | ⟨hnone, si0, rfl, _⟩
      · exact hsi
      · show aget (aset s.sign (keyAddr s k) si0) a = some si
        rw [B.aget_aset]
        split
        · rename_i hk; rw [hk] at hnone; rw [hnone] at hsi; cases hsi
        · exact hsi
    | unstake a' =>
      obtain ⟨v, _, _, _, rfl⟩ := handle_unstake_shape h
      exact hsi
    | unjail a' =>
      obtain ⟨v, si', _, _, _, _, _, _, _, rfl⟩ := handle_unjail_shape h
      exact hsi
    | send src dst amt => exact absurd (by simp) hm
    | changeParam src key val => exact absurd (by simp) hm
    | daoTransfer src dst amt => exact absurd (by simp) hm
    | daoBurn src amt => exact absurd (by simp) hm
    | upgrade src hh ver => exact absurd (by simp) hm

theorem bankOnly_sign {s s' : State} (h : BankOnly s s') : s'.sign = s.sign := h.sign

/-! ### the theorems -/

/-- A jailed validator is not in the power index, hence not in the target set … -/
theorem jailed_not_in_target (s : State) (h : Inv s) (a : Addr) (v : Val)
    (hv : aget s.vals a = some v) (hj : v.jailed = true) : aget (target s) a = none := by
  cases hq : aget (target s) a with
  | none => rfl
  | some pw =>
    have hm := (aget_target h.index a pw).1 hq
    obtain ⟨v', hv', _, hnj, _⟩ := idx_entryOK h.index _ (visited_sub _ hm)
    simp only at hv'
    rw [hv] at hv'; cases hv'
    rw [hj] at hnj; cases hnj

/-- … so after the EndBlock that follows its jailing (and every later one while it stays jailed)
Tendermint's set does not contain it. -/
theorem jailed_excluded_after_end (s s' : State) (ups : List (Addr × Int)) (h : Inv s)
    (he : endBlock s = some (s', ups)) (a : Addr) (v : Val)
    (hv : aget s.vals a = some v) (hj : v.jailed = true) : aget s'.prev a = none := by
  obtain ⟨s1, hu, hm⟩ := B.endBlock_cases he
  obtain ⟨c1, b1, _⟩ := updateValidators_mid h hu
  obtain ⟨_, _, sh, _, _⟩ := unstakeMature_inv c1 b1 (fun _ => True) trivial (fun _ _ _ _ _ _ _ _ _ => trivial) hm
  have ht := (prev_eq_target h.index h.prevOK.1 h.backed.tokNonneg hu).2
  rw [sh.prev, ht]
  exact jailed_not_in_target s h a v hv hj

/-- An unjail request succeeds exactly when the validator exists, is jailed, holds at least the
minimum stake, has a signing info, is not tombstoned, the block time has reached jailed-until, and
(for a staked validator, which re-enters the power index) its power fits an int64: computing the
power-index key panics otherwise. -/
theorem unjail_iff (s : State) (a : Addr) :
    (handle s (.unjail a)).isSome = true ↔
      ∃ v si, aget s.vals a = some v ∧ aget s.sign a = some si ∧ v.jailed = true ∧
        s.p.minStake ≤ v.tokens ∧ si.tomb = false ∧ si.jailedUntil ≠ forever ∧ si.jailedUntil ≤ s.time ∧
        (v.status = 2 → Posmint.Arith.isInt64 (power v.tokens) = true) := by
  constructor
  · intro h
    cases hh : handle s (.unjail a) with
    | none => rw [hh] at h; cases h
    | some s' =>
      obtain ⟨v, si, h1, h2, h3, h4, h5, h6, h7, _⟩ := handle_unjail_shape hh
      exact ⟨v, si, h1, h2, h3, h4, h5, h6, h7, fun hst => handle_unjail_int64 hh h1 hst⟩
  · rintro ⟨v, si, h1, h2, h3, h4, h5, h6, h7, h8⟩
    have e1 : ¬ v.tokens < s.p.minStake := by omega
    have e2 : ¬ s.time < si.jailedUntil := by omega
    have e3 : (v.status == 2 && !Posmint.Arith.isInt64 (power v.tokens)) = false := by
      by_cases hst : v.status = 2
      · simp [hst, h8 hst]
      · simp [hst]
    simp [handle, h1, h2, h3, h5, e1, e2, h6, e3]

set_option linter.unusedVariables false in
/-- On success only the jailed flag (and the index) change, and a staked validator re-enters the
index with exactly the power of its remaining stake. -/
theorem unjail_effect (s s' : State) (a : Addr) (v : Val) (h : Inv s) (hv : aget s.vals a = some v)
    (hh : handle s (.unjail a) = some s') :
    aget s'.vals a = some { v with jailed := false } ∧ s'.bal = s.bal ∧ s'.supply = s.supply ∧
    (∀ b, b ≠ a → aget s'.vals b = aget s.vals b) ∧
    (v.status = 2 → (power v.tokens, a) ∈ s'.idx) := by
  obtain ⟨v', si, h1, _, _, _, _, _, _, rfl⟩ := handle_unjail_shape hh
  rw [hv] at h1; cases h1
  refine ⟨by simp [B.aget_aset], rfl, rfl, ?_, ?_⟩
  · intro b hb
    show aget (aset s.vals a _) b = aget s.vals b
    exact B.aget_aset_ne _ _ (fun h => hb h.symm)
  · intro hst
    simp only [hst, if_true]
    rw [mem_idxInsert]; exact Or.inl rfl

/-- Once tombstoned, always tombstoned: no operation clears the flag or removes the signing info,
and every later unjail request fails. -/
theorem tombstone_forever (s : State) (op : Op) (r : State × List (Addr × Int) × Bool) (a : Addr) (si : Sign)
    (h : Inv s) (hs : step s op = some r) (hsi : aget s.sign a = some si) (ht : si.tomb = true) :
    (∃ si', aget r.1.sign a = some si' ∧ si'.tomb = true ∧ si'.jailedUntil = forever) ∧
    handle r.1 (.unjail a) = none := by
  have hf : si.jailedUntil = forever := (h.sign.2 a si hsi ht).1
  have key : ∃ si', aget r.1.sign a = some si' ∧ si'.tomb = true ∧ si'.jailedUntil = forever := by
    cases op with
    | «begin» time proposer votes evs =>
      simp only [step] at hs
      cases hb : beginBlock s time proposer votes evs with
      | none => rw [hb] at hs; simp at hs
      | some s' =>
        rw [hb] at hs
        simp only [Option.map_some, Option.some.injEq] at hs
        subst hs
        obtain ⟨_, k2, _⟩ := beginBlock_inv h hb
        exact k2.sign a si hsi ht hf
    | endBlock =>
      simp only [step] at hs
      cases hb : endBlock s with
      | none => rw [hb] at hs; simp at hs
      | some r' =>
        rw [hb] at hs
        simp only [Option.map_some, Option.some.injEq] at hs
        subst hs
        obtain ⟨s1, hu, hm⟩ := B.endBlock_cases (s' := r'.1) (ups := r'.2) hb
        obtain ⟨c1, b1, _, _, _, _, _, _, hsg, _⟩ := updateValidators_mid h hu
        obtain ⟨_, _, sh, _, _⟩ := unstakeMature_inv c1 b1 (fun _ => True) trivial (fun _ _ _ _ _ _ _ _ _ => trivial) hm
        refine ⟨si, ?_, ht, hf⟩
        show aget r'.1.sign a = some si
        rw [sh.sign, hsg]; exact hsi
    | commit =>
      simp only [step, Option.some.injEq] at hs
      subst hs; exact ⟨si, hsi, ht, hf⟩
    | award a' amt =>
      simp only [step, Option.some.injEq] at hs
      subst hs; exact ⟨si, hsi, ht, hf⟩
    | burn a' raw =>
      simp only [step, Option.some.injEq] at hs
      subst hs; exact ⟨si, hsi, ht, hf⟩
    | tx mode t =>
      simp only [step, Option.some.injEq] at hs
      subst hs
      refine ⟨si, ?_, ht, hf⟩
      have hsgn : ∀ x : State,
          (if mode == .deliver then { x with blockTxs := t.id :: x.blockTxs } else x).sign = x.sign := by
        intro x; split <;> rfl
      show aget (State.sign (if mode == Mode.deliver then _ else _)) a = some si
      rw [hsgn]
      rcases runTx_cases s mode t with h1 | ⟨_, s0, hb, h1 | h1⟩
      · rw [h1]; exact hsi
      · rw [h1.1, hb.sign]; exact hsi
      · exact handle_sign_kept h1.2 a si (by rw [hb.sign]; exact hsi)
  refine ⟨key, ?_⟩
  obtain ⟨si', h1, h2, _⟩ := key
  apply handle_unjail_none_of
  intro v si'' _ hs2
  rw [h1] at hs2; cases hs2; exact h2

/-- "Jailed permanently", for every history: from a state in which `a` is tombstoned, after any sequence of
operations whatsoever `a` is still tombstoned, jailed until for ever, and an unjail request for it fails. -/
theorem tombstone_forever_run (ops : List Op) (s s' : State) (a : Addr) (si : Sign)
    (h : Inv s) (hr : run s ops = some s') (hsi : aget s.sign a = some si) (ht : si.tomb = true) :
    (∃ si', aget s'.sign a = some si' ∧ si'.tomb = true ∧ si'.jailedUntil = forever) ∧
    handle s' (.unjail a) = none := by
  induction ops generalizing s si with
  | nil =>
    simp [run] at hr
    subst hr
    refine ⟨⟨si, hsi, ht, (h.sign.2 a si hsi ht).1⟩, ?_⟩
    cases hh : handle s (.unjail a) with
    | none => rfl
    | some s1 =>
      exfalso
      have hs : (handle s (.unjail a)).isSome = true := by rw [hh]; rfl
      obtain ⟨v, si2, _, h2, _, _, h5, _⟩ := (unjail_iff s a).1 hs
      rw [hsi] at h2
      cases h2
      rw [ht] at h5
      cases h5
  | cons op rest ih =>
    simp only [run] at hr
    cases hstep : step s op with
    | none => simp [hstep] at hr
    | some r =>
      rw [hstep] at hr
      simp only [Option.bind_some] at hr
      obtain ⟨⟨si', hsi', ht', _⟩, _⟩ := tombstone_forever s op r a si h hstep hsi ht
      exact ih r.1 si' (step_inv s op r h hstep) hr hsi' ht'

/-- A validator convicted of double signing is tombstoned, jailed, and force-unstaked. -/
theorem doublesign_tombstones (s s' : State) (a : Addr) (ih et pw : Int) (v : Val) (h : Inv s)
    (hv : aget s.vals a = some v) (hage : s.time - et ≤ s.p.maxAge)
    (hd : handleDoubleSign s a ih et pw = some s') :
    ∃ v' si', aget s'.vals a = some v' ∧ v'.jailed = true ∧ v'.status = 0 ∧ v'.tokens = 0 ∧
      aget s'.sign a = some si' ∧ si'.tomb = true ∧ si'.jailedUntil = forever := by
  rcases B.handleDoubleSign_cases hd with ⟨hold, _⟩ | ⟨_, v0, si, s2, v2, hv0, hsi, hnt, hst, hs2, hv2, rfl⟩
  · omega
  rw [hv] at hv0; cases hv0
  obtain ⟨k1, k2, k3, k4⟩ := slash_big h.big a (ih - 1) pw s.p.sfDouble
  have hj2 : v2.jailed = true := by
    split at hs2
    · obtain ⟨_, _, _, w, hw, hw'⟩ := jail_big k1 hs2
      rw [hv2] at hw'; cases hw'; rfl
    · rename_i hj
      simp only [Option.some.injEq] at hs2
      subst hs2
      have hj' : v.jailed = true := by simpa using hj
      exact (k2.valsRel a v v2 hv hv2).1 hj'
  refine ⟨{ v2 with tokens := 0, status := 0 }, { si with tomb := true, jailedUntil := forever }, ?_, hj2, rfl, rfl,
    ?_, rfl, rfl⟩
  · show aget (forceUnstake s2 a v2).vals a = _
    rw [B.forceUnstake_vals, B.aget_aset_self]
  · show aget (aset (forceUnstake s2 a v2).sign a _) a = _
    rw [B.aget_aset_self]

end Posmint.Props.C09
