import Posmint.Lemmas.Codec
import Posmint.Generated
import Posmint.Lemmas.CoinText
/-!
# C20 — Encodings round-trip, sign bytes are canonical, malformed input is refused

The part of C20 decided in Lean: amino's varints and length-delimited fields, the text form of
`Int`, the `Coin` / `Coins` structs, the flat message types, and the store-key codecs of x/pos (power-index key,
unstaking-queue time key, inclusive end bytes, address hex).  `IsBytes b` says every element of a
byte string is below 256.
-/
namespace Posmint.Props.C20
open Posmint.Codec

def IsBytes (b : Bytes) : Prop := ∀ x ∈ b, x < 256

/-! ## varints and length-delimited fields -/

theorem uvarint_isBytes (n : Nat) : IsBytes (uvarint n) := uvarint_mem_lt n

/-- Decoding what was encoded gives the value back and consumes exactly the encoding. -/
theorem uvarint_roundtrip (n : Nat) (h : n < 2 ^ 64) (rest : Bytes) :
    decodeUvarint (uvarint n ++ rest) = some (n, rest) := decodeUvarint_uvarint n h rest

theorem uvarint_length (n : Nat) (h : n < 2 ^ 64) : (uvarint n).length ≤ 10 := uvarint_length_le_ten n h

/-- A signed 64-bit integer survives amino's (two's-complement uvarint) encoding. -/
theorem varint_roundtrip (i : Int) (hlo : -(2 : Int) ^ 63 ≤ i) (hhi : i < (2 : Int) ^ 63) (rest : Bytes) :
    decodeVarint (varint i ++ rest) = some (i, rest) := by
  unfold decodeVarint varint
  rw [decodeUvarint_uvarint _ (toU64_lt i)]
  simp [ofU64_toU64 i hlo hhi]

theorem lenPrefixed_roundtrip (bs rest : Bytes) (h : bs.length < 2 ^ 64) :
    decodeLenPrefixed (lenPrefixed bs ++ rest) = some (bs, rest) := decodeLenPrefixed_lenPrefixed bs rest h

/-- Truncated input is refused, never mis-read: a proper prefix of an encoding does not decode
to a complete value followed by nothing. -/
theorem lenPrefixed_truncated (bs : Bytes) (h : bs.length < 2 ^ 64) (k : Nat) (hk : k < (lenPrefixed bs).length) :
    decodeLenPrefixed ((lenPrefixed bs).take k) = none := decodeLenPrefixed_take bs h k hk

/-! ## Int as decimal text -/

theorem intText_roundtrip (i : Int) (h : i.natAbs < 2 ^ 255) : parseIntText (intText i) = some i := parseIntText_intText i h

theorem intText_injective (i j : Int) (h : intText i = intText j) : i = j := intText_inj i j h

/-- Out-of-range integers are refused on decoding (the 255-bit check). -/
theorem parseIntText_range (bs : Bytes) (i : Int) (h : parseIntText bs = some i) : i.natAbs < 2 ^ 255 := parseIntText_natAbs_lt bs i h

/-! ## Coin and Coins -/

theorem coin_roundtrip (c : Coin) (ha : c.amount.natAbs < 2 ^ 255) (hl : c.denom.length < 2 ^ 64) :
    decodeCoin (encodeCoin c) = some c := decodeCoin_encodeCoin c ha hl

/-- STATEMENT REPAIRED: the bound on the denom was `c.denom.length < 2 ^ 64`, which is not enough: each
coin is itself length-delimited inside `Coins`, so the whole encoded coin (denom + up to 100 bytes of
framing and amount text) must stay below 2^64 bytes; see `coins_roundtrip_needs_bound` below. -/
theorem coins_roundtrip (cs : List Coin) (ha : ∀ c ∈ cs, c.amount.natAbs < 2 ^ 255 ∧ c.denom.length < 2 ^ 63) :
    decodeCoins (encodeCoins cs) = some cs := by
  have e63 : (2:Nat) ^ 63 = 9223372036854775808 := by decide
  have e64 : (2:Nat) ^ 64 = 18446744073709551616 := by decide
  unfold decodeCoins
  apply decodeCoinsAux_encodeCoins
  · intro c hc
    obtain ⟨h1, h2⟩ := ha c hc
    have h3 : c.denom.length < 2 ^ 64 := by omega
    have := encodeCoin_length_le c h1 h3
    exact ⟨h1, h3, by omega⟩
  · have := encodeCoins_length_ge cs; omega

/-- The original bound `c.denom.length < 2 ^ 64` of `coins_roundtrip` is insufficient: a single coin whose
denom has `2^64 - 1` bytes encodes to at least `2^64` bytes, and its length prefix is refused by the
uvarint decoder. -/
theorem coins_roundtrip_needs_bound :
    ∃ cs : List Coin, (∀ c ∈ cs, c.amount.natAbs < 2 ^ 255 ∧ c.denom.length < 2 ^ 64) ∧
      decodeCoins (encodeCoins cs) ≠ some cs := by
  obtain ⟨d, hd⟩ : ∃ d : Bytes, d.length = 2 ^ 64 - 1 :=
    ⟨List.replicate (2 ^ 64 - 1) 97, List.length_replicate⟩
  have e64 : (2:Nat) ^ 64 = 18446744073709551616 := by decide
  refine ⟨[⟨d, 0⟩], ?_, ?_⟩
  · intro c hc
    rw [List.mem_singleton] at hc
    subst hc
    refine ⟨Nat.two_pow_pos 255, ?_⟩
    show d.length < 2 ^ 64
    omega
  · have hlen : 2 ^ 64 ≤ (encodeCoin ⟨d, 0⟩).length := by
      have := encodeCoin_length_gt ⟨d, 0⟩
      simp only at this
      omega
    rw [decodeCoins_singleton_big _ hlen]
    exact fun h => nomatch h

/-- different coins, different bytes -/
theorem encodeCoin_injective (c d : Coin) (hc : c.amount.natAbs < 2 ^ 255 ∧ c.denom.length < 2 ^ 64)
    (hd : d.amount.natAbs < 2 ^ 255 ∧ d.denom.length < 2 ^ 64) (h : encodeCoin c = encodeCoin d) : c = d := by
  have h1 := decodeCoin_encodeCoin c hc.1 hc.2
  have h2 := decodeCoin_encodeCoin d hd.1 hd.2
  rw [h, h2] at h1
  exact (Option.some.inj h1).symm

/-! ## store keys -/

/-- The power-index key decodes back to the power and the address it was built from. -/
theorem powerKey_roundtrip (pre pw : Nat) (addr : Bytes) (hp : pw < 2 ^ 64) (hl : addr.length = 20) (hb : IsBytes addr) :
    parsePowerKey (powerKey pre pw addr) = some (pw, addr) := by
  have hlen : (powerKey pre pw addr).length = 1 + 8 + 20 := by
    simp [powerKey, be8_length, hl]
  unfold parsePowerKey
  rw [hlen]
  have h8 : (be8 pw).length = 8 := be8_length pw
  have e1 : ((powerKey pre pw addr).drop 1).take 8 = be8 pw := by
    simp [powerKey, h8]
  have e2 : (powerKey pre pw addr).drop 9 = addr.map (255 - ·) := by
    simp [powerKey, h8]
  rw [e1, e2, fromBe_be8 pw hp, map_compl_compl addr hb]
  simp

/-- 8-byte big-endian preserves order. -/
theorem be8_order (p q : Nat) (hp : p < 2 ^ 64) (hq : q < 2 ^ 64) : blt (be8 p) (be8 q) = (decide (p < q)) := blt_be8 p q hp hq

/-- Power-index keys order by power, and among equal powers by descending address (so that the
reverse iteration used for the validator set visits the highest power first and, among equal
powers, the lowest address first). -/
theorem powerKey_order (pre p q : Nat) (a b : Bytes) (hp : p < 2 ^ 64) (hq : q < 2 ^ 64)
    (hla : a.length = 20) (hlb : b.length = 20) (hba : IsBytes a) (hbb : IsBytes b) :
    blt (powerKey pre p a) (powerKey pre q b) = (decide (p < q) || (decide (p = q) && blt b a)) := by
  unfold powerKey
  rw [List.cons_append, List.cons_append, blt_cons_same, blt_append_of_length_eq _ _ _ _ (by rw [be8_length, be8_length]), blt_be8 p q hp hq,
    be8_beq p q hp hq, blt_map_compl a b (by rw [hla, hlb]) hba hbb]

/-- `InclusiveEndBytes`: appending a zero byte turns an inclusive upper bound into an exclusive one. -/
theorem inclusiveEnd_spec (k key : Bytes) : blt k (key ++ [0]) = !blt key k := blt_snoc_zero k key

/-- lexicographic order on civil times -/
def civilLt (c d : Civil) : Prop :=
  c.year < d.year ∨ (c.year = d.year ∧ (c.month < d.month ∨ (c.month = d.month ∧ (c.day < d.day ∨ (c.day = d.day ∧
    (c.hour < d.hour ∨ (c.hour = d.hour ∧ (c.minute < d.minute ∨ (c.minute = d.minute ∧
      (c.second < d.second ∨ (c.second = d.second ∧ c.nano < d.nano)))))))))))

/-- the fields are within the widths of the sortable layout -/
def CivilOK (c : Civil) : Prop :=
  0 ≤ c.year ∧ c.year ≤ 9999 ∧ c.month ≤ 99 ∧ c.day ≤ 99 ∧ c.hour ≤ 99 ∧ c.minute ≤ 99 ∧ c.second ≤ 99 ∧ c.nano ≤ 999999999

theorem civilFits_of_ok (c : Civil) (hc : CivilOK c) : CivilFits c := by
  unfold CivilOK at hc
  unfold CivilFits
  omega

/-- The fixed-width zero-padded rendering is order preserving (hence injective) for years 0..9999. -/
theorem formatCivil_order (c d : Civil) (hc : CivilOK c) (hd : CivilOK d) (h : civilLt c d) :
    blt (formatCivil c) (formatCivil d) = true := by
  rw [blt_formatCivil c d (civilFits_of_ok c hc) (civilFits_of_ok d hd)]
  unfold CivilOK at hc hd
  unfold civilLt at h
  simp only [Bool.or_eq_true, Bool.and_eq_true, decide_eq_true_eq]
  omega

theorem formatCivil_injective (c d : Civil) (hc : CivilOK c) (hd : CivilOK d) (h : formatCivil c = formatCivil d) : c = d :=
  formatCivil_inj_of_fits c d (civilFits_of_ok c hc) (civilFits_of_ok d hd) hc.1 hd.1 h

theorem formatCivil_length (c : Civil) (hc : CivilOK c) : (formatCivil c).length = 29 :=
  formatCivil_length_of_fits c (civilFits_of_ok c hc)

/-! ## address hex -/

theorem hex_roundtrip (bs : Bytes) (hb : IsBytes bs) : hexDecode (hexEncode bs) = some bs := hexDecode_hexEncode bs hb

/-! ## non-vacuity (tests, labelled as such) -/
example : uvarint 300 = [172, 2] ∧ decodeUvarint [172, 2, 7] = some (300, [7]) := by
  constructor
  · rw [uvarint_big (by decide), uvarint_small (by decide)]
  · decide
example : formatCivil (civilOfNanos 0) = "1970-01-01T00:00:00.000000000".toList.map Char.toNat := by
  have e : civilOfNanos 0 = { year := 1970, month := 1, day := 1, hour := 0, minute := 0, second := 0, nano := 0 } := by
    decide +kernel
  rw [e, formatCivil_eq]
  simp only [pad, natDigits_small (show (0:Nat) < 10 by decide), natDigits_small (show (1:Nat) < 10 by decide)]
  have : natDigits (1970 : Int).toNat = [49, 57, 55, 48] := by
    show natDigits 1970 = _
    rw [natDigits_big (by decide), natDigits_big (by decide), natDigits_big (by decide), natDigits_small (by decide)]
    rfl
  rw [this]
  decide
example : civilOfNanos 951782400000000000 = { year := 2000, month := 2, day := 29, hour := 0, minute := 0, second := 0, nano := 0 } := by
  decide +kernel


/-! ## the text form of a coin -/

/-- `ParseCoin (Coin.String c) = c` for every valid coin: a denomination of the accepted pattern and an amount below
2^255 (every non-negative `Int`). -/
theorem coinText_roundtrip (d : Bytes) (n : Nat) (hd : denomOK d = true) (hn : n < 2 ^ 255) :
    parseCoinText (coinText d n) = some (d, n) := by
  have := parseCoinText_spaced d n hd hn [] [] [] rfl rfl rfl
  simpa [coinText] using this

/-- What the parser accepts is a valid coin: the denomination matches the pattern and the amount is in range. -/
theorem parseCoinText_sound (s d : Bytes) (n : Nat) (h : parseCoinText s = some (d, n)) :
    denomOK d = true ∧ n < 2 ^ 255 := parseCoinText_some h

/-- surrounding white space and white space between amount and denomination are ignored -/
theorem parseCoinText_spaces (d : Bytes) (n : Nat) (hd : denomOK d = true) (hn : n < 2 ^ 255)
    (pre mid post : Bytes) (hpre : pre.all isSpaceB = true) (hmid : mid.all isSpaceB = true) (hpost : post.all isSpaceB = true) :
    parseCoinText (pre ++ natDigits n ++ mid ++ d ++ post) = some (d, n) :=
  parseCoinText_spaced d n hd hn pre mid post hpre hmid hpost

/-- a leading zero announces octal: "017upokt" is fifteen, "08upokt" is refused -/
example : parseCoinText [48, 49, 55, 117, 112, 111, 107, 116] = some ([117, 112, 111, 107, 116], 15) ∧
    parseCoinText [48, 56, 117, 112, 111, 107, 116] = none := by
  decide

/-! ## flat messages (every field length-delimited): MsgSend, MsgBeginUnstake, MsgUnjail, MsgDAOTransfer, MsgChangeParam -/

/-- the generic field encoder has a left inverse: up to fifteen fields, each below 2^64 bytes -/
theorem fields_roundtrip (num : Nat) (fs : List Bytes) (h : num + fs.length ≤ 16) (hl : ∀ b ∈ fs, b.length < 2 ^ 64) :
    decodeFields num fs.length (encodeFields num fs) = some fs :=
  decodeFields_encodeFields num fs h hl

/-- hence different field contents never share an encoding (absent and empty being the same content) -/
theorem encodeFields_injective (num : Nat) (fs gs : List Bytes) (hlen : fs.length = gs.length) (h : num + fs.length ≤ 16)
    (hf : ∀ b ∈ fs, b.length < 2 ^ 64) (hg : ∀ b ∈ gs, b.length < 2 ^ 64)
    (e : encodeFields num fs = encodeFields num gs) : fs = gs := by
  have h1 := decodeFields_encodeFields num fs h hf
  have h2 := decodeFields_encodeFields num gs (by omega) hg
  rw [e, hlen, h2] at h1
  exact (Option.some.inj h1).symm

/-- a registered flat message type: two values with the same encoding have the same fields -/
theorem flatMsg_injective (pre : Bytes) (fs gs : List Bytes) (hlen : fs.length = gs.length) (h : fs.length ≤ 15)
    (hf : ∀ b ∈ fs, b.length < 2 ^ 64) (hg : ∀ b ∈ gs, b.length < 2 ^ 64)
    (e : encodeFlatMsg pre fs = encodeFlatMsg pre gs) : fs = gs := by
  unfold encodeFlatMsg at e
  exact encodeFields_injective 1 fs gs hlen (by omega) hf hg (List.append_cancel_left e)

/-- `MsgSend` (its own encoder in the model, compared byte for byte) is the flat message over source, destination and
the amount's text -/
theorem msgSend_is_flat (pre : Bytes) (m : MsgSend) :
    encodeMsgSend pre m = encodeFlatMsg pre [m.src, m.dst, intText m.amount] := by
  have e : intText m.amount ≠ [] := by
    unfold intText; split
    · simp
    · exact natDigits_ne_nil _
  have e' : (intText m.amount).isEmpty = false := by
    cases h : intText m.amount with
    | nil => exact absurd h e
    | cons _ _ => rfl
  simp [encodeMsgSend, encodeFlatMsg, encodeFields, e', List.append_assoc]

/-- two transfers with the same binary encoding are the same transfer -/
theorem msgSend_injective (pre : Bytes) (m1 m2 : MsgSend)
    (h1 : m1.amount.natAbs < 2 ^ 255 ∧ m1.src.length < 2 ^ 64 ∧ m1.dst.length < 2 ^ 64)
    (h2 : m2.amount.natAbs < 2 ^ 255 ∧ m2.src.length < 2 ^ 64 ∧ m2.dst.length < 2 ^ 64)
    (e : encodeMsgSend pre m1 = encodeMsgSend pre m2) : m1 = m2 := by
  rw [msgSend_is_flat, msgSend_is_flat] at e
  have b1 := intText_length_le m1.amount h1.1
  have b2 := intText_length_le m2.amount h2.1
  have e64 : (2:Nat) ^ 64 = 18446744073709551616 := by decide
  have := flatMsg_injective pre [m1.src, m1.dst, intText m1.amount] [m2.src, m2.dst, intText m2.amount] rfl (by simp) (by
      intro b hb; simp only [List.mem_cons, List.not_mem_nil, or_false] at hb
      rcases hb with rfl | rfl | rfl
      · exact h1.2.1
      · exact h1.2.2
      · omega) (by
      intro b hb; simp only [List.mem_cons, List.not_mem_nil, or_false] at hb
      rcases hb with rfl | rfl | rfl
      · exact h2.2.1
      · exact h2.2.2
      · omega) e
  simp only [List.cons.injEq, and_true] at this
  obtain ⟨e1, e2, e3⟩ := this
  have p1 := parseIntText_intText m1.amount h1.1
  have p2 := parseIntText_intText m2.amount h2.1
  rw [e3, p2] at p1
  obtain ⟨s1, d1, a1⟩ := m1
  obtain ⟨s2, d2, a2⟩ := m2
  simp only at e1 e2 p1
  subst e1 e2
  have := Option.some.inj p1
  subst this
  rfl

/-- non-vacuity: an empty destination is omitted, and the three fields come back -/
example : decodeFields 1 3 (encodeFields 1 [[7, 7], [], [52, 50]]) = some [[7, 7], [], [52, 50]] :=
  fields_roundtrip 1 [[7, 7], [], [52, 50]] (by decide) (by
    intro b hb
    simp only [List.mem_cons, List.not_mem_nil, or_false] at hb
    rcases hb with rfl | rfl | rfl <;> simp)

/-! ## stored records: structs with length-delimited and varint fields (Validator, ValidatorSigningInfo, time) -/

/-- the struct encoder has a left inverse directed by the struct's shape: up to fifteen fields, bytes fields below 2^64
bytes, varints below 2^64; absent and zero are the same content -/
theorem struct_roundtrip (num : Nat) (fs : List Fld) (h : num + fs.length ≤ 16) (hok : ∀ f ∈ fs, Fld.ok f) :
    decodeStruct num (fs.map Fld.kind) (encodeStruct num fs) = some fs :=
  decodeStruct_encodeStruct num fs h hok

/-- two values of one struct type with the same encoding have the same fields -/
theorem encodeStruct_injective (num : Nat) (fs gs : List Fld) (hk : fs.map Fld.kind = gs.map Fld.kind) (h : num + fs.length ≤ 16)
    (hf : ∀ f ∈ fs, Fld.ok f) (hg : ∀ f ∈ gs, Fld.ok f) (e : encodeStruct num fs = encodeStruct num gs) : fs = gs := by
  have hlen : fs.length = gs.length := by simpa using congrArg List.length hk
  have h1 := decodeStruct_encodeStruct num fs h hf
  have h2 := decodeStruct_encodeStruct num gs (by omega) hg
  rw [e, hk, h2] at h1
  exact (Option.some.inj h1).symm

/-- amino's time: different instants (int64 seconds, nanoseconds) have different encodings -/
theorem encodeTime_injective (s1 s2 : Int) (n1 n2 : Nat)
    (h1 : -(2 : Int) ^ 63 ≤ s1 ∧ s1 < (2 : Int) ^ 63 ∧ n1 < 2 ^ 64) (h2 : -(2 : Int) ^ 63 ≤ s2 ∧ s2 < (2 : Int) ^ 63 ∧ n2 < 2 ^ 64)
    (e : encodeTime s1 n1 = encodeTime s2 n2) : s1 = s2 ∧ n1 = n2 := by
  unfold encodeTime at e
  have := encodeStruct_injective 1 [.uint (toU64 s1), .uint n1] [.uint (toU64 s2), .uint n2] rfl (by simp)
    (by intro f hf; simp only [List.mem_cons, List.not_mem_nil, or_false] at hf
        rcases hf with rfl | rfl
        · exact toU64_lt s1
        · exact h1.2.2)
    (by intro f hf; simp only [List.mem_cons, List.not_mem_nil, or_false] at hf
        rcases hf with rfl | rfl
        · exact toU64_lt s2
        · exact h2.2.2) e
  simp only [List.cons.injEq, Fld.uint.injEq, and_true] at this
  refine ⟨?_, this.2⟩
  have a := ofU64_toU64 s1 h1.1 h1.2.1
  have b := ofU64_toU64 s2 h2.1 h2.2.1
  rw [this.1] at a; rw [a] at b; exact b

/-- an upgrade plan (`gov.Upgrade`: an int64 height and a version) in amino binary: plans that differ in height - by one, at any
magnitude up to 2^63 - or in version have different encodings (the JSON sign bytes, which a float64 detour would blur beyond 2^53,
are judged by the monitors; this is the binary side) -/
theorem upgradePlan_injective (h1 h2 : Int) (v1 v2 : Bytes)
    (r1 : -(2 : Int) ^ 63 ≤ h1 ∧ h1 < (2 : Int) ^ 63 ∧ v1.length < 2 ^ 64) (r2 : -(2 : Int) ^ 63 ≤ h2 ∧ h2 < (2 : Int) ^ 63 ∧ v2.length < 2 ^ 64)
    (e : encodeStruct 1 [.uint (toU64 h1), .bytes v1] = encodeStruct 1 [.uint (toU64 h2), .bytes v2]) : h1 = h2 ∧ v1 = v2 := by
  have := encodeStruct_injective 1 [.uint (toU64 h1), .bytes v1] [.uint (toU64 h2), .bytes v2] rfl (by simp)
    (by intro f hf; simp only [List.mem_cons, List.not_mem_nil, or_false] at hf
        rcases hf with rfl | rfl
        · exact toU64_lt h1
        · exact r1.2.2)
    (by intro f hf; simp only [List.mem_cons, List.not_mem_nil, or_false] at hf
        rcases hf with rfl | rfl
        · exact toU64_lt h2
        · exact r2.2.2) e
  simp only [List.cons.injEq, Fld.uint.injEq, Fld.bytes.injEq, and_true] at this
  refine ⟨?_, this.2⟩
  have a := ofU64_toU64 h1 r1.1 r1.2.1
  have b := ofU64_toU64 h2 r2.1 r2.2.1
  rw [this.1] at a; rw [a] at b; exact b

theorem encodeTime_length_le (s : Int) (n : Nat) (hn : n < 2 ^ 64) : (encodeTime s n).length ≤ 22 := by
  have a := uvarint_length_le_ten (toU64 s) (toU64_lt s)
  have b := uvarint_length_le_ten n hn
  unfold encodeTime
  simp only [encodeStruct, encodeFld, fieldKey0_small 1 (by omega), fieldKey0_small 2 (by omega)]
  split <;> split <;> simp <;> omega

/-- the range of a validator record: what `sdk.Int`, `int64` seconds and byte slices can hold -/
def VInRange (v : ValidatorRec) : Prop :=
  v.addr.length < 2 ^ 64 ∧ v.pk.length < 2 ^ 64 ∧ v.status < 2 ^ 64 ∧ v.tokens.natAbs < 2 ^ 255 ∧
    -(2 : Int) ^ 63 ≤ v.secs ∧ v.secs < (2 : Int) ^ 63 ∧ v.nanos < 2 ^ 64

theorem validatorFields_ok (v : ValidatorRec) (h : VInRange v) : ∀ f ∈ validatorFields v, Fld.ok f := by
  obtain ⟨h1, h2, h3, h4, h5, h6, h7⟩ := h
  have e64 : (2:Nat) ^ 64 = 18446744073709551616 := by decide
  have b1 := intText_length_le v.tokens h4
  have b2 := encodeTime_length_le v.secs v.nanos h7
  intro f hf
  simp only [validatorFields, List.mem_cons, List.not_mem_nil, or_false] at hf
  rcases hf with rfl | rfl | rfl | rfl | rfl | rfl
  · exact h1
  · exact h2
  · show (if v.jailed then 1 else 0) < 2 ^ 64; split <;> omega
  · exact h3
  · show (intText v.tokens).length < 2 ^ 64; omega
  · show (encodeTime v.secs v.nanos).length < 2 ^ 64; omega

/-- the stored form of a validator decodes back to its fields -/
theorem validator_roundtrip (v : ValidatorRec) (h : VInRange v) :
    decodeStruct 1 [true, true, false, false, true, true] (encodeValidator v) = some (validatorFields v) :=
  struct_roundtrip 1 (validatorFields v) (by simp [validatorFields]) (validatorFields_ok v h)

/-- two validator records with the same stored bytes are the same record -/
theorem validator_injective (v w : ValidatorRec) (hv : VInRange v) (hw : VInRange w)
    (e : encodeValidator v = encodeValidator w) : v = w := by
  have hfs := encodeStruct_injective 1 (validatorFields v) (validatorFields w) rfl (by simp [validatorFields])
    (validatorFields_ok v hv) (validatorFields_ok w hw) e
  simp only [validatorFields, List.cons.injEq, Fld.bytes.injEq, Fld.uint.injEq, and_true] at hfs
  obtain ⟨e1, e2, e3, e4, e5, e6⟩ := hfs
  have p1 := parseIntText_intText v.tokens hv.2.2.2.1
  have p2 := parseIntText_intText w.tokens hw.2.2.2.1
  rw [e5, p2] at p1
  have et := encodeTime_injective v.secs w.secs v.nanos w.nanos ⟨hv.2.2.2.2.1, hv.2.2.2.2.2.1, hv.2.2.2.2.2.2⟩
    ⟨hw.2.2.2.2.1, hw.2.2.2.2.2.1, hw.2.2.2.2.2.2⟩ e6
  obtain ⟨a1, k1, j1, s1, t1, c1, n1⟩ := v
  obtain ⟨a2, k2, j2, s2, t2, c2, n2⟩ := w
  simp only at e1 e2 e3 e4 p1 et
  have ej : j1 = j2 := by
    cases j1 <;> cases j2 <;> simp at e3 <;> rfl
  have := Option.some.inj p1
  obtain ⟨ec, en⟩ := et
  subst e1 e2 ej e4 this ec en
  rfl

/-- non-vacuity: a jailed, unstaking validator with 5 tokens maturing at second 7, nanosecond 9 is in range -/
example : VInRange ⟨[1, 2], [9, 9], true, 2, 5, 7, 9⟩ := by
  unfold VInRange; simp

def I64 (x : Int) : Prop := -(2 : Int) ^ 63 ≤ x ∧ x < (2 : Int) ^ 63

theorem toU64_injective (a b : Int) (ha : I64 a) (hb : I64 b) (e : toU64 a = toU64 b) : a = b := by
  have x := ofU64_toU64 a ha.1 ha.2
  have y := ofU64_toU64 b hb.1 hb.2
  rw [e] at x; rw [x] at y; exact y

def SInRange (v : SigningRec) : Prop :=
  v.addr.length < 2 ^ 64 ∧ I64 v.start ∧ I64 v.offset ∧ I64 v.secs ∧ v.nanos < 2 ^ 64 ∧ I64 v.missed

theorem signingFields_ok (v : SigningRec) (h : SInRange v) : ∀ f ∈ signingFields v, Fld.ok f := by
  obtain ⟨h1, _, _, _, h5, _⟩ := h
  have e64 : (2:Nat) ^ 64 = 18446744073709551616 := by decide
  have b2 := encodeTime_length_le v.secs v.nanos h5
  intro f hf
  simp only [signingFields, List.mem_cons, List.not_mem_nil, or_false] at hf
  rcases hf with rfl | rfl | rfl | rfl | rfl | rfl
  · exact h1
  · exact toU64_lt _
  · exact toU64_lt _
  · show (encodeTime v.secs v.nanos).length < 2 ^ 64; omega
  · show (if v.tombstoned then 1 else 0) < 2 ^ 64; split <;> omega
  · exact toU64_lt _

/-- two signing-info records with the same stored bytes are the same record -/
theorem signing_injective (v w : SigningRec) (hv : SInRange v) (hw : SInRange w)
    (e : encodeSigning v = encodeSigning w) : v = w := by
  have hfs := encodeStruct_injective 1 (signingFields v) (signingFields w) rfl (by simp [signingFields])
    (signingFields_ok v hv) (signingFields_ok w hw) e
  simp only [signingFields, List.cons.injEq, Fld.bytes.injEq, Fld.uint.injEq, and_true] at hfs
  obtain ⟨e1, e2, e3, e4, e5, e6⟩ := hfs
  obtain ⟨_, a1, a2, a3, a4, a5⟩ := hv
  obtain ⟨_, b1, b2, b3, b4, b5⟩ := hw
  have et := encodeTime_injective v.secs w.secs v.nanos w.nanos ⟨a3.1, a3.2, a4⟩ ⟨b3.1, b3.2, b4⟩ e4
  have s1 := toU64_injective _ _ a1 b1 e2
  have s2 := toU64_injective _ _ a2 b2 e3
  have s3 := toU64_injective _ _ a5 b5 e6
  obtain ⟨x1, x2, x3, x4, x5, x6, x7⟩ := v
  obtain ⟨y1, y2, y3, y4, y5, y6, y7⟩ := w
  simp only at e1 e5 et s1 s2 s3
  have ej : x6 = y6 := by
    cases x6 <;> cases y6 <;> simp at e5 <;> rfl
  obtain ⟨ec, en⟩ := et
  subst e1 s1 s2 s3 ej ec en
  rfl

/-! ## the transaction itself -/

/-- two transactions with the same bytes are the same transaction: message, fee, key, signature, memo and entropy -/
theorem stdTx_injective (pre : Bytes) (t u : StdTxRec) (ht : StdTxInRange t) (hu : StdTxInRange u)
    (e : encodeStdTx pre t = encodeStdTx pre u) : t = u := by
  unfold encodeStdTx at e
  have ec := List.append_cancel_left e
  have d1 := decodeStdTxCore_encode t ht
  have d2 := decodeStdTxCore_encode u hu
  rw [ec, d2] at d1
  simp only [Option.some.injEq, Prod.mk.injEq] at d1
  obtain ⟨em, ef, etl⟩ := d1
  simp only [stdTxTail, List.cons.injEq, Fld.bytes.injEq, Fld.uint.injEq, and_true] at etl
  obtain ⟨es, ememo, eent⟩ := etl
  have hs := encodeStruct_injective 1 [.bytes u.pk, .bytes u.sig] [.bytes t.pk, .bytes t.sig] rfl (by simp)
    (by intro f hf; simp only [List.mem_cons, List.not_mem_nil, or_false] at hf
        have e32 : (2:Nat) ^ 32 = 4294967296 := by decide
        have e64 : (2:Nat) ^ 64 = 18446744073709551616 := by decide
        rcases hf with rfl | rfl
        · show u.pk.length < 2 ^ 64; have := hu.2.2.1; omega
        · show u.sig.length < 2 ^ 64; have := hu.2.2.2.1; omega)
    (by intro f hf; simp only [List.mem_cons, List.not_mem_nil, or_false] at hf
        have e32 : (2:Nat) ^ 32 = 4294967296 := by decide
        have e64 : (2:Nat) ^ 64 = 18446744073709551616 := by decide
        rcases hf with rfl | rfl
        · show t.pk.length < 2 ^ 64; have := ht.2.2.1; omega
        · show t.sig.length < 2 ^ 64; have := ht.2.2.2.1; omega) es
  simp only [List.cons.injEq, Fld.bytes.injEq, and_true] at hs
  have eent' := toU64_injective u.entropy t.entropy ⟨hu.2.2.2.2.2.1, hu.2.2.2.2.2.2⟩ ⟨ht.2.2.2.2.2.1, ht.2.2.2.2.2.2⟩ eent
  obtain ⟨a1, a2, a3, a4, a5, a6⟩ := t
  obtain ⟨b1, b2, b3, b4, b5, b6⟩ := u
  simp only at em ef ememo eent' hs
  obtain ⟨h3, h4⟩ := hs
  subst em ef ememo eent' h3 h4
  rfl

/-- the range of an account record -/
def AccountInRange (a : AccountRec) : Prop :=
  a.addr.length < 2 ^ 64 ∧ (∀ c ∈ a.coins, c.amount.natAbs < 2 ^ 255 ∧ c.denom.length < 2 ^ 63) ∧ a.pk.length < 2 ^ 64

/-- two stored accounts with the same bytes are the same account: address, every coin, key -/
theorem account_injective (pre : Bytes) (a b : AccountRec) (ha : AccountInRange a) (hb : AccountInRange b)
    (e : encodeAccount pre a = encodeAccount pre b) : a = b := by
  unfold encodeAccount at e
  have ec := List.append_cancel_left e
  have d1 := decodeMFT_encodeMFT a.addr a.coins [.bytes a.pk] ha.1 ha.2.1 (by simp) (by
    intro f hf; simp only [List.mem_cons, List.not_mem_nil, or_false] at hf; subst hf; exact ha.2.2)
  have d2 := decodeMFT_encodeMFT b.addr b.coins [.bytes b.pk] hb.1 hb.2.1 (by simp) (by
    intro f hf; simp only [List.mem_cons, List.not_mem_nil, or_false] at hf; subst hf; exact hb.2.2)
  have hk : ([Fld.bytes a.pk].map Fld.kind) = ([Fld.bytes b.pk].map Fld.kind) := rfl
  rw [ec, hk, d2] at d1
  simp only [Option.some.injEq, Prod.mk.injEq, List.cons.injEq, Fld.bytes.injEq, and_true] at d1
  obtain ⟨e1, e2, e3⟩ := d1
  obtain ⟨a1, a2, a3⟩ := a
  obtain ⟨b1, b2, b3⟩ := b
  simp only at e1 e2 e3
  subst e1 e2 e3
  rfl

/-- non-vacuity: a transfer with a two-coin fee, a key, a signature, a memo and a negative entropy is in range -/
example : StdTxInRange ⟨[1, 2, 3], [⟨[97, 98, 99], 9⟩, ⟨[117], 5⟩], [7], [9, 9], [109], -3⟩ := by
  unfold StdTxInRange
  refine ⟨by simp, ?_, by simp, by simp, by simp, by decide, by decide⟩
  intro c hc
  simp only [List.mem_cons, List.not_mem_nil, or_false] at hc
  rcases hc with rfl | rfl <;> simp

/-! ## the shapes the struct models assume, against the declarations regenerated from the Go source

`Generated.schema…` lists each struct's fields (name, declared type) as `factx` reads them from the current source on
every run.  The theorems below fail to compile when a field is added, removed, reordered or retyped: the model of the
encoding would then no longer be the model of that struct. -/

/-- how a declared field type travels: `true` length-delimited, `false` varint (`sdk.Coins`, a repeated field, apart) -/
def wireOf : String → Option Bool
  | "sdk.Address" => some true
  | "crypto.PublicKey" => some true
  | "posCrypto.PublicKey" => some true
  | "sdk.Int" => some true
  | "Int" => some true
  | "time.Time" => some true
  | "string" => some true
  | "[]byte" => some true
  | "sdk.Msg" => some true
  | "StdSignature" => some true
  | "bool" => some false
  | "sdk.StakeStatus" => some false
  | "int64" => some false
  | _ => none

theorem validator_shape (v : ValidatorRec) :
    Generated.schemaValidator.map (fun f => wireOf f.2) = (validatorFields v).map (fun f => some f.kind) := by
  simp [Generated.schemaValidator, wireOf, validatorFields, Fld.kind]

theorem signing_shape (v : SigningRec) :
    Generated.schemaSigningInfo.map (fun f => wireOf f.2) = (signingFields v).map (fun f => some f.kind) := by
  simp [Generated.schemaSigningInfo, wireOf, signingFields, Fld.kind]

/-- the five flat messages: every declared field is length-delimited, in the order the harness passes them -/
theorem flat_messages_shape :
    Generated.schemaMsgSend.map (fun f => wireOf f.2) = [some true, some true, some true] ∧
    Generated.schemaMsgBeginUnstake.map (fun f => wireOf f.2) = [some true] ∧
    Generated.schemaMsgUnjail.map (fun f => wireOf f.2) = [some true] ∧
    Generated.schemaMsgDAOTransfer.map (fun f => wireOf f.2) = [some true, some true, some true, some true] ∧
    Generated.schemaMsgChangeParam.map (fun f => wireOf f.2) = [some true, some true, some true] := by
  simp [Generated.schemaMsgSend, Generated.schemaMsgBeginUnstake, Generated.schemaMsgUnjail, Generated.schemaMsgDAOTransfer,
    Generated.schemaMsgChangeParam, wireOf]

/-- the two messages that are not flat: a stake carries a registered key and an Int; an upgrade an address and a nested plan
of an int64 height and a version - the token shapes of the `amsg2` operation -/
theorem stake_upgrade_shape :
    Generated.schemaMsgStake.map (fun f => wireOf f.2) = [some true, some true] ∧
    Generated.schemaMsgUpgrade.map (·.2) = ["sdk.Address", "Upgrade"] ∧
    Generated.schemaUpgrade.map (fun f => wireOf f.2) = [some false, some true] := by
  simp [Generated.schemaMsgStake, Generated.schemaMsgUpgrade, Generated.schemaUpgrade, wireOf]

/-- the stored account: address, coins (repeated), key - the layout of `encodeAccount` -/
theorem account_shape :
    Generated.schemaBaseAccount.map (·.2) = ["sdk.Address", "sdk.Coins", "crypto.PublicKey"] := by
  simp [Generated.schemaBaseAccount]

/-- the transaction: message, repeated fee, signature struct (key, bytes), memo, entropy - the layout of `encodeStdTx` -/
theorem stdTx_shape :
    Generated.schemaStdTx.map (·.2) = ["sdk.Msg", "sdk.Coins", "StdSignature", "string", "int64"] ∧
    Generated.schemaStdSignature.map (fun f => wireOf f.2) = [some true, some true] ∧
    Generated.schemaCoin.map (fun f => wireOf f.2) = [some true, some true] := by
  simp [Generated.schemaStdTx, Generated.schemaStdSignature, Generated.schemaCoin, wireOf]

end Posmint.Props.C20
