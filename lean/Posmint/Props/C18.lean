import Posmint.Lemmas.Arith
/-!
# C18 — Integer, decimal and coin arithmetic is exact and overflow-safe

Property theorems only.  `none` is a Go panic.  `InRange` is the type invariant of
`sdk.Int` (every constructor checks `BitLen ≤ 255`).
-/
namespace Posmint.Props.C18
open Posmint.Arith

def InRange (a : Int) : Prop := a.natAbs < 2 ^ 255
def URange (a : Int) : Prop := 0 ≤ a ∧ a.natAbs < 2 ^ 256
def DRange (a : Int) : Prop := a.natAbs < 2 ^ 315

/-- Half-to-even rounding of the rational `x / p` to the integer `r`. -/
def IsRHE (x p r : Int) : Prop :=
  2 * (x - r * p).natAbs ≤ p.natAbs ∧ (2 * (x - r * p).natAbs = p.natAbs → r % 2 = 0)

/-! ## Int -/

theorem intAdd_exact (a b : Int) :
    intAdd a b = if (a + b).natAbs < 2 ^ 255 then some (a + b) else none := by
  unfold intAdd; simp only [bitLen_gt_iff, maxBitLen, Generated.maxBitLen]
  split <;> split <;> first | rfl | omega

theorem intSub_exact (a b : Int) :
    intSub a b = if (a - b).natAbs < 2 ^ 255 then some (a - b) else none := by
  unfold intSub; simp only [bitLen_gt_iff, maxBitLen, Generated.maxBitLen]
  split <;> split <;> first | rfl | omega

theorem pow_bitLen_pred_le (n : Nat) (h : n ≠ 0) : 2 ^ (bitLen n - 1) ≤ n := by
  have := (bitLen_gt_iff n (bitLen n - 1)).1
  have h0 : bitLen n ≠ 0 := by unfold bitLen; simp [h]
  exact this (by omega)

/-- The pre-check of `Int.Mul` (`BitLen a + BitLen b - 1 > 255`) is neither too strict nor
too lax: on in-range operands `Mul` panics exactly when the exact product is out of range. -/
theorem intMul_exact (a b : Int) (ha : InRange a) (hb : InRange b) :
    intMul a b = if (a * b).natAbs < 2 ^ 255 then some (a * b) else none := by
  unfold intMul; simp only [maxBitLen, Generated.maxBitLen]
  have hla : bitLen a.natAbs ≤ 255 := (bitLen_le_iff _ _).2 ha
  have hlb : bitLen b.natAbs ≤ 255 := (bitLen_le_iff _ _).2 hb
  by_cases hpre : bitLen a.natAbs + bitLen b.natAbs - 1 > 255
  · rw [if_pos hpre]
    have ha0 : a.natAbs ≠ 0 := by
      intro h; have : bitLen a.natAbs = 0 := by simp [bitLen, h]
      omega
    have hb0 : b.natAbs ≠ 0 := by
      intro h; have : bitLen b.natAbs = 0 := by simp [bitLen, h]
      omega
    have h1 := pow_bitLen_pred_le _ ha0
    have h2 := pow_bitLen_pred_le _ hb0
    have h3 : 2 ^ (bitLen a.natAbs - 1) * 2 ^ (bitLen b.natAbs - 1) ≤ a.natAbs * b.natAbs :=
      Nat.mul_le_mul h1 h2
    rw [← Nat.pow_add] at h3
    have h4 : 2 ^ 255 ≤ 2 ^ (bitLen a.natAbs - 1 + (bitLen b.natAbs - 1)) :=
      Nat.pow_le_pow_right (by decide) (by omega)
    have : ¬ (a * b).natAbs < 2 ^ 255 := by rw [Int.natAbs_mul]; omega
    rw [if_neg this]
  · rw [if_neg hpre]; simp only [bitLen_gt_iff]
    split <;> split <;> first | rfl | omega

theorem intQuo_exact (a b : Int) :
    intQuo a b = if b = 0 then none else some (Int.tdiv a b) := rfl

/-- `Quo` stays in range, so needs no check. -/
theorem intQuo_inRange (a b q : Int) (ha : InRange a) (h : intQuo a b = some q) : InRange q := by
  unfold intQuo at h; split at h <;> simp at h
  subst h; unfold InRange at *
  rw [Int.natAbs_tdiv]
  exact Nat.lt_of_le_of_lt (Nat.div_le_self _ _) ha

theorem intMod_exact (a b r : Int) (h : intMod a b = some r) :
    b ≠ 0 ∧ 0 ≤ r ∧ r < b.natAbs ∧ b ∣ a - r := by
  unfold intMod at h; split at h <;> simp at h
  rename_i hb; subst h
  refine ⟨hb, Int.emod_nonneg _ hb, Int.emod_lt _ hb, ?_⟩
  have := Int.dvd_sub_self_of_emod_eq (a := a) (b := b) rfl
  have h2 : a - a % b = -(a % b - a) := by omega
  show b ∣ a - a % b
  rw [h2]; exact Int.dvd_neg.mpr this

/-! ## Uint -/

theorem uintCheck_exact (i : Int) :
    uintCheck i = if 0 ≤ i ∧ i.natAbs < 2 ^ 256 then some i else none := by
  unfold uintCheck; simp only [bitLen_gt_iff]
  by_cases h0 : i < 0
  · rw [if_pos h0, if_neg (by omega)]
  · rw [if_neg h0]; split <;> split <;> first | rfl | omega

theorem uintAdd_exact (a b : Int) :
    uintAdd a b = if 0 ≤ a + b ∧ (a + b).natAbs < 2 ^ 256 then some (a + b) else none :=
  uintCheck_exact _
theorem uintSub_exact (a b : Int) :
    uintSub a b = if 0 ≤ a - b ∧ (a - b).natAbs < 2 ^ 256 then some (a - b) else none :=
  uintCheck_exact _
theorem uintMul_exact (a b : Int) :
    uintMul a b = if 0 ≤ a * b ∧ (a * b).natAbs < 2 ^ 256 then some (a * b) else none :=
  uintCheck_exact _

/-! ## Dec: rounding modes -/

/-- Half-to-even rounding is unique, so `IsRHE` characterises the result. -/
theorem rhe_unique (x r r' : Int) (h : IsRHE x P r) (h' : IsRHE x P r') : r = r' := by
  unfold IsRHE at *; rw [P_eq] at *; omega

theorem chopRoundNonneg_spec (x : Int) (_hx : 0 ≤ x) : IsRHE x P (chopRoundNonneg x) := by
  unfold IsRHE chopRoundNonneg; rw [P_eq, half_eq]
  simp only []
  split
  · omega
  · split
    · omega
    · split
      · omega
      · split <;> omega

/-- `chopPrecisionAndRound` is round-half-to-even for every sign. -/
theorem chopRound_spec (x : Int) : IsRHE x P (chopRound x) := by
  unfold chopRound
  split
  · have := chopRoundNonneg_spec (-x) (by omega)
    unfold IsRHE at *; rw [P_eq] at *; omega
  · exact chopRoundNonneg_spec x (by omega)

/-- `chopPrecisionAndTruncate` rounds toward zero. -/
theorem chopTrunc_spec (x : Int) :
    (chopTrunc x * P - x).natAbs < P.natAbs ∧ (chopTrunc x * P).natAbs ≤ x.natAbs ∧
      (0 ≤ x → 0 ≤ chopTrunc x) ∧ (x ≤ 0 → chopTrunc x ≤ 0) := by
  unfold chopTrunc; rw [P_eq]
  rcases Int.le_total 0 x with h | h
  · rw [Int.tdiv_eq_ediv_of_nonneg h]; omega
  · have : x.tdiv 1000000000000000000 = -((-x) / 1000000000000000000) := by
      rw [← Int.tdiv_eq_ediv_of_nonneg (by omega), Int.neg_tdiv, Int.neg_neg]
    rw [this]; omega

/-- `chopPrecisionAndRoundUp` is the ceiling. -/
theorem chopRoundUp_spec (x : Int) :
    x ≤ chopRoundUp x * P ∧ chopRoundUp x * P < x + P := by
  unfold chopRoundUp
  split
  · have := chopTrunc_spec (-x)
    rw [P_eq] at *
    have h2 : chopTrunc (-x) = (-x) / 1000000000000000000 := by
      unfold chopTrunc; rw [P_eq, Int.tdiv_eq_ediv_of_nonneg (by omega)]
    rw [h2]; omega
  · rw [P_eq]; simp only []; split <;> omega

/-! ## Dec: operations -/

theorem decCheck_exact (c : Int) :
    decCheck c = if c.natAbs < 2 ^ 315 then some c else none := by
  unfold decCheck; simp only [bitLen_gt_iff, decBits, Generated.maxBitLen, Generated.decimalPrecisionBits, Nat.reduceAdd]
  split <;> split <;> first | rfl | omega

theorem decAdd_exact (a b : Int) :
    decAdd a b = if (a + b).natAbs < 2 ^ 315 then some (a + b) else none := decCheck_exact _
theorem decSub_exact (a b : Int) :
    decSub a b = if (a - b).natAbs < 2 ^ 315 then some (a - b) else none := decCheck_exact _

/-- `Dec.Mul`: the result is the half-to-even rounding of the exact product at 18 decimals,
and it panics exactly when that rounded value does not fit 315 bits. -/
theorem decMul_spec (a b : Int) :
    (∀ c, decMul a b = some c → IsRHE (a * b) P c ∧ c.natAbs < 2 ^ 315) ∧
    (decMul a b = none → ∀ c, IsRHE (a * b) P c → ¬ c.natAbs < 2 ^ 315) := by
  unfold decMul; rw [decCheck_exact]
  have hs := chopRound_spec (a * b)
  constructor
  · intro c h; split at h <;> simp at h
    subst h; exact ⟨hs, by assumption⟩
  · intro h c hc; split at h <;> simp at h
    have := rhe_unique _ _ _ hs hc; subst this; assumption

theorem decMulTruncate_spec (a b c : Int) (h : decMulTruncate a b = some c) :
    c = Int.tdiv (a * b) P ∧ c.natAbs < 2 ^ 315 := by
  unfold decMulTruncate at h; rw [decCheck_exact] at h; split at h <;> simp at h
  subst h; exact ⟨rfl, by assumption⟩

theorem decRoundInt_spec (a : Int) :
    (∀ c, decRoundInt a = some c → IsRHE a P c ∧ InRange c) ∧
    (decRoundInt a = none → ∀ c, IsRHE a P c → ¬ InRange c) := by
  unfold decRoundInt intOfBig InRange; simp only [bitLen_gt_iff, maxBitLen, Generated.maxBitLen]
  have hs := chopRound_spec a
  constructor
  · intro c h; split at h <;> simp at h
    subst h; exact ⟨hs, by omega⟩
  · intro h c hc; split at h <;> simp at h
    have := rhe_unique _ _ _ hs hc; subst this; omega

theorem decTruncateInt_spec (a : Int) :
    decTruncateInt a = if (Int.tdiv a P).natAbs < 2 ^ 255 then some (Int.tdiv a P) else none := by
  unfold decTruncateInt intOfBig chopTrunc; simp only [bitLen_gt_iff, maxBitLen, Generated.maxBitLen]
  split <;> split <;> first | rfl | omega

/-- `Ceil` is the smallest integer-valued decimal not below `a`. -/
theorem decCeil_spec (a : Int) :
    P ∣ decCeil a ∧ a ≤ decCeil a ∧ decCeil a < a + P := by
  unfold decCeil; rw [P_eq]; simp only []
  have h1 := Int.tmod_add_mul_tdiv a 1000000000000000000
  have h2 := Int.tmod_lt_of_pos a (b := 1000000000000000000) (by decide)
  have h3 : -1000000000000000000 < a.tmod 1000000000000000000 := by
    have := Int.lt_tmod_of_pos a (b := 1000000000000000000) (by decide); omega
  split
  · exact ⟨Int.dvd_mul_left _ _, by omega, by omega⟩
  · split
    · exact ⟨Int.dvd_mul_left _ _, by omega, by omega⟩
    · exact ⟨Int.dvd_mul_left _ _, by omega, by omega⟩

/-! ## Non-vacuity: concrete instances of the rounding cases (tests, labelled as such) -/
example : chopRound 2500000000000000000 = 2 ∧ chopRound 3500000000000000000 = 4 ∧
    chopRound (-2500000000000000000) = -2 ∧ chopRound 2500000000000000001 = 3 := by decide
example : intMul (2 ^ 127) (2 ^ 127) = some (2 ^ 254) ∧ intMul (2 ^ 127) (2 ^ 128) = none := by decide

end Posmint.Props.C18
