import Posmint.Model.Coins
import Posmint.Props.C18
import Posmint.Lemmas.Coins
/-!
# C18, the Coins part — canonical form, Add/Sub inverse, comparisons per denomination

Statements over `Posmint.Model.Coins` (`types/coin.go`).  `none` is a Go panic.  The spec side is the
per-denomination amount `amt cs d` (a plain lookup) and the canonical form `Canon` (strictly ascending
denominations, positive amounts).  That valid operands are never mutated cannot be said about a functional
model: it is checked on the implementation by the correspondence run's monitor.
-/
namespace Posmint.Props.C18Coins
open Posmint.Coins Posmint.Arith Posmint.Props.C18

/-- per-denomination amount: the first coin of that denomination, 0 if there is none -/
def amt (cs : Coins) (d : String) : Int := ((cs.find? (fun c => c.1 == d)).map (·.2)).getD 0

/-- strictly ascending denominations (sorted, no duplicates) -/
def Sorted (cs : Coins) : Prop := (cs.map (·.1)).Pairwise (· < ·)
/-- the canonical form: sorted by denomination, no duplicates, only positive amounts -/
def Canon (cs : Coins) : Prop := Sorted cs ∧ ∀ c ∈ cs, 0 < c.2
/-- every amount satisfies the type invariant of `sdk.Int` -/
def AllInRange (cs : Coins) : Prop := ∀ c ∈ cs, InRange c.2
/-- every denomination matches the denomination syntax -/
def DenomsOK (cs : Coins) : Prop := ∀ c ∈ cs, denomOK c.1 = true

theorem amt_eq : amt = amtL := rfl
theorem sorted_iff (cs : Coins) : Sorted cs ↔ SortedL cs := Iff.rfl

/-! ### canonical form -/

theorem isValid_canon (cs : Coins) (h : isValid cs = true) : Canon cs := by
  exact isValid_spec cs h

theorem canon_isValid (cs : Coins) (h : Canon cs) (hd : DenomsOK cs) : isValid cs = true := by
  exact isValid_of cs h.1 h.2 hd

/-- observation (not required by the property): `IsValid` applies the denomination syntax to the first coin only -/
theorem isValid_checks_first_denom_only : isValid [("abc", 1), ("b", 1)] = true ∧ denomOK "b" = false := by
  decide

/-- two sets in canonical form (even with negative amounts, as inside `SafeSub`) with the same amount for
every denomination are the same list -/
theorem sorted_nonzero_ext (a b : Coins) (ha : Sorted a) (hb : Sorted b) (hza : ∀ c ∈ a, c.2 ≠ 0) (hzb : ∀ c ∈ b, c.2 ≠ 0)
    (h : ∀ d, amt a d = amt b d) : a = b := by
  exact sorted_nonzero_extL a b ha hb hza hzb h

/-- the binary search of `AmountOf` is the per-denomination amount on sorted sets -/
theorem amountOf_spec (cs : Coins) (d : String) (h : Sorted cs) :
    amountOf cs d = if denomOK d then some (amt cs d) else none := by
  exact amountOf_specL cs d h

/-! ### Add -/

/-- `safeAdd` keeps sorted operands sorted, drops zero results, and adds per denomination -/
theorem safeAdd_spec (a b c : Coins) (ha : Sorted a) (hb : Sorted b) (h : safeAdd a b = some c) :
    Sorted c ∧ (∀ x ∈ c, x.2 ≠ 0) ∧ ∀ d, amt c d = amt a d + amt b d := by
  exact safeAdd_specL a b c ha hb h

/-- it panics exactly when a per-denomination sum leaves the Int range -/
theorem safeAdd_none_iff (a b : Coins) (ha : Sorted a) (hb : Sorted b) :
    safeAdd a b = none ↔ ∃ x ∈ a, ∃ y ∈ b, x.1 = y.1 ∧ intAdd x.2 y.2 = none := by
  exact safeAdd_none_iffL a b ha hb

/-- Add keeps the canonical form -/
theorem add_canon (a b c : Coins) (ha : Canon a) (hb : Canon b) (h : add a b = some c) : Canon c := by
  obtain ⟨h1, h2, h3⟩ := safeAdd_specL a b c ha.1 hb.1 h
  refine ⟨h1, fun x hx => ?_⟩
  have e := amtL_of_mem h1 hx
  have := h3 x.1
  have := amtL_nonneg ha.2 x.1
  have := amtL_nonneg hb.2 x.1
  have := h2 x hx
  omega

/-! ### Sub / SafeSub -/

/-- SafeSub of canonical operands in range never panics, subtracts per denomination, and reports
exactly when some amount would go negative -/
theorem safeSub_spec (a b : Coins) (ha : Canon a) (hb : Canon b) (hra : AllInRange a) (hrb : AllInRange b) :
    ∃ c neg, safeSub a b = some (c, neg) ∧ Sorted c ∧ (∀ x ∈ c, x.2 ≠ 0) ∧ (∀ d, amt c d = amt a d - amt b d) ∧
      (neg = true ↔ ∃ d, amt a d < amt b d) := by
  have hnb : SortedL (negative b) := sortedL_negative hb.1
  have hsome : ∃ c, safeAdd a (negative b) = some c := by
    cases hc : safeAdd a (negative b) with
    | some c => exact ⟨c, rfl⟩
    | none =>
      exfalso
      obtain ⟨x, hx, y, hy, _, hnone⟩ := (safeAdd_none_iffL a (negative b) ha.1 hnb).1 hc
      obtain ⟨z, hz, rfl⟩ := mem_negative hy
      rw [intAdd_exact] at hnone
      have := ha.2 x hx; have := hb.2 z hz; have := hra x hx; have := hrb z hz
      unfold InRange at *
      split at hnone
      · cases hnone
      · simp only at *; omega
  obtain ⟨c, hc⟩ := hsome
  obtain ⟨h1, h2, h3⟩ := safeAdd_specL a (negative b) c ha.1 hnb hc
  have h3' : ∀ d, amtL c d = amtL a d - amtL b d := by
    intro d; have := h3 d; rw [amtL_negative] at this; omega
  refine ⟨c, isAnyNegative c, by simp [safeSub, hc], h1, h2, h3', ?_⟩
  rw [isAnyNegative_iff_amtL h1]
  simp only [amt_eq]
  constructor
  · rintro ⟨d, hd⟩; exact ⟨d, by have := h3' d; omega⟩
  · rintro ⟨d, hd⟩; exact ⟨d, by have := h3' d; omega⟩

/-- Sub panics exactly when an amount would go negative; otherwise the result is canonical -/
theorem sub_spec (a b : Coins) (ha : Canon a) (hb : Canon b) (hra : AllInRange a) (hrb : AllInRange b) :
    (sub a b = none ↔ ∃ d, amt a d < amt b d) ∧
    (∀ c, sub a b = some c → (∀ x ∈ c, 0 ≤ x.2) ∧ Sorted c ∧ (∀ x ∈ c, x.2 ≠ 0) ∧ ∀ d, amt c d = amt a d - amt b d) := by
  obtain ⟨c, neg, hs, h1, h2, h3, h4⟩ := safeSub_spec a b ha hb hra hrb
  unfold sub; rw [hs]
  cases neg with
  | false =>
    refine ⟨⟨fun h => (by cases h), fun h => (by have := h4.2 h; cases this)⟩, ?_⟩
    intro c' hc'
    simp only [Option.some.injEq] at hc'
    subst hc'
    refine ⟨fun x hx => ?_, h1, h2, h3⟩
    have e := h3 x.1
    simp only [amt_eq] at e h4
    rw [amtL_of_mem h1 hx] at e
    have : ¬ amtL a x.1 < amtL b x.1 := fun hlt => by have := h4.2 ⟨_, hlt⟩; cases this
    omega
  | true => exact ⟨⟨fun _ => h4.1 rfl, fun _ => rfl⟩, fun c' h => by cases h⟩

/-- Add and Sub are inverse -/
theorem add_sub_inverse (a b c : Coins) (ha : Canon a) (hb : Canon b) (hrb : AllInRange b)
    (h : add a b = some c) (hrc : AllInRange c) : sub c b = some a := by
  have hc := add_canon a b c ha hb h
  obtain ⟨h1, h2, h3⟩ := safeAdd_specL a b c ha.1 hb.1 h
  obtain ⟨hn, hsome⟩ := sub_spec c b hc hb hrc hrb
  cases hs : sub c b with
  | none =>
    exfalso
    obtain ⟨d, hd⟩ := hn.1 hs
    have := h3 d; have := amtL_nonneg ha.2 d
    simp only [amt_eq] at hd; omega
  | some e =>
    obtain ⟨_, e1, e2, e3⟩ := hsome e hs
    congr 1
    refine sorted_nonzero_extL e a e1 ha.1 e2 (fun c hc => by have := ha.2 c hc; omega) (fun d => ?_)
    have := e3 d; have := h3 d; simp only [amt_eq] at *; omega

theorem sub_add_inverse (a b c : Coins) (ha : Canon a) (hb : Canon b) (hra : AllInRange a) (hrb : AllInRange b)
    (h : sub a b = some c) : add c b = some a := by
  obtain ⟨_, hsome⟩ := sub_spec a b ha hb hra hrb
  obtain ⟨c1, c2, c3, c4⟩ := hsome c h
  simp only [amt_eq] at c4
  unfold add
  cases hs : safeAdd c b with
  | none =>
    exfalso
    obtain ⟨x, hx, y, hy, hxy, hnone⟩ := (safeAdd_none_iffL c b c2 hb.1).1 hs
    have e1 := amtL_of_mem c2 hx
    have e2 := amtL_of_mem hb.1 hy
    have e3 := c4 x.1
    rw [e1] at e3
    rw [hxy, e2, ← hxy] at e3
    have hr : InRange (amtL a x.1) := by
      by_cases h0 : amtL a x.1 = 0
      · rw [h0]; unfold InRange; decide
      · obtain ⟨z, hz, _, hz2⟩ := exists_of_amtL_ne_zero h0; rw [← hz2]; exact hra z hz
    rw [intAdd_exact] at hnone
    split at hnone
    · cases hnone
    · next hh =>
      apply hh
      have : x.2 + y.2 = amtL a x.1 := by omega
      rw [this]; exact hr
  | some e =>
    obtain ⟨h1, h2, h3⟩ := safeAdd_specL c b e c2 hb.1 hs
    congr 1
    refine sorted_nonzero_extL e a h1 ha.1 h2 (fun c hc => by have := ha.2 c hc; omega) (fun d => ?_)
    have := h3 d; have := c4 d; omega

/-! ### comparisons agree with per-denomination comparison -/

theorem isAllGTE_spec (a b : Coins) (ha : Canon a) (hb : Canon b) (hd : DenomsOK b) :
    ∃ r, isAllGTE a b = some r ∧ (r = true ↔ ∀ d, amt b d ≤ amt a d) := by
  unfold isAllGTE
  simp only [amt_eq]
  cases b with
  | nil => exact ⟨true, by simp, by simpa using fun d => amtL_nonneg ha.2 d⟩
  | cons y ys =>
    cases a with
    | nil =>
      refine ⟨false, by simp, ?_⟩
      simp only [Bool.false_eq_true, false_iff, amtL_nil]
      intro h
      have := h y.1
      rw [amtL_of_mem hb.1 (by simp)] at this
      have := hb.2 y (by simp)
      omega
    | cons x xs =>
      have e1 : ((y :: ys).length == 0) = false := by simp
      have e2 : ((x :: xs).length == 0) = false := by simp
      simp only [e1, e2, Bool.false_eq_true, if_false]
      rw [allM_amountOf ha.1 hd (fun c x => !decide (c.2 > x))]
      refine ⟨_, rfl, ?_⟩
      rw [← forall_mem_le_iff hb.1 ha.2]
      simp

theorem isAllGT_spec (a b : Coins) (ha : Canon a) (hb : Canon b) (hda : DenomsOK a) (hd : DenomsOK b) :
    ∃ r, isAllGT a b = some r ∧ (r = true ↔ a ≠ [] ∧ ∀ c ∈ b, c.2 < amt a c.1) := by
  unfold isAllGT
  simp only [amt_eq]
  cases a with
  | nil => exact ⟨false, by simp, by simp⟩
  | cons x xs =>
    cases b with
    | nil => exact ⟨true, by simp, by simp⟩
    | cons y ys =>
      obtain ⟨r', hr', hiff⟩ := denomsSubsetOf_specL (y :: ys) (x :: xs) hb.1 ha.1 ha.2 hd
      have e1 : ((y :: ys).length == 0) = false := by simp
      have e2 : ((x :: xs).length == 0) = false := by simp
      simp only [e1, e2, Bool.false_eq_true, if_false]
      rw [hr']
      cases r' with
      | false =>
        refine ⟨false, rfl, ?_⟩
        simp only [Bool.false_eq_true, false_iff, not_and]
        intro _ h
        have := hiff.2 (fun c hc => Int.lt_trans (hb.2 c hc) (h c hc))
        cases this
      | true =>
        simp only []
        rw [allM_amountOf ha.1 hd (fun c x => decide (x > c.2))]
        refine ⟨_, rfl, ?_⟩
        simp

theorem isAnyGT_spec (a b : Coins) (ha : Canon a) (hb : Canon b) (hd : DenomsOK a) :
    ∃ r, isAnyGT a b = some r ∧ (r = true ↔ ∃ c ∈ a, 0 < amt b c.1 ∧ amt b c.1 < c.2) := by
  have _ := ha
  unfold isAnyGT
  simp only [amt_eq]
  cases b with
  | nil => exact ⟨false, by simp, by simp⟩
  | cons y ys =>
    have e1 : ((y :: ys).length == 0) = false := by simp
    simp only [e1, Bool.false_eq_true, if_false]
    rw [anyM_amountOf hb.1 hd (fun c amt => decide (c.2 > amt) && amt != 0)]
    refine ⟨_, rfl, ?_⟩
    simp only [List.any_eq_true, Bool.and_eq_true, decide_eq_true_eq, bne_iff_ne, ne_eq]
    constructor
    · rintro ⟨c, hc, h1, h2⟩; exact ⟨c, hc, by have := amtL_nonneg hb.2 c.1; omega, h1⟩
    · rintro ⟨c, hc, h1, h2⟩; exact ⟨c, hc, h2, by omega⟩

theorem isAnyGTE_spec (a b : Coins) (ha : Canon a) (hb : Canon b) (hd : DenomsOK a) :
    ∃ r, isAnyGTE a b = some r ∧ (r = true ↔ ∃ c ∈ a, 0 < amt b c.1 ∧ amt b c.1 ≤ c.2) := by
  have _ := ha
  unfold isAnyGTE
  simp only [amt_eq]
  cases b with
  | nil => exact ⟨false, by simp, by simp⟩
  | cons y ys =>
    have e1 : ((y :: ys).length == 0) = false := by simp
    simp only [e1, Bool.false_eq_true, if_false]
    rw [anyM_amountOf hb.1 hd (fun c amt => decide (c.2 ≥ amt) && amt != 0)]
    refine ⟨_, rfl, ?_⟩
    simp only [List.any_eq_true, Bool.and_eq_true, decide_eq_true_eq, bne_iff_ne, ne_eq]
    constructor
    · rintro ⟨c, hc, h1, h2⟩; exact ⟨c, hc, by have := amtL_nonneg hb.2 c.1; omega, h1⟩
    · rintro ⟨c, hc, h1, h2⟩; exact ⟨c, hc, h2, by omega⟩

theorem isAllLT_LTE_mirror (a b : Coins) : isAllLT a b = isAllGT b a ∧ isAllLTE a b = isAllGTE b a := by
  exact ⟨rfl, rfl⟩

theorem denomsSubsetOf_spec (a b : Coins) (ha : Canon a) (hb : Canon b) (hd : DenomsOK a) :
    ∃ r, denomsSubsetOf a b = some r ∧ (r = true ↔ ∀ c ∈ a, 0 < amt b c.1) := by
  exact denomsSubsetOf_specL a b ha.1 hb.1 hb.2 hd

/-- IsEqual on canonical sets over the same denominations decides equality … -/
theorem isEqual_partial (a b : Coins) (ha : Canon a) (hb : Canon b) (hden : a.map (·.1) = b.map (·.1)) :
    ∃ r, isEqual a b = some r ∧ (r = true ↔ a = b) := by
  unfold isEqual
  have hl : a.length = b.length := by simpa using congrArg List.length hden
  rw [sortCoins_of_sortedL ha.1, sortCoins_of_sortedL hb.1]
  simp only [hl, bne_self_eq_false, Bool.false_eq_true, if_false]
  exact isEqual_core_same_denoms a b hden

/-- … and is never wrongly `true`; but with the same number of coins over different denominations it panics
instead of answering `false` (recorded finding: the repository's own test pins this) -/
theorem isEqual_sound (a b : Coins) (ha : Canon a) (hb : Canon b) (h : isEqual a b = some true) : a = b := by
  unfold isEqual at h
  rw [sortCoins_of_sortedL ha.1, sortCoins_of_sortedL hb.1] at h
  by_cases hl : a.length = b.length
  · simp only [hl, bne_self_eq_false, Bool.false_eq_true, if_false] at h
    exact isEqual_core_sound a b hl h
  · have : (a.length != b.length) = true := by simpa using hl
    simp [this] at h

theorem isEqual_panics_counterexample : isEqual [("abc", 1)] [("abd", 1)] = none := by
  decide

/-! ### NewCoins -/

/-- what NewCoins returns is canonical and holds exactly the non-zero coins it was given -/
theorem newCoins_spec (cs r : Coins) (h : newCoins cs = some r) :
    Canon r ∧ r.Perm (removeZero cs) := by
  unfold newCoins at h
  simp only at h
  split at h
  · next he =>
    cases h
    refine ⟨⟨sortedL_nil, by simp⟩, ?_⟩
    rw [List.isEmpty_iff.1 he]
  · split at h
    · cases h
    · split at h
      · cases h
      · next hv =>
        cases h
        simp only [Bool.not_eq_true', Bool.not_eq_false] at hv
        exact ⟨isValid_spec _ hv, sortCoins_perm _⟩

/-- a valid set is a fixed point -/
theorem newCoins_of_valid (cs : Coins) (h : isValid cs = true) : newCoins cs = some cs := by
  obtain ⟨h1, h2⟩ := isValid_spec cs h
  have hz : removeZero cs = cs := removeZero_eq_self (fun c hc => by have := h2 c hc; omega)
  unfold newCoins
  simp only [hz, sortCoins_of_sortedL h1, hasDup_of_sortedL h1, h]
  cases cs <;> simp

/-- non-vacuity: canonical operands in range, one denomination in common, one each on its own -/
example : Canon [("aaa", 5), ("upokt", 7)] ∧ Canon [("stake", 2), ("upokt", 7)] ∧
    add [("aaa", 5), ("upokt", 7)] [("stake", 2), ("upokt", 7)] = some [("aaa", 5), ("stake", 2), ("upokt", 14)] ∧
    safeSub [("aaa", 5), ("upokt", 7)] [("stake", 2), ("upokt", 7)] = some ([("aaa", 5), ("stake", -2)], true) := by
  refine ⟨?_, ?_, ?_, ?_⟩
  · unfold Canon Sorted; simp
  · unfold Canon Sorted; simp
  · simp [add, safeAdd, intAdd_exact, removeZero]
  · simp [safeSub, negative, isAnyNegative, safeAdd, intAdd_exact, removeZero]

end Posmint.Props.C18Coins
