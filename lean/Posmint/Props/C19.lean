import Posmint.Model.Keys
import Posmint.Lemmas.Keys
/-!
# C19 — signatures bind key and message; stored keys survive export/import

Statements over `Posmint.Model.Keys` (multisignature verification of `crypto/multisig.go`, keybase of
`crypto/keys/keybase.go` over ideal primitives).  PARTIAL: the cryptographic primitives themselves
(ed25519 / secp256k1 unforgeability, bcrypt + xsalsa20 armor) are assumptions, not theorems: a leaf
signature is modelled as the pair (signer, message) and an armored key as the pair (key, passphrase).
What is proved is everything the repository's own code adds on top of them.
-/
namespace Posmint.Props.C19
open Posmint.Keys

/-! ### signatures -/

/-- a plain key accepts exactly its own signature of exactly that message -/
theorem leaf_verify_iff (id m : Nat) (sg : Sig) : verify (.leaf id) m sg = true ↔ sg = .leaf id m := by
  have := verify_spec (.leaf id) m sg
  simpa [signAll, wf] using this

/-- the genuine (positional, possibly nested) signature verifies, for every key every multisignature
node of which has at least one component -/
def NonEmpty : PK → Prop
  | .leaf _ => True
  | .multi ks => ks ≠ [] ∧ ∀ k ∈ ks, NonEmpty k

mutual
theorem nonEmpty_iff_wf : (k : PK) → (NonEmpty k ↔ wf k = true)
  | .leaf _ => by simp [NonEmpty, wf]
  | .multi ks => by
    have := nonEmptyAll_iff_wfAll ks
    cases ks <;> simp_all [NonEmpty, wf]
theorem nonEmptyAll_iff_wfAll : (ks : List PK) → ((∀ k ∈ ks, NonEmpty k) ↔ wfAll ks = true)
  | [] => by simp [wfAll]
  | k :: ks => by simp [wfAll, nonEmpty_iff_wf k, nonEmptyAll_iff_wfAll ks]
end

theorem sign_verifies (k : PK) (m : Nat) (h : NonEmpty k) : verify k m (signAll k m) = true := by
  exact (verify_spec k m _).2 ⟨rfl, (nonEmpty_iff_wf k).1 h⟩

/-- … and it is the ONLY thing that verifies: a signature accepted for key `k` and message `m` is the
positional signing of `k` over `m` (so truncated, swapped, duplicated, reordered or re-nested components
are all rejected), and `k` has no empty multisignature node. -/
theorem verify_iff (k : PK) (m : Nat) (sg : Sig) :
    verify k m sg = true ↔ (sg = signAll k m ∧ NonEmpty k) := by
  rw [verify_spec, nonEmpty_iff_wf]

/-- a multisignature key verifies only when every listed key has signed the message in its own position -/
theorem multisig_iff (ks : List PK) (m : Nat) (ss : List Sig) :
    verify (.multi ks) m (.multi ss) = true ↔
      (ks ≠ [] ∧ ks.length = ss.length ∧
        ∀ i (h1 : i < ks.length) (h2 : i < ss.length), verify ks[i] m ss[i] = true) := by
  simp only [verify, Bool.and_eq_true, verifyAll_iff_get]
  constructor
  · rintro ⟨⟨h1, _⟩, h3, h4⟩
    exact ⟨by intro h; simp [h] at h1, h3, h4⟩
  · rintro ⟨h1, h3, h4⟩
    refine ⟨⟨?_, by simp [h3]⟩, h3, h4⟩
    cases ks with
    | nil => exact absurd rfl h1
    | cons _ _ => rfl

/-- under no other key -/
theorem verify_key_unique (k k' : PK) (m : Nat) (sg : Sig)
    (h : verify k m sg = true) (h' : verify k' m sg = true) : k = k' := by
  have h1 := (verify_spec k m sg).1 h
  have h2 := (verify_spec k' m sg).1 h'
  exact signAll_inj_key k k' m (h1.1.symm.trans h2.1)

/-- under no other message -/
theorem verify_msg_unique (k : PK) (m m' : Nat) (sg : Sig)
    (h : verify k m sg = true) (h' : verify k m' sg = true) : m = m' := by
  have h1 := (verify_spec k m sg).1 h
  have h2 := (verify_spec k m' sg).1 h'
  exact signAll_inj_msg k m m' h1.2 (h1.1.symm.trans h2.1)

/-- bytes that are no signature at all, a plain signature offered for a multisignature key and a
multisignature offered for a plain key are rejected -/
theorem shape_mismatch_rejected (k : PK) (m : Nat) (ks : List PK) (ss : List Sig) (s n : Nat) :
    verify k m .garbage = false ∧ verify (.multi ks) m (.leaf s n) = false ∧
    verify (.leaf s) m (.multi ss) = false := by
  refine ⟨?_, ?_, ?_⟩
  · cases k <;> simp [verify]
  · simp [verify]
  · simp [verify]

/-- a multisignature with a component missing or one too many is rejected -/
theorem length_mismatch_rejected (ks : List PK) (m : Nat) (ss : List Sig) (h : ks.length ≠ ss.length) :
    verify (.multi ks) m (.multi ss) = false := by
  simp [verify, h]

/-- non-vacuity: a nested key, its genuine signature, and the same signature with two components exchanged -/
example : verify (.multi [.leaf 1, .multi [.leaf 2, .leaf 3]]) 7 (signAll (.multi [.leaf 1, .multi [.leaf 2, .leaf 3]]) 7) = true
    ∧ verify (.multi [.leaf 1, .multi [.leaf 2, .leaf 3]]) 7 (.multi [.leaf 1 7, .multi [.leaf 3 7, .leaf 2 7]]) = false := by
  simp [verify, verifyAll, signAll, signAll.signAllList]

/-! ### keybase: every operation sequence behaves like a map from key to passphrase -/

/-- the keys of the keybase are strictly ascending (one record per key, listed in order) -/
def Sorted : KB → Prop
  | [] => True
  | [_] => True
  | a :: b :: rest => a.1 < b.1 ∧ Sorted (b :: rest)

theorem sorted_iff_asc (kb : KB) : Sorted kb ↔ Asc kb := by
  induction kb with
  | nil => simp [Sorted, Asc]
  | cons a rest ih =>
    cases rest with
    | nil => simp [Sorted, Asc]
    | cons b rest =>
      unfold Asc at ih ⊢
      rw [Sorted, ih]
      constructor
      · rintro ⟨hab, hp⟩
        refine List.pairwise_cons.2 ⟨?_, hp⟩
        intro x hx
        rcases List.mem_cons.1 hx with hx | hx
        · subst hx; exact hab
        · have := (List.pairwise_cons.1 hp).1 x hx
          omega
      · intro hp
        have hp' := List.pairwise_cons.1 hp
        exact ⟨hp'.1 b (by simp), hp'.2⟩

-- several statements below carry a `Sorted` hypothesis they do not need (the lookup laws hold for
-- every association list); the hypotheses are kept because the statements are the interface
set_option linter.unusedVariables false

theorem kbGet_kbPut (kb : KB) (h : Sorted kb) (k k' : Nat) (p : String) :
    kbGet (kbPut kb k p) k' = if k' = k then some p else kbGet kb k' := by
  exact kbGet_kbPut' kb k k' p

theorem kbGet_kbDel (kb : KB) (k k' : Nat) :
    kbGet (kbDel kb k) k' = if k' = k then none else kbGet kb k' := by
  exact kbGet_kbDel' kb k k'

theorem kstep_sorted (kb : KB) (op : KOp) (h : Sorted kb) : Sorted (kstep kb op).1 := by
  rw [sorted_iff_asc] at h ⊢
  cases op <;> simp only [kstep] <;> (try split) <;> (try split) <;>
    first | exact h | exact asc_kbPut _ h _ _ | exact asc_kbDel _ h _

theorem krun_sorted (ops : List KOp) (kb : KB) (h : Sorted kb) : Sorted (krun kb ops) := by
  induction ops generalizing kb with
  | nil => exact h
  | cons op rest ih => exact ih _ (kstep_sorted kb op h)

/-- the abstract keybase: a function from key to the passphrase that currently opens it -/
def specStep (g : Nat → Option String) : KOp → (Nat → Option String)
  | .create k pass => fun x => if x = k then some pass else g x
  | .delete k pass => if g k = some pass then (fun x => if x = k then none else g x) else g
  | .update k old new => if g k = some old then (fun x => if x = k then some new else g x) else g
  | .importArmor a dpass epass =>
    if a.pass = dpass ∧ g a.key = none then (fun x => if x = a.key then some epass else g x) else g
  | .importObj k epass => if g k = none then (fun x => if x = k then some epass else g x) else g
  | _ => g

/-- refinement: the stored keybase after any operation is the abstract map after that operation -/
theorem kstep_refines (kb : KB) (op : KOp) (h : Sorted kb) (x : Nat) :
    kbGet (kstep kb op).1 x = specStep (kbGet kb) op x := by
  cases op with
  | create k pass => simp [kstep, specStep, kbGet_kbPut']
  | delete k pass =>
    by_cases hc : kbGet kb k = some pass <;> simp [kstep, specStep, hc, kbGet_kbDel']
  | update k old new =>
    by_cases hc : kbGet kb k = some old <;> simp [kstep, specStep, hc, kbGet_kbPut']
  | sign k pass msg => by_cases hc : kbGet kb k = some pass <;> simp [kstep, specStep, hc]
  | exportArmor k dpass epass => by_cases hc : kbGet kb k = some dpass <;> simp [kstep, specStep, hc]
  | importArmor a dpass epass =>
    by_cases h1 : a.pass = dpass
    · cases h2 : kbGet kb a.key <;> simp [kstep, specStep, h1, h2, kbGet_kbPut']
    · simp [kstep, specStep, h1]
  | exportObj k pass => by_cases hc : kbGet kb k = some pass <;> simp [kstep, specStep, hc]
  | importObj k epass =>
    cases h2 : kbGet kb k <;> simp [kstep, specStep, h2, kbGet_kbPut']
  | list => simp [kstep, specStep]

/-- listing shows exactly the keys that are present, each once, in order -/
theorem list_exact (kb : KB) (h : Sorted kb) (ks : List Nat) (hl : (kstep kb .list).2 = .keys ks) (x : Nat) :
    (x ∈ ks ↔ (kbGet kb x).isSome) ∧ ks.Nodup := by
  simp only [kstep, KOut.keys.injEq] at hl
  subst hl
  exact ⟨mem_keys_iff kb x, asc_nodup kb ((sorted_iff_asc kb).1 h)⟩

/-- a wrong passphrase never yields a key, a signature or an export, and never deletes or alters
anything: the keybase is literally unchanged -/
theorem wrong_pass_no_effect (kb : KB) (k : Nat) (pass other e : String) (msg : Nat)
    (hw : kbGet kb k ≠ some pass) :
    kstep kb (.delete k pass) = (kb, .err) ∧ kstep kb (.update k pass other) = (kb, .err) ∧
    kstep kb (.sign k pass msg) = (kb, .err) ∧ kstep kb (.exportArmor k pass e) = (kb, .err) ∧
    kstep kb (.exportObj k pass) = (kb, .err) := by
  simp [kstep, hw]

/-- an export opened with the wrong passphrase is refused and changes nothing -/
theorem import_wrong_pass_no_effect (kb : KB) (a : Armor) (dpass epass : String) (hw : a.pass ≠ dpass) :
    kstep kb (.importArmor a dpass epass) = (kb, .err) := by
  simp [kstep, hw]

/-- an import never replaces a key that is already stored -/
theorem import_existing_refused (kb : KB) (a : Armor) (dpass epass : String) (k : Nat)
    (he : (kbGet kb a.key).isSome) (hk : (kbGet kb k).isSome) :
    kstep kb (.importArmor a dpass epass) = (kb, .err) ∧ kstep kb (.importObj k epass) = (kb, .err) := by
  constructor
  · simp only [kstep, he]
    split <;> simp
  · simp [kstep, hk]

/-- export then import under the right passphrase yields the same key (and so the same address),
usable under the new storage passphrase: it signs, and its signature verifies under the key -/
theorem export_import_roundtrip (kb kb' : KB) (k : Nat) (p e p2 : String) (msg : Nat)
    (hs : Sorted kb') (hk : kbGet kb k = some p) (hfresh : kbGet kb' k = none) :
    ∃ a, kstep kb (.exportArmor k p e) = (kb, .armor a) ∧
      kstep kb' (.importArmor a e p2) = (kbPut kb' k p2, .key k) ∧
      kstep (kbPut kb' k p2) (.sign k p2 msg) = (kbPut kb' k p2, .sig (.leaf k msg)) ∧
      verify (.leaf k) msg (.leaf k msg) = true := by
  refine ⟨⟨k, e⟩, ?_, ?_, ?_, ?_⟩
  · simp [kstep, hk]
  · simp [kstep, hfresh]
  · simp [kstep, kbGet_kbPut']
  · simp [verify]

/-- a created key can be listed, used to sign, re-encrypted; after re-encryption only the new passphrase works -/
theorem create_then_use (kb : KB) (h : Sorted kb) (k : Nat) (p p2 : String) (msg : Nat) (hne : p ≠ p2) :
    let kb1 := (kstep kb (.create k p)).1
    kstep kb1 (.sign k p msg) = (kb1, .sig (.leaf k msg)) ∧
    (∃ ks, (kstep kb1 .list).2 = .keys ks ∧ k ∈ ks) ∧
    let kb2 := (kstep kb1 (.update k p p2)).1
    kstep kb2 (.sign k p2 msg) = (kb2, .sig (.leaf k msg)) ∧ kstep kb2 (.sign k p msg) = (kb2, .err) := by
  simp only [kstep]
  refine ⟨?_, ?_, ?_, ?_⟩
  · simp [kbGet_kbPut']
  · exact ⟨_, rfl, (mem_keys_iff _ _).2 (by simp [kbGet_kbPut'])⟩
  · simp [kbGet_kbPut']
  · simp [kbGet_kbPut', hne.symm]

/-- deleting with the right passphrase removes exactly that key -/
theorem delete_exact (kb : KB) (h : Sorted kb) (k x : Nat) (p : String) (hk : kbGet kb k = some p) :
    kbGet (kstep kb (.delete k p)).1 x = if x = k then none else kbGet kb x := by
  simp [kstep, hk, kbGet_kbDel']

/-! ### signature depth -/

/-- The recursive count of the ante handler accepts a multisignature key exactly when the key holds, together with
itself, no more keys than the limit: `1 + (number of keys below it, at any depth) ≤ limit`. This is the closed form
the chain model uses (`Chain.sigDepthOK`). -/
theorem validDepth_iff (limit : Nat) (ks : List PK) :
    validDepth limit ks = true ↔ (ks = [] ∨ 1 + nodesList ks ≤ limit) :=
  validDepth_spec limit ks

/-- the two multisignature keys of the histories: m(p,p) counts 3, m(p,m(p,p)) counts 5 -/
example : validDepth 3 [.leaf 0, .leaf 1] = true ∧ validDepth 2 [.leaf 0, .leaf 1] = false ∧
    validDepth 5 [.leaf 2, .multi [.leaf 3, .leaf 4]] = true ∧ validDepth 4 [.leaf 2, .multi [.leaf 3, .leaf 4]] = false := by
  refine ⟨?_, ?_, ?_, ?_⟩ <;> simp [← Bool.not_eq_true, validDepth_iff, nodesList, nodes]

end Posmint.Props.C19
