import Posmint.Lemmas.RootMulti
/-!
# C14 — Store queries return committed data with proofs that verify against the app hash
-/
-- several hypotheses are part of the agreed statements but not needed by the proofs (see report)
set_option linter.unusedVariables false

namespace Posmint.Props.C14
open Posmint.RM Posmint.KV

/-- A `/key` query at a retained height returns exactly the value committed at that height (or
nothing if absent), with a proof exactly when one was requested. -/
theorem query_returns_committed (m : RM) (i : Nat) (s : Sub) (key : Bytes) (h : Nat) (prove : Bool) (c : Items)
    (hs : m.subs[i]? = some s) (hh : h ≠ 0) (hc : savedAt s h = some c) :
    m.query i key h prove = some (kvGet c key, prove) := by
  simp [RM.query, hs, hh, hc]

/-- It does not depend on uncommitted writes … -/
theorem query_ignores_uncommitted (m : RM) (op : Op) (hop : op ≠ .commit) (i : Nat) (key : Bytes) (h : Nat) (prove : Bool) :
    (m.apply op).query i key h prove = m.query i key h prove := by
  cases op with
  | commit => exact absurd rfl hop
  | tset k v => rfl
  | tdel k => rfl
  | set j k v =>
    simp only [RM.query, RM.apply, List.getElem?_modify]
    cases m.subs[i]? with
    | none => rfl
    | some s => by_cases hji : j = i <;> simp only [hji, if_true, if_false, Option.map_eq_map, Option.map_some] <;> rfl
  | del j k =>
    simp only [RM.query, RM.apply, List.getElem?_modify]
    cases m.subs[i]? with
    | none => rfl
    | some s => by_cases hji : j = i <;> simp only [hji, if_true, if_false, Option.map_eq_map, Option.map_some] <;> rfl

/-- … nor on later blocks, as long as the height is still retained. -/
theorem query_stable_under_commit (m : RM) (hc : Consistent m) (i : Nat) (s s' : Sub) (key : Bytes) (h : Nat) (prove : Bool)
    (hs : m.subs[i]? = some s) (hs' : m.commit.subs[i]? = some s') (hh : h ≠ 0) (hle : h ≤ m.latest)
    (hret : (savedAt s' h).isSome) :
    m.commit.query i key h prove = m.query i key h prove := by
  have hs2 : s' = s.commit m.kr m.ke (m.latest + 1) := by
    simp only [RM.commit, List.getElem?_map, hs, Option.map_some, Option.some.injEq] at hs'
    exact hs'.symm
  have hsv : savedAt s' h = savedAt s h := by
    have hne : ¬ h = m.latest + 1 := by omega
    rw [hs2, savedAt_commit] at hret ⊢
    simp only [hne, if_false] at hret ⊢
    split
    · next hp => simp [hp] at hret
    · rfl
  simp only [RM.query, hs, hs', hh, beq_iff_eq, if_false, hsv]

/-- A query for a pruned or future height returns no value and no proof (an error when a proof was
requested) rather than data from another height. -/
theorem pruned_or_future_empty (m : RM) (i : Nat) (s : Sub) (key : Bytes) (h : Nat) (prove : Bool)
    (hs : m.subs[i]? = some s) (hh : h ≠ 0) (hc : savedAt s h = none) :
    m.query i key h prove = (if prove then none else some (none, false)) := by
  simp [RM.query, hs, hh, hc]

/-- Soundness of the multistore proof operator over an abstract hash: if running it on a claimed
substore root yields the app hash of a commit whose store names are distinct, and the proof's own
store names are distinct, then that commit really has a store of that name with that root
(assuming the merkle-map hash and the leaf hash are injective on what they are applied to). -/
theorem multistore_proof_sound (H : Bytes → Bytes) (MH : List (String × Bytes) → Bytes)
    (hH : Function.Injective H) (hMH : Function.Injective MH)
    (pinfos cinfos : List StoreInfo) (key : String) (value : Bytes)
    (hpn : (pinfos.map (·.name)).Nodup) (hcn : (cinfos.map (·.name)).Nodup)
    (hrun : proofRun H MH pinfos key value = some (appHash H MH cinfos)) :
    ⟨key, value⟩ ∈ cinfos := by
  unfold proofRun at hrun
  split at hrun
  · next si hfind =>
    split at hrun
    · next hval =>
      have hval : value = si.root := by simpa using hval
      have hname : si.name = key := by simpa using List.find?_some hfind
      have hmem : si ∈ pinfos := List.mem_of_find?_eq_some hfind
      have hcanon : canonMap H pinfos = canonMap H cinfos := hMH (Option.some.inj hrun)
      have hl := canonFold_lookup_of_mem H pinfos [] hpn si hmem
      rw [← canonMap_eq, hcanon, canonMap_eq] at hl
      rcases canonFold_lookup_some H cinfos [] _ _ hl with h0 | ⟨ci, hci, hcn', hcr⟩
      · simp at h0
      · have hroot : ci.root = si.root := hH hcr
        have : ci = ⟨key, value⟩ := by
          cases ci; simp only at hcn' hroot; simp [hcn', hroot, hname, hval]
        exact this ▸ hci
    · cases hrun
  · cases hrun

/-- Hence a proof that verifies against the hash of height h verifies against another height's
hash only if that height has the same root for that store. -/
theorem proof_binds_root (H : Bytes → Bytes) (MH : List (String × Bytes) → Bytes)
    (hH : Function.Injective H) (hMH : Function.Injective MH)
    (pinfos c1 c2 : List StoreInfo) (key : String) (value : Bytes)
    (hpn : (pinfos.map (·.name)).Nodup) (h1n : (c1.map (·.name)).Nodup) (h2n : (c2.map (·.name)).Nodup)
    (hrun1 : proofRun H MH pinfos key value = some (appHash H MH c1))
    (hsame : appHash H MH c1 = appHash H MH c2) : ⟨key, value⟩ ∈ c2 :=
  multistore_proof_sound H MH hH hMH pinfos c2 key value hpn h2n (hsame ▸ hrun1)

/-- Observation (not part of C14, which is about proofs the store returns): the *verifier* is
unsound for forged proofs that list a store name twice — `Run` checks the first entry, the hash is
computed from the last. -/
theorem forged_duplicate_name_accepted (H : Bytes → Bytes) (MH : List (String × Bytes) → Bytes)
    (real fake : Bytes) (hne : fake ≠ real) :
    proofRun H MH [⟨"s", fake⟩, ⟨"s", real⟩] "s" fake = some (appHash H MH [⟨"s", real⟩]) := by
  simp [proofRun, appHash, canonMap, setName]

end Posmint.Props.C14
