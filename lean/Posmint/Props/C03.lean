import Posmint.Lemmas.ChainTx
import Posmint.Lemmas.ChainAccts
/-!
# C03 — Only the signer's key authorises a transaction

Signatures are ideal: `Tx.sigValid` says the signature verifies iff it was produced by the
verification key over exactly the bytes that are checked (see the trusted base).
-/
namespace Posmint.Props.C03
open Posmint.Chain Posmint.Chain.ChainTx

/-- If the ante handler accepts a transaction then: the signing key is the key of the signer the
message declares, no signed field was changed after signing and the signature is not empty, the fee
is at least the fee required for the message type, the memo is within the limit and the signer's
balance covers the fee. -/
theorem ante_accept_sound (s : State) (t : Tx) (ha : anteOK s t false = true) :
    keyAddr s t.signer = t.msg.signer s ∧
    t.mutn ∉ ["sig", "fee", "memo", "ent", "emptysig"] ∧
    t.msg.requiredFee s.p ≤ t.feeEff ∧ 0 ≤ t.feeEff ∧
    t.feeEff ≤ balOf s (t.msg.signer s) ∧ (t.memoEff : Int) ≤ s.p.maxMemo := by
  obtain ⟨h1, h2, h3, _, h5, h6, h7, _⟩ := anteOK_true ha
  rcases h6 with h6 | ⟨h6, h6'⟩
  · simp at h6
  · refine ⟨h6, ?_, h5, h1, h7, h3⟩
    simp only [List.mem_cons, List.not_mem_nil, or_false, not_or] at h6' ⊢
    exact ⟨h6'.1, h6'.2.1, h6'.2.2.1, h6'.2.2.2, h2⟩

/-- a transaction the ante handler refuses is rejected without a trace, delivered or checked -/
theorem ante_reject (s : State) (t : Tx) (ha : anteOK s t false = false) :
    runTx s .deliver t = (s, false) ∧ runTx s .check t = (s, false) := by
  have hd : (Mode.deliver == Mode.simulate) = false := by decide
  have hc : (Mode.check == Mode.simulate) = false := by decide
  constructor
  · unfold runTx
    split; · rfl
    split; · rfl
    simp [hd, ha]
  · unfold runTx
    split; · rfl
    split; · rfl
    simp [hc, ha]

/-- A signature by any other key is rejected, whether the key is supplied in the signature or
looked up from the signer's account, and the state is unchanged. -/
theorem wrong_key_rejected (s : State) (t : Tx) (hk : keyAddr s t.signer ≠ t.msg.signer s) :
    runTx s .deliver t = (s, false) ∧ runTx s .check t = (s, false) := by
  apply ante_reject
  cases ha : anteOK s t false with
  | false => rfl
  | true => exact absurd (ante_accept_sound s t ha).1 hk

/-- A change to any signed field after signing (signature bytes, fee, memo, entropy) is rejected. -/
theorem mutation_rejected (s : State) (t : Tx) (hm : t.mutn ∈ ["sig", "fee", "memo", "ent", "emptysig"]) :
    runTx s .deliver t = (s, false) ∧ runTx s .check t = (s, false) := by
  apply ante_reject
  cases ha : anteOK s t false with
  | false => rfl
  | true => exact absurd hm (ante_accept_sound s t ha).2.1

/-- A fee below the requirement of the message type is rejected. -/
theorem low_fee_rejected (s : State) (t : Tx) (hf : t.feeEff < t.msg.requiredFee s.p) :
    runTx s .deliver t = (s, false) := by
  apply (ante_reject s t ?_).1
  cases ha : anteOK s t false with
  | false => rfl
  | true => have := (ante_accept_sound s t ha).2.2.1; omega

set_option linter.unusedVariables false in
/-- The fee of an accepted transaction is taken from the signer's own balance into the collector. -/
theorem fee_from_signer (s s' : State) (t : Tx) (ok : Bool) (h : Inv s) (hr : runTx s .deliver t = (s', ok))
    (ha : anteOK s t false = true) (hne : t.msg.signer s ≠ s.feeAcc) :
    ∃ s1, send s (t.msg.signer s) s.feeAcc t.feeEff = some s1 ∧
      balOf s1 s.feeAcc = balOf s s.feeAcc + t.feeEff ∧
      balOf s1 (t.msg.signer s) = balOf s (t.msg.signer s) - t.feeEff := by
  obtain ⟨_, s1, hs1, h1, h2, _⟩ := fee_send h.wf ha
  exact ⟨s1, hs1, h1, h2⟩

/-- Only an account that carries a key (a genesis account here) can be the signer of an accepted
transaction: module accounts can never authorise anything. -/
theorem signer_has_key (s : State) (t : Tx) (ha : anteOK s t false = true) :
    ∃ k ∈ s.keys, k.2 = t.msg.signer s :=
  (anteOK_true ha).2.2.2.1

/-- A transaction the tx index already contains is rejected as a replay, in every mode, without
any state change. -/
theorem replay_rejected (s : State) (t : Tx) (mode : Mode) (h : s.index.contains t.id = true) :
    runTx s mode t = (s, false) := by
  have ha : anteOK s t (mode == .simulate) = false := by
    cases ha : anteOK s t (mode == .simulate) with
    | false => rfl
    | true => rw [anteOK_index ha] at h; cases h
  unfold runTx
  split; · rfl
  split; · rfl
  simp [ha]

/-- Every delivered transaction of a block (accepted or not) is in the index after Commit, so
delivering the same bytes again in a later block is a replay. -/
theorem delivered_then_indexed (s : State) (t : Tx) (r r2 : State × List (Addr × Int) × Bool)
    (h1 : step s (.tx .deliver t) = some r) (h2 : step r.1 .commit = some r2) :
    r2.1.index.contains t.id = true := by
  simp only [step, Option.some.injEq] at h1 h2
  subst h1; subst h2
  simp


/-! ### `TxSigLimit` -/

/-- A transaction that brings a multisignature key holding, together with itself, more keys than `TxSigLimit` is
refused, whatever else is right about it (signature, fee, memo), also in simulation. -/
theorem sig_limit_enforced (s : State) (t : Tx) (simulate : Bool) (n : Nat) (hpk : t.pk = true)
    (hn : s.keyNodes.lookup t.signer = some n) (hpos : n ≠ 0) (hlim : s.p.txSigLimit < 1 + (n : Int)) :
    anteOK s t simulate = false := by
  have hsd : sigDepthOK s t.signer = false := by
    unfold sigDepthOK
    rw [hn]
    simp only [Bool.or_eq_false_iff, beq_eq_false_iff_ne, ne_eq, decide_eq_false_iff_not]
    exact ⟨hpos, by omega⟩
  unfold anteOK
  simp only [hpk, if_true, hsd]
  cases s.keys.lookup t.signer <;> simp

/-- A plain key is not subject to the limit, and a multisignature key within the limit passes this check. -/
theorem sig_limit_within (s : State) (k n : Nat) (hn : s.keyNodes.lookup k = some n)
    (h : n = 0 ∨ 1 + (n : Int) ≤ s.p.txSigLimit) : sigDepthOK s k = true := by
  unfold sigDepthOK
  rw [hn]
  simpa using h

/-- non-vacuity: the nested key of the histories (m(p,m(p,p)): four keys below it) under a limit of 4 is refused,
under a limit of 5 it passes -/
example (s : State) (h1 : s.keyNodes = [(11, 4)]) (h2 : s.p.txSigLimit = 4) : sigDepthOK s 11 = false := by
  simp [sigDepthOK, h1, h2]
example (s : State) (h1 : s.keyNodes = [(11, 4)]) (h2 : s.p.txSigLimit = 5) : sigDepthOK s 11 = true := by
  simp [sigDepthOK, h1, h2]


/-! ### the signer's account -/

/-- A transaction whose signer has no account is refused (the fee cannot be taken from an account that does not exist),
whatever it offers - also a fee of zero, also with the key in the signature, also in simulation. -/
theorem unknown_signer_rejected (s : State) (t : Tx) (simulate : Bool)
    (h : acctExists s (t.msg.signer s) = false) : anteOK s t simulate = false := by
  cases ha : anteOK s t simulate with
  | false => rfl
  | true => rw [anteOK_acct ha] at h; cases h

/-- An account, once it exists, exists after every later operation; and the set of accounts that carry a public key is
fixed at genesis: no operation - no accepted, rejected, checked or simulated transaction, no block boundary - stores,
replaces or removes a key. -/
theorem accounts_step (s : State) (op : Op) (r : State × List (Addr × Int) × Bool) (hs : step s op = some r) :
    (∀ a, acctExists s a = true → acctExists r.1 a = true) ∧ r.1.keyed = s.keyed :=
  Accts.step_le hs

theorem accounts_run (ops : List Op) (s s' : State) (hr : run s ops = some s') :
    (∀ a, acctExists s a = true → acctExists s' a = true) ∧ s'.keyed = s.keyed :=
  Accts.run_le ops s s' hr

/-- a transfer creates the receiving account -/
theorem send_creates_account (s s1 : State) (src dst : Addr) (amt : Int) (h : send s src dst amt = some s1) :
    acctExists s1 dst = true :=
  Accts.send_dst_exists h


/-! ### fee multipliers -/

/-- The fee an accepted transaction has paid is at least the base fee of its message type times the multiplier the
parameter store lists for that type - the first entry naming it - or, if none does, times the default multiplier. -/
theorem accepted_pays_multiplied_fee (s : State) (t : Tx) (simulate : Bool) (h : anteOK s t simulate = true) :
    t.feeEff ≥ t.msg.baseFee s.p * ((s.p.feeMults.lookup t.msg.typeName).getD s.p.feeDefault) := by
  have h5 := (anteOK_true h).2.2.2.2.1
  unfold Msg.requiredFee at h5
  exact h5

/-- the first entry that names the type counts, whatever follows it and wherever it stands in the list -/
theorem multiplier_first_match (p : Params) (m : Msg) (pre post : List (String × Int)) (k : Int)
    (hpre : ∀ e ∈ pre, e.1 ≠ m.typeName) (hp : p.feeMults = pre ++ (m.typeName, k) :: post) :
    m.requiredFee p = m.baseFee p * k := by
  unfold Msg.requiredFee
  rw [hp, lookup_append_first pre post m.typeName k hpre]
  rfl

/-- a transfer and a burn of DAO funds are one message type: they share the multiplier -/
example (p : Params) (a b c : Addr) (x y : Int) : (Msg.daoTransfer a b x).typeName = (Msg.daoBurn c y).typeName := rfl

end Posmint.Props.C03
