import Posmint.Model.DecCoins
import Posmint.Props.C18Coins
import Posmint.Lemmas.DecCoins
/-!
# C18, the DecCoins part — canonical form, Add/Sub inverse, scaling and truncation per denomination

Statements over `Posmint.Model.DecCoins` (`types/dec_coin.go`).  `none` is a Go panic.  Amounts are the raw integers
of `Dec` values (scaled by 10^18); `amt`, `Sorted`, `Canon` are those of the Coins part.  `DecInRange` is the type
invariant of `sdk.Dec` (315 bits).
-/
namespace Posmint.Props.C18DecCoins
open Posmint.Coins Posmint.Arith Posmint.Props.C18 Posmint.Props.C18Coins
open Posmint.DecCoins (contrib)

def DecInRange (a : Int) : Prop := a.natAbs < 2 ^ 315
def AllDecInRange (cs : Coins) : Prop := ∀ c ∈ cs, DecInRange c.2

/-! ### Add -/

/-- `DecCoins.Add` keeps sorted operands sorted, drops zero results, and adds per denomination -/
theorem add_spec (a b c : Coins) (ha : Sorted a) (hb : Sorted b) (h : DecCoins.add a b = some c) :
    Sorted c ∧ (∀ x ∈ c, x.2 ≠ 0) ∧ ∀ d, amt c d = amt a d + amt b d :=
  DecCoins.safeAdd_specL a b c ha hb h

/-- it panics exactly when a per-denomination sum leaves the 315-bit range of `Dec` -/
theorem add_none_iff (a b : Coins) (ha : Sorted a) (hb : Sorted b) :
    DecCoins.add a b = none ↔ ∃ x ∈ a, ∃ y ∈ b, x.1 = y.1 ∧ ¬ DecInRange (x.2 + y.2) := by
  unfold DecCoins.add
  rw [DecCoins.safeAdd_none_iffL a b ha hb]
  constructor
  · rintro ⟨x, hx, y, hy, e, hn⟩
    refine ⟨x, hx, y, hy, e, ?_⟩
    rw [decAdd_exact] at hn; unfold DecInRange
    split at hn
    · cases hn
    · assumption
  · rintro ⟨x, hx, y, hy, e, hn⟩
    refine ⟨x, hx, y, hy, e, ?_⟩
    rw [decAdd_exact]; unfold DecInRange at hn
    rw [if_neg hn]

/-- Add keeps the canonical form -/
theorem add_canon (a b c : Coins) (ha : Canon a) (hb : Canon b) (h : DecCoins.add a b = some c) : Canon c := by
  obtain ⟨h1, h2, h3⟩ := add_spec a b c ha.1 hb.1 h
  refine ⟨h1, fun x hx => ?_⟩
  have e := amtL_of_mem h1 hx
  have := h3 x.1
  have := amtL_nonneg ha.2 x.1
  have := amtL_nonneg hb.2 x.1
  have := h2 x hx
  simp only [amt_eq] at *
  omega

/-! ### Sub / SafeSub -/

theorem safeSub_spec (a b : Coins) (ha : Canon a) (hb : Canon b) (hra : AllDecInRange a) (hrb : AllDecInRange b) :
    ∃ c neg, DecCoins.safeSub a b = some (c, neg) ∧ Sorted c ∧ (∀ x ∈ c, x.2 ≠ 0) ∧ (∀ d, amt c d = amt a d - amt b d) ∧
      (neg = true ↔ ∃ d, amt a d < amt b d) := by
  have hnb : SortedL (negative b) := sortedL_negative hb.1
  have hsome : ∃ c, DecCoins.safeAdd a (negative b) = some c := by
    cases hc : DecCoins.safeAdd a (negative b) with
    | some c => exact ⟨c, rfl⟩
    | none =>
      exfalso
      obtain ⟨x, hx, y, hy, _, hnone⟩ := (DecCoins.safeAdd_none_iffL a (negative b) ha.1 hnb).1 hc
      obtain ⟨z, hz, rfl⟩ := mem_negative hy
      rw [decAdd_exact] at hnone
      have := ha.2 x hx; have := hb.2 z hz; have := hra x hx; have := hrb z hz
      unfold DecInRange at *
      split at hnone
      · cases hnone
      · simp only at *; omega
  obtain ⟨c, hc⟩ := hsome
  obtain ⟨h1, h2, h3⟩ := DecCoins.safeAdd_specL a (negative b) c ha.1 hnb hc
  have h3' : ∀ d, amtL c d = amtL a d - amtL b d := by
    intro d; have := h3 d; rw [amtL_negative] at this; omega
  refine ⟨c, isAnyNegative c, by simp [DecCoins.safeSub, hc], h1, h2, h3', ?_⟩
  rw [isAnyNegative_iff_amtL h1]
  simp only [amt_eq]
  constructor
  · rintro ⟨d, hd⟩; exact ⟨d, by have := h3' d; omega⟩
  · rintro ⟨d, hd⟩; exact ⟨d, by have := h3' d; omega⟩

/-- Sub panics exactly when an amount would go negative; otherwise the result is canonical -/
theorem sub_spec (a b : Coins) (ha : Canon a) (hb : Canon b) (hra : AllDecInRange a) (hrb : AllDecInRange b) :
    (DecCoins.sub a b = none ↔ ∃ d, amt a d < amt b d) ∧
    (∀ c, DecCoins.sub a b = some c → Canon c ∧ ∀ d, amt c d = amt a d - amt b d) := by
  obtain ⟨c, neg, hs, h1, h2, h3, h4⟩ := safeSub_spec a b ha hb hra hrb
  unfold DecCoins.sub; rw [hs]
  cases neg with
  | false =>
    refine ⟨⟨fun h => (by cases h), fun h => (by have := h4.2 h; cases this)⟩, ?_⟩
    intro c' hc'
    simp only [Option.some.injEq] at hc'
    subst hc'
    refine ⟨⟨h1, fun x hx => ?_⟩, h3⟩
    have e := h3 x.1
    simp only [amt_eq] at e h4
    rw [amtL_of_mem h1 hx] at e
    have : ¬ amtL a x.1 < amtL b x.1 := fun hlt => by have := h4.2 ⟨_, hlt⟩; cases this
    have := h2 x hx
    omega
  | true => exact ⟨⟨fun _ => h4.1 rfl, fun _ => rfl⟩, fun c' h => by cases h⟩

/-- Add and Sub are inverse -/
theorem add_sub_inverse (a b c : Coins) (ha : Canon a) (hb : Canon b) (hrb : AllDecInRange b)
    (h : DecCoins.add a b = some c) (hrc : AllDecInRange c) : DecCoins.sub c b = some a := by
  have hc := add_canon a b c ha hb h
  obtain ⟨h1, h2, h3⟩ := add_spec a b c ha.1 hb.1 h
  obtain ⟨hn, hsome⟩ := sub_spec c b hc hb hrc hrb
  cases hs : DecCoins.sub c b with
  | none =>
    exfalso
    obtain ⟨d, hd⟩ := hn.1 hs
    have := h3 d; have := amtL_nonneg ha.2 d
    simp only [amt_eq] at *; omega
  | some e =>
    obtain ⟨⟨e1, e2⟩, e3⟩ := hsome e hs
    congr 1
    refine sorted_nonzero_extL e a e1 ha.1 (fun c hc => by have := e2 c hc; omega) (fun c hc => by have := ha.2 c hc; omega) (fun d => ?_)
    have := e3 d; have := h3 d; simp only [amt_eq] at *; omega

theorem sub_add_inverse (a b c : Coins) (ha : Canon a) (hb : Canon b) (hra : AllDecInRange a) (hrb : AllDecInRange b)
    (h : DecCoins.sub a b = some c) : DecCoins.add c b = some a := by
  obtain ⟨_, hsome⟩ := sub_spec a b ha hb hra hrb
  obtain ⟨⟨c2, c3⟩, c4⟩ := hsome c h
  simp only [amt_eq] at c4
  unfold DecCoins.add
  cases hs : DecCoins.safeAdd c b with
  | none =>
    exfalso
    obtain ⟨x, hx, y, hy, hxy, hnone⟩ := (DecCoins.safeAdd_none_iffL c b c2 hb.1).1 hs
    have e1 := amtL_of_mem c2 hx
    have e2 := amtL_of_mem hb.1 hy
    have e3 := c4 x.1
    rw [e1] at e3
    rw [hxy, e2, ← hxy] at e3
    have hr : DecInRange (amtL a x.1) := by
      by_cases h0 : amtL a x.1 = 0
      · rw [h0]; unfold DecInRange; decide
      · obtain ⟨z, hz, _, hz2⟩ := exists_of_amtL_ne_zero h0; rw [← hz2]; exact hra z hz
    rw [decAdd_exact] at hnone
    split at hnone
    · cases hnone
    · next hh =>
      apply hh
      have : x.2 + y.2 = amtL a x.1 := by omega
      rw [this]; exact hr
  | some e =>
    obtain ⟨h1, h2, h3⟩ := DecCoins.safeAdd_specL c b e c2 hb.1 hs
    congr 1
    refine sorted_nonzero_extL e a h1 ha.1 h2 (fun c hc => by have := ha.2 c hc; omega) (fun d => ?_)
    have := h3 d; have := c4 d; omega

/-! ### MulDec / QuoDec and their truncating variants -/

/-- the shared loop: on a set sorted by denomination the result is sorted, without zero amounts, and holds for
every denomination what the per-amount operation `f` makes of the operand's amount -/
theorem scale_spec (f : Int → Option Int) (hf0 : f 0 = some 0) (cs r : Coins) (hs : Sorted cs)
    (h : DecCoins.scale f cs = some r) :
    Sorted r ∧ (∀ x ∈ r, x.2 ≠ 0) ∧ ∀ d, f (amt cs d) = some (amt r d) := by
  obtain ⟨h1, h2, h3, h4⟩ := DecCoins.scaleFrom_specL f [] cs r sortedL_nil (by simp) h
  refine ⟨h1, h2, fun d => ?_⟩
  simp only [amt_eq]
  rw [h4 d, amtL_nil, Int.zero_add, DecCoins.contrib_sorted (by simp [hf0]) hs d]
  by_cases hz : amtL cs d = 0
  · rw [hz, hf0]; rfl
  · obtain ⟨x, hx, _, e⟩ := exists_of_amtL_ne_zero hz
    obtain ⟨p, hp⟩ := h3 x hx
    rw [← e, hp]; rfl

/-- it panics exactly when the per-amount operation panics on some coin (sorted operand; a sum of one-coin sets
over distinct denominations cannot overflow) -/
theorem scale_total (f : Int → Option Int) (cs : Coins) (hs : Sorted cs) (hall : ∀ c ∈ cs, ∃ p, f c.2 = some p) :
    ∃ r, DecCoins.scale f cs = some r := by
  suffices H : ∀ (cs res : Coins), SortedL res → (∀ x ∈ res, ∀ c ∈ cs, x.1 < c.1) → SortedL cs →
      (∀ c ∈ cs, ∃ p, f c.2 = some p) → ∃ r, DecCoins.scaleFrom f res cs = some r by
    exact H cs [] sortedL_nil (by simp) hs hall
  intro cs
  induction cs with
  | nil => intro res _ _ _ _; exact ⟨res, rfl⟩
  | cons c rest ih =>
    intro res hres hlt hcs hall
    rw [sortedL_cons] at hcs
    obtain ⟨p, hp⟩ := hall c (by simp)
    unfold DecCoins.scaleFrom
    simp only [hp]
    by_cases hz : p = 0
    · simp only [hz, beq_self_eq_true, if_true]
      exact ih res hres (fun x hx y hy => hlt x hx y (by simp [hy])) hcs.2 (fun y hy => hall y (by simp [hy]))
    · have : (p == 0) = false := by simpa using hz
      simp only [this, Bool.false_eq_true, if_false]
      cases hadd : DecCoins.safeAdd res [(c.1, p)] with
      | none =>
        exfalso
        obtain ⟨x, hx, y, hy, e, _⟩ := (DecCoins.safeAdd_none_iffL res [(c.1, p)] hres (DecCoins.sortedL_single _)).1 hadd
        simp only [List.mem_singleton] at hy; subst hy
        exact slt_ne (hlt x hx c (by simp)) e
      | some res' =>
        simp only []
        obtain ⟨a1, a2, a3⟩ := DecCoins.safeAdd_specL res [(c.1, p)] res' hres (DecCoins.sortedL_single _) hadd
        refine ih res' a1 ?_ hcs.2 (fun y hy => hall y (by simp [hy]))
        intro x hx y hy
        rcases denoms_of_amtL_add a1 a2 a3 x hx with ⟨z, hz', e⟩ | ⟨z, hz', e⟩
        · rw [← e]; exact hlt z hz' y (by simp [hy])
        · simp only [List.mem_singleton] at hz'; subst hz'; rw [← e]; exact hcs.1 y hy

theorem decMul_zero (m : Int) : decMul 0 m = some 0 := by
  simp [decMul, decCheck, chopRound, chopRoundNonneg, bitLen]
theorem decMulTruncate_zero (m : Int) : decMulTruncate 0 m = some 0 := by
  simp [decMulTruncate, decCheck, chopTrunc, bitLen]
theorem decQuo_zero (m : Int) (hm : m ≠ 0) : decQuo 0 m = some 0 := by
  simp [decQuo, hm, decCheck, chopRound, chopRoundNonneg, bitLen]
theorem decQuoTruncate_zero (m : Int) (hm : m ≠ 0) : decQuoTruncate 0 m = some 0 := by
  simp [decQuoTruncate, hm, decCheck, chopTrunc, bitLen]

/-- `MulDec`: every denomination's amount is `Dec.Mul` of the operand's amount (half-to-even at 18 decimals,
`C18.decMul_spec`); the result is sorted and holds no zero amount -/
theorem mulDec_spec (cs r : Coins) (m : Int) (hs : Sorted cs) (h : DecCoins.mulDec cs m = some r) :
    Sorted r ∧ (∀ x ∈ r, x.2 ≠ 0) ∧ ∀ d, decMul (amt cs d) m = some (amt r d) :=
  scale_spec (fun x => decMul x m) (decMul_zero m) cs r hs h

theorem mulDecTruncate_spec (cs r : Coins) (m : Int) (hs : Sorted cs) (h : DecCoins.mulDecTruncate cs m = some r) :
    Sorted r ∧ (∀ x ∈ r, x.2 ≠ 0) ∧ ∀ d, decMulTruncate (amt cs d) m = some (amt r d) :=
  scale_spec (fun x => decMulTruncate x m) (decMulTruncate_zero m) cs r hs h

/-- `QuoDec` panics on a zero divisor; otherwise every amount is `Dec.Quo` of the operand's amount -/
theorem quoDec_spec (cs r : Coins) (m : Int) (hs : Sorted cs) (h : DecCoins.quoDec cs m = some r) :
    m ≠ 0 ∧ Sorted r ∧ (∀ x ∈ r, x.2 ≠ 0) ∧ ∀ d, decQuo (amt cs d) m = some (amt r d) := by
  unfold DecCoins.quoDec at h
  split at h
  · cases h
  · next hm => exact ⟨hm, scale_spec (fun x => decQuo x m) (decQuo_zero m hm) cs r hs h⟩

theorem quoDecTruncate_spec (cs r : Coins) (m : Int) (hs : Sorted cs) (h : DecCoins.quoDecTruncate cs m = some r) :
    m ≠ 0 ∧ Sorted r ∧ (∀ x ∈ r, x.2 ≠ 0) ∧ ∀ d, decQuoTruncate (amt cs d) m = some (amt r d) := by
  unfold DecCoins.quoDecTruncate at h
  split at h
  · cases h
  · next hm => exact ⟨hm, scale_spec (fun x => decQuoTruncate x m) (decQuoTruncate_zero m hm) cs r hs h⟩

theorem quoDec_zero_panics (cs : Coins) : DecCoins.quoDec cs 0 = none ∧ DecCoins.quoDecTruncate cs 0 = none := by
  simp [DecCoins.quoDec, DecCoins.quoDecTruncate]

/-- MulDec of a sorted set panics exactly when `Dec.Mul` panics on one of its coins -/
theorem mulDec_none_iff (cs : Coins) (m : Int) (hs : Sorted cs) :
    DecCoins.mulDec cs m = none ↔ ∃ c ∈ cs, decMul c.2 m = none := by
  constructor
  · intro h
    refine Classical.byContradiction fun hn => ?_
    have hall : ∀ c ∈ cs, ∃ p, decMul c.2 m = some p := by
      intro c hc
      cases e : decMul c.2 m with
      | none => exact absurd ⟨c, hc, e⟩ hn
      | some p => exact ⟨p, rfl⟩
    obtain ⟨r, hr⟩ := scale_total (fun x => decMul x m) cs hs hall
    unfold DecCoins.mulDec at h; rw [hr] at h; cases h
  · rintro ⟨c, hc, e⟩
    cases h : DecCoins.mulDec cs m with
    | none => rfl
    | some r =>
      exfalso
      obtain ⟨_, _, h3, _⟩ := DecCoins.scaleFrom_specL (fun x => decMul x m) [] cs r sortedL_nil (by simp) h
      obtain ⟨p, hp⟩ := h3 c hc
      have hp' : decMul c.2 m = some p := hp
      rw [e] at hp'; cases hp'

/-! ### Intersect -/

/-- `Intersect` of sets sorted by denomination: it succeeds only when the receiver's denominations are well formed;
the result is sorted, holds no zero amount, has for every coin of the receiver the smaller of its amount and the
argument's amount for that denomination, and nothing for any other denomination -/
theorem intersect_spec (a b r : Coins) (ha : Sorted a) (hb : Sorted b) (h : DecCoins.intersect a b = some r) :
    Sorted r ∧ (∀ x ∈ r, x.2 ≠ 0) ∧ DenomsOK a ∧
      (∀ c ∈ a, amt r c.1 = DecCoins.minDec c.2 (amt b c.1)) ∧ (∀ d, (∀ c ∈ a, c.1 ≠ d) → amt r d = 0) := by
  unfold DecCoins.intersect at h
  simp only [Option.map_eq_some_iff] at h
  obtain ⟨l, hl, rfl⟩ := h
  obtain ⟨e, hok⟩ := DecCoins.intersectRaw_some a b l hb hl
  have hsl : SortedL l := by rw [e]; exact DecCoins.sortedL_map_snd _ ha
  refine ⟨sortedL_removeZero hsl, removeZero_nonzero _, hok, ?_, ?_⟩
  · intro c hc
    simp only [amt_eq]
    rw [amtL_removeZero hsl]
    have hm : (c.1, DecCoins.minDec c.2 (amtL b c.1)) ∈ l := by
      rw [e]; exact List.mem_map.2 ⟨c, hc, rfl⟩
    exact amtL_of_mem hsl hm
  · intro d hd
    simp only [amt_eq]
    rw [amtL_removeZero hsl]
    apply amtL_eq_zero
    intro x hx
    rw [e] at hx
    obtain ⟨c, hc, rfl⟩ := List.mem_map.1 hx
    exact hd c hc

/-! ### TruncateDecimal -/

theorem chopTrunc_zero : chopTrunc 0 = 0 := by simp [chopTrunc]

/-- `TruncateDecimal` of a sorted set: it succeeds only on non-negative amounts over well-formed denominations; the
whole parts and the change are both canonical, and for every denomination
`whole * 10^18 + change = amount` with `0 ≤ change < 10^18` - nothing is created or lost by the split -/
theorem truncateDecimal_spec (cs w ch : Coins) (hs : Sorted cs) (h : DecCoins.truncateDecimal cs = some (w, ch)) :
    Canon w ∧ Canon ch ∧ DenomsOK cs ∧ (∀ c ∈ cs, 0 ≤ c.2) ∧
      ∀ d, amt w d * P + amt ch d = amt cs d ∧ 0 ≤ amt ch d ∧ amt ch d < P ∧ amt w d = chopTrunc (amt cs d) := by
  obtain ⟨h1, h2, h3, h4, h5, h6⟩ :=
    DecCoins.truncFrom_specL [] [] cs w ch sortedL_nil (by simp) sortedL_nil (by simp) h
  have hP : (0 : Int) < P := by unfold P; decide
  have hw : ∀ d, amtL w d = chopTrunc (amtL cs d) := by
    intro d; rw [(h6 d).1, amtL_nil, Int.zero_add, DecCoins.contrib_sorted chopTrunc_zero hs d]
  have hc : ∀ d, amtL ch d = amtL cs d - chopTrunc (amtL cs d) * P := by
    intro d; rw [(h6 d).2, amtL_nil, Int.zero_add, DecCoins.contrib_sorted (by simp [chopTrunc_zero]) hs d]
  have hnn : ∀ d, 0 ≤ chopTrunc (amtL cs d) ∧ 0 ≤ amtL cs d - chopTrunc (amtL cs d) * P := by
    intro d
    by_cases hz : amtL cs d = 0
    · rw [hz, chopTrunc_zero]; simp
    · obtain ⟨x, hx, _, e⟩ := exists_of_amtL_ne_zero hz
      rw [← e]; exact ⟨(h5 x hx).1, (h5 x hx).2.1⟩
  have hlt : ∀ x : Int, x - chopTrunc x * P < P := by
    intro x
    have e : x - chopTrunc x * P = Int.tmod x P := by
      unfold chopTrunc
      have := Int.tmod_add_tdiv_mul x P
      omega
    rw [e]; exact Int.tmod_lt_of_pos x hP
  refine ⟨⟨h1, fun x hx => ?_⟩, ⟨h3, fun x hx => ?_⟩, fun c hc' => (h5 c hc').2.2, fun c hc' => ?_, fun d => ?_⟩
  · have e := amtL_of_mem h1 hx
    rw [hw x.1] at e
    have := (hnn x.1).1; have := h2 x hx; omega
  · have e := amtL_of_mem h3 hx
    rw [hc x.1] at e
    have := (hnn x.1).2; have := h4 x hx; omega
  · obtain ⟨p1, p2, _⟩ := h5 c hc'
    have : 0 ≤ chopTrunc c.2 * P := Int.mul_nonneg p1 (Int.le_of_lt hP)
    omega
  · simp only [amt_eq]
    rw [hw d, hc d]
    refine ⟨by omega, (hnn d).2, hlt _, rfl⟩

/-- non-vacuity: 2.5 aaa and 0.000000000000000001 upokt, doubled: MulDec succeeds and `mulDec_spec` fixes the amounts -/
example : ∃ r, DecCoins.mulDec [("aaa", 2500000000000000000), ("upokt", 1)] 2000000000000000000 = some r ∧
    amt r "aaa" = 5000000000000000000 ∧ amt r "upokt" = 2 := by
  have hs : Sorted [("aaa", 2500000000000000000), ("upokt", 1)] := by unfold Sorted; simp
  obtain ⟨r, hr⟩ := scale_total (fun x => decMul x 2000000000000000000) _ hs (by
    intro c hc
    simp only [List.mem_cons, List.not_mem_nil, or_false] at hc
    rcases hc with rfl | rfl
    · exact ⟨5000000000000000000, by decide⟩
    · exact ⟨2, by decide⟩)
  have h3 := (mulDec_spec _ r _ hs hr).2.2
  refine ⟨r, hr, ?_, ?_⟩
  · have := h3 "aaa"
    have e : decMul (amt [("aaa", 2500000000000000000), ("upokt", 1)] "aaa") 2000000000000000000 = some 5000000000000000000 := by decide
    rw [e] at this; exact (Option.some.inj this).symm
  · have := h3 "upokt"
    have e : decMul (amt [("aaa", 2500000000000000000), ("upokt", 1)] "upokt") 2000000000000000000 = some 2 := by decide
    rw [e] at this; exact (Option.some.inj this).symm

/-- non-vacuity: 2.5 aaa splits into 2 aaa and 0.5 aaa -/
example : DecCoins.truncateDecimal [("aaa", 2500000000000000000)] = some ([("aaa", 2)], [("aaa", 500000000000000000)]) := by
  have h1 : DecCoins.truncOne ("aaa", 2500000000000000000) = some (("aaa", 2), ("aaa", 500000000000000000)) := by decide
  simp [DecCoins.truncateDecimal, DecCoins.truncFrom, h1, Coins.safeAdd, DecCoins.safeAdd, removeZero]

end Posmint.Props.C18DecCoins
