import Posmint.Lemmas.ChainTx
import Posmint.Lemmas.ParseGov
/-!
# C17 — Governance: only the listed owner changes a parameter or moves DAO funds
-/
namespace Posmint.Props.C17
open Posmint.Chain Posmint.Chain.ChainTx Posmint.Chain.ParseGov

/-- the governance-controlled part of the state -/
def govOf (s : State) : Params × List (String × Addr) × Addr × (Int × String) := (s.p, s.acl, s.daoOwner, s.upgrade)

theorem govOf_eq_gov (s : State) : govOf s = gov s := rfl

theorem signer_congr {s s1 : State} (hk : s1.keys = s.keys) (m : Msg) : m.signer s1 = m.signer s := by
  cases m <;> simp [Msg.signer, keyAddr, hk]

theorem gov_change_aux (s s' : State) (mode : Mode) (t : Tx) (ok : Bool)
    (hr : runTx s mode t = (s', ok)) (hg : gov s' ≠ gov s) :
    mode = .deliver ∧ ok = true ∧ anteOK s t false = true ∧
    ((∃ src key val, t.msg = .changeParam src key val ∧ s.acl.lookup key = some src) ∨
     (∃ src h ver, t.msg = .upgrade src h ver ∧ s.acl.lookup "gov/upgrade" = some src)) := by
  unfold runTx at hr
  split at hr; · simp at hr; rw [hr.1] at hg; exact absurd rfl hg
  split at hr; · simp at hr; rw [hr.1] at hg; exact absurd rfl hg
  split at hr; · simp at hr; rw [hr.1] at hg; exact absurd rfl hg
  rename_i _ _ ha
  simp only at hr
  cases mode with
  | check => simp at hr; rw [hr.1] at hg; exact absurd rfl hg
  | simulate => simp at hr; rw [hr.1] at hg; exact absurd rfl hg
  | deliver =>
    have hmd : (Mode.deliver == Mode.simulate) = false := by decide
    have ha' : anteOK s t false = true := by rw [hmd] at ha; simpa using ha
    simp only at hr
    split at hr
    · rename_i s1 h1
      simp at hr
      obtain ⟨rfl, rfl⟩ := hr
      refine ⟨rfl, rfl, ha', ?_⟩
      have hfee : gov ((send2 ((send s (t.msg.signer s) s.feeAcc t.feeEff).getD s) (t.msg.signer s) s.feeAcc t.fee2).getD
          ((send s (t.msg.signer s) s.feeAcc t.feeEff).getD s)) = gov s := by
        rw [gov_send2_getD, gov_send_getD]
      have hacl := hfee
      simp only [gov, Prod.mk.injEq] at hacl
      by_cases hcp : ∃ src key val, t.msg = .changeParam src key val
      · obtain ⟨src, key, val, hm⟩ := hcp
        refine Or.inl ⟨src, key, val, hm, ?_⟩
        rw [hm] at h1
        simp only [handle] at h1
        split at h1
        · simp at h1
        · rename_i owner ho
          split at h1
          · simp at h1
          · rename_i hne
            have : owner = src := by simpa using hne
            subst this
            rw [← hacl.2.1, hm]; exact ho
      · by_cases hup : ∃ src h ver, t.msg = .upgrade src h ver
        · obtain ⟨src, h, ver, hm⟩ := hup
          refine Or.inr ⟨src, h, ver, hm, ?_⟩
          rw [hm] at h1
          rw [← hacl.2.1, hm]
          exact (F2.handle_upgrade_some h1).1
        · exfalso
          apply hg
          rw [gov_handle h1 (fun src key val h => hcp ⟨src, key, val, h⟩) (fun src h ver e => hup ⟨src, h, ver, e⟩), hfee]
    · simp at hr
      rw [← hr.1] at hg
      exact absurd (by rw [gov_send2_getD, gov_send_getD]) hg

/-- If a transaction changes any parameter, the ACL, the DAO owner or the upgrade plan, it is a delivered, accepted
change-parameter message whose sender is the owner the ACL names for that key, or a delivered, accepted upgrade
message whose sender is the owner the ACL names for `gov/upgrade`. -/
theorem param_change_authorised (s s' : State) (mode : Mode) (t : Tx) (ok : Bool)
    (hr : runTx s mode t = (s', ok)) (hc : s'.p.minStake ≠ s.p.minStake ∨ s'.p.maxVals ≠ s.p.maxVals ∨
      s'.p.unstakingTime ≠ s.p.unstakingTime ∨ s'.p.window ≠ s.p.window ∨ s'.p.minSignedRaw ≠ s.p.minSignedRaw ∨
      s'.p.maxMemo ≠ s.p.maxMemo ∨ s'.p.jailDur ≠ s.p.jailDur ∨ s'.p.maxAge ≠ s.p.maxAge ∨
      s'.p.sfDouble ≠ s.p.sfDouble ∨ s'.p.sfDown ≠ s.p.sfDown ∨ s'.p.feeBase ≠ s.p.feeBase ∨
      s'.p.txSigLimit ≠ s.p.txSigLimit ∨ s'.p.feeMults ≠ s.p.feeMults ∨ s'.p.feeDefault ≠ s.p.feeDefault ∨ s'.acl ≠ s.acl ∨ s'.daoOwner ≠ s.daoOwner ∨ s'.upgrade ≠ s.upgrade) :
    mode = .deliver ∧ ok = true ∧ anteOK s t false = true ∧
    ((∃ src key val, t.msg = .changeParam src key val ∧ s.acl.lookup key = some src) ∨
     (∃ src h ver, t.msg = .upgrade src h ver ∧ s.acl.lookup "gov/upgrade" = some src)) := by
  have hg : gov s' ≠ gov s := by
    intro e
    simp only [gov, Prod.mk.injEq] at e
    obtain ⟨e1, e2, e3, e4⟩ := e
    rw [e1, e2, e3, e4] at hc
    simp at hc
  exact gov_change_aux s s' mode t ok hr hg

/-- The same, in terms of the whole governance state (all parameters, the ACL, the DAO owner, the upgrade plan): if a
transaction changes any of it, it was a delivered, accepted change-param message sent by the owner the ACL names for
that key, or a delivered, accepted upgrade message sent by the owner of `gov/upgrade`. -/
theorem gov_change_authorised (s s' : State) (mode : Mode) (t : Tx) (ok : Bool)
    (hr : runTx s mode t = (s', ok)) (hg : gov s' ≠ gov s) :
    mode = .deliver ∧ ok = true ∧ anteOK s t false = true ∧
    ((∃ src key val, t.msg = .changeParam src key val ∧ s.acl.lookup key = some src) ∨
     (∃ src h ver, t.msg = .upgrade src h ver ∧ s.acl.lookup "gov/upgrade" = some src)) :=
  gov_change_aux s s' mode t ok hr hg


/-- Such a change alters the parameter named by the key alone. -/
theorem change_only_that_key (s : State) (key val : String) :
    let s' := applyParam s key val
    (key ≠ "gov/acl" → s'.acl = s.acl) ∧ s'.bal = s.bal ∧ s'.supply = s.supply ∧ s'.vals = s.vals ∧
    (key ≠ "gov/daoOwner" → s'.daoOwner = s.daoOwner) ∧
    (key ≠ "gov/upgrade" → s'.upgrade = s.upgrade) ∧
    (key ≠ "pos/MaxValidators" → s'.p.maxVals = s.p.maxVals) ∧
    (key ≠ "pos/StakeMinimum" → s'.p.minStake = s.p.minStake) ∧
    (key ≠ "pos/UnstakingTime" → s'.p.unstakingTime = s.p.unstakingTime) ∧
    (key ≠ "pos/SignedBlocksWindow" → s'.p.window = s.p.window) ∧
    (key ≠ "pos/MinSignedPerWindow" → s'.p.minSignedRaw = s.p.minSignedRaw) ∧
    (key ≠ "auth/MaxMemoCharacters" → s'.p.maxMemo = s.p.maxMemo) ∧
    (key ≠ "auth/TxSigLimit" → s'.p.txSigLimit = s.p.txSigLimit) ∧
    (key ≠ "auth/FeeMultipliers" → s'.p.feeMults = s.p.feeMults ∧ s'.p.feeDefault = s.p.feeDefault) ∧
    (key ≠ "pos/DowntimeJailDuration" → s'.p.jailDur = s.p.jailDur) ∧
    (key ≠ "pos/MaxEvidenceAge" → s'.p.maxAge = s.p.maxAge) ∧
    (key ≠ "pos/SlashFractionDoubleSign" → s'.p.sfDouble = s.p.sfDouble) ∧
    (key ≠ "pos/SlashFractionDowntime" → s'.p.sfDown = s.p.sfDown) ∧
    s'.p.feeBase = s.p.feeBase ∧ s'.p.feeChangeParam = s.p.feeChangeParam ∧ s'.p.feeDao = s.p.feeDao ∧
    s'.p.feeUpgrade = s.p.feeUpgrade := by
  intro s'
  have hs : s' = applyParam s key val := rfl
  clear_value s'
  subst hs
  unfold applyParam
  repeat' split
  all_goals simp

/-- An accepted upgrade message sets the plan to exactly the stated height and version and touches nothing else. -/
theorem upgrade_sets_plan (s s1 : State) (src : Addr) (h : Int) (ver : String)
    (hh : handle s (.upgrade src h ver) = some s1) :
    s.acl.lookup "gov/upgrade" = some src ∧ s1 = { s with upgrade := (h, ver) } :=
  F2.handle_upgrade_some hh

/-! ### the access-control list is replaced as a whole; hand-over and dropping of one key as special cases -/

/-- specification: the list with the owner of one key re-assigned (first match; appended if the key is new) -/
def aclSet : List (String × Addr) → String → Addr → List (String × Addr)
  | [], k, o => [(k, o)]
  | (k', o') :: rest, k, o => if k' == k then (k, o) :: rest else (k', o') :: aclSet rest k o

/-- specification: the list without a key -/
def aclDrop (l : List (String × Addr)) (k : String) : List (String × Addr) := l.filter (fun e => e.1 != k)


theorem lookup_cons_eq {β} (k : String) (b : β) (es : List (String × β)) :
    List.lookup k ((k, b) :: es) = some b := by
  rw [List.lookup_cons]; simp
theorem lookup_cons_ne {β} (k k1 : String) (b : β) (es : List (String × β)) (h : k ≠ k1) :
    List.lookup k ((k1, b) :: es) = List.lookup k es := by
  rw [List.lookup_cons]
  have : (k == k1) = false := by simpa using h
  rw [this]

theorem lookup_aclSet_self (l : List (String × Addr)) (k : String) (o : Addr) :
    (aclSet l k o).lookup k = some o := by
  induction l with
  | nil => exact lookup_cons_eq _ _ _
  | cons e rest ih =>
    obtain ⟨k', o'⟩ := e
    unfold aclSet
    by_cases h : k' = k
    · simp only [h, beq_self_eq_true, if_true]; exact lookup_cons_eq _ _ _
    · have h' : k ≠ k' := fun e => h e.symm
      simp only [beq_iff_eq, h, if_false]
      rw [lookup_cons_ne _ _ _ _ h', ih]

theorem lookup_aclSet_other (l : List (String × Addr)) (k : String) (o : Addr) (k' : String) (hk : k' ≠ k) :
    (aclSet l k o).lookup k' = l.lookup k' := by
  induction l with
  | nil => unfold aclSet; rw [lookup_cons_ne _ _ _ _ hk]
  | cons e rest ih =>
    obtain ⟨k1, o1⟩ := e
    unfold aclSet
    by_cases h : k1 = k
    · subst h
      simp only [beq_self_eq_true, if_true]
      rw [lookup_cons_ne _ _ _ _ hk, lookup_cons_ne _ _ _ _ hk]
    · simp only [beq_iff_eq, h, if_false]
      by_cases h2 : k' = k1
      · subst h2; rw [lookup_cons_eq, lookup_cons_eq]
      · rw [lookup_cons_ne _ _ _ _ h2, lookup_cons_ne _ _ _ _ h2, ih]

theorem lookup_aclDrop_self (l : List (String × Addr)) (k : String) : (aclDrop l k).lookup k = none := by
  unfold aclDrop
  induction l with
  | nil => rfl
  | cons e rest ih =>
    obtain ⟨k1, o1⟩ := e
    by_cases h : k1 = k
    · rw [List.filter_cons_of_neg (by simp [h]), ih]
    · have h' : k ≠ k1 := fun e => h e.symm
      rw [List.filter_cons_of_pos (by simpa using h), lookup_cons_ne _ _ _ _ h', ih]

theorem lookup_aclDrop_other (l : List (String × Addr)) (k k' : String) (hk : k' ≠ k) :
    (aclDrop l k).lookup k' = l.lookup k' := by
  unfold aclDrop
  induction l with
  | nil => rfl
  | cons e rest ih =>
    obtain ⟨k1, o1⟩ := e
    by_cases h : k1 = k
    · subst h
      rw [List.filter_cons_of_neg (by simp), ih, lookup_cons_ne _ _ _ _ hk]
    · rw [List.filter_cons_of_pos (by simpa using h)]
      by_cases h2 : k' = k1
      · subst h2; rw [lookup_cons_eq, lookup_cons_eq]
      · rw [lookup_cons_ne _ _ _ _ h2, lookup_cons_ne _ _ _ _ h2, ih]

/-- A change of `gov/acl` installs exactly the list its value decodes to - the whole list, not a difference to the
current one: entries the new value does not repeat are gone, entries it names differently are re-assigned - and touches
nothing else. -/
theorem acl_replace (s : State) (val : String) (l : List (String × Addr)) (hp : parseAcl val = some l) :
    let s' := applyParam s "gov/acl" val
    s'.acl = l ∧ s'.p = s.p ∧ s'.daoOwner = s.daoOwner ∧ s'.bal = s.bal ∧ s'.supply = s.supply ∧ s'.vals = s.vals ∧
    s'.bal2 = s.bal2 ∧ s'.supply2 = s.supply2 := by
  intro s'
  have e : s' = { s with acl := l } := by simp only [s', applyParam, hp]
  rw [e]
  exact ⟨rfl, rfl, rfl, rfl, rfl, rfl, rfl, rfl⟩

/-- A value that does not decode to an access-control list changes nothing (`ModifyParam` ignores the error). -/
theorem acl_undecodable (s : State) (val : String) (hp : parseAcl val = none) : applyParam s "gov/acl" val = s := by
  simp only [applyParam, hp]

/-- Ownership hand-over: a new list that differs from the current one in the owner of one key - afterwards the list
names the new owner for it and whoever it named before for every other key - and nothing else is touched. -/
theorem acl_handover (s : State) (val k : String) (o : Addr) (hp : parseAcl val = some (aclSet s.acl k o)) :
    let s' := applyParam s "gov/acl" val
    s'.acl.lookup k = some o ∧ (∀ k', k' ≠ k → s'.acl.lookup k' = s.acl.lookup k') ∧
    s'.p = s.p ∧ s'.daoOwner = s.daoOwner ∧ s'.bal = s.bal ∧ s'.supply = s.supply ∧ s'.vals = s.vals := by
  intro s'
  obtain ⟨h, hp', hd, hb, hs, hv, _, _⟩ := acl_replace s val _ hp
  refine ⟨?_, ?_, hp', hd, hb, hs, hv⟩
  · show s'.acl.lookup k = some o
    rw [h]; exact lookup_aclSet_self _ _ _
  · intro k' hk
    show s'.acl.lookup k' = _
    rw [h]; exact lookup_aclSet_other _ _ _ _ hk

/-- Dropping a key: a new list that omits one key - afterwards nobody may change that parameter - keeps every other
entry and touches nothing else. -/
theorem acl_drop (s : State) (val k : String) (hp : parseAcl val = some (aclDrop s.acl k)) :
    let s' := applyParam s "gov/acl" val
    s'.acl.lookup k = none ∧ (∀ k', k' ≠ k → s'.acl.lookup k' = s.acl.lookup k') ∧
    s'.p = s.p ∧ s'.daoOwner = s.daoOwner ∧ s'.bal = s.bal := by
  intro s'
  obtain ⟨h, hp', hd, hb, _⟩ := acl_replace s val _ hp
  refine ⟨?_, ?_, hp', hd, hb⟩
  · show s'.acl.lookup k = none
    rw [h]; exact lookup_aclDrop_self _ _
  · intro k' hk
    show s'.acl.lookup k' = _
    rw [h]; exact lookup_aclDrop_other _ _ _ hk

/-! ### the decoder accepts every list in its canonical encoding -/

/-- the canonical amino JSON of one entry -/
def encodeAclEntry (e : String × Addr) : List Char :=
  "{\"acl_key\":\"".toList ++ e.1.toList ++ "\",\"address\":\"".toList ++ e.2.toList ++ "\"}".toList

/-- entries separated by commas -/
def encodeAclEntries : List (String × Addr) → List Char
  | [] => []
  | [e] => encodeAclEntry e
  | e :: rest => encodeAclEntry e ++ [','] ++ encodeAclEntries rest

/-- the canonical amino JSON of an access-control list, as the parameter store holds it -/
def encodeAcl (l : List (String × Addr)) : String :=
  String.ofList ("{\"type\":\"gov/non_map_acl\",\"value\":[".toList ++ encodeAclEntries l ++ "]}".toList)

theorem encodeAclEntry_append (e : String × Addr) (tail : List Char) :
    encodeAclEntry e ++ tail =
      "{\"acl_key\":\"".toList ++ (e.1.toList ++ '"' :: (",\"address\":\"".toList ++
        (e.2.toList ++ '"' :: '}' :: tail))) := by
  unfold encodeAclEntry
  rw [address_literal, close_literal]
  simp only [List.append_assoc, List.cons_append, List.nil_append]

theorem encodeAclEntries_cons_head (e : String × Addr) (l : List (String × Addr)) (x : List Char) :
    ∃ t, encodeAclEntries (e :: l) ++ x = '{' :: t := by
  have h1 : ∀ y, ∃ t, encodeAclEntry e ++ y = '{' :: t := fun y => ⟨_, by rw [encodeAclEntry_append]; rfl⟩
  cases l with
  | nil => exact h1 x
  | cons e' l' =>
    show ∃ t, (encodeAclEntry e ++ [','] ++ encodeAclEntries (e' :: l')) ++ x = '{' :: t
    rw [List.append_assoc, List.append_assoc]
    exact h1 _

theorem length_le_encodeAclEntries : ∀ l : List (String × Addr), l.length ≤ (encodeAclEntries l).length
  | [] => Nat.le_refl _
  | [e] => by
    obtain ⟨t, ht⟩ := encodeAclEntries_cons_head e [] []
    rw [List.append_nil] at ht
    rw [ht]; simp
  | e :: e' :: l' => by
    have ih := length_le_encodeAclEntries (e' :: l')
    show _ ≤ (encodeAclEntry e ++ [','] ++ encodeAclEntries (e' :: l')).length
    simp only [List.length_append, List.length_cons, List.length_nil] at ih ⊢
    omega

/-- the entries of a non-empty list, followed by the closing `]}`, are read back; one unit of fuel an entry -/
theorem parseAclEntries_encode : ∀ (l : List (String × Addr)), l ≠ [] →
    (∀ e ∈ l, '"' ∉ e.1.toList) → (∀ e ∈ l, aclOwnerOK e.2.toList = true) →
    ∀ fuel, l.length ≤ fuel → parseAclEntries fuel (encodeAclEntries l ++ "]}".toList) = some l
  | [], hne, _, _, _, _ => absurd rfl hne
  | [e], _, hk, ho, fuel, hf => by
    cases fuel with
    | zero => simp at hf
    | succ f =>
      show parseAclEntries (f + 1) (encodeAclEntry e ++ "]}".toList) = _
      rw [encodeAclEntry_append]
      have := parseAclEntries_last f e.1.toList e.2.toList (hk e List.mem_cons_self) (ho e List.mem_cons_self)
      rw [String.ofList_toList, String.ofList_toList] at this
      exact this
  | e :: e' :: l', _, hk, ho, fuel, hf => by
    cases fuel with
    | zero => simp at hf
    | succ f =>
      show parseAclEntries (f + 1) (encodeAclEntry e ++ [','] ++ encodeAclEntries (e' :: l') ++ "]}".toList) = _
      rw [List.append_assoc, List.append_assoc, encodeAclEntry_append]
      have := parseAclEntries_more f e.1.toList e.2.toList (encodeAclEntries (e' :: l') ++ "]}".toList)
        (hk e List.mem_cons_self) (ho e List.mem_cons_self)
      rw [String.ofList_toList, String.ofList_toList] at this
      rw [List.singleton_append, this,
        parseAclEntries_encode (e' :: l') (List.cons_ne_nil _ _)
          (fun x hx => hk x (List.mem_cons_of_mem _ hx)) (fun x hx => ho x (List.mem_cons_of_mem _ hx)) f
          (by simp only [List.length_cons] at hf ⊢; omega)]
      rfl

/-- Every access-control list - any number of entries, any keys without a double quote, every owner an address or
empty - is decoded from its canonical encoding to itself: the hypothesis `parseAcl val = some l` of `acl_replace`,
`acl_handover` and `acl_drop` is met by the encoding of every such `l`. -/
theorem parseAcl_encodeAcl (l : List (String × Addr))
    (hk : ∀ e ∈ l, '"' ∉ e.1.toList) (ho : ∀ e ∈ l, aclOwnerOK e.2.toList = true) :
    parseAcl (encodeAcl l) = some l := by
  unfold parseAcl encodeAcl
  rw [String.toList_ofList (l := _ ++ _), List.append_assoc, stripPrefix_append, Option.bind_some]
  cases l with
  | nil => rfl
  | cons e l' =>
    obtain ⟨t, ht⟩ := encodeAclEntries_cons_head e l' "]}".toList
    have hne : (encodeAclEntries (e :: l') ++ "]}".toList == [']', '}']) = false := by
      rw [ht]; rfl
    rw [hne]
    simp only [Bool.false_eq_true, ↓reduceIte]
    have hlen : (e :: l').length ≤ (encodeAclEntries (e :: l') ++ "]}".toList).length := by
      rw [List.length_append]
      exact Nat.le_trans (length_le_encodeAclEntries _) (Nat.le_add_right _ _)
    exact parseAclEntries_encode (e :: l') (List.cons_ne_nil _ _) hk ho _ hlen

/-- the upgrade plan likewise -/
def encodeUpgrade (h : Nat) (ver : String) : String :=
  String.ofList ("{\"type\":\"gov/upgrade\",\"value\":{\"Height\":\"".toList ++ (toString h).toList ++
    "\",\"Version\":\"".toList ++ ver.toList ++ "\"}}".toList)

theorem parseUpgrade_encodeUpgrade (h : Nat) (ver : String) (hv : '"' ∉ ver.toList) :
    parseUpgrade (encodeUpgrade h ver) = some ((h : Int), ver) := by
  unfold parseUpgrade encodeUpgrade
  have h1 : "\",\"Version\":\"".toList = '"' :: ",\"Version\":\"".toList := by decide
  have h2 : "\"}}".toList = ['"', '}', '}'] := by decide
  rw [String.toList_ofList (l := _ ++ _), Nat.toString_eq_repr, Nat.toList_repr, h1, h2]
  simp only [List.append_assoc, List.cons_append]
  rw [stripPrefix_append, Option.bind_some, untilQuote_append _ _ (quote_not_mem_toDigits h), Option.bind_some]
  simp only
  rw [stripPrefix_append, Option.bind_some, untilQuote_append _ _ hv, Option.bind_some]
  simp only [bne_self_eq_false, Bool.false_eq_true, ↓reduceIte]
  rw [digitsToInt_toDigits, Option.map_some, String.ofList_toList]

set_option maxRecDepth 20000 in
/-- a stale list re-installed (a replayed or late transaction): the owner of `gov/upgrade` goes back to what that
list says, whatever happened in between; the hypotheses of `acl_replace` are met by a concrete value -/
example : parseAcl "{\"type\":\"gov/non_map_acl\",\"value\":[{\"acl_key\":\"gov/acl\",\"address\":\"5faceb04b6c82e9303933730ec9a6dc5765c8c26\"},{\"acl_key\":\"gov/upgrade\",\"address\":\"\"}]}"
    = some [("gov/acl", "5faceb04b6c82e9303933730ec9a6dc5765c8c26"), ("gov/upgrade", "")] := by decide
example : parseAcl "{\"type\":\"gov/non_map_acl\",\"value\":[]}" = some [] := by decide
example : parseAcl "{" = none := by decide
example : parseAcl "{\"type\":\"gov/non_map_acl\",\"value\":[{\"acl_key\":\"gov/acl\",\"address\":\"5FACE\"}]}" = none := by decide

/-- No block-level operation (BeginBlock, EndBlock, Commit, queued awards and burns) changes a
parameter, the ACL or the DAO owner. -/
theorem block_ops_keep_gov (s : State) (op : Op) (r : State × List (Addr × Int) × Bool)
    (hop : ∀ m t, op ≠ .tx m t) (hs : step s op = some r) : govOf r.1 = govOf s := by
  rw [govOf_eq_gov, govOf_eq_gov]
  cases op with
  | begin time proposer votes evs =>
    simp only [step, Option.map_eq_some_iff] at hs
    obtain ⟨s1, h1, rfl⟩ := hs
    exact gov_beginBlock h1
  | endBlock =>
    simp only [step, Option.map_eq_some_iff] at hs
    obtain ⟨⟨s1, ups⟩, h1, rfl⟩ := hs
    exact gov_endBlock h1
  | commit => simp [step] at hs; subst hs; rfl
  | award a amt => simp [step] at hs; subst hs; rfl
  | burn a raw => simp [step] at hs; subst hs; rfl
  | tx m t => exact absurd rfl (hop m t)


/-- For every history: the governance state at the end differs from the one at the start only if the history
contains a delivered change-param or upgrade transaction; block-level operations, CheckTx / simulate traffic and every
other transaction leave all parameters, the ACL, the DAO owner and the upgrade plan as they were. -/
theorem gov_run (ops : List Op) (s s' : State) (hr : run s ops = some s')
    (hno : ∀ op ∈ ops, ∀ t src key val, op = .tx .deliver t → t.msg ≠ .changeParam src key val)
    (hnu : ∀ op ∈ ops, ∀ t src h ver, op = .tx .deliver t → t.msg ≠ .upgrade src h ver) :
    govOf s' = govOf s := by
  induction ops generalizing s with
  | nil => simp [run] at hr; subst hr; rfl
  | cons op rest ih =>
    simp only [run] at hr
    cases hstep : step s op with
    | none => simp [hstep] at hr
    | some r =>
      rw [hstep] at hr
      simp only [Option.bind_some] at hr
      have hrest := ih r.1 hr (fun o ho => hno o (List.mem_cons_of_mem _ ho))
        (fun o ho => hnu o (List.mem_cons_of_mem _ ho))
      rw [hrest]
      by_cases hop : ∃ m t, op = .tx m t
      · obtain ⟨m, t, rfl⟩ := hop
        simp only [step, Option.some.injEq] at hstep
        have hgr : gov r.1 = gov (runTx s m t).1 := by
          rw [← hstep]; split <;> rfl
        rw [govOf_eq_gov, govOf_eq_gov, hgr]
        by_cases hg : gov (runTx s m t).1 = gov s
        · exact hg
        · exfalso
          obtain ⟨hm, _, _, hcase⟩ :=
            gov_change_authorised s (runTx s m t).1 m t (runTx s m t).2 rfl hg
          subst hm
          rcases hcase with ⟨src, key, val, hmsg, _⟩ | ⟨src, h, ver, hmsg, _⟩
          · exact hno _ List.mem_cons_self t src key val rfl hmsg
          · exact hnu _ List.mem_cons_self t src h ver rfl hmsg
      · exact block_ops_keep_gov s op r (fun m t h => hop ⟨m, t, h⟩) hstep

/-- DAO funds leave the DAO account only by a delivered, accepted DAO message from the DAO owner,
by exactly the stated amount, which does not exceed the DAO balance; a transfer credits the
recipient and a burn lowers the supply by the same amount. -/
theorem dao_authorised (s s' : State) (mode : Mode) (t : Tx) (ok : Bool) (h : Inv s)
    (hr : runTx s mode t = (s', ok)) (hd : balOf s' s.daoAcc < balOf s s.daoAcc) :
    mode = .deliver ∧ ok = true ∧
    ((∃ dst amt, t.msg = .daoTransfer s.daoOwner dst amt ∧ 0 < amt ∧ amt ≤ balOf s s.daoAcc ∧
        balOf s' s.daoAcc = balOf s s.daoAcc - amt + (if dst = s.daoAcc then amt else 0) ∧ s'.supply = s.supply) ∨
     (∃ amt, t.msg = .daoBurn s.daoOwner amt ∧ 0 < amt ∧ amt ≤ balOf s s.daoAcc ∧
        balOf s' s.daoAcc = balOf s s.daoAcc - amt ∧ s'.supply = s.supply - amt)) := by
  unfold runTx at hr
  split at hr; · simp at hr; rw [← hr.1] at hd; omega
  split at hr; · simp at hr; rw [← hr.1] at hd; omega
  rename_i hok
  split at hr; · simp at hr; rw [← hr.1] at hd; omega
  rename_i ha
  simp only at hr
  cases mode with
  | check => simp at hr; rw [← hr.1] at hd; omega
  | simulate => simp at hr; rw [← hr.1] at hd; omega
  | deliver =>
    have hmd : (Mode.deliver == Mode.simulate) = false := by decide
    have ha' : anteOK s t false = true := by rw [hmd] at ha; simpa using ha
    have hok' : t.msg.basicOK = true := by simpa using hok
    obtain ⟨hne, s0, hs0, _, _, hoth, hasc0, hfr0⟩ := fee_send h.wf ha'
    have hkey := (anteOK_true ha').2.2.2.1
    have hsd := (key_not_mod h.wf hkey).2.2.2
    have hbal0 : balOf s0 s.daoAcc = balOf s s.daoAcc :=
      hoth _ (Ne.symm h.wf.modsDistinct.2.2.2.2.1) (Ne.symm hsd)
    rw [hs0] at hr
    simp only [Option.getD_some] at hr
    -- the part of the fee in the second denomination: a frame
    have hfr2 := F2.send2_getD_frame s0 (t.msg.signer s) s.feeAcc t.fee2
    generalize (send2 s0 (t.msg.signer s) s.feeAcc t.fee2).getD s0 = s1 at hr hfr2
    have hb1 : s1.bal = s0.bal := by rw [hfr2]
    have hasc : KeysAsc s1.bal := by rw [hb1]; exact hasc0
    have hbal : balOf s1 s.daoAcc = balOf s s.daoAcc := by rw [balOf_congr hb1]; exact hbal0
    have e1 : s1.daoAcc = s.daoAcc := by rw [hfr2, hfr0]
    have e2 : s1.daoOwner = s.daoOwner := by rw [hfr2, hfr0]
    have e3 : s1.pool = s.pool := by rw [hfr2, hfr0]
    have e4 : s1.supply = s.supply := by rw [hfr2, hfr0]
    have e5 : s1.keys = s.keys := by rw [hfr2, hfr0]
    split at hr
    · rename_i s2 h2
      simp at hr
      obtain ⟨rfl, rfl⟩ := hr
      refine ⟨rfl, rfl, ?_⟩
      have := handle_dao hasc h2 hok' (by rw [signer_congr e5, e1]; exact hsd)
        (by rw [e1, e3]; exact h.wf.modsDistinct.2.2.1)
      rw [e1, e2, e4, hbal] at this
      rcases this with h3 | h3 | h3
      · omega
      · exact Or.inl h3
      · exact Or.inr h3
    · simp at hr
      rw [← hr.1] at hd; omega

/-- Every other governance message is rejected by its handler. -/
theorem gov_unauthorised_rejected (s : State) :
    (∀ src key val, s.acl.lookup key ≠ some src → handle s (.changeParam src key val) = none) ∧
    (∀ src dst amt, src ≠ s.daoOwner → handle s (.daoTransfer src dst amt) = none) ∧
    (∀ src amt, src ≠ s.daoOwner → handle s (.daoBurn src amt) = none) ∧
    (∀ src hgt ver, s.acl.lookup "gov/upgrade" ≠ some src → handle s (.upgrade src hgt ver) = none) := by
  refine ⟨?_, ?_, ?_, ?_⟩
  · intro src key val h
    simp only [handle]
    split
    · rfl
    · rename_i owner ho
      have : owner ≠ src := by intro e; subst e; exact h ho
      simp [this]
  · intro src dst amt h
    simp [handle, Ne.symm h]
  · intro src amt h
    simp [handle, Ne.symm h]
  · intro src hgt ver h
    simp only [handle]
    split
    · rfl
    · rename_i owner ho
      have : owner ≠ src := by intro e; subst e; exact h ho
      simp [this]


end Posmint.Props.C17
