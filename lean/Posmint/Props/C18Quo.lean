import Posmint.Props.C18
import Posmint.Lemmas.ArithQuo
/-!
# C18, Dec division — what `Quo`, `QuoTruncate`, `QuoRoundUp` compute

`Dec.Quo*` first computes the quotient truncated to 36 decimals, `q36 = tdiv (a * 10^18 * 10^18) b` on the raw
integers, and then chops 18 of them off with the rounding of its name.

* `QuoTruncate` is exact (truncation composes).
* `Quo` is the exact half-to-even rounding of `a/b` at 18 decimals whenever the 36-decimal truncation is not
  itself exactly on a tie; when it is (and the exact quotient is not), the result is one unit off — the
  recorded finding, with a proved counterexample.  `decQuo_partial` is the full property minus exactly that case.
* `QuoRoundUp` is the exact ceiling whenever the 36-decimal truncation keeps a non-zero tail below 18 decimals
  or the division is exact at 36 decimals; otherwise a tail below 10^-36 is lost — the second recorded finding.
-/
namespace Posmint.Props.C18Quo
open Posmint.Arith Posmint.Props.C18

/-- the quotient truncated to 36 decimals (as a raw integer scaled by 10^36) -/
def q36 (a b : Int) : Int := Int.tdiv (a * P * P) b

/-- `QuoTruncate` is the exact truncation toward zero of `a/b` at 18 decimals -/
theorem decQuoTruncate_exact (a b c : Int) (hb : b ≠ 0) (h : decQuoTruncate a b = some c) :
    c = Int.tdiv (a * P) b := by
  unfold decQuoTruncate at h; rw [if_neg hb, decCheck_exact] at h; split at h <;> simp at h
  subst h; unfold chopTrunc; rw [P_eq]
  exact tdiv_mul_tdiv (a * 1000000000000000000) b hb

/-- `Quo` rounds the 36-decimal truncation half-to-even (never more than half a unit from it) … -/
theorem decQuo_rounds_q36 (a b c : Int) (hb : b ≠ 0) (h : decQuo a b = some c) : IsRHE (q36 a b) P c := by
  unfold decQuo at h; rw [if_neg hb, decCheck_exact] at h; split at h <;> simp at h
  subst h; exact chopRound_spec _

/-- … and that is the exact half-to-even rounding of `a/b` at 18 decimals - `c` is strictly the nearest
multiple - unless the 36-decimal truncation sits exactly on a tie -/
theorem decQuo_partial (a b c : Int) (hb : b ≠ 0) (h : decQuo a b = some c)
    (hnotie : 2 * (q36 a b - c * P).natAbs ≠ P.natAbs) :
    2 * (a * P - c * b).natAbs < b.natAbs := by
  have hr := decQuo_rounds_q36 a b c hb h
  unfold IsRHE at hr; unfold q36 at *; rw [P_eq] at *
  exact quo_core a b c hb (by omega)

/-- the excluded case is real: the truncation lands exactly on a tie, the exact quotient is above it, and
`Quo` rounds to even (0) although the nearest value is 1 unit (recorded finding) -/
theorem decQuo_double_rounding_counterexample :
    decQuo 1000000000000000000 1999999999999999999999999999999999999 = some 0 ∧
    ¬ (2 * ((1000000000000000000 : Int) * P - 0 * 1999999999999999999999999999999999999).natAbs
        ≤ (1999999999999999999999999999999999999 : Int).natAbs) := by
  decide

/-- `QuoRoundUp` is the ceiling of the 36-decimal truncation … -/
theorem decQuoRoundUp_ceils_q36 (a b c : Int) (hb : b ≠ 0) (h : decQuoRoundUp a b = some c) :
    q36 a b ≤ c * P ∧ c * P < q36 a b + P := by
  unfold decQuoRoundUp at h; rw [if_neg hb, decCheck_exact] at h; split at h <;> simp at h
  subst h; exact chopRoundUp_spec _

/-- … which is the exact ceiling of `a/b` at 18 decimals when the quotient is not positive-with-a-lost-tail:
i.e. when the 36-decimal division is exact, or the quotient is negative (truncation toward zero is then
already the ceiling direction), or the truncation keeps a non-zero tail below 18 decimals. Stated for `b > 0`. -/
theorem decQuoRoundUp_partial (a b c : Int) (hb : 0 < b) (h : decQuoRoundUp a b = some c)
    (hok : Int.tmod (a * P * P) b = 0 ∨ a < 0 ∨ Int.emod (q36 a b) P ≠ 0) :
    a * P ≤ c * b ∧ (c - 1) * b < a * P := by
  have hr := decQuoRoundUp_ceils_q36 a b c (Int.ne_of_gt hb) h
  unfold q36 at *; rw [P_eq] at *
  exact quoRoundUp_core a b c hb hr.1 hr.2 hok

/-- the excluded case is real: 2·10^-18 / 4·10^18 has a tail below 10^-36, the result is 0, the ceiling is 10^-18 -/
theorem decQuoRoundUp_lost_tail_counterexample :
    decQuoRoundUp 2 4000000000000000000000000000000000000 = some 0 ∧
    ¬ ((2 : Int) * P ≤ 0 * 4000000000000000000000000000000000000) := by
  decide

end Posmint.Props.C18Quo
