import Posmint.Model.Chain
import Posmint.Model.RootMultiSpec
import Posmint.Lemmas.Replica
/-!
# C01 — replicated execution is deterministic

In the Lean model an instance IS a function of the request sequence (`Posmint.Chain.step`), so "two
instances fed the same requests agree" holds by construction; that the real application behaves like this
function is what the correspondence run checks (against the model, and between two real instances that
differ in database, pruning, restarts and private CheckTx/Query traffic).  What can and must be PROVED
is that the things C01 says must not matter do not matter to the function:

* CheckTx / simulate traffic interleaved anywhere in a history changes neither the state nor any
  consensus-relevant response (`interleaved_traffic_state`, `interleaved_traffic_outputs`);
* the only volatile part of an instance - the header of the check state, lost on a restart - influences
  no consensus-relevant response and no later state (`restart_irrelevant`);
* the app hash does not depend on the order in which the stores are iterated (a Go map) when the commit
  info is assembled (`appHash_perm`);
* the committed content does not depend on the pruning configuration (`content_pruning_independent`).
-/
namespace Posmint.Props.C01
open Posmint.Chain Posmint.Chain.Replica

/-- CheckTx and simulate requests -/
def readonly : Op → Bool
  | .tx mode _ => mode != .deliver
  | _ => false

/-- the consensus-relevant responses of a history: validator updates and result flag of every request that is
not CheckTx/simulate traffic; `none` marks the halt -/
def outputs (s : State) : List Op → List (Option (List (Addr × Int) × Bool))
  | [] => []
  | op :: rest =>
    match step s op with
    | none => [none]
    | some r => if readonly op then outputs r.1 rest else some r.2 :: outputs r.1 rest

theorem readonly_step (s : State) (op : Op) (h : readonly op = true) : ∃ ok, step s op = some (s, [], ok) := by
  cases op with
  | tx mode t =>
    have hm : mode ≠ .deliver := by
      intro e; subst e; simp [readonly] at h
    have hm' : (mode == Mode.deliver) = false := by cases mode <;> first | rfl | exact absurd rfl hm
    refine ⟨(runTx s mode t).2, ?_⟩
    simp only [step, hm', Bool.false_eq_true, if_false, runTx_readonly s mode t hm]
  | _ => simp [readonly] at h

/-- interleaved CheckTx / simulate traffic does not change the state … -/
theorem interleaved_traffic_state (s : State) (ops : List Op) :
    run s (ops.filter (fun o => !readonly o)) = run s ops := by
  induction ops generalizing s with
  | nil => rfl
  | cons op rest ih =>
    by_cases hr : readonly op = true
    · obtain ⟨ok, hs⟩ := readonly_step s op hr
      simp only [List.filter_cons, hr, Bool.not_true, Bool.false_eq_true, if_false, run, hs, Option.bind_some]
      exact ih s
    · have hr' : readonly op = false := by simpa using hr
      simp only [List.filter_cons, hr', Bool.not_false, if_true, run]
      cases step s op with
      | none => rfl
      | some r => simp only [Option.bind_some]; exact ih r.1

/-- … nor any consensus-relevant response -/
theorem interleaved_traffic_outputs (s : State) (ops : List Op) :
    outputs s (ops.filter (fun o => !readonly o)) = outputs s ops := by
  induction ops generalizing s with
  | nil => rfl
  | cons op rest ih =>
    by_cases hr : readonly op = true
    · obtain ⟨ok, hs⟩ := readonly_step s op hr
      simp only [List.filter_cons, hr, Bool.not_true, Bool.false_eq_true, if_false, outputs, hs, if_true]
      exact ih s
    · have hr' : readonly op = false := by simpa using hr
      simp only [List.filter_cons, hr', Bool.not_false, if_true, outputs]
      cases step s op with
      | none => rfl
      | some r => simp only [Bool.false_eq_true, if_false, ih r.1]

/-- A restart loses only the header of the check state (BaseApp rebuilds the check state from the committed
store with an empty header until the next Commit). -/
def restart (s : State) : State := { s with cHeight := 0, cTime := 0 }

/-- equal except for the check-state header -/
def SameButCheckHeader (a b : State) : Prop := b = { a with cHeight := b.cHeight, cTime := b.cTime }

/-- one consensus request on two states that differ only in the check-state header: same response, and the
successors again differ only there -/
theorem step_sameButCheckHeader (a b : State) (op : Op) (h : SameButCheckHeader a b) (hop : readonly op = false) :
    (step a op).map (·.2) = (step b op).map (·.2) ∧
    (∀ ra rb, step a op = some ra → step b op = some rb → SameButCheckHeader ra.1 rb.1) := by
  have hb : b = setCH a b.cHeight b.cTime := h
  by_cases hc : op = .commit
  · subst hc
    have e : step b .commit = step a .commit := by rw [hb]; exact step_commit_setCH a _ _
    refine ⟨by rw [e], ?_⟩
    intro ra rb h1 h2
    rw [e, h1] at h2
    cases h2
    rfl
  · have hd : ∀ m tx, op = .tx m tx → m = .deliver := by
      intro m tx e
      subst e
      cases m <;> simp [readonly] at hop ⊢
    have e : step b op = (step a op).map (fun r => (setCH r.1 b.cHeight b.cTime, r.2)) := by
      rw [hb]; exact step_setCH a _ _ op hd hc
    refine ⟨?_, ?_⟩
    · rw [e]; cases step a op <;> rfl
    · intro ra rb h1 h2
      rw [e, h1] at h2
      cases h2
      rfl

/-- two states that differ only in the check-state header give the same consensus-relevant responses -/
theorem outputs_sameButCheckHeader (a b : State) (h : SameButCheckHeader a b) (ops : List Op) :
    outputs a ops = outputs b ops := by
  induction ops generalizing a b with
  | nil => rfl
  | cons op rest ih =>
    by_cases hr : readonly op = true
    · obtain ⟨oka, hsa⟩ := readonly_step a op hr
      obtain ⟨okb, hsb⟩ := readonly_step b op hr
      simp only [outputs, hsa, hsb, hr, if_true]
      exact ih a b h
    · have hr' : readonly op = false := by simpa using hr
      obtain ⟨h1, h2⟩ := step_sameButCheckHeader a b op h hr'
      simp only [outputs]
      cases ha : step a op with
      | none =>
        cases hb : step b op with
        | none => rfl
        | some rb => rw [ha, hb] at h1; cases h1
      | some ra =>
        cases hb : step b op with
        | none => rw [ha, hb] at h1; cases h1
        | some rb =>
          rw [ha, hb] at h1
          simp only [Option.map_some, Option.some.injEq] at h1
          simp only [hr', Bool.false_eq_true, if_false, h1, ih ra.1 rb.1 (h2 ra rb ha hb)]

/-- stopping an instance at any point and reopening it changes no consensus-relevant response of the rest of
the history -/
theorem restart_irrelevant (s : State) (ops : List Op) : outputs (restart s) ops = outputs s ops := by
  exact (outputs_sameButCheckHeader s (restart s) rfl ops).symm

/-- … and after the next commit not even the check-state header differs -/
theorem restart_forgotten_at_commit (s s1 s2 : State) (u1 u2 : List (Addr × Int)) (o1 o2 : Bool)
    (h1 : step s .commit = some (s1, u1, o1)) (h2 : step (restart s) .commit = some (s2, u2, o2)) : s1 = s2 := by
  simp only [step, Option.some.injEq, Prod.mk.injEq] at h1 h2
  rw [← h1.1, ← h2.1]
  rfl

/-- non-vacuity of `readonly`/`outputs`: a history with traffic in it -/
example : readonly (.tx .check ⟨.send "a" "b" 1, 0, true, 0, 0, "none", "x", 0⟩) = true ∧ readonly .commit = false := by
  exact ⟨rfl, rfl⟩

/-! ### the multistore -/
open Posmint.RM Posmint.KV

/-- The commit info lists the stores in the iteration order of a Go map. With distinct store names the app
hash is the same for every order. -/
theorem canonMap_perm (H : Bytes → Bytes) (l l' : List StoreInfo) (hp : l.Perm l')
    (hd : (l.map (·.name)).Nodup) : canonMap H l' = canonMap H l := by
  rw [canonMap_eq, canonMap_eq]
  exact canonFold_perm H l l' hp hd []

theorem appHash_perm (H : Bytes → Bytes) (MH : List (String × Bytes) → Bytes) (l l' : List StoreInfo)
    (hp : l.Perm l') (hd : (l.map (·.name)).Nodup) : appHash H MH l' = appHash H MH l := by
  unfold appHash
  rw [canonMap_perm H l l' hp hd]

/-- the working content of every store and the version after any history are the same under every pruning
configuration: pruning only decides which OLD versions stay readable -/
theorem content_pruning_independent (kr ke kr' ke' n : Nat) (ops : List Posmint.RM.Op) :
    ((fresh kr ke n).run ops).subs.map (·.working) = ((fresh kr' ke' n).run ops).subs.map (·.working) ∧
    ((fresh kr ke n).run ops).latest = ((fresh kr' ke' n).run ops).latest ∧
    ((fresh kr ke n).run ops).trans = ((fresh kr' ke' n).run ops).trans := by
  exact run_pruning_independent ops _ _ rfl rfl rfl

end Posmint.Props.C01
