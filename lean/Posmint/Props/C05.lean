import Posmint.Lemmas.ChainInv
/-!
# C05 — Validator updates keep Tendermint's set equal to the staked set
-/
namespace Posmint.Props.C05
open Posmint.Chain Posmint.Chain.B

/-! ### helpers -/

/-- position of an element of a strictly sorted index, counted from the top -/
theorem mem_take_reverse {l : List (Int × Addr)} (hl : l.Pairwise (fun x y => idxLt x y = true))
    (x : Int × Addr) (n : Nat) :
    x ∈ l.reverse.take n ↔ x ∈ l ∧ (l.filter (fun e => idxLt x e)).length < n := by
  induction l with
  | nil => simp
  | cons y l' ih =>
    simp only [List.pairwise_cons] at hl
    rw [List.reverse_cons, List.take_append]
    have hy : y ∉ l' := by
      intro hm
      have := hl.1 y hm
      rw [idxLt_irrefl] at this; cases this
    by_cases hxy : x = y
    · subst hxy
      have hf : (x :: l').filter (fun e => idxLt x e) = l' := by
        rw [List.filter_cons, idxLt_irrefl]
        simp only [Bool.false_eq_true, if_false, List.filter_eq_self]
        exact hl.1
      rw [hf]
      simp only [List.mem_append, List.mem_cons, true_or, true_and, List.length_reverse]
      constructor
      · rintro (h | h)
        · exact absurd (by simpa using List.mem_of_mem_take h) hy
        · by_cases hlt : l'.length < n
          · exact hlt
          · have : n - l'.length = 0 := by omega
            rw [this] at h; simp at h
      · intro hlt
        right
        have : n - l'.length = (n - l'.length - 1) + 1 := by omega
        rw [this]; simp
    · have hf : (y :: l').filter (fun e => idxLt x e) = l'.filter (fun e => idxLt x e) ∨ x ∉ l' := by
        by_cases hm : x ∈ l'
        · left
          rw [List.filter_cons]
          have := idxLt_asymm (hl.1 x hm)
          simp [this]
        · exact Or.inr hm
      simp only [List.mem_append, List.mem_cons, hxy, false_or]
      have hnot : x ∉ List.take (n - l'.reverse.length) [y] := by
        intro h
        have := List.mem_of_mem_take h
        simp at this; exact hxy this
      rcases hf with hf | hf
      · rw [hf, ih hl.2]
        constructor
        · rintro (h | h)
          · exact h
          · exact absurd h hnot
        · exact fun h => Or.inl h
      · constructor
        · rintro (h | h)
          · exact absurd ((ih hl.2).1 h).1 hf
          · exact absurd h hnot
        · intro h; exact absurd h.1 hf

/-! ### the theorems -/

/-- The updates returned by EndBlock can always be applied to the set Tendermint holds (no key
twice, no removal of an absent validator, no negative power), and applying them yields exactly the
`maxVals` highest-powered staked, unjailed validators with power floor(stake / 10^6), ties at the
cut-off broken by address. -/
theorem updates_reach_target (s s' : State) (ups : List (Addr × Int)) (h : Inv s)
    (he : updateValidators s = some (s', ups)) :
    applyUpdates s.prev ups = some s'.prev ∧ s'.prev = target s :=
  prev_eq_target h.index h.prevOK.1 h.backed.tokNonneg he

/-- `target` really is "top-N by (power desc, address asc) of the staked unjailed validators". -/
theorem target_spec (s : State) (h : Inv s) (a : Addr) (pw : Int) :
    aget (target s) a = some pw ↔
      ∃ v, aget s.vals a = some v ∧ v.status = 2 ∧ v.jailed = false ∧ pw = power v.tokens ∧
        ((s.idx.filter (fun e => idxLt (pw, a) e)).length : Int) < s.p.maxVals := by
  rw [aget_target h.index, visited, mem_take_reverse h.index.2, h.index.1]
  constructor
  · rintro ⟨⟨v, h1, h2, h3, h4⟩, h5⟩
    exact ⟨v, h1, h2, h3, h4, by omega⟩
  · rintro ⟨v, h1, h2, h3, h4, h5⟩
    exact ⟨⟨v, h1, h2, h3, h4⟩, by omega⟩

/-- EndBlock does not halt the chain as long as every indexed validator has non-zero power
(which the minimum stake of at least 10^6 guarantees). -/
theorem update_no_halt (s : State) (h : Inv s)
    (hp : ∀ a v, aget s.vals a = some v → v.status = 2 → v.jailed = false → powerReduction ≤ v.tokens) :
    (updateValidators s).isSome = true :=
  update_isSome h.index hp h.prevOK.2.2

/-! ### genesis -/

/-- the state built by `InitChain` before the first validator-set update (a verbatim copy of the
first part of `genesis`, see `genesis_eq`) -/
def genesisPre (g : Genesis) : State :=
  let s0 : State := {
    bal := [], supply := 0, vals := [], idx := [], prev := [], prevTot := 0, queue := [], sign := [], missedBits := [],
    awards := [], burns := [], proposer := "", rel := [], p := g.p,
    acl := g.paramNames.map (fun n => (n, g.aclOwner)), daoOwner := g.daoOwner,
    pool := g.pool, feeAcc := g.feeAcc, posAcc := g.posAcc, daoAcc := g.daoAcc,
    keys := g.keys, nStored := g.nStored, height := 0, time := 0, cHeight := 0, cTime := 0, index := [], blockTxs := [],
    bal2 := g.accs2.foldl (fun m e => if e.2 == 0 then m else aset m e.1 e.2) [],
    supply2 := g.accs2.foldl (fun t e => t + e.2) 0, keyNodes := g.keyNodes,
    accts := g.accs.foldl (fun m e => aset m e.1 ()) [], keyed := g.accs.map (·.1) }
  let s1 := g.accs.foldl (fun st e => { setBal st e.1 e.2 with supply := st.supply + e.2 }) s0
  let s2 := g.vals.foldl (fun st e =>
    let v : Val := { status := 2, jailed := false, tokens := e.2, unstake := 0 }
    let st1 := setStaked (setVal st e.1 v) e.1 v
    let st2 := { st1 with sign := aset st1.sign e.1 { start := 0, offset := 0, missed := 0, jailedUntil := 0, tomb := false },
                          rel := e.1 :: st1.rel, supply := st1.supply + e.2 }
    setBal st2 st2.pool (balOf st2 st2.pool + e.2)) s1
  let s2 := { s2 with sign := g.signing.foldl (fun m e => aset m e.1 e.2) s2.sign,
                      missedBits := g.missed.foldl (fun m e => bitSet m e.1.1 e.1.2 e.2) s2.missedBits }
  mint s2 s2.daoAcc g.daoTokens

theorem genesis_eq (g : Genesis) :
    genesis g =
      match updateValidators { genesisPre g with p := { (genesisPre g).p with maxVals := g.defaultMaxVals } } with
      | some (s4, ups) => ({ s4 with p := g.p }, ups)
      | none => (genesisPre g, []) := rfl

theorem foldl_prev_nil {α : Type} (f : State → α → State) (hf : ∀ st x, (f st x).prev = st.prev)
    (l : List α) (s : State) : (l.foldl f s).prev = s.prev := by
  induction l generalizing s with
  | nil => rfl
  | cons x rest ih => simp only [List.foldl_cons]; rw [ih, hf]

theorem genesisPre_prev (g : Genesis) : (genesisPre g).prev = [] := by
  simp only [genesisPre]
  show (mint _ _ _).prev = []
  have hm : ∀ s a x, (mint s a x).prev = s.prev := fun _ _ _ => rfl
  rw [hm]
  show State.prev (List.foldl _ _ _) = []
  rw [foldl_prev_nil, foldl_prev_nil]
  · intro st e; rfl
  · intro st e
    show (setBal _ _ _).prev = st.prev
    have hb : ∀ s a x, (setBal s a x).prev = s.prev := fun _ _ _ => rfl
    rw [hb]
    show (setStaked (setVal st e.1 _) e.1 _).prev = st.prev
    rw [setStaked_setVal_eq]

theorem updateValidators_shape {s s' : State} {ups : List (Addr × Int)} (h : updateValidators s = some (s', ups)) :
    ∃ pv pt, s' = { s with prev := pv, prevTot := pt } := by
  simp only [updateValidators] at h
  split at h
  · simp at h
  split at h
  · simp at h
  simp only [Option.some.injEq, Prod.mk.injEq] at h
  exact ⟨_, _, h.1.symm⟩

/-- The same holds for the first batch, returned at InitChain. -/
theorem genesis_updates (g : Genesis) (hg : GenesisOK g) :
    applyUpdates [] (genesis g).2 = some (genesis g).1.prev := by
  have hinv := genesis_inv g hg
  have hpre := genesisPre_prev g
  rw [genesis_eq] at hinv ⊢
  cases hu : updateValidators { genesisPre g with p := { (genesisPre g).p with maxVals := g.defaultMaxVals } } with
  | none =>
    simp only [hpre]
    rfl
  | some r =>
    obtain ⟨s4, ups⟩ := r
    rw [hu] at hinv
    simp only at hinv ⊢
    obtain ⟨pv, pt, hs4⟩ := updateValidators_shape hu
    have hidx : IndexExact { genesisPre g with p := { (genesisPre g).p with maxVals := g.defaultMaxVals } } := by
      have := hinv.index
      rw [hs4] at this
      exact this
    have htok : ∀ a v, aget ({ genesisPre g with p := { (genesisPre g).p with maxVals := g.defaultMaxVals } } : State).vals a = some v →
        0 ≤ v.tokens := by
      have := hinv.backed.tokNonneg
      rw [hs4] at this
      exact this
    have hasc : KeysAsc ({ genesisPre g with p := { (genesisPre g).p with maxVals := g.defaultMaxVals } } : State).prev := by
      show KeysAsc (genesisPre g).prev
      rw [hpre]; simp [KeysAsc]
    obtain ⟨happ, _⟩ := prev_eq_target hidx hasc htok hu
    have : ({ genesisPre g with p := { (genesisPre g).p with maxVals := g.defaultMaxVals } } : State).prev = [] := hpre
    rw [this] at happ
    exact happ

end Posmint.Props.C05
