import Posmint.Model.Chain
/-!
C08 at the point the global theorem excludes (`C08Global.counter_always_window_count` assumes that governance leaves
`SignedBlocksWindow` alone): after the window has been made smaller the stored slots no longer line up with "the last W
votes", and the counter is not the number of misses among them. A concrete state, reachable by the history in
`corpus/chain/f27-window-shrunk.ops` (window 10: three misses, then seven signed votes; governance sets the window to
3; one more signed vote), replayed on the implementation by the check.
-/
namespace Posmint.Props.C08Counter
open Posmint.Chain Posmint.Arith

/-- the state of one address after ten votes under a window of ten - misses in slots 0, 1, 2 - seen under a window
that governance has meanwhile set to three; everything else is whatever it is -/
def shrunk (s0 : State) (a : Addr) : State :=
  { s0 with
    rel := [a],
    sign := [(a, { start := 0, offset := 10, missed := 3, jailedUntil := 0, tomb := false })],
    missedBits := [((a, 0), true), ((a, 1), true), ((a, 2), true)],
    p := { s0.p with window := 3, minSignedRaw := 0 },
    height := 12 }

/-- One more signed vote: slot 10 mod 3 = 1 holds a stale miss, which is cleared - the counter goes from 3 to 2. The
last three votes of this address (and the seven before them) were all signed: the number of misses in its sliding
window of the last `SignedBlocksWindow` = 3 blocks is 0, the counter says 2. -/
theorem window_change_counterexample (s0 : State) (a : Addr) :
    ∃ s', handleSignature (shrunk s0 a) a 6 true = some s' ∧
      (aget s'.sign a).map (·.missed) = some 2 ∧
      (([true, true, true, false, false, false, false, false, false, false, false].reverse.take 3).count true) = 0 := by
  have hmod : Int.tmod 10 3 = 1 := by decide
  have hchop : chopRound 0 = 0 := by decide
  have hh : handleSignature (shrunk s0 a) a 6 true =
      some { (shrunk s0 a) with missedBits := bitSet (shrunk s0 a).missedBits a 1 false,
                                sign := aset (shrunk s0 a).sign a { start := 0, offset := 11, missed := 2, jailedUntil := 0, tomb := false } } := by
    simp [handleSignature, shrunk, aget, hmod, bitGet, List.find?, minSignedPerWindow, hchop]
  refine ⟨_, hh, ?_, by decide⟩
  simp [shrunk, aget, aset]

end Posmint.Props.C08Counter
