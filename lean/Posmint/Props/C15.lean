import Posmint.Lemmas.KV
import Posmint.Lemmas.KVCache
/-!
# C15 — Cache-wrapped stores behave like an overlay that is applied atomically

`Store.view` is the overlay semantics (parent content overlaid with the wrapper's sets and
deletes).  Every theorem is stated for a wrapper over an arbitrary well-formed stack, so it
holds at every nesting depth.  `.ok` results only: a `.error` is a Go panic (possible only when
a gas layer sits below), and then the driver keeps the old store.

The proofs live in `Posmint/Lemmas/KVCache.lean`; this file states the properties.
-/
namespace Posmint.Props.C15
open Posmint.KV

/-- Reads return the overlay view and do not change it (although `Get` caches). -/
theorem get_refines (s : Store) (k : Bytes) (e : Env) (v : Option Bytes) (s' : Store) (e' : Env)
    (hwf : s.WF) (h : s.get k e = .ok (v, s', e')) :
    v = s.view k ∧ s'.WF ∧ ∀ q, s'.view q = s.view q :=
  get_refines' s k e v s' e' hwf h

theorem has_refines (s : Store) (k : Bytes) (e : Env) (b : Bool) (s' : Store) (e' : Env)
    (hwf : s.WF) (h : s.has k e = .ok (b, s', e')) :
    b = (s.view k).isSome ∧ s'.WF ∧ ∀ q, s'.view q = s.view q :=
  has_refines' s k e b s' e' hwf h

/-- A set updates exactly one key of the view. -/
theorem set_refines (s : Store) (k v : Bytes) (e : Env) (s' : Store) (e' : Env)
    (hwf : s.WF) (h : s.set k v e = .ok (s', e')) :
    s'.WF ∧ ∀ q, s'.view q = if q = k then some v else s.view q :=
  set_refines' s k v e s' e' hwf h

theorem delete_refines (s : Store) (k : Bytes) (e : Env) (s' : Store) (e' : Env)
    (hwf : s.WF) (h : s.delete k e = .ok (s', e')) :
    s'.WF ∧ ∀ q, s'.view q = if q = k then none else s.view q :=
  delete_refines' s k e s' e' hwf h

/-- The parent of a cache wrapper is untouched by reads, sets and deletes on the wrapper
(reads may go through to the parent, which may itself cache, but its view is unchanged). -/
theorem parent_frame_set (c : CacheData) (p : Store) (k v : Bytes) (e : Env) (s' : Store) (e' : Env)
    (h : (Store.cache c p).set k v e = .ok (s', e')) : ∃ c', s' = .cache c' p := by
  simp only [Store.set, Except.ok.injEq, Prod.mk.injEq] at h
  exact ⟨_, h.1.symm⟩

theorem parent_frame_delete (c : CacheData) (p : Store) (k : Bytes) (e : Env) (s' : Store) (e' : Env)
    (h : (Store.cache c p).delete k e = .ok (s', e')) : ∃ c', s' = .cache c' p := by
  simp only [Store.delete, Except.ok.injEq, Prod.mk.injEq] at h
  exact ⟨_, h.1.symm⟩

theorem parent_frame_get (c : CacheData) (p : Store) (k : Bytes) (e : Env) (v : Option Bytes)
    (s' : Store) (e' : Env) (hwf : (Store.cache c p).WF)
    (h : (Store.cache c p).get k e = .ok (v, s', e')) :
    ∃ c' p', s' = .cache c' p' ∧ ∀ q, p'.view q = p.view q := by
  simp only [Store.get] at h
  split at h
  · simp only [Except.ok.injEq, Prod.mk.injEq] at h
    exact ⟨c, p, h.2.1.symm, fun _ => rfl⟩
  · rw [bind_ok_iff] at h
    obtain ⟨⟨v1, p1, e1⟩, h1, h2⟩ := h
    simp only [Except.ok.injEq, Prod.mk.injEq] at h2
    exact ⟨_, p1, h2.2.1.symm, (get_refines' p k e v1 p1 e1 hwf.2.1 h1).2.2⟩

/-- After `Write` the parent holds exactly the overlaid view and the wrapper is clean. -/
theorem write_refines (c : CacheData) (p : Store) (e : Env) (s' : Store) (e' : Env)
    (hwf : (Store.cache c p).WF) (h : (Store.cache c p).write e = .ok (s', e')) :
    ∃ p', s' = .cache CacheData.empty p' ∧ s'.WF ∧
      (∀ q, p'.view q = (Store.cache c p).view q) ∧ (∀ q, s'.view q = (Store.cache c p).view q) :=
  write_refines' c p e s' e' hwf h

/-- Discarding a wrapper (dropping the `cache` constructor) leaves the parent as it was:
no operation on the wrapper other than `write` changes the parent's view. -/
theorem discard_frame (c : CacheData) (p : Store) (e : Env) (ops : List PointOp) (s' : Store) (e' : Env)
    (hwf : (Store.cache c p).WF) (h : (Store.cache c p).points e ops = .ok (s', e')) :
    ∃ c' p', s' = .cache c' p' ∧ ∀ q, p'.view q = p.view q := by
  induction ops generalizing c p e with
  | nil =>
    simp only [Store.points, Except.ok.injEq, Prod.mk.injEq] at h
    exact ⟨c, p, h.1.symm, fun _ => rfl⟩
  | cons op rest ih =>
    simp only [Store.points] at h
    rw [bind_ok_iff] at h
    obtain ⟨⟨s1, e1⟩, h1, h2⟩ := h
    simp only [] at h2
    -- one step keeps the shape, the well-formedness, and the parent's view
    have step : ∃ c1 p1, s1 = .cache c1 p1 ∧ (Store.cache c1 p1).WF ∧ ∀ q, p1.view q = p.view q := by
      cases op with
      | get k =>
        simp only [Store.point] at h1
        rw [bind_ok_iff] at h1
        obtain ⟨⟨v, s2, e2⟩, h3, h4⟩ := h1
        simp only [Except.ok.injEq, Prod.mk.injEq] at h4
        obtain ⟨rfl, rfl⟩ := h4
        obtain ⟨c1, p1, rfl, hv⟩ := parent_frame_get c p k e v s2 e2 hwf h3
        exact ⟨c1, p1, rfl, (get_refines' _ k e v _ e2 hwf h3).2.1, hv⟩
      | has k =>
        simp only [Store.point, Store.has] at h1
        rw [bind_ok_iff] at h1
        obtain ⟨⟨b, s2, e2⟩, h3, h4⟩ := h1
        simp only [Except.ok.injEq, Prod.mk.injEq] at h4
        obtain ⟨rfl, rfl⟩ := h4
        rw [bind_ok_iff] at h3
        obtain ⟨⟨v, s3, e3⟩, h5, h6⟩ := h3
        simp only [Except.ok.injEq, Prod.mk.injEq] at h6
        obtain ⟨_, rfl, rfl⟩ := h6
        obtain ⟨c1, p1, rfl, hv⟩ := parent_frame_get c p k e v s3 e3 hwf h5
        exact ⟨c1, p1, rfl, (get_refines' _ k e v _ e3 hwf h5).2.1, hv⟩
      | set k v =>
        simp only [Store.point] at h1
        obtain ⟨c1, rfl⟩ := parent_frame_set c p k v e s1 e1 h1
        exact ⟨c1, p, rfl, (set_refines' _ k v e _ e1 hwf h1).1, fun _ => rfl⟩
      | del k =>
        simp only [Store.point] at h1
        obtain ⟨c1, rfl⟩ := parent_frame_delete c p k e s1 e1 h1
        exact ⟨c1, p, rfl, (delete_refines' _ k e _ e1 hwf h1).1, fun _ => rfl⟩
    obtain ⟨c1, p1, rfl, hwf1, hv1⟩ := step
    obtain ⟨c2, p2, rfl, hv2⟩ := ih c1 p1 e1 hwf1 h2
    exact ⟨c2, p2, rfl, fun q => by rw [hv2, hv1]⟩

/-- Iteration over any range, in either direction, at any depth of mem/cache/prefix layers:
the items are strictly sorted in iteration order (hence no duplicates), contain no deleted key,
and are exactly the in-range entries of the overlay view.  The wrapper's view is unchanged
by creating the iterator (`dirtyItems` reorganises the cache).

Added hypothesis `hb : s.BytesOK` (all stored keys and all prefixes are byte strings, i.e. lists of
numbers `< 256`; true by typing in Go).  It is needed for `.pfx` layers: `prefixEnd` computes the
end of the prefix range assuming `0xFF` is the largest byte; see `iter_refines_needs_bytes` below
for a counterexample without it.  `BytesOK` is an invariant: see `bytesOK_preserved`. -/
theorem iter_refines (s : Store) (a : Bytes) (b : Option Bytes) (asc : Bool) (its : Items) (s' : Store)
    (hwf : s.WF) (hl : s.Lower) (hb : s.BytesOK) (h : s.items a b asc = some (its, s')) :
    SortedDir asc its ∧
    (∀ k v, (k, v) ∈ its ↔ (s.view k = some v ∧ inDomain k a b = true)) ∧
    s'.WF ∧ (∀ q, s'.view q = s.view q) := by
  obtain ⟨h1, h2, h3, h4⟩ := iter_refines' s a b asc its s' hwf hl hb h
  exact ⟨(sortedDir_iff_PW asc its).2 h1, h2, h3, h4⟩

/-- Without `BytesOK` the statement of `iter_refines` is false: a well-formed prefix store over a
base holding the non-byte key `[1, 256]`; the descending iterator yields nothing although the
view contains key `[0]`. -/
theorem iter_refines_needs_bytes :
    ∃ (s : Store) (its : Items) (s' : Store), s.WF ∧ s.Lower ∧ s.items [] none false = some (its, s') ∧
      ¬ (∀ k v, (k, v) ∈ its ↔ (s.view k = some v ∧ inDomain k [] none = true)) := by
  refine ⟨.pfx [1, 255] (.mem [([1, 255, 0], [7]), ([1, 256], [9])]), [],
    .pfx [1, 255] (.mem [([1, 255, 0], [7]), ([1, 256], [9])]), ?_, trivial, ?_, ?_⟩
  · exact Store.wfCheck_sound _ (by decide)
  · simp [Store.items, kvRange, inDomain, ble, blt, prefixEnd, hasPrefix]
  · intro hall
    have := (hall [0] [7]).2 ⟨by simp [Store.view, kvGet], by simp [inDomain, ble, blt]⟩
    cases this

/-- `BytesOK` is a genuine invariant: it is preserved by every operation whose key argument is a
byte string (and by `write` / iterator creation unconditionally). -/
theorem bytesOK_preserved :
    (∀ (s : Store) k e v s' e', s.BytesOK → IsBytes k → s.get k e = .ok (v, s', e') → s'.BytesOK) ∧
    (∀ (s : Store) k e b s' e', s.BytesOK → IsBytes k → s.has k e = .ok (b, s', e') → s'.BytesOK) ∧
    (∀ (s : Store) k v e s' e', s.BytesOK → IsBytes k → s.set k v e = .ok (s', e') → s'.BytesOK) ∧
    (∀ (s : Store) k e s' e', s.BytesOK → IsBytes k → s.delete k e = .ok (s', e') → s'.BytesOK) ∧
    (∀ (s : Store) e s' e', s.BytesOK → s.write e = .ok (s', e') → s'.BytesOK) ∧
    (∀ (s : Store) a b asc its s', s.BytesOK → s.items a b asc = some (its, s') → s'.BytesOK) :=
  ⟨get_bytesOK, has_bytesOK, set_bytesOK, delete_bytesOK, write_bytesOK, items_bytesOK⟩

/-- An iterator is a snapshot: the items were computed at creation, so later sets and deletes on
the wrapper do not change what it yields (in the model this is by construction: `items` returns
a list; the theorem records that creating it leaves nothing behind that later writes could alter). -/
theorem iter_snapshot (c : CacheData) (p : Store) (a : Bytes) (b : Option Bytes) (asc : Bool)
    (its : Items) (s' : Store) (k v : Bytes) (e : Env) (s'' : Store) (e' : Env)
    (h : (Store.cache c p).items a b asc = some (its, s')) (h2 : s'.set k v e = .ok (s'', e')) :
    ∃ c', s'' = .cache c' (match s' with | .cache _ p' => p' | x => x) := by
  simp only [Store.items] at h
  split at h
  · cases h
  · simp only [Option.some.injEq, Prod.mk.injEq] at h
    obtain ⟨_, rfl⟩ := h
    simp only [Store.set, Except.ok.injEq, Prod.mk.injEq] at h2
    exact ⟨_, h2.1.symm⟩

/-! ### Non-vacuity -/

/-- base store -/
def m0 : Items := [([1], [2]), ([3], [4]), ([5], [6])]

/-- a cache with a dirty delete (`[3]`, not yet sorted), a dirty set (`[2]`, already in the sorted
list) and a clean cached read (`[1]`) -/
def c0 : CacheData :=
  { cache := [([3], ⟨none, true, true⟩), ([2], ⟨some [9], false, true⟩), ([1], ⟨some [2], false, false⟩)]
    unsorted := [[3]]
    sorted := [([2], some [9])] }

/-- a second wrapper on top, through a prefix: deletes `[5]`, adds `[7]` -/
def c1 : CacheData :=
  { cache := [([5], ⟨none, true, true⟩), ([7], ⟨some [8], false, true⟩)]
    unsorted := [[7], [5]]
    sorted := [] }

def s0 : Store := .cache c0 (.mem m0)
def s1 : Store := .cache c1 (.pfx [] s0)
/-- a prefix store whose prefix ends in `0xFF` -/
def s2 : Store := .pfx [1, 255] (.cache CacheData.empty (.mem [([1, 255], [1]), ([1, 255, 0], [7]), ([2], [9])]))

example : (Store.cache CacheData.empty (.mem [([1], [2])])).WF := Store.wfCheck_sound _ (by decide)

example : s0.WF ∧ s0.Lower ∧ s0.BytesOK :=
  ⟨Store.wfCheck_sound _ (by decide), trivial, by simp [s0, c0, m0, Store.BytesOK, IsBytes]⟩

example : s1.WF ∧ s1.Lower ∧ s1.BytesOK :=
  ⟨Store.wfCheck_sound _ (by decide), trivial, by simp [s1, s0, c1, c0, m0, Store.BytesOK, IsBytes]⟩

example : s2.WF ∧ s2.Lower ∧ s2.BytesOK :=
  ⟨Store.wfCheck_sound _ (by decide), trivial, by simp [s2, CacheData.empty, Store.BytesOK, IsBytes]⟩

/-- the hypotheses of `iter_refines` are satisfiable and the iterator really merges: ascending -/
example : (s0.items [] none true).map (·.1) = some [([1], [2]), ([2], [9]), ([5], [6])] := by
  decide +kernel

/-- two cache layers, descending, bounded range `[[2], [8])` -/
example : (s1.items [2] (some [8]) false).map (·.1) = some [([7], [8]), ([2], [9])] := by
  decide +kernel

/-- prefix ending in `0xFF`, descending: keys are stripped, `[2]` is outside the prefix -/
example : (s2.items [] none false).map (·.1) = some [([0], [7]), ([], [1])] := by
  decide +kernel

/-- the hypotheses of `write_refines` / `discard_frame` are satisfiable: `Write` succeeds on `s0` and
flushes the overlay into the base -/
example : ∃ e', s0.write ⟨0, 0, ⟨0, 0, 0, 0, 0, 0, 0⟩, []⟩ =
    .ok (.cache CacheData.empty (.mem [([1], [2]), ([2], [9]), ([5], [6])]), e') :=
  ⟨_, rfl⟩

end Posmint.Props.C15
