import Posmint.Lemmas.ChainInvA
/-!
# C10 — Rewards: fees go to the proposer, awards are minted exactly once
-/
namespace Posmint.Props.C10
open Posmint.Chain

/-- All fees sitting in the fee collector are transferred in full to the recorded proposer when
it is a known validator, otherwise they stay in the pos module account; nothing else moves. -/
theorem fees_to_proposer (s : State) (h : Inv s) :
    let s' := rewardFromFees s
    let F := balOf s s.feeAcc
    balOf s' s.feeAcc = 0 ∧ s'.supply = s.supply ∧
    (if (aget s.vals s.proposer).isSome then
        balOf s' s.proposer = balOf s s.proposer + F ∧ balOf s' s.posAcc = balOf s s.posAcc
      else balOf s' s.posAcc = balOf s s.posAcc + F) ∧
    (∀ a, a ≠ s.feeAcc → a ≠ s.proposer → a ≠ s.posAcc → balOf s' a = balOf s a) ∧
    s'.vals = s.vals := by
  intro s' F
  obtain ⟨f, _, hsup, _, hbal⟩ := rewardFromFees_spec h.wf
  have hm := h.wf.modsDistinct
  have hfp : s.feeAcc ≠ s.posAcc := hm.2.2.2.1
  by_cases hval : (aget s.vals s.proposer).isSome
  · obtain ⟨v, hv⟩ := Option.isSome_iff_exists.1 hval
    have hne := h.wf.val_not_mod hv
    simp only [hval, if_true] at hbal ⊢
    refine ⟨?_, hsup, ⟨?_, ?_⟩, ?_, f.vals⟩
    · show balOf (rewardFromFees s) s.feeAcc = 0
      rw [hbal]; simp [Ne.symm hne.2.1]
    · show balOf (rewardFromFees s) s.proposer = _
      rw [hbal]; simp [hne.2.1]; rfl
    · show balOf (rewardFromFees s) s.posAcc = _
      rw [hbal]; simp [Ne.symm hfp, Ne.symm hne.2.2.1]
    · intro a h1 h2 h3
      show balOf (rewardFromFees s) a = _
      rw [hbal]; simp [h1, h2]
  · simp only [hval] at hbal ⊢
    refine ⟨?_, hsup, ?_, ?_, f.vals⟩
    · show balOf (rewardFromFees s) s.feeAcc = 0
      rw [hbal]; simp [hfp]
    · show balOf (rewardFromFees s) s.posAcc = _
      rw [hbal]; simp [Ne.symm hfp]; rfl
    · intro a h1 h2 h3
      show balOf (rewardFromFees s) a = _
      rw [hbal]; simp [h1, h3]

/-- Every queued award is minted exactly once: each address gains exactly the amount queued for
it, the supply grows by the total, and the queue is empty afterwards. -/
theorem awards_minted_once (s s' : State) (h : Inv s) (hm : mintAwards s = some s') :
    s'.awards = [] ∧ s'.supply = s.supply + awardSum s ∧
    (∀ a, balOf s' a = balOf s a + (aget s.awards a).getD 0) ∧ s'.vals = s.vals := by
  obtain ⟨_, st, rfl, f, _, hsup, _, hbal⟩ := mintAwards_spec h.wf hm
  exact ⟨rfl, hsup, hbal, f.vals⟩

/-- With an empty queue the next BeginBlock mints nothing. -/
theorem empty_queue_mints_nothing (s : State) (hq : s.awards = []) : mintAwards s = some s := by
  rw [mintAwards_eq, hq]
  cases s
  simp_all

/-- Awards queued for the same address accumulate to their sum. -/
theorem award_accumulates (s : State) (a : Addr) (x : Int) (r : State × List (Addr × Int) × Bool)
    (hs : step s (.award a x) = some r) (hwf : KeysAsc s.awards) :
    aget r.1.awards a = some ((aget s.awards a).getD 0 + x) ∧
    (∀ b, b ≠ a → aget r.1.awards b = aget s.awards b) ∧ KeysAsc r.1.awards := by
  simp only [step, Option.some.injEq] at hs
  subst hs
  exact ⟨aget_aset_self _ _ _, fun b hb => aget_aset_ne _ _ hb, keysAsc_aset hwf _ _⟩

/-- BeginBlock as a whole: every account other than the pool and the fee collector changes by
exactly its award plus (for the previous proposer, from the second block on) the collected fees;
slashing never touches an account balance. -/
theorem begin_rewards (s s' : State) (time : Int) (p : Addr) (votes : List Vote) (evs : List Evidence)
    (h : Inv s) (hb : beginBlock s time p votes evs = some s') (a : Addr) (ha : a ≠ s.pool) (hf : a ≠ s.feeAcc) :
    balOf s' a = balOf s a + (aget s.awards a).getD 0 +
      (if s.height + 1 > 1 then
         (if (aget s.vals s.proposer).isSome then (if a = s.proposer then balOf s s.feeAcc else 0)
          else (if a = s.posAcc then balOf s s.feeAcc else 0))
       else 0) ∧ s'.proposer = p ∧ s'.awards = [] := by
  have sp := beginBlock_spec h.acct h.pool hb
  refine ⟨?_, sp.proposer, sp.awards⟩
  rw [sp.bal a ha]
  unfold feeShare
  simp only [hf, if_false, Int.sub_zero]

end Posmint.Props.C10
