import Posmint.Lemmas.RootMulti
/-!
# C13 — A crash during Commit never corrupts the store

A crash is a prefix of the list of database batches `Commit` issues; batches are atomic (trusted).
The substores are visited in Go map order, i.e. in any order `perm`.
-/
-- several hypotheses are part of the agreed statements but not needed by the proofs (see report)
set_option linter.unusedVariables false

namespace Posmint.Props.C13
open Posmint.RM Posmint.KV

/-- the pruning of this commit does not delete the version `s/latest` still names -/
def SafePrune (m : RM) : Prop := pruneTarget m.kr m.ke (m.latest + 1) ≠ some m.latest

/-- With `keepRecent ≥ 1` the pruning rule never deletes the previous version. -/
theorem safePrune_of_keepRecent (m : RM) (h : 1 ≤ m.kr) : SafePrune m := by
  unfold SafePrune
  rw [ne_eq, pruneTarget_eq_some_iff]
  omega

/-- a consistent store that has committed something can be reopened -/
theorem reopened_of_consistent (m : RM) (hc : Consistent m) (h1 : 1 ≤ m.latest) :
    reopened m = some (m.latest, (saves m m.latest).filterMap id) := by
  rw [reopened_of_pos m (by omega)]
  have : (saves m m.latest).all Option.isSome = true := by
    simp only [saves, List.all_map, List.all_eq_true, Function.comp]
    exact fun s hs => hc.hasLatest h1 s hs
  simp [this]

/-- a crash before the final batch leaves `s/latest` and everything saved for it untouched -/
theorem crashed_same (m : RM) (hs : SafePrune m) (perm : List Nat)
    (pre : List Batch) (hpre : pre <+: commitBatches m perm) (hne : pre ≠ commitBatches m perm) :
    (∀ b ∈ pre, CommitBatch m b) ∧ SameMeta (applyBatches m pre) m ∧
      saves (applyBatches m pre) m.latest = saves m m.latest := by
  have hpre' : pre <+: perm.flatMap (subBatches m) := by
    rcases List.prefix_concat_iff.mp hpre with h | h
    · exact absurd h hne
    · exact h
  have hcb : ∀ b ∈ pre, CommitBatch m b := fun b hb => commitBatch_of_mem m perm b (hpre'.subset hb)
  refine ⟨hcb, applyBatches_meta m pre (fun b hb => (hcb b hb).ne_info), ?_⟩
  exact saves_applyBatches_untouched m pre m.latest
    (fun b hb => (hcb b hb).untouched m.latest (by omega) hs)

/-- For every consistent store, every visiting order of the substores and every crash point:
reopening succeeds and shows either the complete previous version (crash before the final batch)
or the complete new version (all batches written) across all substores — never a mixture. -/
theorem crash_atomic (m : RM) (hc : Consistent m) (h1 : 1 ≤ m.latest) (hs : SafePrune m)
    (perm : List Nat) (hp : perm.Perm (List.range m.subs.length))
    (pre : List Batch) (hpre : pre <+: commitBatches m perm) :
    (pre ≠ commitBatches m perm →
        ∃ old, reopened m = some (m.latest, old) ∧ reopened (applyBatches m pre) = some (m.latest, old)) ∧
    (pre = commitBatches m perm →
        reopened (applyBatches m pre) = some (m.latest + 1, m.subs.map (·.working))) := by
  constructor
  · intro hne
    obtain ⟨_, hmeta, hsv⟩ := crashed_same m hs perm pre hpre hne
    refine ⟨_, reopened_of_consistent m hc h1, ?_⟩
    rw [reopened_of_pos _ (by rw [hmeta.latest]; omega), hmeta.latest, hsv,
      ← reopened_of_pos m (by omega)]
    exact reopened_of_consistent m hc h1
  · intro he
    subst he
    have hall : ∀ j, j < m.subs.length → j ∈ perm := fun j hj => hp.mem_iff.mpr (List.mem_range.mpr hj)
    have hsv := saves_after_all m perm hall
    have hl : (applyBatches m (commitBatches m perm)).latest = m.latest + 1 := by
      simp [commitBatches, applyBatches, List.foldl_append, applyBatch]
    have hsv' : saves (applyBatches m (commitBatches m perm)) (m.latest + 1) = (m.subs.map (·.working)).map some := by
      rw [← hsv]
      simp [commitBatches, applyBatches, List.foldl_append, applyBatch, saves]
    rw [reopened_of_pos _ (by rw [hl]; omega), hl, hsv']
    simp [List.filterMap_map, Function.comp_def]

/-- The executable crash model used by the correspondence (`crashReopen`) agrees with the batch
model: a crash after `k` batches, `k` less than the total, reopens to the previous version. -/
theorem crashReopen_spec (m : RM) (hc : Consistent m) (h1 : 1 ≤ m.latest) (hs : SafePrune m) (k : Nat)
    (hk : k < m.totalBatches) :
    ∃ m' old, m.crashReopen k = some m' ∧ m'.latest = m.latest ∧
      reopened m = some (m.latest, old) ∧ m'.subs.map (·.working) = old := by
  have hr := reopened_of_consistent m hc h1
  have hcr : m.crashReopen k = m.reopen := by
    have h0 : (m.latest == 0) = false := by simp; omega
    have hp : (pruneTarget m.kr m.ke (m.latest + 1) == some m.latest) = false := by
      rw [beq_eq_false_iff_ne]; exact hs
    simp [RM.crashReopen, hp, h0]
  rw [hcr]
  unfold reopened at hr
  cases hm : m.reopen with
  | none => rw [hm] at hr; cases hr
  | some m' =>
    rw [hm] at hr
    simp only [Option.map_some, Option.some.injEq, Prod.mk.injEq] at hr
    refine ⟨m', _, rfl, hr.1, ?_, hr.2⟩
    unfold reopened; rw [hm]; simp [hr.1, hr.2]

/-- Re-executing the interrupted block after the crash yields the same new version with the same
content and the same retained versions as the uninterrupted commit (the version save is
idempotent), whatever substores had already been saved. -/
theorem replay_same (m : RM) (hc : Consistent m) (h1 : 1 ≤ m.latest) (hs : SafePrune m)
    (perm : List Nat) (hp : perm.Perm (List.range m.subs.length))
    (pre : List Batch) (hpre : pre <+: commitBatches m perm) (hne : pre ≠ commitBatches m perm) :
    let crashed := applyBatches m pre
    let replayed := { crashed with subs := (crashed.subs.zip m.subs).map (fun (p : Sub × Sub) => { p.1 with working := p.2.working }) }.commit
    replayed.latest = m.commit.latest ∧
    (∀ v, replayed.load v = m.commit.load v) := by
  intro crashed replayed
  obtain ⟨hcb, hmeta, _⟩ := crashed_same m hs perm pre hpre hne
  have hlen : crashed.subs.length = m.subs.length := applyBatches_length m pre
  have hl : replayed.latest = m.commit.latest := by
    show crashed.latest + 1 = m.latest + 1
    rw [hmeta.latest]
  refine ⟨hl, load_congr _ _ hl ?_ ?_⟩
  · show (crashed.latest + 1) :: crashed.infos = (m.latest + 1) :: m.infos
    rw [hmeta.latest, hmeta.infos]
  · intro x
    rw [saves_commit', saves_commit']
    have hkr : crashed.kr = m.kr := hmeta.kr
    have hke : crashed.ke = m.ke := hmeta.ke
    have hla : crashed.latest = m.latest := hmeta.latest
    simp only [hkr, hke, hla, List.length_map, List.length_zip, hlen, Nat.min_self]
    rw [zip_working_map _ _ hlen]
    by_cases h1 : x = m.latest + 1
    · simp only [h1, if_true]
    · by_cases h2 : pruneTarget m.kr m.ke (m.latest + 1) = some x
      · simp only [h1, h2, if_false, if_true]
      · simp only [h1, h2, if_false]
        show ((crashed.subs.zip m.subs).map _).map (savedAt · x) = saves m x
        rw [zip_saved_map _ _ hlen]
        exact saves_applyBatches_untouched m pre x (fun b hb => (hcb b hb).untouched x h1 h2)

/-- the witness for `crash_counterexample_keepRecent0`: one substore, version 1 committed, `keepRecent = 0` -/
def cex0 : RM :=
  { kr := 0, ke := 0, subs := [{ working := [([1], [2])], saved := [(1, [([1], [1])])] }], trans := [],
    latest := 1, infos := [1] }

/-- With `keepRecent = 0` (the shipped `PruneEverything`) the property fails: a crash right after
the first substore's prune batch leaves a database that cannot be reopened. -/
theorem crash_counterexample_keepRecent0 :
    ∃ m : RM, Consistent m ∧ 1 ≤ m.latest ∧ m.kr = 0 ∧
      ∃ pre, pre <+: commitBatches m (List.range m.subs.length) ∧ reopened (applyBatches m pre) = none := by
  refine ⟨cex0, ?_, by decide, rfl, [.save 0 2 [([1], [2])], .prune 0 1], ⟨[.info 2], rfl⟩, by decide⟩
  constructor
  · intro _ s hs
    simp only [cex0, List.mem_singleton] at hs
    subst hs; decide
  · intro s hs e he
    simp only [cex0, List.mem_singleton] at hs
    subst hs
    simp only [List.mem_singleton] at he
    subst he; decide
  · intro s hs
    simp only [cex0, List.mem_singleton] at hs
    subst hs; decide
  · intro v; simp only [cex0, List.mem_singleton]; omega

/-! Non-vacuity (tests, labelled as such): a concrete instance of `crash_atomic`'s hypotheses —
a consistent store with two substores and `keepRecent = 1`, the visiting order `[1, 0]`, and every
crash point — evaluated directly. -/

/-- two substores, versions 1 and 2 committed, `keepRecent = 1`, `keepEvery = 0`, uncommitted writes pending -/
def ex2 : RM :=
  { kr := 1, ke := 0, trans := [([9], [9])], latest := 2, infos := [2, 1],
    subs := [ { working := [([1], [3])], saved := [(2, [([1], [2])]), (1, [([1], [1])])] },
              { working := [([5], [6])], saved := [(2, []), (1, [([5], [5])])] } ] }

theorem ex2_consistent : Consistent ex2 := by
  constructor
  · intro _ s hs
    simp only [ex2, List.mem_cons, List.not_mem_nil, or_false] at hs
    rcases hs with hs | hs <;> subst hs <;> decide
  · intro s hs e he
    simp only [ex2, List.mem_cons, List.not_mem_nil, or_false] at hs
    rcases hs with hs | hs <;> subst hs <;>
      (simp only [List.mem_cons, List.not_mem_nil, or_false] at he; rcases he with he | he <;> subst he <;> decide)
  · intro s hs
    simp only [ex2, List.mem_cons, List.not_mem_nil, or_false] at hs
    rcases hs with hs | hs <;> subst hs <;> decide
  · intro v; simp only [ex2, List.mem_cons, List.not_mem_nil, or_false]; omega

example : SafePrune ex2 := safePrune_of_keepRecent ex2 (by decide)
example : [1, 0].Perm (List.range ex2.subs.length) := List.Perm.swap 0 1 []
/-- the commit of version 3 issues five batches in this order (version 1 is pruned in both substores) -/
example : (commitBatches ex2 [1, 0]).length = 5 := by decide
/-- every strict prefix reopens to version 2 with version 2's content in both substores … -/
local instance : DecidableEq (Option (Nat × List Items)) := fun _ _ => inferInstance
example : (List.range 5).map (fun k => reopened (applyBatches ex2 ((commitBatches ex2 [1, 0]).take k))) =
    List.replicate 5 (some (2, [[([1], [2])], []])) := by decide
example : reopened ex2 = some (2, [[([1], [2])], []]) := by decide
/-- … and the full list to version 3 with the working content. -/
example : reopened (applyBatches ex2 (commitBatches ex2 [1, 0])) = some (3, [[([1], [3])], [([5], [6])]]) := by decide
/-- the theorem instantiated at a crash after three batches -/
example : ∃ old, reopened ex2 = some (2, old) ∧
    reopened (applyBatches ex2 ((commitBatches ex2 [1, 0]).take 3)) = some (2, old) :=
  (crash_atomic ex2 ex2_consistent (by decide) (safePrune_of_keepRecent ex2 (by decide)) [1, 0]
    (List.Perm.swap 0 1 []) _ (List.take_prefix 3 _)).1
    (fun h => absurd (congrArg List.length h) (by decide))

end Posmint.Props.C13
