import Posmint.Lemmas.ChainSlash
/-!
# C07 — Slashing burns exactly the stated fraction and never more than the stake
-/
namespace Posmint.Props.C07
open Posmint.Chain Posmint.Chain.C Posmint.Arith

theorem chopRound_mul_P (x : Int) (hx : 0 ≤ x) : chopRound (x * P) = x := by
  unfold chopRound chopRoundNonneg
  rw [P_eq]
  rw [if_neg (by omega)]
  simp only []
  rw [if_pos (by omega)]
  omega

/-- The slash amount is exactly trunc(p · 10^6 · f) for a fraction with 18 decimals. -/
theorem slashAmount_exact (pw fRaw : Int) (hp : 0 ≤ pw) (hf : 0 ≤ fRaw) :
    slashAmount pw fRaw = (pw * powerReduction * fRaw) / P := by
  unfold slashAmount
  have h0 : 0 ≤ pw * powerReduction * fRaw :=
    Int.mul_nonneg (Int.mul_nonneg hp (by unfold powerReduction; omega)) hf
  rw [Int.mul_right_comm, chopRound_mul_P _ h0]
  unfold chopTrunc
  exact Int.tdiv_eq_ediv_of_nonneg h0

/-- what a slash burns: min(trunc(p·10^6·f), current stake), never negative -/
def burnOf (pw fRaw tokens : Int) : Int := max (min (slashAmount pw fRaw) tokens) 0

/-- A slash of a staked or unstaking validator removes exactly `burnOf` from its stake, from the
staked pool and from the total supply; if the remainder falls below the minimum the validator is
force-unstaked and the remainder is burnt too.  Nobody else's balance or record changes. -/
theorem slash_exact (s : State) (a : Addr) (v : Val) (ih pw fRaw : Int) (h : Inv s)
    (hv : aget s.vals a = some v) (hst : v.status ≠ 0) (hf : 0 ≤ fRaw) (hh : ih ≤ s.height)
    (hb : 0 < burnOf pw fRaw v.tokens) :
    let s' := slash s a ih pw fRaw
    let rest := v.tokens - burnOf pw fRaw v.tokens
    let total := if rest < s.p.minStake then v.tokens else burnOf pw fRaw v.tokens
    s'.supply = s.supply - total ∧
    balOf s' s.pool = balOf s s.pool - total ∧
    (∀ b, b ≠ s.pool → balOf s' b = balOf s b) ∧
    (∀ b, b ≠ a → aget s'.vals b = aget s.vals b) ∧
    (∃ v', aget s'.vals a = some v' ∧ v'.jailed = v.jailed ∧
      (if rest < s.p.minStake then v'.tokens = 0 ∧ v'.status = 0 else v'.tokens = rest ∧ v'.status = v.status)) := by
  have hstake : v.tokens ≤ balOf s s.pool :=
    Int.le_trans (tokens_le_stakeSum s a v h.wf.tokNonneg hv hst) h.pool
  obtain ⟨c1, c2, c3, c4, c5, _, _⟩ := slash_pos_spec s a v ih pw fRaw h.wf.balAsc hstake hv hst hf hh hb
  exact ⟨c1, c2, c3, c4, c5⟩

/-- A slash that would burn nothing (fraction 0, power 0), a negative fraction, a future infraction
height, an unknown or an unstaked validator: nothing is burnt and no balance, supply or record changes. -/
theorem slash_noop (s : State) (a : Addr) (ih pw fRaw : Int) (h : Inv s)
    (hc : fRaw < 0 ∨ ih > s.height ∨ aget s.vals a = none ∨ (∃ v, aget s.vals a = some v ∧ v.status = 0) ∨
          (∃ v, aget s.vals a = some v ∧ burnOf pw fRaw v.tokens = 0)) :
    let s' := slash s a ih pw fRaw
    s'.supply = s.supply ∧ s'.bal = s.bal ∧ s'.vals = s.vals := by
  dsimp only
  unfold slash
  by_cases hf : fRaw < 0
  · rw [if_pos hf]; exact ⟨rfl, rfl, rfl⟩
  rw [if_neg hf]
  by_cases hh : ih > s.height
  · rw [if_pos hh]; exact ⟨rfl, rfl, rfl⟩
  rw [if_neg hh]
  cases hv : aget s.vals a with
  | none => exact ⟨rfl, rfl, rfl⟩
  | some v =>
  simp only []
  by_cases hst : v.status = 0
  · rw [if_pos (by simp [hst])]; exact ⟨rfl, rfl, rfl⟩
  rw [if_neg (by simpa using hst)]
  have hb : burnOf pw fRaw v.tokens = 0 := by
    rcases hc with hc | hc | hc | ⟨v', hv', hc⟩ | ⟨v', hv', hc⟩
    · exact absurd hc hf
    · exact absurd hc hh
    · rw [hv] at hc; cases hc
    · rw [hv] at hv'; cases hv'; exact absurd hc hst
    · rw [hv] at hv'; cases hv'; exact hc
  unfold burnOf at hb
  simp only [hb]
  rw [if_pos (by omega)]
  have : ({ v with tokens := v.tokens - 0 } : Val) = v := by cases v; simp
  rw [this]
  refine ⟨by simp, by simp, ?_⟩
  simp only [setStaked_vals, setVal_vals, delStaked_vals]
  exact aset_same _ _ _ h.wf.valsAsc hv

/-- Confirmed double-sign evidence inside the evidence window burns the offender's entire
remaining stake (and tombstones it); nobody else is affected. -/
theorem doublesign_burns_all (s s' : State) (a : Addr) (ih et pw : Int) (v : Val) (h : Inv s)
    (hv : aget s.vals a = some v) (hage : s.time - et ≤ s.p.maxAge)
    (hd : handleDoubleSign s a ih et pw = some s') :
    s'.supply = s.supply - v.tokens ∧ balOf s' s.pool = balOf s s.pool - v.tokens ∧
    (∀ b, b ≠ s.pool → balOf s' b = balOf s b) ∧ (∀ b, b ≠ a → aget s'.vals b = aget s.vals b) ∧
    (∃ v', aget s'.vals a = some v' ∧ v'.tokens = 0 ∧ v'.status = 0) := by
  unfold handleDoubleSign at hd
  split at hd
  · cases hd
  rw [if_neg (by omega), hv] at hd
  simp only [] at hd
  split at hd
  · cases hd
  rename_i hst
  have hst' : v.status ≠ 0 := by simpa using hst
  split at hd
  · cases hd
  rename_i si hsi
  split at hd
  · cases hd
  split at hd
  · cases hd
  have h0 : 0 ≤ v.tokens := h.wf.tokNonneg _ (aget_mem _ _ _ hv)
  have hstake : v.tokens ≤ balOf s s.pool :=
    Int.le_trans (tokens_le_stakeSum s a v h.wf.tokNonneg hv hst') h.pool
  obtain ⟨t, v1, t0, t1, c1, c2, c3, c4, c5, c6, c7, c8⟩ :=
    slash_summary s a v (ih - 1) pw s.p.sfDouble h.wf.balAsc hstake h0 hv hst'
  generalize slash s a (ih - 1) pw s.p.sfDouble = s1 at *
  split at hd
  · cases hd
  rename_i s2 hs2
  obtain ⟨d1, d2, d3, d4, v2, d5, d6, _, _⟩ := jail_or_id s1 s2 a (!v.jailed) v1 hs2 c6
  rw [d5] at hd
  simp only [] at hd
  injection hd with hd
  have hbal2 : ∀ b, balOf s2 b = balOf s1 b := balOf_congr _ _ d1
  obtain ⟨g1, g2, g3, _, _, _⟩ := forceUnstake_spec s2 a v2 (d1 ▸ c3) (by omega)
    (by rw [d3, c4, hbal2, c2, if_pos rfl]; omega)
  generalize forceUnstake s2 a v2 = s3 at *
  subst hd
  refine ⟨?_, ?_, ?_, ?_, ?_⟩
  · show s3.supply = _
    rw [g1, d2, c1]; omega
  · show balOf s3 s.pool = _
    rw [g2, d3, c4, if_pos rfl, hbal2, c2, if_pos rfl]; omega
  · intro b hb
    show balOf s3 b = _
    rw [g2, d3, c4, if_neg hb, hbal2, c2, if_neg hb]
  · intro b hb
    show aget s3.vals b = _
    rw [g3, aget_aset_ne _ _ _ _ (fun e => hb e.symm), d4 b hb, c5 b hb]
  · refine ⟨{ v2 with tokens := 0, status := 0 }, ?_, rfl, rfl⟩
    show aget s3.vals a = _
    rw [g3, aget_aset_self]

/-- Evidence outside the window burns nothing and changes nothing. -/
theorem evidence_expired_ignored (s : State) (a : Addr) (ih et pw : Int) (hr : a ∈ s.rel)
    (hage : s.time - et > s.p.maxAge) : handleDoubleSign s a ih et pw = some s := by
  unfold handleDoubleSign
  rw [if_neg (by simp [hr]), if_pos hage]

/-- Evidence against an unknown, unstaked or already tombstoned validator burns nothing (the
application refuses it: BeginBlock stops). -/
theorem evidence_refused (s : State) (a : Addr) (ih et pw : Int)
    (hc : a ∉ s.rel ∨ (s.time - et ≤ s.p.maxAge ∧ (aget s.vals a = none ∨ (∃ v, aget s.vals a = some v ∧ v.status = 0) ∨
            (∃ si, aget s.sign a = some si ∧ si.tomb = true)))) :
    handleDoubleSign s a ih et pw = none := by
  unfold handleDoubleSign
  by_cases hr : a ∈ s.rel
  · rw [if_neg (by simp [hr])]
    rcases hc with hc | ⟨hage, hc⟩
    · exact absurd hr hc
    rw [if_neg (by omega)]
    rcases hc with hc | ⟨v, hv, hc⟩ | ⟨si, hsi, hc⟩
    · rw [hc]
    · rw [hv]; simp [hc]
    · cases hv : aget s.vals a with
      | none => rfl
      | some v =>
        simp only []
        split
        · rfl
        · rw [hsi]; simp [hc]
  · rw [if_pos (by simp [hr])]

/-- Non-vacuity: a concrete slash with sub-unit truncation. -/
example : slashAmount 7 333333333333333333 = 2333333 := by decide

end Posmint.Props.C07
