import Posmint.Lemmas.ChainInv
/-!
# C06 — Validator lifecycle: legal transitions only, and unstaking pays out on time
-/
namespace Posmint.Props.C06
open Posmint.Chain Posmint.Chain.B

/-- In every reachable state the power index lists exactly the staked, unjailed validators under
the key of their current stake, and every unstaking validator is queued at its completion time
(and nothing else is queued). -/
theorem index_and_queue_exact (g : Genesis) (hg : GenesisOK g) (ops : List Op) (s' : State)
    (hr : run (genesis g).1 ops = some s') : IndexExact s' ∧ QueueExact s' :=
  ⟨(reachable_inv g hg ops s' hr).index, (reachable_inv g hg ops s' hr).queue⟩

/-! ### helpers: EndBlock on one validator -/

theorem val_ne_pool {s : State} (h : Inv s) {a : Addr} {v : Val} (hv : aget s.vals a = some v) : a ≠ s.pool := by
  obtain ⟨k, hk, hka⟩ := h.wf.valsAreKeys (a, v) (aget_some_mem hv)
  have := h.wf.keysNotMods k hk
  simp only [isMod, Bool.or_eq_false_iff, beq_eq_false_iff_ne] at this
  simp only at hka
  rw [← hka]; exact this.1.1.1

/-- what EndBlock does to the record and account of one validator -/
theorem endBlock_val {s s' : State} {ups : List (Addr × Int)} (h : Inv s) (he : endBlock s = some (s', ups))
    {a : Addr} {v : Val} (hv : aget s.vals a = some v) :
    ((v.status = 1 ∧ v.unstake ≤ s.time) → aget s'.vals a = none ∧ balOf s' a = balOf s a + v.tokens) ∧
    (¬ (v.status = 1 ∧ v.unstake ≤ s.time) → aget s'.vals a = some v ∧ balOf s' a = balOf s a) := by
  obtain ⟨s1, hu, hm⟩ := B.endBlock_cases he
  obtain ⟨c1, b1, hvals, hbal, htime, hqueue, hpool, _⟩ := updateValidators_mid h hu
  have hne : a ≠ s1.pool := by rw [hpool]; exact val_ne_pool h hv
  have hv1 : aget s1.vals a = some v := by rw [hvals]; exact hv
  have hb1 : balOf s1 a = balOf s a := B.balOf_congr hbal a
  constructor
  · rintro ⟨hst, hun⟩
    -- invariant: either still there and unpaid, or gone and paid
    obtain ⟨_, _, _, hQ, hpost⟩ := unstakeMature_inv c1 b1
      (fun x => (aget x.vals a = some v ∧ balOf x a = balOf s a) ∨
                (aget x.vals a = none ∧ balOf x a = balOf s a + v.tokens))
      (Or.inl ⟨hv1, hb1⟩)
      (fun x b x' cx bx shx hq _ hf => by
        obtain ⟨_, _, _, _, hc⟩ := finishOne_spec cx bx hf
        rcases hc with rfl | ⟨w, hw, hwst, hvals', hbalE⟩
        · exact hq
        · have hpx : x.pool = s1.pool := shx.pool
          by_cases hba : b = a
          · subst hba
            rcases hq with ⟨q1, q2⟩ | ⟨q1, q2⟩
            · rw [q1] at hw; cases hw
              right
              refine ⟨by rw [hvals']; exact B.aget_adel_self cx.valsAsc b, ?_⟩
              rw [hbalE, hpx, if_neg (fun h => hne h.symm), if_pos rfl, q2]; omega
            · rw [q1] at hw; cases hw
          · have hvx : aget x'.vals a = aget x.vals a := by rw [hvals']; exact aget_adel_ne cx.valsAsc hba
            have hbx : balOf x' a = balOf x a := by
              rw [hbalE, hpx, if_neg (fun h => hne h.symm), if_neg hba]; omega
            rw [hvx, hbx]; exact hq)
      hm
    -- `a` sits in a mature slot, so it has been processed
    have hmem : a ∈ qGet s1.queue v.unstake := (c1.q_mem hv1 v.unstake).2 ⟨hst, rfl⟩
    have hslot : (v.unstake, qGet s1.queue v.unstake) ∈ s1.queue := by
      rcases qGet_eq_nil_or_mem s1.queue v.unstake with h0 | h0
      · rw [h0] at hmem; simp at hmem
      · exact h0
    have hnu := hpost (v.unstake, qGet s1.queue v.unstake)
      (by simp only [List.mem_filter, decide_eq_true_eq]; exact ⟨hslot, by rw [htime]; exact hun⟩) a hmem
    rcases hQ with ⟨q1, _⟩ | hQ
    · exact absurd hst (hnu v q1)
    · exact hQ
  · intro hn
    obtain ⟨_, _, _, hQ, _⟩ := unstakeMature_inv c1 b1
      (fun x => aget x.vals a = some v ∧ balOf x a = balOf s a)
      ⟨hv1, hb1⟩
      (fun x b x' cx bx shx hq hb hf => by
        obtain ⟨_, _, _, _, hc⟩ := finishOne_spec cx bx hf
        rcases hc with rfl | ⟨w, hw, hwst, hvals', hbalE⟩
        · exact hq
        · have hpx : x.pool = s1.pool := shx.pool
          have hba : b ≠ a := by
            intro hba; subst hba
            obtain ⟨t, l, htl, ht, hbl⟩ := hb
            have : b ∈ qGet s1.queue t := by rw [qGet_of_mem c1.queue.2.1 htl]; exact hbl
            have := (c1.q_mem hv1 t).1 this
            apply hn
            refine ⟨this.1, ?_⟩
            rw [this.2, ← htime]; exact ht
          have hvx : aget x'.vals a = aget x.vals a := by rw [hvals']; exact aget_adel_ne cx.valsAsc hba
          have hbx : balOf x' a = balOf x a := by
            rw [hbalE, hpx, if_neg (fun h => hne h.symm), if_neg hba]; omega
          rw [hvx, hbx]; exact hq)
      hm
    exact hQ

theorem endBlock_none {s s' : State} {ups : List (Addr × Int)} (h : Inv s) (he : endBlock s = some (s', ups))
    {a : Addr} (hv : aget s.vals a = none) : aget s'.vals a = none := by
  obtain ⟨s1, hu, hm⟩ := B.endBlock_cases he
  obtain ⟨c1, b1, hvals, _⟩ := updateValidators_mid h hu
  obtain ⟨_, _, sh, _, _⟩ := unstakeMature_inv c1 b1 (fun _ => True) trivial (fun _ _ _ _ _ _ _ _ _ => trivial) hm
  cases hq : aget s'.vals a with
  | none => rfl
  | some w => have := sh.sub a w hq; rw [hvals, hv] at this; cases this

theorem endBlock_p {s s' : State} {ups : List (Addr × Int)} (h : Inv s) (he : endBlock s = some (s', ups)) :
    s'.p = s.p := by
  obtain ⟨s1, hu, hm⟩ := B.endBlock_cases he
  obtain ⟨c1, b1, _, _, _, _, _, _, _, hp, _⟩ := updateValidators_mid h hu
  obtain ⟨_, _, sh, _, _⟩ := unstakeMature_inv c1 b1 (fun _ => True) trivial (fun _ _ _ _ _ _ _ _ _ => trivial) hm
  rw [sh.p, hp]

/-! ### helpers: message handlers on one validator -/

theorem bankOnly_fields {s s0 : State} (hb : BankOnly s s0) :
    s0.vals = s.vals ∧ s0.p = s.p ∧ s0.keys = s.keys ∧ s0.time = s.time := by
  obtain ⟨b, sup, b2, ac, rfl⟩ := hb
  exact ⟨rfl, rfl, rfl, rfl⟩

theorem keyAddr_congr {s s0 : State} (h : s0.keys = s.keys) (k : Nat) : keyAddr s0 k = keyAddr s k := by
  simp only [keyAddr, h]

/-- recording a delivered transaction in `blockTxs` touches neither validators nor parameters -/
theorem txWrap_vals (mode : Mode) (t : Tx) (x : State) :
    (if mode == Mode.deliver then { x with blockTxs := t.id :: x.blockTxs } else x).vals = x.vals := by
  split <;> rfl

theorem txWrap_p (mode : Mode) (t : Tx) (x : State) :
    (if mode == Mode.deliver then { x with blockTxs := t.id :: x.blockTxs } else x).p = x.p := by
  split <;> rfl

/-- While the minimum-stake parameter is unchanged, every validator that is not unstaked holds at
least the minimum stake. -/
theorem min_stake_step (s : State) (op : Op) (r : State × List (Addr × Int) × Bool)
    (h : Inv s) (hm : MinStakeOK s) (hs : step s op = some r) (hp : r.1.p.minStake = s.p.minStake) :
    MinStakeOK r.1 := by
  cases op with
  | «begin» time proposer votes evs =>
    simp only [step] at hs
    cases hb : beginBlock s time proposer votes evs with
    | none => rw [hb] at hs; simp at hs
    | some s' =>
      rw [hb] at hs
      simp only [Option.map_some, Option.some.injEq] at hs
      subst hs
      exact (beginBlock_inv h hb).2.2 hm
  | endBlock =>
    simp only [step] at hs
    cases hb : endBlock s with
    | none => rw [hb] at hs; simp at hs
    | some r' =>
      rw [hb] at hs
      simp only [Option.map_some, Option.some.injEq] at hs
      subst hs
      intro a w hw hst
      simp only at hw hp ⊢
      rw [hp]
      cases hv : aget s.vals a with
      | none => rw [endBlock_none (s' := r'.1) (ups := r'.2) h hb hv] at hw; cases hw
      | some v =>
        obtain ⟨k1, k2⟩ := endBlock_val (s' := r'.1) (ups := r'.2) h hb hv
        by_cases hmat : v.status = 1 ∧ v.unstake ≤ s.time
        · rw [(k1 hmat).1] at hw; cases hw
        · rw [(k2 hmat).1] at hw; cases hw; exact hm a w hv hst
  | commit =>
    simp only [step, Option.some.injEq] at hs
    subst hs; exact hm
  | award a' amt =>
    simp only [step, Option.some.injEq] at hs
    subst hs; exact hm
  | burn a' raw =>
    simp only [step, Option.some.injEq] at hs
    subst hs; exact hm
  | tx mode t =>
    simp only [step, Option.some.injEq] at hs
    subst hs
    simp only at hp ⊢
    have hp' : (runTx s mode t).1.p.minStake = s.p.minStake :=
      (congrArg Params.minStake (txWrap_p mode t _)).symm.trans hp
    refine MinStakeOK.of_eq ?_ (txWrap_vals mode t _) (txWrap_p mode t _)
    clear hp
    have hp := hp'
    clear hp'
    rcases runTx_cases s mode t with h1 | ⟨_, s0, hb, h1 | h1⟩
    · rw [h1]; exact hm
    · rw [h1.1]; exact hm.of_eq hb.vals hb.p
    · obtain ⟨e1, e2, e3, e4⟩ := bankOnly_fields hb
      have hm0 : MinStakeOK s0 := hm.of_eq e1 e2
      generalize (runTx s mode t).1 = s' at h1 hp ⊢
      obtain ⟨_, hh⟩ := h1
      by_cases hmsg : (∀ k amt, t.msg ≠ .stake k amt) ∧ (∀ a, t.msg ≠ .unstake a) ∧ (∀ a, t.msg ≠ .unjail a)
      · obtain ⟨b, sup, p, ac, d, u, acc, rfl⟩ := handle_other_shape hh hmsg
        intro a w hw hst
        simp only at hw hp ⊢
        rw [hp, ← e2]; exact hm0 a w hw hst
      · cases hmc : t.msg with
        | stake k amt =>
          rw [hmc] at hh
          obtain ⟨_, hst0, hmin, _, b, rel', sg, acc, hs', _⟩ := handle_stake_shape hh
          apply hm0.update (keyAddr s0 k) _ (by rw [hs']) (by rw [hs'])
          intro _
          have hnn : 0 ≤ ((aget s0.vals (keyAddr s0 k)).getD defaultVal).tokens := by
            cases hq : aget s0.vals (keyAddr s0 k) with
            | none => simp [defaultVal]
            | some v0 =>
              simp only [Option.getD_some]
              exact h.backed.tokNonneg (keyAddr s0 k) v0 (by rw [← e1]; exact hq)
          show s0.p.minStake ≤ ((aget s0.vals (keyAddr s0 k)).getD defaultVal).tokens + amt
          omega
        | unstake a' =>
          rw [hmc] at hh
          obtain ⟨v, hv, hst, hmin, hs'⟩ := handle_unstake_shape hh
          apply hm0.update a' _ (by rw [hs']) (by rw [hs'])
          intro _; exact hmin
        | unjail a' =>
          rw [hmc] at hh
          obtain ⟨v, si, hv, _, _, hmin, _, _, _, hs'⟩ := handle_unjail_shape hh
          apply hm0.update a' _ (by rw [hs']) (by rw [hs'])
          intro _; exact hmin
        | send src dst amt => rw [hmc] at hmsg; exact absurd (by simp) hmsg
        | changeParam src key val => rw [hmc] at hmsg; exact absurd (by simp) hmsg
        | daoTransfer src dst amt => rw [hmc] at hmsg; exact absurd (by simp) hmsg
        | daoBurn src amt => rw [hmc] at hmsg; exact absurd (by simp) hmsg
        | upgrade src hh' ver => rw [hmc] at hmsg; exact absurd (by simp) hmsg

/-- Legal status transitions of one validator across one operation. -/
def Edge (s s' : State) (op : Op) (ok : Bool) (a : Addr) : Prop :=
  match aget s.vals a, aget s'.vals a with
  | none, none => True
  | none, some v' =>
      -- created only by its own successful stake message, staked with exactly the staked amount
      v'.status = 2 ∧ ok = true ∧ ∃ t k amt, op = .tx .deliver t ∧ t.msg = .stake k amt ∧ keyAddr s k = a ∧
        v'.tokens = amt ∧ s.p.minStake ≤ amt
  | some v, none =>
      -- removed only by maturity in EndBlock, at or after its completion time
      op = .endBlock ∧ v.status = 1 ∧ v.unstake ≤ s.time
  | some v, some v' =>
      v'.status = v.status ∨
      (v.status = 0 ∧ v'.status = 2 ∧ ok = true ∧ ∃ t k amt, op = .tx .deliver t ∧ t.msg = .stake k amt ∧ keyAddr s k = a ∧
        s.p.minStake ≤ amt) ∨
      (v.status = 2 ∧ v'.status = 1 ∧ ok = true ∧ (∃ t, op = .tx .deliver t ∧ t.msg = .unstake a) ∧
        v'.unstake = s.time + s.p.unstakingTime ∧ v'.tokens = v.tokens) ∨
      (v'.status = 0 ∧ v'.tokens = 0 ∧ ∃ time p vs es, op = .begin time p vs es)   -- forced unstake

theorem edge_of_eq {s s' : State} {op : Op} {ok : Bool} {a : Addr} (h : aget s'.vals a = aget s.vals a) :
    Edge s s' op ok a := by
  unfold Edge
  rw [h]
  cases aget s.vals a with
  | none => trivial
  | some v => exact Or.inl rfl

theorem edge_congr {s s' s'' : State} {op : Op} {ok : Bool} {a : Addr} (hv : s''.vals = s'.vals)
    (h : Edge s s' op ok a) : Edge s s'' op ok a := by
  unfold Edge at h ⊢
  rw [hv]; exact h

theorem status_step (s : State) (op : Op) (r : State × List (Addr × Int) × Bool) (a : Addr)
    (h : Inv s) (hs : step s op = some r) : Edge s r.1 op r.2.2 a := by
  cases op with
  | «begin» time proposer votes evs =>
    simp only [step] at hs
    cases hb : beginBlock s time proposer votes evs with
    | none => rw [hb] at hs; simp at hs
    | some s' =>
      rw [hb] at hs
      simp only [Option.map_some, Option.some.injEq] at hs
      subst hs
      obtain ⟨k1, k2, _⟩ := beginBlock_inv h hb
      have hd := k2.valsDom a
      unfold Edge
      dsimp only
      cases hv : aget s.vals a with
      | none =>
        rw [hv] at hd
        cases hv' : aget s'.vals a with
        | none => trivial
        | some v' => rw [hv'] at hd; cases hd
      | some v =>
        rw [hv] at hd
        cases hv' : aget s'.vals a with
        | none => rw [hv'] at hd; cases hd
        | some v' =>
          dsimp only
          rcases (k2.valsRel a v v' hv hv').2 with h1 | h1
          · exact Or.inl h1
          · by_cases h0 : v.status = 0
            · exact Or.inl (h1.trans h0.symm)
            · exact Or.inr (Or.inr (Or.inr ⟨h1, k1.backed.unstakedEmpty a v' hv' h1, time, proposer, votes, evs, rfl⟩))
  | endBlock =>
    simp only [step] at hs
    cases hb : endBlock s with
    | none => rw [hb] at hs; simp at hs
    | some r' =>
      rw [hb] at hs
      simp only [Option.map_some, Option.some.injEq] at hs
      subst hs
      unfold Edge
      dsimp only
      cases hv : aget s.vals a with
      | none => rw [endBlock_none (s' := r'.1) (ups := r'.2) h hb hv]; trivial
      | some v =>
        obtain ⟨k1, k2⟩ := endBlock_val (s' := r'.1) (ups := r'.2) h hb hv
        by_cases hmat : v.status = 1 ∧ v.unstake ≤ s.time
        · rw [(k1 hmat).1]; exact ⟨rfl, hmat.1, hmat.2⟩
        · rw [(k2 hmat).1]; exact Or.inl rfl
  | commit =>
    simp only [step, Option.some.injEq] at hs
    subst hs; exact edge_of_eq rfl
  | award a' amt =>
    simp only [step, Option.some.injEq] at hs
    subst hs; exact edge_of_eq rfl
  | burn a' raw =>
    simp only [step, Option.some.injEq] at hs
    subst hs; exact edge_of_eq rfl
  | tx mode t =>
    simp only [step, Option.some.injEq] at hs
    subst hs
    dsimp only
    refine edge_congr (txWrap_vals mode t _) ?_
    rcases runTx_cases s mode t with h1 | ⟨hmode, s0, hb, h1 | h1⟩
    · rw [h1]; exact edge_of_eq rfl
    · rw [h1.1]; exact edge_of_eq (by rw [hb.vals])
    · obtain ⟨e1, e2, e3, e4⟩ := bankOnly_fields hb
      subst hmode
      obtain ⟨hok, hh⟩ := h1
      rw [hok]
      generalize (runTx s .deliver t).1 = s' at hh ⊢
      by_cases hmsg : (∀ k amt, t.msg ≠ .stake k amt) ∧ (∀ a, t.msg ≠ .unstake a) ∧ (∀ a, t.msg ≠ .unjail a)
      · obtain ⟨b, sup, p, ac, d, u, acc, rfl⟩ := handle_other_shape hh hmsg
        exact edge_of_eq (show aget s0.vals a = aget s.vals a by rw [e1])
      · cases hmc : t.msg with
        | stake k amt =>
          rw [hmc] at hh
          obtain ⟨_, hst0, hmin, _, b, rel', sg, acc, hs', _⟩ := handle_stake_shape hh
          have hvals : s'.vals = aset s.vals (keyAddr s k)
              { ((aget s.vals (keyAddr s k)).getD defaultVal) with
                tokens := ((aget s.vals (keyAddr s k)).getD defaultVal).tokens + amt, status := 2 } := by
            rw [hs']; simp only [e1, keyAddr_congr e3]
          rw [e1, keyAddr_congr e3] at hst0
          rw [e2] at hmin
          by_cases hak : keyAddr s k = a
          · unfold Edge
            rw [hvals, hak, B.aget_aset_self]
            rw [hak] at hst0
            cases hv : aget s.vals a with
            | none =>
              dsimp only
              refine ⟨rfl, rfl, t, k, amt, rfl, hmc, hak, ?_, hmin⟩
              simp [defaultVal]
            | some v =>
              dsimp only
              rw [hv] at hst0
              simp only [Option.getD_some] at hst0
              exact Or.inr (Or.inl ⟨hst0, rfl, rfl, t, k, amt, rfl, hmc, hak, hmin⟩)
          · exact edge_of_eq (by rw [hvals, B.aget_aset_ne _ _ hak])
        | unstake a' =>
          rw [hmc] at hh
          obtain ⟨v, hv, hst, hmin, hs'⟩ := handle_unstake_shape hh
          have hvals : s'.vals = aset s.vals a' { v with status := 1, unstake := s.time + s.p.unstakingTime } := by
            rw [hs']; simp only [e1, e2, e4]
          rw [e1] at hv
          by_cases hak : a' = a
          · subst hak
            unfold Edge
            rw [hvals, B.aget_aset_self, hv]
            dsimp only
            exact Or.inr (Or.inr (Or.inl ⟨hst, rfl, rfl, ⟨t, rfl, hmc⟩, rfl, rfl⟩))
          · exact edge_of_eq (by rw [hvals, B.aget_aset_ne _ _ hak])
        | unjail a' =>
          rw [hmc] at hh
          obtain ⟨v, si, hv, _, _, _, _, _, _, hs'⟩ := handle_unjail_shape hh
          have hvals : s'.vals = aset s.vals a' { v with jailed := false } := by
            rw [hs']; simp only [e1]
          rw [e1] at hv
          by_cases hak : a' = a
          · subst hak
            unfold Edge
            rw [hvals, B.aget_aset_self, hv]
            exact Or.inl rfl
          · exact edge_of_eq (by rw [hvals, B.aget_aset_ne _ _ hak])
        | send src dst amt => rw [hmc] at hmsg; exact absurd (by simp) hmsg
        | changeParam src key val => rw [hmc] at hmsg; exact absurd (by simp) hmsg
        | daoTransfer src dst amt => rw [hmc] at hmsg; exact absurd (by simp) hmsg
        | daoBurn src amt => rw [hmc] at hmsg; exact absurd (by simp) hmsg
        | upgrade src hh' ver => rw [hmc] at hmsg; exact absurd (by simp) hmsg

/-- An unstaking validator whose completion time has come is removed at this EndBlock with its
whole remaining stake returned to its account … -/
theorem matures_on_time (s s' : State) (ups : List (Addr × Int)) (a : Addr) (v : Val) (h : Inv s)
    (he : endBlock s = some (s', ups)) (hv : aget s.vals a = some v) (hst : v.status = 1)
    (ht : v.unstake ≤ s.time) :
    aget s'.vals a = none ∧ balOf s' a = balOf s a + v.tokens :=
  (endBlock_val h he hv).1 ⟨hst, ht⟩

/-- … and never earlier: EndBlock leaves every other validator's record and account untouched. -/
theorem never_early (s s' : State) (ups : List (Addr × Int)) (a : Addr) (v : Val) (h : Inv s)
    (he : endBlock s = some (s', ups)) (hv : aget s.vals a = some v)
    (hn : ¬ (v.status = 1 ∧ v.unstake ≤ s.time)) :
    aget s'.vals a = some v ∧ balOf s' a = balOf s a :=
  (endBlock_val h he hv).2 hn

/-- EndBlock pays out without halting as long as stakes fit an int64 (the code converts). -/
theorem end_no_halt (s : State) (h : Inv s)
    (hp : ∀ a v, aget s.vals a = some v → v.status = 2 → v.jailed = false → powerReduction ≤ v.tokens)
    (h64 : ∀ a v, aget s.vals a = some v → Posmint.Arith.isInt64 v.tokens = true) :
    (endBlock s).isSome = true := by
  have h1 := update_isSome h.index hp h.prevOK.2.2
  cases hu : updateValidators s with
  | none => rw [hu] at h1; cases h1
  | some r1 =>
    obtain ⟨s1, ups⟩ := r1
    obtain ⟨c1, b1, hvals, _⟩ := updateValidators_mid h hu
    obtain ⟨s2, hs2⟩ := unstakeMature_isSome c1.valsAsc b1 (fun a v hv => h64 a v (by rw [← hvals]; exact hv))
    simp only [endBlock, hu, hs2, Option.map_some, Option.isSome_some]

end Posmint.Props.C06
