import Posmint.Lemmas.ChainTx
/-!
# C11 — Rejected transactions and read-only calls leave no trace
-/
namespace Posmint.Props.C11
open Posmint.Chain Posmint.Chain.ChainTx Posmint.Chain.F2

/-- the state after the ante handler took the fee: the part in the staking coin, then the part offered in the
second denomination -/
def afterFee (s : State) (t : Tx) : State :=
  (send2 ((send s (t.msg.signer s) s.feeAcc t.feeEff).getD s) (t.msg.signer s) s.feeAcc t.fee2).getD
    ((send s (t.msg.signer s) s.feeAcc t.feeEff).getD s)

/-- A rejected delivered transaction leaves the state exactly as it was, or — when it passed the
ante handler and its message handler failed — exactly as it was with the fee paid. -/
theorem reject_frame (s s' : State) (t : Tx) (hr : runTx s .deliver t = (s', false)) :
    s' = s ∨ (anteOK s t false = true ∧ handle (afterFee s t) t.msg = none ∧ s' = afterFee s t) := by
  unfold runTx at hr
  split at hr
  · simp at hr; exact Or.inl hr.symm
  split at hr
  · simp at hr; exact Or.inl hr.symm
  split at hr
  · simp at hr; exact Or.inl hr.symm
  · rename_i h1 h2 h3
    simp at h3
    simp only at hr
    split at hr
    · simp at hr
    · rename_i hh
      simp at hr
      exact Or.inr ⟨h3, hh, hr.symm⟩

/-- Undecodable bytes and messages failing basic validation change nothing. -/
theorem undecodable_frame (s : State) (mode : Mode) (t : Tx)
    (hc : t.mutn = "trunc" ∨ t.mutn = "garbage" ∨ t.msg.basicOK = false) : runTx s mode t = (s, false) := by
  unfold runTx
  rcases hc with h | h | h <;> simp [h]

/-- CheckTx and Simulate never change state. -/
theorem readonly_frame (s : State) (mode : Mode) (t : Tx) (hm : mode ≠ .deliver) : (runTx s mode t).1 = s := by
  unfold runTx
  split; · rfl
  split; · rfl
  split; · rfl
  cases mode <;> simp at hm ⊢

/-- The fee of a transaction that passed the ante handler moved from the signer to the collector
and nothing else changed by the ante step. -/
theorem fee_step (s : State) (t : Tx) (h : Inv s) (ha : anteOK s t false = true) :
    let s1 := afterFee s t
    balOf s1 s.feeAcc = balOf s s.feeAcc + t.feeEff ∧
    balOf s1 (t.msg.signer s) = balOf s (t.msg.signer s) - t.feeEff ∧
    (∀ a, a ≠ s.feeAcc → a ≠ t.msg.signer s → balOf s1 a = balOf s a) ∧
    s1.vals = s.vals ∧ s1.supply = s.supply ∧ s1.idx = s.idx ∧ s1.queue = s.queue ∧ s1.sign = s.sign := by
  intro s1
  obtain ⟨_, s2, hs2, h1, h2, h3, _, hfr⟩ := fee_send h.wf ha
  have e : s1 = (send2 s2 (t.msg.signer s) s.feeAcc t.fee2).getD s2 := by simp [s1, afterFee, hs2]
  rw [e]
  simp only [balOf_send2_getD, vals_send2_getD, supply_send2_getD, idx_send2_getD, queue_send2_getD, sign_send2_getD]
  refine ⟨h1, h2, h3, ?_⟩
  rw [hfr]
  simp

/-- An accepted transaction is the fee step followed by its handler. -/
theorem accept_shape (s s' : State) (t : Tx) (hr : runTx s .deliver t = (s', true)) :
    anteOK s t false = true ∧ handle (afterFee s t) t.msg = some s' := by
  unfold runTx at hr
  split at hr
  · simp at hr
  split at hr
  · simp at hr
  split at hr
  · simp at hr
  · rename_i h1 h2 h3
    simp at h3
    simp only at hr
    split at hr
    · rename_i hh
      simp at hr
      subst hr
      exact ⟨h3, hh⟩
    · simp at hr

/-- Later transactions in the block are unaffected by a rejected one that did not pass the ante
handler: running it first changes nothing. -/
theorem later_txs_unaffected (s : State) (t u : Tx) (mode : Mode) (ha : anteOK s t false = false) :
    runTx (runTx s .deliver t).1 mode u = runTx s mode u := by
  have : (runTx s .deliver t).1 = s := by
    unfold runTx
    split; · rfl
    split; · rfl
    have hm : (Mode.deliver == Mode.simulate) = false := by decide
    simp [hm, ha]
  rw [this]

end Posmint.Props.C11
