import Posmint.Props.C18
import Posmint.Lemmas.ChainWindow
/-!
# C08 — Downtime accounting: sliding window is exact

`WinRel w si bits a h`: the signing info and bit array of validator `a` represent the history `h`
(oldest first) of missed flags recorded since the last reset, as a ring buffer of width `w`:
the counter is the number of misses among the last `w` entries.
-/
namespace Posmint.Props.C08
open Posmint.Chain Posmint.Chain.C Posmint.Arith

/-- A fresh signing info with no bits represents the empty history. -/
theorem window_init (w : Nat) (a : Addr) (start ju : Int) (tomb : Bool) (bits : List ((Addr × Int) × Bool))
    (hb : ∀ e ∈ bits, e.1.1 ≠ a) :
    WinRel w { start := start, offset := 0, missed := 0, jailedUntil := ju, tomb := tomb } bits a [] := by
  refine ⟨rfl, by simp [lastW_nil], ?_, ?_⟩
  · intro i _
    rw [slotOf_nil]
    unfold bitGet
    have : bits.find? (fun e => e.1.1 == a && e.1.2 == (i : Int)) = none := by
      rw [List.find?_eq_none]
      intro e he
      have := hb e he
      simp [this]
    rw [this]
  · intro e he hea
    exact absurd hea (hb e he)

/-- One call of `handleValidatorSignature` appends the new flag to the represented history, or —
exactly when the validator is punished — resets it to the empty history.  The validator is
punished (slashed, jailed, jailed-until = block time + jail duration) if and only if the block
height is past start + window, the number of misses among the last `w` flags (including this one)
exceeds window − required-signed, the validator exists and is not already jailed. -/
theorem window_step (s s' : State) (a : Addr) (pw : Int) (signed : Bool) (w : Nat) (si : Sign) (h : List Bool)
    (hw : 0 < w) (hwp : s.p.window = (w : Int)) (hsi : aget s.sign a = some si)
    (hsorted : KeysAsc s.sign)
    (hrel : WinRel w si s.missedBits a h)
    (hstep : handleSignature s a pw signed = some s') :
    ∃ si', aget s'.sign a = some si' ∧
      ((¬ punishes s a si w h signed ∧ WinRel w si' s'.missedBits a (h ++ [!signed]) ∧
          si'.jailedUntil = si.jailedUntil ∧ si'.start = si.start ∧ s'.vals = s.vals ∧ s'.bal = s.bal) ∨
       (punishes s a si w h signed ∧ WinRel w si' s'.missedBits a [] ∧
          si'.jailedUntil = s.time + s.p.jailDur ∧ si'.start = si.start ∧
          ∃ v', aget s'.vals a = some v' ∧ v'.jailed = true)) := by
  have _ := hsorted
  rw [handleSignature_eq] at hstep
  split at hstep
  · cases hstep
  rw [hsi] at hstep
  simp only [] at hstep
  rw [if_neg (by omega), hwp] at hstep
  have hr := winUpd_rel w hw si s.missedBits a h signed hrel
  have hcnt : (winUpd s.missedBits a si (w : Int) signed).2
      = (((lastW w (h ++ [!signed])).count true : Nat) : Int) := hr.2.1
  generalize winUpd s.missedBits a si (w : Int) signed = r at hstep hr hcnt
  by_cases hp : punishes s a si w h signed
  · obtain ⟨h1, h2, v, hv, hj⟩ := hp
    have hc : (decide (s.height > si.start + (w : Int)) && decide (r.2 > (w : Int) - minSignedPerWindow s.p)) = true := by
      rw [hcnt]; simp only [Bool.and_eq_true, decide_eq_true_eq]; exact ⟨h1, h2⟩
    rw [if_pos hc, hv] at hstep
    simp only [hj, Bool.not_false, if_true] at hstep
    split at hstep
    · cases hstep
    · rename_i s3 hjail
      injection hstep with hstep
      subst hstep
      refine ⟨_, aget_aset_self _ _ _, Or.inr ⟨⟨h1, h2, v, hv, hj⟩, ?_, rfl, rfl, ?_⟩⟩
      · refine ⟨rfl, by simp [lastW_nil], ?_, ?_⟩
        · intro i _
          rw [slotOf_nil]; exact bitGet_filter_self _ _ _
        · intro e he hea
          simp only [List.mem_filter, bne_iff_ne, ne_eq] at he
          exact absurd hea he.2
      · obtain ⟨v0, _, _, hvals⟩ := jail_vals _ _ _ hjail
        refine ⟨{ v0 with jailed := true }, ?_, rfl⟩
        show aget s3.vals a = _
        rw [hvals]; exact aget_aset_self _ _ _
  · have hres : some (sigAdvance s a si r) = some s' := by
      split at hstep
      · rename_i hc
        simp only [Bool.and_eq_true, decide_eq_true_eq] at hc
        rw [hcnt] at hc
        split at hstep
        · rename_i v hv
          split at hstep
          · rename_i hj
            exact absurd ⟨hc.1, hc.2, v, hv, by simpa using hj⟩ hp
          · exact hstep
        · exact hstep
      · exact hstep
    injection hres with hres
    subst hres
    exact ⟨_, aget_aset_self _ _ _, Or.inl ⟨hp, hr, rfl, rfl, rfl, rfl⟩⟩

/-- The counter always equals the number of missed entries among the last `w` (direct reading of `WinRel`). -/
theorem counter_is_window_count (w : Nat) (si : Sign) (bits : List ((Addr × Int) × Bool)) (a : Addr) (h : List Bool)
    (hrel : WinRel w si bits a h) : si.missed = (((lastW w h).count true : Nat) : Int) := hrel.2.1

/-- Other validators' windows are untouched by a call for validator `a`. -/
theorem window_frame (s s' : State) (a b : Addr) (pw : Int) (signed : Bool) (hab : a ≠ b)
    (hsorted : KeysAsc s.sign)
    (hstep : handleSignature s a pw signed = some s') :
    aget s'.sign b = aget s.sign b ∧ (∀ i, bitGet s'.missedBits b i = bitGet s.missedBits b i) := by
  have _ := hsorted
  rw [handleSignature_eq] at hstep
  split at hstep
  · cases hstep
  split at hstep
  · cases hstep
  rename_i si hsi
  split at hstep
  · cases hstep
  simp only [] at hstep
  obtain ⟨hb1, _, _⟩ := winUpd_spec s.missedBits a si s.p.window signed
  generalize winUpd s.missedBits a si s.p.window signed = r at hstep hb1
  have hadv : ∀ s'', some (sigAdvance s a si r) = some s'' →
      aget s''.sign b = aget s.sign b ∧ (∀ i, bitGet s''.missedBits b i = bitGet s.missedBits b i) := by
    intro s'' h
    injection h with h
    subst h
    refine ⟨aget_aset_ne _ _ _ _ hab, fun i => ?_⟩
    show bitGet r.1 b i = _
    rw [hb1, if_neg (fun h => hab h.1)]
  split at hstep
  · split at hstep
    · split at hstep
      · split at hstep
        · cases hstep
        · rename_i s3 hjail
          injection hstep with hstep
          subst hstep
          have hf := (slash_frame _ a (s.height - 1 - 1) pw s.p.sfDown).trans (jail_frame _ _ _ hjail)
          refine ⟨?_, fun i => ?_⟩
          · show aget (aset s3.sign a _) b = _
            rw [aget_aset_ne _ _ _ _ hab, hf.sign]
          · show bitGet (s3.missedBits.filter _) b i = _
            rw [bitGet_filter_ne _ _ _ _ hab, hf.bits]
            show bitGet r.1 b i = _
            rw [hb1, if_neg (fun h => hab h.1)]
      · exact hadv _ hstep
    · exact hadv _ hstep
  · exact hadv _ hstep

/-- `MinSignedPerWindow` is the half-to-even rounding of minSigned × window. -/
theorem minSigned_rounding (p : Params) :
    Posmint.Props.C18.IsRHE (p.minSignedRaw * p.window) P (minSignedPerWindow p) :=
  Posmint.Props.C18.chopRound_spec _

/-- Non-vacuity: 0.5 × 3 rounds to 2 (half to even), 0.5 × 5 rounds to 2. -/
example : chopRound (500000000000000000 * 3) = 2 ∧ chopRound (500000000000000000 * 5) = 2 := by decide

end Posmint.Props.C08
