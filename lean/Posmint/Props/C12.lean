import Posmint.Lemmas.RootMulti
/-!
# C12 — Commit is durable and versions are readable
-/
-- several hypotheses are part of the agreed statements but not needed by the proofs (see report)
set_option linter.unusedVariables false

namespace Posmint.Props.C12
open Posmint.RM Posmint.KV

/-- Each Commit advances the version by exactly one. -/
theorem commit_version_succ (m : RM) : m.commit.latest = m.latest + 1 := rfl

/-- After any history the version equals the number of commits, and the store is consistent. -/
theorem run_version (kr ke n : Nat) (ops : List Op) :
    ((fresh kr ke n).run ops).latest = countCommits ops ∧ Consistent ((fresh kr ke n).run ops) := by
  refine ⟨?_, (Consistent.fresh kr ke n).run _ ops⟩
  rw [run_latest]; simp [fresh]

/-- Reopening the database after a commit yields the latest version with exactly the committed
content in every substore, and an empty transient store. -/
theorem reopen_latest_content (m : RM) (hc : Consistent m) :
    ∃ m', m.commit.reopen = some m' ∧ m'.latest = m.latest + 1 ∧
      m'.subs.map (·.working) = m.subs.map (·.working) ∧ m'.trans = [] := by
  have hl : m.commit.latest = m.latest + 1 := rfl
  have hloaded : m.commit.subs.map (fun s => (savedAt s m.commit.latest).map (fun c => { s with working := c })) =
      m.subs.map (fun s => some { s.commit m.kr m.ke (m.latest + 1) with working := s.working }) := by
    simp only [RM.commit, List.map_map]
    apply List.map_congr_left
    intro s _
    simp [savedAt_commit]
  have hre : m.commit.reopen = some { m.commit with
      subs := m.subs.map (fun s => { s.commit m.kr m.ke (m.latest + 1) with working := s.working }), trans := [] } := by
    unfold RM.reopen
    simp only [hl, Nat.add_eq_zero_iff, Nat.succ_ne_self, and_false, beq_iff_eq, if_false]
    rw [hl] at hloaded
    rw [hloaded]
    simp [List.filterMap_map, Function.comp_def]
  refine ⟨_, hre, rfl, ?_, rfl⟩
  simp [List.map_map, Function.comp_def]

/-- Transient stores are empty after every commit. -/
theorem transient_empty_after_commit (m : RM) : m.commit.trans = [] := rfl

/-- The pruning policy in closed form, for every history, every number of substores and every
`(keepRecent, keepEvery)`: after `L` commits a fresh store can load version `v` iff
`v = L ∨ v ≥ L - keepRecent ∨ keepEvery ∣ v` (1 ≤ v ≤ L), and what it then sees is exactly the
content committed at `v` in every substore.  A pruned or never committed version is an error,
never data of another version. -/
theorem retained_closed_form (kr ke n : Nat) (hn : 1 ≤ n) (ops : List Op) (v : Nat) (hv : 1 ≤ v) :
    let m := (fresh kr ke n).run ops
    (retained kr ke (countCommits ops) v → m.load v = committedAt (fresh kr ke n) ops v ∧ (m.load v).isSome) ∧
    (¬ retained kr ke (countCommits ops) v → m.load v = none) := by
  intro m
  have hi := (Inv.run ops _ _ (Inv.fresh kr ke n)).congr (h' := fun v => committedAt (fresh kr ke n) ops v)
    (fun v h1 _ => by
      have : ¬ v ≤ (fresh kr ke n).latest := by simp [fresh]; omega
      simp only [this, if_false]; rfl)
  have hkr : m.kr = kr := run_kr _ _
  have hke : m.ke = ke := run_ke _ _
  have hl : m.latest = countCommits ops := by
    show ((fresh kr ke n).run ops).latest = _
    rw [run_latest]; simp [fresh]
  have hlen : 1 ≤ m.subs.length := by
    show 1 ≤ ((fresh kr ke n).run ops).subs.length
    rw [run_length]; simpa [fresh] using hn
  constructor
  · intro hr
    exact hi.load_kept v (by rw [hkr, hke, hl]; exact hr)
  · intro hr
    exact hi.load_dropped hlen v hv (by rw [hkr, hke, hl]; exact hr)

/-- Why `1 ≤ n` is needed in `retained_closed_form`: with no substores at all, loading a pruned
version trivially succeeds (there is nothing that could be missing). -/
example : ¬ retained 0 0 (countCommits [Op.commit, .commit]) 1 ∧
    ((fresh 0 0 0).run [.commit, .commit]).load 1 = some [] := by decide

/-- Non-vacuity of `retained_closed_form` (test): keepRecent 1, keepEvery 2, five commits of two substores. -/
example : (List.range 7).map ((((fresh 1 2 2).run
      [.set 0 [1] [1], .commit, .set 1 [2] [2], .commit, .del 0 [1], .commit, .commit, .set 0 [3] [3], .commit])).load ·) =
    [some [[([3], [3])], [([2], [2])]], none, some [[([1], [1])], [([2], [2])]], none,
     some [[], [([2], [2])]], some [[([3], [3])], [([2], [2])]], none] := by decide

/-- Non-vacuity (tests, labelled as such): the three shipped policies on a ten-commit history. -/
example : (List.range 11).filter (fun v => decide (retained 0 0 10 v)) = [10] := by decide
example : (List.range 11).filter (fun v => decide (retained 0 1 10 v)) = [1, 2, 3, 4, 5, 6, 7, 8, 9, 10] := by decide
example : (List.range 11).filter (fun v => decide (retained 2 3 10 v)) = [3, 6, 8, 9, 10] := by decide

end Posmint.Props.C12
