import Posmint.Lemmas.ChainInv
/-!
# C02 — Token conservation: supply equals balances; only mint/burn move it
-/
namespace Posmint.Props.C02
open Posmint.Chain

/-- In every state reachable from a consistent genesis the recorded supply equals the sum of
all account balances (user and module accounts), and no balance is negative (recorded balances
are strictly positive; absent means zero). -/
theorem supply_eq_balances (g : Genesis) (hg : GenesisOK g) (ops : List Op) (s' : State)
    (hr : run (genesis g).1 ops = some s') :
    s'.supply = sumBal s' ∧ ∀ e ∈ s'.bal, 0 < e.2 := by
  have h := reachable_inv g hg ops s' hr
  exact ⟨h.supply, h.wf.balPos⟩

/-- A transaction changes the supply only if it is a delivered, successful DAO burn, and then by
exactly the burnt amount.  Sends, staking, unstaking, unjailing, fee payment, parameter changes
and DAO transfers move tokens without creating or destroying any. -/
theorem tx_supply (s : State) (mode : Mode) (t : Tx) (h : Inv s) :
    (runTx s mode t).1.supply =
      s.supply - (if mode = .deliver ∧ (runTx s mode t).2 = true then t.msg.burnAmount else 0) :=
  (runTx_spec h.acct mode t).1.supply

/-- EndBlock (validator-set update and maturity pay-outs) creates and destroys nothing. -/
theorem end_supply (s s' : State) (ups : List (Addr × Int)) (h : Inv s) (he : endBlock s = some (s', ups)) :
    s'.supply = s.supply :=
  (endBlock_spec h.acct he).2.2.1

/-- BeginBlock changes the supply by exactly the queued awards (minted) minus the stake removed by
slashes, custom burns and forced unstakes (burnt): nothing else. -/
theorem begin_supply (s s' : State) (time : Int) (p : Addr) (votes : List Vote) (evs : List Evidence)
    (h : Inv s) (hb : beginBlock s time p votes evs = some s') :
    s'.supply = s.supply + awardSum s - (stakeSum s - stakeSum s') := by
  have := (beginBlock_spec h.acct h.pool hb).net
  omega

/-- Queueing an award or a burn, and Commit, move nothing. -/
theorem queue_ops_frame (s : State) (op : Op) (r : State × List (Addr × Int) × Bool)
    (hop : (∃ a x, op = .award a x) ∨ (∃ a x, op = .burn a x) ∨ op = .commit) (hs : step s op = some r) :
    r.1.supply = s.supply ∧ r.1.bal = s.bal := by
  rcases hop with ⟨a, x, rfl⟩ | ⟨a, x, rfl⟩ | rfl <;>
  · simp only [step, Option.some.injEq] at hs
    subst hs
    exact ⟨rfl, rfl⟩

end Posmint.Props.C02
