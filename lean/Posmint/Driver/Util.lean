/-! Line-protocol helpers (core only). -/
namespace Posmint.Driver

def words (s : String) : List String := (s.splitOn " ").filter (· ≠ "")

def showOpt (o : Option Int) : String := match o with | some v => s!"ok {v}" | none => "panic"
def showBool (b : Bool) : String := if b then "true" else "false"

def hexDigit (c : Char) : Option Nat :=
  if '0' ≤ c ∧ c ≤ '9' then some (c.toNat - '0'.toNat)
  else if 'a' ≤ c ∧ c ≤ 'f' then some (c.toNat - 'a'.toNat + 10)
  else if 'A' ≤ c ∧ c ≤ 'F' then some (c.toNat - 'A'.toNat + 10)
  else none

/-- Decode lowercase hex ("-" is the empty string). -/
def unhex (s : String) : Option (List Nat) :=
  if s = "-" then some [] else
  let rec go : List Char → Option (List Nat)
    | [] => some []
    | [_] => none
    | a :: b :: rest => do
      let x ← hexDigit a; let y ← hexDigit b; let r ← go rest; pure ((x * 16 + y) :: r)
  go s.toList

def hexNib (n : Nat) : Char := if n < 10 then Char.ofNat (n + 48) else Char.ofNat (n - 10 + 97)
def hex (bs : List Nat) : String :=
  if bs.isEmpty then "-" else String.ofList (bs.flatMap fun b => [hexNib (b / 16), hexNib (b % 16)])

end Posmint.Driver
