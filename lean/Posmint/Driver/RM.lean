import Posmint.Model.RootMulti
import Posmint.Driver.Util
namespace Posmint.Driver
open Posmint.RM Posmint.KV

structure RMProg where
  m : RM
  pend : List (List String)
  dead : Bool

def rmEmpty : RMProg := { m := { kr := 0, ke := 0, subs := [], trans := [], latest := 0, infos := [] }, pend := [], dead := true }

def showItemsRM (l : Items) : String :=
  "[" ++ ",".intercalate (l.map fun kv => hex kv.1 ++ "=" ++ hex kv.2) ++ "]"

def showDump (subs : List Items) (trans : Items) : String :=
  " ".intercalate (((List.range subs.length).zip subs).map fun e => s!"s{e.1}{showItemsRM e.2}") ++ s!" t{showItemsRM trans}"

def kvNat (toks : List String) (k : String) : Nat :=
  match toks.find? (fun t => t.startsWith (k ++ "=")) with
  | some t => ((String.ofList (t.toList.drop (k.length + 1))).toNat?).getD 0
  | none => 0

def applyWrite (m : RM) : List String → RM
  | ["set", "t", k, v] => match unhex k, unhex v with
    | some k, some v => { m with trans := kvSet m.trans k v }
    | _, _ => m
  | ["del", "t", k] => match unhex k with
    | some k => { m with trans := kvDel m.trans k }
    | none => m
  | ["set", i, k, v] => match i.toNat?, unhex k, unhex v with
    | some i, some k, some v => { m with subs := m.subs.modify i (fun s => { s with working := kvSet s.working k v }) }
    | _, _, _ => m
  | ["del", i, k] => match i.toNat?, unhex k with
    | some i, some k => { m with subs := m.subs.modify i (fun s => { s with working := kvDel s.working k }) }
    | _, _ => m
  | _ => m

def stepRM (p : RMProg) (toks : List String) : RMProg × String :=
  match toks with
  | "new" :: rest =>
    let n := kvNat rest "n"
    ({ m := { kr := kvNat rest "kr", ke := kvNat rest "ke", subs := List.replicate n { working := [], saved := [] },
              trans := [], latest := 0, infos := [] }, pend := [], dead := false }, "ok")
  | _ =>
    if p.dead then (p, "dead") else
    match toks with
    | "set" :: _ | "del" :: _ =>
      let isT := toks.getD 1 "" == "t"
      ({ p with m := applyWrite p.m toks, pend := if isT then p.pend else p.pend ++ [toks] }, "ok")
    | ["commit"] =>
      let m := p.m.commit
      ({ p with m := m, pend := [] }, s!"v={m.latest}")
    | ["replay"] =>
      let m := (p.pend.foldl applyWrite p.m).commit
      ({ p with m := m, pend := [] }, s!"v={m.latest}")
    | ["crashcommit", k] =>
      let k := (k.toNat?).getD 0
      if k ≥ p.m.totalBatches then
        let m := p.m.commit
        ({ p with m := m, pend := [] }, s!"done v={m.latest}")
      else match p.m.crashReopen k with
        | none => ({ p with dead := true }, "crashed reopen-err")
        | some m => ({ p with m := m }, s!"crashed reopen-ok v={m.latest} {showDump (m.subs.map (·.working)) m.trans}")
    | ["reopen"] =>
      match p.m.reopen with
      | none => ({ p with dead := true }, "err")
      | some m => ({ p with m := m, pend := [] }, s!"v={m.latest} {showDump (m.subs.map (·.working)) m.trans}")
    | ["load", v] =>
      match p.m.load ((v.toNat?).getD 0) with
      | none => (p, "err")
      | some cs => (p, s!"ok {showDump cs []}")
    | ["snapshot", v] =>   -- a copy of the multistore loaded at a height: reads what `load` reads, changes nothing
      match p.m.load ((v.toNat?).getD 0) with
      | none => (p, "err")
      | some cs => (p, s!"ok {showDump cs []}")
    | ["query", i, key, h, prove] =>
      match unhex key with
      | none => (p, "bad-op")
      | some key =>
        match p.m.query ((i.toNat?).getD 0) key ((h.toNat?).getD 0) (prove == "1") with
        | none => (p, "err")
        | some (v, pr) =>
          (p, (match v with | some x => "val " ++ hex x | none => "nil") ++ (if pr then " proof" else ""))
    | _ => (p, "bad-op")

end Posmint.Driver
