import Posmint.Model.Arith
import Posmint.Driver.Util
import Posmint.Driver.Coins
namespace Posmint.Driver
open Posmint.Arith

def bin (f : Int → Int → Option Int) (a b : String) : String :=
  match a.toInt?, b.toInt? with
  | some x, some y => showOpt (f x y)
  | _, _ => "bad-op"
def un (f : Int → Option Int) (a : String) : String :=
  match a.toInt? with
  | some x => showOpt (f x)
  | _ => "bad-op"

def cmpLine (a b : String) : String :=
  match a.toInt?, b.toInt? with
  | some x, some y =>
    let f (c : Bool) : String := if c then "1" else "0"
    s!"ok gt={f (decide (x > y))} gte={f (decide (x ≥ y))} lt={f (decide (x < y))} lte={f (decide (x ≤ y))} eq={f (decide (x = y))}"
  | _, _ => "bad-op"

def stepArith : List String → String
  -- the variants with a machine-integer operand are the same function of that integer
  | ["int.addraw", a, b] => bin intAdd a b
  | ["int.subraw", a, b] => bin intSub a b
  | ["int.mulraw", a, b] => bin intMul a b
  | ["int.quoraw", a, b] => bin intQuo a b
  | ["int.modraw", a, b] => bin intMod a b
  | ["uint.adduint64", a, b] => bin uintAdd a b
  | ["uint.subuint64", a, b] => bin uintSub a b
  | ["uint.muluint64", a, b] => bin uintMul a b
  | ["uint.quouint64", a, b] => bin uintQuo a b
  | ["dec.mulint64", a, b] => bin decMulInt a b
  | ["dec.quoint64", a, b] => bin decQuoInt a b
  | ["int.cmp", a, b] => cmpLine a b
  | ["uint.cmp", a, b] => cmpLine a b
  | ["dec.cmp", a, b] => cmpLine a b
  | ["int.add", a, b] => bin intAdd a b
  | ["int.sub", a, b] => bin intSub a b
  | ["int.mul", a, b] => bin intMul a b
  | ["int.quo", a, b] => bin intQuo a b
  | ["int.mod", a, b] => bin intMod a b
  | ["int.neg", a] => un (fun x => some (intNeg x)) a
  | ["int.int64", a] => un intInt64 a
  | ["uint.add", a, b] => bin uintAdd a b
  | ["uint.sub", a, b] => bin uintSub a b
  | ["uint.mul", a, b] => bin uintMul a b
  | ["uint.quo", a, b] => bin uintQuo a b
  | ["dec.add", a, b] => bin decAdd a b
  | ["dec.sub", a, b] => bin decSub a b
  | ["dec.mul", a, b] => bin decMul a b
  | ["dec.multrunc", a, b] => bin decMulTruncate a b
  | ["dec.mulint", a, b] => bin decMulInt a b
  | ["dec.quo", a, b] => bin decQuo a b
  | ["dec.quotrunc", a, b] => bin decQuoTruncate a b
  | ["dec.quoroundup", a, b] => bin decQuoRoundUp a b
  | ["dec.quoint", a, b] => bin decQuoInt a b
  | ["dec.roundint", a] => un decRoundInt a
  | ["dec.truncint", a] => un decTruncateInt a
  | ["dec.roundint64", a] => un decRoundInt64 a
  | ["dec.truncint64", a] => un decTruncateInt64 a
  | ["dec.truncdec", a] => un (fun x => some (decTruncateDec x)) a
  | ["dec.ceil", a] => un (fun x => some (decCeil x)) a
  | ["dec.isint", a] => (match a.toInt? with | some x => showBool (decIsInteger x) | none => "bad-op")
  | ["dec.fromint", a] => un (fun x => some (decFromInt x)) a
  | toks => stepCoins toks

end Posmint.Driver
