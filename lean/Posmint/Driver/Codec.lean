import Posmint.Model.Codec
import Posmint.Generated
import Posmint.Driver.Util
namespace Posmint.Driver
open Posmint.Codec

structure CodecProg where
  sendPrefix : Bytes

def hx (b : Bytes) : String := hex b

def parseCoinTok (t : String) : Option Coin :=
  match t.splitOn ":" with
  | [d, a] => match unhex d, a.toInt? with
    | some d, some a => some { denom := d, amount := a }
    | _, _ => none
  | _ => none

/-- a field of a flat message: `b:<hex>` bytes as they are, `i:<int>` an Int as its decimal text -/
def parseFieldTok (t : String) : Option Bytes :=
  match t.splitOn ":" with
  | ["b", h] => unhex h
  | ["i", a] => a.toInt?.map intText
  | _ => none

/-- a field of a struct: `b:<hex>` bytes, `i:<int>` an Int as text, `u:<nat>` a varint, `s:<int>` an int64 as its two's
complement varint, `t:<secs>:<nanos>` a time, `k:<prefix>:<key>` a registered key (prefix bytes, then the key length-delimited) -/
def parseFldTok (t : String) : Option Fld :=
  match t.splitOn ":" with
  | ["b", h] => (unhex h).map Fld.bytes
  | ["i", a] => a.toInt?.map fun x => Fld.bytes (intText x)
  | ["u", n] => n.toNat?.map Fld.uint
  | ["s", a] => a.toInt?.map fun x => Fld.uint (toU64 x)
  | ["t", a, n] => match a.toInt?, n.toNat? with
    | some a, some n => some (Fld.bytes (encodeTime a n))
    | _, _ => none
  | ["p", h, v] => match h.toInt?, unhex v with   -- an upgrade plan: a nested struct of height (int64) and version
    | some h, some v => some (Fld.bytes (encodeStruct 1 [Fld.uint (toU64 h), Fld.bytes v]))
    | _, _ => none
  | ["k", p, k] => match unhex p, unhex k with
    | some p, some k => some (Fld.bytes (p ++ lenPrefixed k))
    | _, _ => none
  | _ => none

def stepCodec (p : CodecProg) (toks : List String) : CodecProg × String :=
  match toks with
  | ["reg", "send", h] => match unhex h with
    | some b => ({ p with sendPrefix := b }, "ok")
    | none => (p, "bad-op")
  | ["uv", n] => (p, match n.toNat? with | some n => hx (uvarint n) | none => "bad-op")
  | ["uvd", h] => (p, match unhex h with
    | some b => (match decodeUvarint b with | some (n, r) => s!"ok {n} {hx r}" | none => "err")
    | none => "bad-op")
  | ["vi", i] => (p, match i.toInt? with | some i => hx (varint i) | none => "bad-op")
  | ["vid", h] => (p, match unhex h with
    | some b => (match decodeVarint b with | some (n, r) => s!"ok {n} {hx r}" | none => "err")
    | none => "bad-op")
  | ["int.text", i] => (p, match i.toInt? with | some i => hx (intText i) | none => "bad-op")
  | ["int.parse", h] => (p, match unhex h with
    | some b => (match parseIntText b with | some i => s!"ok {i}" | none => "err")
    | none => "bad-op")
  | ["coin.parse", h] => (p, match unhex h with
    | some b => (match parseCoinText b with | some (d, n) => s!"ok {hx d}:{n}" | none => "err")
    | none => "bad-op")
  | ["coin.text", t] => (p, match parseCoinTok t with
    | some c => if c.amount < 0 then "bad-op" else hx (coinText c.denom c.amount.toNat)
    | none => "bad-op")
  | ["coin", t] => (p, match parseCoinTok t with | some c => hx (encodeCoin c) | none => "bad-op")
  | ["coin.dec", h] => (p, match unhex h with
    | some b => (match decodeCoin b with | some c => s!"ok {hx c.denom}:{c.amount}" | none => "err")
    | none => "bad-op")
  | "coins" :: ts => (p, match ts.mapM parseCoinTok with | some cs => hx (encodeCoins cs) | none => "bad-op")
  | ["coins.dec", h] => (p, match unhex h with
    | some b => (match decodeCoins b with
      | some cs => " ".intercalate ("ok" :: cs.map fun c => s!"{hx c.denom}:{c.amount}")
      | none => "err")
    | none => "bad-op")
  | ["msgsend", a, b, amt] => (p, match unhex a, unhex b, amt.toInt? with
    | some a, some b, some amt => hx (encodeMsgSend p.sendPrefix { src := a, dst := b, amount := amt })
    | _, _, _ => "bad-op")
  | "amsg" :: _ :: pre :: toks => (p, match unhex pre, toks.mapM parseFieldTok with
    | some pre, some fs => "ok " ++ hx (encodeFlatMsg pre fs)
    | _, _ => "bad-op")
  | ["astruct", "val", a, k, j, st, tok, t] =>   -- through `encodeValidator`, the function `C20.validator_injective` speaks about
    (p, match a.splitOn ":", k.splitOn ":", j.splitOn ":", st.splitOn ":", tok.splitOn ":", t.splitOn ":" with
      | ["b", a], ["k", kp, kk], ["u", j], ["u", st], ["i", tok], ["t", s, n] =>
        (match unhex a, unhex kp, unhex kk, j.toNat?, st.toNat?, tok.toInt?, s.toInt?, n.toNat? with
        | some a, some kp, some kk, some j, some st, some tok, some s, some n =>
          "ok " ++ hx (encodeValidator { addr := a, pk := kp ++ lenPrefixed kk, jailed := j != 0, status := st, tokens := tok, secs := s, nanos := n })
        | _, _, _, _, _, _, _, _ => "bad-op")
      | _, _, _, _, _, _ => "bad-op")
  | ["astruct", "sign", a, sh, off, t, tomb, miss] =>   -- through `encodeSigning`
    (p, match a.splitOn ":", sh.splitOn ":", off.splitOn ":", t.splitOn ":", tomb.splitOn ":", miss.splitOn ":" with
      | ["b", a], ["s", sh], ["s", off], ["t", s, n], ["u", tomb], ["s", miss] =>
        (match unhex a, sh.toInt?, off.toInt?, s.toInt?, n.toNat?, tomb.toNat?, miss.toInt? with
        | some a, some sh, some off, some s, some n, some tomb, some miss =>
          "ok " ++ hx (encodeSigning { addr := a, start := sh, offset := off, secs := s, nanos := n, tombstoned := tomb != 0, missed := miss })
        | _, _, _, _, _, _, _ => "bad-op")
      | _, _, _, _, _, _ => "bad-op")
  | "astdtx" :: pre :: m :: pk :: sg :: memo :: ent :: coins =>
    (p, match unhex pre, unhex m, unhex pk, unhex sg, unhex memo, ent.toInt?, coins.mapM parseCoinTok with
      | some pre, some m, some pk, some sg, some memo, some ent, some fee =>
        "ok " ++ hx (encodeStdTx pre { msg := m, fee := fee, pk := pk, sig := sg, memo := memo, entropy := ent })
      | _, _, _, _, _, _, _ => "bad-op")
  | "aacct" :: pre :: a :: pk :: coins =>
    (p, match unhex pre, unhex a, unhex pk, coins.mapM parseCoinTok with
      | some pre, some a, some pk, some cs => "ok " ++ hx (encodeAccount pre { addr := a, coins := cs, pk := pk })
      | _, _, _, _ => "bad-op")
  | "amsg2" :: _ :: pre :: toks => (p, match unhex pre, toks.mapM parseFldTok with   -- a registered message with a key or a nested plan
    | some pre, some fs => "ok " ++ hx (pre ++ encodeStruct 1 fs)
    | _, _ => "bad-op")
  | "astruct" :: _ :: toks => (p, match toks.mapM parseFldTok with
    | some fs => "ok " ++ hx (encodeStruct 1 fs)
    | none => "bad-op")
  | ["pkey", pw, a] => (p, match pw.toNat?, unhex a with
    | some pw, some a => hx (powerKey Posmint.Generated.stakedValidatorsKey pw a)
    | _, _ => "bad-op")
  | ["pkey.parse", h] => (p, match unhex h with
    | some b => (match parsePowerKey b with | some (pw, a) => s!"ok {pw} {hx a}" | none => "err")
    | none => "bad-op")
  | ["tkey", ns] => (p, match ns.toInt? with
    | some ns => hx (timeKey Posmint.Generated.unstakingValidatorsKey ns)
    | none => "bad-op")
  -- the same instant in another time zone: the key is a function of the instant alone
  | ["tkeyz", ns, _] => (p, match ns.toInt? with
    | some ns => hx (timeKey Posmint.Generated.unstakingValidatorsKey ns)
    | none => "bad-op")
  | ["hexaddr", h] => (p, match unhex h with
    | some b => (match hexDecode (hexEncode b) with | some b' => String.ofList ((hexEncode b).map Char.ofNat) ++ " " ++ hx b' | none => "err")
    | none => "bad-op")
  | t :: _ => if t.startsWith "mon." then (p, "done") else (p, "bad-op")   -- monitor-only operations: checked on the Go side
  | _ => (p, "bad-op")

end Posmint.Driver
