import Posmint.Model.Chain
import Posmint.Generated
import Posmint.Driver.Util
namespace Posmint.Driver
open Posmint.Chain

def kvOf (toks : List String) (k : String) : String :=
  match toks.find? (fun t => t.startsWith (k ++ "=")) with
  | some t => String.ofList (t.toList.drop (k.length + 1))
  | none => ""

def intOf (toks : List String) (k : String) : Int := ((kvOf toks k).toInt?).getD 0

def joinSep (sep : String) (l : List String) : String := sep.intercalate l

def showUps (ups : List (Addr × Int)) : String :=
  "[" ++ joinSep "," (ups.map fun u => s!"{u.1}:{u.2}") ++ "]"

def b01 (b : Bool) : String := if b then "1" else "0"

/-- the canonical state text; must equal `Snapshot.String()` of the harness -/
def showState (s : State) : String :=
  "bal[" ++ joinSep "," (s.bal.map fun e => s!"{e.1}={e.2}upokt") ++
  "] sup[" ++ (if s.supply == 0 then "" else s!"{s.supply}upokt") ++
  "] val[" ++ joinSep "," (s.vals.map fun e => s!"{e.1}={e.2.status}:{b01 e.2.jailed}:{e.2.tokens}:{e.2.unstake}") ++
  "] idx[" ++ joinSep "," (s.idx.map fun e => s!"{e.1}:{e.2}") ++
  "] prev[" ++ joinSep "," (s.prev.map fun e => s!"{e.1}={e.2}") ++
  "] q[" ++ joinSep "," (s.queue.map fun e => s!"{e.1}=" ++ joinSep "/" e.2) ++
  "] si[" ++ joinSep "," (s.sign.map fun e => s!"{e.1}={e.2.start}:{e.2.offset}:{e.2.missed}:{e.2.jailedUntil}:{b01 e.2.tomb}") ++
  "] mb[" ++ joinSep "," (s.missedBits.map fun e => s!"{e.1.1}:{e.1.2}={b01 e.2}") ++
  "] aw[" ++ joinSep "," (s.awards.map fun e => s!"{e.1}={e.2}") ++
  "] bn[" ++ joinSep "," (s.burns.map fun e => s!"{e.1}={e.2}") ++
  s!"] prop={s.proposer} ptot={s.prevTot}" ++
  -- the second denomination, only when somebody holds some (older histories print as before)
  (if s.bal2.isEmpty && s.supply2 == 0 then "" else
    " b2[" ++ joinSep "," (s.bal2.map fun e => s!"{e.1}={e.2}") ++ s!"] s2={s.supply2}") ++
  -- the governance-controlled state: the tracked parameters, the DAO owner, the upgrade plan, the access-control list
  s!" gov[ms={s.p.minStake},mv={s.p.maxVals},ut={s.p.unstakingTime},w={s.p.window},mspw={s.p.minSignedRaw},jd={s.p.jailDur}," ++
  s!"mea={s.p.maxAge},sfds={s.p.sfDouble},sfdt={s.p.sfDown},memo={s.p.maxMemo},tsl={s.p.txSigLimit},fm={joinSep ";" (s.p.feeMults.map fun e => s!"{e.1}:{e.2}")}/{s.p.feeDefault},daoo={s.daoOwner},upg={s.upgrade.1}:{s.upgrade.2}]" ++
  " acl[" ++ joinSep "," (s.acl.map fun e => s!"{e.1}={e.2}") ++ "]" ++
  -- which of the key addresses have an account, and which of those accounts carry a public key
  " ac[" ++ joinSep "," ((s.accts.map (·.1)).filter fun a => s.keys.any (·.2 == a)) ++ "]" ++
  " pk[" ++ joinSep "," ((s.accts.map (·.1)).filter fun a => s.keys.any (·.2 == a) && s.keyed.contains a) ++ "]"

structure ChainProg where
  st : Option State     -- none = no chain / halted

/-- the registered parameters of the three modules, regenerated from the `ParamSetPairs` of the source on every run -/
def allParamNames : List String := Posmint.Generated.allParamNames

/-- walk the `acc a b` / `val a t j` groups of an init line -/
def parseGenesis : List String → List (Addr × Int) × List (Addr × Int)
  | "acc" :: a :: b :: rest =>
    let (accs, vals) := parseGenesis rest
    ((a, (b.toInt?).getD 0) :: accs, vals)
  | "val" :: a :: t :: _ :: rest =>
    let (accs, vals) := parseGenesis rest
    (accs, (a, (t.toInt?).getD 0) :: vals)
  | _ :: rest => parseGenesis rest
  | [] => ([], [])

/-- balances in the second denomination: `acc2 <addr> <amount>` -/
def parseAccs2 : List String → List (Addr × Int)
  | "acc2" :: a :: b :: rest => (a, (b.toInt?).getD 0) :: parseAccs2 rest
  | _ :: rest => parseAccs2 rest
  | [] => []

/-- exported signing infos: `si <addr> <start> <offset> <missed> <jailedUntil ns, -1 = for ever> <tombstoned 0|1>` -/
def parseSigning : List String → List (Addr × Sign)
  | "si" :: a :: st :: off :: ms :: ju :: tb :: rest =>
    (a, { start := (st.toInt?).getD 0, offset := (off.toInt?).getD 0, missed := (ms.toInt?).getD 0,
          jailedUntil := (ju.toInt?).getD 0, tomb := tb == "1" }) :: parseSigning rest
  | _ :: rest => parseSigning rest
  | [] => []

/-- exported missed-block entries: `mb <addr> <index> <0|1>` -/
def parseMissed : List String → List ((Addr × Int) × Bool)
  | "mb" :: a :: i :: b :: rest => ((a, (i.toInt?).getD 0), b == "1") :: parseMissed rest
  | _ :: rest => parseMissed rest
  | [] => []

/-- `ksh=<shape>;<shape>;…`: the shape of every key in index order, `p` a plain key, `m(..,..)` a multisignature key
over its components; the number of keys below a key is the number of `p` and `m` in its shape, less itself -/
def keyNodesOf (ksh : String) : List (Nat × Nat) :=
  if ksh == "" then [] else
  let shapes := ksh.splitOn ";"
  (List.range shapes.length).zip (shapes.map fun sh => (sh.toList.filter fun c => c == 'p' || c == 'm').length - 1)

def initState (toks : List String) (mods keys : List String) : State × List (Addr × Int) :=
  let (accs, vals) := parseGenesis toks
  let i := intOf toks
  let p : Params := {
    minStake := i "ms", maxVals := i "mv", unstakingTime := i "ut", window := i "w", minSignedRaw := i "mspw",
    jailDur := i "jd", maxAge := i "mea", sfDouble := i "sfds", sfDown := i "sfdt", feeBase := i "fee",
    maxMemo := Posmint.Generated.defaultMaxMemoCharacters, txSigLimit := Posmint.Generated.defaultTxSigLimit,
    feeChangeParam := Posmint.Generated.govFeeChangeParam, feeDao := Posmint.Generated.govFeeDAOTransfer,
    feeUpgrade := Posmint.Generated.govFeeUpgrade }
  genesis { accs := accs, vals := vals, p := p, daoTokens := i "daot", daoOwner := kvOf toks "daoo", aclOwner := kvOf toks "aclo",
            paramNames := allParamNames, pool := mods.getD 0 "", feeAcc := mods.getD 1 "", posAcc := mods.getD 2 "",
            daoAcc := mods.getD 3 "", keys := (List.range keys.length).zip keys, nStored := (if kvOf toks "stored" == "" then keys.length else (intOf toks "stored").toNat),
            defaultMaxVals := Posmint.Generated.defaultMaxValidators,
            signing := parseSigning toks, missed := parseMissed toks, accs2 := parseAccs2 toks,
            keyNodes := keyNodesOf (kvOf toks "ksh") }

def parseVotes (s : String) : List Vote :=
  if s == "-" || s == "" then [] else
  (s.splitOn ",").filterMap fun x =>
    match x.splitOn ":" with
    | [a, p, sg] => some { addr := a, power := (p.toInt?).getD 0, signed := sg == "1" }
    | _ => none

def parseEvidence (s : String) : List Evidence :=
  if s == "-" || s == "" then [] else
  (s.splitOn ",").filterMap fun x =>
    match x.splitOn ":" with
    | [a, h, t, p] => some { addr := a, height := (h.toInt?).getD 0, time := (t.toInt?).getD 0, power := (p.toInt?).getD 0 }
    | _ => none

def hexVal (h : String) : String :=
  match unhex h with
  | some bs => String.ofList (bs.map Char.ofNat)
  | none => ""

def parseMsg (toks : List String) : Option Msg :=
  let g := kvOf toks
  let n := intOf toks
  match g "k" with
  | "stake" => some (.stake (n "key").toNat (n "amt"))
  | "unstake" => some (.unstake (g "addr"))
  | "unjail" => some (.unjail (g "addr"))
  | "send" => some (.send (g "from") (g "to") (n "amt"))
  | "changeparam" =>
    some (.changeParam (g "from") (g "key") (if g "val" == "" then "" else hexVal (g "val")))
  | "daotransfer" => some (.daoTransfer (g "from") (g "to") (n "amt"))
  | "daoburn" => some (.daoBurn (g "from") (n "amt"))
  | "upgrade" => some (.upgrade (g "from") (n "h") (g "ver"))
  | _ => none

def stepChain (pr : ChainProg) (toks : List String) : ChainProg × String :=
  match toks with
  | "init" :: rest =>
    -- module account addresses and the key table are passed on the line: mods=<a,b,c,d> keys=<a,...>
    let mods := (kvOf rest "mods").splitOn ","
    let keys := (kvOf rest "keys").splitOn ","
    let (s, ups) := initState rest mods keys
    ({ st := some s }, s!"ok ups={showUps ups} | {showState s}")
  | "mon.glue" :: _ =>
    -- an implementation-side monitor (genesis validation, error results): nothing for the model to do
    match pr.st with
    | none => (pr, "dead")
    | some _ => (pr, "done")
  | "mon.query" :: _ =>
    -- an implementation-side monitor (store queries through the ABCI interface): nothing for the model to do
    match pr.st with
    | none => (pr, "dead")
    | some _ => (pr, "done")
  | "mon.export" :: _ =>
    -- an implementation-side monitor (two fresh instances restarted from the exported state): nothing for the model to do
    match pr.st with
    | none => (pr, "dead")
    | some _ => (pr, "done")
  | _ =>
    match pr.st with
    | none => (pr, "dead")
    | some s =>
      let op? : Option Op :=
        match toks with
        | "begin" :: rest => some (.begin (intOf rest "t") (kvOf rest "p") (parseVotes (kvOf rest "v")) (parseEvidence (kvOf rest "e")))
        | ["end"] => some .endBlock
        | ["commit"] => some .commit
        | ["award", a, amt] => some (.award a ((amt.toInt?).getD 0))
        | ["burn", a, raw] => some (.burn a ((raw.toInt?).getD 0))
        | "tx" :: mode :: rest =>
          (parseMsg rest).map fun m =>
            let t : Tx := { msg := m, signer := (intOf rest "signer").toNat, pk := kvOf rest "pk" == "1", fee := intOf rest "fee",
                            memo := (intOf rest "memo").toNat,
                            -- the multisignature-specific damages (components exchanged / one dropped) are signature damage
                            -- white space added to the memo is a memo change; a changed message field or a signature made for
                            -- another chain id is a signature that does not match the sign bytes
                            fee2 := (if kvOf rest "fee2" == "" then 0 else intOf rest "fee2"),
                            mutn := (let m := kvOf rest "mut"
                                     if m == "nilint" then "garbage"   -- the amount is absent from the wire: ValidateBasic panics, the tx is refused
                                     else if m == "msswap" || m == "msdrop" || m == "msdup" || m == "siglong" || m == "msg" || m == "chain" then "sig"
                                     else if m == "memosp" || m == "memopre" then "memo" else m), id := " ".intercalate rest }
            .tx (if mode == "check" then Mode.check else if mode == "simulate" then Mode.simulate else Mode.deliver) t
        | _ => none
      match op? with
      | none => (pr, "bad-op")
      | some op =>
        match step s op with
        | none => ({ st := none }, "halt | dead")
        | some (s', ups, ok) =>
          let head := match op with
            | .endBlock => s!"ok ups={showUps ups}"
            | .tx _ _ => if ok then "ok" else "err"
            | _ => "ok"
          ({ st := some s' }, s!"{head} | {showState s'}")

end Posmint.Driver
