import Posmint.Model.Coins
import Posmint.Model.DecCoins
import Posmint.Driver.Util
namespace Posmint.Driver
open Posmint.Coins

def parseCoinsText (s : String) : Option Coins :=
  if s == "-" then some []
  else (s.splitOn ",").mapM fun item =>
    match item.splitOn ":" with
    | [d, a] => a.toInt?.map fun x => (d, x)
    | _ => none

def showCoins (cs : Coins) : String :=
  if cs.isEmpty then "-" else ",".intercalate (cs.map fun c => s!"{c.1}:{c.2}")

def showOptCoins : Option Coins → String
  | some cs => "ok " ++ showCoins cs
  | none => "panic"

def showOptBool : Option Bool → String
  | some b => showBool b
  | none => "panic"

def cbin (f : Coins → Coins → String) (a b : String) : String :=
  match parseCoinsText a, parseCoinsText b with
  | some x, some y => f x y
  | _, _ => "bad-op"

def cdec (f : Coins → Int → Option Coins) (a d : String) : String :=
  match parseCoinsText a, d.toInt? with
  | some x, some y => showOptCoins (f x y)
  | _, _ => "bad-op"

def stepCoins : List String → String
  | ["coins.valid", a] => (match parseCoinsText a with | some x => showBool (isValid x) | none => "bad-op")
  | ["coins.new", a] => (match parseCoinsText a with | some x => showOptCoins (newCoins x) | none => "bad-op")
  | ["coins.iszero", a] => (match parseCoinsText a with | some x => showBool (isZero x) | none => "bad-op")
  | ["coins.add", a, b] => cbin (fun x y => showOptCoins (add x y)) a b
  | ["coins.sub", a, b] => cbin (fun x y => showOptCoins (sub x y)) a b
  | ["coins.safesub", a, b] => cbin (fun x y => match safeSub x y with
      | some (d, neg) => s!"ok {showCoins d} neg={showBool neg}" | none => "panic") a b
  | ["coins.amountof", a, d] => (match parseCoinsText a with | some x => showOpt (amountOf x d) | none => "bad-op")
  | ["coins.allgt", a, b] => cbin (fun x y => showOptBool (isAllGT x y)) a b
  | ["coins.allgte", a, b] => cbin (fun x y => showOptBool (isAllGTE x y)) a b
  | ["coins.alllt", a, b] => cbin (fun x y => showOptBool (isAllLT x y)) a b
  | ["coins.alllte", a, b] => cbin (fun x y => showOptBool (isAllLTE x y)) a b
  | ["coins.anygt", a, b] => cbin (fun x y => showOptBool (isAnyGT x y)) a b
  | ["coins.anygte", a, b] => cbin (fun x y => showOptBool (isAnyGTE x y)) a b
  | ["coins.subset", a, b] => cbin (fun x y => showOptBool (denomsSubsetOf x y)) a b
  | ["coins.isequal", a, b] => cbin (fun x y => showOptBool (isEqual x y)) a b
  | ["dcoins.add", a, b] => cbin (fun x y => showOptCoins (DecCoins.add x y)) a b
  | ["dcoins.sub", a, b] => cbin (fun x y => showOptCoins (DecCoins.sub x y)) a b
  | ["dcoins.safesub", a, b] => cbin (fun x y => match DecCoins.safeSub x y with
      | some (d, neg) => s!"ok {showCoins d} neg={showBool neg}" | none => "panic") a b
  | ["dcoins.intersect", a, b] => cbin (fun x y => showOptCoins (DecCoins.intersect x y)) a b
  | ["dcoins.amountof", a, d] => (match parseCoinsText a with | some x => showOpt (DecCoins.amountOf x d) | none => "bad-op")
  | ["dcoins.muldec", a, d] => cdec DecCoins.mulDec a d
  | ["dcoins.muldectrunc", a, d] => cdec DecCoins.mulDecTruncate a d
  | ["dcoins.quodec", a, d] => cdec DecCoins.quoDec a d
  | ["dcoins.quodectrunc", a, d] => cdec DecCoins.quoDecTruncate a d
  | ["dcoins.trunc", a] => (match parseCoinsText a with
      | some x => (match DecCoins.truncateDecimal x with
        | some (w, ch) => s!"ok {showCoins w} | {showCoins ch}" | none => "panic")
      | none => "bad-op")
  | t :: _ => if t.startsWith "mon." then "done" else "bad-op"   -- monitor-only operations (DecCoins): checked on the Go side
  | _ => "bad-op"

end Posmint.Driver
