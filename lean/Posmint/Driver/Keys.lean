import Posmint.Model.Keys
import Posmint.Driver.Util
namespace Posmint.Driver
open Posmint.Keys

/-! tree syntax: pk ::= L<n> | M(pk,…) ; sig ::= s<n>.<m> | S(sig,…) | g | e -/

def takeNat (cs : List Char) : Nat × List Char :=
  let ds := cs.takeWhile Char.isDigit
  (ds.foldl (fun a c => a * 10 + (c.toNat - 48)) 0, cs.dropWhile Char.isDigit)

mutual
def parsePK : Nat → List Char → Option (PK × List Char)
  | 0, _ => none
  | _ + 1, 'L' :: rest => let (n, r) := takeNat rest; some (.leaf n, r)
  | fuel + 1, 'M' :: '(' :: rest => (parsePKs fuel rest).map fun (ks, r) => (.multi ks, r)
  | _, _ => none
def parsePKs : Nat → List Char → Option (List PK × List Char)
  | 0, _ => none
  | _ + 1, ')' :: rest => some ([], rest)
  | fuel + 1, cs =>
    match parsePK fuel cs with
    | some (k, ',' :: r) => (parsePKs fuel r).map fun (ks, r') => (k :: ks, r')
    | some (k, ')' :: r) => some ([k], r)
    | _ => none
end

mutual
def parseSig : Nat → List Char → Option (Sig × List Char)
  | 0, _ => none
  | _ + 1, 's' :: rest =>
    let (n, r) := takeNat rest
    match r with
    | '.' :: r' => let (m, r'') := takeNat r'; some (.leaf n m, r'')
    | _ => none
  | _ + 1, 'g' :: rest => some (.garbage, rest)
  | _ + 1, 'e' :: rest => some (.garbage, rest)
  | fuel + 1, 'S' :: '(' :: rest => (parseSigs fuel rest).map fun (ss, r) => (.multi ss, r)
  | _, _ => none
def parseSigs : Nat → List Char → Option (List Sig × List Char)
  | 0, _ => none
  | _ + 1, ')' :: rest => some ([], rest)
  | fuel + 1, cs =>
    match parseSig fuel cs with
    | some (s, ',' :: r) => (parseSigs fuel r).map fun (ss, r') => (s :: ss, r')
    | some (s, ')' :: r) => some ([s], r)
    | _ => none
end

structure KeysProg where
  kb : KB
  armors : List (Nat × Armor)
  objs : List Nat := []        -- keys whose raw private key the harness holds (every key it created)

def stepKeys (p : KeysProg) (toks : List String) : KeysProg × String :=
  let out (r : KB × KOut) (p : KeysProg) : KeysProg × String :=
    ({ p with kb := r.1 }, match r.2 with
      | .ok => "ok" | .err => "err" | .sig _ => "sig" | .armor _ => "armor" | .key k => s!"key {k}"
      | .keys ks => "keys " ++ ",".intercalate (ks.map toString))
  match toks with
  | ["ms", pk, m, sg] =>
    match parsePK 64 pk.toList, m.toNat?, parseSig 64 sg.toList with
    | some (k, []), some m, some (s, []) => (p, showBool (verify k m s))
    | _, _, _ => (p, "bad-op")
  | "mon.foreignkey" :: _ => (p, "done")   -- implementation-side monitor (a key made elsewhere, imported: own address, usable)
  | "mon.sigsplit" :: _ => (p, "done")   -- implementation-side monitor (a signature binds its message, also once verified)
  | "mon.keybytes" :: _ => (p, "done")   -- implementation-side monitor (raw private-key bytes and back)
  | ["depth", limit, pk] =>
    match limit.toNat?, parsePK 64 pk.toList with
    | some l, some (.multi ks, []) => (p, showBool (validDepth l ks))
    | _, _ => (p, "bad-op")
  | ["kb.new"] => ({ kb := [], armors := [] }, "ok")
  | ["kb.create", k, pass] =>
    out (kstep p.kb (.create ((k.toNat?).getD 0) pass)) { p with objs := (k.toNat?).getD 0 :: p.objs }
  | ["kb.delete", k, pass] => out (kstep p.kb (.delete ((k.toNat?).getD 0) pass)) p
  | ["kb.update", k, o, n] => out (kstep p.kb (.update ((k.toNat?).getD 0) o n)) p
  | ["kb.sign", k, pass, m] => out (kstep p.kb (.sign ((k.toNat?).getD 0) pass ((m.toNat?).getD 0))) p
  | ["kb.export", aid, k, d, e] =>
    let r := kstep p.kb (.exportArmor ((k.toNat?).getD 0) d e)
    match r.2 with
    | .armor a => ({ p with armors := ((aid.toNat?).getD 0, a) :: p.armors }, "armor")
    | _ => (p, "err")
  | ["kb.import", aid, d, e] =>
    match p.armors.lookup ((aid.toNat?).getD 0) with
    | some a => out (kstep p.kb (.importArmor a d e)) p
    | none => (p, "err")
  | ["kb.exportobj", k, pass] => out (kstep p.kb (.exportObj ((k.toNat?).getD 0) pass)) p
  | ["kb.importobj", k, e] =>
    if p.objs.contains ((k.toNat?).getD 0) then out (kstep p.kb (.importObj ((k.toNat?).getD 0) e)) p
    else (p, "err")          -- no such private key exists to import
  | ["kb.list"] => out (kstep p.kb .list) p
  | _ => (p, "bad-op")

end Posmint.Driver
