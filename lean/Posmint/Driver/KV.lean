import Posmint.Model.KVProg
import Posmint.Generated
import Posmint.Driver.Util
namespace Posmint.Driver
open Posmint.KV

def gasCfg : GasConfig :=
  { hasCost := Posmint.Generated.gasHasCost, deleteCost := Posmint.Generated.gasDeleteCost,
    readCostFlat := Posmint.Generated.gasReadCostFlat, readCostPerByte := Posmint.Generated.gasReadCostPerByte,
    writeCostFlat := Posmint.Generated.gasWriteCostFlat, writeCostPerByte := Posmint.Generated.gasWriteCostPerByte,
    iterNextCostFlat := Posmint.Generated.gasIterNextCostFlat }

def newProg (limit : Nat) : Prog :=
  { store := .mem [], env := { consumed := 0, limit := limit, cfg := gasCfg, trace := [] }, iters := [] }

def showItems (l : Items) : String :=
  "[" ++ ",".intercalate (l.map fun kv => hex kv.1 ++ "=" ++ hex kv.2) ++ "]"

def showTraceOp : TraceOp → String
  | .write => "write" | .read => "read" | .delete => "delete" | .iterKey => "iterKey" | .iterValue => "iterValue"

def showPanic : Panic → String
  | .outOfGas => "oog" | .gasOverflow => "overflow" | .invalidIterator => "invalid"
  | .nilKey => "nilkey" | .unsupported => "unsupported"

/-- the trace records written since `before` (oldest first) -/
def newTrace (before after : Env) : String :=
  let n := after.trace.length - before.trace.length
  let recs := (after.trace.take n).reverse
  "[" ++ ",".intercalate (recs.map fun r => showTraceOp r.op ++ ":" ++ hex r.key ++ ":" ++ hex r.value) ++ "]"

def fin (before after : Env) (res : String) : String :=
  s!"{res} g={after.consumed} t={newTrace before after}"

def parseBound (s : String) : Option (Option Bytes) :=
  if s = "nil" then some none else (unhex s).map some

def setIter (l : List (Nat × Iter)) (id : Nat) (it : Iter) : List (Nat × Iter) :=
  (id, it) :: l.filter (fun e => e.1 != id)

/-- Run `f` on the program; on a panic keep the store/iterators, take the environment from the panic. -/
def onPanic (p : Prog) (pe : Panic × Env) : Prog × String :=
  ({ p with env := pe.2 }, fin p.env pe.2 ("panic:" ++ showPanic pe.1))

def stepKV (p : Prog) : List String → Prog × String
  | ["mon.mstrace", _] => (p, "done")   -- implementation-side monitor (the trace of a branched multistore)
  | ["new", "inf"] => (newProg Posmint.KV.maxUint64, "ok")   -- the infinite meter: only the uint64 overflow can stop it
  | ["new", lim] => match lim.toNat? with
    | some l => (newProg l, "ok")
    | none => (p, "bad-op")
  | ["push", "cache"] => ({ p with store := .cache CacheData.empty p.store }, "ok")
  | ["push", "gas"] => ({ p with store := .gas p.store }, "ok")
  | ["push", "trace"] => ({ p with store := .trace p.store }, "ok")
  | ["push", "pfx", h] => match unhex h with
    | some pre => ({ p with store := .pfx pre p.store }, "ok")
    | none => (p, "bad-op")
  | ["pop"] => match p.store.pop with
    | some s => ({ p with store := s }, "ok")
    | none => (p, "bad-op")
  | ["get", k] => match unhex k with
    | none => (p, "bad-op")
    | some k => match p.store.get k p.env with
      | .error pe => onPanic p pe
      | .ok (v, s, e) => ({ p with store := s, env := e },
          fin p.env e (match v with | some v => "v " ++ hex v | none => "nil"))
  | ["has", k] => match unhex k with
    | none => (p, "bad-op")
    | some k => match p.store.has k p.env with
      | .error pe => onPanic p pe
      | .ok (b, s, e) => ({ p with store := s, env := e }, fin p.env e (showBool b))
  | ["set", k, v] => match unhex k, unhex v with
    | some k, some v => match p.store.set k v p.env with
      | .error pe => onPanic p pe
      | .ok (s, e) => ({ p with store := s, env := e }, fin p.env e "ok")
    | _, _ => (p, "bad-op")
  | ["del", k] => match unhex k with
    | none => (p, "bad-op")
    | some k => match p.store.delete k p.env with
      | .error pe => onPanic p pe
      | .ok (s, e) => ({ p with store := s, env := e }, fin p.env e "ok")
  | ["lset", n, k, v] => match n.toNat?, unhex k, unhex v with
    | some n, some k, some v => match p.store.under n (fun s e => s.set k v e) p.env with
      | .error pe => onPanic p pe
      | .ok (s, e) => ({ p with store := s, env := e }, fin p.env e "ok")
    | _, _, _ => (p, "bad-op")
  | ["ldel", n, k] => match n.toNat?, unhex k with
    | some n, some k => match p.store.under n (fun s e => s.delete k e) p.env with
      | .error pe => onPanic p pe
      | .ok (s, e) => ({ p with store := s, env := e }, fin p.env e "ok")
    | _, _ => (p, "bad-op")
  | ["write"] => match p.store.write p.env with
    | .error pe => onPanic p pe
    | .ok (s, e) => ({ p with store := s, env := e }, fin p.env e "ok")
  | ["burn", n] => match n.toNat? with
    | none => (p, "bad-op")
    | some n => match consume p.env n with
      | .error pe => onPanic p pe
      | .ok e => ({ p with env := e }, fin p.env e "ok")
  | ["dump"] => (p, showItems p.store.base)
  | ["iter", id, a, b, dir] => match id.toNat?, unhex a, parseBound b with
    | some id, some a, some b =>
      let asc := dir == "asc"
      let (z, l) := splitZone p.store
      match zOpen z l a b asc p.env with
      | .error pe => onPanic p pe
      | .ok (z', rem, l', e) =>
        ({ p with store := joinZone z l', env := e, iters := setIter p.iters id ⟨rem, z'⟩ }, fin p.env e "ok")
    | _, _, _ => (p, "bad-op")
  | ["iterall", a, b, dir] => match unhex a, parseBound b with
    | some a, some b =>
      let asc := dir == "asc"
      let (z, l) := splitZone p.store
      match zOpen z l a b asc p.env with
      | .error pe => onPanic p pe
      | .ok (z', rem, l', e) =>
        let p1 := { p with store := joinZone z l', env := e }
        match zDrain (rem.length + 1) z' rem e [] with
        | .error pe => ({ p1 with env := pe.2 }, fin p.env pe.2 ("panic:" ++ showPanic pe.1))
        | .ok (items, e') => ({ p1 with env := e' }, fin p.env e' (showItems items))
    | _, _ => (p, "bad-op")
  | [op, id] => match id.toNat? with
    | none => (p, "bad-op")
    | some id => match p.iters.lookup id with
      | none => (p, "bad-op")
      | some it =>
        match op with
        | "valid" => (p, fin p.env p.env (showBool (zValid it.zone it.rem)))
        | "key" => match zKey it.zone it.rem p.env with
          | .error pe => onPanic p pe
          | .ok (k, e) => ({ p with env := e }, fin p.env e ("k " ++ hex k))
        | "value" => match zValue it.zone it.rem p.env with
          | .error pe => onPanic p pe
          | .ok (v, e) => ({ p with env := e }, fin p.env e ("v " ++ hex v))
        | "next" => match zNext it.zone it.rem p.env with
          | .error pe => onPanic p pe
          | .ok (z', rem', e) => ({ p with env := e, iters := setIter p.iters id ⟨rem', z'⟩ }, fin p.env e "ok")
        | "close" => ({ p with iters := p.iters.filter (fun e => e.1 != id) }, "ok")
        | _ => (p, "bad-op")
  | _ => (p, "bad-op")

end Posmint.Driver
