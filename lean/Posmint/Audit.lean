import Lean
/-!
`#audit_ns Foo.Bar` prints, for every theorem declared in namespace `Foo.Bar`
(in the current environment), one line `AUDIT <name> | <axioms, comma separated>`.
The orchestrator accepts only propext, Classical.choice, Quot.sound.
-/
open Lean Elab Command

elab "#audit_ns " ns:ident : command => do
  let env ← getEnv
  let nsName := ns.getId
  let mut names : Array Name := #[]
  for (n, ci) in env.constants.toList do
    -- equation / induction lemmas that Lean derives from definitions are not proof obligations of ours
    let last := match n with | .str _ s => s | _ => ""
    let derived := last.startsWith "eq_" || last.startsWith "induct" || last.startsWith "fun_cases" ||
      last.startsWith "mutual_induct" || last == "sizeOf_spec" || last == "injEq" || last == "inj"
    if nsName.isPrefixOf n && !n.isInternal && !derived then
      match ci with
      | .thmInfo _ => names := names.push n
      | _ => pure ()
  let sorted := names.qsort (fun a b => a.toString < b.toString)
  for n in sorted do
    let axs ← Lean.collectAxioms n
    let axsS := ", ".intercalate (axs.toList.map toString |>.mergeSort)
    logInfo m!"AUDIT {n} | {axsS}"
