import Posmint.Model.ChainSpec
import Posmint.Lemmas.ChainTouch
/-!
Helper lemmas for C08 (the sliding window as a ring buffer): association-list lookups, the
missed-bit array, frame lemmas for `slash` / `jail`, and the list facts about `lastW` / `slotOf`.
-/
namespace Posmint.Chain.C

/-! ### the order on addresses -/

theorem addr_lt_irrefl (a : Addr) : ¬ a < a := String.lt_irrefl a
theorem addr_lt_trans {a b c : Addr} : a < b → b < c → a < c := String.lt_trans
theorem addr_lt_asymm {a b : Addr} : a < b → ¬ b < a := String.lt_asymm
theorem addr_lt_ne {a b : Addr} (h : a < b) : a ≠ b := fun e => String.lt_irrefl a (e ▸ h)
theorem addr_eq_of_not_lt {a b : Addr} (h1 : ¬ a < b) (h2 : ¬ b < a) : a = b :=
  String.le_antisymm (String.not_lt.1 h2) (String.not_lt.1 h1)

/-! ### association lists: lookups after an insertion (no sortedness needed) -/

theorem aget_aset_self {α : Type} (l : List (Addr × α)) (k : Addr) (v : α) :
    aget (aset l k v) k = some v := by
  induction l with
  | nil => simp [aset, aget]
  | cons x rest ih =>
    obtain ⟨k', v'⟩ := x
    simp only [aset]
    split
    · simp [aget]
    · split
      · simp [aget]
      · rename_i h1 h2
        have : ¬ k' = k := fun e => h2 (by simp [e])
        simp [aget, this, ih]

theorem aget_aset_ne {α : Type} (l : List (Addr × α)) (k q : Addr) (v : α) (h : k ≠ q) :
    aget (aset l k v) q = aget l q := by
  induction l with
  | nil => simp [aset, aget, h]
  | cons x rest ih =>
    obtain ⟨k', v'⟩ := x
    simp only [aset]
    split
    · simp [aget, h]
    · split
      · rename_i h1 h2
        have e : k = k' := by simpa using h2
        subst e
        simp [aget, h]
      · simp [aget, ih]

theorem aget_aset {α : Type} (l : List (Addr × α)) (k q : Addr) (v : α) :
    aget (aset l k v) q = if k = q then some v else aget l q := by
  split
  · rename_i h; subst h; exact aget_aset_self l _ v
  · exact aget_aset_ne l k q v ‹_›

/-! ### the missed-bit array -/

theorem bitGet_nil (a : Addr) (i : Int) : bitGet [] a i = false := rfl

theorem bitGet_cons (x : (Addr × Int) × Bool) (l : List ((Addr × Int) × Bool)) (a : Addr) (i : Int) :
    bitGet (x :: l) a i = if (x.1.1 == a && x.1.2 == i) = true then x.2 else bitGet l a i := by
  unfold bitGet
  rw [List.find?_cons]
  cases h : (x.1.1 == a && x.1.2 == i) <;> simp

theorem bitGet_bitSet_self (l : List ((Addr × Int) × Bool)) (a : Addr) (i : Int) (b : Bool) :
    bitGet (bitSet l a i b) a i = b := by
  induction l with
  | nil => simp [bitSet, bitGet_cons]
  | cons x rest ih =>
    simp only [bitSet]
    split
    · simp [bitGet_cons]
    · split
      · simp [bitGet_cons]
      · rename_i h1 h2
        rw [bitGet_cons, if_neg h2]
        exact ih

theorem bitGet_bitSet_ne (l : List ((Addr × Int) × Bool)) (a a' : Addr) (i i' : Int) (b : Bool)
    (h : ¬ (a = a' ∧ i = i')) :
    bitGet (bitSet l a i b) a' i' = bitGet l a' i' := by
  have hne : ¬ ((a == a') && (i == i')) = true := by
    simpa using h
  induction l with
  | nil => simp only [bitSet, bitGet_cons, if_neg hne]
  | cons x rest ih =>
    simp only [bitSet]
    split
    · rw [bitGet_cons, if_neg hne]
    · split
      · rename_i h1 h2
        have h2' : x.1.1 = a ∧ x.1.2 = i := by simpa using h2
        have hx : ¬ (x.1.1 == a' && x.1.2 == i') = true := by rw [h2'.1, h2'.2]; exact hne
        rw [bitGet_cons, bitGet_cons, if_neg hne, if_neg hx]
      · rw [bitGet_cons, bitGet_cons, ih]

theorem mem_bitSet (l : List ((Addr × Int) × Bool)) (a : Addr) (i : Int) (b : Bool) (e : (Addr × Int) × Bool)
    (h : e ∈ bitSet l a i b) : e = ((a, i), b) ∨ e ∈ l := by
  induction l with
  | nil => simp [bitSet] at h; exact Or.inl h
  | cons x rest ih =>
    simp only [bitSet] at h
    split at h
    · simp at h; rcases h with h | h | h <;> simp [h]
    · split at h
      · simp at h; rcases h with h | h <;> simp [h]
      · simp at h; rcases h with h | h
        · simp [h]
        · rcases ih h with h | h <;> simp [h]

theorem bitGet_filter_ne (l : List ((Addr × Int) × Bool)) (a b : Addr) (i : Int) (h : a ≠ b) :
    bitGet (l.filter (fun e => e.1.1 != a)) b i = bitGet l b i := by
  unfold bitGet
  rw [List.find?_filter]
  congr 1
  congr 1
  funext e
  by_cases he : e.1.1 = b
  · subst he
    have : ¬ e.1.1 = a := fun x => h x.symm
    simp [this]
    by_cases hi : e.1.2 = i <;> simp [hi]
  · simp [he]

theorem bitGet_filter_self (l : List ((Addr × Int) × Bool)) (a : Addr) (i : Int) :
    bitGet (l.filter (fun e => e.1.1 != a)) a i = false := by
  unfold bitGet
  rw [List.find?_filter]
  have : l.find? (fun e => decide ((e.1.1 != a) = true ∧ (e.1.1 == a && e.1.2 == i) = true)) = none := by
    rw [List.find?_eq_none]
    intro e _
    simp
    intro h1 h2
    exact absurd h2 h1
  rw [this]

/-! ### frame: the fields no bank / staking / slashing primitive touches -/

structure Frame (s s' : State) : Prop where
  sign : s'.sign = s.sign
  bits : s'.missedBits = s.missedBits
  rel : s'.rel = s.rel
  p : s'.p = s.p
  height : s'.height = s.height
  time : s'.time = s.time
  pool : s'.pool = s.pool
  feeAcc : s'.feeAcc = s.feeAcc
  posAcc : s'.posAcc = s.posAcc
  daoAcc : s'.daoAcc = s.daoAcc
  keys : s'.keys = s.keys

theorem Frame.refl (s : State) : Frame s s := ⟨rfl, rfl, rfl, rfl, rfl, rfl, rfl, rfl, rfl, rfl, rfl⟩

theorem Frame.trans {s1 s2 s3 : State} (h1 : Frame s1 s2) (h2 : Frame s2 s3) : Frame s1 s3 :=
  ⟨h2.sign.trans h1.sign, h2.bits.trans h1.bits, h2.rel.trans h1.rel, h2.p.trans h1.p,
   h2.height.trans h1.height, h2.time.trans h1.time, h2.pool.trans h1.pool, h2.feeAcc.trans h1.feeAcc,
   h2.posAcc.trans h1.posAcc, h2.daoAcc.trans h1.daoAcc, h2.keys.trans h1.keys⟩

theorem setBal_frame (s : State) (a : Addr) (x : Int) : Frame s (setBal s a x) :=
  ⟨rfl, rfl, rfl, rfl, rfl, rfl, rfl, rfl, rfl, rfl, rfl⟩

theorem burnFrom_frame (s s' : State) (a : Addr) (x : Int) (h : burnFrom s a x = some s') : Frame s s' := by
  unfold burnFrom at h
  split at h
  · cases h
  · cases h; exact ⟨rfl, rfl, rfl, rfl, rfl, rfl, rfl, rfl, rfl, rfl, rfl⟩

theorem send_frame (s s' : State) (a b : Addr) (x : Int) (h : send s a b x = some s') : Frame s s' := by
  unfold send at h
  split at h
  · cases h
  · cases h; exact ⟨rfl, rfl, rfl, rfl, rfl, rfl, rfl, rfl, rfl, rfl, rfl⟩

theorem mint_frame (s : State) (a : Addr) (x : Int) : Frame s (mint s a x) :=
  ⟨rfl, rfl, rfl, rfl, rfl, rfl, rfl, rfl, rfl, rfl, rfl⟩

theorem delStaked_frame (s : State) (a : Addr) (v : Val) : Frame s (delStaked s a v) :=
  ⟨rfl, rfl, rfl, rfl, rfl, rfl, rfl, rfl, rfl, rfl, rfl⟩

theorem setStaked_frame (s : State) (a : Addr) (v : Val) : Frame s (setStaked s a v) := by
  unfold setStaked; split
  · exact Frame.refl s
  · exact ⟨rfl, rfl, rfl, rfl, rfl, rfl, rfl, rfl, rfl, rfl, rfl⟩

theorem setVal_frame (s : State) (a : Addr) (v : Val) : Frame s (setVal s a v) :=
  ⟨rfl, rfl, rfl, rfl, rfl, rfl, rfl, rfl, rfl, rfl, rfl⟩

theorem enqueue_frame (s : State) (a : Addr) (t : Int) : Frame s (enqueue s a t) :=
  ⟨rfl, rfl, rfl, rfl, rfl, rfl, rfl, rfl, rfl, rfl, rfl⟩

theorem dequeue_frame (s : State) (a : Addr) (t : Int) : Frame s (dequeue s a t) :=
  ⟨rfl, rfl, rfl, rfl, rfl, rfl, rfl, rfl, rfl, rfl, rfl⟩

theorem burnFrom_getD_frame (s : State) (a : Addr) (x : Int) : Frame s ((burnFrom s a x).getD s) := by
  cases hb : burnFrom s a x with
  | none => exact Frame.refl _
  | some s2 => exact burnFrom_frame _ _ _ _ hb

theorem forceUnstake_frame (s : State) (a : Addr) (v : Val) : Frame s (forceUnstake s a v) := by
  unfold forceUnstake
  simp only []
  refine Frame.trans ?_ (setVal_frame _ _ _)
  have h1 : Frame s (if v.status == 1 then dequeue (delStaked s a v) a v.unstake else delStaked s a v) := by
    split
    · exact (delStaked_frame s a v).trans (dequeue_frame _ _ _)
    · exact delStaked_frame s a v
  refine Frame.trans h1 ?_
  generalize (if v.status == 1 then dequeue (delStaked s a v) a v.unstake else delStaked s a v) = s2
  split
  · exact burnFrom_getD_frame _ _ _
  · exact Frame.refl _

theorem slash_frame (s : State) (a : Addr) (ih pw f : Int) : Frame s (slash s a ih pw f) := by
  unfold slash
  split; · exact Frame.refl s
  split; · exact Frame.refl s
  split; · exact Frame.refl s
  rename_i v _
  split; · exact Frame.refl s
  simp only []
  have h1 : ∀ v1 : Val, Frame s (setStaked (setVal (delStaked s a v) a v1) a v1) := fun v1 =>
    ((delStaked_frame s a v).trans (setVal_frame _ _ _)).trans (setStaked_frame _ _ _)
  split; · exact h1 _
  split
  · exact h1 _
  · rename_i s2 hb
    have h2 := (h1 _).trans (burnFrom_frame _ _ _ _ hb)
    split
    · exact h2.trans (forceUnstake_frame _ _ _)
    · exact h2

theorem jail_frame (s s' : State) (a : Addr) (h : jail s a = some s') : Frame s s' := by
  unfold jail at h
  split at h
  · cases h
  · split at h
    · cases h
    · cases h; exact (setVal_frame _ _ _).trans (delStaked_frame _ _ _)

theorem jail_vals (s s' : State) (a : Addr) (h : jail s a = some s') :
    ∃ v, aget s.vals a = some v ∧ v.jailed = false ∧ s'.vals = aset s.vals a { v with jailed := true } := by
  unfold jail at h
  split at h
  · cases h
  · rename_i v hv
    split at h
    · cases h
    · rename_i hj
      cases h
      exact ⟨v, hv, by simpa using hj, rfl⟩

/-! ### `lastW` / `slotOf` -/

theorem find_rev_range_some (p : Nat → Bool) (n k : Nat) (hk : k < n) (hp : p k = true)
    (hnot : ∀ j, k < j → j < n → p j = false) : (List.range n).reverse.find? p = some k := by
  induction n with
  | zero => omega
  | succ n ih =>
    rw [List.range_succ, List.reverse_append]
    simp only [List.reverse_cons, List.reverse_nil, List.nil_append, List.singleton_append, List.find?_cons]
    by_cases hkn : k = n
    · subst hkn; simp [hp]
    · have : p n = false := hnot n (by omega) (by omega)
      simp only [this]
      exact ih (by omega) (fun j h1 h2 => hnot j h1 (by omega))

theorem find_rev_range_none (p : Nat → Bool) (n : Nat) (h : ∀ j, j < n → p j = false) :
    (List.range n).reverse.find? p = none := by
  rw [List.find?_eq_none]
  intro x hx
  simp at hx
  simp [h x hx]

theorem find_rev_range_lt (p : Nat → Bool) (n k : Nat) (h : (List.range n).reverse.find? p = some k) : k < n := by
  have := List.mem_of_find?_eq_some h
  simpa using this

theorem add_mod_ne (x d w : Nat) (hd : 0 < d) (hdw : d < w) : (x + d) % w ≠ x % w := by
  intro h
  have := Nat.sub_mod_eq_zero_of_mod_eq h
  rw [Nat.add_sub_cancel_left, Nat.mod_eq_of_lt hdw] at this
  omega

theorem slotOf_nil (w i : Nat) : slotOf w [] i = false := by
  simp [slotOf]

theorem slotOf_append_self (w : Nat) (h : List Bool) (b : Bool) :
    slotOf w (h ++ [b]) (h.length % w) = b := by
  unfold slotOf
  rw [find_rev_range_some _ (h ++ [b]).length h.length (by simp) (by simp) (by simp; omega)]
  simp

theorem slotOf_append_ne (w : Nat) (h : List Bool) (b : Bool) (i : Nat) (hi : i ≠ h.length % w) :
    slotOf w (h ++ [b]) i = slotOf w h i := by
  unfold slotOf
  have e : (List.range (h ++ [b]).length).reverse.find? (fun k => k % w == i)
      = (List.range h.length).reverse.find? (fun k => k % w == i) := by
    rw [List.length_append, List.length_singleton, List.range_succ, List.reverse_append]
    simp only [List.reverse_cons, List.reverse_nil, List.nil_append, List.singleton_append, List.find?_cons]
    have : (h.length % w == i) = false := by simpa using fun e => hi e.symm
    simp only [this]
  rw [e]
  cases hf : (List.range h.length).reverse.find? (fun k => k % w == i) with
  | none => rfl
  | some k =>
    have hk := find_rev_range_lt _ _ _ hf
    simp [List.getD_eq_getElem?_getD, List.getElem?_append_left hk]

theorem slotOf_oldest (w : Nat) (hw : 0 < w) (h : List Bool) :
    slotOf w h (h.length % w) = if w ≤ h.length then h.getD (h.length - w) false else false := by
  unfold slotOf
  by_cases hle : w ≤ h.length
  · rw [if_pos hle]
    rw [find_rev_range_some _ h.length (h.length - w) (by omega)]
    · have : (h.length - w) % w = h.length % w := by
        conv => rhs; rw [show h.length = (h.length - w) + w by omega]
        rw [Nat.add_mod_right]
      simp [this]
    · intro j h1 h2
      have : j = (h.length - w) + (j - (h.length - w)) := by omega
      have hne := add_mod_ne (h.length - w) (j - (h.length - w)) w (by omega) (by omega)
      rw [← this] at hne
      have e2 : (h.length - w) % w = h.length % w := by
        conv => rhs; rw [show h.length = (h.length - w) + w by omega]
        rw [Nat.add_mod_right]
      rw [e2] at hne
      simpa using hne
  · rw [if_neg hle]
    rw [find_rev_range_none]
    intro j hj
    have : j % w = j := Nat.mod_eq_of_lt (by omega)
    have : h.length % w = h.length := Nat.mod_eq_of_lt (by omega)
    simp; omega

theorem count_lastW_append (w : Nat) (hw : 0 < w) (h : List Bool) (b : Bool) :
    (lastW w (h ++ [b])).count true + (if w ≤ h.length ∧ h.getD (h.length - w) false = true then 1 else 0)
      = (lastW w h).count true + (if b = true then 1 else 0) := by
  unfold lastW
  by_cases hle : w ≤ h.length
  · have e1 : (h ++ [b]).length - w = (h.length - w) + 1 := by simp; omega
    rw [e1, List.drop_append_of_le_length (by omega), List.drop_eq_getElem_cons (i := h.length - w) (by omega)]
    have e2 : h.getD (h.length - w) false = h[h.length - w]'(by omega) := by
      simp [List.getD_eq_getElem?_getD, List.getElem?_eq_getElem (show h.length - w < h.length by omega)]
    rw [e2]
    simp only [List.count_append, List.count_cons, List.count_nil, hle, true_and]
    cases h[h.length - w]'(by omega) <;> cases b <;> simp <;> omega
  · have e1 : (h ++ [b]).length - w = 0 := by simp; omega
    have e3 : h.length - w = 0 := by omega
    rw [e1, e3]
    simp only [List.drop_zero, List.count_append, hle, false_and, if_false, Nat.add_zero]
    cases b <;> simp

theorem lastW_nil (w : Nat) : lastW w [] = [] := by simp [lastW]

/-! ### `handleSignature`, restated with the window update factored out -/

/-- the bit-array / counter update of `handleValidatorSignature` -/
def winUpd (bits : List ((Addr × Int) × Bool)) (a : Addr) (si : Sign) (window : Int) (signed : Bool) :
    List ((Addr × Int) × Bool) × Int :=
  let index := Int.tmod si.offset window
  let previous := bitGet bits a index
  let missed := !signed
  if !previous && missed then (bitSet bits a index true, si.missed + 1)
  else if previous && !missed then (bitSet bits a index false, si.missed - 1)
  else (bits, si.missed)

/-- the state after a call that does not punish -/
def sigAdvance (s : State) (a : Addr) (si : Sign) (r : List ((Addr × Int) × Bool) × Int) : State :=
  { s with missedBits := r.1, sign := aset s.sign a { si with offset := si.offset + 1, missed := r.2 } }

theorem handleSignature_eq (s : State) (a : Addr) (pw : Int) (signed : Bool) :
    handleSignature s a pw signed =
      if !s.rel.contains a then none
      else match aget s.sign a with
      | none => none
      | some si =>
        if s.p.window ≤ 0 then none
        else
          let r := winUpd s.missedBits a si s.p.window signed
          if s.height > si.start + s.p.window && r.2 > s.p.window - minSignedPerWindow s.p then
            match aget s.vals a with
            | some v =>
              if !v.jailed then
                match jail (slash { s with missedBits := r.1 } a (s.height - 1 - 1) pw s.p.sfDown) a with
                | none => none
                | some s3 =>
                  some { s3 with
                    missedBits := s3.missedBits.filter (fun e => e.1.1 != a),
                    sign := aset s3.sign a { si with offset := 0, missed := 0, jailedUntil := s.time + s.p.jailDur } }
              else some (sigAdvance s a si r)
            | none => some (sigAdvance s a si r)
          else some (sigAdvance s a si r) := by
  rfl

set_option linter.unusedSimpArgs false in
theorem winUpd_spec (bits : List ((Addr × Int) × Bool)) (a : Addr) (si : Sign) (window : Int) (signed : Bool) :
    (∀ a' i, bitGet (winUpd bits a si window signed).1 a' i
        = if a = a' ∧ Int.tmod si.offset window = i then !signed else bitGet bits a' i) ∧
    (winUpd bits a si window signed).2
        = si.missed + (if signed then 0 else 1) - (if bitGet bits a (Int.tmod si.offset window) then 1 else 0) ∧
    (∀ e ∈ (winUpd bits a si window signed).1, e = ((a, Int.tmod si.offset window), !signed) ∨ e ∈ bits) := by
  unfold winUpd
  simp only []
  generalize Int.tmod si.offset window = idx
  cases hpv : bitGet bits a idx <;> cases signed <;> simp only [Bool.not_true, Bool.not_false, Bool.and_true, Bool.and_false,
    Bool.false_eq_true, if_true, if_false, Bool.true_and, Bool.false_and]
  all_goals refine ⟨?_, by simp, ?_⟩
  · intro a' i
    split
    · rename_i h; rw [h.1.symm, h.2.symm]; exact bitGet_bitSet_self _ _ _ _
    · exact bitGet_bitSet_ne _ _ _ _ _ _ ‹_›
  · intro e he; exact mem_bitSet _ _ _ _ _ he
  · intro a' i
    split
    · rename_i h; rw [← h.1, ← h.2]; exact hpv
    · rfl
  · intro e he; exact Or.inr he
  · intro a' i
    split
    · rename_i h; rw [← h.1, ← h.2]; exact hpv
    · rfl
  · intro e he; exact Or.inr he
  · intro a' i
    split
    · rename_i h; rw [h.1.symm, h.2.symm]; exact bitGet_bitSet_self _ _ _ _
    · exact bitGet_bitSet_ne _ _ _ _ _ _ ‹_›
  · intro e he; exact mem_bitSet _ _ _ _ _ he

theorem count_lastW_append' (w : Nat) (hw : 0 < w) (h : List Bool) (b : Bool) :
    (((lastW w (h ++ [b])).count true : Nat) : Int)
      = ((lastW w h).count true : Nat) + (if b then 1 else 0) - (if slotOf w h (h.length % w) then 1 else 0) := by
  have h1 := count_lastW_append w hw h b
  have h2 := slotOf_oldest w hw h
  rw [h2]
  by_cases hle : w ≤ h.length
  · simp only [hle, true_and, if_true] at h1 ⊢
    split at h1 <;> split at h1 <;> simp_all <;> omega
  · simp only [hle, false_and, if_false] at h1 ⊢
    split at h1 <;> simp_all

/-- the window update represents the appended history -/
theorem winUpd_rel (w : Nat) (hw : 0 < w) (si : Sign) (bits : List ((Addr × Int) × Bool)) (a : Addr) (h : List Bool)
    (signed : Bool) (hrel : WinRel w si bits a h) :
    WinRel w { si with offset := si.offset + 1, missed := (winUpd bits a si (w : Int) signed).2 }
      (winUpd bits a si (w : Int) signed).1 a (h ++ [!signed]) := by
  obtain ⟨hoff, hmis, hbits, hrange⟩ := hrel
  obtain ⟨s1, s2, s3⟩ := winUpd_spec bits a si (w : Int) signed
  have hidx : Int.tmod si.offset (w : Int) = ((h.length % w : Nat) : Int) := by
    rw [hoff, ← Int.ofNat_tmod]
  have hlt : h.length % w < w := Nat.mod_lt _ hw
  rw [hidx] at s1 s2 s3
  refine ⟨?_, ?_, ?_, ?_⟩
  · simp only [List.length_append, List.length_singleton]; omega
  · show (winUpd bits a si (w : Int) signed).2 = _
    rw [s2, count_lastW_append' w hw, hbits _ hlt, hmis]
    cases signed <;> simp
  · intro i hi
    rw [s1]
    by_cases hii : h.length % w = i
    · subst hii; simp [slotOf_append_self]
    · rw [slotOf_append_ne _ _ _ _ (fun e => hii e.symm), if_neg (by omega)]
      exact hbits i hi
  · intro e he hea
    rcases s3 e he with h1 | h1
    · subst h1; simp only []; omega
    · exact hrange e h1 hea

end Posmint.Chain.C
