import Posmint.Lemmas.ChainTx
import Posmint.Lemmas.ChainGenesis
/-!
The second denomination (`bal2` / `supply2`).

* Everything the application does apart from `send2` (the second fee transfer of `runTx`, and `rewardFromFees2` in
  BeginBlock) leaves the pair `d2 s = (s.bal2, s.supply2)` as it is: the `d2_*` lemmas (the analogue of the `gov_*`
  lemmas of `ChainTx`).
* `setBal2` / `send2` / `rewardFromFees2` on `bal2` are what `setBal` / `send` / `rewardFromFees` are on `bal`:
  the same association-list arguments give `send2_spec` and `rewardFromFees2_spec`.
* `step_d2`: every operation keeps `bal2` a sorted map of positive amounts with the same total, and `supply2`.
* `genesis_d2`: the second-denomination part of the genesis state.
-/
namespace Posmint.Chain.D2
open Posmint.Chain Posmint.Chain.ChainTx Posmint.Chain.F2

/-! ### frames: what does not touch the second denomination -/

def d2 (s : State) : List (Addr × Int) × Int := (s.bal2, s.supply2)

@[simp] theorem d2_setBal (s : State) (a : Addr) (x : Int) : d2 (setBal s a x) = d2 s := rfl
@[simp] theorem d2_mint (s : State) (a : Addr) (x : Int) : d2 (mint s a x) = d2 s := rfl
@[simp] theorem d2_setVal (s : State) (a : Addr) (v : Val) : d2 (setVal s a v) = d2 s := rfl
@[simp] theorem d2_delStaked (s : State) (a : Addr) (v : Val) : d2 (delStaked s a v) = d2 s := rfl
@[simp] theorem d2_enqueue (s : State) (a : Addr) (t : Int) : d2 (enqueue s a t) = d2 s := rfl
@[simp] theorem d2_dequeue (s : State) (a : Addr) (t : Int) : d2 (dequeue s a t) = d2 s := rfl
@[simp] theorem d2_setStaked (s : State) (a : Addr) (v : Val) : d2 (setStaked s a v) = d2 s := by
  unfold setStaked; split <;> rfl

theorem d2_send {s s1 : State} {src dst : Addr} {amt : Int} (h : send s src dst amt = some s1) :
    d2 s1 = d2 s := by
  rw [send_frame h]; rfl

@[simp] theorem d2_send_getD (s : State) (src dst : Addr) (amt : Int) :
    d2 ((send s src dst amt).getD s) = d2 s := by
  cases h : send s src dst amt with
  | none => rfl
  | some s1 => exact d2_send h

theorem d2_burnFrom {s s1 : State} {a : Addr} {amt : Int} (h : burnFrom s a amt = some s1) :
    d2 s1 = d2 s := by
  rw [burnFrom_frame h]; rfl

@[simp] theorem d2_burnFrom_getD (s : State) (a : Addr) (amt : Int) :
    d2 ((burnFrom s a amt).getD s) = d2 s := by
  cases h : burnFrom s a amt with
  | none => rfl
  | some s1 => exact d2_burnFrom h

@[simp] theorem d2_forceUnstake (s : State) (a : Addr) (v : Val) : d2 (forceUnstake s a v) = d2 s := by
  unfold forceUnstake
  simp only [d2_setVal]
  split <;> split <;> simp

@[simp] theorem d2_slash (s : State) (a : Addr) (ih pw f : Int) : d2 (slash s a ih pw f) = d2 s := by
  unfold slash
  split; · rfl
  split; · rfl
  split; · rfl
  split; · rfl
  simp only
  split; · simp
  split
  · simp
  · rename_i s2 h2
    have := d2_burnFrom h2
    split <;> simp [this]

theorem d2_jail {s s1 : State} {a : Addr} (h : jail s a = some s1) : d2 s1 = d2 s := by
  unfold jail at h
  split at h
  · simp at h
  · split at h
    · simp at h
    · simp at h; subst h; simp


theorem d2_handleSignature {s s1 : State} {a : Addr} {pw : Int} {signed : Bool}
    (h : handleSignature s a pw signed = some s1) : d2 s1 = d2 s := by
  unfold handleSignature at h
  split at h; · simp at h
  split at h; · simp at h
  split at h; · simp at h
  simp only at h
  repeat' (split at h)
  all_goals first
    | (simp at h; done)
    | (simp at h; subst h; rfl)
    | (rename_i s3 h3
       simp at h; subst h
       have := d2_jail h3
       rw [d2_slash] at this
       simp only [d2, Prod.mk.injEq] at this ⊢
       exact this)

theorem d2_handleDoubleSign {s s1 : State} {a : Addr} {ih et pw : Int}
    (h : handleDoubleSign s a ih et pw = some s1) : d2 s1 = d2 s := by
  unfold handleDoubleSign at h
  split at h; · simp at h
  split at h; · simp at h; subst h; rfl
  split at h; · simp at h
  split at h; · simp at h
  split at h; · simp at h
  split at h; · simp at h
  split at h; · simp at h
  simp only at h
  split at h; · simp at h
  rename_i s2 h2
  split at h; · simp at h
  simp at h; subst h
  have e2 : d2 s2 = d2 s := by
    split at h2
    · rw [d2_jail h2]; simp
    · simp at h2; subst h2; simp
  have := d2_forceUnstake s2 a ‹Val›
  simp [d2] at this e2 ⊢
  simp [this, e2]

@[simp] theorem d2_rewardFromFees (s : State) : d2 (rewardFromFees s) = d2 s := by
  unfold rewardFromFees
  simp only
  split
  · rfl
  · rename_i s1 h1
    have := d2_send h1
    split <;> simp [this]

theorem d2_mintAwards {s s1 : State} (h : mintAwards s = some s1) : d2 s1 = d2 s := by
  unfold mintAwards at h
  split at h; · simp at h
  simp at h; subst h
  have := foldl_inv (fun st => d2 st = d2 s) (fun st (e : Addr × Int) =>
      ((send (mint st st.pool e.2) (mint st st.pool e.2).pool e.1 e.2).getD (mint st st.pool e.2)))
      (by intro st e hp; simp [hp]) s.awards s rfl
  simp only [d2] at this ⊢
  exact this

theorem d2_burnValidators {s s1 : State} (h : burnValidators s = some s1) : d2 s1 = d2 s := by
  unfold burnValidators at h
  simp only [Option.map_eq_some_iff] at h
  obtain ⟨st, hst, rfl⟩ := h
  have := foldl_opt_inv (fun x => d2 x = d2 s) _ (by intro e; rfl)
    (by
      intro st e st' hp hf
      simp only at hf
      split at hf
      · simp at hf
      · split at hf
        · simp at hf
        · simp at hf; subst hf; simp [hp]) s.burns s st rfl hst
  simp only [d2] at this ⊢
  exact this

theorem d2_updateValidators {s s1 : State} {ups : List (Addr × Int)}
    (h : updateValidators s = some (s1, ups)) : d2 s1 = d2 s := by
  unfold updateValidators at h
  split at h; · simp at h
  split at h; · simp at h
  simp at h; rw [← h.1]; rfl

theorem d2_finishOne {s s1 : State} {a : Addr} (h : finishOne s a = some s1) : d2 s1 = d2 s := by
  unfold finishOne at h
  split at h; · simp at h; subst h; rfl
  split at h; · simp at h; subst h; rfl
  split at h; · simp at h
  simp only at h
  split at h; · simp at h
  rename_i s2 h2
  simp at h; subst h
  have := d2_send h2
  simp [d2] at this ⊢
  exact this

theorem d2_unstakeMature {s s1 : State} (h : unstakeMature s = some s1) : d2 s1 = d2 s := by
  unfold unstakeMature at h
  refine foldl_opt_inv (fun x => d2 x = d2 s) _ (by intro e; rfl) ?_ _ s s1 rfl h
  intro st slot st' hp hf
  simp only [Option.bind_some, Option.map_eq_some_iff] at hf
  obtain ⟨x, hx, rfl⟩ := hf
  have : d2 x = d2 s :=
    foldl_opt_inv (fun x => d2 x = d2 s) _ (by intro e; rfl)
      (by intro st e st' hp hf; simp at hf; rw [d2_finishOne hf]; exact hp) slot.2 st x hp hx
  simp only [d2] at this ⊢
  exact this

theorem d2_endBlock {s s1 : State} {ups : List (Addr × Int)}
    (h : endBlock s = some (s1, ups)) : d2 s1 = d2 s := by
  unfold endBlock at h
  split at h; · simp at h
  rename_i s2 ups2 h2
  simp only [Option.map_eq_some_iff] at h
  obtain ⟨x, hx, he⟩ := h
  simp at he
  rw [← he.1, d2_unstakeMature hx, d2_updateValidators h2]




/-! ### message handlers -/

@[simp] theorem d2_applyParam (s : State) (key val : String) : d2 (applyParam s key val) = d2 s := by
  unfold applyParam
  repeat' split
  all_goals rfl

theorem d2_handle {s s1 : State} {m : Msg} (h : handle s m = some s1) : d2 s1 = d2 s := by
  cases m with
  | stake k amt =>
    simp only [handle, Option.ite_none_left_eq_some] at h
    obtain ⟨_, _, _, _, _, h⟩ := h
    split at h; · simp at h
    rename_i s2 h2
    split at h; · simp at h
    have e2 := d2_send h2
    simp at h; subst h
    split
    · simp [e2]; rfl
    · show d2 (setStaked _ _ _) = _
      simp [e2]; rfl
  | unstake a =>
    simp only [handle] at h
    repeat' (split at h)
    all_goals first
      | (simp at h; done)
      | (simp at h; subst h; rfl)
  | unjail a =>
    simp only [handle] at h
    repeat' (split at h)
    all_goals first
      | (simp at h; done)
      | (simp at h; subst h; simp)
  | send src dst amt => exact d2_send h
  | changeParam src key val =>
    simp only [handle] at h
    repeat' (split at h)
    all_goals first
      | (simp at h; done)
      | (simp at h; subst h; simp)
  | daoTransfer src dst amt =>
    simp only [handle] at h
    repeat' (split at h)
    all_goals first
      | (simp at h; done)
      | exact d2_send h
  | daoBurn src amt =>
    simp only [handle] at h
    repeat' (split at h)
    all_goals first
      | (simp at h; done)
      | exact d2_burnFrom h
  | upgrade src hh ver =>
    simp only [handle] at h
    repeat' (split at h)
    all_goals first
      | (simp at h; done)
      | (simp at h; subst h; rfl)


/-! ### the bank of the second denomination -/

/-- a sorted map of positive amounts -/
structure Bal2OK (b : List (Addr × Int)) : Prop where
  asc : KeysAsc b
  pos : ∀ e ∈ b, 0 < e.2

theorem balOf2_nonneg {s : State} (h : ∀ e ∈ s.bal2, 0 < e.2) (a : Addr) : 0 ≤ balOf2 s a := by
  unfold balOf2
  cases hg : aget s.bal2 a with
  | none => simp
  | some x => have := h _ (mem_of_aget hg); simp at this ⊢; omega

theorem balOf2_setBal2 {s : State} (h : KeysAsc s.bal2) (a q : Addr) (x : Int) :
    balOf2 (setBal2 s a x) q = if a = q then x else balOf2 s q := by
  unfold balOf2 setBal2
  by_cases hx : x = 0
  · subst hx
    simp [aget_adel h]
    split <;> simp
  · simp [hx, aget_aset]
    split <;> simp

theorem keysAsc_setBal2 {s : State} (h : KeysAsc s.bal2) (a : Addr) (x : Int) : KeysAsc (setBal2 s a x).bal2 := by
  unfold setBal2
  simp only
  split
  · exact keysAsc_adel h a
  · exact keysAsc_aset h a x

theorem vsum_setBal2 {s : State} (h : KeysAsc s.bal2) (a : Addr) (x : Int) :
    vsum (setBal2 s a x).bal2 = vsum s.bal2 - balOf2 s a + x := by
  unfold balOf2 setBal2
  by_cases hx : x = 0
  · subst hx; simp [vsum_adel h]
  · simp [hx, vsum_aset h]

theorem pos_setBal2 {s : State} (h : ∀ e ∈ s.bal2, 0 < e.2) (a : Addr) {x : Int} (hx : 0 ≤ x) :
    ∀ e ∈ (setBal2 s a x).bal2, 0 < e.2 := by
  intro e he
  unfold setBal2 at he
  simp only at he
  split at he
  · exact h e (mem_adel he)
  · rename_i h0
    rcases mem_aset he with he | he
    · subst he; simp at h0; simp; omega
    · exact h e he

/-- what `send2` does when it succeeds: the analogue of `send_spec` -/
theorem send2_spec {s : State} (h : Bal2OK s.bal2) (src dst : Addr) {amt : Int} (h0 : 0 ≤ amt)
    (hb : amt ≤ balOf2 s src) :
    ∃ s1, send2 s src dst amt = some s1 ∧
      (∀ q, balOf2 s1 q =
        (if dst = q then (if src = q then balOf2 s q - amt else balOf2 s q) + amt
         else if src = q then balOf2 s q - amt else balOf2 s q)) ∧
      Bal2OK s1.bal2 ∧ vsum s1.bal2 = vsum s.bal2 ∧ s1 = { s with bal2 := s1.bal2 } := by
  unfold send2
  rw [if_neg (by omega)]
  have h1 := keysAsc_setBal2 h.asc src (balOf2 s src - amt)
  have p1 := pos_setBal2 h.pos src (x := balOf2 s src - amt) (by omega)
  refine ⟨_, rfl, ?_, ⟨?_, ?_⟩, ?_, ?_⟩
  · intro q
    rw [balOf2_setBal2 h1, balOf2_setBal2 h.asc, balOf2_setBal2 h.asc]
    by_cases hd : dst = q
    · subst hd; simp
      split
      · rename_i e; subst e; rfl
      · rfl
    · simp [hd]
      split
      · rename_i e; subst e; rfl
      · rfl
  · exact keysAsc_setBal2 h1 _ _
  · exact pos_setBal2 p1 _ (by have := balOf2_nonneg p1 dst; omega)
  · rw [vsum_setBal2 h1, vsum_setBal2 h.asc]; omega
  · simp [setBal2]

theorem send2_none_iff (s : State) (src dst : Addr) (amt : Int) :
    send2 s src dst amt = none ↔ balOf2 s src < amt := by
  unfold send2
  split <;> simp [*]

theorem balOf2_congr {s s' : State} (h : s'.bal2 = s.bal2) (q : Addr) : balOf2 s' q = balOf2 s q := by
  simp [balOf2, h]

/-- the balances after a successful `send2`, in additive form -/
theorem send2_spec' {s : State} (h : Bal2OK s.bal2) (src dst : Addr) {amt : Int} (h0 : 0 ≤ amt)
    (hb : amt ≤ balOf2 s src) :
    ∃ s1, send2 s src dst amt = some s1 ∧
      (∀ q, balOf2 s1 q = balOf2 s q - (if q = src then amt else 0) + (if q = dst then amt else 0)) ∧
      Bal2OK s1.bal2 ∧ vsum s1.bal2 = vsum s.bal2 ∧ s1 = { s with bal2 := s1.bal2 } := by
  obtain ⟨s1, h1, b1, r⟩ := send2_spec h src dst h0 hb
  refine ⟨s1, h1, ?_, r⟩
  intro q
  rw [b1]
  by_cases hd : dst = q
  · subst hd
    by_cases hs : src = dst
    · subst hs; simp
    · have hs' : ¬ dst = src := fun e => hs e.symm
      simp [hs, hs']
  · have hd' : ¬ q = dst := fun e => hd e.symm
    by_cases hs : src = q
    · subst hs; simp [hd, hd']
    · have hs' : ¬ q = src := fun e => hs e.symm
      simp [hd, hd', hs, hs']

/-- `rewardFromFees2`: the collected fees of the second denomination move to the proposer (a known validator) or
stay in the pos module account; the analogue of `rewardFromFees_spec` -/
theorem rewardFromFees2_spec {s : State} (h : Bal2OK s.bal2) :
    Bal2OK (rewardFromFees2 s).bal2 ∧ vsum (rewardFromFees2 s).bal2 = vsum s.bal2 ∧
    ∀ b, balOf2 (rewardFromFees2 s) b = balOf2 s b - (if b = s.feeAcc then balOf2 s s.feeAcc else 0) +
      (if (aget s.vals s.proposer).isSome then (if b = s.proposer then balOf2 s s.feeAcc else 0)
       else (if b = s.posAcc then balOf2 s s.feeAcc else 0)) := by
  have hF : 0 ≤ balOf2 s s.feeAcc := balOf2_nonneg h.pos _
  obtain ⟨s1, h1, b1, w1, m1, f1⟩ := send2_spec' h s.feeAcc s.posAcc hF (Int.le_refl _)
  unfold rewardFromFees2
  simp only [h1]
  have hv : s1.vals = s.vals := by rw [f1]
  have hp : s1.posAcc = s.posAcc := by rw [f1]
  rw [hv]
  split
  · have hpos : balOf2 s s.feeAcc ≤ balOf2 s1 s1.posAcc := by
      rw [hp, b1, if_pos rfl]
      have := balOf2_nonneg h.pos s.posAcc
      split
      · rename_i e; rw [e]; omega
      · omega
    obtain ⟨s2, h2, b2, w2, m2, f2⟩ := send2_spec' w1 s1.posAcc s.proposer hF hpos
    simp only [h2, Option.getD_some]
    refine ⟨w2, m2.trans m1, ?_⟩
    intro b
    rw [b2, b1, hp]
    omega
  · refine ⟨w1, m1, ?_⟩
    intro b
    rw [b1]

/-! ### BeginBlock -/

theorem d2_beginBlock {s s1 : State} {time : Int} {proposer : Addr} {votes : List Vote} {evs : List Evidence}
    (h : beginBlock s time proposer votes evs = some s1) :
    d2 s1 = d2 (if s.height + 1 > 1 then rewardFromFees2 (rewardFromFees { s with height := s.height + 1, time := time })
      else { s with height := s.height + 1, time := time }) := by
  unfold beginBlock at h
  simp only at h
  split at h; · simp at h
  rename_i s3 h3
  have e3 : d2 s3 = d2 (if s.height + 1 > 1 then
      rewardFromFees2 (rewardFromFees { s with height := s.height + 1, time := time })
      else { s with height := s.height + 1, time := time }) := by
    rw [Option.bind_eq_some_iff] at h3
    obtain ⟨s2, h2, h3⟩ := h3
    rw [d2_burnValidators h3, d2_mintAwards h2]
  cases h5 : votes.foldl (fun (st? : Option State) v => st?.bind fun st => handleSignature st v.addr v.power v.signed)
      (some { s3 with proposer := proposer }) with
  | none =>
    rw [h5] at h
    have : ∀ l : List Evidence, l.foldl (fun (st? : Option State) e => st?.bind fun st => handleDoubleSign st e.addr e.height e.time e.power) none = none := by
      intro l; induction l with
      | nil => rfl
      | cons x xs ihx => simp [ihx]
    rw [this] at h; simp at h
  | some s5 =>
    rw [h5] at h
    rw [← e3]
    have e5 : d2 s5 = d2 s3 := by
      refine foldl_opt_inv (fun x => d2 x = d2 s3) _ (by intro e; rfl) ?_ votes _ s5 ?_ h5
      · intro st e st' hp hf
        simp at hf
        rw [d2_handleSignature hf]; exact hp
      · rfl
    refine foldl_opt_inv (fun x => d2 x = d2 s3) _ (by intro e; rfl) ?_ evs _ s1 e5 h
    intro st e st' hp hf
    simp at hf
    rw [d2_handleDoubleSign hf]; exact hp

/-- BeginBlock keeps the second denomination's balances a sorted map of positive amounts with the same total -/
theorem beginBlock_bal2 {s s1 : State} {time : Int} {proposer : Addr} {votes : List Vote} {evs : List Evidence}
    (h : beginBlock s time proposer votes evs = some s1) (hb : Bal2OK s.bal2) :
    Bal2OK s1.bal2 ∧ vsum s1.bal2 = vsum s.bal2 ∧ s1.supply2 = s.supply2 := by
  have e := d2_beginBlock h
  simp only [d2, Prod.mk.injEq] at e
  rw [e.1, e.2]
  split
  · have e0 : d2 (rewardFromFees { s with height := s.height + 1, time := time }) = d2 s := by
      rw [d2_rewardFromFees]; rfl
    simp only [d2, Prod.mk.injEq] at e0
    obtain ⟨k1, k2, _⟩ := rewardFromFees2_spec
      (s := rewardFromFees { s with height := s.height + 1, time := time }) (by rw [e0.1]; exact hb)
    refine ⟨k1, by rw [k2, e0.1], by rw [supply2_rewardFromFees2, e0.2]⟩
  · exact ⟨hb, rfl, rfl⟩

/-! ### transactions -/

/-- the state after both fee transfers -/
def afterAnte (s : State) (t : Tx) : State :=
  (send2 ((send s (t.msg.signer s) s.feeAcc t.feeEff).getD s) (t.msg.signer s) s.feeAcc t.fee2).getD
    ((send s (t.msg.signer s) s.feeAcc t.feeEff).getD s)

/-- the second fee transfer of an accepted transaction succeeds and moves `fee2` from the signer to the collector -/
theorem afterAnte_spec {s : State} {t : Tx} {sim : Bool} (hb : Bal2OK s.bal2) (ha : anteOK s t sim = true) :
    (∀ q, balOf2 (afterAnte s t) q =
      balOf2 s q - (if q = t.msg.signer s then t.fee2 else 0) + (if q = s.feeAcc then t.fee2 else 0)) ∧
    Bal2OK (afterAnte s t).bal2 ∧ vsum (afterAnte s t).bal2 = vsum s.bal2 ∧ (afterAnte s t).supply2 = s.supply2 := by
  obtain ⟨h0, h1⟩ := anteOK_fee2 ha
  have e0 : d2 ((send s (t.msg.signer s) s.feeAcc t.feeEff).getD s) = d2 s := d2_send_getD _ _ _ _
  simp only [d2, Prod.mk.injEq] at e0
  obtain ⟨s1, hs1, b1, w1, m1, f1⟩ := send2_spec' (s := (send s (t.msg.signer s) s.feeAcc t.feeEff).getD s)
    (by rw [e0.1]; exact hb) (t.msg.signer s) s.feeAcc h0 (by rw [balOf2_congr e0.1]; exact h1)
  have ea : afterAnte s t = s1 := by simp [afterAnte, hs1]
  rw [ea]
  refine ⟨?_, w1, by rw [m1, e0.1], by rw [f1]; exact e0.2⟩
  intro q
  rw [b1, balOf2_congr e0.1]

/-- a transaction either leaves the second denomination alone or (delivered, accepted by the ante handler) ends
with the second denomination as it is after the fee transfers -/
theorem runTx_d2 (s : State) (mode : Mode) (t : Tx) :
    d2 (runTx s mode t).1 = d2 s ∨
    (mode = .deliver ∧ anteOK s t false = true ∧ d2 (runTx s mode t).1 = d2 (afterAnte s t)) := by
  unfold runTx
  split; · exact Or.inl rfl
  split; · exact Or.inl rfl
  split; · exact Or.inl rfl
  rename_i ha
  cases mode with
  | check => exact Or.inl rfl
  | simulate => exact Or.inl rfl
  | deliver =>
    right
    have hmd : (Mode.deliver == Mode.simulate) = false := by decide
    have ha' : anteOK s t false = true := by rw [hmd] at ha; simpa using ha
    refine ⟨rfl, ha', ?_⟩
    simp only
    split
    · rename_i s' hs'; exact d2_handle hs'
    · rfl

/-- a delivered transaction that decodes, passes basic validation and the ante handler ends with the second
denomination as it is after the fee transfers, whether its message succeeds or not -/
theorem runTx_deliver_d2 {s : State} {t : Tx} (hdec : t.mutn ≠ "trunc" ∧ t.mutn ≠ "garbage")
    (hbasic : t.msg.basicOK = true) (ha : anteOK s t false = true) :
    d2 (runTx s .deliver t).1 = d2 (afterAnte s t) := by
  have hmd : (Mode.deliver == Mode.simulate) = false := by decide
  unfold runTx
  rw [if_neg (by simp [hdec.1, hdec.2]), if_neg (by simp [hbasic]), if_neg (by simp [hmd, ha])]
  simp only
  split
  · rename_i s' hs'; exact d2_handle hs'
  · rfl

theorem runTx_bal2 (s : State) (mode : Mode) (t : Tx) (hb : Bal2OK s.bal2) :
    Bal2OK (runTx s mode t).1.bal2 ∧ vsum (runTx s mode t).1.bal2 = vsum s.bal2 ∧
    (runTx s mode t).1.supply2 = s.supply2 := by
  rcases runTx_d2 s mode t with e | ⟨_, ha, e⟩
  · simp only [d2, Prod.mk.injEq] at e
    rw [e.1, e.2]; exact ⟨hb, rfl, rfl⟩
  · simp only [d2, Prod.mk.injEq] at e
    obtain ⟨_, k1, k2, k3⟩ := afterAnte_spec hb ha
    rw [e.1, e.2]; exact ⟨k1, k2, k3⟩

/-! ### every operation -/

theorem step_bal2 {s : State} {op : Op} {r : State × List (Addr × Int) × Bool}
    (hb : Bal2OK s.bal2) (hs : step s op = some r) :
    Bal2OK r.1.bal2 ∧ vsum r.1.bal2 = vsum s.bal2 ∧ r.1.supply2 = s.supply2 := by
  cases op with
  | «begin» time proposer votes evs =>
    simp only [step, Option.map_eq_some_iff] at hs
    obtain ⟨s', hb', rfl⟩ := hs
    exact beginBlock_bal2 hb' hb
  | endBlock =>
    simp only [step, Option.map_eq_some_iff] at hs
    obtain ⟨r', he, rfl⟩ := hs
    have e := d2_endBlock (s1 := r'.1) (ups := r'.2) he
    simp only [d2, Prod.mk.injEq] at e
    show Bal2OK r'.1.bal2 ∧ vsum r'.1.bal2 = vsum s.bal2 ∧ r'.1.supply2 = s.supply2
    rw [e.1, e.2]; exact ⟨hb, rfl, rfl⟩
  | commit => simp only [step, Option.some.injEq] at hs; subst hs; exact ⟨hb, rfl, rfl⟩
  | award a amt => simp only [step, Option.some.injEq] at hs; subst hs; exact ⟨hb, rfl, rfl⟩
  | burn a raw => simp only [step, Option.some.injEq] at hs; subst hs; exact ⟨hb, rfl, rfl⟩
  | tx mode t =>
    simp only [step, Option.some.injEq] at hs; subst hs
    have e : d2 (if mode == .deliver then
        { (runTx s mode t).1 with blockTxs := t.id :: (runTx s mode t).1.blockTxs } else (runTx s mode t).1) =
        d2 (runTx s mode t).1 := by split <;> rfl
    simp only [d2, Prod.mk.injEq] at e
    show Bal2OK (State.bal2 (if mode == .deliver then _ else _)) ∧
      vsum (State.bal2 (if mode == .deliver then _ else _)) = _ ∧ State.supply2 (if mode == .deliver then _ else _) = _
    rw [e.1, e.2]
    exact runTx_bal2 s mode t hb

/-! ### genesis -/

theorem supply2_fold (l : List (Addr × Int)) : ∀ t0 : Int, l.foldl (fun t e => t + e.2) t0 = t0 + vsum l := by
  induction l with
  | nil => intro t0; simp
  | cons x rest ih => intro t0; simp only [List.foldl_cons, ih, vsum_cons]; omega

theorem accs2_fold (l : List (Addr × Int)) : ∀ m : List (Addr × Int), Bal2OK m →
    (l.map (·.1)).Nodup → (∀ e ∈ l, 0 ≤ e.2) → (∀ e ∈ l, aget m e.1 = none) →
    Bal2OK (l.foldl (fun m e => if e.2 == 0 then m else aset m e.1 e.2) m) ∧
    vsum (l.foldl (fun m e => if e.2 == 0 then m else aset m e.1 e.2) m) = vsum m + vsum l := by
  induction l with
  | nil => intro m hm _ _ _; exact ⟨hm, by simp⟩
  | cons x rest ih =>
    intro m hm hnd hpos hfresh
    simp only [List.map_cons, List.nodup_cons] at hnd
    simp only [List.foldl_cons]
    by_cases hx : x.2 = 0
    · have : (x.2 == 0) = true := by simpa using hx
      rw [this, if_pos rfl]
      obtain ⟨r1, r2⟩ := ih m hm hnd.2 (fun e he => hpos e (by simp [he])) (fun e he => hfresh e (by simp [he]))
      refine ⟨r1, ?_⟩
      rw [r2, vsum_cons, hx]; omega
    · have : (x.2 == 0) = false := by simpa using hx
      rw [this]
      simp only [Bool.false_eq_true, if_false]
      have hx0 : aget m x.1 = none := hfresh x (by simp)
      have hm' : Bal2OK (aset m x.1 x.2) := by
        refine ⟨keysAsc_aset hm.asc _ _, ?_⟩
        intro e he
        rcases mem_aset he with he | he
        · subst he; have := hpos x (by simp); simp; omega
        · exact hm.pos e he
      have hfresh' : ∀ e ∈ rest, aget (aset m x.1 x.2) e.1 = none := by
        intro e he
        have hne : x.1 ≠ e.1 := by
          intro heq; apply hnd.1; rw [heq]; exact List.mem_map_of_mem he
        rw [aget_aset_ne _ _ hne]; exact hfresh e (by simp [he])
      obtain ⟨r1, r2⟩ := ih _ hm' hnd.2 (fun e he => hpos e (by simp [he])) hfresh'
      refine ⟨r1, ?_⟩
      rw [r2, vsum_aset hm.asc, hx0, vsum_cons]; simp; omega

open ChainGenesis in
/-- the genesis steps after the initial state literal do not touch the second denomination -/
theorem genesis_d2 (g : Genesis) : d2 (genesis g).1 = d2 (gInit g) := by
  have hpre : d2 (gPre g) = d2 (gInit g) := by
    unfold gPre
    simp only [d2_mint]
    show d2 (g.vals.foldl valStep (g.accs.foldl accStep (gInit g))) = _
    have h1 : d2 (g.accs.foldl accStep (gInit g)) = d2 (gInit g) :=
      foldl_inv (fun st => d2 st = d2 (gInit g)) accStep (fun st e hp => by rw [← hp]; rfl) g.accs _ rfl
    exact foldl_inv (fun st => d2 st = d2 (gInit g)) valStep (fun st e hp => by
      rw [← hp]
      unfold valStep
      simp only [d2_setBal]
      show d2 (setStaked _ _ _) = _
      simp) g.vals _ h1
  rw [genesis_eq]
  split
  · rename_i s4 ups hu
    have := d2_updateValidators hu
    rw [← hpre]
    simp only [d2, Prod.mk.injEq] at this ⊢
    exact this
  · exact hpre

open ChainGenesis in
theorem genesis_bal2 (g : Genesis) (hnd : (g.accs2.map (·.1)).Nodup) (hpos : ∀ e ∈ g.accs2, 0 ≤ e.2) :
    Bal2OK (genesis g).1.bal2 ∧ (genesis g).1.supply2 = vsum (genesis g).1.bal2 := by
  have e := genesis_d2 g
  simp only [d2, Prod.mk.injEq] at e
  rw [e.1, e.2]
  obtain ⟨r1, r2⟩ := accs2_fold g.accs2 [] ⟨by simp [KeysAsc], by simp⟩ hnd hpos (by intro e _; rfl)
  refine ⟨r1, ?_⟩
  show g.accs2.foldl (fun t e => t + e.2) 0 = vsum (g.accs2.foldl (fun m e => if e.2 == 0 then m else aset m e.1 e.2) [])
  rw [r2, supply2_fold]; simp


end Posmint.Chain.D2
