import Posmint.Lemmas.ChainSlash
import Posmint.Lemmas.ChainFrame2
/-!
Preservation of the signing-info component of `Inv` by every operation.
-/
namespace Posmint.Chain.C

/-! ### the working invariant and the "monotone" relation on validator records -/

/-- every record of `vals'` stems from a record of `vals` that was not more jailed / more bonded -/
def ValsRel (vals vals' : List (Addr × Val)) : Prop :=
  ∀ b v', aget vals' b = some v' →
    ∃ v, aget vals b = some v ∧ (v.jailed = true → v'.jailed = true) ∧ (v.status = 0 → v'.status = 0)

theorem ValsRel.refl (vals : List (Addr × Val)) : ValsRel vals vals :=
  fun _ v' h => ⟨v', h, id, id⟩

theorem ValsRel.trans {l1 l2 l3 : List (Addr × Val)} (h1 : ValsRel l1 l2) (h2 : ValsRel l2 l3) : ValsRel l1 l3 := by
  intro b v3 h
  obtain ⟨v2, e2, j2, s2⟩ := h2 b v3 h
  obtain ⟨v1, e1, j1, s1⟩ := h1 b v2 e2
  exact ⟨v1, e1, fun x => j2 (j1 x), fun x => s2 (s1 x)⟩

theorem valsRel_aset (vals : List (Addr × Val)) (a : Addr) (v v1 : Val) (hv : aget vals a = some v)
    (hj : v.jailed = true → v1.jailed = true) (hs : v.status = 0 → v1.status = 0) :
    ValsRel vals (aset vals a v1) := by
  intro b v' h
  rw [aget_aset] at h
  split at h
  · rename_i e; subst e; cases h; exact ⟨v, hv, hj, hs⟩
  · exact ⟨v', h, id, id⟩

theorem valsRel_adel (vals : List (Addr × Val)) (a : Addr) (hasc : KeysAsc vals) :
    ValsRel vals (adel vals a) := by
  intro b v' h
  by_cases e : a = b
  · subst e; rw [aget_adel_self _ _ hasc] at h; cases h
  · rw [aget_adel_ne _ _ _ e] at h; exact ⟨v', h, id, id⟩

/-- a transition that leaves signing infos and pubkey relations alone and only moves validator
records "downwards" (towards jailed / unstaked / deleted) -/
structure ValsStep (s s' : State) : Prop where
  sign : s'.sign = s.sign
  rel : s'.rel = s.rel
  vals : KeysAsc s.vals → KeysAsc s'.vals ∧ ValsRel s.vals s'.vals

theorem ValsStep.refl (s : State) : ValsStep s s := ⟨rfl, rfl, fun h => ⟨h, ValsRel.refl _⟩⟩

theorem ValsStep.trans {s1 s2 s3 : State} (h1 : ValsStep s1 s2) (h2 : ValsStep s2 s3) : ValsStep s1 s3 :=
  ⟨h2.sign.trans h1.sign, h2.rel.trans h1.rel, fun h =>
    ⟨(h2.vals (h1.vals h).1).1, (h1.vals h).2.trans (h2.vals (h1.vals h).1).2⟩⟩

theorem valsStep_of_eq (s s' : State) (h1 : s'.vals = s.vals) (h2 : s'.sign = s.sign) (h3 : s'.rel = s.rel) :
    ValsStep s s' :=
  ⟨h2, h3, fun h => by rw [h1]; exact ⟨h, ValsRel.refl _⟩⟩

/-- the invariant carried through the sub-steps of an operation -/
def SignInv (s : State) : Prop := SignOK s ∧ KeysAsc s.vals

theorem ValsStep.signInv {s s' : State} (h : ValsStep s s') (hi : SignInv s) : SignInv s' := by
  obtain ⟨⟨c1, c2⟩, hasc⟩ := hi
  obtain ⟨hasc', hrel⟩ := h.vals hasc
  refine ⟨⟨?_, ?_⟩, hasc'⟩
  · intro a v' hv'
    obtain ⟨v, hv, _, _⟩ := hrel a v' hv'
    rw [h.sign, h.rel]; exact c1 a v hv
  · intro a si hsi ht
    rw [h.sign] at hsi
    refine ⟨(c2 a si hsi ht).1, ?_⟩
    intro v' hv'
    obtain ⟨v, hv, hj, hs⟩ := hrel a v' hv'
    have := (c2 a si hsi ht).2 v hv
    exact ⟨hj this.1, hs this.2⟩

/-! ### the primitives are `ValsStep`s -/

theorem send_vals (s s' : State) (a b : Addr) (x : Int) (h : send s a b x = some s') : s'.vals = s.vals := by
  unfold send at h
  split at h
  · cases h
  · cases h; rfl

theorem send_valsStep (s s' : State) (a b : Addr) (x : Int) (h : send s a b x = some s') : ValsStep s s' :=
  valsStep_of_eq _ _ (send_vals _ _ _ _ _ h) (send_frame _ _ _ _ _ h).sign (send_frame _ _ _ _ _ h).rel

theorem send_getD_valsStep (s : State) (a b : Addr) (x : Int) : ValsStep s ((send s a b x).getD s) := by
  cases h : send s a b x with
  | none => exact ValsStep.refl s
  | some s' => exact send_valsStep _ _ _ _ _ h

theorem burnFrom_vals (s s' : State) (a : Addr) (x : Int) (h : burnFrom s a x = some s') : s'.vals = s.vals := by
  unfold burnFrom at h
  split at h
  · cases h
  · cases h; rfl

theorem burnFrom_valsStep (s s' : State) (a : Addr) (x : Int) (h : burnFrom s a x = some s') : ValsStep s s' :=
  valsStep_of_eq _ _ (burnFrom_vals _ _ _ _ h) (burnFrom_frame _ _ _ _ h).sign (burnFrom_frame _ _ _ _ h).rel

theorem forceUnstake_vals (s : State) (a : Addr) (v : Val) :
    (forceUnstake s a v).vals = aset s.vals a { v with tokens := 0, status := 0 } := by
  unfold forceUnstake
  simp only [setVal_vals]
  congr 1
  have h1 : ∀ s2 : State, (if v.tokens > 0 then (burnFrom s2 s2.pool v.tokens).getD s2 else s2).vals = s2.vals := by
    intro s2
    split
    · cases hb : burnFrom s2 s2.pool v.tokens with
      | none => rfl
      | some s3 => exact burnFrom_vals _ _ _ _ hb
    · rfl
  rw [h1]
  split <;> rfl

theorem forceUnstake_valsStep (s : State) (a : Addr) (v : Val) (hv : aget s.vals a = some v) :
    ValsStep s (forceUnstake s a v) := by
  have hf := forceUnstake_frame s a v
  refine ⟨hf.sign, hf.rel, fun hasc => ?_⟩
  rw [forceUnstake_vals]
  exact ⟨keysAsc_aset _ _ _ hasc, valsRel_aset _ _ v _ hv id (fun _ => rfl)⟩

theorem slash_valsStep (s : State) (a : Addr) (ih pw f : Int) : ValsStep s (slash s a ih pw f) := by
  unfold slash
  split; · exact ValsStep.refl s
  split; · exact ValsStep.refl s
  split; · exact ValsStep.refl s
  rename_i v hv
  split; · exact ValsStep.refl s
  simp only []
  have key : ∀ v1 : Val, v1.jailed = v.jailed → v1.status = v.status →
      ValsStep s (setStaked (setVal (delStaked s a v) a v1) a v1) ∧
      aget (setStaked (setVal (delStaked s a v) a v1) a v1).vals a = some v1 := by
    intro v1 hj hs
    have hf1 : Frame s (setStaked (setVal (delStaked s a v) a v1) a v1) :=
      ((delStaked_frame s a v).trans (setVal_frame _ _ _)).trans (setStaked_frame _ _ _)
    refine ⟨⟨hf1.sign, hf1.rel, fun hasc => ?_⟩, ?_⟩
    · simp only [setStaked_vals, setVal_vals, delStaked_vals]
      exact ⟨keysAsc_aset _ _ _ hasc, valsRel_aset _ _ v _ hv (by rw [hj]; exact id) (by rw [hs]; exact id)⟩
    · simp only [setStaked_vals, setVal_vals, delStaked_vals]; exact aget_aset_self _ _ _
  split; · exact (key { v with tokens := v.tokens - max (min (slashAmount pw f) v.tokens) 0 } rfl rfl).1
  split
  · exact (key { v with tokens := v.tokens - max (min (slashAmount pw f) v.tokens) 0 } rfl rfl).1
  · rename_i s2 hb
    have h2 := (key { v with tokens := v.tokens - max (min (slashAmount pw f) v.tokens) 0 } rfl rfl).1.trans (burnFrom_valsStep _ _ _ _ hb)
    split
    · exact h2.trans (forceUnstake_valsStep _ _ _ (by rw [burnFrom_vals _ _ _ _ hb]; exact (key { v with tokens := v.tokens - max (min (slashAmount pw f) v.tokens) 0 } rfl rfl).2))
    · exact h2

theorem jail_valsStep (s s' : State) (a : Addr) (h : jail s a = some s') : ValsStep s s' := by
  obtain ⟨v, hv, _, hvals⟩ := jail_vals _ _ _ h
  have hf := jail_frame _ _ _ h
  refine ⟨hf.sign, hf.rel, fun hasc => ?_⟩
  rw [hvals]
  exact ⟨keysAsc_aset _ _ _ hasc, valsRel_aset _ _ v _ hv (fun _ => rfl) id⟩

theorem finishOne_valsStep (s s' : State) (a : Addr) (h : finishOne s a = some s') : ValsStep s s' := by
  unfold finishOne at h
  split at h
  · cases h; exact ValsStep.refl s
  · split at h
    · cases h; exact ValsStep.refl s
    · split at h
      · cases h
      · simp only [] at h
        split at h
        · cases h
        · rename_i s2 hs
          cases h
          have hf := (dequeue_frame s a _).trans (send_frame _ _ _ _ _ hs)
          have hv : s2.vals = s.vals := (send_vals _ _ _ _ _ hs).trans rfl
          refine ⟨hf.sign, hf.rel, fun hasc => ?_⟩
          show KeysAsc (adel s2.vals a) ∧ ValsRel s.vals (adel s2.vals a)
          rw [hv]
          exact ⟨keysAsc_adel _ _ hasc, valsRel_adel _ _ hasc⟩

/-! ### folds -/

theorem foldl_inv {σ α : Type} (R : σ → Prop) (g : σ → α → σ) (hg : ∀ s x, R s → R (g s x))
    (l : List α) (init : σ) (h : R init) : R (l.foldl g init) := by
  induction l generalizing init with
  | nil => exact h
  | cons x rest ih => exact ih _ (hg _ _ h)

theorem foldl_opt_inv {σ α : Type} (R : σ → Prop) (g : Option σ → α → Option σ)
    (hnone : ∀ x, g none x = none)
    (hg : ∀ s x s', R s → g (some s) x = some s' → R s')
    (l : List α) (init : Option σ) (s' : σ) (hinit : ∀ s0, init = some s0 → R s0)
    (h : l.foldl g init = some s') : R s' := by
  induction l generalizing init with
  | nil => exact hinit _ h
  | cons x rest ih =>
    simp only [List.foldl_cons] at h
    refine ih (g init x) ?_ h
    intro s1 h1
    cases init with
    | none => rw [hnone] at h1; cases h1
    | some s0 => exact hg s0 x s1 (hinit _ rfl) h1

/-! ### BeginBlock / EndBlock pieces that are `ValsStep`s -/

theorem rewardFromFees_valsStep (s : State) : ValsStep s (rewardFromFees s) := by
  unfold rewardFromFees
  simp only []
  split
  · exact ValsStep.refl s
  · rename_i s1 h1
    have hs1 := send_valsStep _ _ _ _ _ h1
    split
    · exact hs1.trans (send_getD_valsStep _ _ _ _)
    · exact hs1

theorem send2_getD_valsStep (s : State) (src dst : Addr) (amt : Int) : ValsStep s ((send2 s src dst amt).getD s) :=
  valsStep_of_eq _ _ (F2.vals_send2_getD ..) (F2.sign_send2_getD ..) (F2.rel_send2_getD ..)

theorem rewardFromFees2_valsStep (s : State) : ValsStep s (rewardFromFees2 s) :=
  valsStep_of_eq _ _ (F2.vals_rewardFromFees2 _) (F2.sign_rewardFromFees2 _) (F2.rel_rewardFromFees2 _)

theorem mintAwards_valsStep (s s' : State) (h : mintAwards s = some s') : ValsStep s s' := by
  unfold mintAwards at h
  split at h
  · cases h
  · simp only [] at h
    injection h with h
    subst h
    have := foldl_inv (fun st => ValsStep s st)
      (fun st (e : Addr × Int) => (send (mint st st.pool e.2) (mint st st.pool e.2).pool e.1 e.2).getD (mint st st.pool e.2))
      (fun st e hst => (hst.trans (valsStep_of_eq st (mint st st.pool e.2) rfl rfl rfl)).trans (send_getD_valsStep _ _ _ _))
      s.awards s (ValsStep.refl s)
    exact this.trans (valsStep_of_eq _ _ rfl rfl rfl)

theorem burnValidators_valsStep (s s' : State) (h : burnValidators s = some s') : ValsStep s s' := by
  unfold burnValidators at h
  simp only [Option.map_eq_some_iff] at h
  obtain ⟨st, hst, rfl⟩ := h
  have := foldl_opt_inv (fun st => ValsStep s st) _ (fun _ => rfl) ?_ s.burns (some s) st
    (fun s0 h0 => by cases h0; exact ValsStep.refl s) hst
  · exact this.trans (valsStep_of_eq _ _ rfl rfl rfl)
  · intro s1 e s2 hs1 he
    simp only [] at he
    split at he
    · cases he
    · split at he
      · cases he
      · cases he; exact hs1.trans (slash_valsStep _ _ _ _ _)

theorem updateValidators_valsStep (s s' : State) (ups : List (Addr × Int))
    (h : updateValidators s = some (s', ups)) : ValsStep s s' := by
  unfold updateValidators at h
  split at h
  · cases h
  · split at h
    · cases h
    · simp only [] at h
      injection h with h
      injection h with h1 h2
      subst h1
      exact valsStep_of_eq _ _ rfl rfl rfl

theorem unstakeMature_valsStep (s s' : State) (h : unstakeMature s = some s') : ValsStep s s' := by
  unfold unstakeMature at h
  simp only [] at h
  refine foldl_opt_inv (fun st => ValsStep s st) _ (fun _ => rfl) ?_ _ (some s) s'
    (fun s0 h0 => by cases h0; exact ValsStep.refl s) h
  intro s1 slot s2 hs1 he
  simp only [Option.bind_some, Option.map_eq_some_iff] at he
  obtain ⟨x, hx, rfl⟩ := he
  have := foldl_opt_inv (fun st => ValsStep s st) _ (fun _ => rfl) ?_ slot.2 (some s1) x
    (fun s0 h0 => by cases h0; exact hs1) hx
  · exact this.trans (valsStep_of_eq _ _ rfl rfl rfl)
  · intro s3 a s4 hs3 he
    simp only [Option.bind_some] at he
    exact hs3.trans (finishOne_valsStep _ _ _ he)

theorem endBlock_valsStep (s s' : State) (ups : List (Addr × Int)) (h : endBlock s = some (s', ups)) :
    ValsStep s s' := by
  unfold endBlock at h
  split at h
  · cases h
  · rename_i s1 ups1 h1
    simp only [Option.map_eq_some_iff] at h
    obtain ⟨s2, h2, he⟩ := h
    injection he with he1 he2
    subst he1
    exact (updateValidators_valsStep _ _ _ h1).trans (unstakeMature_valsStep _ _ h2)

/-! ### transitions that write a signing info -/

theorem signInv_setSign (s s' : State) (a : Addr) (si' : Sign)
    (hv : s'.vals = s.vals) (hr : s'.rel = s.rel) (hs : s'.sign = aset s.sign a si')
    (hnew : si'.tomb = true → si'.jailedUntil = forever ∧
      ∀ v, aget s.vals a = some v → v.jailed = true ∧ v.status = 0)
    (hi : SignInv s) : SignInv s' := by
  obtain ⟨⟨c1, c2⟩, hasc⟩ := hi
  refine ⟨⟨?_, ?_⟩, hv ▸ hasc⟩
  · intro b v hb
    rw [hv] at hb
    rw [hs, hr, aget_aset]
    split
    · exact ⟨rfl, (c1 b v hb).2⟩
    · exact c1 b v hb
  · intro b si hb ht
    rw [hs, aget_aset] at hb
    rw [hv]
    split at hb
    · rename_i e; subst e; cases hb; exact hnew ht
    · exact c2 b si hb ht

theorem handleSignature_signInv (s s' : State) (a : Addr) (pw : Int) (signed : Bool)
    (hi : SignInv s) (h : handleSignature s a pw signed = some s') : SignInv s' := by
  rw [handleSignature_eq] at h
  split at h
  · cases h
  split at h
  · cases h
  rename_i si hsi
  split at h
  · cases h
  simp only [] at h
  generalize winUpd s.missedBits a si s.p.window signed = r at h
  have hadv : ∀ s'', some (sigAdvance s a si r) = some s'' → SignInv s'' := by
    intro s'' e
    injection e with e
    subst e
    exact signInv_setSign s _ a _ rfl rfl rfl (fun ht => hi.1.2 a si hsi ht) hi
  split at h
  · split at h
    · rename_i v hv
      split at h
      · rename_i hj
        split at h
        · cases h
        · rename_i s3 hjail
          injection h with h
          subst h
          have hj' : v.jailed = false := by simpa using hj
          have htomb : si.tomb = false := by
            cases ht : si.tomb with
            | false => rfl
            | true =>
              have := ((hi.1.2 a si hsi ht).2 v hv).1
              rw [hj'] at this; cases this
          have h1 : ValsStep s { s with missedBits := r.1 } := valsStep_of_eq _ _ rfl rfl rfl
          have h3 : ValsStep s s3 :=
            (h1.trans (slash_valsStep _ a (s.height - 1 - 1) pw s.p.sfDown)).trans (jail_valsStep _ _ _ hjail)
          refine signInv_setSign s3 _ a _ rfl rfl rfl ?_ (h3.signInv hi)
          intro ht
          simp only [htomb] at ht
          cases ht
      · exact hadv _ h
    · exact hadv _ h
  · exact hadv _ h

theorem handleDoubleSign_signInv (s s' : State) (a : Addr) (ih et pw : Int)
    (hi : SignInv s) (h : handleDoubleSign s a ih et pw = some s') : SignInv s' := by
  unfold handleDoubleSign at h
  split at h
  · cases h
  split at h
  · cases h; exact hi
  split at h
  · cases h
  rename_i v hv
  split at h
  · cases h
  split at h
  · cases h
  rename_i si hsi
  split at h
  · cases h
  split at h
  · cases h
  simp only [] at h
  have hsl := slash_valsStep s a (ih - 1) pw s.p.sfDouble
  generalize slash s a (ih - 1) pw s.p.sfDouble = s1 at h hsl
  split at h
  · cases h
  rename_i s2 hs2
  split at h
  · cases h
  rename_i v2 hv2
  injection h with h
  subst h
  -- the record found after jailing is jailed
  have hv2j : v2.jailed = true := by
    by_cases hj : v.jailed = true
    · have e : s2 = s1 := by simpa [hj] using hs2.symm
      subst e
      obtain ⟨v0, e0, j0, _⟩ := (hsl.vals hi.2).2 a v2 hv2
      rw [hv] at e0; cases e0
      exact j0 hj
    · have hj' : (!v.jailed) = true := by simpa using hj
      rw [if_pos hj'] at hs2
      obtain ⟨v0, _, _, hvals⟩ := jail_vals _ _ _ hs2
      rw [hvals, aget_aset_self] at hv2
      cases hv2; rfl
  have h12 : ValsStep s1 s2 := by
    by_cases hj : (!v.jailed) = true
    · rw [if_pos hj] at hs2; exact jail_valsStep _ _ _ hs2
    · rw [if_neg hj] at hs2; cases hs2; exact ValsStep.refl _
  have h3 : ValsStep s (forceUnstake s2 a v2) := (hsl.trans h12).trans (forceUnstake_valsStep _ _ _ hv2)
  refine signInv_setSign (forceUnstake s2 a v2) _ a _ rfl rfl rfl ?_ (h3.signInv hi)
  intro _
  refine ⟨rfl, ?_⟩
  intro v' hv'
  rw [forceUnstake_vals, aget_aset_self] at hv'
  cases hv'
  exact ⟨hv2j, rfl⟩

/-- the per-call tombstone fact: successful double-sign evidence inside the evidence window leaves
the offender tombstoned, jailed forever, unstaked and without stake -/
theorem handleDoubleSign_tombstones (s s' : State) (a : Addr) (ih et pw : Int)
    (hage : s.time - et ≤ s.p.maxAge) (h : handleDoubleSign s a ih et pw = some s') :
    (∃ si, aget s'.sign a = some si ∧ si.tomb = true ∧ si.jailedUntil = forever) ∧
    (∃ v', aget s'.vals a = some v' ∧ v'.tokens = 0 ∧ v'.status = 0) := by
  unfold handleDoubleSign at h
  split at h
  · cases h
  rw [if_neg (by omega)] at h
  split at h
  · cases h
  split at h
  · cases h
  split at h
  · cases h
  split at h
  · cases h
  split at h
  · cases h
  simp only [] at h
  split at h
  · cases h
  rename_i s2 _
  split at h
  · cases h
  rename_i v2 _
  injection h with h
  subst h
  refine ⟨⟨_, aget_aset_self _ _ _, rfl, rfl⟩, ?_⟩
  have hv' : aget (forceUnstake s2 a v2).vals a = some { v2 with tokens := 0, status := 0 } := by
    rw [forceUnstake_vals, aget_aset_self]
  exact ⟨_, hv', rfl, rfl⟩

/-! ### message handlers -/

/-- a record of `a` is (re)written while `a`'s signing info exists and is not tombstoned -/
theorem signInv_setVal_untomb (s s' : State) (a : Addr) (v1 : Val)
    (hvals : s'.vals = aset s.vals a v1)
    (hrel : ∀ b, b ∈ s.rel → b ∈ s'.rel) (harel : a ∈ s'.rel)
    (hsign : ∀ b, b ≠ a → aget s'.sign b = aget s.sign b)
    (ha : ∃ si, aget s'.sign a = some si ∧ si.tomb = false)
    (hi : SignInv s) : SignInv s' := by
  obtain ⟨⟨c1, c2⟩, hasc⟩ := hi
  refine ⟨⟨?_, ?_⟩, hvals ▸ keysAsc_aset _ _ _ hasc⟩
  · intro b v hb
    rw [hvals, aget_aset] at hb
    by_cases e : a = b
    · subst e
      obtain ⟨si, hsi, _⟩ := ha
      exact ⟨by rw [hsi]; rfl, harel⟩
    · rw [if_neg e] at hb
      rw [hsign b (fun x => e x.symm)]
      exact ⟨(c1 b v hb).1, hrel b (c1 b v hb).2⟩
  · intro b si hb ht
    by_cases e : a = b
    · subst e
      obtain ⟨si0, hsi0, ht0⟩ := ha
      rw [hsi0] at hb; cases hb
      rw [ht0] at ht; cases ht
    · rw [hsign b (fun x => e x.symm)] at hb
      rw [hvals, aget_aset_ne _ _ _ _ e]
      exact c2 b si hb ht

theorem applyParam_valsStep (s : State) (key val : String) : ValsStep s (applyParam s key val) := by
  unfold applyParam
  split
  all_goals first
    | exact ValsStep.refl s
    | (split <;> first | exact ValsStep.refl s | exact valsStep_of_eq _ _ rfl rfl rfl)

theorem handle_stake_signInv (s s' : State) (k : Nat) (amt : Int) (hi : SignInv s)
    (h : handle s (.stake k amt) = some s') : SignInv s' := by
  unfold handle at h
  simp only [] at h
  split at h
  · cases h
  generalize keyAddr s k = a at h
  generalize hv : (aget s.vals a).getD { status := 0, jailed := false, tokens := 0, unstake := 0 } = v at h
  split at h
  · cases h
  -- the tombstone test
  have htomb : ∀ si, aget s.sign a = some si → si.tomb = false := by
    intro si hsa
    rw [hsa] at h
    simp only [] at h
    cases ht : si.tomb with
    | false => rfl
    | true => simp [ht] at h
  have h' : (if amt < s.p.minStake then none
      else if balOf s a < amt then none
      else
        match send { s with rel := if s.rel.contains a then s.rel else a :: s.rel } a s.pool amt with
        | none => none
        | some s1 =>
          if (!v.jailed && !Arith.isInt64 (power (v.tokens + amt))) = true then none else
          some (if (aget (setStaked (setVal s1 a { v with tokens := v.tokens + amt, status := 2 }) a
                    { v with tokens := v.tokens + amt, status := 2 }).sign a).isSome
                then setStaked (setVal s1 a { v with tokens := v.tokens + amt, status := 2 }) a
                    { v with tokens := v.tokens + amt, status := 2 }
                else { setStaked (setVal s1 a { v with tokens := v.tokens + amt, status := 2 }) a
                    { v with tokens := v.tokens + amt, status := 2 } with
                  sign := aset (setStaked (setVal s1 a { v with tokens := v.tokens + amt, status := 2 }) a
                    { v with tokens := v.tokens + amt, status := 2 }).sign a
                      { start := s.height, offset := 0, missed := 0, jailedUntil := 0, tomb := false } })) = some s' := by
    cases hsa : aget s.sign a with
    | none =>
      rw [hsa] at h
      simp only [Bool.false_eq_true, if_false] at h
      exact h
    | some si =>
      rw [hsa] at h
      simp only [htomb si hsa, Bool.false_eq_true, if_false] at h
      exact h
  clear h
  have h := h'
  clear h'
  split at h
  · cases h
  split at h
  · cases h
  split at h
  · cases h
  rename_i s1 hs1
  split at h
  · cases h
  injection h with h
  have hf := send_frame _ _ _ _ _ hs1
  have hv1 := send_vals _ _ _ _ _ hs1
  have hsign1 : s1.sign = s.sign := hf.sign
  have hrel1 : s1.rel = (if s.rel.contains a then s.rel else a :: s.rel) := hf.rel
  have hvals1 : s1.vals = s.vals := hv1
  have harel : a ∈ s1.rel := by
    rw [hrel1]
    split
    · rename_i hc; simpa using hc
    · simp
  have hsub : ∀ b, b ∈ s.rel → b ∈ s1.rel := by
    intro b hb
    rw [hrel1]
    split
    · exact hb
    · simp [hb]
  generalize hv1' : ({ v with tokens := v.tokens + amt, status := 2 } : Val) = v1 at h
  have hs2sign : (setStaked (setVal s1 a v1) a v1).sign = s.sign :=
    ((setVal_frame s1 a v1).trans (setStaked_frame _ _ _)).sign.trans hsign1
  have hs2rel : (setStaked (setVal s1 a v1) a v1).rel = s1.rel :=
    ((setVal_frame s1 a v1).trans (setStaked_frame _ _ _)).rel
  have hs2vals : (setStaked (setVal s1 a v1) a v1).vals = aset s.vals a v1 := by
    simp only [setStaked_vals, setVal_vals, hvals1]
  generalize setStaked (setVal s1 a v1) a v1 = s2 at h hs2sign hs2rel hs2vals
  cases hsa : aget s.sign a with
  | some si =>
    have htf : si.tomb = false := htomb si hsa
    rw [hs2sign, hsa] at h
    simp only [Option.isSome_some, if_true] at h
    subst h
    exact signInv_setVal_untomb s s2 a v1 hs2vals (by rw [hs2rel]; exact hsub) (by rw [hs2rel]; exact harel)
      (fun b _ => by rw [hs2sign]) ⟨si, by rw [hs2sign]; exact hsa, htf⟩ hi
  | none =>
    rw [hs2sign, hsa] at h
    simp only [Option.isSome_none, Bool.false_eq_true, if_false] at h
    subst h
    refine signInv_setVal_untomb s _ a v1 hs2vals (by show ∀ b, b ∈ s.rel → b ∈ s2.rel; rw [hs2rel]; exact hsub)
      (by show a ∈ s2.rel; rw [hs2rel]; exact harel) ?_ ⟨_, aget_aset_self _ _ _, rfl⟩ hi
    intro b hb
    show aget (aset s.sign a _) b = _
    rw [aget_aset_ne _ _ _ _ (fun e => hb e.symm)]

theorem handle_signInv (s s' : State) (m : Msg) (hi : SignInv s) (h : handle s m = some s') : SignInv s' := by
  cases m with
  | stake k amt => exact handle_stake_signInv s s' k amt hi h
  | unstake a =>
    unfold handle at h
    simp only [] at h
    split at h
    · cases h
    rename_i v hv
    split at h
    · cases h
    rename_i hst
    split at h
    · cases h
    split at h
    · cases h
    injection h with h
    subst h
    refine ValsStep.signInv (s := s) ⟨rfl, rfl, fun hasc => ?_⟩ hi
    show KeysAsc (aset s.vals a _) ∧ ValsRel s.vals (aset s.vals a _)
    refine ⟨keysAsc_aset _ _ _ hasc, valsRel_aset _ _ v _ hv id ?_⟩
    intro h0
    have : v.status = 2 := by simpa using hst
    omega
  | unjail a =>
    unfold handle at h
    simp only [] at h
    split at h
    · cases h
    rename_i v hv
    split at h
    · cases h
    split at h
    · cases h
    split at h
    · cases h
    rename_i si hsi
    split at h
    · cases h
    rename_i htomb
    split at h
    · cases h
    split at h
    · cases h
    injection h with h
    subst h
    have hf := (setVal_frame s a { v with jailed := false }).trans (setStaked_frame _ a { v with jailed := false })
    refine signInv_setVal_untomb s _ a { v with jailed := false } (by simp) (by rw [hf.rel]; exact fun _ h => h)
      (by rw [hf.rel]; exact (hi.1.1 a v hv).2) (fun b _ => by rw [hf.sign])
      ⟨si, by rw [hf.sign]; exact hsi, by simpa using htomb⟩ hi
  | send src dst amt =>
    unfold handle at h
    exact (send_valsStep _ _ _ _ _ h).signInv hi
  | changeParam src key val =>
    unfold handle at h
    simp only [] at h
    split at h
    · cases h
    · split at h
      · cases h
      · cases h; exact (applyParam_valsStep s key val).signInv hi
  | daoTransfer src dst amt =>
    unfold handle at h
    simp only [] at h
    split at h
    · cases h
    · split at h
      · cases h
      · exact (send_valsStep _ _ _ _ _ h).signInv hi
  | daoBurn src amt =>
    unfold handle at h
    simp only [] at h
    split at h
    · cases h
    · split at h
      · cases h
      · exact (burnFrom_valsStep _ _ _ _ h).signInv hi
  | upgrade src hh ver =>
    unfold handle at h
    simp only [] at h
    split at h
    · cases h
    · split at h
      · cases h
      · cases h; exact hi

/-! ### the operations -/

theorem beginBlock_signInv (s s' : State) (time : Int) (proposer : Addr) (votes : List Vote) (evs : List Evidence)
    (hi : SignInv s) (h : beginBlock s time proposer votes evs = some s') : SignInv s' := by
  unfold beginBlock at h
  simp only [] at h
  split at h
  · cases h
  rename_i s3 h3
  have h0 : ValsStep s { s with height := s.height + 1, time := time } := valsStep_of_eq _ _ rfl rfl rfl
  have h1 : ValsStep s (if ({ s with height := s.height + 1, time := time } : State).height > 1
      then rewardFromFees2 (rewardFromFees { s with height := s.height + 1, time := time })
      else { s with height := s.height + 1, time := time }) := by
    split
    · exact (h0.trans (rewardFromFees_valsStep _)).trans (rewardFromFees2_valsStep _)
    · exact h0
  generalize (if ({ s with height := s.height + 1, time := time } : State).height > 1
      then rewardFromFees2 (rewardFromFees { s with height := s.height + 1, time := time })
      else { s with height := s.height + 1, time := time }) = s1 at h1 h3
  rw [Option.bind_eq_some_iff] at h3
  obtain ⟨s2, hm, hb⟩ := h3
  have h3' : ValsStep s s3 := (h1.trans (mintAwards_valsStep _ _ hm)).trans (burnValidators_valsStep _ _ hb)
  have h4 : SignInv { s3 with proposer := proposer } :=
    (h3'.trans (valsStep_of_eq _ _ rfl rfl rfl)).signInv hi
  refine foldl_opt_inv SignInv _ (fun _ => rfl) ?_ evs _ s' ?_ h
  · intro st e st' hst he
    simp only [Option.bind_some] at he
    exact handleDoubleSign_signInv _ _ _ _ _ _ hst he
  · intro s5 h5
    refine foldl_opt_inv SignInv _ (fun _ => rfl) ?_ votes _ s5 ?_ h5
    · intro st v st' hst he
      simp only [Option.bind_some] at he
      exact handleSignature_signInv _ _ _ _ _ hst he
    · intro s0 e0; cases e0; exact h4

theorem runTx_signInv (s : State) (mode : Mode) (t : Tx) (hi : SignInv s) : SignInv (runTx s mode t).1 := by
  unfold runTx
  split; · exact hi
  split; · exact hi
  split; · exact hi
  simp only []
  have ha : SignInv ((send2 ((send s (t.msg.signer s) s.feeAcc t.feeEff).getD s) (t.msg.signer s) s.feeAcc t.fee2).getD
      ((send s (t.msg.signer s) s.feeAcc t.feeEff).getD s)) :=
    ((send_getD_valsStep _ _ _ _).trans (send2_getD_valsStep _ _ _ _)).signInv hi
  cases mode with
  | check => exact hi
  | simulate => exact hi
  | deliver =>
    simp only []
    cases hh : handle ((send2 ((send s (t.msg.signer s) s.feeAcc t.feeEff).getD s) (t.msg.signer s) s.feeAcc t.fee2).getD
      ((send s (t.msg.signer s) s.feeAcc t.feeEff).getD s)) t.msg with
    | none => exact ha
    | some s' => exact handle_signInv _ _ _ ha hh

theorem step_signOK (s : State) (op : Op) (r : State × List (Addr × Int) × Bool)
    (h : Inv s) (hs : step s op = some r) : SignOK r.1 := by
  have hi : SignInv s := ⟨h.sign, h.wf.valsAsc⟩
  suffices SignInv r.1 from this.1
  cases op with
  | «begin» time proposer votes evs =>
    simp only [step, Option.map_eq_some_iff] at hs
    obtain ⟨s', hb, rfl⟩ := hs
    exact beginBlock_signInv _ _ _ _ _ _ hi hb
  | endBlock =>
    simp only [step, Option.map_eq_some_iff] at hs
    obtain ⟨r', he, rfl⟩ := hs
    exact (endBlock_valsStep s r'.1 r'.2 he).signInv hi
  | commit =>
    simp only [step] at hs
    injection hs with hs; subst hs
    exact (valsStep_of_eq s _ rfl rfl rfl).signInv hi
  | award a amt =>
    simp only [step] at hs
    injection hs with hs; subst hs
    exact (valsStep_of_eq s _ rfl rfl rfl).signInv hi
  | burn a raw =>
    simp only [step] at hs
    injection hs with hs; subst hs
    exact (valsStep_of_eq s _ rfl rfl rfl).signInv hi
  | tx mode t =>
    simp only [step] at hs
    injection hs with hs; subst hs
    have hr := runTx_signInv s mode t hi
    show SignInv (if mode == .deliver then _ else _)
    split
    · exact (valsStep_of_eq _ _ rfl rfl rfl).signInv hr
    · exact hr

end Posmint.Chain.C
