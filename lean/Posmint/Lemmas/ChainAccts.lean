import Posmint.Lemmas.ChainTx
/-!
The account set (`accts`) and the set of accounts carrying a public key (`keyed`) along every operation:
`accts` only grows (the one writer is `touch`, inside `send`), `keyed` is never written.

`ak s` is the pair of the two fields; most state transformers keep it (`ak_*`, the same shape as the `gov_*` lemmas of
`ChainTx`), the ones that move coins to an account only enlarge it (`AcctLe`).
-/
namespace Posmint.Chain.Accts
open Posmint.Chain Posmint.Chain.F2 Posmint.Chain.ChainTx

/-- a write to an association list keeps every key that was there (any list, sorted or not) -/
theorem aget_aset_isSome {α : Type} (l : List (Addr × α)) (a b : Addr) (v : α)
    (h : (aget l b).isSome = true) : (aget (aset l a v) b).isSome = true := by
  rw [aget_aset]
  split
  · rfl
  · exact h

def ak (s : State) : List (Addr × Unit) × List Addr := (s.accts, s.keyed)

/-- every account of `s` exists in `s'`, and the keyed accounts are the same -/
def AcctLe (s s' : State) : Prop := (∀ a, acctExists s a = true → acctExists s' a = true) ∧ s'.keyed = s.keyed

theorem AcctLe.refl (s : State) : AcctLe s s := ⟨fun _ h => h, rfl⟩

theorem AcctLe.trans {a b c : State} (h1 : AcctLe a b) (h2 : AcctLe b c) : AcctLe a c :=
  ⟨fun x h => h2.1 x (h1.1 x h), h2.2.trans h1.2⟩

theorem AcctLe.of_ak {s s' : State} (h : ak s' = ak s) : AcctLe s s' := by
  simp only [ak, Prod.mk.injEq] at h
  refine ⟨fun a ha => ?_, h.2⟩
  simp only [acctExists, h.1] at ha ⊢
  exact ha

theorem AcctLe.right {s s' s'' : State} (h1 : AcctLe s s') (h : ak s'' = ak s') : AcctLe s s'' :=
  h1.trans (AcctLe.of_ak h)

theorem AcctLe.left {s0 s s' : State} (h : ak s = ak s0) (h1 : AcctLe s s') : AcctLe s0 s' :=
  (AcctLe.of_ak h).trans h1

/-! ### the bank -/

theorem touch_le (s : State) (a : Addr) : AcctLe s (touch s a) := by
  refine ⟨fun b h => ?_, rfl⟩
  simp only [acctExists, accts_touch] at h ⊢
  exact aget_aset_isSome _ _ _ _ h

theorem acctExists_touch (s : State) (a : Addr) : acctExists (touch s a) a = true := by
  simp only [acctExists, accts_touch, aget_aset_self, Option.isSome_some]

@[simp] theorem ak_setBal (s : State) (a : Addr) (x : Int) : ak (setBal s a x) = ak s := rfl
@[simp] theorem ak_mint (s : State) (a : Addr) (x : Int) : ak (mint s a x) = ak s := rfl
@[simp] theorem ak_setVal (s : State) (a : Addr) (v : Val) : ak (setVal s a v) = ak s := rfl
@[simp] theorem ak_delStaked (s : State) (a : Addr) (v : Val) : ak (delStaked s a v) = ak s := rfl
@[simp] theorem ak_enqueue (s : State) (a : Addr) (t : Int) : ak (enqueue s a t) = ak s := rfl
@[simp] theorem ak_dequeue (s : State) (a : Addr) (t : Int) : ak (dequeue s a t) = ak s := rfl
@[simp] theorem ak_setStaked (s : State) (a : Addr) (v : Val) : ak (setStaked s a v) = ak s := by
  unfold setStaked; split <;> rfl
@[simp] theorem ak_setBal2 (s : State) (a : Addr) (x : Int) : ak (setBal2 s a x) = ak s := rfl

/-- what `send` does to the account set: the receiving account exists afterwards, nothing else changes -/
theorem send_accts {s s1 : State} {src dst : Addr} {amt : Int} (h : send s src dst amt = some s1) :
    s1.accts = aset s.accts dst () ∧ s1.keyed = s.keyed := by
  unfold send at h
  split at h
  · simp at h
  · simp only [Option.some.injEq] at h
    subst h
    exact ⟨rfl, rfl⟩

theorem send_le {s s1 : State} {src dst : Addr} {amt : Int} (h : send s src dst amt = some s1) : AcctLe s s1 := by
  obtain ⟨h1, h2⟩ := send_accts h
  refine ⟨fun b hb => ?_, h2⟩
  simp only [acctExists, h1] at hb ⊢
  exact aget_aset_isSome _ _ _ _ hb

theorem send_getD_le (s : State) (src dst : Addr) (amt : Int) : AcctLe s ((send s src dst amt).getD s) := by
  cases h : send s src dst amt with
  | none => exact AcctLe.refl s
  | some s1 => exact send_le h

theorem send_dst_exists {s s1 : State} {src dst : Addr} {amt : Int} (h : send s src dst amt = some s1) :
    acctExists s1 dst = true := by
  simp only [acctExists, (send_accts h).1, aget_aset_self, Option.isSome_some]

theorem ak_burnFrom {s s1 : State} {a : Addr} {amt : Int} (h : burnFrom s a amt = some s1) : ak s1 = ak s := by
  rw [burnFrom_frame h]; rfl

@[simp] theorem ak_burnFrom_getD (s : State) (a : Addr) (amt : Int) : ak ((burnFrom s a amt).getD s) = ak s := by
  cases h : burnFrom s a amt with
  | none => rfl
  | some s1 => exact ak_burnFrom h

theorem ak_send2 {s s1 : State} {src dst : Addr} {amt : Int} (h : send2 s src dst amt = some s1) : ak s1 = ak s := by
  rw [send2_frame h]; rfl

@[simp] theorem ak_send2_getD (s : State) (src dst : Addr) (amt : Int) : ak ((send2 s src dst amt).getD s) = ak s := by
  rw [send2_getD_frame]; rfl

@[simp] theorem ak_rewardFromFees2 (s : State) : ak (rewardFromFees2 s) = ak s := by
  rw [rewardFromFees2_frame]; rfl

/-! ### slashing -/

@[simp] theorem ak_forceUnstake (s : State) (a : Addr) (v : Val) : ak (forceUnstake s a v) = ak s := by
  unfold forceUnstake
  simp only [ak_setVal]
  split <;> split <;> simp

@[simp] theorem ak_slash (s : State) (a : Addr) (ih pw f : Int) : ak (slash s a ih pw f) = ak s := by
  unfold slash
  split; · rfl
  split; · rfl
  split; · rfl
  split; · rfl
  simp only
  split; · simp
  split
  · simp
  · rename_i s2 h2
    have := ak_burnFrom h2
    split <;> simp [this]

theorem ak_jail {s s1 : State} {a : Addr} (h : jail s a = some s1) : ak s1 = ak s := by
  unfold jail at h
  split at h
  · simp at h
  · split at h
    · simp at h
    · simp at h; subst h; simp

theorem ak_handleSignature {s s1 : State} {a : Addr} {pw : Int} {signed : Bool}
    (h : handleSignature s a pw signed = some s1) : ak s1 = ak s := by
  unfold handleSignature at h
  split at h; · simp at h
  split at h; · simp at h
  split at h; · simp at h
  simp only at h
  repeat' (split at h)
  all_goals first
    | (simp at h; done)
    | (simp at h; subst h; rfl)
    | (rename_i s3 h3
       simp at h; subst h
       have := ak_jail h3
       rw [ak_slash] at this
       simp only [ak, Prod.mk.injEq] at this ⊢
       exact this)

theorem ak_handleDoubleSign {s s1 : State} {a : Addr} {ih et pw : Int}
    (h : handleDoubleSign s a ih et pw = some s1) : ak s1 = ak s := by
  unfold handleDoubleSign at h
  split at h; · simp at h
  split at h; · simp at h; subst h; rfl
  split at h; · simp at h
  split at h; · simp at h
  split at h; · simp at h
  split at h; · simp at h
  split at h; · simp at h
  simp only at h
  split at h; · simp at h
  rename_i s2 h2
  split at h; · simp at h
  simp at h; subst h
  have e2 : ak s2 = ak s := by
    split at h2
    · rw [ak_jail h2]; simp
    · simp at h2; subst h2; simp
  have := ak_forceUnstake s2 a ‹Val›
  simp [ak] at this e2 ⊢
  simp [this, e2]

/-! ### BeginBlock -/

theorem rewardFromFees_le (s : State) : AcctLe s (rewardFromFees s) := by
  unfold rewardFromFees
  simp only
  split
  · exact AcctLe.refl s
  · rename_i s1 h1
    have l1 := send_le h1
    split
    · exact l1.trans (send_getD_le _ _ _ _)
    · exact l1

/-- a relation carried through a fold -/
theorem foldl_le {β : Type} (f : State → β → State) (hstep : ∀ st e, AcctLe st (f st e)) :
    ∀ (l : List β) (s : State), AcctLe s (l.foldl f s) := by
  intro l
  induction l with
  | nil => intro s; exact AcctLe.refl s
  | cons e rest ih => intro s; exact (hstep s e).trans (ih _)

theorem mintAwards_le {s s1 : State} (h : mintAwards s = some s1) : AcctLe s s1 := by
  unfold mintAwards at h
  split at h; · simp at h
  simp at h; subst h
  refine AcctLe.right (foldl_le (fun st (e : Addr × Int) =>
      ((send (mint st st.pool e.2) (mint st st.pool e.2).pool e.1 e.2).getD (mint st st.pool e.2))) ?_ s.awards s) rfl
  intro st e
  exact AcctLe.left (ak_mint st st.pool e.2) (send_getD_le _ _ _ _)

theorem ak_burnValidators {s s1 : State} (h : burnValidators s = some s1) : ak s1 = ak s := by
  unfold burnValidators at h
  simp only [Option.map_eq_some_iff] at h
  obtain ⟨st, hst, rfl⟩ := h
  have := foldl_opt_inv (fun x => ak x = ak s) _ (by intro e; rfl)
    (by
      intro st e st' hp hf
      simp only at hf
      split at hf
      · simp at hf
      · split at hf
        · simp at hf
        · simp at hf; subst hf; simp [hp]) s.burns s st rfl hst
  simp only [ak] at this ⊢
  exact this

theorem beginBlock_le {s s1 : State} {time : Int} {proposer : Addr} {votes : List Vote} {evs : List Evidence}
    (h : beginBlock s time proposer votes evs = some s1) : AcctLe s s1 := by
  unfold beginBlock at h
  simp only at h
  split at h; · simp at h
  rename_i s3 h3
  have e3 : AcctLe s s3 := by
    rw [Option.bind_eq_some_iff] at h3
    obtain ⟨s2, h2, h3⟩ := h3
    refine AcctLe.right (AcctLe.trans ?_ (mintAwards_le h2)) (ak_burnValidators h3)
    split
    · refine AcctLe.right (AcctLe.left ?_ (rewardFromFees_le _)) (ak_rewardFromFees2 _)
      rfl
    · exact AcctLe.of_ak rfl
  cases h5 : votes.foldl (fun (st? : Option State) v => st?.bind fun st => handleSignature st v.addr v.power v.signed)
      (some { s3 with proposer := proposer }) with
  | none =>
    rw [h5] at h
    have : ∀ l : List Evidence, l.foldl (fun (st? : Option State) e => st?.bind fun st => handleDoubleSign st e.addr e.height e.time e.power) none = none := by
      intro l; induction l with
      | nil => rfl
      | cons x xs ihx => simp [ihx]
    rw [this] at h; simp at h
  | some s5 =>
    rw [h5] at h
    have e5 : ak s5 = ak s3 := by
      refine foldl_opt_inv (fun x => ak x = ak s3) _ (by intro e; rfl) ?_ votes _ s5 ?_ h5
      · intro st e st' hp hf
        simp at hf
        rw [ak_handleSignature hf]; exact hp
      · rfl
    have e6 : ak s1 = ak s3 := by
      refine foldl_opt_inv (fun x => ak x = ak s3) _ (by intro e; rfl) ?_ evs _ s1 e5 h
      intro st e st' hp hf
      simp at hf
      rw [ak_handleDoubleSign hf]; exact hp
    exact e3.right e6

/-! ### EndBlock -/

theorem ak_updateValidators {s s1 : State} {ups : List (Addr × Int)}
    (h : updateValidators s = some (s1, ups)) : ak s1 = ak s := by
  unfold updateValidators at h
  split at h; · simp at h
  split at h; · simp at h
  simp at h; rw [← h.1]; rfl

theorem finishOne_le {s s1 : State} {a : Addr} (h : finishOne s a = some s1) : AcctLe s s1 := by
  unfold finishOne at h
  split at h; · simp at h; subst h; exact AcctLe.refl _
  split at h; · simp at h; subst h; exact AcctLe.refl _
  split at h; · simp at h
  simp only at h
  split at h; · simp at h
  rename_i s2 h2
  simp at h; subst h
  exact AcctLe.right (AcctLe.left (ak_dequeue _ _ _) (send_le h2)) rfl

/-- a relation carried through a fold over `Option State` that is strict in `none` -/
theorem foldl_opt_le {β : Type} (f : Option State → β → Option State)
    (hnone : ∀ e, f none e = none)
    (hstep : ∀ st e st', f (some st) e = some st' → AcctLe st st') :
    ∀ (l : List β) (s s' : State), l.foldl f (some s) = some s' → AcctLe s s' := by
  intro l s s' h
  exact foldl_opt_inv (fun x => AcctLe s x) f hnone (fun st e st' hp hf => hp.trans (hstep st e st' hf)) l s s'
    (AcctLe.refl s) h

theorem unstakeMature_le {s s1 : State} (h : unstakeMature s = some s1) : AcctLe s s1 := by
  unfold unstakeMature at h
  refine foldl_opt_le _ (by intro e; rfl) ?_ _ s s1 h
  intro st slot st' hf
  simp only [Option.bind_some, Option.map_eq_some_iff] at hf
  obtain ⟨x, hx, rfl⟩ := hf
  have : AcctLe st x :=
    foldl_opt_le _ (by intro e; rfl)
      (by intro st e st' hf; simp at hf; exact finishOne_le hf) slot.2 st x hx
  exact this.right rfl

theorem endBlock_le {s s1 : State} {ups : List (Addr × Int)}
    (h : endBlock s = some (s1, ups)) : AcctLe s s1 := by
  unfold endBlock at h
  split at h; · simp at h
  rename_i s2 ups2 h2
  simp only [Option.map_eq_some_iff] at h
  obtain ⟨x, hx, he⟩ := h
  simp at he
  rw [← he.1]
  exact AcctLe.left (ak_updateValidators h2) (unstakeMature_le hx)

/-! ### transactions -/

@[simp] theorem ak_applyParam (s : State) (key val : String) : ak (applyParam s key val) = ak s := by
  unfold applyParam
  repeat' split
  all_goals rfl

theorem handle_le {s s1 : State} {m : Msg} (h : handle s m = some s1) : AcctLe s s1 := by
  cases m with
  | stake k amt =>
    simp only [handle, Option.ite_none_left_eq_some] at h
    obtain ⟨_, _, _, _, _, h⟩ := h
    split at h; · simp at h
    rename_i s2 h2
    split at h; · simp at h
    have l1 := send_le h2
    have l2 : AcctLe s s2 := AcctLe.left rfl l1
    simp only [Option.some.injEq] at h
    subst h
    refine l2.right ?_
    split
    · simp
    · show ak (setStaked _ _ _) = _
      simp
  | unstake a =>
    simp only [handle] at h
    repeat' (split at h)
    all_goals first
      | (simp at h; done)
      | (simp at h; subst h; exact AcctLe.of_ak rfl)
  | unjail a =>
    simp only [handle] at h
    repeat' (split at h)
    all_goals first
      | (simp at h; done)
      | (simp at h; subst h; exact AcctLe.of_ak (by simp))
  | send src dst amt => exact send_le h
  | changeParam src key val =>
    simp only [handle] at h
    repeat' (split at h)
    all_goals first
      | (simp at h; done)
      | (simp at h; subst h; exact AcctLe.of_ak (ak_applyParam _ _ _))
  | daoTransfer src dst amt =>
    simp only [handle] at h
    repeat' (split at h)
    all_goals first
      | (simp at h; done)
      | exact send_le h
  | daoBurn src amt =>
    simp only [handle] at h
    repeat' (split at h)
    all_goals first
      | (simp at h; done)
      | exact AcctLe.of_ak (ak_burnFrom h)
  | upgrade src hh ver =>
    simp only [handle] at h
    repeat' (split at h)
    all_goals first
      | (simp at h; done)
      | (simp at h; subst h; exact AcctLe.of_ak rfl)

theorem runTx_le (s : State) (mode : Mode) (t : Tx) : AcctLe s (runTx s mode t).1 := by
  unfold runTx
  split; · exact AcctLe.refl s
  split; · exact AcctLe.refl s
  split; · exact AcctLe.refl s
  have la : AcctLe s ((send2 ((send s (t.msg.signer s) s.feeAcc t.feeEff).getD s) (t.msg.signer s) s.feeAcc t.fee2).getD
      ((send s (t.msg.signer s) s.feeAcc t.feeEff).getD s)) :=
    (send_getD_le _ _ _ _).right (ak_send2_getD _ _ _ _)
  cases mode with
  | check => exact AcctLe.refl s
  | simulate => exact AcctLe.refl s
  | deliver =>
    simp only
    split
    · rename_i s' hs'
      exact la.trans (handle_le hs')
    · exact la

theorem step_le {s : State} {op : Op} {r : State × List (Addr × Int) × Bool} (hs : step s op = some r) :
    AcctLe s r.1 := by
  cases op with
  | begin time proposer votes evs =>
    simp only [step, Option.map_eq_some_iff] at hs
    obtain ⟨s', h', rfl⟩ := hs
    exact beginBlock_le h'
  | endBlock =>
    simp only [step, Option.map_eq_some_iff] at hs
    obtain ⟨⟨s', ups⟩, h', rfl⟩ := hs
    exact endBlock_le h'
  | commit =>
    simp only [step, Option.some.injEq] at hs
    subst hs
    exact AcctLe.of_ak rfl
  | award a amt =>
    simp only [step, Option.some.injEq] at hs
    subst hs
    exact AcctLe.of_ak rfl
  | burn a raw =>
    simp only [step, Option.some.injEq] at hs
    subst hs
    exact AcctLe.of_ak rfl
  | tx mode t =>
    simp only [step, Option.some.injEq] at hs
    subst hs
    simp only
    split
    · exact (runTx_le s mode t).right rfl
    · exact runTx_le s mode t

theorem run_le (ops : List Op) : ∀ (s s' : State), run s ops = some s' → AcctLe s s' := by
  induction ops with
  | nil =>
    intro s s' h
    simp only [run, Option.some.injEq] at h
    subst h
    exact AcctLe.refl s
  | cons op rest ih =>
    intro s s' h
    simp only [run, Option.bind_eq_some_iff] at h
    obtain ⟨r, hr, h'⟩ := h
    exact (step_le hr).trans (ih _ _ h')

end Posmint.Chain.Accts
