import Posmint.Model.KVSpec
/-! Helper lemmas for the store wrappers (C15, C16). -/
namespace Posmint.KV

end Posmint.KV
