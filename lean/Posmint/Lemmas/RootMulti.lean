import Posmint.Model.RootMultiSpec
/-! Helper lemmas for the multistore model (C12, C13, C14). -/
namespace Posmint.RM
open Posmint.KV

/-! ### `savedAt` -/

/-- the row of `savedAt` values of all substores at version `v` -/
def saves (m : RM) (v : Nat) : List (Option Items) := m.subs.map (savedAt · v)

theorem savedAt_filter_ne (s : Sub) (w : Items) (t v : Nat) :
    savedAt { working := w, saved := s.saved.filter (·.1 != t) } v = if v = t then none else savedAt s v := by
  unfold savedAt
  simp only [List.find?_filter]
  split
  · next h =>
    subst h
    have : (s.saved.find? fun a => decide ((a.1 != v) = true ∧ (a.1 == v) = true)) = none := by
      rw [List.find?_eq_none]; intro x _; simp
    simp
  · next h =>
    congr 1
    congr 1
    funext x
    by_cases hx : x.1 = v
    · simp [hx, h]
    · simp [hx]

theorem savedAt_cons (w : Items) (a : Nat) (c : Items) (l : List (Nat × Items)) (v : Nat) :
    savedAt { working := w, saved := (a, c) :: l } v = if a = v then some c else savedAt { working := w, saved := l } v := by
  unfold savedAt
  by_cases h : a = v <;> simp [h]

theorem savedAt_working (s : Sub) (w : Items) (v : Nat) : savedAt { s with working := w } v = savedAt s v := rfl

/-- effect of a version-save batch on one substore -/
theorem savedAt_save (s : Sub) (w : Items) (a : Nat) (c : Items) (v : Nat) :
    savedAt { working := w, saved := (a, c) :: s.saved.filter (·.1 != a) } v = if v = a then some c else savedAt s v := by
  rw [savedAt_cons, savedAt_filter_ne]
  by_cases h : a = v
  · simp [h]
  · have : ¬ v = a := fun h' => h h'.symm
    simp [h, this]

theorem pruneTarget_eq_some_iff (kr ke v t : Nat) :
    pruneTarget kr ke v = some t ↔ kr < v - 1 ∧ t = v - 1 - kr ∧ (ke = 0 ∨ t % ke ≠ 0) := by
  unfold pruneTarget
  simp only []
  split
  · next h =>
    split
    · next h2 =>
      simp only [Option.some.injEq]
      simp only [Bool.or_eq_true, beq_iff_eq, bne_iff_ne, ne_eq] at h2
      constructor
      · intro e; subst e; exact ⟨h, rfl, h2⟩
      · intro ⟨_, e, _⟩; exact e.symm
    · next h2 =>
      simp only [Bool.or_eq_true, beq_iff_eq, bne_iff_ne, ne_eq, not_or, Decidable.not_not] at h2
      constructor
      · intro e; cases e
      · intro ⟨_, e, h3⟩
        subst e
        rcases h3 with h3 | h3
        · exact absurd h3 h2.1
        · exact absurd h2.2 h3
  · next h =>
    constructor
    · intro e; cases e
    · intro ⟨h', _, _⟩; exact absurd h' h

theorem pruneTarget_lt (kr ke v t : Nat) (h : pruneTarget kr ke v = some t) : t < v := by
  rw [pruneTarget_eq_some_iff] at h; omega

/-- the saved versions of a substore after its `Commit` of version `v` -/
theorem savedAt_commit (kr ke : Nat) (s : Sub) (v x : Nat) :
    savedAt (s.commit kr ke v) x =
      if x = v then some s.working else if pruneTarget kr ke v = some x then none else savedAt s x := by
  unfold Sub.commit
  simp only []
  split
  · next t ht =>
    have hlt := pruneTarget_lt _ _ _ _ ht
    simp only [List.filter_cons]
    have hv : ((v, s.working).1 != t) = true := by simp; omega
    rw [if_pos hv]
    rw [savedAt_cons]
    rw [ht]
    by_cases hx : x = v
    · simp [hx]
    · have hx' : ¬ v = x := fun h => hx h.symm
      simp only [hx', hx, if_false]
      have := savedAt_filter_ne { working := s.working, saved := s.saved.filter (·.1 != v) } s.working t x
      simp only at this
      rw [this]
      by_cases hxt : x = t
      · simp [hxt]
      · have hxt' : ¬ t = x := fun h => hxt h.symm
        simp only [hxt, Option.some.injEq, hxt', if_false]
        rw [savedAt_filter_ne]; simp [hx]
  · next hn =>
    simp only [hn]
    have := savedAt_save s s.working v s.working x
    simp only [reduceCtorEq, if_false]
    exact this

/-! ### `List.modify` -/

theorem map_modify_of_eq {α β} (g : α → β) (f : α → α) (h : ∀ x, g (f x) = g x) (l : List α) (i : Nat) :
    (l.modify i f).map g = l.map g := by
  apply List.ext_getElem?
  intro j
  simp only [List.getElem?_map, List.getElem?_modify]
  cases l[j]? with
  | none => rfl
  | some a => by_cases hij : i = j <;> simp [hij, h]

theorem mem_modify {α} (f : α → α) (l : List α) (i : Nat) (x : α) (h : x ∈ l.modify i f) :
    x ∈ l ∨ ∃ y ∈ l, x = f y := by
  obtain ⟨j, hj⟩ := List.getElem?_of_mem h
  rw [List.getElem?_modify] at hj
  cases e : l[j]? with
  | none => simp [e] at hj
  | some a =>
    have ha : a ∈ l := List.mem_of_getElem? e
    simp only [e, Option.map_eq_map, Option.map_some, Option.some.injEq] at hj
    by_cases hij : i = j
    · simp only [hij, if_true] at hj; exact Or.inr ⟨a, ha, hj.symm⟩
    · simp only [hij, if_false] at hj; exact Or.inl (hj ▸ ha)

/-! ### histories: basic facts -/

theorem apply_kr (m : RM) (op : Op) : (m.apply op).kr = m.kr := by cases op <;> rfl
theorem apply_ke (m : RM) (op : Op) : (m.apply op).ke = m.ke := by cases op <;> rfl
theorem apply_length (m : RM) (op : Op) : (m.apply op).subs.length = m.subs.length := by
  cases op <;> simp [RM.apply, RM.commit]
theorem apply_latest (m : RM) (op : Op) (hop : op ≠ .commit) : (m.apply op).latest = m.latest := by
  cases op <;> first | rfl | exact absurd rfl hop
theorem apply_infos (m : RM) (op : Op) (hop : op ≠ .commit) : (m.apply op).infos = m.infos := by
  cases op <;> first | rfl | exact absurd rfl hop

theorem run_cons (m : RM) (op : Op) (ops : List Op) : m.run (op :: ops) = (m.apply op).run ops := rfl

theorem run_kr (m : RM) (ops : List Op) : (m.run ops).kr = m.kr := by
  induction ops generalizing m with
  | nil => rfl
  | cons op ops ih => rw [run_cons, ih, apply_kr]
theorem run_ke (m : RM) (ops : List Op) : (m.run ops).ke = m.ke := by
  induction ops generalizing m with
  | nil => rfl
  | cons op ops ih => rw [run_cons, ih, apply_ke]
theorem run_length (m : RM) (ops : List Op) : (m.run ops).subs.length = m.subs.length := by
  induction ops generalizing m with
  | nil => rfl
  | cons op ops ih => rw [run_cons, ih, apply_length]

theorem countCommits_cons_ne (op : Op) (ops : List Op) (hop : op ≠ .commit) :
    countCommits (op :: ops) = countCommits ops := by
  cases op <;> first | rfl | exact absurd rfl hop

theorem committedAt_cons_ne (m : RM) (op : Op) (ops : List Op) (v : Nat) (hop : op ≠ .commit) :
    committedAt m (op :: ops) v = committedAt (m.apply op) ops v := by
  cases op <;> first | rfl | exact absurd rfl hop

theorem run_latest (m : RM) (ops : List Op) : (m.run ops).latest = m.latest + countCommits ops := by
  induction ops generalizing m with
  | nil => rfl
  | cons op ops ih =>
    rw [run_cons, ih]
    by_cases hop : op = .commit
    · subst hop; simp only [RM.apply, RM.commit, countCommits]; omega
    · rw [apply_latest _ _ hop, countCommits_cons_ne _ _ hop]

theorem saves_apply (m : RM) (op : Op) (hop : op ≠ .commit) (v : Nat) : saves (m.apply op) v = saves m v := by
  cases op with
  | commit => exact absurd rfl hop
  | tset k x => rfl
  | tdel k => rfl
  | set j k x =>
    exact map_modify_of_eq (savedAt · v) (fun s => { s with working := kvSet s.working k x }) (fun s => rfl) m.subs j
  | del j k =>
    exact map_modify_of_eq (savedAt · v) (fun s => { s with working := kvDel s.working k }) (fun s => rfl) m.subs j

theorem saves_commit (m : RM) (v : Nat) :
    saves m.commit v = m.subs.map (fun s =>
      if v = m.latest + 1 then some s.working
      else if pruneTarget m.kr m.ke (m.latest + 1) = some v then none else savedAt s v) := by
  simp only [saves, RM.commit, List.map_map]
  apply List.map_congr_left
  intro s _
  simp only [Function.comp, savedAt_commit]

/-! ### `Consistent` is an invariant -/

theorem mem_commit_saved (kr ke : Nat) (s : Sub) (v : Nat) (e : Nat × Items) (h : e ∈ (s.commit kr ke v).saved) :
    e = (v, s.working) ∨ e ∈ s.saved := by
  unfold Sub.commit at h
  simp only [] at h
  split at h
  · simp only [List.mem_filter, List.mem_cons] at h
    rcases h.1 with h1 | h1
    · exact Or.inl h1
    · exact Or.inr h1.1
  · simp only [List.mem_filter, List.mem_cons] at h
    rcases h with h1 | h1
    · exact Or.inl h1
    · exact Or.inr h1.1

theorem nodup_commit_saved (kr ke : Nat) (s : Sub) (v : Nat) (h : (s.saved.map (·.1)).Nodup) :
    ((s.commit kr ke v).saved.map (·.1)).Nodup := by
  have h1 : (((v, s.working) :: s.saved.filter (·.1 != v)).map (·.1)).Nodup := by
    rw [List.map_cons, List.nodup_cons]
    constructor
    · simp
    · exact List.Nodup.sublist (List.Sublist.map _ List.filter_sublist) h
  unfold Sub.commit
  simp only []
  split
  · exact List.Nodup.sublist (List.Sublist.map _ List.filter_sublist) h1
  · exact h1

theorem savedAt_eq_of_saved_eq (s s' : Sub) (h : s'.saved = s.saved) (v : Nat) : savedAt s' v = savedAt s v := by
  unfold savedAt; rw [h]

theorem Consistent.apply_ne (m : RM) (op : Op) (hop : op ≠ .commit) (hc : Consistent m) : Consistent (m.apply op) := by
  have hsub : ∀ s' ∈ (m.apply op).subs, ∃ s ∈ m.subs, s'.saved = s.saved := by
    intro s' hs'
    cases op with
    | commit => exact absurd rfl hop
    | tset k x => exact ⟨s', hs', rfl⟩
    | tdel k => exact ⟨s', hs', rfl⟩
    | set j k x =>
      rcases mem_modify _ _ _ _ hs' with h | ⟨y, hy, e⟩
      · exact ⟨s', h, rfl⟩
      · exact ⟨y, hy, by rw [e]⟩
    | del j k =>
      rcases mem_modify _ _ _ _ hs' with h | ⟨y, hy, e⟩
      · exact ⟨s', h, rfl⟩
      · exact ⟨y, hy, by rw [e]⟩
  have hl := apply_latest m op hop
  have hi := apply_infos m op hop
  constructor
  · intro h1 s' hs'
    obtain ⟨s, hs, e⟩ := hsub s' hs'
    rw [hl] at h1 ⊢
    rw [savedAt_eq_of_saved_eq s s' e]
    exact hc.hasLatest h1 s hs
  · intro s' hs' e he
    obtain ⟨s, hs, e'⟩ := hsub s' hs'
    rw [hl]; rw [e'] at he
    exact hc.noFuture s hs e he
  · intro s' hs'
    obtain ⟨s, hs, e'⟩ := hsub s' hs'
    rw [e']; exact hc.uniqueVersions s hs
  · intro v; rw [hl, hi]; exact hc.infos v

theorem Consistent.commit (m : RM) (hc : Consistent m) : Consistent m.commit := by
  constructor
  · intro _ s' hs'
    simp only [RM.commit, List.mem_map] at hs' ⊢
    obtain ⟨s, _, rfl⟩ := hs'
    rw [savedAt_commit]; simp
  · intro s' hs' e he
    simp only [RM.commit, List.mem_map] at hs' ⊢
    obtain ⟨s, hs, rfl⟩ := hs'
    rcases mem_commit_saved _ _ _ _ _ he with h | h
    · subst h; simp
    · have := hc.noFuture s hs e h; omega
  · intro s' hs'
    simp only [RM.commit, List.mem_map] at hs'
    obtain ⟨s, hs, rfl⟩ := hs'
    exact nodup_commit_saved _ _ _ _ (hc.uniqueVersions s hs)
  · intro v
    simp only [RM.commit, List.mem_cons, hc.infos v]
    omega

theorem Consistent.apply (m : RM) (op : Op) (hc : Consistent m) : Consistent (m.apply op) := by
  by_cases hop : op = .commit
  · subst hop; exact hc.commit
  · exact hc.apply_ne m op hop

theorem Consistent.run (m : RM) (ops : List Op) (hc : Consistent m) : Consistent (m.run ops) := by
  induction ops generalizing m with
  | nil => exact hc
  | cons op ops ih => rw [run_cons]; exact ih _ (hc.apply m op)

theorem Consistent.fresh (kr ke n : Nat) : Consistent (fresh kr ke n) := by
  constructor
  · intro h; simp [RM.fresh] at h
  · intro s hs e he
    simp only [RM.fresh, List.mem_replicate] at hs
    rw [hs.2] at he; cases he
  · intro s hs
    simp only [RM.fresh, List.mem_replicate] at hs
    rw [hs.2]; exact List.nodup_nil
  · intro v; simp only [RM.fresh, List.not_mem_nil, false_iff]; omega

/-! ### the retention invariant -/

theorem retained_succ (kr ke L v : Nat) :
    retained kr ke (L + 1) v ↔ v = L + 1 ∨ (retained kr ke L v ∧ pruneTarget kr ke (L + 1) ≠ some v) := by
  simp only [retained, ne_eq, pruneTarget_eq_some_iff]
  by_cases hk : ke = 0
  · subst hk; simp; omega
  · simp only [hk, not_false_eq_true, true_and, false_or]
    omega

/-- after the history so far, every substore's database holds exactly the retained versions, with
the contents `hist` records for them, and commit infos exist for `1..latest` -/
structure Inv (m : RM) (hist : Nat → Option (List Items)) : Prop where
  infos : ∀ v, v ∈ m.infos ↔ (1 ≤ v ∧ v ≤ m.latest)
  kept : ∀ v, retained m.kr m.ke m.latest v → ∃ cs, hist v = some cs ∧ saves m v = cs.map some
  dropped : ∀ v, ¬ retained m.kr m.ke m.latest v → ∀ x ∈ saves m v, x = none

theorem Inv.congr {m : RM} {h h' : Nat → Option (List Items)} (hi : Inv m h)
    (e : ∀ v, 1 ≤ v → v ≤ m.latest → h v = h' v) : Inv m h' := by
  refine ⟨hi.infos, ?_, hi.dropped⟩
  intro v hr
  obtain ⟨cs, h1, h2⟩ := hi.kept v hr
  exact ⟨cs, by rw [← e v hr.1 hr.2.1]; exact h1, h2⟩

theorem Inv.apply_ne {m : RM} {hist} (hi : Inv m hist) (op : Op) (hop : op ≠ .commit) : Inv (m.apply op) hist := by
  constructor
  · intro v; rw [apply_infos _ _ hop, apply_latest _ _ hop]; exact hi.infos v
  · intro v; rw [apply_kr, apply_ke, apply_latest _ _ hop, saves_apply _ _ hop]; exact hi.kept v
  · intro v; rw [apply_kr, apply_ke, apply_latest _ _ hop, saves_apply _ _ hop]; exact hi.dropped v

theorem Inv.commit {m : RM} {hist} (hi : Inv m hist) :
    Inv m.commit (fun v => if v = m.latest + 1 then some (m.subs.map (·.working)) else hist v) := by
  have hkr : m.commit.kr = m.kr := rfl
  have hke : m.commit.ke = m.ke := rfl
  have hl : m.commit.latest = m.latest + 1 := rfl
  constructor
  · intro v
    simp only [RM.commit, List.mem_cons, hi.infos v]
    omega
  · intro v hr
    rw [hkr, hke, hl, retained_succ] at hr
    rcases hr with hr | ⟨hr, hp⟩
    · subst hr
      refine ⟨m.subs.map (·.working), by simp, ?_⟩
      rw [saves_commit]; simp [List.map_map, Function.comp_def]
    · have hne : ¬ v = m.latest + 1 := by have := hr.2.1; omega
      obtain ⟨cs, h1, h2⟩ := hi.kept v hr
      refine ⟨cs, by simp only [hne, if_false]; exact h1, ?_⟩
      rw [saves_commit, ← h2]
      simp only [hne, if_false, hp, saves]
  · intro v hr x hx
    rw [hkr, hke, hl, retained_succ] at hr
    rw [saves_commit, List.mem_map] at hx
    obtain ⟨s, hs, rfl⟩ := hx
    have hne : ¬ v = m.latest + 1 := fun h => hr (Or.inl h)
    simp only [hne, if_false]
    split
    · rfl
    · next hp =>
      have hnr : ¬ retained m.kr m.ke m.latest v := fun h => hr (Or.inr ⟨h, hp⟩)
      exact hi.dropped v hnr _ (List.mem_map_of_mem hs)

theorem Inv.fresh (kr ke n : Nat) : Inv (RM.fresh kr ke n) (fun _ => none) := by
  constructor
  · intro v; simp only [RM.fresh, List.not_mem_nil, false_iff]; omega
  · intro v hr; simp only [RM.fresh, retained] at hr; omega
  · intro v _ x hx
    simp only [saves, RM.fresh, List.map_replicate, List.mem_replicate] at hx
    rw [hx.2]; rfl

theorem Inv.run (ops : List Op) : ∀ (m : RM) (hist : Nat → Option (List Items)), Inv m hist →
    Inv (m.run ops) (fun v => if v ≤ m.latest then hist v else committedAt m ops (v - m.latest)) := by
  induction ops with
  | nil => intro m hist hi; exact hi.congr (fun v _ h2 => by simp [h2])
  | cons op ops ih =>
    intro m hist hi
    rw [run_cons]
    by_cases hop : op = .commit
    · subst hop
      refine (ih _ _ hi.commit).congr ?_
      intro v _ _
      have hl : m.commit.latest = m.latest + 1 := rfl
      simp only [hl]
      show _ = (if v ≤ m.latest then hist v else committedAt m (.commit :: ops) (v - m.latest))

      by_cases h1 : v ≤ m.latest
      · have h2 : v ≤ m.latest + 1 := by omega
        have h3 : ¬ v = m.latest + 1 := by omega
        simp [h1, h2, h3]
      · by_cases h2 : v = m.latest + 1
        · subst h2; simp [committedAt]; omega
        · have h3 : ¬ v ≤ m.latest + 1 := by omega
          have h4 : ¬ (v - m.latest) = 1 := by omega
          have h5 : v - m.latest - 1 = v - (m.latest + 1) := by omega
          simp only [h1, h3, if_false, committedAt, beq_iff_eq, h4, h5]
    · refine (ih _ _ (hi.apply_ne op hop)).congr ?_
      intro v _ _
      simp only [apply_latest _ _ hop, committedAt_cons_ne _ _ _ _ hop]

theorem Inv.load_kept {m : RM} {hist} (hi : Inv m hist) (v : Nat) (hr : retained m.kr m.ke m.latest v) :
    m.load v = hist v ∧ (m.load v).isSome := by
  obtain ⟨cs, h1, h2⟩ := hi.kept v hr
  have hv : (v == 0) = false := by have := hr.1; simp; omega
  have hin : m.infos.contains v = true := by
    rw [List.contains_iff_mem]; exact (hi.infos v).2 ⟨hr.1, hr.2.1⟩
  have hload : m.load v = some cs := by
    unfold RM.load
    simp only [hv, hin, Bool.not_true, Bool.false_eq_true, if_false]
    have : m.subs.map (fun s => savedAt s v) = cs.map some := h2
    rw [this]
    simp [List.filterMap_map, Function.comp_def]
  rw [hload, h1]; exact ⟨rfl, rfl⟩

theorem Inv.load_dropped {m : RM} {hist} (hi : Inv m hist) (hn : 1 ≤ m.subs.length) (v : Nat) (hv : 1 ≤ v)
    (hr : ¬ retained m.kr m.ke m.latest v) : m.load v = none := by
  have hv0 : (v == 0) = false := by simp; omega
  unfold RM.load
  simp only [hv0, Bool.false_eq_true, if_false]
  split
  · rfl
  · split
    · next hall =>
      exfalso
      match hsubs : m.subs with
      | [] => rw [hsubs] at hn; simp at hn
      | s :: rest =>
        rw [hsubs] at hall
        have := hi.dropped v hr (savedAt s v) (by simp [saves, hsubs])
        simp [this] at hall
    · rfl

/-! ### `reopened` and `load` through `saves` -/

theorem reopen_aux (l : List Sub) (L : Nat) :
    ((l.map (fun s => (savedAt s L).map (fun c => ({ s with working := c } : Sub)))).filterMap id).map (·.working)
      = (l.map (savedAt · L)).filterMap id := by
  induction l with
  | nil => rfl
  | cons hd tl ih =>
    simp only [List.map_cons]
    cases h : savedAt hd L with
    | none => simpa [List.filterMap_cons] using ih
    | some c => simpa [List.filterMap_cons] using ih

/-- reopening only looks at the version `s/latest` names and at what every substore has saved for it -/
theorem reopened_of_pos (m : RM) (h : m.latest ≠ 0) :
    reopened m = if (saves m m.latest).all Option.isSome
      then some (m.latest, (saves m m.latest).filterMap id) else none := by
  unfold reopened RM.reopen
  have h0 : (m.latest == 0) = false := by simpa using h
  simp only [h0, Bool.false_eq_true, if_false]
  have hall : (m.subs.map (fun s => (savedAt s m.latest).map (fun c => ({ s with working := c } : Sub)))).all Option.isSome
      = (saves m m.latest).all Option.isSome := by
    simp only [saves, List.all_map]
    congr 1
    funext s
    simp
  rw [hall]
  split
  · simp only [Option.map_some, reopen_aux]; rfl
  · rfl

theorem load_congr (m1 m2 : RM) (hl : m1.latest = m2.latest) (hi : m1.infos = m2.infos)
    (hs : ∀ x, saves m1 x = saves m2 x) (v : Nat) : m1.load v = m2.load v := by
  have h1 : ∀ m : RM, m.load v = if v == 0 then some ((saves m m.latest).map (·.getD []))
      else if !m.infos.contains v then none
      else if (saves m v).all Option.isSome then some ((saves m v).filterMap id) else none := by
    intro m; simp only [RM.load, saves, List.map_map]; rfl
  rw [h1, h1, hl, hi, hs, hs]

theorem saves_commit' (m : RM) (x : Nat) :
    saves m.commit x =
      if x = m.latest + 1 then (m.subs.map (·.working)).map some
      else if pruneTarget m.kr m.ke (m.latest + 1) = some x then List.replicate m.subs.length none
      else saves m x := by
  rw [saves_commit]
  by_cases h1 : x = m.latest + 1
  · simp [h1, List.map_map, Function.comp_def]
  · by_cases h2 : pruneTarget m.kr m.ke (m.latest + 1) = some x
    · simp only [h1, h2, if_false, if_true]; exact List.map_const'
    · simp only [h1, h2, if_false]; rfl

/-! ### batches -/

/-- the batches a `Commit` of `m` issues before the final commit-info flush -/
def CommitBatch (m : RM) (b : Batch) : Prop :=
  match b with
  | .save i v c => v = m.latest + 1 ∧ ∃ s, m.subs[i]? = some s ∧ c = s.working
  | .prune _ t => pruneTarget m.kr m.ke (m.latest + 1) = some t
  | .info _ => False

theorem commitBatch_of_mem_sub (m : RM) (i : Nat) (b : Batch) (h : b ∈ subBatches m i) : CommitBatch m b := by
  unfold subBatches at h
  split at h
  · cases h
  · next s hs =>
    simp only [List.mem_cons] at h
    rcases h with h | h
    · subst h; exact ⟨rfl, s, hs, rfl⟩
    · split at h
      · next t ht =>
        split at h
        · simp only [List.mem_cons, List.not_mem_nil, or_false] at h
          subst h; exact ht
        · cases h
      · cases h

theorem commitBatch_of_mem (m : RM) (perm : List Nat) (b : Batch) (h : b ∈ perm.flatMap (subBatches m)) :
    CommitBatch m b := by
  obtain ⟨i, _, hb⟩ := List.mem_flatMap.mp h
  exact commitBatch_of_mem_sub m i b hb

theorem save_mem_subBatches (m : RM) (i : Nat) (s : Sub) (hs : m.subs[i]? = some s) :
    Batch.save i (m.latest + 1) s.working ∈ subBatches m i := by
  unfold subBatches; simp [hs]

/-- batch `b` leaves version `x` of every substore alone -/
def Untouched (x : Nat) (b : Batch) : Prop :=
  match b with
  | .save _ v _ => v ≠ x
  | .prune _ t => t ≠ x
  | .info _ => False

theorem applyBatch_length (m0 : RM) (b : Batch) : (applyBatch m0 b).subs.length = m0.subs.length := by
  cases b <;> simp [applyBatch]

theorem applyBatches_cons (m0 : RM) (b : Batch) (bs : List Batch) :
    applyBatches m0 (b :: bs) = applyBatches (applyBatch m0 b) bs := rfl

theorem applyBatches_length (m0 : RM) (bs : List Batch) : (applyBatches m0 bs).subs.length = m0.subs.length := by
  induction bs generalizing m0 with
  | nil => rfl
  | cons b bs ih => rw [applyBatches_cons, ih, applyBatch_length]

/-- the parts of the store a non-info batch cannot change -/
structure SameMeta (m1 m2 : RM) : Prop where
  kr : m1.kr = m2.kr
  ke : m1.ke = m2.ke
  latest : m1.latest = m2.latest
  infos : m1.infos = m2.infos

theorem applyBatch_meta (m0 : RM) (b : Batch) (hb : ∀ v, b ≠ .info v) : SameMeta (applyBatch m0 b) m0 := by
  cases b with
  | info v => exact absurd rfl (hb v)
  | save i v c => exact ⟨rfl, rfl, rfl, rfl⟩
  | prune i t => exact ⟨rfl, rfl, rfl, rfl⟩

theorem applyBatches_meta (m0 : RM) (bs : List Batch) (hb : ∀ b ∈ bs, ∀ v, b ≠ .info v) :
    SameMeta (applyBatches m0 bs) m0 := by
  induction bs generalizing m0 with
  | nil => exact ⟨rfl, rfl, rfl, rfl⟩
  | cons b bs ih =>
    rw [applyBatches_cons]
    have h1 := ih (applyBatch m0 b) (fun b' hb' => hb b' (List.mem_cons_of_mem _ hb'))
    have h2 := applyBatch_meta m0 b (hb b (List.mem_cons_self ..))
    exact ⟨h1.kr.trans h2.kr, h1.ke.trans h2.ke, h1.latest.trans h2.latest, h1.infos.trans h2.infos⟩

theorem saves_applyBatch_untouched (m0 : RM) (b : Batch) (x : Nat) (hb : Untouched x b) :
    saves (applyBatch m0 b) x = saves m0 x := by
  cases b with
  | info v => exact absurd hb id
  | save i v c =>
    have hb : ¬ x = v := fun e => hb e.symm
    refine map_modify_of_eq (savedAt · x) _ (fun s => ?_) m0.subs i
    have := savedAt_save s s.working v c x
    simp only [hb, if_false] at this
    exact this
  | prune i t =>
    have hb : ¬ x = t := fun e => hb e.symm
    refine map_modify_of_eq (savedAt · x) _ (fun s => ?_) m0.subs i
    have := savedAt_filter_ne s s.working t x
    simp only [hb, if_false] at this
    exact this

theorem saves_applyBatches_untouched (m0 : RM) (bs : List Batch) (x : Nat) (hb : ∀ b ∈ bs, Untouched x b) :
    saves (applyBatches m0 bs) x = saves m0 x := by
  induction bs generalizing m0 with
  | nil => rfl
  | cons b bs ih =>
    rw [applyBatches_cons, ih _ (fun b' hb' => hb b' (List.mem_cons_of_mem _ hb')),
      saves_applyBatch_untouched _ _ _ (hb b (List.mem_cons_self ..))]

theorem CommitBatch.ne_info {m : RM} {b : Batch} (h : CommitBatch m b) (v : Nat) : b ≠ .info v := by
  intro e; subst e; exact h

theorem CommitBatch.untouched {m : RM} {b : Batch} (h : CommitBatch m b) (x : Nat) (h1 : x ≠ m.latest + 1)
    (h2 : pruneTarget m.kr m.ke (m.latest + 1) ≠ some x) : Untouched x b := by
  cases b with
  | info v => exact h
  | save i v c => intro e; exact h1 (e ▸ h.1)
  | prune i t => intro e; exact h2 (e ▸ h)

theorem getElem?_saves_save (m0 : RM) (i v : Nat) (c : Items) (x j : Nat) :
    (saves (applyBatch m0 (.save i v c)) x)[j]? =
      if i = j ∧ x = v then (m0.subs[j]?).map (fun _ => some c) else (saves m0 x)[j]? := by
  simp only [saves, applyBatch, List.getElem?_map, List.getElem?_modify]
  cases m0.subs[j]? with
  | none => simp
  | some a =>
    simp only [Option.map_eq_map, Option.map_some]
    by_cases hij : i = j
    · simp only [hij, if_true, true_and]
      have := savedAt_save a a.working v c x
      rw [this]
      by_cases hx : x = v <;> simp [hx]
    · simp [hij]

/-- once substore `j` has saved the new version, no later batch of the same commit changes it -/
theorem saved_new_version (m : RM) (j : Nat) (s : Sub) (hs : m.subs[j]? = some s) (bs : List Batch)
    (hall : ∀ b ∈ bs, CommitBatch m b) : ∀ m0 : RM, m0.subs.length = m.subs.length →
    ((saves m0 (m.latest + 1))[j]? = some (some s.working) ∨ Batch.save j (m.latest + 1) s.working ∈ bs) →
    (saves (applyBatches m0 bs) (m.latest + 1))[j]? = some (some s.working) := by
  have hj : j < m.subs.length := (List.getElem?_eq_some_iff.mp hs).1
  induction bs with
  | nil =>
    intro m0 _ h
    rcases h with h | h
    · exact h
    · cases h
  | cons b bs ih =>
    intro m0 hlen h
    rw [applyBatches_cons]
    have hall' : ∀ b ∈ bs, CommitBatch m b := fun b' hb' => hall b' (List.mem_cons_of_mem _ hb')
    have hlen' : (applyBatch m0 b).subs.length = m.subs.length := by rw [applyBatch_length, hlen]
    have hcb := hall b (List.mem_cons_self ..)
    have hm0j : ∃ a, m0.subs[j]? = some a := ⟨m0.subs[j]'(by omega), List.getElem?_eq_getElem _⟩
    -- the property holds right after `b` if it held before or `b` is the save of substore `j`
    have step : ((saves m0 (m.latest + 1))[j]? = some (some s.working) ∨ b = Batch.save j (m.latest + 1) s.working) →
        (saves (applyBatch m0 b) (m.latest + 1))[j]? = some (some s.working) := by
      intro h'
      cases b with
      | info v => exact absurd hcb id
      | prune i t =>
        rcases h' with h' | h'
        · rw [saves_applyBatch_untouched _ _ _ (show Untouched _ (Batch.prune i t) from by
            have := pruneTarget_lt _ _ _ _ hcb; simp only [Untouched]; omega)]
          exact h'
        · cases h'
      | save i v c =>
        obtain ⟨hv, s', hs', hc⟩ := hcb
        rw [getElem?_saves_save]
        by_cases hij : i = j
        · subst hij
          rw [hs] at hs'
          obtain ⟨a, ha⟩ := hm0j
          cases hs'
          simp [hv, ha, hc]
        · rcases h' with h' | h'
          · simp only [hij, false_and, if_false]; exact h'
          · injection h' with e1; exact absurd e1 hij
    rcases h with h | h
    · exact ih hall' _ hlen' (Or.inl (step (Or.inl h)))
    · rcases List.mem_cons.mp h with h | h
      · exact ih hall' _ hlen' (Or.inl (step (Or.inr h.symm)))
      · exact ih hall' _ hlen' (Or.inr h)

/-- after all substore batches of a commit every substore has saved the new version -/
theorem saves_after_all (m : RM) (perm : List Nat) (hp : ∀ j, j < m.subs.length → j ∈ perm) :
    saves (applyBatches m (perm.flatMap (subBatches m))) (m.latest + 1) = (m.subs.map (·.working)).map some := by
  apply List.ext_getElem?
  intro j
  by_cases hj : j < m.subs.length
  · have hs : m.subs[j]? = some m.subs[j] := List.getElem?_eq_getElem hj
    rw [saved_new_version m j _ hs _ (fun b hb => commitBatch_of_mem m perm b hb) m rfl
      (Or.inr (List.mem_flatMap.mpr ⟨j, hp j hj, save_mem_subBatches m j _ hs⟩))]
    simp [hs]
  · have h1 : (saves (applyBatches m (perm.flatMap (subBatches m))) (m.latest + 1)).length ≤ j := by
      simp only [saves, List.length_map, applyBatches_length]; omega
    have h2 : ((m.subs.map (·.working)).map some).length ≤ j := by simp; omega
    rw [List.getElem?_eq_none h1, List.getElem?_eq_none h2]

theorem zip_working_map (l1 l2 : List Sub) (h : l1.length = l2.length) :
    ((l1.zip l2).map (fun (p : Sub × Sub) => ({ p.1 with working := p.2.working } : Sub))).map (·.working)
      = l2.map (·.working) := by
  induction l1 generalizing l2 with
  | nil => cases l2 with
    | nil => rfl
    | cons _ _ => simp at h
  | cons a l1 ih => cases l2 with
    | nil => simp at h
    | cons b l2 =>
      simp only [List.length_cons, Nat.add_right_cancel_iff] at h
      simp only [List.zip_cons_cons, List.map_cons, ih l2 h]

theorem zip_saved_map (l1 l2 : List Sub) (h : l1.length = l2.length) (x : Nat) :
    ((l1.zip l2).map (fun (p : Sub × Sub) => ({ p.1 with working := p.2.working } : Sub))).map (savedAt · x)
      = l1.map (savedAt · x) := by
  induction l1 generalizing l2 with
  | nil => rfl
  | cons a l1 ih => cases l2 with
    | nil => simp at h
    | cons b l2 =>
      simp only [List.length_cons, Nat.add_right_cancel_iff] at h
      simp only [List.zip_cons_cons, List.map_cons, ih l2 h]
      rfl

/-! ### the proof operator: `setName` / `canonMap` -/

theorem lookup_cons_ite (a k : String) (b : Bytes) (es : List (String × Bytes)) :
    List.lookup a ((k, b) :: es) = if a = k then some b else List.lookup a es := by
  by_cases e : a = k
  · subst e; simp
  · have : (a == k) = false := by simpa using e
    simp [List.lookup_cons, this, e]

theorem lookup_setName (m : List (String × Bytes)) (n : String) (h : Bytes) (a : String) :
    (setName m n h).lookup a = if a = n then some h else m.lookup a := by
  induction m with
  | nil => simp [setName, lookup_cons_ite]
  | cons x rest ih =>
    obtain ⟨n', h'⟩ := x
    unfold setName
    split
    · simp only [lookup_cons_ite]
    · split
      · next hn =>
        have hn : n = n' := by simpa using hn
        subst hn
        by_cases e : a = n <;> simp [lookup_cons_ite, e]
      · next hn =>
        have hn : ¬ n = n' := by simpa using hn
        simp only [lookup_cons_ite, ih]
        by_cases e : a = n
        · subst e; simp [hn]
        · simp [e]

/-- the fold underlying `canonMap` -/
def canonFold (H : Bytes → Bytes) (init : List (String × Bytes)) (l : List StoreInfo) : List (String × Bytes) :=
  l.foldl (fun m si => setName m si.name (H si.root)) init

theorem canonMap_eq (H : Bytes → Bytes) (l : List StoreInfo) : canonMap H l = canonFold H [] l := rfl

theorem canonFold_lookup_of_not_mem (H : Bytes → Bytes) (l : List StoreInfo) (init : List (String × Bytes)) (a : String)
    (h : ∀ si ∈ l, si.name ≠ a) : (canonFold H init l).lookup a = init.lookup a := by
  induction l generalizing init with
  | nil => rfl
  | cons x tl ih =>
    simp only [canonFold, List.foldl_cons]
    have := ih (setName init x.name (H x.root)) (fun si hsi => h si (List.mem_cons_of_mem _ hsi))
    simp only [canonFold] at this
    rw [this, lookup_setName]
    have : ¬ a = x.name := fun e => h x (List.mem_cons_self ..) e.symm
    simp [this]

theorem canonFold_lookup_of_mem (H : Bytes → Bytes) (l : List StoreInfo) (init : List (String × Bytes))
    (hn : (l.map (·.name)).Nodup) (si : StoreInfo) (hsi : si ∈ l) :
    (canonFold H init l).lookup si.name = some (H si.root) := by
  induction l generalizing init with
  | nil => cases hsi
  | cons x tl ih =>
    simp only [List.map_cons, List.nodup_cons, List.mem_map, not_exists, not_and] at hn
    rcases List.mem_cons.mp hsi with e | hmem
    · subst e
      have := canonFold_lookup_of_not_mem H tl (setName init si.name (H si.root)) si.name (fun y hy => hn.1 y hy)
      simp only [canonFold, List.foldl_cons] at this ⊢
      rw [this, lookup_setName]; simp
    · have := ih (setName init x.name (H x.root)) hn.2 hmem
      simpa only [canonFold, List.foldl_cons] using this

theorem canonFold_lookup_some (H : Bytes → Bytes) (l : List StoreInfo) (init : List (String × Bytes)) (a : String) (r : Bytes)
    (h : (canonFold H init l).lookup a = some r) :
    init.lookup a = some r ∨ ∃ si ∈ l, si.name = a ∧ H si.root = r := by
  induction l generalizing init with
  | nil => exact Or.inl h
  | cons x tl ih =>
    have h' : (canonFold H (setName init x.name (H x.root)) tl).lookup a = some r := by
      simpa only [canonFold, List.foldl_cons] using h
    rcases ih _ h' with h1 | ⟨si, hsi, h2⟩
    · rw [lookup_setName] at h1
      by_cases e : a = x.name
      · simp only [e, if_true, Option.some.injEq] at h1
        exact Or.inr ⟨x, List.mem_cons_self .., e.symm, h1⟩
      · simp only [e, if_false] at h1; exact Or.inl h1
    · exact Or.inr ⟨si, List.mem_cons_of_mem _ hsi, h2⟩

end Posmint.RM
